------------------------------- MODULE LuLemmas -------------------------------
\* Oracle sanity for LuInt.tla: the subset-table determinant agrees with the
\* Leibniz formula, is multiplicative and transpose-invariant, flips sign on a
\* row exchange; Parity agrees with the determinant of the permutation matrix;
\* the adjugate solves the equation (Cramer); the elimination transcription
\* returns the same determinant.
EXTENDS LuInt
CONSTANTS E2,     \* all 2x2 matrices over -E2..E2
          E3      \* all 3x3 matrices over -E3..E3

Sq(n, m) == {[r |-> n, c |-> n, e |-> e] : e \in [1..n -> [1..n -> (0 - m)..m]]}
PermMat(s) == Mk(Len(s), Len(s), LAMBDA i, j : IF s[i] + 1 = j THEN 1 ELSE 0)
Perms0(n) == {s \in [1..n -> 0..(n - 1)] : \A i, j \in 1..n : i # j => s[i] # s[j]}
SwapRows(A, a, b) == Mk(A.r, A.c, LAMBDA i, j : A.e[IF i = a THEN b ELSE IF i = b THEN a ELSE i][j])

ASSUME DetIsLeibniz ==
  /\ \A A \in Sq(1, 3) \cup Sq(2, E2) \cup Sq(3, E3) : Det(A) = DetPerm(A)
  /\ LET A == [r |-> 4, c |-> 4, e |-> <<<<2, -1, 0, 3>>, <<1, 4, -2, 0>>, <<0, 5, 1, -3>>, <<7, 0, 2, 1>>>>]
     IN Det(A) = DetPerm(A)
  /\ LET A == [r |-> 5, c |-> 5, e |-> <<<<2, -1, 0, 3, 1>>, <<1, 4, -2, 0, 9>>, <<0, 5, 1, -3, -9>>, <<7, 0, 2, 1, 4>>, <<-6, 3, 3, 8, 0>>>>]
     IN Det(A) = DetPerm(A) /\ Det(Transp(A)) = Det(A) /\ AlgoLU(A).det = Det(A)
  /\ Det(Id(6)) = 1 /\ Det(ScaleM(Id(6), 9, 0)) = 531441 /\ Det(Mk(6, 6, LAMBDA i, j : IF i <= j THEN 2 ELSE 0)) = 64
  /\ Det(Mk(6, 6, LAMBDA i, j : 9)) = 0
ASSUME DetLaws ==
  /\ \A A \in Sq(2, E2) \cup Sq(3, E3) :
       /\ Det(Transp(A)) = Det(A)
       /\ Det(SwapRows(A, 1, 2)) = 0 - Det(A)
       /\ AlgoLU(A).det = Det(A)
       /\ Mul(A, Adj(A)) = ScaleM(Id(A.r), Det(A), 0)
  /\ \A A, B \in Sq(2, E2) : Det(Mul(A, B)) = Det(A) * Det(B)
ASSUME ParityIsDetOfPermutation ==
  \A n \in 1..4 : \A s \in Perms0(n) : Parity(s) = Det(PermMat(s)) /\ IsPerm0(s, n)
ASSUME PermuteRowsByMatrix ==
  \A s \in Perms0(3) : \A A \in {Mk(3, 3, LAMBDA i, j : 3 * i + j), Mk(3, 2, LAMBDA i, j : i * i - j)} :
    PermuteRows(A, s) = Mul(PermMat(s), A)
ASSUME Judges ==
  LET A == [r |-> 2, c |-> 2, e |-> <<<<2, 1>>, <<1, 1>>>>]
      B == [r |-> 2, c |-> 1, e |-> <<<<3>>, <<2>>>>] IN
  /\ Det(A) = 1 /\ SolvedExactly(A, B, [r |-> 2, c |-> 1, e |-> <<<<1>>, <<1>>>>], 1)
  /\ ~SolvedExactly(A, B, [r |-> 2, c |-> 1, e |-> <<<<1>>, <<2>>>>], 1)
  /\ Required(A, B, FALSE) = "ok" /\ Required(A, B, TRUE) = "zero"
  /\ Required(Mk(2, 2, LAMBDA i, j : 1), B, FALSE) = "zero"
  /\ Required(A, Mk(3, 1, LAMBDA i, j : 1), FALSE) = "refuse"
  /\ ~IsPerm0(<<0, 0>>, 2) /\ ~IsPerm0(<<0, 2>>, 2) /\ Parity(<<1, 0, 2>>) = -1 /\ Parity(<<1, 2, 0>>) = 1

VARIABLE dummy
LInit == dummy = 0 /\ Init
LNext == UNCHANGED <<dummy, vars>>
LSpec == LInit /\ [][LNext]_<<dummy, vars>>
=============================================================================
