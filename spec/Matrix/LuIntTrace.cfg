SPECIFICATION TraceSpec
CONSTANTS
  Objs = {}
  NMax = 0
  EMax = 0
  MaxCalls = 1000000000
INVARIANTS OutcomeAsRequired ResultsMeetEquations FactoredSquare
POSTCONDITION TraceAccepted
CHECK_DEADLOCK FALSE
