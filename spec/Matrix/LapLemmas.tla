------------------------------- MODULE LapLemmas -------------------------------
\* Oracle sanity for Lap.tla: the subset DP equals the minimum over all
\* permutations on every cost matrix over 0..CMax up to N x N, weak duality
\* holds for every feasible dual over a small range, and LapOk accepts /
\* rejects hand-made solutions as it should.
EXTENDS Lap
CONSTANTS N, CMax

Costs(n) == {[r |-> n, c |-> n, e |-> e] : e \in [1..n -> [1..n -> 0..CMax]]}

ASSUME DPIsBruteForce == \A n \in 0..N : \A C \in Costs(n) : MinCost(C) = MinCostBrute(C)
ASSUME DPOnLarger ==
  LET C == [r |-> 5, c |-> 5, e |-> <<<<7, 3, 9, 4, 8>>, <<2, 6, 1, 7, 5>>, <<9, 8, 2, 3, 6>>, <<4, 1, 7, 9, 2>>, <<5, 5, 5, 1, 3>>>>]
  IN MinCost(C) = MinCostBrute(C)
ASSUME WeakDuality ==
  \A C \in Costs(2) : \A u, v \in [1..2 -> -1..CMax] :
     (\A i, j \in 1..2 : u[i] + v[j] <= C.e[i][j]) => u[1] + u[2] + v[1] + v[2] <= MinCost(C)
ASSUME Judges ==
  LET C == [r |-> 2, c |-> 2, e |-> <<<<1, 2>>, <<0, 2>>>>] IN
  /\ MinCost(C) = 2
  /\ LapOk(C, <<1, 0>>, <<1, 0>>, <<1, 0>>, <<0, 1>>, 2)
  /\ ~LapOk(C, <<0, 1>>, <<0, 1>>, <<1, 0>>, <<0, 2>>, 3)          \* not minimal
  /\ ~LapOk(C, <<1, 0>>, <<0, 1>>, <<1, 0>>, <<0, 1>>, 2)          \* colSol is not the inverse
  /\ ~LapOk(C, <<1, 0>>, <<1, 0>>, <<2, 0>>, <<0, 0>>, 2)          \* dual infeasible (tight, right total)
  /\ ~LapOk(C, <<1, 0>>, <<1, 0>>, <<0, 0>>, <<0, 0>>, 2)          \* dual feasible but not tight
  /\ ~LapOk(C, <<1, 0>>, <<1, 0>>, <<1, 0>>, <<0, 1>>, 3)          \* wrong reported cost
  /\ ~LapOk(C, <<1, 1>>, <<1, 0>>, <<1, 0>>, <<0, 1>>, 2)          \* not a permutation
  /\ LapOk([r |-> 0, c |-> 0, e |-> <<>>], <<>>, <<>>, <<>>, <<>>, 0)

VARIABLE dummy
Init == dummy = 0
Next == UNCHANGED dummy
Spec == Init /\ [][Next]_dummy
=============================================================================
