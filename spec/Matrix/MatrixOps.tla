------------------------------ MODULE MatrixOps ------------------------------
\* C04 - design model of bpp-core's MatrixTools on a heap of matrix objects.
\*
\* State: heap[id] = content of matrix object id (storage class is deliberately
\* NOT part of the state: the property says it must not matter), out = outcome
\* of the last call, last = ghost record describing the last call *by its
\* definition* (MatDefs): whether the operands were conformable, what every
\* output object must hold, which objects were read-only operands.
\*
\* One action per public call.  Every action has the shape
\*     Step(op, conf, either, ins, expect, ok, outs, resok)
\*   - the design model (Next) supplies ok/outs from a transcription of the
\*     routine's loops (the Algo operators: explicit resize of a stale output
\*     object that keeps its old cells, write sets, index arithmetic, binary
\*     powering, ...) and TLC checks, for every heap inside the bound, that the
\*     invariants - the property - hold;
\*   - the trace specification MatrixOpsTrace supplies ok/outs from what the
\*     real objects hold after the call, so the same ghost and the same
\*     invariants judge the implementation.
EXTENDS MatDefs

CONSTANTS Ids,       \* operand objects of the design model
          OutId,     \* the object used as (stale) output argument
          DMax,      \* operands have 0..DMax rows / columns
          Vals,      \* entry set of the initial operands
          Bound,     \* heaps with an entry beyond -Bound..Bound are not expanded
          Depth      \* number of calls explored from every initial heap

VARIABLES heap, out, last
vars == <<heap, out, last>>

RaiseDim == "raise:DimensionException"

Override(h, f) == [id \in DOMAIN h \cup DOMAIN f |-> IF id \in DOMAIN f THEN f[id] ELSE h[id]]
NoLast == [op |-> "none", conf |-> TRUE, either |-> FALSE, ins |-> {}, expect |-> <<>>, pre |-> <<>>, resok |-> TRUE, n |-> 0]

\* conf   : the operands are conformable (definition)
\* either : the statement leaves the outcome open (DESIGN 2e: add(A,B) with A strictly inside B)
\* ins    : objects passed as operands;  expect : output object -> matrix required by the definition
\* outcome/outs: "ok" / "raise:<class>" and content of the objects written, as computed (model) or observed (trace)
\* resok  : results returned by value (positions, extrema, sums, vectors of matrices) match their definition
\* the design model expands only heaps whose operands are inside the bound, up to Depth calls
\* (the trace specification sets the bounds out of reach)
InBound == /\ last.n < Depth
           /\ \A id \in Ids : /\ heap[id].r <= DMax /\ heap[id].c <= DMax
                              /\ \A i \in 1..heap[id].r, j \in 1..heap[id].c : heap[id].e[i][j] \in (0 - Bound)..Bound

Step(op, conf, either, ins, expect, outcome, outs, resok) ==
  /\ InBound
  /\ out'  = outcome
  /\ heap' = Override(heap, outs)
  /\ last' = [op |-> op, conf |-> conf, either |-> either, ins |-> ins, expect |-> expect, pre |-> heap, resok |-> resok, n |-> last.n + 1]

\* ---------------------------------------------------------------- the property
OutcomeMatchesConformability ==
  /\ (last.conf /\ ~last.either) => out = "ok"
  /\ ~last.conf => out = RaiseDim
ResultIsDefinition ==
  out = "ok" => \A o \in DOMAIN last.expect : heap[o] = last.expect[o]
InputsUntouched ==
  \A id \in last.ins : id \notin DOMAIN last.expect => heap[id] = last.pre[id]
ReturnedValuesMatch == last.resok
WellFormedHeap == \A id \in DOMAIN heap : WF(heap[id])
\* design only: a refused call changes nothing at all
RaiseKeepsEverything == out # "ok" => heap = last.pre

\* ---------------------------------------------------------------- algorithm transcriptions
\* Matrix::resize of all three storage classes keeps the overlapping cells and zero-fills the new ones
Resize(O, r, c) == Mk(r, c, LAMBDA i, j : IF i <= O.r /\ j <= O.c THEN O.e[i][j] ELSE 0)
\* loops that assign W(i,j) to the cells In(i,j) of the (resized) output, leaving the other cells as they are
Fill(R, In(_, _), W(_, _)) == Mk(R.r, R.c, LAMBDA i, j : IF In(i, j) THEN W(i, j) ELSE R.e[i][j])

AlgoDSum(O, A, B) ==
  LET R  == Resize(O, A.r + B.r, A.c + B.c)
      s1 == Fill(R,  LAMBDA i, j : i <= A.r /\ j <= A.c, LAMBDA i, j : A.e[i][j])
      s2 == Fill(s1, LAMBDA i, j : i <= A.r /\ j > A.c,  LAMBDA i, j : 0)
      s3 == Fill(s2, LAMBDA i, j : i > A.r /\ j <= A.c,  LAMBDA i, j : 0)
  IN  Fill(s3, LAMBDA i, j : i > A.r /\ j > A.c, LAMBDA i, j : B.e[i - A.r][j - A.c])

\* vector form: zero everything, then copy block k at the running offsets
RECURSIVE AlgoDSumLoop(_, _, _, _, _)
AlgoDSumLoop(cur, s, k, rk, ck) ==
  IF k > Len(s) THEN cur
  ELSE LET A == s[k] IN
       AlgoDSumLoop(Fill(cur, LAMBDA i, j : i > rk /\ i <= rk + A.r /\ j > ck /\ j <= ck + A.c,
                              LAMBDA i, j : A.e[i - rk][j - ck]),
                    s, k + 1, rk + A.r, ck + A.c)
AlgoDSumN(O, s) ==
  LET nr == SumTo([k \in 1..Len(s) |-> s[k].r], Len(s))
      nc == SumTo([k \in 1..Len(s) |-> s[k].c], Len(s))
  IN  AlgoDSumLoop(Fill(Resize(O, nr, nc), LAMBDA i, j : TRUE, LAMBDA i, j : 0), s, 1, 0, 0)

\* the code scans (ia, ja, ib, jb) and writes O(ia.nrB + ib, ja.ncB + jb); with check = FALSE the output is not resized
AlgoKron(O, A, B, check) ==
  LET R == IF check THEN Resize(O, A.r * B.r, A.c * B.c) ELSE O
      Src(i, j) == {q \in (1..A.r) \X (1..A.c) \X (1..B.r) \X (1..B.c) :
                      i = (q[1] - 1) * B.r + q[3] /\ j = (q[2] - 1) * B.c + q[4]}
  IN  Fill(R, LAMBDA i, j : Src(i, j) # {},
              LAMBDA i, j : LET s == CHOOSE q \in Src(i, j) : TRUE IN A.e[s[1]][s[2]] * B.e[s[3]][s[4]])

\* recursive squaring as in pow(A, p, O)
RECURSIVE AlgoPow(_, _)
AlgoPow(A, p) ==
  CASE p = 0 -> Id(A.r)
    [] p = 1 -> A
    [] p = 2 -> Mul(A, A)
    [] p > 2 /\ p % 2 = 0 -> LET t == AlgoPow(A, p \div 2) IN Mul(t, t)
    [] OTHER -> LET t == AlgoPow(A, (p - 1) \div 2) IN Mul(A, Mul(t, t))

\* vO[0] = I, vO[1] = A (when p >= 1), vO[i+1] = vO[i] . A
AlgoTaylor(A, p) ==
  LET F[i \in 0..p] == IF i = 0 THEN Id(A.r) ELSE IF i = 1 THEN A ELSE Mul(F[i - 1], A)
  IN  [k \in 1..(p + 1) |-> F[k - 1]]

\* first row of the band, interior rows, last row (the last two only when there are at least two rows)
AlgoMulTri(A, d, u, l, B) ==
  LET n == A.c IN
  Mk(A.r, B.c, LAMBDA i, j :
       A.e[i][1] * d[1] * B.e[1][j]
       + (IF n > 1 THEN A.e[i][1] * u[1] * B.e[2][j] ELSE 0)
       + SumTo([t \in 1..(IF n > 2 THEN n - 2 ELSE 0) |->
                  LET k == t + 1 IN A.e[i][k] * (l[k - 1] * B.e[k - 1][j] + d[k] * B.e[k][j] + u[k] * B.e[k + 1][j])],
               IF n > 2 THEN n - 2 ELSE 0)
       + (IF n >= 2 THEN A.e[i][n] * l[n - 1] * B.e[n - 1][j] + A.e[i][n] * d[n] * B.e[n][j] ELSE 0))

\* covar in units of 1/n^2: n.(A.A^T) - s.s^T with s the column of row sums
AlgoCovar2(A) ==
  LET s == Mk(A.r, 1, LAMBDA i, j : SumTo(A.e[i], A.c))
  IN  AddM(ScaleM(Mul(A, Transp(A)), A.c, 0), ScaleM(Mul(s, Transp(s)), -1, 0))

\* first strict maximum in row-major order, as the scan of whichMax
AlgoWhichMax(A) ==
  LET Before(p, q) == p[1] < q[1] \/ (p[1] = q[1] /\ p[2] < q[2])
      Cells == (1..A.r) \X (1..A.c)
  IN  CHOOSE p \in Cells : /\ \A q \in Cells : A.e[q[1]][q[2]] <= A.e[p[1]][p[2]]
                           /\ \A q \in Cells : A.e[q[1]][q[2]] = A.e[p[1]][p[2]] => ~Before(q, p)
ArgMax(A) == {p \in (1..A.r) \X (1..A.c) : A.e[p[1]][p[2]] = MaxV(A)}
ArgMin(A) == {p \in (1..A.r) \X (1..A.c) : A.e[p[1]][p[2]] = MinV(A)}

\* ---------------------------------------------------------------- actions of the design model
H(id) == heap[id]
One(o, m) == o :> m
Oc(ok) == IF ok THEN "ok" ELSE RaiseDim
When(c, f) == IF c THEN f ELSE <<>>
VecsOf(n) == {[k \in 1..n |-> 1], [k \in 1..n |-> k], [k \in 1..n |-> 1 - k]}
Lens(n) == {n, n + 1} \cup (IF n > 0 THEN {n - 1} ELSE {})

DMul(a, b) ==
  LET A == H(a) B == H(b) ok == A.c = B.r IN
  Step("Mul", ConfMul(A, B), FALSE, {a, b}, When(ConfMul(A, B), One(OutId, Mul(A, B))),
       Oc(ok), When(ok, One(OutId, Mul(A, B))), TRUE)

DMulDiag(a, b) ==
  LET A == H(a) B == H(b) IN
  \E n \in Lens(A.c) : \E d \in VecsOf(n) :
    LET ok == A.c = B.r /\ A.c = Len(d) IN
    Step("MulDiag", ConfMulDiag(A, d, B), FALSE, {a, b}, When(ConfMulDiag(A, d, B), One(OutId, MulDiag(A, d, B))),
         Oc(ok), When(ok, One(OutId, Mul(Mul(A, Diag(d)), B))), TRUE)

DMulTri(a, b) ==
  LET A == H(a) B == H(b) n == A.c IN
  n >= 1 /\
  \E ln \in {<<n, n - 1>>, <<n + 1, n - 1>>, <<n, n>>} \cup (IF n >= 2 THEN {<<n, n - 2>>} ELSE {}) :
  \E d \in VecsOf(ln[1]), u \in VecsOf(ln[2]) :
    LET l == [k \in 1..(n - 1) |-> k + 1]
        ok == A.c = B.r /\ A.c = Len(d) /\ A.c = Len(u) + 1 /\ A.c = Len(l) + 1
        conf == ConfMulTri(A, d, u, l, B) IN
    Step("MulTri", conf, FALSE, {a, b}, When(conf, One(OutId, MulTri(A, d, u, l, B))),
         Oc(ok), When(ok, One(OutId, AlgoMulTri(A, d, u, l, B))), TRUE)

\* (A + i.B)(B + i.A): the real part goes to the output object, the imaginary part is compared by value
DMulC(a, b) ==
  LET A == H(a) B == H(b)
      conf == ConfMulC(A, B, B, A) IN
  Step("MulC", conf, FALSE, {a, b}, When(conf, One(OutId, MulC(A, B, B, A)[1])),
       Oc(conf), When(conf, One(OutId, AddM(Mul(A, B), ScaleM(Mul(B, A), -1, 0)))),
       conf => MulC(A, B, B, A)[2] = AddM(Mul(A, A), Mul(B, B)))

\* add(A, B): equal shapes must add; A larger must raise; A strictly inside B: either outcome (sub-block sum when accepted)
DAdd(a, b) ==
  LET A == H(a) B == H(b) IN
  \E accept \in BOOLEAN :
    LET ok == SmallerOrEqual(A, B) /\ (SameDims(A, B) \/ accept) IN
    Step("Add", SmallerOrEqual(A, B), ~SameDims(A, B), {b} \ {a}, When(SmallerOrEqual(A, B), One(a, AddM(A, B))),
         Oc(ok), When(ok, One(a, AddM(A, B))), TRUE)

DAddScaled(a, b) ==
  LET A == H(a) B == H(b) ok == A.c = B.c /\ A.r = B.r IN
  \E x \in {-1, 2} :
    Step("AddScaled", SameDims(A, B), FALSE, {b} \ {a}, When(SameDims(A, B), One(a, AddScaled(A, x, B))),
         Oc(ok), When(ok, One(a, AddM(A, ScaleM(B, x, 0)))), TRUE)

DScale(a) ==
  \E x \in {-1, 1, 2}, y \in {0, 1} :
    Step("Scale", TRUE, FALSE, {}, One(a, ScaleM(H(a), x, y)),
         "ok", One(a, IF x = 1 /\ y = 0 THEN H(a) ELSE ScaleM(H(a), x, y)), TRUE)

DTranspose(a) ==
  Step("Transpose", TRUE, FALSE, {a}, One(OutId, Transp(H(a))),
       "ok", One(OutId, Fill(Resize(H(OutId), H(a).c, H(a).r), LAMBDA i, j : TRUE, LAMBDA i, j : H(a).e[j][i])), TRUE)

DPow(a) ==
  \E p \in 0..5 :
    LET ok == H(a).r = H(a).c IN
    Step("Pow", IsSquare(H(a)), FALSE, {a}, When(IsSquare(H(a)), One(OutId, PowM(H(a), p))),
         Oc(ok), When(ok, One(OutId, AlgoPow(H(a), p))), TRUE)

DTaylor(a) ==
  \E p \in 0..3 :
    Step("Taylor", IsSquare(H(a)), FALSE, {a}, <<>>,
         Oc(H(a).r = H(a).c), <<>>, IsSquare(H(a)) => AlgoTaylor(H(a), p) = Taylor(H(a), p))

DKron(a, b) ==
  \E check \in BOOLEAN :
    LET A == H(a) B == H(b) IN
    \* without the resize the caller must supply an output of the exact size
    (check \/ (H(OutId).r = A.r * B.r /\ H(OutId).c = A.c * B.c)) /\
    Step("Kron", TRUE, FALSE, {a, b}, One(OutId, Kron(A, B)),
         "ok", One(OutId, AlgoKron(H(OutId), A, B, check)), TRUE)

DKronDiag(a) ==
  \E dim \in 0..2, v \in {1, 3} :
    Step("KronDiag", TRUE, FALSE, {a}, One(OutId, KronDiag(H(a), dim, v)),
         "ok", One(OutId, AlgoKron(H(OutId), H(a), Mk(dim, dim, LAMBDA i, j : IF i = j THEN v ELSE 0), TRUE)), TRUE)

DKronRepl(a, b) ==
  \E dA \in {2}, dB \in {0, 3} :
    Step("KronRepl", TRUE, FALSE, {a, b}, One(OutId, KronRepl(H(a), H(b), dA, dB)),
         "ok", One(OutId, AlgoKron(H(OutId), ReplDiag(H(a), dA), ReplDiag(H(b), dB), TRUE)), TRUE)

DHad(a, b) ==
  LET A == H(a) B == H(b) ok == A.r = B.r /\ A.c = B.c IN
  Step("Had", SameDims(A, B), FALSE, {a, b}, When(SameDims(A, B), One(OutId, Had(A, B))),
       Oc(ok), When(ok, One(OutId, Had(B, A))), TRUE)

DHadVec(a) ==
  \E byRow \in BOOLEAN : \E n \in Lens(IF byRow THEN H(a).r ELSE H(a).c) : \E v \in VecsOf(n) :
    LET ok == Len(v) = (IF byRow THEN H(a).r ELSE H(a).c)
        conf == ConfHadVec(H(a), v, byRow) IN
    Step("HadVec", conf, FALSE, {a}, When(conf, One(OutId, HadVec(H(a), v, byRow))),
         Oc(ok), When(ok, One(OutId, IF byRow THEN Mul(Diag(v), H(a)) ELSE Mul(H(a), Diag(v)))), TRUE)

DDSum(a, b) ==
  Step("DSum", TRUE, FALSE, {a, b}, One(OutId, DSum(H(a), H(b))),
       "ok", One(OutId, AlgoDSum(H(OutId), H(a), H(b))), TRUE)

DDSumN(a, b) ==
  \E s \in {<<>>, <<H(a)>>, <<H(a), H(b)>>, <<H(a), H(b), H(a)>>} :
    Step("DSumN", TRUE, FALSE, {a, b}, One(OutId, DSumN(s)),
         "ok", One(OutId, AlgoDSumN(H(OutId), s)), TRUE)

DCovar(a) ==
  Step("Covar", TRUE, FALSE, {a}, <<>>, "ok", <<>>, H(a).c >= 1 => AlgoCovar2(H(a)) = Covar2(H(a)))

DExtrema(a) ==
  LET A == H(a) IN
  Step("Extrema", TRUE, FALSE, {a}, <<>>, "ok", <<>>,
       (A.r >= 1 /\ A.c >= 1) => /\ AlgoWhichMax(A) \in ArgMax(A)
                   /\ A.e[AlgoWhichMax(A)[1]][AlgoWhichMax(A)[2]] = MaxV(A))

SignedVals == {-1, 0, 1}          \* for "Vals <- SignedVals" in a configuration (a cfg cannot spell negative numbers)
Z00 == [r |-> 0, c |-> 0, e |-> <<>>]
Sentinels == {Z00, Mk(1, 1, LAMBDA i, j : 7), Mk(3, 3, LAMBDA i, j : 7)}
\* every shape 0..DMax x 0..DMax, the degenerate r x 0 / 0 x c included (one matrix each)
Shapes(S) == UNION {{[r |-> r, c |-> c, e |-> e] : e \in [1..r -> [1..c -> S]]} : r \in 0..DMax, c \in 0..DMax}

Init == /\ heap \in {f \in [Ids \cup {OutId} -> Shapes(Vals) \cup Sentinels] :
                       f[OutId] \in Sentinels /\ \A id \in Ids : f[id] \in Shapes(Vals)}
        /\ out = "ok" /\ last = NoLast

Next == \/ \E a, b \in Ids : \/ DMul(a, b) \/ DMulDiag(a, b) \/ DMulTri(a, b) \/ DMulC(a, b)
                             \/ DAdd(a, b) \/ DAddScaled(a, b) \/ DKron(a, b) \/ DKronRepl(a, b)
                             \/ DHad(a, b) \/ DDSum(a, b) \/ DDSumN(a, b)
        \/ \E a \in Ids : \/ DScale(a) \/ DTranspose(a) \/ DPow(a) \/ DTaylor(a) \/ DKronDiag(a)
                          \/ DHadVec(a) \/ DCovar(a) \/ DExtrema(a)

Spec == Init /\ [][Next]_vars

=============================================================================
