SPECIFICATION TraceSpec
CONSTANTS
  SIds = {}
  SDim = 0
  SVals = {}
INVARIANTS Refines
POSTCONDITION TraceAccepted
CHECK_DEADLOCK FALSE
