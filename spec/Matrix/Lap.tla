---------------------------------- MODULE Lap ----------------------------------
\* Linear assignment (MatrixTools::lap): definitions the returned solution is
\* judged by.  A cost matrix is a MatDefs matrix (integers or dyadic numerators);
\* rowSol / colSol hold 0-based indices as the code returns them.
EXTENDS MatDefs

\* ---------------------------------------------------------------- optimum, by dynamic programming over column subsets
\* Lvl[k][S] = cheapest way to give rows k..n distinct columns of S (|S| = n-k+1)
MinOf(vals) == CHOOSE m \in vals : \A y \in vals : m <= y
RECURSIVE LapDP(_, _, _)
LapDP(C, k, nxt) ==
  IF k = 0 THEN nxt[1..C.r]
  ELSE LapDP(C, k - 1,
             TLCEval([S \in {T \in SUBSET (1..C.r) : Cardinality(T) = C.r - k + 1} |->
                        MinOf({C.e[k][j] + nxt[S \ {j}] : j \in S})]))
MinCost(C) == IF C.r = 0 THEN 0 ELSE LapDP(C, C.r, [S \in {{}} |-> 0])

\* the same by brute force over all permutations (used by the lemmas only)
Perms(n) == {p \in [1..n -> 1..n] : \A i, j \in 1..n : i # j => p[i] # p[j]}
MinCostBrute(C) == IF C.r = 0 THEN 0
                   ELSE MinOf({SumTo([i \in 1..C.r |-> C.e[i][p[i]]], C.r) : p \in Perms(C.r)})

\* ---------------------------------------------------------------- what lap() must return
IsPerm0(s, n) == DOMAIN s = 1..n /\ {s[i] : i \in 1..n} = 0..(n - 1)
CostOf(C, rowSol) == SumTo([i \in 1..C.r |-> C.e[i][rowSol[i] + 1]], C.r)

Assignment(C, rowSol, colSol) ==
  /\ IsPerm0(rowSol, C.r) /\ IsPerm0(colSol, C.r)
  /\ \A i \in 1..C.r : colSol[rowSol[i] + 1] = i - 1              \* the two views are inverse of each other

\* dual certificate: u, v feasible, tight on the assignment, total equal to the primal cost
Certified(C, rowSol, u, v, cost) ==
  /\ DOMAIN u = 1..C.r /\ DOMAIN v = 1..C.r
  /\ \A i, j \in 1..C.r : u[i] + v[j] <= C.e[i][j]
  /\ \A i \in 1..C.r : u[i] + v[rowSol[i] + 1] = C.e[i][rowSol[i] + 1]
  /\ SumTo(u, C.r) + SumTo(v, C.r) = cost

LapOk(C, rowSol, colSol, u, v, cost) ==
  /\ Assignment(C, rowSol, colSol)
  /\ cost = CostOf(C, rowSol)
  /\ cost = MinCost(C)                                            \* minimal over all permutations
  /\ Certified(C, rowSol, u, v, cost)
=============================================================================
