---- MODULE MatrixOpsTrace_TTrace_1790490397 ----
EXTENDS Sequences, TLCExt, Toolbox, Naturals, TLC, MatrixOpsTrace

_expression ==
    LET MatrixOpsTrace_TEExpression == INSTANCE MatrixOpsTrace_TEExpression
    IN MatrixOpsTrace_TEExpression!expression
----

_trace ==
    LET MatrixOpsTrace_TETrace == INSTANCE MatrixOpsTrace_TETrace
    IN MatrixOpsTrace_TETrace!trace
----

_inv ==
    ~(
        TLCGet("level") = Len(_TETrace)
        /\
        last = ([conf |-> TRUE, either |-> TRUE, expect |-> <<>>, resok |-> FALSE, op |-> "Lap", ins |-> {}, pre |-> <<>>, n |-> 5])
        /\
        heap = (<<>>)
        /\
        l = (7)
        /\
        out = ("ok")
    )
----

_init ==
    /\ heap = _TETrace[1].heap
    /\ l = _TETrace[1].l
    /\ last = _TETrace[1].last
    /\ out = _TETrace[1].out
----

_next ==
    /\ \E i,j \in DOMAIN _TETrace:
        /\ \/ /\ j = i + 1
              /\ i = TLCGet("level")
        /\ heap  = _TETrace[i].heap
        /\ heap' = _TETrace[j].heap
        /\ l  = _TETrace[i].l
        /\ l' = _TETrace[j].l
        /\ last  = _TETrace[i].last
        /\ last' = _TETrace[j].last
        /\ out  = _TETrace[i].out
        /\ out' = _TETrace[j].out

\* Uncomment the ASSUME below to write the states of the error trace
\* to the given file in Json format. Note that you can pass any tuple
\* to `JsonSerialize`. For example, a sub-sequence of _TETrace.
    \* ASSUME
    \*     LET J == INSTANCE Json
    \*         IN J!JsonSerialize("MatrixOpsTrace_TTrace_1790490397.json", _TETrace)

=============================================================================

 Note that you can extract this module `MatrixOpsTrace_TEExpression`
  to a dedicated file to reuse `expression` (the module in the 
  dedicated `MatrixOpsTrace_TEExpression.tla` file takes precedence 
  over the module `MatrixOpsTrace_TEExpression` below).

---- MODULE MatrixOpsTrace_TEExpression ----
EXTENDS Sequences, TLCExt, Toolbox, Naturals, TLC, MatrixOpsTrace

expression == 
    [
        \* To hide variables of the `MatrixOpsTrace` spec from the error trace,
        \* remove the variables below.  The trace will be written in the order
        \* of the fields of this record.
        heap |-> heap
        ,l |-> l
        ,last |-> last
        ,out |-> out
        
        \* Put additional constant-, state-, and action-level expressions here:
        \* ,_stateNumber |-> _TEPosition
        \* ,_heapUnchanged |-> heap = heap'
        
        \* Format the `heap` variable as Json value.
        \* ,_heapJson |->
        \*     LET J == INSTANCE Json
        \*     IN J!ToJson(heap)
        
        \* Lastly, you may build expressions over arbitrary sets of states by
        \* leveraging the _TETrace operator.  For example, this is how to
        \* count the number of times a spec variable changed up to the current
        \* state in the trace.
        \* ,_heapModCount |->
        \*     LET F[s \in DOMAIN _TETrace] ==
        \*         IF s = 1 THEN 0
        \*         ELSE IF _TETrace[s].heap # _TETrace[s-1].heap
        \*             THEN 1 + F[s-1] ELSE F[s-1]
        \*     IN F[_TEPosition - 1]
    ]

=============================================================================



Parsing and semantic processing can take forever if the trace below is long.
 In this case, it is advised to uncomment the module below to deserialize the
 trace from a generated binary file.

\*
\*---- MODULE MatrixOpsTrace_TETrace ----
\*EXTENDS IOUtils, TLC, MatrixOpsTrace
\*
\*trace == IODeserialize("MatrixOpsTrace_TTrace_1790490397.bin", TRUE)
\*
\*=============================================================================
\*

---- MODULE MatrixOpsTrace_TETrace ----
EXTENDS TLC, MatrixOpsTrace

trace == 
    <<
    ([last |-> [conf |-> TRUE, either |-> FALSE, expect |-> <<>>, resok |-> TRUE, op |-> "none", ins |-> {}, pre |-> <<>>, n |-> 0],heap |-> <<>>,l |-> 1,out |-> "ok"]),
    ([last |-> [conf |-> TRUE, either |-> FALSE, expect |-> <<>>, resok |-> TRUE, op |-> "none", ins |-> {}, pre |-> <<>>, n |-> 0],heap |-> <<>>,l |-> 2,out |-> "ok"]),
    ([last |-> [conf |-> TRUE, either |-> TRUE, expect |-> <<>>, resok |-> TRUE, op |-> "Lap", ins |-> {}, pre |-> <<>>, n |-> 1],heap |-> <<>>,l |-> 3,out |-> "ok"]),
    ([last |-> [conf |-> TRUE, either |-> TRUE, expect |-> <<>>, resok |-> TRUE, op |-> "Lap", ins |-> {}, pre |-> <<>>, n |-> 2],heap |-> <<>>,l |-> 4,out |-> "ok"]),
    ([last |-> [conf |-> TRUE, either |-> TRUE, expect |-> <<>>, resok |-> TRUE, op |-> "Lap", ins |-> {}, pre |-> <<>>, n |-> 3],heap |-> <<>>,l |-> 5,out |-> "ok"]),
    ([last |-> [conf |-> TRUE, either |-> TRUE, expect |-> <<>>, resok |-> TRUE, op |-> "Lap", ins |-> {}, pre |-> <<>>, n |-> 4],heap |-> <<>>,l |-> 6,out |-> "ok"]),
    ([last |-> [conf |-> TRUE, either |-> TRUE, expect |-> <<>>, resok |-> FALSE, op |-> "Lap", ins |-> {}, pre |-> <<>>, n |-> 5],heap |-> <<>>,l |-> 7,out |-> "ok"])
    >>
----


=============================================================================

---- CONFIG MatrixOpsTrace_TTrace_1790490397 ----
CONSTANTS
    Ids = { }
    OutId = 0
    DMax = 0
    Vals = { }
    Bound = 0
    Depth = 0

INVARIANT
    _inv

CHECK_DEADLOCK
    \* CHECK_DEADLOCK off because of PROPERTY or INVARIANT above.
    FALSE

INIT
    _init

NEXT
    _next

CONSTANT
    _TETrace <- _trace

ALIAS
    _expression
=============================================================================
\* Generated on Sun Sep 27 06:26:39 UTC 2026