------------------------------ MODULE MatLemmas ------------------------------
\* Oracle sanity: algebraic identities between the definitions of MatDefs,
\* evaluated by TLC on every matrix with 0..D rows/columns over the entry set V
\* (and on a smaller universe where three or four operands are quantified).
\* A wrong definition (indices swapped, wrong block, wrong sign) breaks at
\* least one of them; none of them is the definition of the operator it checks.
EXTENDS MatDefs

CONSTANTS D,      \* largest dimension in the pair lemmas
          VMax,   \* entries of the pair lemmas range over -VMax..VMax
          VS,     \* entry set of the triple / quadruple lemmas
          QCells  \* the quadruple lemmas range over matrices with at most QCells entries

V == (0 - VMax)..VMax

Z00 == [r |-> 0, c |-> 0, e |-> <<>>]
Shape(r, c, S) == {[r |-> r, c |-> c, e |-> e] : e \in [1..r -> [1..c -> S]]}
Univ(S) == {Z00} \cup UNION {Shape(r, c, S) : r \in 1..D, c \in 1..D}
U  == Univ(V)
US == Univ(VS)
UQ == {A \in US : A.r * A.c <= QCells}
Vec(n, S) == [1..n -> S]

Block(X, r0, c0, nr, nc) == Mk(nr, nc, LAMBDA i, j : X.e[r0 + i][c0 + j])
Neg(A) == ScaleM(A, -1, 0)
\* real 2r x 2c embedding of the complex matrix Re + i.Im
Emb(P) == LET A == P[1] B == P[2] IN
          Mk(2 * A.r, 2 * A.c, LAMBDA i, j :
               IF i <= A.r /\ j <= A.c THEN A.e[i][j]
               ELSE IF i <= A.r THEN 0 - B.e[i][j - A.c]
               ELSE IF j <= A.c THEN B.e[i - A.r][j]
               ELSE A.e[i - A.r][j - A.c])

ASSUME WellFormed == \A A \in U : WF(A) /\ WF(Transp(A)) /\ WF(Kron(A, A)) /\ WF(DSum(A, A))

ASSUME TransposeInvolution == \A A \in U : Transp(Transp(A)) = A
ASSUME TransposeOfProduct ==
  \A A, B \in U : ConfMul(A, B) => Transp(Mul(A, B)) = Mul(Transp(B), Transp(A))
ASSUME ProductDims == \A A, B \in U : ConfMul(A, B) => Mul(A, B).r = A.r /\ Mul(A, B).c = B.c
ASSUME ProductIdentity == \A A \in U : Mul(A, Id(A.c)) = A /\ Mul(Id(A.r), A) = A
ASSUME ProductAssociative ==
  \A A, B, C \in US : (ConfMul(A, B) /\ ConfMul(B, C)) => Mul(Mul(A, B), C) = Mul(A, Mul(B, C))
ASSUME ProductDistributes ==
  \A A \in US : \A B, C \in US : (ConfMul(A, B) /\ SameDims(B, C)) => Mul(A, AddM(B, C)) = AddM(Mul(A, B), Mul(A, C))

ASSUME SumLaws ==
  \A A, B \in U : SameDims(A, B) =>
     /\ AddM(A, B) = AddM(B, A)
     /\ AddScaled(A, 1, B) = AddM(A, B)
     /\ AddScaled(A, 3, B) = AddM(A, ScaleM(B, 3, 0))
     /\ SumE(AddM(A, B)) = SumE(A) + SumE(B)
     /\ Transp(AddM(A, B)) = AddM(Transp(A), Transp(B))
ASSUME ScaleLaws ==
  \A A \in U : /\ ScaleM(A, 1, 0) = A
               /\ ScaleM(A, 2, 0) = AddM(A, A)
               /\ ScaleM(A, 0, 5) = Mk(A.r, A.c, LAMBDA i, j : 5)
               /\ SumE(ScaleM(A, 3, 2)) = 3 * SumE(A) + 2 * A.r * A.c
               /\ SumE(Transp(A)) = SumE(A)

\* the Kronecker product is the block matrix of a_ij . B
ASSUME KronBlocks ==
  \A A, B \in U :
     /\ Kron(A, B).r = A.r * B.r /\ Kron(A, B).c = A.c * B.c
     /\ \A ia \in 1..A.r, ja \in 1..A.c :
          Block(Kron(A, B), (ia - 1) * B.r, (ja - 1) * B.c, B.r, B.c) = ScaleM(B, A.e[ia][ja], 0)
     /\ Transp(Kron(A, B)) = Kron(Transp(A), Transp(B))
     /\ SumE(Kron(A, B)) = SumE(A) * SumE(B)
ASSUME KronMixedProduct ==
  \A A, B, C, E \in UQ : (ConfMul(A, C) /\ ConfMul(B, E)) =>
     Mul(Kron(A, B), Kron(C, E)) = Kron(Mul(A, C), Mul(B, E))
ASSUME KronVariants ==
  \A A \in U :
     /\ KronDiag(A, 1, 3) = ScaleM(A, 3, 0)
     /\ KronDiag(A, 2, 1) = Kron(A, Id(2))
     /\ KronDiag(A, 0, 1) = Z00
     /\ \A B \in U : /\ KronRepl(A, B, 7, 5) = Kron(ReplDiag(A, 7), ReplDiag(B, 5))
                     /\ (A.r >= 1 /\ B.r >= 1) => KronRepl(A, B, 7, 5).e[1][1] = 35
                     /\ (A.c >= 2 /\ B.c >= 2) => KronRepl(A, B, 7, 5).e[1][A.c * B.c] = A.e[1][A.c] * B.e[1][B.c]

ASSUME HadamardLaws ==
  \A A, B \in U : SameDims(A, B) =>
     /\ Had(A, B) = Had(B, A)
     /\ Had(A, Mk(A.r, A.c, LAMBDA i, j : 1)) = A
     /\ HadC(A, Zero(A.r, A.c), B, Zero(A.r, A.c)) = <<Had(A, B), Zero(A.r, A.c)>>
     /\ HadC(Zero(A.r, A.c), A, Zero(A.r, A.c), B) = <<Neg(Had(A, B)), Zero(A.r, A.c)>>
     /\ HadC(A, B, A, Neg(B)) = <<AddM(Had(A, A), Had(B, B)), Zero(A.r, A.c)>>      \* z . conj(z) = |z|^2
ASSUME HadamardVector ==
  \A A \in U : /\ \A v \in Vec(A.r, V) : HadVec(A, v, TRUE) = Mul(Diag(v), A)
               /\ \A v \in Vec(A.c, V) : HadVec(A, v, FALSE) = Mul(A, Diag(v))

ASSUME DirectSumBlocks ==
  \A A, B \in U :
     /\ DSum(A, B).r = A.r + B.r /\ DSum(A, B).c = A.c + B.c
     /\ Block(DSum(A, B), 0, 0, A.r, A.c) = A
     /\ Block(DSum(A, B), A.r, A.c, B.r, B.c) = B
     /\ \A i \in 1..(A.r + B.r), j \in 1..(A.c + B.c) :
          ((i <= A.r) # (j <= A.c)) => DSum(A, B).e[i][j] = 0
     /\ Transp(DSum(A, B)) = DSum(Transp(A), Transp(B))
     /\ SumE(DSum(A, B)) = SumE(A) + SumE(B)
     /\ DSumN(<<A, B>>) = DSum(A, B) /\ DSumN(<<A>>) = A /\ DSumN(<<>>) = Z00
ASSUME DirectSumProduct ==
  \A A, B, C, E \in UQ : (ConfMul(A, C) /\ ConfMul(B, E)) =>
     Mul(DSum(A, B), DSum(C, E)) = DSum(Mul(A, C), Mul(B, E))
ASSUME DirectSumAssociative ==
  \A A, B, C \in US : DSumN(<<A, B, C>>) = DSum(A, DSum(B, C))

ASSUME DiagonalMiddle ==
  \A A, B \in U : ConfMul(A, B) => \A d \in Vec(A.c, V) :
     /\ MulDiag(A, d, B) = Mul(Mul(A, Diag(d)), B)
     /\ A.c >= 1 => MulTri(A, d, [k \in 1..(A.c - 1) |-> 0], [k \in 1..(A.c - 1) |-> 0], B) = MulDiag(A, d, B)
ASSUME TridiagonalMiddle ==
  /\ Tri(<<1, 2, 3>>, <<4, 5>>, <<6, 7>>) = [r |-> 3, c |-> 3, e |-> <<<<1, 4, 0>>, <<6, 2, 5>>, <<0, 7, 3>>>>]
  /\ Tri(<<9>>, <<>>, <<>>) = [r |-> 1, c |-> 1, e |-> <<<<9>>>>]
  /\ \A A, B \in US : (ConfMul(A, B) /\ A.c >= 1) =>
       \A d \in Vec(A.c, VS), u, l \in Vec(A.c - 1, VS) :
          Transp(MulTri(A, d, u, l, B)) = MulTri(Transp(B), d, l, u, Transp(A))

ASSUME ComplexEmbedding ==
  \A A, iA, B, iB \in UQ : ConfMulC(A, iA, B, iB) =>
     Mul(Emb(<<A, iA>>), Emb(<<B, iB>>)) = Emb(MulC(A, iA, B, iB))
ASSUME ComplexDiagonal ==
  \A A, iA, B, iB \in UQ : ConfMulC(A, iA, B, iB) => \A d, id \in Vec(A.c, VS) :
     LET P == MulC(A, iA, Diag(d), Diag(id)) IN MulDiagC(A, iA, d, id, B, iB) = MulC(P[1], P[2], B, iB)

ASSUME Powers ==
  \A A \in U : IsSquare(A) =>
     /\ PowM(A, 0) = Id(A.r) /\ PowM(A, 1) = A /\ PowM(A, 2) = Mul(A, A)
     /\ \A p, q \in 0..3 : PowM(A, p + q) = Mul(PowM(A, p), PowM(A, q))
     /\ Len(Taylor(A, 3)) = 4 /\ Taylor(A, 3)[4] = Mul(Mul(A, A), A) /\ Taylor(A, 0) = <<Id(A.r)>>

ASSUME Covariance ==
  \A A \in U : A.c >= 1 =>
     LET C == Covar2(A) IN
     /\ C.r = A.r /\ C.c = A.r /\ Transp(C) = C
     /\ \A i \in 1..A.r : C.e[i][i] >= 0
     /\ Covar2(ScaleM(A, 1, 4)) = C                                    \* shift invariance
     /\ Covar2(ScaleM(A, 3, 0)) = ScaleM(C, 9, 0)
     /\ A.c = 1 => C = Zero(A.r, A.r)
     /\ A.c = 2 => C = Mk(A.r, A.r, LAMBDA i, j : (A.e[i][1] - A.e[i][2]) * (A.e[j][1] - A.e[j][2]))

ASSUME Extrema ==
  \A A \in U : A.r >= 1 =>
     /\ \A x \in Entries(A) : MinV(A) <= x /\ x <= MaxV(A)
     /\ MaxV(A) \in Entries(A) /\ MinV(A) \in Entries(A)
     /\ MaxV(A) = 0 - MinV(Neg(A))

VARIABLE dummy
Init == dummy = 0
Next == UNCHANGED dummy
Spec == Init /\ [][Next]_dummy
=============================================================================
