---------------------------- MODULE MatrixStoreTrace ----------------------------
\* Trace validation of the storage classes: every member call recorded by
\* drv_matrix --mode store is a step of MatrixStore with the abstract content
\* computed by the class-independent definitions and the view of EVERY live
\* object (dimensions, all cells through operator(), row(i), col(j)) taken from
\* the log - so a write that shows in a copy, a stale cell after shrink / grow
\* or a class that answers differently is a Refines violation at that event.
\* Event: [e, o, o2, cls, a, v, how, r, lock |-> groups of ids that received the same history,
\*         w |-> <<<<id, cls, nrows, ncols, cells, rows, cols>>, ...>>]
EXTENDS MatrixStore, TraceLib

LW == Ev.w
LogIds == {LW[k][1] : k \in DOMAIN LW}
Entry(id) == LW[CHOOSE k \in DOMAIN LW : LW[k][1] = id]
LogView(id) == LET x == Entry(id) IN [cls |-> x[2], r |-> x[3], c |-> x[4], e |-> x[5]]

\* the three ways of reading agree with each other
ReadsConsistent ==
  \A k \in DOMAIN LW :
    LET x == LW[k] nr == x[3] nc == x[4] IN
    /\ DOMAIN x[5] = 1..nr /\ \A i \in 1..nr : DOMAIN x[5][i] = 1..nc
    /\ x[6] = x[5]                                                         \* row(i)
    /\ DOMAIN x[7] = 1..nc
    /\ \A j \in 1..nc : x[7][j] = [i \in 1..nr |-> x[5][i][j]]             \* col(j)

\* objects that received the same history hold the same content, whatever their class
LockStepAgree ==
  \A g \in DOMAIN Ev.lock : \A p, q \in DOMAIN Ev.lock[g] :
    LET a == Ev.lock[g][p] b == Ev.lock[g][q] IN
    /\ abs'[a] = abs'[b]
    /\ ~abs'[a].deg => (LogView(a).r = LogView(b).r /\ LogView(a).c = LogView(b).c /\ LogView(a).e = LogView(b).e)

Observed(newabs) ==
  /\ abs' = newabs
  /\ view' = [id \in LogIds |-> LogView(id)]
  /\ rep' = rep
  /\ sout' = Ev.r
  /\ ReadsConsistent /\ LockStepAgree

TSReset == IsEvent("Reset") /\ abs' = <<>> /\ view' = <<>> /\ rep' = rep /\ sout' = "ok"
TSNew == /\ IsEvent("SNew") /\ Ev.o \notin Live /\ Ev.r = "ok"
         /\ Observed(SPut(abs, Ev.o, ANew(Ev.a[1], Ev.a[2])))
\* copy / converting constructor, clone, operator= (through the base class or same class)
TSConvert == /\ IsEvent("SConvert") /\ Ev.o \in Live /\ Ev.r = "ok"
             /\ Observed(SPut(abs, Ev.o2, ACopy(abs[Ev.o])))
TSResize == /\ IsEvent("SResize") /\ Ev.o \in Live /\ Ev.r = "ok"
            /\ Observed(SPut(abs, Ev.o, IF Ev.flat THEN AResizeFlat(abs[Ev.o], Ev.a[1], Ev.a[2])
                                                   ELSE AResize(abs[Ev.o], Ev.a[1], Ev.a[2])))
TSWrite == /\ IsEvent("SWrite") /\ Ev.o \in Live /\ Ev.r = "ok" /\ ~abs[Ev.o].deg
           /\ Ev.a[1] + 1 \in 1..abs[Ev.o].r /\ Ev.a[2] + 1 \in 1..abs[Ev.o].c
           /\ Observed(SPut(abs, Ev.o, AWrite(abs[Ev.o], Ev.a[1] + 1, Ev.a[2] + 1, Ev.a[3])))
TSAddRow == /\ IsEvent("SAddRow") /\ Ev.o \in Live /\ ~abs[Ev.o].deg
            /\ IF AAddRowOk(abs[Ev.o], Ev.v)
               THEN Ev.r = "ok" /\ Observed(SPut(abs, Ev.o, AAddRow(abs[Ev.o], Ev.v)))
               ELSE Ev.r = "raise:DimensionException" /\ Observed(abs)
TSAddCol == /\ IsEvent("SAddCol") /\ Ev.o \in Live /\ ~abs[Ev.o].deg
            /\ IF AAddColOk(abs[Ev.o], Ev.v)
               THEN Ev.r = "ok" /\ Observed(SPut(abs, Ev.o, AAddCol(abs[Ev.o], Ev.v)))
               ELSE Ev.r = "raise:DimensionException" /\ Observed(abs)
\* Matrix::equals and operator== : same shape and same cells (not asserted while a degenerate shape is involved)
TSEquals == /\ IsEvent("SEquals") /\ Ev.o \in Live /\ Ev.o2 \in Live /\ Ev.r = "ok"
            /\ (abs[Ev.o].deg \/ abs[Ev.o2].deg \/ (Ev.eq = (abs[Ev.o] = abs[Ev.o2]) /\ Ev.eq2 = Ev.eq))
            /\ Observed(abs)
TSDrop == IsEvent("SDrop") /\ Ev.o \in Live /\ Ev.r = "ok" /\ Observed(SDrop(abs, Ev.o))

TraceNext == TSReset \/ TSNew \/ TSConvert \/ TSResize \/ TSWrite \/ TSAddRow \/ TSAddCol \/ TSEquals \/ TSDrop
TraceInit == SInit /\ l = 1
TraceSpec == TraceInit /\ [][TraceNext]_<<svars, l>>
=============================================================================
