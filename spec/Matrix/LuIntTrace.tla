------------------------------ MODULE LuIntTrace ------------------------------
\* Trace validation for C05: every event recorded by harness/drv_lu.cpp is a
\* step of LuInt; the matrix an object was built from comes from the
\* specification's own state (fac), so inspections and solves made after other
\* calls - including refused ones and calls on copies - are judged against the
\* matrix factorised at the start of the history.
EXTENDS LuInt, TraceLib

Okay == Ev.r = "ok"
PatOK(pm, n) == WF(pm) /\ pm.r = n /\ pm.c = n
MinRank(du) == CHOOSE m \in {du[i] : i \in DOMAIN du} : \A i \in DOMAIN du : m <= du[i]

TReset  == IsEvent("Reset") /\ fac' = <<>> /\ out' = "ok" /\ last' = NoLast
TFactor == /\ IsEvent("Factor") /\ WF(Ev.A) /\ IsSquare(Ev.A) /\ Ev.A.r >= 1
           /\ fac' = Put(fac, Ev.o, Ev.A) /\ LStep("Factor", "ok", Ev.r, TRUE)
\* copy construction (o2 fresh) and assignment (o2 live): afterwards o2 answers for the matrix of o
TCopy   == /\ IsEvent("Copy") /\ Ev.o \in DOMAIN fac /\ Ev.o2 # Ev.o
           /\ (Ev.how = "assign") = (Ev.o2 \in DOMAIN fac)
           /\ fac' = Put(fac, Ev.o2, fac[Ev.o]) /\ LStep("Copy", "ok", Ev.r, TRUE)

\* pivot vector is a permutation; L unit lower / U upper triangular (exact zeros and ones); L.U = A(piv,:);
\* det = Det(A) with the sign of the permutation; the factors of a singular matrix show a (near-)zero pivot
TInspect ==
  /\ IsEvent("Inspect") /\ Ev.o \in DOMAIN fac /\ UNCHANGED fac
  /\ LET A == fac[Ev.o] n == A.r IN
     LStep("Inspect", "ok", Ev.r,
           Okay => /\ IsPerm0(Ev.piv, n)
                   /\ PatOK(Ev.Lp, n) /\ PatOK(Ev.Up, n)
                   /\ \A i, j \in 1..n : /\ i < j => Ev.Lp.e[i][j] = 0
                                         /\ i = j => Ev.Lp.e[i][j] = 1
                                         /\ i > j => Ev.Up.e[i][j] = 0
                   /\ Ev.luClose /\ Ev.luR = PermuteRows(A, Ev.piv)
                   /\ Ev.detClose /\ Ev.detR = Det(A)
                   /\ Ev.sdet = Parity(Ev.piv) * Ev.sdiag
                   /\ Det(A) = 0 => Ev.small)

\* solve: refused on a wrong height, ZeroDivisionException iff singular / pivot below the threshold, otherwise A.X = B
\* exactly (as A.round(d.X) = d.B) and the returned indicator is the smallest |U_ii|
SolveOk(A, B) ==
  /\ Ev.d = Det(A)
  /\ Okay => /\ Ev.ind = MinRank(Ev.du)
             /\ Ev.big \/ (Ev.close /\ WF(Ev.Xs) /\ SolvedExactly(A, B, Ev.Xs, Ev.d))
TSolve ==
  /\ IsEvent("Solve") /\ Ev.o \in DOMAIN fac /\ UNCHANGED fac
  /\ LET A == fac[Ev.o] IN
     LStep("Solve", Required(A, Ev.B, Ev.small), Ev.r, (Ev.B.r = A.r) => SolveOk(A, Ev.B))
TInv ==
  /\ IsEvent("Inv") /\ UNCHANGED fac /\ IsSquare(Ev.A) /\ Ev.A.r >= 1
  /\ LStep("Inv", Required(Ev.A, Id(Ev.A.r), Ev.small), Ev.r, SolveOk(Ev.A, Id(Ev.A.r)))

TDet ==
  /\ IsEvent("Det") /\ UNCHANGED fac
  /\ LStep("Det", "ok", Ev.r, Okay => (Ev.detClose /\ Ev.detR = Det(Ev.A)))
TDetT ==
  /\ IsEvent("DetT") /\ UNCHANGED fac
  /\ LStep("DetT", "ok", Ev.r,
           Okay => /\ Ev.close /\ Ev.At = Transp(Ev.A)
                   /\ Ev.detA = Det(Ev.A) /\ Ev.detAt = Det(Ev.At) /\ Ev.detAt = Ev.detA)
TDetAB ==
  /\ IsEvent("DetAB") /\ UNCHANGED fac
  /\ LStep("DetAB", "ok", Ev.r,
           Okay => /\ Ev.close /\ Ev.AB = Mul(Ev.A, Ev.B)
                   /\ Ev.detA = Det(Ev.A) /\ Ev.detB = Det(Ev.B) /\ Ev.detAB = Det(Ev.AB)
                   /\ Ev.detAB = Ev.detA * Ev.detB)

TraceNext == TReset \/ TFactor \/ TCopy \/ TInspect \/ TSolve \/ TInv \/ TDet \/ TDetT \/ TDetAB
TraceInit == Init /\ l = 1
TraceSpec == TraceInit /\ [][TraceNext]_<<vars, l>>
=============================================================================
