SPECIFICATION LSpec
CONSTANTS
  Objs = {}
  NMax = 0
  EMax = 0
  MaxCalls = 1000000000
  E2 = 2
  E3 = 1
