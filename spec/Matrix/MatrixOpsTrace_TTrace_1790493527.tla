---- MODULE MatrixOpsTrace_TTrace_1790493527 ----
EXTENDS Sequences, TLCExt, Toolbox, Naturals, TLC, MatrixOpsTrace

_expression ==
    LET MatrixOpsTrace_TEExpression == INSTANCE MatrixOpsTrace_TEExpression
    IN MatrixOpsTrace_TEExpression!expression
----

_trace ==
    LET MatrixOpsTrace_TETrace == INSTANCE MatrixOpsTrace_TETrace
    IN MatrixOpsTrace_TETrace!trace
----

_inv ==
    ~(
        TLCGet("level") = Len(_TETrace)
        /\
        last = ([conf |-> TRUE, either |-> FALSE, expect |-> (5 :> [r |-> 2, c |-> 3, e |-> <<<<29, 17, -15>>, <<13, 51, -9>>>>] @@ 6 :> [r |-> 2, c |-> 3, e |-> <<<<9, 5, -5>>, <<-11, -9, 17>>>>]), resok |-> TRUE, op |-> "MulC", ins |-> {2, 3, 4}, pre |-> <<[r |-> 7, c |-> 7, e |-> <<<<-2, 3, -4, 4, 1, -3, -4>>, <<-4, 2, 3, 4, 1, 4, -1>>, <<3, -1, -1, 1, -2, -3, -1>>, <<3, -2, -3, -1, 1, 4, 3>>, <<4, 4, 1, 1, -3, 4, -1>>, <<-2, -1, 0, -3, -4, 0, 4>>, <<-2, 3, 0, 3, 4, -3, 0>>>>], [r |-> 2, c |-> 7, e |-> <<<<-3, 0, 2, 2, 1, -3, -3>>, <<-1, 3, -2, 2, 4, -1, -1>>>>], [r |-> 7, c |-> 3, e |-> <<<<-4, -4, 2>>, <<4, 0, 4>>, <<3, -1, 4>>, <<4, 0, -1>>, <<-4, 4, 2>>, <<-1, 1, 4>>, <<2, 0, 0>>>>], [r |-> 7, c |-> 3, e |-> <<<<1, -2, -1>>, <<-4, 0, 0>>, <<1, 3, -3>>, <<-1, -4, -3>>, <<2, -4, 2>>, <<1, 3, -1>>, <<2, -1, -3>>>>], [r |-> 0, c |-> 0, e |-> <<>>], [r |-> 3, c |-> 4, e |-> <<<<77, 77, 77, 77>>, <<77, 77, 77, 77>>, <<77, 77, 77, 77>>>>]>>, n |-> 1])
        /\
        heap = (<<[r |-> 7, c |-> 7, e |-> <<<<-2, 3, -4, 4, 1, -3, -4>>, <<-4, 2, 3, 4, 1, 4, -1>>, <<3, -1, -1, 1, -2, -3, -1>>, <<3, -2, -3, -1, 1, 4, 3>>, <<4, 4, 1, 1, -3, 4, -1>>, <<-2, -1, 0, -3, -4, 0, 4>>, <<-2, 3, 0, 3, 4, -3, 0>>>>], [r |-> 2, c |-> 7, e |-> <<<<-3, 0, 2, 2, 1, -3, -3>>, <<-1, 3, -2, 2, 4, -1, -1>>>>], [r |-> 7, c |-> 3, e |-> <<<<-4, -4, 2>>, <<4, 0, 4>>, <<3, -1, 4>>, <<4, 0, -1>>, <<-4, 4, 2>>, <<-1, 1, 4>>, <<2, 0, 0>>>>], [r |-> 7, c |-> 3, e |-> <<<<1, -2, -1>>, <<-4, 0, 0>>, <<1, 3, -3>>, <<-1, -4, -3>>, <<2, -4, 2>>, <<1, 3, -1>>, <<2, -1, -3>>>>], [r |-> 2, c |-> 3, e |-> <<<<29, 17, -15>>, <<13, 51, -8>>>>], [r |-> 2, c |-> 3, e |-> <<<<9, 5, -5>>, <<-11, -9, 17>>>>]>>)
        /\
        l = (10)
        /\
        out = ("ok")
    )
----

_init ==
    /\ heap = _TETrace[1].heap
    /\ l = _TETrace[1].l
    /\ last = _TETrace[1].last
    /\ out = _TETrace[1].out
----

_next ==
    /\ \E i,j \in DOMAIN _TETrace:
        /\ \/ /\ j = i + 1
              /\ i = TLCGet("level")
        /\ heap  = _TETrace[i].heap
        /\ heap' = _TETrace[j].heap
        /\ l  = _TETrace[i].l
        /\ l' = _TETrace[j].l
        /\ last  = _TETrace[i].last
        /\ last' = _TETrace[j].last
        /\ out  = _TETrace[i].out
        /\ out' = _TETrace[j].out

\* Uncomment the ASSUME below to write the states of the error trace
\* to the given file in Json format. Note that you can pass any tuple
\* to `JsonSerialize`. For example, a sub-sequence of _TETrace.
    \* ASSUME
    \*     LET J == INSTANCE Json
    \*         IN J!JsonSerialize("MatrixOpsTrace_TTrace_1790493527.json", _TETrace)

=============================================================================

 Note that you can extract this module `MatrixOpsTrace_TEExpression`
  to a dedicated file to reuse `expression` (the module in the 
  dedicated `MatrixOpsTrace_TEExpression.tla` file takes precedence 
  over the module `MatrixOpsTrace_TEExpression` below).

---- MODULE MatrixOpsTrace_TEExpression ----
EXTENDS Sequences, TLCExt, Toolbox, Naturals, TLC, MatrixOpsTrace

expression == 
    [
        \* To hide variables of the `MatrixOpsTrace` spec from the error trace,
        \* remove the variables below.  The trace will be written in the order
        \* of the fields of this record.
        heap |-> heap
        ,l |-> l
        ,last |-> last
        ,out |-> out
        
        \* Put additional constant-, state-, and action-level expressions here:
        \* ,_stateNumber |-> _TEPosition
        \* ,_heapUnchanged |-> heap = heap'
        
        \* Format the `heap` variable as Json value.
        \* ,_heapJson |->
        \*     LET J == INSTANCE Json
        \*     IN J!ToJson(heap)
        
        \* Lastly, you may build expressions over arbitrary sets of states by
        \* leveraging the _TETrace operator.  For example, this is how to
        \* count the number of times a spec variable changed up to the current
        \* state in the trace.
        \* ,_heapModCount |->
        \*     LET F[s \in DOMAIN _TETrace] ==
        \*         IF s = 1 THEN 0
        \*         ELSE IF _TETrace[s].heap # _TETrace[s-1].heap
        \*             THEN 1 + F[s-1] ELSE F[s-1]
        \*     IN F[_TEPosition - 1]
    ]

=============================================================================



Parsing and semantic processing can take forever if the trace below is long.
 In this case, it is advised to uncomment the module below to deserialize the
 trace from a generated binary file.

\*
\*---- MODULE MatrixOpsTrace_TETrace ----
\*EXTENDS IOUtils, TLC, MatrixOpsTrace
\*
\*trace == IODeserialize("MatrixOpsTrace_TTrace_1790493527.bin", TRUE)
\*
\*=============================================================================
\*

---- MODULE MatrixOpsTrace_TETrace ----
EXTENDS TLC, MatrixOpsTrace

trace == 
    <<
    ([last |-> [conf |-> TRUE, either |-> FALSE, expect |-> <<>>, resok |-> TRUE, op |-> "none", ins |-> {}, pre |-> <<>>, n |-> 0],heap |-> <<>>,l |-> 1,out |-> "ok"]),
    ([last |-> [conf |-> TRUE, either |-> FALSE, expect |-> <<>>, resok |-> TRUE, op |-> "none", ins |-> {}, pre |-> <<>>, n |-> 0],heap |-> <<>>,l |-> 2,out |-> "ok"]),
    ([last |-> [conf |-> TRUE, either |-> FALSE, expect |-> <<>>, resok |-> TRUE, op |-> "none", ins |-> {}, pre |-> <<>>, n |-> 0],heap |-> <<[r |-> 7, c |-> 7, e |-> <<<<-2, 3, -4, 4, 1, -3, -4>>, <<-4, 2, 3, 4, 1, 4, -1>>, <<3, -1, -1, 1, -2, -3, -1>>, <<3, -2, -3, -1, 1, 4, 3>>, <<4, 4, 1, 1, -3, 4, -1>>, <<-2, -1, 0, -3, -4, 0, 4>>, <<-2, 3, 0, 3, 4, -3, 0>>>>]>>,l |-> 3,out |-> "ok"]),
    ([last |-> [conf |-> TRUE, either |-> FALSE, expect |-> <<>>, resok |-> TRUE, op |-> "Taylor", ins |-> {1}, pre |-> <<[r |-> 7, c |-> 7, e |-> <<<<-2, 3, -4, 4, 1, -3, -4>>, <<-4, 2, 3, 4, 1, 4, -1>>, <<3, -1, -1, 1, -2, -3, -1>>, <<3, -2, -3, -1, 1, 4, 3>>, <<4, 4, 1, 1, -3, 4, -1>>, <<-2, -1, 0, -3, -4, 0, 4>>, <<-2, 3, 0, 3, 4, -3, 0>>>>]>>, n |-> 1],heap |-> <<[r |-> 7, c |-> 7, e |-> <<<<-2, 3, -4, 4, 1, -3, -4>>, <<-4, 2, 3, 4, 1, 4, -1>>, <<3, -1, -1, 1, -2, -3, -1>>, <<3, -2, -3, -1, 1, 4, 3>>, <<4, 4, 1, 1, -3, 4, -1>>, <<-2, -1, 0, -3, -4, 0, 4>>, <<-2, 3, 0, 3, 4, -3, 0>>>>]>>,l |-> 4,out |-> "ok"]),
    ([last |-> [conf |-> TRUE, either |-> FALSE, expect |-> <<>>, resok |-> TRUE, op |-> "none", ins |-> {}, pre |-> <<>>, n |-> 0],heap |-> <<[r |-> 7, c |-> 7, e |-> <<<<-2, 3, -4, 4, 1, -3, -4>>, <<-4, 2, 3, 4, 1, 4, -1>>, <<3, -1, -1, 1, -2, -3, -1>>, <<3, -2, -3, -1, 1, 4, 3>>, <<4, 4, 1, 1, -3, 4, -1>>, <<-2, -1, 0, -3, -4, 0, 4>>, <<-2, 3, 0, 3, 4, -3, 0>>>>], [r |-> 2, c |-> 7, e |-> <<<<-3, 0, 2, 2, 1, -3, -3>>, <<-1, 3, -2, 2, 4, -1, -1>>>>]>>,l |-> 5,out |-> "ok"]),
    ([last |-> [conf |-> TRUE, either |-> FALSE, expect |-> <<>>, resok |-> TRUE, op |-> "none", ins |-> {}, pre |-> <<>>, n |-> 0],heap |-> <<[r |-> 7, c |-> 7, e |-> <<<<-2, 3, -4, 4, 1, -3, -4>>, <<-4, 2, 3, 4, 1, 4, -1>>, <<3, -1, -1, 1, -2, -3, -1>>, <<3, -2, -3, -1, 1, 4, 3>>, <<4, 4, 1, 1, -3, 4, -1>>, <<-2, -1, 0, -3, -4, 0, 4>>, <<-2, 3, 0, 3, 4, -3, 0>>>>], [r |-> 2, c |-> 7, e |-> <<<<-3, 0, 2, 2, 1, -3, -3>>, <<-1, 3, -2, 2, 4, -1, -1>>>>], [r |-> 7, c |-> 3, e |-> <<<<-4, -4, 2>>, <<4, 0, 4>>, <<3, -1, 4>>, <<4, 0, -1>>, <<-4, 4, 2>>, <<-1, 1, 4>>, <<2, 0, 0>>>>]>>,l |-> 6,out |-> "ok"]),
    ([last |-> [conf |-> TRUE, either |-> FALSE, expect |-> <<>>, resok |-> TRUE, op |-> "none", ins |-> {}, pre |-> <<>>, n |-> 0],heap |-> <<[r |-> 7, c |-> 7, e |-> <<<<-2, 3, -4, 4, 1, -3, -4>>, <<-4, 2, 3, 4, 1, 4, -1>>, <<3, -1, -1, 1, -2, -3, -1>>, <<3, -2, -3, -1, 1, 4, 3>>, <<4, 4, 1, 1, -3, 4, -1>>, <<-2, -1, 0, -3, -4, 0, 4>>, <<-2, 3, 0, 3, 4, -3, 0>>>>], [r |-> 2, c |-> 7, e |-> <<<<-3, 0, 2, 2, 1, -3, -3>>, <<-1, 3, -2, 2, 4, -1, -1>>>>], [r |-> 7, c |-> 3, e |-> <<<<-4, -4, 2>>, <<4, 0, 4>>, <<3, -1, 4>>, <<4, 0, -1>>, <<-4, 4, 2>>, <<-1, 1, 4>>, <<2, 0, 0>>>>], [r |-> 7, c |-> 3, e |-> <<<<1, -2, -1>>, <<-4, 0, 0>>, <<1, 3, -3>>, <<-1, -4, -3>>, <<2, -4, 2>>, <<1, 3, -1>>, <<2, -1, -3>>>>]>>,l |-> 7,out |-> "ok"]),
    ([last |-> [conf |-> TRUE, either |-> FALSE, expect |-> <<>>, resok |-> TRUE, op |-> "none", ins |-> {}, pre |-> <<>>, n |-> 0],heap |-> <<[r |-> 7, c |-> 7, e |-> <<<<-2, 3, -4, 4, 1, -3, -4>>, <<-4, 2, 3, 4, 1, 4, -1>>, <<3, -1, -1, 1, -2, -3, -1>>, <<3, -2, -3, -1, 1, 4, 3>>, <<4, 4, 1, 1, -3, 4, -1>>, <<-2, -1, 0, -3, -4, 0, 4>>, <<-2, 3, 0, 3, 4, -3, 0>>>>], [r |-> 2, c |-> 7, e |-> <<<<-3, 0, 2, 2, 1, -3, -3>>, <<-1, 3, -2, 2, 4, -1, -1>>>>], [r |-> 7, c |-> 3, e |-> <<<<-4, -4, 2>>, <<4, 0, 4>>, <<3, -1, 4>>, <<4, 0, -1>>, <<-4, 4, 2>>, <<-1, 1, 4>>, <<2, 0, 0>>>>], [r |-> 7, c |-> 3, e |-> <<<<1, -2, -1>>, <<-4, 0, 0>>, <<1, 3, -3>>, <<-1, -4, -3>>, <<2, -4, 2>>, <<1, 3, -1>>, <<2, -1, -3>>>>], [r |-> 0, c |-> 0, e |-> <<>>]>>,l |-> 8,out |-> "ok"]),
    ([last |-> [conf |-> TRUE, either |-> FALSE, expect |-> <<>>, resok |-> TRUE, op |-> "none", ins |-> {}, pre |-> <<>>, n |-> 0],heap |-> <<[r |-> 7, c |-> 7, e |-> <<<<-2, 3, -4, 4, 1, -3, -4>>, <<-4, 2, 3, 4, 1, 4, -1>>, <<3, -1, -1, 1, -2, -3, -1>>, <<3, -2, -3, -1, 1, 4, 3>>, <<4, 4, 1, 1, -3, 4, -1>>, <<-2, -1, 0, -3, -4, 0, 4>>, <<-2, 3, 0, 3, 4, -3, 0>>>>], [r |-> 2, c |-> 7, e |-> <<<<-3, 0, 2, 2, 1, -3, -3>>, <<-1, 3, -2, 2, 4, -1, -1>>>>], [r |-> 7, c |-> 3, e |-> <<<<-4, -4, 2>>, <<4, 0, 4>>, <<3, -1, 4>>, <<4, 0, -1>>, <<-4, 4, 2>>, <<-1, 1, 4>>, <<2, 0, 0>>>>], [r |-> 7, c |-> 3, e |-> <<<<1, -2, -1>>, <<-4, 0, 0>>, <<1, 3, -3>>, <<-1, -4, -3>>, <<2, -4, 2>>, <<1, 3, -1>>, <<2, -1, -3>>>>], [r |-> 0, c |-> 0, e |-> <<>>], [r |-> 3, c |-> 4, e |-> <<<<77, 77, 77, 77>>, <<77, 77, 77, 77>>, <<77, 77, 77, 77>>>>]>>,l |-> 9,out |-> "ok"]),
    ([last |-> [conf |-> TRUE, either |-> FALSE, expect |-> (5 :> [r |-> 2, c |-> 3, e |-> <<<<29, 17, -15>>, <<13, 51, -9>>>>] @@ 6 :> [r |-> 2, c |-> 3, e |-> <<<<9, 5, -5>>, <<-11, -9, 17>>>>]), resok |-> TRUE, op |-> "MulC", ins |-> {2, 3, 4}, pre |-> <<[r |-> 7, c |-> 7, e |-> <<<<-2, 3, -4, 4, 1, -3, -4>>, <<-4, 2, 3, 4, 1, 4, -1>>, <<3, -1, -1, 1, -2, -3, -1>>, <<3, -2, -3, -1, 1, 4, 3>>, <<4, 4, 1, 1, -3, 4, -1>>, <<-2, -1, 0, -3, -4, 0, 4>>, <<-2, 3, 0, 3, 4, -3, 0>>>>], [r |-> 2, c |-> 7, e |-> <<<<-3, 0, 2, 2, 1, -3, -3>>, <<-1, 3, -2, 2, 4, -1, -1>>>>], [r |-> 7, c |-> 3, e |-> <<<<-4, -4, 2>>, <<4, 0, 4>>, <<3, -1, 4>>, <<4, 0, -1>>, <<-4, 4, 2>>, <<-1, 1, 4>>, <<2, 0, 0>>>>], [r |-> 7, c |-> 3, e |-> <<<<1, -2, -1>>, <<-4, 0, 0>>, <<1, 3, -3>>, <<-1, -4, -3>>, <<2, -4, 2>>, <<1, 3, -1>>, <<2, -1, -3>>>>], [r |-> 0, c |-> 0, e |-> <<>>], [r |-> 3, c |-> 4, e |-> <<<<77, 77, 77, 77>>, <<77, 77, 77, 77>>, <<77, 77, 77, 77>>>>]>>, n |-> 1],heap |-> <<[r |-> 7, c |-> 7, e |-> <<<<-2, 3, -4, 4, 1, -3, -4>>, <<-4, 2, 3, 4, 1, 4, -1>>, <<3, -1, -1, 1, -2, -3, -1>>, <<3, -2, -3, -1, 1, 4, 3>>, <<4, 4, 1, 1, -3, 4, -1>>, <<-2, -1, 0, -3, -4, 0, 4>>, <<-2, 3, 0, 3, 4, -3, 0>>>>], [r |-> 2, c |-> 7, e |-> <<<<-3, 0, 2, 2, 1, -3, -3>>, <<-1, 3, -2, 2, 4, -1, -1>>>>], [r |-> 7, c |-> 3, e |-> <<<<-4, -4, 2>>, <<4, 0, 4>>, <<3, -1, 4>>, <<4, 0, -1>>, <<-4, 4, 2>>, <<-1, 1, 4>>, <<2, 0, 0>>>>], [r |-> 7, c |-> 3, e |-> <<<<1, -2, -1>>, <<-4, 0, 0>>, <<1, 3, -3>>, <<-1, -4, -3>>, <<2, -4, 2>>, <<1, 3, -1>>, <<2, -1, -3>>>>], [r |-> 2, c |-> 3, e |-> <<<<29, 17, -15>>, <<13, 51, -8>>>>], [r |-> 2, c |-> 3, e |-> <<<<9, 5, -5>>, <<-11, -9, 17>>>>]>>,l |-> 10,out |-> "ok"])
    >>
----


=============================================================================

---- CONFIG MatrixOpsTrace_TTrace_1790493527 ----
CONSTANTS
    Ids = { }
    OutId = 0
    DMax = 1000000
    Vals = { }
    Bound = 1000000000
    Depth = 1000000000

INVARIANT
    _inv

CHECK_DEADLOCK
    \* CHECK_DEADLOCK off because of PROPERTY or INVARIANT above.
    FALSE

INIT
    _init

NEXT
    _next

CONSTANT
    _TETrace <- _trace

ALIAS
    _expression
=============================================================================
\* Generated on Sun Sep 27 07:18:50 UTC 2026