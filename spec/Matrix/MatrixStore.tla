------------------------------ MODULE MatrixStore ------------------------------
\* C04 (extension) - the three storage classes of src/Bpp/Numeric/Matrix/Matrix.h
\* (RowMatrix, ColMatrix, LinearMatrix) as one small state machine.
\*
\* Every object has
\*   abs[id]  : the abstract content [r, c, e, deg] required by the documentation:
\*              constructors from dimensions zero-fill, resize(r,c) keeps the cells
\*              (i,j) that exist before and after and zeroes the new ones,
\*              LinearMatrix::resize(r,c,false) re-reads the flat row-major data,
\*              converting copies / operator= / clone preserve the content,
\*              addRow / addCol append or raise DimensionException;
\*   rep[id]  : the concrete representation of its class (design model only):
\*              "R" a sequence of rows, "C" a sequence of columns, "L" a flat
\*              row-major vector with explicit dimensions - and the class's own
\*              algorithm for every member, transcribed from the code;
\*   view[id] : what the public queries report (getNumberOfRows/Columns, (i,j)).
\* The design model derives view from rep; the trace specification takes view
\* from the implementation.  Invariant Refines (view matches abs for every live
\* object) is "the result does not depend on the storage class": the abstract
\* side never looks at the class.
\*
\* Degenerate shapes: RowMatrix cannot remember the columns of a 0 x c matrix,
\* ColMatrix the rows of an r x 0 one, LinearMatrix keeps both.  Abstractly a
\* degenerate request yields the empty content with deg = TRUE; while deg holds
\* only "rows . columns = 0" is required of the reported dimensions, and no
\* class-specific member (addRow / addCol) is applied.  Everything that can be
\* observed later (resize to a proper shape gives zeros, copies are empty) is
\* asserted again.
EXTENDS MatDefs

CONSTANTS SIds,     \* object identifiers of the design model
          SDim,     \* design model: dimensions 0..SDim
          SVals     \* design model: values written

VARIABLES rep, view, abs, sout
svars == <<rep, view, abs, sout>>

\* ---------------------------------------------------------------- abstract side (class independent)
Norm(r, c, F(_, _)) ==
  IF r = 0 \/ c = 0 THEN [r |-> 0, c |-> 0, e |-> <<>>, deg |-> (r # 0 \/ c # 0)]
  ELSE [r |-> r, c |-> c, e |-> Mk(r, c, F).e, deg |-> FALSE]

ANew(r, c) == Norm(r, c, LAMBDA i, j : 0)
AResize(A, r, c) == Norm(r, c, LAMBDA i, j : IF i <= A.r /\ j <= A.c THEN A.e[i][j] ELSE 0)
\* resize(r, c, keepValues = false): the k-th cell in row-major order keeps the k-th old value
AResizeFlat(A, r, c) ==
  Norm(r, c, LAMBDA i, j : LET k == (i - 1) * c + j IN
                           IF k <= A.r * A.c THEN A.e[((k - 1) \div A.c) + 1][((k - 1) % A.c) + 1] ELSE 0)
AWrite(A, i, j, v) == [A EXCEPT !.e[i][j] = v]
ACopy(A) == A
AAddRowOk(A, v) == ~A.deg /\ (A.r = 0 \/ Len(v) = A.c)
AAddRow(A, v)   == Norm(A.r + 1, Len(v), LAMBDA i, j : IF i <= A.r THEN A.e[i][j] ELSE v[j])
AAddColOk(A, v) == ~A.deg /\ (A.c = 0 \/ Len(v) = A.r)
AAddCol(A, v)   == Norm(Len(v), A.c + 1, LAMBDA i, j : IF j <= A.c THEN A.e[i][j] ELSE v[i])

\* what the queries may report for content A
Match(v, A) == IF A.deg THEN v.r * v.c = 0
               ELSE v.r = A.r /\ v.c = A.c /\ v.e = A.e

\* ---------------------------------------------------------------- the property
Refines == /\ DOMAIN view = DOMAIN abs
           /\ \A id \in DOMAIN abs : Match(view[id], abs[id])
OutcomeKnown == sout \in {"ok", "raise:DimensionException"}

\* ---------------------------------------------------------------- concrete side (one algorithm per class)
NR(x) == CASE x.cls = "R" -> Len(x.m)
           [] x.cls = "C" -> IF Len(x.m) = 0 THEN 0 ELSE Len(x.m[1])
           [] OTHER -> x.rows
NC(x) == CASE x.cls = "R" -> IF Len(x.m) = 0 THEN 0 ELSE Len(x.m[1])
           [] x.cls = "C" -> Len(x.m)
           [] OTHER -> x.cols
Cell(x, i, j) == CASE x.cls = "R" -> x.m[i][j]
                   [] x.cls = "C" -> x.m[j][i]
                   [] OTHER -> x.v[(i - 1) * x.cols + j]
ViewOf(x) == [cls |-> x.cls, r |-> NR(x), c |-> NC(x),
              e |-> [i \in 1..NR(x) |-> [j \in 1..NC(x) |-> Cell(x, i, j)]]]

\* std::vector<std::vector>::resize : kept prefix, value-initialised tail
VecResize(s, n, fill) == [k \in 1..n |-> IF k <= Len(s) THEN s[k] ELSE fill]
Zeros(n) == [k \in 1..n |-> 0]

CNew(cls, r, c) ==
  CASE cls = "R" -> [cls |-> "R", m |-> [i \in 1..r |-> Zeros(c)]]
    [] cls = "C" -> [cls |-> "C", m |-> [j \in 1..c |-> Zeros(r)]]
    [] OTHER -> [cls |-> "L", v |-> Zeros(r * c), rows |-> r, cols |-> c]

CResize(x, r, c) ==
  CASE x.cls = "R" -> [x EXCEPT !.m = [i \in 1..r |-> VecResize(VecResize(x.m, r, <<>>)[i], c, 0)]]
    [] x.cls = "C" -> [x EXCEPT !.m = [j \in 1..c |-> VecResize(VecResize(x.m, c, <<>>)[j], r, 0)]]
    [] OTHER -> \* copy, resize_ the flat vector, rewrite every cell from the copy or with 0
         [cls |-> "L", rows |-> r, cols |-> c,
          v |-> [k \in 1..(r * c) |-> LET i == ((k - 1) \div c) + 1  j == ((k - 1) % c) + 1 IN
                                      IF i <= x.rows /\ j <= x.cols THEN x.v[(i - 1) * x.cols + j] ELSE 0]]
\* LinearMatrix only: resize_ alone
CResizeFlat(x, r, c) == [cls |-> "L", rows |-> r, cols |-> c, v |-> VecResize(x.v, r * c, 0)]

CWrite(x, i, j, val) ==
  CASE x.cls = "R" -> [x EXCEPT !.m[i][j] = val]
    [] x.cls = "C" -> [x EXCEPT !.m[j][i] = val]
    [] OTHER -> [x EXCEPT !.v[(i - 1) * x.cols + j] = val]

\* converting constructor / operator= : sized from the source's reported dimensions, every cell read through (i,j)
CConvert(cls, y) ==
  LET nr == NR(y) nc == NC(y) IN
  CASE cls = "R" -> [cls |-> "R", m |-> [i \in 1..nr |-> [j \in 1..nc |-> Cell(y, i, j)]]]
    [] cls = "C" -> [cls |-> "C", m |-> [j \in 1..nc |-> [i \in 1..nr |-> Cell(y, i, j)]]]
    [] OTHER -> [cls |-> "L", rows |-> nr, cols |-> nc,
                 v |-> [k \in 1..(nr * nc) |-> Cell(y, ((k - 1) \div nc) + 1, ((k - 1) % nc) + 1)]]

CAddRow(x, v) == [x EXCEPT !.m = Append(x.m, v)]      \* RowMatrix::addRow after its size test
CAddCol(x, v) == [x EXCEPT !.m = Append(x.m, v)]      \* ColMatrix::addCol after its size test

\* ---------------------------------------------------------------- actions
SPut(f, o, x) == [k \in DOMAIN f \cup {o} |-> IF k = o THEN x ELSE f[k]]
SDrop(f, o)  == [k \in DOMAIN f \ {o} |-> f[k]]
Live == DOMAIN abs

\* one member call on object o: new abstract content, new concrete representation, outcome
SStep(o, a, x, outcome) ==
  /\ abs' = SPut(abs, o, a)
  /\ rep' = SPut(rep, o, x)
  /\ view' = SPut(view, o, ViewOf(x))
  /\ sout' = outcome
SRaise == sout' = "raise:DimensionException" /\ UNCHANGED <<abs, rep, view>>

New(o, cls, r, c)  == o \notin Live /\ SStep(o, ANew(r, c), CNew(cls, r, c), "ok")
\* converting / copy constructor and clone (o2 fresh), operator= (o2 live, keeps its class)
Convert(o, o2, cls) == /\ o \in Live /\ o2 # o
                       /\ (o2 \in Live => cls = rep[o2].cls)
                       /\ SStep(o2, ACopy(abs[o]), CConvert(cls, rep[o]), "ok")
Resize(o, r, c)     == o \in Live /\ SStep(o, AResize(abs[o], r, c), CResize(rep[o], r, c), "ok")
ResizeFlat(o, r, c) == o \in Live /\ rep[o].cls = "L"
                       /\ SStep(o, AResizeFlat(abs[o], r, c), CResizeFlat(rep[o], r, c), "ok")
Write(o, i, j, val) == /\ o \in Live /\ ~abs[o].deg /\ i \in 1..abs[o].r /\ j \in 1..abs[o].c
                       /\ SStep(o, AWrite(abs[o], i, j, val), CWrite(rep[o], i, j, val), "ok")
AddRow(o, v) == /\ o \in Live /\ rep[o].cls = "R" /\ ~abs[o].deg
                /\ IF NC(rep[o]) # 0 /\ Len(v) # NC(rep[o]) THEN SRaise       \* the code's test
                   ELSE SStep(o, AAddRow(abs[o], v), CAddRow(rep[o], v), "ok")
AddCol(o, v) == /\ o \in Live /\ rep[o].cls = "C" /\ ~abs[o].deg
                /\ IF NR(rep[o]) # 0 /\ Len(v) # NR(rep[o]) THEN SRaise
                   ELSE SStep(o, AAddCol(abs[o], v), CAddCol(rep[o], v), "ok")
Drop(o) == o \in Live /\ abs' = SDrop(abs, o) /\ rep' = SDrop(rep, o) /\ view' = SDrop(view, o) /\ sout' = "ok"

\* the outcome of addRow / addCol is the documented one
AddOutcomeIsDefinition ==
  [][\A o \in SIds : \A v \in UNION {[1..n -> SVals] : n \in 1..SDim} :
       /\ (AddRow(o, v) => (sout' = "ok") = AAddRowOk(abs[o], v))
       /\ (AddCol(o, v) => (sout' = "ok") = AAddColOk(abs[o], v))]_svars
\* a call on one object never shows in another one (copies are independent)
OthersUntouched ==
  [][\A o \in DOMAIN view \cap DOMAIN view' : (abs'[o] = abs[o] /\ ~abs[o].deg) => view'[o] = view[o]]_svars

\* the design model stays inside SDim x SDim
AddRowBounded(o, v) == AddRow(o, v) /\ abs'[o].r <= SDim
AddColBounded(o, v) == AddCol(o, v) /\ abs'[o].c <= SDim

SInit == rep = <<>> /\ view = <<>> /\ abs = <<>> /\ sout = "ok"
Dims == 0..SDim
Vecs == UNION {[1..n -> SVals] : n \in 1..SDim}
SNext == \E o \in SIds :
           \/ \E cls \in {"R", "C", "L"}, r, c \in Dims : New(o, cls, r, c)
           \/ \E o2 \in SIds, cls \in {"R", "C", "L"} : Convert(o, o2, cls)
           \/ \E r, c \in Dims : Resize(o, r, c)
           \/ \E r, c \in Dims : ResizeFlat(o, r, c)
           \/ \E i, j \in 1..SDim, val \in SVals : Write(o, i, j, val)
           \/ \E v \in Vecs : AddRowBounded(o, v)
           \/ \E v \in Vecs : AddColBounded(o, v)
           \/ Drop(o)
SSpec == SInit /\ [][SNext]_svars
=============================================================================
