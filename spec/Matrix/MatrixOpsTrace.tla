---------------------------- MODULE MatrixOpsTrace ----------------------------
\* Trace validation for C04: every event recorded by harness/drv_matrix.cpp from
\* the real MatrixTools routines is bound to the Step of MatrixOps with
\*   - operands  = what the specification's heap holds for the logged ids (so a
\*     result computed earlier in the history is the operand of a later call),
\*   - expect    = the MatDefs definition applied to those operands,
\*   - outcome / outs = what the code did (logged outcome, content of every
\*     object involved read back through the public accessors).
\* The invariants of MatrixOps (OutcomeMatchesConformability, ResultIsDefinition,
\* InputsUntouched, ReturnedValuesMatch, WellFormedHeap) are evaluated in every
\* state, i.e. after every call.
\* Event: [e |-> op, in |-> <<ids>>, out |-> <<ids>>, r |-> outcome, p |-> parameters,
\*         w |-> <<<<id, matrix>>, ...>> content after the call of every object involved]
EXTENDS MatrixOps, Lap, TraceLib

LogW == Ev.w
Par == Ev.p
Logged == [id \in {LogW[i][1] : i \in DOMAIN LogW} |-> LogW[CHOOSE i \in DOMAIN LogW : LogW[i][1] = id][2]]
Opd(k)  == heap[Ev.in[k]]
InIds  == {Ev.in[k] : k \in DOMAIN Ev.in}
OutIds == {Ev.out[k] : k \in DOMAIN Ev.out}
ReadOnly == InIds \ OutIds
Known == InIds \subseteq DOMAIN heap /\ OutIds \subseteq DOMAIN heap
Okay == Ev.r = "ok"

\* Degenerate results.  Operands are taken with the dimensions they REPORT, so r x 0 and 0 x c operands (held by
\* a class that can report them) have ordinary textbook results.  An output object reports a degenerate result
\* the way its class can: RowMatrix shows 0 x c as 0 x 0, ColMatrix shows r x 0 as 0 x 0, LinearMatrix both as they are.
HeldDims(cls, r, c) ==
  IF (r = 0) = (c = 0) \/ cls = "L" THEN <<r, c>>
  ELSE IF cls = "R" THEN (IF r = 0 THEN <<0, 0>> ELSE <<r, 0>>)
  ELSE (IF c = 0 THEN <<0, 0>> ELSE <<0, c>>)
AsHeld(cls, X) == IF (X.r = 0) = (X.c = 0) THEN X
                  ELSE LET d == HeldDims(cls, X.r, X.c) IN Mk(d[1], d[2], LAMBDA i, j : 0)
OutCls(o) == Ev.ocls[CHOOSE ix \in DOMAIN Ev.out : Ev.out[ix] = o]

\* one MatrixTools call: conf / either / expect from the definitions, the rest from the log
Call(name, conf, either, expect, resok) ==
  /\ IsEvent(name) /\ Known
  /\ Step(name, conf, either, ReadOnly, [o \in DOMAIN expect |-> AsHeld(OutCls(o), expect[o])], Ev.r, Logged, resok)

TReset == IsEvent("Reset") /\ heap' = <<>> /\ out' = "ok" /\ last' = NoLast
TNew   == IsEvent("New")  /\ heap' = Override(heap, One(Ev.o, Ev.m)) /\ out' = "ok" /\ last' = NoLast
TPoke  == IsEvent("Poke") /\ Ev.o \in DOMAIN heap /\ heap' = Override(heap, One(Ev.o, Ev.m)) /\ out' = "ok" /\ last' = NoLast

TMul == LET c == ConfMul(Opd(1), Opd(2)) IN
        Call("Mul", c, FALSE, When(c, One(Ev.out[1], Mul(Opd(1), Opd(2)))), TRUE)
TMulC == LET c == ConfMulC(Opd(1), Opd(2), Opd(3), Opd(4))
             R == MulC(Opd(1), Opd(2), Opd(3), Opd(4)) IN
         Call("MulC", c, FALSE, When(c, (Ev.out[1] :> R[1]) @@ (Ev.out[2] :> R[2])), TRUE)
TMulDiag == LET c == ConfMulDiag(Opd(1), Par.d, Opd(2)) IN
            Call("MulDiag", c, FALSE, When(c, One(Ev.out[1], MulDiag(Opd(1), Par.d, Opd(2)))), TRUE)
TMulDiagC == LET c == ConfMulDiagC(Opd(1), Opd(2), Par.d, Par.id, Opd(3), Opd(4))
                 R == MulDiagC(Opd(1), Opd(2), Par.d, Par.id, Opd(3), Opd(4)) IN
             Call("MulDiagC", c, FALSE, When(c, (Ev.out[1] :> R[1]) @@ (Ev.out[2] :> R[2])), TRUE)
TMulTri == LET c == ConfMulTri(Opd(1), Par.d, Par.u, Par.l, Opd(2)) IN
           Call("MulTri", c, FALSE, When(c, One(Ev.out[1], MulTri(Opd(1), Par.d, Par.u, Par.l, Opd(2)))), TRUE)

\* add(A, B): A strictly inside B may be refused or summed with B's leading block (DESIGN 2e)
TAdd == LET c == SmallerOrEqual(Opd(1), Opd(2)) IN
        Call("Add", c, ~SameDims(Opd(1), Opd(2)), When(c, One(Ev.in[1], AddM(Opd(1), Opd(2)))), TRUE)
TAddScaled == LET c == SameDims(Opd(1), Opd(2)) IN
              Call("AddScaled", c, FALSE, When(c, One(Ev.in[1], AddScaled(Opd(1), Par.x, Opd(2)))), TRUE)
TScale == Call("Scale", TRUE, FALSE, One(Ev.in[1], ScaleM(Opd(1), Par.a, Par.b)), TRUE)
TTranspose == Call("Transpose", TRUE, FALSE, One(Ev.out[1], Transp(Opd(1))), TRUE)
TPow == LET c == IsSquare(Opd(1)) IN
        Call("Pow", c, FALSE, When(c, One(Ev.out[1], PowM(Opd(1), Par.p))), TRUE)
TTaylor == LET c == IsSquare(Opd(1)) IN
           Call("Taylor", c, FALSE, <<>>, (c /\ Okay) => Par.vO = Taylor(Opd(1), Par.p))

TKron == Call("Kron", TRUE, FALSE, One(Ev.out[1], Kron(Opd(1), Opd(2))), TRUE)
TKronDiag == Call("KronDiag", TRUE, FALSE, One(Ev.out[1], KronDiag(Opd(1), Par.dim, Par.v)), TRUE)
TKronRepl == Call("KronRepl", TRUE, FALSE, One(Ev.out[1], KronRepl(Opd(1), Opd(2), Par.dA, Par.dB)), TRUE)

THad == LET c == SameDims(Opd(1), Opd(2)) IN
        Call("Had", c, FALSE, When(c, One(Ev.out[1], Had(Opd(1), Opd(2)))), TRUE)
THadC == LET c == SameDims(Opd(1), Opd(2)) /\ SameDims(Opd(1), Opd(3)) /\ SameDims(Opd(1), Opd(4))
             R == HadC(Opd(1), Opd(2), Opd(3), Opd(4)) IN
         Call("HadC", c, FALSE, When(c, (Ev.out[1] :> R[1]) @@ (Ev.out[2] :> R[2])), TRUE)
THadVec == LET c == ConfHadVec(Opd(1), Par.v, Par.byRow) IN
           Call("HadVec", c, FALSE, When(c, One(Ev.out[1], HadVec(Opd(1), Par.v, Par.byRow))), TRUE)

TDSum == Call("DSum", TRUE, FALSE, One(Ev.out[1], DSum(Opd(1), Opd(2))), TRUE)
TDSumN == Call("DSumN", TRUE, FALSE, One(Ev.out[1], DSumN([k \in DOMAIN Ev.in |-> Opd(k)])), TRUE)

\* covariance is logged as round(n^2 . cov) together with "every entry within 1e-6 of that integer"
TCovar == Call("Covar", TRUE, FALSE, <<>>, Okay => (Par.close /\ Par.n2cov = Covar2(Opd(1))))

\* positions are 0-based in the log; a tie may be resolved either way, but identically for the three storage classes
TExtrema ==
  LET A == Opd(1)
      Pos(q) == <<q[1] + 1, q[2] + 1>> IN
  Call("Extrema", TRUE, FALSE, <<>>,
       Okay => /\ Par.sum = SumE(A)
               /\ (A.r >= 1 /\ A.c >= 1) =>
                     /\ Par.max = MaxV(A) /\ Par.min = MinV(A)
                     /\ \A k \in DOMAIN Par.wmax : Pos(Par.wmax[k]) \in ArgMax(A) /\ Par.wmax[k] = Par.wmax[1]
                     /\ \A k \in DOMAIN Par.wmin : Pos(Par.wmin[k]) \in ArgMin(A) /\ Par.wmin[k] = Par.wmin[1])

\* linear assignment: a square cost matrix must be solved (optimal permutation + dual certificate),
\* anything else must be refused
TLap ==
  /\ IsEvent("Lap")
  /\ Step("Lap", TRUE, TRUE, {}, <<>>, Ev.r, <<>>,
          IF IsSquare(Ev.C) THEN Okay /\ LapOk(Ev.C, Ev.rowSol, Ev.colSol, Ev.u, Ev.v, Ev.cost)
                            ELSE ~Okay)

TraceNext == \/ TReset \/ TNew \/ TPoke
             \/ TMul \/ TMulC \/ TMulDiag \/ TMulDiagC \/ TMulTri
             \/ TAdd \/ TAddScaled \/ TScale \/ TTranspose \/ TPow \/ TTaylor
             \/ TKron \/ TKronDiag \/ TKronRepl \/ THad \/ THadC \/ THadVec
             \/ TDSum \/ TDSumN \/ TCovar \/ TExtrema \/ TLap
TraceInit == heap = <<>> /\ out = "ok" /\ last = NoLast /\ l = 1
TraceSpec == TraceInit /\ [][TraceNext]_<<vars, l>>
=============================================================================
