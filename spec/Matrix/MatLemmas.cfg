SPECIFICATION Spec
CONSTANTS
  D = 2
  VMax = 1
  VS = {0, 1}
  QCells = 2
