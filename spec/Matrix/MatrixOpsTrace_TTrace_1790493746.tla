---- MODULE MatrixOpsTrace_TTrace_1790493746 ----
EXTENDS Sequences, TLCExt, Toolbox, Naturals, TLC, MatrixOpsTrace

_expression ==
    LET MatrixOpsTrace_TEExpression == INSTANCE MatrixOpsTrace_TEExpression
    IN MatrixOpsTrace_TEExpression!expression
----

_trace ==
    LET MatrixOpsTrace_TETrace == INSTANCE MatrixOpsTrace_TETrace
    IN MatrixOpsTrace_TETrace!trace
----

_inv ==
    ~(
        TLCGet("level") = Len(_TETrace)
        /\
        last = ([conf |-> TRUE, either |-> TRUE, expect |-> <<>>, resok |-> FALSE, op |-> "Lap", ins |-> {}, pre |-> <<>>, n |-> 61])
        /\
        heap = (<<>>)
        /\
        l = (63)
        /\
        out = ("ok")
    )
----

_init ==
    /\ heap = _TETrace[1].heap
    /\ l = _TETrace[1].l
    /\ last = _TETrace[1].last
    /\ out = _TETrace[1].out
----

_next ==
    /\ \E i,j \in DOMAIN _TETrace:
        /\ \/ /\ j = i + 1
              /\ i = TLCGet("level")
        /\ heap  = _TETrace[i].heap
        /\ heap' = _TETrace[j].heap
        /\ l  = _TETrace[i].l
        /\ l' = _TETrace[j].l
        /\ last  = _TETrace[i].last
        /\ last' = _TETrace[j].last
        /\ out  = _TETrace[i].out
        /\ out' = _TETrace[j].out

\* Uncomment the ASSUME below to write the states of the error trace
\* to the given file in Json format. Note that you can pass any tuple
\* to `JsonSerialize`. For example, a sub-sequence of _TETrace.
    \* ASSUME
    \*     LET J == INSTANCE Json
    \*         IN J!JsonSerialize("MatrixOpsTrace_TTrace_1790493746.json", _TETrace)

=============================================================================

 Note that you can extract this module `MatrixOpsTrace_TEExpression`
  to a dedicated file to reuse `expression` (the module in the 
  dedicated `MatrixOpsTrace_TEExpression.tla` file takes precedence 
  over the module `MatrixOpsTrace_TEExpression` below).

---- MODULE MatrixOpsTrace_TEExpression ----
EXTENDS Sequences, TLCExt, Toolbox, Naturals, TLC, MatrixOpsTrace

expression == 
    [
        \* To hide variables of the `MatrixOpsTrace` spec from the error trace,
        \* remove the variables below.  The trace will be written in the order
        \* of the fields of this record.
        heap |-> heap
        ,l |-> l
        ,last |-> last
        ,out |-> out
        
        \* Put additional constant-, state-, and action-level expressions here:
        \* ,_stateNumber |-> _TEPosition
        \* ,_heapUnchanged |-> heap = heap'
        
        \* Format the `heap` variable as Json value.
        \* ,_heapJson |->
        \*     LET J == INSTANCE Json
        \*     IN J!ToJson(heap)
        
        \* Lastly, you may build expressions over arbitrary sets of states by
        \* leveraging the _TETrace operator.  For example, this is how to
        \* count the number of times a spec variable changed up to the current
        \* state in the trace.
        \* ,_heapModCount |->
        \*     LET F[s \in DOMAIN _TETrace] ==
        \*         IF s = 1 THEN 0
        \*         ELSE IF _TETrace[s].heap # _TETrace[s-1].heap
        \*             THEN 1 + F[s-1] ELSE F[s-1]
        \*     IN F[_TEPosition - 1]
    ]

=============================================================================



Parsing and semantic processing can take forever if the trace below is long.
 In this case, it is advised to uncomment the module below to deserialize the
 trace from a generated binary file.

\*
\*---- MODULE MatrixOpsTrace_TETrace ----
\*EXTENDS IOUtils, TLC, MatrixOpsTrace
\*
\*trace == IODeserialize("MatrixOpsTrace_TTrace_1790493746.bin", TRUE)
\*
\*=============================================================================
\*

---- MODULE MatrixOpsTrace_TETrace ----
EXTENDS TLC, MatrixOpsTrace

trace == 
    <<
    ([last |-> [conf |-> TRUE, either |-> FALSE, expect |-> <<>>, resok |-> TRUE, op |-> "none", ins |-> {}, pre |-> <<>>, n |-> 0],heap |-> <<>>,l |-> 1,out |-> "ok"]),
    ([last |-> [conf |-> TRUE, either |-> FALSE, expect |-> <<>>, resok |-> TRUE, op |-> "none", ins |-> {}, pre |-> <<>>, n |-> 0],heap |-> <<>>,l |-> 2,out |-> "ok"]),
    ([last |-> [conf |-> TRUE, either |-> TRUE, expect |-> <<>>, resok |-> TRUE, op |-> "Lap", ins |-> {}, pre |-> <<>>, n |-> 1],heap |-> <<>>,l |-> 3,out |-> "ok"]),
    ([last |-> [conf |-> TRUE, either |-> TRUE, expect |-> <<>>, resok |-> TRUE, op |-> "Lap", ins |-> {}, pre |-> <<>>, n |-> 2],heap |-> <<>>,l |-> 4,out |-> "ok"]),
    ([last |-> [conf |-> TRUE, either |-> TRUE, expect |-> <<>>, resok |-> TRUE, op |-> "Lap", ins |-> {}, pre |-> <<>>, n |-> 3],heap |-> <<>>,l |-> 5,out |-> "ok"]),
    ([last |-> [conf |-> TRUE, either |-> TRUE, expect |-> <<>>, resok |-> TRUE, op |-> "Lap", ins |-> {}, pre |-> <<>>, n |-> 4],heap |-> <<>>,l |-> 6,out |-> "ok"]),
    ([last |-> [conf |-> TRUE, either |-> TRUE, expect |-> <<>>, resok |-> TRUE, op |-> "Lap", ins |-> {}, pre |-> <<>>, n |-> 5],heap |-> <<>>,l |-> 7,out |-> "ok"]),
    ([last |-> [conf |-> TRUE, either |-> TRUE, expect |-> <<>>, resok |-> TRUE, op |-> "Lap", ins |-> {}, pre |-> <<>>, n |-> 6],heap |-> <<>>,l |-> 8,out |-> "ok"]),
    ([last |-> [conf |-> TRUE, either |-> TRUE, expect |-> <<>>, resok |-> TRUE, op |-> "Lap", ins |-> {}, pre |-> <<>>, n |-> 7],heap |-> <<>>,l |-> 9,out |-> "ok"]),
    ([last |-> [conf |-> TRUE, either |-> TRUE, expect |-> <<>>, resok |-> TRUE, op |-> "Lap", ins |-> {}, pre |-> <<>>, n |-> 8],heap |-> <<>>,l |-> 10,out |-> "ok"]),
    ([last |-> [conf |-> TRUE, either |-> TRUE, expect |-> <<>>, resok |-> TRUE, op |-> "Lap", ins |-> {}, pre |-> <<>>, n |-> 9],heap |-> <<>>,l |-> 11,out |-> "ok"]),
    ([last |-> [conf |-> TRUE, either |-> TRUE, expect |-> <<>>, resok |-> TRUE, op |-> "Lap", ins |-> {}, pre |-> <<>>, n |-> 10],heap |-> <<>>,l |-> 12,out |-> "ok"]),
    ([last |-> [conf |-> TRUE, either |-> TRUE, expect |-> <<>>, resok |-> TRUE, op |-> "Lap", ins |-> {}, pre |-> <<>>, n |-> 11],heap |-> <<>>,l |-> 13,out |-> "ok"]),
    ([last |-> [conf |-> TRUE, either |-> TRUE, expect |-> <<>>, resok |-> TRUE, op |-> "Lap", ins |-> {}, pre |-> <<>>, n |-> 12],heap |-> <<>>,l |-> 14,out |-> "ok"]),
    ([last |-> [conf |-> TRUE, either |-> TRUE, expect |-> <<>>, resok |-> TRUE, op |-> "Lap", ins |-> {}, pre |-> <<>>, n |-> 13],heap |-> <<>>,l |-> 15,out |-> "ok"]),
    ([last |-> [conf |-> TRUE, either |-> TRUE, expect |-> <<>>, resok |-> TRUE, op |-> "Lap", ins |-> {}, pre |-> <<>>, n |-> 14],heap |-> <<>>,l |-> 16,out |-> "ok"]),
    ([last |-> [conf |-> TRUE, either |-> TRUE, expect |-> <<>>, resok |-> TRUE, op |-> "Lap", ins |-> {}, pre |-> <<>>, n |-> 15],heap |-> <<>>,l |-> 17,out |-> "ok"]),
    ([last |-> [conf |-> TRUE, either |-> TRUE, expect |-> <<>>, resok |-> TRUE, op |-> "Lap", ins |-> {}, pre |-> <<>>, n |-> 16],heap |-> <<>>,l |-> 18,out |-> "ok"]),
    ([last |-> [conf |-> TRUE, either |-> TRUE, expect |-> <<>>, resok |-> TRUE, op |-> "Lap", ins |-> {}, pre |-> <<>>, n |-> 17],heap |-> <<>>,l |-> 19,out |-> "ok"]),
    ([last |-> [conf |-> TRUE, either |-> TRUE, expect |-> <<>>, resok |-> TRUE, op |-> "Lap", ins |-> {}, pre |-> <<>>, n |-> 18],heap |-> <<>>,l |-> 20,out |-> "ok"]),
    ([last |-> [conf |-> TRUE, either |-> TRUE, expect |-> <<>>, resok |-> TRUE, op |-> "Lap", ins |-> {}, pre |-> <<>>, n |-> 19],heap |-> <<>>,l |-> 21,out |-> "ok"]),
    ([last |-> [conf |-> TRUE, either |-> TRUE, expect |-> <<>>, resok |-> TRUE, op |-> "Lap", ins |-> {}, pre |-> <<>>, n |-> 20],heap |-> <<>>,l |-> 22,out |-> "raise:Exception"]),
    ([last |-> [conf |-> TRUE, either |-> TRUE, expect |-> <<>>, resok |-> TRUE, op |-> "Lap", ins |-> {}, pre |-> <<>>, n |-> 21],heap |-> <<>>,l |-> 23,out |-> "ok"]),
    ([last |-> [conf |-> TRUE, either |-> TRUE, expect |-> <<>>, resok |-> TRUE, op |-> "Lap", ins |-> {}, pre |-> <<>>, n |-> 22],heap |-> <<>>,l |-> 24,out |-> "ok"]),
    ([last |-> [conf |-> TRUE, either |-> TRUE, expect |-> <<>>, resok |-> TRUE, op |-> "Lap", ins |-> {}, pre |-> <<>>, n |-> 23],heap |-> <<>>,l |-> 25,out |-> "ok"]),
    ([last |-> [conf |-> TRUE, either |-> TRUE, expect |-> <<>>, resok |-> TRUE, op |-> "Lap", ins |-> {}, pre |-> <<>>, n |-> 24],heap |-> <<>>,l |-> 26,out |-> "ok"]),
    ([last |-> [conf |-> TRUE, either |-> TRUE, expect |-> <<>>, resok |-> TRUE, op |-> "Lap", ins |-> {}, pre |-> <<>>, n |-> 25],heap |-> <<>>,l |-> 27,out |-> "ok"]),
    ([last |-> [conf |-> TRUE, either |-> TRUE, expect |-> <<>>, resok |-> TRUE, op |-> "Lap", ins |-> {}, pre |-> <<>>, n |-> 26],heap |-> <<>>,l |-> 28,out |-> "ok"]),
    ([last |-> [conf |-> TRUE, either |-> TRUE, expect |-> <<>>, resok |-> TRUE, op |-> "Lap", ins |-> {}, pre |-> <<>>, n |-> 27],heap |-> <<>>,l |-> 29,out |-> "ok"]),
    ([last |-> [conf |-> TRUE, either |-> TRUE, expect |-> <<>>, resok |-> TRUE, op |-> "Lap", ins |-> {}, pre |-> <<>>, n |-> 28],heap |-> <<>>,l |-> 30,out |-> "ok"]),
    ([last |-> [conf |-> TRUE, either |-> TRUE, expect |-> <<>>, resok |-> TRUE, op |-> "Lap", ins |-> {}, pre |-> <<>>, n |-> 29],heap |-> <<>>,l |-> 31,out |-> "ok"]),
    ([last |-> [conf |-> TRUE, either |-> TRUE, expect |-> <<>>, resok |-> TRUE, op |-> "Lap", ins |-> {}, pre |-> <<>>, n |-> 30],heap |-> <<>>,l |-> 32,out |-> "ok"]),
    ([last |-> [conf |-> TRUE, either |-> TRUE, expect |-> <<>>, resok |-> TRUE, op |-> "Lap", ins |-> {}, pre |-> <<>>, n |-> 31],heap |-> <<>>,l |-> 33,out |-> "ok"]),
    ([last |-> [conf |-> TRUE, either |-> TRUE, expect |-> <<>>, resok |-> TRUE, op |-> "Lap", ins |-> {}, pre |-> <<>>, n |-> 32],heap |-> <<>>,l |-> 34,out |-> "ok"]),
    ([last |-> [conf |-> TRUE, either |-> TRUE, expect |-> <<>>, resok |-> TRUE, op |-> "Lap", ins |-> {}, pre |-> <<>>, n |-> 33],heap |-> <<>>,l |-> 35,out |-> "ok"]),
    ([last |-> [conf |-> TRUE, either |-> TRUE, expect |-> <<>>, resok |-> TRUE, op |-> "Lap", ins |-> {}, pre |-> <<>>, n |-> 34],heap |-> <<>>,l |-> 36,out |-> "raise:Exception"]),
    ([last |-> [conf |-> TRUE, either |-> TRUE, expect |-> <<>>, resok |-> TRUE, op |-> "Lap", ins |-> {}, pre |-> <<>>, n |-> 35],heap |-> <<>>,l |-> 37,out |-> "ok"]),
    ([last |-> [conf |-> TRUE, either |-> TRUE, expect |-> <<>>, resok |-> TRUE, op |-> "Lap", ins |-> {}, pre |-> <<>>, n |-> 36],heap |-> <<>>,l |-> 38,out |-> "ok"]),
    ([last |-> [conf |-> TRUE, either |-> TRUE, expect |-> <<>>, resok |-> TRUE, op |-> "Lap", ins |-> {}, pre |-> <<>>, n |-> 37],heap |-> <<>>,l |-> 39,out |-> "ok"]),
    ([last |-> [conf |-> TRUE, either |-> TRUE, expect |-> <<>>, resok |-> TRUE, op |-> "Lap", ins |-> {}, pre |-> <<>>, n |-> 38],heap |-> <<>>,l |-> 40,out |-> "ok"]),
    ([last |-> [conf |-> TRUE, either |-> TRUE, expect |-> <<>>, resok |-> TRUE, op |-> "Lap", ins |-> {}, pre |-> <<>>, n |-> 39],heap |-> <<>>,l |-> 41,out |-> "ok"]),
    ([last |-> [conf |-> TRUE, either |-> TRUE, expect |-> <<>>, resok |-> TRUE, op |-> "Lap", ins |-> {}, pre |-> <<>>, n |-> 40],heap |-> <<>>,l |-> 42,out |-> "ok"]),
    ([last |-> [conf |-> TRUE, either |-> TRUE, expect |-> <<>>, resok |-> TRUE, op |-> "Lap", ins |-> {}, pre |-> <<>>, n |-> 41],heap |-> <<>>,l |-> 43,out |-> "ok"]),
    ([last |-> [conf |-> TRUE, either |-> TRUE, expect |-> <<>>, resok |-> TRUE, op |-> "Lap", ins |-> {}, pre |-> <<>>, n |-> 42],heap |-> <<>>,l |-> 44,out |-> "ok"]),
    ([last |-> [conf |-> TRUE, either |-> TRUE, expect |-> <<>>, resok |-> TRUE, op |-> "Lap", ins |-> {}, pre |-> <<>>, n |-> 43],heap |-> <<>>,l |-> 45,out |-> "ok"]),
    ([last |-> [conf |-> TRUE, either |-> TRUE, expect |-> <<>>, resok |-> TRUE, op |-> "Lap", ins |-> {}, pre |-> <<>>, n |-> 44],heap |-> <<>>,l |-> 46,out |-> "ok"]),
    ([last |-> [conf |-> TRUE, either |-> TRUE, expect |-> <<>>, resok |-> TRUE, op |-> "Lap", ins |-> {}, pre |-> <<>>, n |-> 45],heap |-> <<>>,l |-> 47,out |-> "ok"]),
    ([last |-> [conf |-> TRUE, either |-> TRUE, expect |-> <<>>, resok |-> TRUE, op |-> "Lap", ins |-> {}, pre |-> <<>>, n |-> 46],heap |-> <<>>,l |-> 48,out |-> "ok"]),
    ([last |-> [conf |-> TRUE, either |-> TRUE, expect |-> <<>>, resok |-> TRUE, op |-> "Lap", ins |-> {}, pre |-> <<>>, n |-> 47],heap |-> <<>>,l |-> 49,out |-> "ok"]),
    ([last |-> [conf |-> TRUE, either |-> TRUE, expect |-> <<>>, resok |-> TRUE, op |-> "Lap", ins |-> {}, pre |-> <<>>, n |-> 48],heap |-> <<>>,l |-> 50,out |-> "ok"]),
    ([last |-> [conf |-> TRUE, either |-> TRUE, expect |-> <<>>, resok |-> TRUE, op |-> "Lap", ins |-> {}, pre |-> <<>>, n |-> 49],heap |-> <<>>,l |-> 51,out |-> "ok"]),
    ([last |-> [conf |-> TRUE, either |-> TRUE, expect |-> <<>>, resok |-> TRUE, op |-> "Lap", ins |-> {}, pre |-> <<>>, n |-> 50],heap |-> <<>>,l |-> 52,out |-> "raise:Exception"]),
    ([last |-> [conf |-> TRUE, either |-> TRUE, expect |-> <<>>, resok |-> TRUE, op |-> "Lap", ins |-> {}, pre |-> <<>>, n |-> 51],heap |-> <<>>,l |-> 53,out |-> "ok"]),
    ([last |-> [conf |-> TRUE, either |-> TRUE, expect |-> <<>>, resok |-> TRUE, op |-> "Lap", ins |-> {}, pre |-> <<>>, n |-> 52],heap |-> <<>>,l |-> 54,out |-> "raise:Exception"]),
    ([last |-> [conf |-> TRUE, either |-> TRUE, expect |-> <<>>, resok |-> TRUE, op |-> "Lap", ins |-> {}, pre |-> <<>>, n |-> 53],heap |-> <<>>,l |-> 55,out |-> "raise:Exception"]),
    ([last |-> [conf |-> TRUE, either |-> TRUE, expect |-> <<>>, resok |-> TRUE, op |-> "Lap", ins |-> {}, pre |-> <<>>, n |-> 54],heap |-> <<>>,l |-> 56,out |-> "raise:Exception"]),
    ([last |-> [conf |-> TRUE, either |-> TRUE, expect |-> <<>>, resok |-> TRUE, op |-> "Lap", ins |-> {}, pre |-> <<>>, n |-> 55],heap |-> <<>>,l |-> 57,out |-> "ok"]),
    ([last |-> [conf |-> TRUE, either |-> TRUE, expect |-> <<>>, resok |-> TRUE, op |-> "Lap", ins |-> {}, pre |-> <<>>, n |-> 56],heap |-> <<>>,l |-> 58,out |-> "ok"]),
    ([last |-> [conf |-> TRUE, either |-> TRUE, expect |-> <<>>, resok |-> TRUE, op |-> "Lap", ins |-> {}, pre |-> <<>>, n |-> 57],heap |-> <<>>,l |-> 59,out |-> "ok"]),
    ([last |-> [conf |-> TRUE, either |-> TRUE, expect |-> <<>>, resok |-> TRUE, op |-> "Lap", ins |-> {}, pre |-> <<>>, n |-> 58],heap |-> <<>>,l |-> 60,out |-> "ok"]),
    ([last |-> [conf |-> TRUE, either |-> TRUE, expect |-> <<>>, resok |-> TRUE, op |-> "Lap", ins |-> {}, pre |-> <<>>, n |-> 59],heap |-> <<>>,l |-> 61,out |-> "ok"]),
    ([last |-> [conf |-> TRUE, either |-> TRUE, expect |-> <<>>, resok |-> TRUE, op |-> "Lap", ins |-> {}, pre |-> <<>>, n |-> 60],heap |-> <<>>,l |-> 62,out |-> "ok"]),
    ([last |-> [conf |-> TRUE, either |-> TRUE, expect |-> <<>>, resok |-> FALSE, op |-> "Lap", ins |-> {}, pre |-> <<>>, n |-> 61],heap |-> <<>>,l |-> 63,out |-> "ok"])
    >>
----


=============================================================================

---- CONFIG MatrixOpsTrace_TTrace_1790493746 ----
CONSTANTS
    Ids = { }
    OutId = 0
    DMax = 1000000
    Vals = { }
    Bound = 1000000000
    Depth = 1000000000

INVARIANT
    _inv

CHECK_DEADLOCK
    \* CHECK_DEADLOCK off because of PROPERTY or INVARIANT above.
    FALSE

INIT
    _init

NEXT
    _next

CONSTANT
    _TETrace <- _trace

ALIAS
    _expression
=============================================================================
\* Generated on Sun Sep 27 07:22:27 UTC 2026