SPECIFICATION TraceSpec
CONSTANTS
  Vars = {"a", "b"}
  BadVars = {"zz"}
  MaxVer = 100000
  Kinds = {}
  Variant = "ok"
INVARIANTS Fresh CachesCurrent
POSTCONDITION TraceAccepted
CHECK_DEADLOCK FALSE
