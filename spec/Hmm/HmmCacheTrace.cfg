SPECIFICATION TraceSpec
CONSTANTS
  Vars = {"a", "b"}
  BadVars = {"zz"}
  MaxVer = 100000
  Kinds = {}
  Objs = {}
  Variant = "ok"
INVARIANTS TypeOK Fresh CachesCurrent CopyIndependent
POSTCONDITION TraceAccepted
CHECK_DEADLOCK FALSE
