---------------------------- MODULE HmmCacheTrace ----------------------------
\* Trace validation of the history part of C13.  Every event recorded by
\* harness/drv_hmm.cpp --mode cache is one action of HmmCache:
\*   Reset   k = instance kind                    -> initial state of that kind
\*   Update / SetBps  ver = the driver's version counter after the call
\*   QLogLik QPost QSite QD1 QD2 QTPij QTMat QTEq
\*           same = the versions v for which a FRESH object of the same class,
\*           built at the parameter values (and break points) of version v and
\*           asked only this question, gives the identical answer (same outcome
\*           kind, every number bit for bit)
\* The model answers every query with the stamp of the version it was computed
\* from; the implementation conforms iff that stamp is one of the versions that
\* explain the observed answer.  Because the design keeps Fresh, this is
\* "the current version explains the answer" - nothing is asserted about which
\* stale version might explain a wrong one, and nothing about the outcome kind
\* (refusing or answering is the class's choice, as long as a fresh object of the
\* class makes the same choice at the same parameters).
\* mem = no heap block was overrun since the start of the run.
EXTENDS HmmCache, TraceLib

ToSet(s) == {s[i] : i \in DOMAIN s}

Explained == ans'.st \in ToSet(Ev.same) /\ Ev.ver = ver /\ Ev.mem

TReset   == /\ IsEvent("Reset")
            /\ Ev.k \in LikKinds \cup TmKinds
            /\ kind' = Ev.k /\ ver' = 0 /\ fwd' = 0
            /\ back' = [ok |-> FALSE, st |-> Garbage]
            /\ d1' = None /\ d2' = None /\ em1' = None /\ em2' = None
            /\ flag' = FALSE /\ pij' = Garbage /\ eq' = Garbage /\ ans' = None

TUpdate  == IsEvent("Update") /\ Update /\ Ev.r = "ok" /\ Ev.ver = ver' /\ Ev.mem
TSetBps  == IsEvent("SetBps") /\ SetBps /\ Ev.r = "ok" /\ Ev.ver = ver' /\ Ev.mem
TQLogLik == IsEvent("QLogLik") /\ QLogLik /\ Explained
TQPost   == IsEvent("QPost") /\ QPosterior("Post") /\ Explained
TQSite   == IsEvent("QSite") /\ QPosterior("Site") /\ Explained
TQD1     == IsEvent("QD1") /\ Ev.var \in Vars \cup BadVars /\ QD1(Ev.var) /\ Explained
TQD2     == IsEvent("QD2") /\ Ev.var \in Vars \cup BadVars /\ QD2(Ev.var) /\ Explained
TQTPij   == IsEvent("QTPij") /\ TQPij /\ Explained
TQTMat   == IsEvent("QTMat") /\ TQMat /\ Explained
TQTEq    == IsEvent("QTEq") /\ TQEq /\ Explained

TraceNext == TReset \/ TUpdate \/ TSetBps \/ TQLogLik \/ TQPost \/ TQSite \/ TQD1 \/ TQD2
             \/ TQTPij \/ TQTMat \/ TQTEq
TraceInit == InitFor("rescaled") /\ l = 1
TraceSpec == TraceInit /\ [][TraceNext]_<<vars, l>>
=============================================================================
