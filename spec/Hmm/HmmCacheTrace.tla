---------------------------- MODULE HmmCacheTrace ----------------------------
\* Trace validation of the history part of C13.  Every event recorded by
\* harness/drv_hmm.cpp --mode cache is one action of HmmCache on object o:
\*   Reset   k = instance kind                    -> a single object 1 of that kind
\*   Update / SetBps  ver = the driver's version counter of o after the call
\*   Copy    o -> o2 (how = clone | ctor | assign), Drop o
\*   QLogLik QPost QSite QD1 QD2 QTPij QTMat QTEq
\*           same = the versions v of o's history for which a FRESH object of the
\*           same class, built at the parameter values (and break points) of
\*           version v and asked only this question, gives the identical answer
\*           (same outcome kind, every number bit for bit)
\* The model answers every query with the stamp of the version it was computed
\* from; the implementation conforms iff that stamp is one of the versions that
\* explain the observed answer.  Because the design keeps Fresh, this is
\* "the object's current version explains the answer" - nothing is asserted about
\* which stale version might explain a wrong one, and nothing about the outcome kind
\* (refusing or answering is the class's choice, as long as a fresh object of the
\* class makes the same choice at the same parameters).
\* mem = no heap block was overrun since the start of the scenario.
EXTENDS HmmCache, TraceLib

ToSet(s) == {s[i] : i \in DOMAIN s}

Explained == /\ obj'[Ev.o].ans.st \in ToSet(Ev.same)
             /\ Ev.ver = obj[Ev.o].ver /\ Ev.mem

TReset   == /\ IsEvent("Reset")
            /\ Ev.k \in LikKinds \cup TmKinds
            /\ obj' = [o \in {1} |-> InitRec(Ev.k, 1)]

TUpdate  == IsEvent("Update") /\ Update(Ev.o) /\ Ev.r = "ok" /\ Ev.ver = obj'[Ev.o].ver /\ Ev.mem
TSetBps  == IsEvent("SetBps") /\ SetBps(Ev.o) /\ Ev.r = "ok" /\ Ev.ver = obj'[Ev.o].ver /\ Ev.mem
TCopy    == IsEvent("Copy") /\ Copy(Ev.o, Ev.o2) /\ Ev.r = "ok" /\ Ev.mem
TDrop    == IsEvent("Drop") /\ Drop(Ev.o) /\ Ev.mem
TQLogLik == IsEvent("QLogLik") /\ QLogLik(Ev.o) /\ Explained
TQPost   == IsEvent("QPost") /\ QPosterior(Ev.o, "Post") /\ Explained
TQSite   == IsEvent("QSite") /\ QPosterior(Ev.o, "Site") /\ Explained
TQD1     == IsEvent("QD1") /\ Ev.var \in Vars \cup BadVars /\ QD1(Ev.o, Ev.var) /\ Explained
TQD2     == IsEvent("QD2") /\ Ev.var \in Vars \cup BadVars /\ QD2(Ev.o, Ev.var) /\ Explained
TQTPij   == IsEvent("QTPij") /\ TQPij(Ev.o) /\ Explained
TQTMat   == IsEvent("QTMat") /\ TQMat(Ev.o) /\ Explained
TQTEq    == IsEvent("QTEq") /\ TQEq(Ev.o) /\ Explained

TraceNext == TReset \/ TUpdate \/ TSetBps \/ TCopy \/ TDrop \/ TQLogLik \/ TQPost \/ TQSite \/ TQD1 \/ TQD2
             \/ TQTPij \/ TQTMat \/ TQTEq
TraceInit == obj = [o \in {1} |-> InitRec("rescaled", 1)] /\ l = 1
TraceSpec == TraceInit /\ [][TraceNext]_<<vars, l>>
=============================================================================
