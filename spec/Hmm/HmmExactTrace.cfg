SPECIFICATION TraceSpec
CONSTANTS
  N = 1
  MaxLen = 1
  DP = 1
  EVals = {}
  ChunkVariant = "fixed"
INVARIANTS ModelOk InRange ForwardIsDefinition DerivativesAreDefinition ExponentFactorsOut UninformativeIsOne ChunksCoverSites
POSTCONDITION TraceAccepted
CHECK_DEADLOCK FALSE
