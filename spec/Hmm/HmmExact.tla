------------------------------ MODULE HmmExact ------------------------------
\* Exact part of C13: the likelihood of the data under a hidden Markov model
\* is the sum over all hidden paths of the product of start / transition /
\* emission probabilities, the chain being started from its stationary
\* distribution and restarted at each break point; posteriors are ratios of
\* such sums.  All probabilities are integers over fixed denominators
\* (dyadic models), so the sums are exact integers at the scale
\*     dPi^segments * dP^(len - segments) * dE^len.
\*
\* A model is a record
\*   [n, len,            number of hidden states / of sites
\*    P, dP,             P[i][j]  = numerator of Pr(i -> j) over dP
\*    Pi, dPi,           Pi[j]    = numerator of the start probability over dPi
\*    E, dE,             E[t][j]  = numerator of the emission of site t in state j
\*    dEm, d2Em,         numerators (over dE) of the first / second derivative of the emissions
\*                       with respect to the variable under consideration
\*    ex,                ex[t] = binary exponent of site t: its emissions are (E[t][j] / dE) * 2^-ex[t]
\*                       (tiny emissions, 2^-70 .. 2^-600, stay exact: mantissa and exponent are separate)
\*    bps,               break points as the library takes them: strictly
\*                       increasing 0-based positions b in 1..len-1, site b
\*                       starts a new segment
\*    chunk]             buffer size of the low-memory algorithm
\*
\* Two layers:
\*  (definition)   Walk enumerates every hidden path, multiplies along the path
\*                 and adds the leaves: LikDef, ThroughDef.
\*  (algorithm)    a transcription, one action per loop iteration, of what the
\*                 three classes do: forward recursion with restart at break
\*                 points (iterator logic of computeForward_), accumulation of
\*                 the per-site scale factors in chunks (LowMemory...), backward
\*                 recursion with the reverse iterator (computeBackward_),
\*                 posterior = forward x backward.  Rescaling / log space are
\*                 numeric devices and are not modelled: values are unscaled.
\* TLC checks over every small model that the algorithm equals the definition,
\* that the chunk buffer is never indexed out of range and that every site's
\* factor is accumulated exactly once.  HmmExactTrace binds the same operators
\* to what the real classes return.
EXTENDS Integers, Sequences, FiniteSets, TLC

CONSTANTS N, MaxLen,       \* design model: states, maximal number of sites
          DP,              \* design model: denominator of P and Pi
          EVals,           \* design model: emission numerators
          ChunkVariant     \* "fixed" (the design) | "asis" (write-then-flush, negative control)

VARIABLES m, pc, st, bt
vars == <<m, pc, st, bt>>

Mn(a, b) == IF a < b THEN a ELSE b
SumF(f(_), n) == LET S[k \in 0..n] == IF k = 0 THEN 0 ELSE S[k - 1] + f(k) IN S[n]
ProdF(f(_), n) == LET S[k \in 0..n] == IF k = 0 THEN 1 ELSE S[k - 1] * f(k) IN S[n]
SumV(v) == SumF(LAMBDA k : v[k], Len(v))

States(mm) == 1..mm.n
Sites(mm)  == 1..mm.len
Starts(mm) == {1} \cup {mm.bps[k] + 1 : k \in DOMAIN mm.bps}      \* 1-based first sites of the segments
NSeg(mm)   == Cardinality(Starts(mm))

\* ---------------------------------------------------------------- well-formed models
BpsOk(mm) == /\ \A k \in DOMAIN mm.bps : mm.bps[k] \in 1..(mm.len - 1)
             /\ \A k \in 1..(Len(mm.bps) - 1) : mm.bps[k] < mm.bps[k + 1]
RowStochastic(mm) == \A i \in States(mm) : /\ \A j \in States(mm) : mm.P[i][j] >= 0
                                           /\ SumV(mm.P[i]) = mm.dP
Distribution(mm)  == (\A j \in States(mm) : mm.Pi[j] >= 0) /\ SumV(mm.Pi) = mm.dPi
PiP(mm, j) == SumF(LAMBDA k : mm.Pi[k] * mm.P[k][j], mm.n)
Stationary(mm)    == \A j \in States(mm) : PiP(mm, j) = mm.Pi[j] * mm.dP      \* pi P = pi

\* ---------------------------------------------------------------- definition: path enumeration
\* weight of one step of a path: site t entered in state s coming from state prev
IsStart(mm, t) == t = 1 \/ \E k \in DOMAIN mm.bps : mm.bps[k] + 1 = t
StepW(mm, t, prev, s) == (IF IsStart(mm, t) THEN mm.Pi[s] ELSE mm.P[prev][s]) * mm.E[t][s]

\* Sum over every hidden path that extends the prefix (sites < t, last state prev,
\* weight w so far) and passes through state cs at site ct (ct = 0: no condition).
\* One leaf per path; the leaf returns the product along the whole path.
RECURSIVE Walk(_, _, _, _, _, _)
Walk(mm, t, prev, w, ct, cs) ==
  IF t > mm.len THEN w
  ELSE SumF(LAMBDA s : IF t = ct /\ s # cs THEN 0
                       ELSE Walk(mm, t + 1, s, w * StepW(mm, t, prev, s), ct, cs), mm.n)

LikDef(mm)           == Walk(mm, 1, 1, 1, 0, 0)
ThroughDef(mm, t, s) == Walk(mm, 1, 1, 1, t, s)          \* = posterior_t(s) * LikDef

\* The likelihood is a polynomial in an emission parameter; its first and second derivative are
\* again sums over all paths (product rule along the path: w, w', w'' of the prefix).
\* d log L = L'/L and d2 log L = L''/L - (L'/L)^2, so L' and L'' are what the classes must deliver.
RECURSIVE WalkD(_, _, _, _, _, _, _)
WalkD(mm, t, prev, w, dw, d2w, which) ==
  IF t > mm.len THEN (IF which = 1 THEN dw ELSE d2w)
  ELSE SumF(LAMBDA s :
              LET g  == IF IsStart(mm, t) THEN mm.Pi[s] ELSE mm.P[prev][s]
                  f  == g * mm.E[t][s]
                  f1 == g * mm.dEm[t][s]
                  f2 == g * mm.d2Em[t][s]
              IN WalkD(mm, t + 1, s, w * f, dw * f + w * f1, d2w * f + 2 * dw * f1 + w * f2, which), mm.n)

\* With per-site exponents every path carries the factor 2^-(sum of the exponents of its sites): the
\* exponent of a path does not depend on the path, so the likelihood is LikDef * 2^-LikExp / scale, the
\* posteriors (ratios of path sums) do not see the exponents at all, and log L = log(LikDef / scale) - LikExp log 2.
RECURSIVE PathExps(_, _, _)
PathExps(mm, t, x) ==      \* the set of exponents carried by the paths (one element iff it factors out)
  IF t > mm.len THEN {x} ELSE UNION {PathExps(mm, t + 1, x + mm.ex[t]) : s \in States(mm)}
LikExp(mm) == SumF(LAMBDA t : mm.ex[t], mm.len)

D1LikDef(mm) == WalkD(mm, 1, 1, 1, 0, 0, 1)
D2LikDef(mm) == WalkD(mm, 1, 1, 1, 0, 0, 2)

\* ---------------------------------------------------------------- algorithm: forward pass + chunked accumulation
\* start of a segment as the code computes it, sum_k pi_k P(k,j); equals pi_j for a stationary pi
StartVec(mm) == [j \in States(mm) |-> PiP(mm, j) \div mm.dP]
BufSize(mm)  == Mn(mm.chunk, mm.len)

\* st.i = number of sites done = 0-based index of the next site; st.F[t] = unscaled forward
\* vector of site t within its segment; st.acc = product of the totals of the closed segments;
\* st.it / st.nxt = break point iterator and "next break point"; st.buf = chunk buffer holding
\* site indices, st.off = its offset, st.sum = sites whose factor went into the log-likelihood
\* (in order), st.oob = some buffer access was out of range
FwdInit(mm) ==
  [i |-> 1,
   F |-> << [j \in States(mm) |-> mm.E[1][j] * StartVec(mm)[j]] >>,
   dF |-> << [j \in States(mm) |-> mm.dEm[1][j] * StartVec(mm)[j]] >>,
   d2F |-> << [j \in States(mm) |-> mm.d2Em[1][j] * StartVec(mm)[j]] >>,
   acc |-> 1, dacc |-> 0, d2acc |-> 0, it |-> 1,
   nxt |-> IF mm.bps # <<>> THEN mm.bps[1] ELSE mm.len,
   buf |-> [p \in 1..BufSize(mm) |-> IF p = 1 THEN 0 ELSE -1],
   off |-> 0, sum |-> <<>>, oob |-> BufSize(mm) < 1]

Put(buf, slot, v) == IF slot + 1 \in DOMAIN buf THEN [buf EXCEPT ![slot + 1] = v] ELSE buf

FwdNext(mm, s) ==
  LET i    == s.i
      t    == i + 1
      cont == i < s.nxt
      prevF == s.F[t - 1]
      newF == IF cont
              THEN [j \in States(mm) |-> mm.E[t][j] * SumF(LAMBDA k : mm.P[k][j] * prevF[k], mm.n)]
              ELSE [j \in States(mm) |-> mm.E[t][j] * StartVec(mm)[j]]
      \* derivative recursions (computeDForward_ / computeD2Forward_), unscaled
      prevD  == s.dF[t - 1]
      prevD2 == s.d2F[t - 1]
      S0(j) == SumF(LAMBDA k : mm.P[k][j] * prevF[k], mm.n)
      S1(j) == SumF(LAMBDA k : mm.P[k][j] * prevD[k], mm.n)
      S2(j) == SumF(LAMBDA k : mm.P[k][j] * prevD2[k], mm.n)
      newD  == IF cont
               THEN [j \in States(mm) |-> mm.dEm[t][j] * S0(j) + mm.E[t][j] * S1(j)]
               ELSE [j \in States(mm) |-> mm.dEm[t][j] * StartVec(mm)[j]]
      newD2 == IF cont
               THEN [j \in States(mm) |-> mm.d2Em[t][j] * S0(j) + 2 * mm.dEm[t][j] * S1(j) + mm.E[t][j] * S2(j)]
               ELSE [j \in States(mm) |-> mm.d2Em[t][j] * StartVec(mm)[j]]
      \* closing a segment: product rule on (likelihood so far) x (total of the segment)
      T0 == SumV(prevF)
      T1 == SumV(prevD)
      T2 == SumV(prevD2)
      nacc   == IF cont THEN s.acc ELSE s.acc * T0
      ndacc  == IF cont THEN s.dacc ELSE s.dacc * T0 + s.acc * T1
      nd2acc == IF cont THEN s.d2acc ELSE s.d2acc * T0 + 2 * s.dacc * T1 + s.acc * T2
      nit  == IF cont THEN s.it ELSE s.it + 1
      nnxt == IF cont THEN s.nxt ELSE IF nit <= Len(mm.bps) THEN mm.bps[nit] ELSE mm.len
      bs   == BufSize(mm)
      \* design: a full buffer is summed up *before* the next factor is stored
      full   == i - s.off = bs
      off1   == IF full THEN s.off + bs ELSE s.off
      sum1   == IF full THEN s.sum \o s.buf ELSE s.sum
      \* as found: store first, sum up when slot maxSize-1 was written
      slotA  == i - s.off
      fullA  == slotA = mm.chunk - 1
      bufA   == Put(s.buf, slotA, i)
  IN IF ChunkVariant = "fixed"
     THEN [i |-> i + 1, F |-> Append(s.F, newF), dF |-> Append(s.dF, newD), d2F |-> Append(s.d2F, newD2),
           acc |-> nacc, dacc |-> ndacc, d2acc |-> nd2acc,
           it |-> nit, nxt |-> nnxt,
           buf |-> Put(s.buf, i - off1, i), off |-> off1, sum |-> sum1,
           oob |-> s.oob \/ i - off1 >= bs]
     ELSE [i |-> i + 1, F |-> Append(s.F, newF), dF |-> Append(s.dF, newD), d2F |-> Append(s.d2F, newD2),
           acc |-> nacc, dacc |-> ndacc, d2acc |-> nd2acc,
           it |-> nit, nxt |-> nnxt,
           buf |-> bufA, off |-> IF fullA THEN s.off + mm.chunk ELSE s.off,
           sum |-> IF fullA THEN s.sum \o SubSeq(bufA, 1, Mn(mm.chunk, Len(bufA))) ELSE s.sum,
           oob |-> s.oob \/ slotA >= bs]

RECURSIVE RunFwd(_, _)
RunFwd(mm, s) == IF s.i >= mm.len THEN s ELSE RunFwd(mm, FwdNext(mm, s))

LikAlg(mm, s)  == s.acc * SumV(s.F[mm.len])
D1LikAlg(mm, s) == s.dacc * SumV(s.F[mm.len]) + s.acc * SumV(s.dF[mm.len])
D2LikAlg(mm, s) == s.d2acc * SumV(s.F[mm.len]) + 2 * s.dacc * SumV(s.dF[mm.len]) + s.acc * SumV(s.d2F[mm.len])
Summed(mm, s)  == s.sum \o SubSeq(s.buf, 1, mm.len - s.off)       \* the final partial sum
EachSiteOnce(mm, s) == /\ Len(Summed(mm, s)) = mm.len
                       /\ {Summed(mm, s)[k] : k \in 1..mm.len} = 0..(mm.len - 1)

\* ---------------------------------------------------------------- algorithm: backward pass, posteriors
\* bt.i = 0-based loop index (emissions of site i are folded into site i-1)
BwdInit(mm) ==
  [i |-> mm.len - 1,
   B |-> [t \in Sites(mm) |-> [j \in States(mm) |-> IF t = mm.len THEN 1 ELSE 0]],
   it |-> Len(mm.bps),
   nxt |-> IF mm.bps # <<>> THEN mm.bps[Len(mm.bps)] ELSE 0]

BwdNext(mm, b) ==
  LET i == b.i
      t == i + 1
      cont == i > b.nxt
      nit  == IF cont THEN b.it ELSE b.it - 1
      row  == IF cont
              THEN [j \in States(mm) |-> SumF(LAMBDA k : mm.E[t][k] * mm.P[j][k] * b.B[t][k], mm.n)]
              ELSE [j \in States(mm) |-> 1]
  IN [i |-> i - 1, B |-> [b.B EXCEPT ![t - 1] = row], it |-> nit,
      nxt |-> IF cont THEN b.nxt ELSE IF nit >= 1 THEN mm.bps[nit] ELSE 0]

RECURSIVE RunBwd(_, _)
RunBwd(mm, b) == IF b.i < 1 THEN b ELSE RunBwd(mm, BwdNext(mm, b))

SegStart(mm, t) == CHOOSE x \in Starts(mm) : x <= t /\ \A y \in Starts(mm) : y <= t => y <= x
SegEnd(mm, x)   == IF \E y \in Starts(mm) : y > x
                   THEN (CHOOSE y \in Starts(mm) : y > x /\ \A z \in Starts(mm) : z > x => y <= z) - 1
                   ELSE mm.len
SegLik(mm, s, x) == SumV(s.F[SegEnd(mm, x)])
\* posterior_t(j) * likelihood: forward x backward inside the segment, times the other segments
ThroughAlg(mm, s, b, t, j) ==
  s.F[t][j] * b.B[t][j] *
  ProdF(LAMBDA x : IF x \in Starts(mm) /\ x # SegStart(mm, t) THEN SegLik(mm, s, x) ELSE 1, mm.len)

\* ---------------------------------------------------------------- design model
Rows == {r \in [1..N -> 0..DP] : SumV(r) = DP}
SortedSeq(S) == LET f[k \in 0..MaxLen] ==
                      IF k = 0 THEN <<>> ELSE IF k \in S THEN Append(f[k - 1], k) ELSE f[k - 1]
                IN f[MaxLen]

Init ==
  \E L \in 1..MaxLen :
  \E p \in [1..N -> Rows], pi \in Rows, e \in [1..L -> [1..N -> EVals]],
     S \in SUBSET (1..(L - 1)), c \in 1..(L + 1) :
     LET mm == [n |-> N, len |-> L, P |-> p, dP |-> DP, Pi |-> pi, dPi |-> DP,
                E |-> e, dE |-> 1, bps |-> SortedSeq(S), chunk |-> c,
                \* a fixed, non-trivial pattern of emission derivatives (not enumerated: state count)
                ex   |-> [t \in 1..L |-> IF t % 2 = 1 THEN 0 ELSE 70 * t],
                dEm  |-> [t \in 1..L |-> [j \in 1..N |-> (e[t][j] + j) % 2]],
                d2Em |-> [t \in 1..L |-> [j \in 1..N |-> (t + j) % 2]]]
     IN /\ Stationary(mm)
        /\ m = mm /\ pc = "fwd" /\ st = FwdInit(mm) /\ bt = BwdInit(mm)

FwdStep == pc = "fwd" /\ st.i < m.len /\ st' = FwdNext(m, st) /\ UNCHANGED <<m, pc, bt>>
FwdEnd  == pc = "fwd" /\ st.i >= m.len /\ pc' = "bwd" /\ UNCHANGED <<m, st, bt>>
BwdStep == pc = "bwd" /\ bt.i >= 1 /\ bt' = BwdNext(m, bt) /\ UNCHANGED <<m, pc, st>>
BwdEnd  == pc = "bwd" /\ bt.i < 1 /\ pc' = "done" /\ UNCHANGED <<m, st, bt>>

Next == FwdStep \/ FwdEnd \/ BwdStep \/ BwdEnd
Spec == Init /\ [][Next]_vars

\* ---------------------------------------------------------------- properties
ModelOk == BpsOk(m) /\ RowStochastic(m) /\ Distribution(m) /\ Stationary(m)

InRange == ~st.oob                                              \* the chunk buffer is never overrun

ForwardIsDefinition == pc \in {"bwd", "done"} => LikAlg(m, st) = LikDef(m)

DerivativesAreDefinition ==
  pc \in {"bwd", "done"} => D1LikAlg(m, st) = D1LikDef(m) /\ D2LikAlg(m, st) = D2LikDef(m)

\* uninformative data (every emission numerator = dE, i.e. probability 1): the probability of the data is 1
\* whatever the transition matrix, i.e. the path sum is the scale itself, dPi^segments * dP^(len-segments) * dE^len
UninformativeIsOne ==
  (\A t \in Sites(m), j \in States(m) : m.E[t][j] = m.dE) =>
     LikDef(m) = ProdF(LAMBDA t : (IF IsStart(m, t) THEN m.dPi ELSE m.dP) * m.dE, m.len)

ExponentFactorsOut == PathExps(m, 1, 0) = {LikExp(m)}

ChunksCoverSites    == pc \in {"bwd", "done"} => EachSiteOnce(m, st)

PosteriorIsDefinition ==
  pc = "done" => \A t \in Sites(m), j \in States(m) : ThroughAlg(m, st, bt, t, j) = ThroughDef(m, t, j)

\* facts of the definition itself: posteriors are non-negative and sum to one at every site
PosteriorsSumToOne ==
  pc = "done" => \A t \in Sites(m) : /\ SumF(LAMBDA j : ThroughDef(m, t, j), m.n) = LikDef(m)
                                     /\ \A j \in States(m) : ThroughDef(m, t, j) >= 0
=============================================================================
