---------------------------- MODULE HmmExactTrace ----------------------------
\* Trace validation of the exact part of C13 (harness/drv_hmm.cpp --mode exact).
\*   Reset    k, tm, n, len, chunk; c0/ca/cb = emission numerator tables over 8
\*            (emission of site t, state s is c0 + a*ca + b*cb); tables = the
\*            matrices of the harness table transition model (numerators over 8)
\*   XUpdate  a parameter update went through (r = "ok")
\*   Exact    everything read back from the likelihood object after the calls:
\*            par (parameter values), P/Pm/Pi/E (the model its components
\*            expose, numerators over dP/dPi/dE; near = all were on the grid),
\*            L = round(exp(logL) * scale), T[t][s] = round(posterior_t(s) * L),
\*            SL[t] = round(siteLik_t * L * dE)  (*near = within 1e-6 relative)
\*            k = sum of the per-site binary exponents x of the Reset record (emissions are
\*            (numerator/8) * 2^-x[t]; E, L, SL are mantissas), fin = logL finite, agree = the other two
\*            algorithms (fresh objects) return the same log-likelihood to 1e-9 relative
\*            D.a / D.b = first and second derivative w.r.t. a / b (see DerivOk)
\* Each Exact event is one complete run of the design model on the event's
\* model: the transcription runs to completion, the design invariants
\* (algorithm = definition, chunks cover every site once, no overrun) are
\* evaluated on that state, and the observed integers must equal the
\* definition's (path enumeration) values.
EXTENDS HmmExact, TraceLib

VARIABLE cfg         \* the scenario's Reset record

Zeros == [t \in 1..cfg.len |-> [j \in 1..cfg.n |-> 0]]
\* the emissions are c0 + a*ca + b*cb: derivative tables w.r.t. a are ca, w.r.t. b are cb, second derivatives vanish
ModelOf(ev) == [n |-> cfg.n, len |-> cfg.len, P |-> ev.P, dP |-> ev.dP, Pi |-> ev.Pi, dPi |-> ev.dPi,
                E |-> ev.E, dE |-> ev.dE, bps |-> ev.bps,
                chunk |-> IF ev.chunk = 0 THEN cfg.len + 1 ELSE ev.chunk,
                dEm |-> cfg.ca, d2Em |-> Zeros, ex |-> cfg.x]
WrtB(mm) == [mm EXCEPT !.dEm = cfg.cb]

\* derivatives of -log L as the classes return them: d1 = -L'/L, d2 = -(L''/L - (L'/L)^2); the driver logs
\* q1 = round(-d1 * L) and q2 = round((d1*d1 - d2) * L), which must be the path sums L' and L''
DerivOk(d, mm) ==
  /\ d.r = "ok" /\ d.n1 /\ d.n2
  /\ d.q1 = D1LikDef(mm)
  /\ d.q2 = D2LikDef(mm)

\* the model is the one the current parameter values define
FromParameters(ev, mm) ==
  /\ ev.parNear /\ ev.near
  /\ ev.Pm = ev.P                                                     \* getPij() = Pij(i,j)
  /\ \A t \in Sites(mm), s \in States(mm) :
        ev.E[t][s] = cfg.c0[t][s] + ev.par.a * cfg.ca[t][s] + ev.par.b * cfg.cb[t][s]
  /\ cfg.tm = "auto" =>
        \A i \in States(mm), j \in States(mm) :
           IF mm.n = 1 THEN ev.P[i][j] = ev.dP
           ELSE IF i = j THEN ev.P[i][j] * 8 = ev.par.lam[i] * ev.dP
                ELSE ev.P[i][j] * 8 * (mm.n - 1) = (8 - ev.par.lam[i]) * ev.dP
  /\ cfg.tm = "table" => ev.P = cfg.tables[ev.par.t + 1] /\ ev.dP = 8

Observed(ev, mm, s, b) ==
  LET TD == [t \in Sites(mm) |-> [j \in States(mm) |-> ThroughDef(mm, t, j)]] IN
  /\ ev.mem /\ ev.valueAgrees
  \* log-likelihood = log(L / scale) - k log 2: finite, mantissa = path sum, exponent = sum of the site exponents
  /\ ev.Lr = "ok" /\ ev.fin /\ ev.Lnear /\ ev.L = LikDef(mm) /\ ev.k = LikExp(mm)
  /\ ev.agree                                                          \* the three algorithms agree to 1e-9
  /\ ev.cls \in {"rescaled", "logsum"} => ev.Pr = "ok"
  /\ ev.cls \in {"rescaled", "logsum"} => DerivOk(ev.D.a, mm) /\ DerivOk(ev.D.b, WrtB(mm))
  /\ \A t \in Sites(mm), j \in States(mm) : ThroughAlg(mm, s, b, t, j) = TD[t][j]   \* PosteriorIsDefinition
  /\ ev.Pr = "ok" =>
       /\ ev.Tnear /\ ev.SLnear /\ ev.rowsEq
       /\ \A t \in Sites(mm) :
            /\ \A j \in States(mm) : ev.T[t][j] = TD[t][j] /\ ev.T[t][j] >= 0
            /\ SumV(ev.T[t]) = ev.L                                    \* posteriors sum to one
            /\ ev.SL[t] = SumF(LAMBDA j : TD[t][j] * mm.E[t][j], mm.n)

TReset == /\ IsEvent("Reset")
          /\ cfg' = Ev
          /\ UNCHANGED vars

TXUpdate == IsEvent("XUpdate") /\ Ev.r = "ok" /\ UNCHANGED <<vars, cfg>>

TExact == /\ IsEvent("Exact")
          /\ LET mm == ModelOf(Ev) IN
               /\ BpsOk(mm) /\ RowStochastic(mm) /\ Distribution(mm) /\ Stationary(mm)
               /\ FromParameters(Ev, mm)
               /\ m' = mm /\ pc' = "done"
               /\ st' = RunFwd(mm, FwdInit(mm))
               /\ bt' = RunBwd(mm, BwdInit(mm))
               /\ Observed(Ev, mm, st', bt')
          /\ UNCHANGED cfg

\* Nearly reducible full transition matrices, uninformative data (every emission 1), fixed point (E4):
\* pi6 = round(pi * 1e6), pi4 / P4 = round(. * 1e4), L6 = round(likelihood * 1e6).  Whatever the matrix, a
\* stationary start vector is a distribution with pi P = pi (tolerances = worst-case rounding of the fixed-point
\* encoding, (n+2) * 1e4 on products of 1e8), and the probability of uninformative data is 1 (design invariant
\* UninformativeIsOne); L6 within 1e-5.
Abs(x) == IF x < 0 THEN -x ELSE x
NearOk(ev) ==
  LET n == ev.n  S == 1..ev.n IN
  /\ ev.mem /\ ev.Lr = "ok" /\ ev.fin
  /\ \A i \in S : ev.pi6[i] >= 0
  /\ Abs(SumV(ev.pi6) - 1000000) <= n + 1                                     \* sums to one
  /\ \A i \in S : (\A j \in S : ev.P4[i][j] >= 0) /\ Abs(SumV(ev.P4[i]) - 10000) <= n + 1   \* row-stochastic
  /\ \A j \in S : Abs(SumF(LAMBDA k : ev.pi4[k] * ev.P4[k][j], n) - ev.pi4[j] * 10000) <= (n + 2) * 10000
  /\ Abs(ev.L6 - 1000000) <= 10

TNear == IsEvent("Near") /\ NearOk(Ev) /\ UNCHANGED <<vars, cfg>>

Trivial == [n |-> 1, len |-> 1, P |-> << <<1>> >>, dP |-> 1, Pi |-> <<1>>, dPi |-> 1,
            E |-> << <<1>> >>, dE |-> 1, bps |-> <<>>, chunk |-> 1, dEm |-> << <<0>> >>, d2Em |-> << <<0>> >>,
            ex |-> <<0>>]

TraceInit == /\ m = Trivial /\ pc = "done"
             /\ st = RunFwd(Trivial, FwdInit(Trivial)) /\ bt = RunBwd(Trivial, BwdInit(Trivial))
             /\ cfg = [n |-> 1] /\ l = 1
TraceNext == TReset \/ TXUpdate \/ TExact \/ TNear
TraceSpec == TraceInit /\ [][TraceNext]_<<vars, cfg, l>>
=============================================================================
