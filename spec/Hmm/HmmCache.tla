------------------------------ MODULE HmmCache ------------------------------
\* History part of C13: "answers depend only on the current parameter values,
\* never on the order of earlier queries or updates".
\*
\* Objects are instances of an HMM likelihood class (RescaledHmmLikelihood,
\* LogsumHmmLikelihood, LowMemoryRescaledHmmLikelihood) or of a built-in
\* transition model (FullHmmTransitionMatrix, AutoCorrelationTransitionMatrix).
\* obj[o] is a record with everything the object memoises, as version stamps:
\*
\*   ver    number of configuration changes in the object's history (parameter
\*          update or new break points; a copy inherits the history of its
\*          source) = the version every answer must come from
\*   fwd    version of the forward arrays / log-likelihood (recomputed eagerly)
\*   back   backward arrays: [ok |-> flag "up to date", st |-> version computed at]
\*   d1     first-derivative cache: None or [var |-> name, st |-> stamp]
\*          (dVariable_, dLogLik_, dLikelihood_ arrays, dScales_)
\*   d2     second-derivative cache, same shape (d2Variable_, d2LogLik_)
\*   em1/em2  derivative tables kept by the emission object (variable, stamp)
\*   flag, pij, eq   lazy matrix / stationary vector of a transition model
\*   tm     identity of the transition-model component the object computes with
\*   foreign  that component currently holds the parameter values of ANOTHER object
\*   ans    what the last query on this object answered from
\*
\* A stamp is the version the cell was computed at, or Garbage when it was
\* computed from ingredients that do not belong together (other variable,
\* other version, other object, never computed).  Every query stores in `ans`
\* the stamp of what it answered from; Fresh says that stamp is the object's
\* current version.  Copy (copy constructor / clone() / operator=) duplicates
\* the record - caches included - and must give the copy components of its own:
\* from then on the two histories are independent (CopyIndependent is Fresh on
\* both objects under every interleaving of calls on either).
\*
\* Variant = "ok" is the design (what the classes must do); the other values
\* re-introduce one defect each - TLC must reject every one of them
\* (checks/c13.py runs them as negative controls).
EXTENDS Naturals, FiniteSets, TLC

CONSTANTS Vars,      \* derivative variables (parameters of the emissions)
          BadVars,   \* names that are no parameter: the emission object raises
          MaxVer,    \* bound on the number of configuration changes explored
          Kinds,     \* instance kinds explored by the design model
          Objs,      \* object identifiers of the design model
          Variant    \* "ok" | "KeepD1" | "KeepD2" | "KeepBack" | "BpsKeepD" | "D2NoD1" | "RaiseKeepsName"
                     \*      | "SharedFlag" | "ShareTm"

VARIABLE obj
vars == <<obj>>

Live == DOMAIN obj

None    == [none |-> TRUE]
Garbage == 1000000                \* never a version
LikKinds == {"rescaled", "logsum", "lowmem"}
TmKinds  == {"full", "auto"}

\* what a result computed now by r from ingredients with stamps S is worth
Combine(S, v) == IF S = {v} THEN v ELSE Garbage
Now(r, S) == IF r.foreign THEN Garbage ELSE Combine(S, r.ver)

InitRec(k, id) ==
  [kind |-> k, ver |-> 0, fwd |-> 0,
   back |-> [ok |-> FALSE, st |-> Garbage],
   d1 |-> None, d2 |-> None, em1 |-> None, em2 |-> None,
   flag |-> FALSE, pij |-> Garbage, eq |-> Garbage,
   tm |-> id, foreign |-> FALSE, ans |-> None]

Init == \E k \in Kinds : obj = [o \in {1} |-> InitRec(k, 1)]

Put(f, o, v) == [x \in DOMAIN f \cup {o} |-> IF x = o THEN v ELSE f[x]]
Ans(q, v, out, st) == [q |-> q, var |-> v, r |-> out, st |-> st]

\* ---------------------------------------------------------------- configuration changes
\* setParametersValues & co. -> fireParameterChanged: the components take the object's
\* parameter values, the forward pass is redone at once, everything derived from it is void.
UpdateR(r) ==
  LET r0 == [r EXCEPT !.ver = r.ver + 1, !.foreign = FALSE, !.ans = None] IN
  IF r.kind \in LikKinds
  THEN [r0 EXCEPT !.fwd = r.ver + 1,
                  !.back = IF Variant = "KeepBack" THEN r.back ELSE [r.back EXCEPT !.ok = FALSE],
                  !.d1 = IF Variant = "KeepD1" THEN r.d1 ELSE None,
                  !.d2 = IF Variant = "KeepD2" THEN r.d2 ELSE None]
  ELSE [r0 EXCEPT !.flag = FALSE]

\* setBreakPoints: a configuration change as well; the forward pass reads the transition component
SetBpsR(r) ==
  [r EXCEPT !.ver = r.ver + 1, !.ans = None,
            !.fwd = IF r.foreign THEN Garbage ELSE r.ver + 1,
            !.back = [r.back EXCEPT !.ok = FALSE],
            !.d1 = IF Variant = "BpsKeepD" THEN r.d1 ELSE None,
            !.d2 = IF Variant = "BpsKeepD" THEN r.d2 ELSE None]

\* an update of o writes o's values into o's transition component - whoever else computes
\* with that very component now computes with foreign values
Update(o) ==
  /\ o \in Live /\ obj[o].ver < MaxVer
  /\ obj' = [p \in Live |-> IF p = o THEN UpdateR(obj[o])
                           ELSE IF obj[p].tm = obj[o].tm THEN [obj[p] EXCEPT !.foreign = TRUE]
                           ELSE obj[p]]

SetBps(o) ==
  /\ o \in Live /\ obj[o].kind \in LikKinds /\ obj[o].ver < MaxVer
  /\ obj' = [obj EXCEPT ![o] = SetBpsR(obj[o])]

\* ---------------------------------------------------------------- copies
\* copy construction / clone() (o2 fresh) or assignment (o2 live, same kind): caches are copied
\* as they are, the components are cloned
Copy(o, o2) ==
  /\ o \in Live /\ o2 # o
  /\ o2 \in Live => obj[o2].kind = obj[o].kind
  /\ obj' = Put(obj, o2, [obj[o] EXCEPT !.ans = None,
                                        !.tm = IF Variant = "ShareTm" /\ obj[o].kind \in LikKinds THEN obj[o].tm ELSE o2])

Drop(o) == /\ o \in Live /\ Cardinality(Live) > 1
           /\ obj' = [p \in Live \ {o} |-> obj[p]]

\* ---------------------------------------------------------------- queries on a likelihood object
Supports(r, q) == r.kind # "lowmem" \/ q = "LogLik"      \* the low-memory class keeps no arrays

RaiseR(r, q, v) == [r EXCEPT !.ans = Ans(q, v, "raise", r.ver)]     \* a refusal carries no stale data

QLogLikR(r) == [r EXCEPT !.ans = Ans("LogLik", "", "ok", r.fwd)]

\* posterior = forward x backward (and, for the per-site likelihood, the current emissions)
QPosteriorR(r, q) ==
  IF ~Supports(r, q) THEN RaiseR(r, q, "")
  ELSE LET nb == IF r.back.ok THEN r.back ELSE [ok |-> TRUE, st |-> Now(r, {r.fwd})] IN
       [r EXCEPT !.back = nb, !.ans = Ans(q, "", "ok", Combine({r.fwd, nb.st}, r.ver))]

\* the first-derivative recursion for variable v: emission derivatives are recomputed
\* for v, then the arrays are filled from the forward arrays and the transition matrix
D1Compute(r, v) == [e |-> [var |-> v, st |-> r.ver],
                    d |-> [var |-> v, st |-> Now(r, {r.fwd})]]

D1Cached(r, v) == r.d1 # None /\ r.d1.var = v

QD1R(r, v) ==
  IF D1Cached(r, v) THEN [r EXCEPT !.ans = Ans("D1", v, "ok", r.d1.st)]
  ELSE IF ~Supports(r, "D1") \/ v \in BadVars
       THEN \* the computation raises: nothing may be left behind under the name v
            [RaiseR(r, "D1", v) EXCEPT !.d1 = IF Variant = "RaiseKeepsName" THEN [var |-> v, st |-> Garbage] ELSE None,
                                       !.em1 = IF v \in Vars THEN D1Compute(r, v).e ELSE r.em1]
       ELSE [r EXCEPT !.d1 = D1Compute(r, v).d, !.em1 = D1Compute(r, v).e,
                      !.ans = Ans("D1", v, "ok", D1Compute(r, v).d.st)]

D2Cached(r, v) == r.d2 # None /\ r.d2.var = v

\* the second-derivative recursion reads the first-derivative arrays and the
\* emission object's first and second derivative tables: all must be those of v, now
QD2R(r, v) ==
  IF D2Cached(r, v) THEN [r EXCEPT !.ans = Ans("D2", v, "ok", r.d2.st)]
  ELSE IF ~Supports(r, "D2") \/ v \in BadVars
       THEN [RaiseR(r, "D2", v) EXCEPT !.d2 = IF Variant = "RaiseKeepsName" THEN [var |-> v, st |-> Garbage] ELSE None]
       ELSE LET need == ~D1Cached(r, v) /\ Variant # "D2NoD1"
                nd1  == IF need THEN D1Compute(r, v).d ELSE r.d1
                ne1  == IF need THEN D1Compute(r, v).e ELSE r.em1
                ing  == {r.fwd, r.ver,
                         IF nd1 # None /\ nd1.var = v THEN nd1.st ELSE Garbage,
                         IF ne1 # None /\ ne1.var = v THEN ne1.st ELSE Garbage}
                nd2  == [var |-> v, st |-> Now(r, ing)]
            IN [r EXCEPT !.d1 = nd1, !.em1 = ne1, !.em2 = [var |-> v, st |-> r.ver], !.d2 = nd2,
                         !.ans = Ans("D2", v, "ok", nd2.st)]

\* ---------------------------------------------------------------- queries on a transition model
\* Pij(i,j) is computed from the parameters directly
TQPijR(r) == [r EXCEPT !.ans = Ans("TPij", "", "ok", r.ver)]

\* getPij() / getEquilibriumFrequencies(): lazily refreshed; one "up to date" flag
\* guards both, so both must be refreshed together
RefreshR(r, which) ==
  IF r.flag THEN r
  ELSE [r EXCEPT !.flag = TRUE,
                 !.pij = IF Variant = "SharedFlag" /\ which = "eq" THEN r.pij ELSE r.ver,
                 !.eq  = IF Variant = "SharedFlag" /\ which = "pij" THEN r.eq ELSE r.ver]

TQMatR(r) == LET n == RefreshR(r, "pij") IN [n EXCEPT !.ans = Ans("TMat", "", "ok", n.pij)]
TQEqR(r)  == LET n == RefreshR(r, "eq")  IN [n EXCEPT !.ans = Ans("TEq", "", "ok", n.eq)]

\* ---------------------------------------------------------------- actions
OnLik(o, new) == o \in Live /\ obj[o].kind \in LikKinds /\ obj' = [obj EXCEPT ![o] = new]
OnTm(o, new)  == o \in Live /\ obj[o].kind \in TmKinds /\ obj' = [obj EXCEPT ![o] = new]

QLogLik(o)       == o \in Live /\ OnLik(o, QLogLikR(obj[o]))
QPosterior(o, q) == o \in Live /\ OnLik(o, QPosteriorR(obj[o], q))
QD1(o, v)        == o \in Live /\ OnLik(o, QD1R(obj[o], v))
QD2(o, v)        == o \in Live /\ OnLik(o, QD2R(obj[o], v))
TQPij(o)         == o \in Live /\ OnTm(o, TQPijR(obj[o]))
TQMat(o)         == o \in Live /\ OnTm(o, TQMatR(obj[o]))
TQEq(o)          == o \in Live /\ OnTm(o, TQEqR(obj[o]))

Next == \E o \in Objs :
           \/ Update(o) \/ SetBps(o) \/ QLogLik(o) \/ Drop(o)
           \/ QPosterior(o, "Post") \/ QPosterior(o, "Site")
           \/ \E v \in Vars \cup BadVars : QD1(o, v) \/ QD2(o, v)
           \/ TQPij(o) \/ TQMat(o) \/ TQEq(o)
           \/ \E o2 \in Objs : Copy(o, o2)

Spec == Init /\ [][Next]_vars

\* ---------------------------------------------------------------- the property
Stamp == 0..MaxVer \cup {Garbage}
Cell  == {None} \cup [var : Vars \cup BadVars, st : Stamp]

TypeOK == \A o \in Live :
            LET r == obj[o] IN
            /\ r.kind \in LikKinds \cup TmKinds
            /\ r.ver \in 0..MaxVer /\ r.fwd \in Stamp
            /\ r.back \in [ok : BOOLEAN, st : Stamp]
            /\ r.d1 \in Cell /\ r.d2 \in Cell /\ r.em1 \in Cell /\ r.em2 \in Cell
            /\ r.flag \in BOOLEAN /\ r.pij \in Stamp /\ r.eq \in Stamp /\ r.foreign \in BOOLEAN

\* every answer was computed from the object's current version (a refusal is an answer too) -
\* whatever was done to any other object in between
Fresh == \A o \in Live : obj[o].ans # None => obj[o].ans.st = obj[o].ver

\* the reason why: whatever is marked valid is current, and nobody computes with foreign components
CachesCurrent ==
  \A o \in Live :
    LET r == obj[o] IN
    /\ ~r.foreign
    /\ r.kind \in LikKinds => r.fwd = r.ver
    /\ r.back.ok => r.back.st = r.ver
    /\ r.d1 # None => r.d1.st = r.ver /\ r.d1.var \in Vars /\ r.em1 = r.d1
    /\ r.d2 # None => r.d2.st = r.ver /\ r.d2.var \in Vars
    /\ r.flag => r.pij = r.ver /\ r.eq = r.ver

CopyIndependent == \A o, p \in Live : o # p => obj[o].tm # obj[p].tm
=============================================================================
