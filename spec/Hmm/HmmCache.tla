------------------------------ MODULE HmmCache ------------------------------
\* History part of C13: "answers depend only on the current parameter values,
\* never on the order of earlier queries or updates".
\*
\* One instance of an HMM likelihood class (RescaledHmmLikelihood,
\* LogsumHmmLikelihood, LowMemoryRescaledHmmLikelihood) or of a built-in
\* transition model (FullHmmTransitionMatrix, AutoCorrelationTransitionMatrix)
\* together with everything the class memoises, as version tags:
\*
\*   ver    number of configuration changes so far (parameter update or new
\*          break points) = the version every answer must come from
\*   fwd    version of the forward arrays / log-likelihood (recomputed eagerly)
\*   back   backward arrays: [ok |-> flag "up to date", st |-> version computed at]
\*   d1     first-derivative cache: None or [var |-> name, st |-> stamp]
\*          (dVariable_, dLogLik_, dLikelihood_ arrays, dScales_)
\*   d2     second-derivative cache, same shape (d2Variable_, d2LogLik_)
\*   em1/em2  derivative tables kept by the emission object (variable, stamp)
\*   flag, pij, eq   lazy matrix / stationary vector of a transition model
\*
\* A stamp is the version the cell was computed at, or Garbage when it was
\* computed from ingredients that do not belong together (other variable,
\* other version, never computed).  Every query returns in `ans` the stamp of
\* what it answered from; Fresh says that stamp is the current version.
\*
\* Variant = "ok" is the design (what the classes must do); the other values
\* re-introduce one memoisation defect each - TLC must reject every one of
\* them (checks/c13.py runs them as negative controls).
EXTENDS Naturals, FiniteSets, TLC

CONSTANTS Vars,      \* derivative variables (parameters of the emissions)
          BadVars,   \* names that are no parameter: the emission object raises
          MaxVer,    \* bound on the number of configuration changes explored
          Kinds,     \* instance kinds explored by the design model
          Variant    \* "ok" | "KeepD1" | "KeepD2" | "KeepBack" | "BpsKeepD" | "D2NoD1" | "RaiseKeepsName" | "SharedFlag"

VARIABLES kind, ver, fwd, back, d1, d2, em1, em2, flag, pij, eq, ans

vars == <<kind, ver, fwd, back, d1, d2, em1, em2, flag, pij, eq, ans>>

None    == [none |-> TRUE]
Garbage == 1000000                \* never a version
LikKinds == {"rescaled", "logsum", "lowmem"}
TmKinds  == {"full", "auto"}

\* what a result computed from ingredients with stamps S (and at version v) is worth
Combine(S, v) == IF S = {v} THEN v ELSE Garbage

InitFor(k) ==
  /\ kind = k /\ ver = 0 /\ fwd = 0
  /\ back = [ok |-> FALSE, st |-> Garbage]
  /\ d1 = None /\ d2 = None /\ em1 = None /\ em2 = None
  /\ flag = FALSE /\ pij = Garbage /\ eq = Garbage
  /\ ans = None

Init == \E k \in Kinds : InitFor(k)

Answer(q, v, r, st) == ans' = [q |-> q, var |-> v, r |-> r, st |-> st]

\* ---------------------------------------------------------------- configuration changes
\* setParametersValues & co. -> fireParameterChanged: the forward pass is redone
\* at once, everything derived from it is void.
Update ==
  /\ ver < MaxVer
  /\ ver' = ver + 1
  /\ IF kind \in LikKinds
     THEN /\ fwd' = ver + 1
          /\ back' = IF Variant = "KeepBack" THEN back ELSE [back EXCEPT !.ok = FALSE]
          /\ d1' = IF Variant = "KeepD1" THEN d1 ELSE None
          /\ d2' = IF Variant = "KeepD2" THEN d2 ELSE None
          /\ UNCHANGED <<flag, pij, eq>>
     ELSE /\ flag' = FALSE
          /\ UNCHANGED <<fwd, back, d1, d2, pij, eq>>
  /\ ans' = None
  /\ UNCHANGED <<kind, em1, em2>>

\* setBreakPoints: a configuration change as well
SetBps ==
  /\ kind \in LikKinds
  /\ ver < MaxVer
  /\ ver' = ver + 1 /\ fwd' = ver + 1
  /\ back' = [back EXCEPT !.ok = FALSE]
  /\ d1' = IF Variant = "BpsKeepD" THEN d1 ELSE None
  /\ d2' = IF Variant = "BpsKeepD" THEN d2 ELSE None
  /\ ans' = None
  /\ UNCHANGED <<kind, em1, em2, flag, pij, eq>>

\* ---------------------------------------------------------------- queries on a likelihood object
Supports(q) == kind # "lowmem" \/ q = "LogLik"      \* the low-memory class keeps no arrays

Raise(q, v) == Answer(q, v, "raise", ver)            \* a refusal carries no stale data

QLogLik ==
  /\ kind \in LikKinds
  /\ Answer("LogLik", "", "ok", fwd)
  /\ UNCHANGED <<kind, ver, fwd, back, d1, d2, em1, em2, flag, pij, eq>>

\* posterior = forward x backward (and, for the per-site likelihood, the current emissions)
QPosterior(q) ==
  /\ kind \in LikKinds
  /\ IF ~Supports(q)
     THEN Raise(q, "") /\ UNCHANGED back
     ELSE /\ back' = IF back.ok THEN back ELSE [ok |-> TRUE, st |-> Combine({fwd}, ver)]
          /\ Answer(q, "", "ok", Combine({fwd, back'.st}, ver))
  /\ UNCHANGED <<kind, ver, fwd, d1, d2, em1, em2, flag, pij, eq>>

\* the first-derivative recursion for variable v: emission derivatives are recomputed
\* for v, then the arrays are filled from the forward arrays
D1Compute(v) == [e |-> [var |-> v, st |-> ver],
                 d |-> [var |-> v, st |-> Combine({fwd}, ver)]]

D1Cached(v) == d1 # None /\ d1.var = v

QD1(v) ==
  /\ kind \in LikKinds
  /\ IF D1Cached(v)
     THEN Answer("D1", v, "ok", d1.st) /\ UNCHANGED <<d1, em1>>
     ELSE IF ~Supports("D1") \/ v \in BadVars
          THEN \* the computation raises: nothing may be left behind under the name v
               /\ Raise("D1", v)
               /\ d1' = IF Variant = "RaiseKeepsName" THEN [var |-> v, st |-> Garbage] ELSE None
               /\ em1' = IF v \in Vars THEN D1Compute(v).e ELSE em1
          ELSE /\ d1' = D1Compute(v).d /\ em1' = D1Compute(v).e
               /\ Answer("D1", v, "ok", d1'.st)
  /\ UNCHANGED <<kind, ver, fwd, back, d2, em2, flag, pij, eq>>

D2Cached(v) == d2 # None /\ d2.var = v

\* the second-derivative recursion reads the first-derivative arrays and the
\* emission object's first and second derivative tables: all must be those of v, now
QD2(v) ==
  /\ kind \in LikKinds
  /\ IF D2Cached(v)
     THEN Answer("D2", v, "ok", d2.st) /\ UNCHANGED <<d1, d2, em1, em2>>
     ELSE IF ~Supports("D2") \/ v \in BadVars
          THEN /\ Raise("D2", v)
               /\ d2' = IF Variant = "RaiseKeepsName" THEN [var |-> v, st |-> Garbage] ELSE None
               /\ UNCHANGED <<d1, em1, em2>>
          ELSE LET need == ~D1Cached(v) /\ Variant # "D2NoD1"
                   nd1  == IF need THEN D1Compute(v).d ELSE d1
                   ne1  == IF need THEN D1Compute(v).e ELSE em1
                   ing  == {fwd, ver,
                            IF nd1 # None /\ nd1.var = v THEN nd1.st ELSE Garbage,
                            IF ne1 # None /\ ne1.var = v THEN ne1.st ELSE Garbage}
               IN /\ d1' = nd1 /\ em1' = ne1
                  /\ em2' = [var |-> v, st |-> ver]
                  /\ d2' = [var |-> v, st |-> Combine(ing, ver)]
                  /\ Answer("D2", v, "ok", d2'.st)
  /\ UNCHANGED <<kind, ver, fwd, back, flag, pij, eq>>

\* ---------------------------------------------------------------- queries on a transition model
\* Pij(i,j) is computed from the parameters directly
TQPij ==
  /\ kind \in TmKinds
  /\ Answer("TPij", "", "ok", ver)
  /\ UNCHANGED <<kind, ver, fwd, back, d1, d2, em1, em2, flag, pij, eq>>

\* getPij() / getEquilibriumFrequencies(): lazily refreshed; one "up to date" flag
\* guards both, so both must be refreshed together
Refresh(which) ==
  IF flag THEN UNCHANGED <<flag, pij, eq>>
  ELSE /\ flag' = TRUE
       /\ pij' = IF Variant = "SharedFlag" /\ which = "eq" THEN pij ELSE ver
       /\ eq'  = IF Variant = "SharedFlag" /\ which = "pij" THEN eq ELSE ver

TQMat ==
  /\ kind \in TmKinds
  /\ Refresh("pij")
  /\ Answer("TMat", "", "ok", pij')
  /\ UNCHANGED <<kind, ver, fwd, back, d1, d2, em1, em2>>

TQEq ==
  /\ kind \in TmKinds
  /\ Refresh("eq")
  /\ Answer("TEq", "", "ok", eq')
  /\ UNCHANGED <<kind, ver, fwd, back, d1, d2, em1, em2>>

Next == \/ Update \/ SetBps \/ QLogLik
        \/ QPosterior("Post") \/ QPosterior("Site")
        \/ \E v \in Vars \cup BadVars : QD1(v) \/ QD2(v)
        \/ TQPij \/ TQMat \/ TQEq

Spec == Init /\ [][Next]_vars

\* ---------------------------------------------------------------- the property
Stamp == 0..MaxVer \cup {Garbage}
Cell  == {None} \cup [var : Vars \cup BadVars, st : Stamp]

TypeOK == /\ kind \in LikKinds \cup TmKinds
          /\ ver \in 0..MaxVer /\ fwd \in Stamp
          /\ back \in [ok : BOOLEAN, st : Stamp]
          /\ d1 \in Cell /\ d2 \in Cell /\ em1 \in Cell /\ em2 \in Cell
          /\ flag \in BOOLEAN /\ pij \in Stamp /\ eq \in Stamp

\* every answer was computed from the current version (a refusal is an answer too)
Fresh == ans # None => ans.st = ver

\* the reason why: whatever is marked valid is current
CachesCurrent ==
  /\ kind \in LikKinds => fwd = ver
  /\ back.ok => back.st = ver
  /\ d1 # None => d1.st = ver /\ d1.var \in Vars /\ em1 = d1
  /\ d2 # None => d2.st = ver /\ d2.var \in Vars
  /\ flag => pij = ver /\ eq = ver
=============================================================================
