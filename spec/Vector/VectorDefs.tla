------------------------------ MODULE VectorDefs ------------------------------
\* C07 - definitions of the vector operations of bpp-core
\* (src/Bpp/Numeric/VectorTools.h, NumTools.h, Stat/StatTools.cpp) over
\* sequences of integers, and the judge J: "is this observed outcome / result /
\* post-state what the definition (and the documented error protocol) allows?".
\*
\* Encoding E2: elements are exact small integers (T=int and T=double
\* instantiations of the templates give the same integers).  Positions are
\* logged 0-based as the library returns them.  Where the documentation leaves a
\* choice the judge accepts every choice (see notes/C07.md).
EXTENDS Integers, Sequences, FiniteSets, TLC

Idx(v)      == 1..Len(v)
SetOf(v)    == {v[i] : i \in Idx(v)}
Count(v, e) == Cardinality({i \in Idx(v) : v[i] = e})
AbsI(n)     == IF n < 0 THEN -n ELSE n
\* C++ integer division truncates toward zero (b # 0)
TruncDiv(a, b) == LET q == AbsI(a) \div AbsI(b) IN IF (a < 0) = (b < 0) THEN q ELSE -q

Sum(v)     == LET F[i \in 0..Len(v)] == IF i = 0 THEN 0 ELSE F[i-1] + v[i] IN F[Len(v)]
Prod(v)    == LET F[i \in 0..Len(v)] == IF i = 0 THEN 1 ELSE F[i-1] * v[i] IN F[Len(v)]
CumSum(v)  == [i \in Idx(v) |-> Sum(SubSeq(v, 1, i))]
CumProd(v) == [i \in Idx(v) |-> Prod(SubSeq(v, 1, i))]
Dot(v, w)  == Sum([i \in Idx(v) |-> v[i] * w[i]])
Dot3(v, w, u) == Sum([i \in Idx(v) |-> v[i] * w[i] * u[i]])
\* extrema of a non-empty sequence
Mn(v) == CHOOSE m \in SetOf(v) : \A e \in SetOf(v) : m <= e
Mx(v) == CHOOSE m \in SetOf(v) : \A e \in SetOf(v) : m >= e
\* 0-based positions of e in v, ascending
PosOf(v, e) == SelectSeq([i \in Idx(v) |-> i - 1], LAMBDA p : v[p + 1] = e)

Sorted(v)       == SortSeq(v, LAMBDA a, b : a < b)
IsSortedAsc(v)  == \A i \in 1..(Len(v) - 1) : v[i] <= v[i+1]
IsStrictAsc(v)  == \A i \in 1..(Len(v) - 1) : v[i] < v[i+1]
SameMultiset(v, w) == /\ Len(v) = Len(w)
                      /\ \A e \in SetOf(v) \cup SetOf(w) : Count(v, e) = Count(w, e)
NoDup(v)        == Cardinality(SetOf(v)) = Len(v)
\* first occurrences, in order
Dedup(v) == LET F[i \in 0..Len(v)] ==
                  IF i = 0 THEN <<>>
                  ELSE LET p == F[i-1] IN IF v[i] \in SetOf(p) THEN p ELSE Append(p, v[i])
            IN F[Len(v)]
Keep(v, S)   == SelectSeq(v, LAMBDA e : e \in S)
Remove(v, S) == SelectSeq(v, LAMBDA e : e \notin S)
Map1(v, Op(_))        == [i \in Idx(v) |-> Op(v[i])]
Map2(v, w, Op(_, _))  == [i \in Idx(v) |-> Op(v[i], w[i])]
RepDef(v, n) == LET F[i \in 0..n] == IF i = 0 THEN <<>> ELSE F[i-1] \o v IN F[n]
ConcatAll(L) == LET F[i \in 0..Len(L)] == IF i = 0 THEN <<>> ELSE F[i-1] \o L[i] IN F[Len(L)]
UnionAllSets(L) == UNION {SetOf(L[i]) : i \in Idx(L)}
InterAllSets(L) == {e \in SetOf(L[1]) : \A i \in Idx(L) : e \in SetOf(L[i])}       \* L non-empty
Median2(v) == LET s == Sorted(v)  n == Len(v) IN                                   \* twice the median, v non-empty
              IF n % 2 = 1 THEN 2 * s[(n + 1) \div 2] ELSE s[n \div 2] + s[n \div 2 + 1]

\* "from (included) to (included) by step": starts at from, moves towards to by steps of
\* size by >= 1, stops only when the next step would pass to, and has no element beyond to.
\* The real-valued instantiation absorbs rounding of the step with a tolerance of one
\* hundredth of a step (seq(0, 0.3, 0.1) must reach 0.3): there an end point lying at most
\* by/100 beyond to may be included or not; nothing further out, for any step size.
SeqOK(t, r, from, to, by) ==
  LET d == IF from <= to THEN 1 ELSE -1
      gap == d * (to - r[Len(r)]) IN                 \* distance left to `to` (negative: passed it)
  /\ Len(r) >= 1 /\ r[1] = from
  /\ \A i \in 1..(Len(r) - 1) : r[i+1] - r[i] = d * by
  /\ gap <= by - 1
  /\ \/ gap >= 0
     \/ t = "double" /\ Len(r) >= 2 /\ 100 * (-gap) <= by

PowersOfTwo == {1, 2, 4, 8, 16, 32, 64}
FdrUnit == 2520          \* lcm(1..10): p-value k is x[k] * 2520 / 2^22, results are numerators at scale 2^22
\* Benjamini-Hochberg as documented: fdr = p * n / i with i the rank (1-based
\* index in the ascending sorted array); equal p-values share their ranks in any order.
FdrOK(x, r) ==
  LET n == Len(x) IN
  /\ Len(r) = n
  /\ \A k \in Idx(x) :
       LET lo == Cardinality({j \in Idx(x) : x[j] < x[k]}) + 1
           hi == Cardinality({j \in Idx(x) : x[j] <= x[k]}) IN
       \E i \in lo..hi : r[k] * i = FdrUnit * n * x[k]
  /\ \A k, j \in Idx(x) : (k < j /\ x[k] = x[j] /\ x[k] > 0) => r[k] # r[j]

\* Unweighted moments on data offset by a large power of two (E3).  The driver adds c = 2^e
\* (e in 20..40, or c = 0) to every element before the call.  With n a power of two the documented
\* two-pass definition is exact in floating point on such data (the mean c + Sum(x)/n is representable,
\* the deviations are the small dyadics x_i - Sum(x)/n, their products and sums are exact), so the
\* library must return the exact value - which, the moments being shift invariant, is the value on
\* the de-offset integers x, y computed here.  CovB4096 is n^3-scaled covariance brought to scale 2^12.
CovB4096(x, y) == LET n == Len(x) IN
                  (4096 \div (n * n * n)) * Sum([i \in Idx(x) |-> (n * x[i] - Sum(x)) * (n * y[i] - Sum(y))])
\* value at scale 2^12 of the (un)biased covariance when it is on that scale, else -1 ("not decided");
\* unbiased = biased * n / (n - 1)
CovKnown(x, y, unbiased) ==
  LET n == Len(x)  b == CovB4096(x, y) IN
  IF ~unbiased THEN <<TRUE, b>>
  ELSE IF (b * n) % (n - 1) = 0 THEN <<TRUE, (b * n) \div (n - 1)>> ELSE <<FALSE, 0>>
\* integer square root of 0 <= m < 2^30
ISqrt(m) == LET R[j \in 0..15] == IF j = 0 THEN 0
                                  ELSE LET p == R[j-1]  c == p + 2^(15 - j) IN IF c * c <= m THEN c ELSE p
            IN R[15]
ExactN == {1, 2, 4, 8, 16}

\* Weighted moments on the dyadic-exact cases (E3).  The weights are a[i] / W with
\* integers a[i] >= 0 and W = Sum(a) a power of two (passed raw with normalizeWeights, or
\* already divided by W); every intermediate of the documented formulas
\*    m = sum w_i x_i ,  cov = sum w_i (x_i - mx)(y_i - my) ,  unbiased: cov / (1 - sum w_i^2)
\* is then an exactly representable dyadic, so the result is required bit-exactly:
\*    cov = CovNum / W^3   and   unbiased cov = CovNum / (W * WQ)   with the integers below.
CovNum(x, y, a) == LET W == Sum(a) IN
                   Sum([i \in Idx(x) |-> (W * x[i] - Dot(x, a)) * (W * y[i] - Dot(y, a)) * a[i]])
WQ(a) == Sum(a) * Sum(a) - Dot(a, a)
\* num is the returned value at scale 2^12 (or the sentinel when it is not on that scale)
WCovValueOK(x, y, a, unbiased, num) ==
  LET W == Sum(a)  N == CovNum(x, y, a) IN
  IF ~unbiased THEN num = (4096 \div (W * W * W)) * N
  ELSE (4096 * N) % (W * WQ(a)) = 0 => num * (W * WQ(a)) = 4096 * N   \* exact quotient: must be returned exactly

\* ----------------------------------------------------------------- outcomes
\* o \in {"ok", "raise", "fault"}: "raise" = a bpp::Exception subclass of class c
\* (template arguments stripped); "fault" = anything else thrown; a crash / hang
\* is its own event that no action explains.
Raises(o, c, cls) == o = "raise" /\ (cls = "" \/ c = cls)
DIM   == "DimensionException"
EMPTY == "EmptyVectorException"

\* operations that may modify their first / second / third vector argument
MutX == {"AddEqSQ", "SubEqSQ", "MulEqSQ", "DivEqSQ", "Median", "Fill", "AndEq", "AddEqS", "SubEqS", "MulEqS", "DivEqS", "AddEqE", "SubEqE", "MulEqE", "DivEqE", "Same", "ContainsAll",
         "AddEq", "SubEq", "MulEq", "DivEq", "Append", "Prepend", "Extend", "Diff"}
MutY == {"Same", "ContainsAll", "Diff"}
MutZ == {"Diff"}

Frame(op, x, y, z, o, X, Y, Z) ==
  /\ op \notin MutX => X = x
  /\ op \notin MutY => Y = y
  /\ op \notin MutZ => Z = z
  /\ o # "ok" => (X = x /\ Y = y /\ Z = z)        \* a refused call changes nothing

AsIsOrSorted(V, v) == V = v \/ V = Sorted(v)

\* compound assignment x op= y: a shorter y cannot be served without reading out of range
CompoundOK(x, y, o, X, Op(_, _)) ==
  IF Len(x) = Len(y) THEN o = "ok" /\ X = Map2(x, y, Op)
  ELSE \/ o = "raise" /\ X = x
       \/ Len(y) > Len(x) /\ o = "ok" /\ X = [i \in Idx(x) |-> Op(x[i], y[i])]

Plus(a, b)  == a + b
Minus(a, b) == a - b
Times(a, b) == a * b

\* ----------------------------------------------------------------- the judge
\* t: "int" | "double";  x, y, z: argument vectors before the call;  k: scalar
\* arguments;  o, c: outcome and exception class;  r: returned value;  X, Y, Z:
\* the argument vectors after the call.
Value(t, op, x, y, z, k, o, c, r, X, Y, Z) ==
  LET FreeOnEmpty == x = <<>> /\ o = "raise"      \* nothing documented for empty input
      n == Len(x)
      L == SubSeq(<<x, y, z>>, 1, IF k = <<>> THEN 0 ELSE k[1])
  IN
  CASE op = "Sum"     -> FreeOnEmpty \/ (o = "ok" /\ r = Sum(x))
    [] op = "Prod"    -> FreeOnEmpty \/ (o = "ok" /\ r = Prod(x))
    [] op = "CumSum"  -> FreeOnEmpty \/ (o = "ok" /\ r = CumSum(x))
    [] op = "CumProd" -> FreeOnEmpty \/ (o = "ok" /\ r = CumProd(x))
    [] op = "Abs"     -> FreeOnEmpty \/ (o = "ok" /\ r = Map1(x, AbsI))
    [] op = "Sqr"     -> FreeOnEmpty \/ (o = "ok" /\ r = Map1(x, LAMBDA e : e * e))
    [] op = "Min"     -> IF x = <<>> THEN Raises(o, c, EMPTY) ELSE o = "ok" /\ r = Mn(x)
    [] op = "Max"     -> IF x = <<>> THEN Raises(o, c, EMPTY) ELSE o = "ok" /\ r = Mx(x)
    [] op = "WhichMin"    -> IF x = <<>> THEN Raises(o, c, EMPTY) ELSE o = "ok" /\ r = PosOf(x, Mn(x))[1]
    [] op = "WhichMax"    -> IF x = <<>> THEN Raises(o, c, EMPTY) ELSE o = "ok" /\ r = PosOf(x, Mx(x))[1]
    [] op = "WhichMinAll" -> IF x = <<>> THEN Raises(o, c, EMPTY) ELSE o = "ok" /\ r = PosOf(x, Mn(x))
    [] op = "WhichMaxAll" -> IF x = <<>> THEN Raises(o, c, EMPTY) ELSE o = "ok" /\ r = PosOf(x, Mx(x))
    [] op = "Range"   -> IF x = <<>> THEN Raises(o, c, EMPTY) ELSE o = "ok" /\ r = <<Mn(x), Mx(x)>>
    [] op = "Order"   -> IF x = <<>> THEN Raises(o, c, EMPTY)
                         ELSE /\ o = "ok" /\ Len(r) = n /\ SetOf(r) = 0..(n - 1)        \* a permutation ...
                              /\ \A i \in 1..(n - 1) : x[r[i] + 1] <= x[r[i+1] + 1]     \* ... that sorts x
    [] op = "Unique"  -> o = "ok" /\ IsStrictAsc(r) /\ SetOf(r) = SetOf(x)
    [] op = "IsUnique" -> o = "ok" /\ r = NoDup(x)
    [] op = "CountValues" ->
         FreeOnEmpty \/ /\ o = "ok"
                        /\ IsStrictAsc([i \in Idx(r) |-> r[i][1]])
                        /\ {r[i][1] : i \in Idx(r)} = SetOf(x)
                        /\ \A i \in Idx(r) : r[i][2] = Count(x, r[i][1])
    [] op = "Median"  ->
         IF x = <<>> THEN o \in {"ok", "raise"} /\ X = x
         ELSE /\ o = "ok" /\ AsIsOrSorted(X, x)
              /\ IF t = "double" THEN r = Median2(x)               \* logged as 2 * median
                 ELSE r = TruncDiv(Median2(x), 2)                  \* integer return type
    [] op = "Which"    -> IF k[1] \in SetOf(x) THEN o = "ok" /\ r = PosOf(x, k[1])[1] ELSE o = "raise"
    [] op = "WhichAll" -> IF k[1] \in SetOf(x) THEN o = "ok" /\ r = PosOf(x, k[1]) ELSE o = "raise"
    [] op = "Contains" -> o = "ok" /\ r = (k[1] \in SetOf(x))
    [] op = "Rep"      -> o = "ok" /\ r = RepDef(x, k[1])
    [] op = "Seq"      -> o = "ok" /\ SeqOK(t, r, k[1], k[2], k[3])
    [] op \in {"Fill", "AndEq"} -> o = "ok" /\ X = [i \in Idx(x) |-> k[1]]
    [] op \in {"AddS", "SAdd"}  -> o = "ok" /\ r = Map1(x, LAMBDA e : e + k[1])
    [] op = "SubS"     -> o = "ok" /\ r = Map1(x, LAMBDA e : e - k[1])
    [] op = "SSub"     -> o = "ok" /\ r = Map1(x, LAMBDA e : k[1] - e)
    [] op \in {"MulS", "SMul"}  -> o = "ok" /\ r = Map1(x, LAMBDA e : e * k[1])
    [] op = "DivS"     -> o = "ok" /\ r = Map1(x, LAMBDA e : TruncDiv(e, k[1]))
    [] op = "SDiv"     -> o = "ok" /\ r = Map1(x, LAMBDA e : TruncDiv(k[1], e))
    [] op = "AddEqS"   -> o = "ok" /\ X = Map1(x, LAMBDA e : e + k[1])
    [] op = "SubEqS"   -> o = "ok" /\ X = Map1(x, LAMBDA e : e - k[1])
    [] op = "MulEqS"   -> o = "ok" /\ X = Map1(x, LAMBDA e : e * k[1])
    [] op = "DivEqS"   -> o = "ok" /\ X = Map1(x, LAMBDA e : TruncDiv(e, k[1]))
    \* mixed element / scalar types: an int vector with a real scalar c = k[1]/4 (a dyadic fraction), a double vector with an
    \* int scalar (k[1] a multiple of 4).  The result is a std::vector<T>; each element is the value of v[i] op c formed in
    \* the common arithmetic type and converted to T once (conversion to int truncates towards zero).  The additive binary
    \* forms are written v[i] + T(c) in the header: both readings are accepted where they differ (int elements, negative
    \* fractional sums); the compound forms x op= c are C++'s own x = T(x op c).
    [] op \in {"AddSQ", "SAddQ"} -> o = "ok" /\ (r = Map1(x, LAMBDA e : TruncDiv(4 * e + k[1], 4)) \/ r = Map1(x, LAMBDA e : e + TruncDiv(k[1], 4)))
    [] op = "SubSQ"    -> o = "ok" /\ (r = Map1(x, LAMBDA e : TruncDiv(4 * e - k[1], 4)) \/ r = Map1(x, LAMBDA e : e - TruncDiv(k[1], 4)))
    [] op = "SSubQ"    -> o = "ok" /\ (r = Map1(x, LAMBDA e : TruncDiv(k[1] - 4 * e, 4)) \/ r = Map1(x, LAMBDA e : TruncDiv(k[1], 4) - e))
    [] op \in {"MulSQ", "SMulQ"} -> o = "ok" /\ r = Map1(x, LAMBDA e : TruncDiv(e * k[1], 4))
    [] op = "DivSQ"    -> o = "ok" /\ r = Map1(x, LAMBDA e : TruncDiv(4 * e, k[1]))
    [] op = "SDivQ"    -> o = "ok" /\ r = Map1(x, LAMBDA e : TruncDiv(k[1], 4 * e))
    [] op = "AddEqSQ"  -> o = "ok" /\ X = Map1(x, LAMBDA e : TruncDiv(4 * e + k[1], 4))
    [] op = "SubEqSQ"  -> o = "ok" /\ X = Map1(x, LAMBDA e : TruncDiv(4 * e - k[1], 4))
    [] op = "MulEqSQ"  -> o = "ok" /\ X = Map1(x, LAMBDA e : TruncDiv(e * k[1], 4))
    [] op = "DivEqSQ"  -> o = "ok" /\ X = Map1(x, LAMBDA e : TruncDiv(4 * e, k[1]))
    \* v op= v[i]: the scalar is an element of the target itself (k[1] = i, 0-based); every element is
    \* combined with the value v[i] had when the call was made
    [] op = "AddEqE"   -> o = "ok" /\ X = Map1(x, LAMBDA e : e + x[k[1] + 1])
    [] op = "SubEqE"   -> o = "ok" /\ X = Map1(x, LAMBDA e : e - x[k[1] + 1])
    [] op = "MulEqE"   -> o = "ok" /\ X = Map1(x, LAMBDA e : e * x[k[1] + 1])
    [] op = "DivEqE"   -> o = "ok" /\ X = Map1(x, LAMBDA e : TruncDiv(e, x[k[1] + 1]))
    \* element-wise binary: a size mismatch must be reported
    [] op = "Add" -> IF Len(x) # Len(y) THEN o = "raise" ELSE o = "ok" /\ r = Map2(x, y, Plus)
    [] op = "Sub" -> IF Len(x) # Len(y) THEN o = "raise" ELSE o = "ok" /\ r = Map2(x, y, Minus)
    [] op = "Mul" -> IF Len(x) # Len(y) THEN o = "raise" ELSE o = "ok" /\ r = Map2(x, y, Times)
    [] op = "Div" -> IF Len(x) # Len(y) THEN o = "raise" ELSE o = "ok" /\ r = Map2(x, y, TruncDiv)
    [] op = "SumProd" -> IF Len(x) # Len(y) THEN o = "raise"
                         ELSE FreeOnEmpty \/ (o = "ok" /\ r = Dot(x, y))
    [] op = "Scalar"  -> IF Len(x) # Len(y) THEN Raises(o, c, DIM) ELSE o = "ok" /\ r = Dot(x, y)
    [] op = "Scalar3" -> IF Len(x) # Len(z) \/ Len(y) # Len(z) THEN Raises(o, c, DIM)
                         ELSE o = "ok" /\ r = Dot3(x, y, z)
    [] op = "Kron"    -> \/ /\ o = "ok" /\ Len(r) = Len(x) * Len(y)
                            /\ \A i \in Idx(x), j \in Idx(y) : r[(i - 1) * Len(y) + j] = x[i] * y[j]
                         \/ Len(x) # Len(y) /\ Raises(o, c, DIM)      \* the doc comment announces it
    [] op = "Union"   -> o = "ok" /\ SetOf(r) = SetOf(x) \cup SetOf(y) /\ NoDup(r)
    [] op = "Inter"   -> o = "ok" /\ (r = Keep(x, SetOf(y)) \/ r = Dedup(Keep(x, SetOf(y))))
    [] op = "SameC"   -> /\ o = "ok" /\ (SameMultiset(x, y) => r) /\ (SetOf(x) # SetOf(y) => ~r)
    [] op = "Same"    -> /\ o = "ok" /\ r = SameMultiset(x, y)
                         /\ AsIsOrSorted(X, x) /\ AsIsOrSorted(Y, y)
    [] op = "ContainsAll" ->
         \/ (x = <<>> \/ y = <<>>) /\ o = "raise"
         \/ /\ o = "ok" /\ r = (SetOf(y) \subseteq SetOf(x))
            /\ AsIsOrSorted(X, x) /\ AsIsOrSorted(Y, y)
    [] op = "Extract" -> o = "ok" /\ r = [i \in Idx(y) |-> x[y[i] + 1]]
    [] op = "AddEq"   -> CompoundOK(x, y, o, X, Plus)
    [] op = "SubEq"   -> CompoundOK(x, y, o, X, Minus)
    [] op = "MulEq"   -> CompoundOK(x, y, o, X, Times)
    [] op = "DivEq"   -> CompoundOK(x, y, o, X, TruncDiv)
    [] op = "Append"  -> o = "ok" /\ X = x \o y
    [] op = "Prepend" -> o = "ok" /\ X = y \o x
    [] op = "Extend"  -> /\ o = "ok"
                         /\ LET add == Remove(y, SetOf(x)) IN X = x \o add \/ X = x \o Dedup(add)
    [] op = "Diff"    ->
         /\ o = "ok" /\ AsIsOrSorted(X, x) /\ AsIsOrSorted(Y, y)
         /\ Len(Z) >= Len(z) /\ SubSeq(Z, 1, Len(z)) = z                 \* v3 is appended to
         /\ LET tl == SubSeq(Z, Len(z) + 1, Len(Z)) IN
              /\ IsSortedAsc(tl)
              /\ SetOf(tl) = SetOf(x) \ SetOf(y)
              /\ \A e \in SetOf(tl) : Count(tl, e) <= Count(x, e)
    [] op = "UnionAll" -> o = "ok" /\ SetOf(r) = UnionAllSets(L) /\ NoDup(r)
    [] op = "InterAll" -> /\ o = "ok"
                          /\ IF L = <<>> THEN r = <<>>
                             ELSE LET S == InterAllSets(L) IN r = Keep(x, S) \/ r = Dedup(Keep(x, S))
    [] op = "Concat"   -> o = "ok" /\ r = ConcatAll(L)
    \* exact dyadic cases of the moments (E3): results are numerators at a fixed scale
    [] op = "Mean"    -> o = "ok" /\ n \in PowersOfTwo /\ r * n = 64 * Sum(x)
    [] op = "Center"  -> /\ o = "ok" /\ n \in PowersOfTwo /\ Len(r) = n
                         /\ \A i \in Idx(x) : r[i] * n = 64 * (n * x[i] - Sum(x))
    [] op \in {"CovB", "VarB"} ->
         LET w == IF op = "VarB" THEN x ELSE y IN
         IF Len(x) # Len(w) THEN Raises(o, c, DIM)
         ELSE /\ o = "ok" /\ n \in {1, 2, 4, 8, 16}
              /\ r = (4096 \div (n * n * n)) *
                     Sum([i \in Idx(x) |-> (n * x[i] - Sum(x)) * (n * w[i] - Sum(w))])
    [] op = "Fdr"     -> o = "ok" /\ FdrOK(x, r)
    \* moments of offset data (k ends with the exponent e of the offset 2^e, 0 = no offset); flags are 0/1
    [] op = "MeanX"   -> o = "ok" /\ r[2] = 0 /\ (n \in PowersOfTwo => r[1] * n = 64 * Sum(x))
    [] op = "CenterX" -> /\ o = "ok" /\ Len(r) = n
                         /\ n \in PowersOfTwo => \A i \in Idx(x) : r[i] * n = 64 * (n * x[i] - Sum(x))
    [] op = "CovX"    -> IF Len(x) # Len(y) THEN Raises(o, c, DIM)                    \* k = <<unbiased, e>>, r = <<value 2^12, NaN>>
                         ELSE /\ o = "ok" /\ r[2] = 0
                              /\ n \in ExactN => LET v == CovKnown(x, y, k[1] = 1) IN v[1] => r[1] = v[2]
    [] op = "VarX"    -> /\ o = "ok" /\ r[2] = 0 /\ r[3] = 0                          \* r = <<value, NaN, negative>>
                         /\ n \in ExactN => LET v == CovKnown(x, x, k[1] = 1) IN v[1] => r[1] = v[2]
    [] op = "SdX"     -> /\ o = "ok" /\ r[2] = 0                                      \* r = <<value 2^6, NaN>>
                         /\ n \in ExactN => LET v == CovKnown(x, x, k[1] = 1) IN
                                            (v[1] /\ ISqrt(v[2]) * ISqrt(v[2]) = v[2]) => r[1] = ISqrt(v[2])
    \* r = <<NaN, |cor| <= 1 + 64 eps>>: defined and in range whenever neither sample is constant
    [] op = "CorX"    -> IF Len(x) # Len(y) THEN Raises(o, c, DIM)
                         ELSE /\ o = "ok"
                              /\ (Cardinality(SetOf(x)) >= 2 /\ Cardinality(SetOf(y)) >= 2) => (r[1] = 0 /\ r[2] = 1)
    \* weighted mean / covariance / variance, every (unbiased, normalizeWeights) combination; k = <<unbiased, normalize, pre>>
    \* (MeanW: <<normalize, pre>>), pre = 1: the weights were divided by their sum before the call.  r = <<value at scale
    \* 2^12 (MeanW: 2^4), is NaN, is negative, var bit-equal to cov(x,x,w) with the same flags, sd is NaN>> as 0/1 flags.
    [] op = "MeanW"   -> IF Len(x) # Len(y) THEN o = "raise"
                         ELSE o = "ok" /\ r[2] = 0 /\ r[1] * Sum(y) = 16 * Dot(x, y)
    [] op = "CovW"    -> IF Len(x) # Len(y) THEN Raises(o, c, DIM)
                         ELSE IF Len(x) # Len(z) THEN o = "raise"
                         ELSE o = "ok" /\ r[2] = 0 /\ WCovValueOK(x, y, z, k[1] = 1, r[1])
    [] op = "VarW"    -> IF Len(x) # Len(y) THEN Raises(o, c, DIM)
                         ELSE /\ o = "ok" /\ r[2] = 0 /\ WCovValueOK(x, x, y, k[1] = 1, r[1])
                              /\ r[3] = 0            \* a variance is never negative
                              /\ r[4] = 1            \* var(x, w, u, nz) is cov(x, x, w, u, nz)
                              /\ r[5] = 0            \* so its square root (sd) exists
    \* value is numeric (not judged); the documented DimensionException is
    [] op \in {"CovO", "CorO", "CosO", "NormWO", "MiO"} ->
         IF Len(x) # Len(y) THEN Raises(o, c, DIM) ELSE (o = "ok" \/ FreeOnEmpty)
    [] OTHER -> FALSE

J(t, op, x, y, z, k, o, c, r, X, Y, Z) ==
  /\ o \in {"ok", "raise"}
  /\ Frame(op, x, y, z, o, X, Y, Z)
  /\ Value(t, op, x, y, z, k, o, c, r, X, Y, Z)

\* ----------------------------------------------------------------- log domain (E1)
\* Inputs are indices into a sorted pool of doubles whose index 0 is -inf and
\* index P-1 is +inf; weights are numerators at scale 4 (>= 0).  The driver logs
\* order facts only:  f.mi  index of the maximum it found, f.ri  pool index of the
\* result (or -1), f.nan, f.fin, f.zero (result == 0), f.c1 (lower bound <= result),
\* f.c2 (result <= upper bound) where the bounds are computed with the library's
\* own log/exp:  max and max + log n  (LogSumExp, LogSum2: n = 2),
\* max - log n and (max + log n) - log n  (LogMeanExp),
\* exp(max) and n * exp(max)  (SumExp), and the weighted analogues
\* max + log(wM), max + log(W)  /  wM * exp(max), W * exp(max)  with wM the weight
\* sitting on the maximal entries and W the total weight (f.wm, f.w scaled by 4);
\* f.eo: exp(max) overflows to +inf.  Unweighted log reductions also carry: f.k multiplicity of the
\* maximum and f.c3 (r >= 4 ulps below max + log k [- log n]); f.near (n >= 2, second largest entry >= max - 30,
\* |max| <= 100) and f.c4 (r > lower bound, strictly); f.sha (a shift c was added exactly to every entry)
\* and f.sh (|r(v + c) - (r(v) + c)| <= 8 eps * max(|r|, |r'|, |c|)).
WeightAt(v, w, m) == Sum([i \in Idx(v) |-> IF v[i] = m THEN w[i] ELSE 0])

JLog(op, v, w, P, o, c, f) ==
  LET n == Len(v)  top == P - 1  IN
  CASE op \in {"LogSumExp", "LogMeanExp", "LogSum2"} ->
         IF n = 0 THEN o \in {"ok", "raise"}
         ELSE /\ o = "ok" /\ ~f.nan /\ f.mi = Mx(v)
              /\ IF Mx(v) = 0 THEN f.ri = 0                       \* every term is log-zero => log-zero
                 ELSE IF Mx(v) = top THEN f.ri = top
                 ELSE /\ f.fin /\ f.c1 /\ f.c2                    \* max <= r <= max + log n, finite
                      \* every entry tied with the maximum contributes a full 1 to the shifted sum:
                      \* r >= max + log(multiplicity of the maximum)  (less 4 ulps)
                      /\ f.k = Count(v, Mx(v)) /\ f.c3
                      \* a second entry within 30 of a moderate maximum is visible in the result: r > max
                      /\ f.near => f.c4
                      \* shifting all entries by an amount that is added exactly shifts the result (8 eps slack)
                      /\ f.sha => f.sh
              /\ n = 1 => f.ri = v[1]
    [] op = "SumExp" ->
         IF n = 0 THEN o \in {"ok", "raise"}
         ELSE /\ o = "ok" /\ ~f.nan /\ f.mi = Mx(v)
              /\ IF Mx(v) = 0 THEN f.zero
                 ELSE IF Mx(v) = top THEN f.ri = top
                 ELSE f.c1 /\ f.c2
    [] op \in {"LogSumExpW", "SumExpW"} ->
         IF n # Len(w) THEN o = "raise"
         ELSE IF n = 0 THEN o \in {"ok", "raise"}
         ELSE IF Mx(v) \in {0, top} THEN o \in {"ok", "raise"}    \* infinite maximum: refused or not, not judged
         ELSE /\ o = "ok" /\ f.mi = Mx(v)
              /\ f.wm = WeightAt(v, w, Mx(v)) /\ f.w = Sum(w)
              \* 0 * exp(max) is NaN in IEEE arithmetic when exp(max) overflows and no weight sits
              \* on the maximum: the documented formula itself gives NaN there (not judged)
              /\ \/ op = "SumExpW" /\ f.eo /\ f.wm = 0
                 \/ /\ ~f.nan /\ f.c2
                    /\ f.wm > 0 => (f.c1 /\ (op = "LogSumExpW" => f.fin))
                    /\ f.w = 0 => (IF op = "LogSumExpW" THEN f.ri = 0 ELSE f.zero)
    [] OTHER -> FALSE
=============================================================================
