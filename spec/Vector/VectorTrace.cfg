SPECIFICATION TraceSpec
CONSTANTS
  Vals = {}
  MaxLen = 0
  Types = {"int", "double", "log"}
INVARIANTS TypeOK
POSTCONDITION TraceAccepted
CHECK_DEADLOCK FALSE
