------------------------------ MODULE VectorOps ------------------------------
\* C07 - design model: a machine with three vector registers a, b, c on which
\* the public calls of VectorTools act.  One action per public call; a call
\* has an explicit outcome (ok / raise + class), a returned value and a
\* post-state (several calls sort or extend their arguments: median,
\* containsAll, haveSameElements, diff, the compound assignments, append,
\* prepend, extend, fill).  The step relation is
\*       Step(op, xn, yn, zn, k, res)
\* where res = [o, c, r, X, Y, Z]:
\*   - here (Next) res is the transcription A(...) of the library's loop, and
\*     TLC checks over every history inside the bound that the judge J (the
\*     definition + documented error protocol) accepts it, that the algebraic
\*     laws linking different calls hold in every reachable state, and the
\*     action properties below;
\*   - VectorTrace supplies res from an event recorded on the real code.
EXTENDS VectorAlgo

CONSTANTS Vals,      \* element values of the design model
          MaxLen,    \* longest register explored (longer ones are generated, judged, not expanded)
          Types      \* subset of {"int", "double"}

VARIABLES regs,      \* regs[g]: content of register g
          ty,        \* element type of the scenario
          last       \* <<op, outcome>> of the last call (observability for the action properties)

vars == <<regs, ty, last>>
View == <<regs, ty>>       \* states are identified by the registers; `last` only feeds the action properties

Regs  == {"a", "b", "c"}
Vecs  == UNION {[1..n -> Vals] : n \in 0..MaxLen}
Arg(g) == IF g \in Regs THEN regs[g] ELSE <<>>

Init == regs = [g \in Regs |-> <<>>] /\ ty \in Types /\ last = <<"Reset", "ok">>

Assign(g, v) == /\ regs' = [regs EXCEPT ![g] = v]
                /\ last' = <<"Set", "ok">> /\ UNCHANGED ty

\* the registers after a call; xn, yn, zn distinct whenever the call may write
Step(op, xn, yn, zn, k, res) ==
  /\ regs' = [g \in Regs |-> IF g = xn THEN res.X ELSE IF g = yn THEN res.Y ELSE IF g = zn THEN res.Z ELSE regs[g]]
  /\ last' = <<op, res.o>>
  /\ UNCHANGED ty

PureOps == {"Sum", "Prod", "CumSum", "CumProd", "Abs", "Sqr", "Min", "Max", "WhichMin", "WhichMax",
            "WhichMinAll", "WhichMaxAll", "Range", "Order", "Unique", "IsUnique", "CountValues",
            "Which", "WhichAll", "Contains", "Rep", "Seq", "AddS", "SAdd", "SubS", "SSub", "MulS", "SMul",
            "DivS", "SDiv", "Add", "Sub", "Mul", "Div", "SumProd", "Scalar", "Scalar3", "Kron", "Union",
            "Inter", "SameC", "Extract", "UnionAll", "InterAll", "Concat", "Mean", "Center", "CovB", "VarB",
            "Fdr", "CovO", "MeanW", "CovW", "VarW", "MeanX", "CenterX", "CovX", "VarX", "SdX", "CorX", "AddSQ", "SAddQ", "SubSQ", "SSubQ", "MulSQ", "SMulQ", "DivSQ", "SDivQ"}

\* Independence reduction: a call with const arguments reads only its own
\* arguments, so it is explored from the states in which the registers it does
\* not read are empty (its judgement cannot depend on them); the calls that
\* write are explored from every state.
Reads(op, xn, yn, zn, k) ==
  IF op \in {"UnionAll", "InterAll", "Concat"} THEN {(<<xn, yn, zn>>)[i] : i \in 1..k[1]}
  ELSE IF op \in {"Scalar3", "Diff", "CovW"} THEN {xn, yn, zn}
  ELSE IF op \in {"Add", "Sub", "Mul", "Div", "SumProd", "Scalar", "Kron", "Union", "Inter", "SameC", "Same",
                  "ContainsAll", "Extract", "AddEq", "SubEq", "MulEq", "DivEq", "Append", "Prepend", "Extend",
                  "CovB", "CovO", "CorO", "CosO", "NormWO", "MiO", "MeanW", "VarW", "CovX", "CorX"} THEN {xn, yn}
  ELSE IF op = "Seq" THEN {} ELSE {xn}
Quiet(op, xn, yn, zn, k) ==
  op \in PureOps => \A g \in Regs \ Reads(op, xn, yn, zn, k) : regs[g] = <<>>

Do(op, xn, yn, zn, k) ==
  LET x == Arg(xn)  y == Arg(yn)  z == Arg(zn)
      a == A(ty, op, x, y, z, k) IN
  /\ Quiet(op, xn, yn, zn, k)
  /\ Pre(op, x, y, z, k) /\ PreT(ty, op, x, k)
  /\ Assert(J(ty, op, x, y, z, k, a.o, a.c, a.r, a.X, a.Y, a.Z),
            <<"transcription rejected by the definition", ty, op, x, y, z, k, a>>)
  /\ Step(op, xn, yn, zn, k, a)

Rot3  == {<<"a", "b", "c">>, <<"b", "c", "a">>, <<"c", "a", "b">>}
Perm3 == Rot3 \cup {<<"a", "c", "b">>, <<"b", "a", "c">>, <<"c", "b", "a">>}
U(op) == \E p \in Rot3 : Do(op, p[1], p[2], p[3], <<>>)                       \* one vector
S(op) == \E p \in Rot3, s \in Vals : Do(op, p[1], p[2], p[3], <<s>>)          \* one vector, one scalar
B(op) == \E p \in Perm3 : Do(op, p[1], p[2], p[3], <<>>)                      \* two / three vectors
BA(op) == \E g \in Regs : Do(op, g, g, "-", <<>>)                             \* same vector twice (const arguments only)
N(op) == \E p \in Perm3, n \in 0..3 : Do(op, p[1], p[2], p[3], <<n>>)         \* a list of n vectors

\* one named action per public call (the conjunction keeps TLC's coverage report per call)
ASet          == /\ \E g \in Regs, v \in Vecs : Assign(g, v)
ASum          == /\ U("Sum")
AProd         == /\ U("Prod")
ACumSum       == /\ U("CumSum")
ACumProd      == /\ U("CumProd")
AAbs          == /\ U("Abs")
ASqr          == /\ U("Sqr")
AMin          == /\ U("Min")
AMax          == /\ U("Max")
AWhichMin     == /\ U("WhichMin")
AWhichMax     == /\ U("WhichMax")
AWhichMinAll  == /\ U("WhichMinAll")
AWhichMaxAll  == /\ U("WhichMaxAll")
ARange        == /\ U("Range")
AOrder        == /\ U("Order")
AUnique       == /\ U("Unique")
AIsUnique     == /\ U("IsUnique")
ACountValues  == /\ U("CountValues")
AMedian       == /\ U("Median")
AWhich        == /\ S("Which")
AWhichAll     == /\ S("WhichAll")
AContains     == /\ S("Contains")
AFill         == /\ S("Fill")
AAndEq        == /\ S("AndEq")
AAddS         == /\ S("AddS")
ASAdd         == /\ S("SAdd")
ASubS         == /\ S("SubS")
ASSub         == /\ S("SSub")
AMulS         == /\ S("MulS")
ASMul         == /\ S("SMul")
ADivS         == /\ S("DivS")
ASDiv         == /\ S("SDiv")
AAddEqS       == /\ S("AddEqS")
ASubEqS       == /\ S("SubEqS")
AMulEqS       == /\ S("MulEqS")
ADivEqS       == /\ S("DivEqS")
\* mixed element / scalar types: the scalar is m/4
QVals == {-6, -2, 1, 2, 4, 10}
SQ(op) == \E p \in Rot3, m \in QVals : Do(op, p[1], p[2], p[3], <<m>>)
AAddSQ        == /\ SQ("AddSQ")
ASAddQ        == /\ SQ("SAddQ")
ASubSQ        == /\ SQ("SubSQ")
ASSubQ        == /\ SQ("SSubQ")
AMulSQ        == /\ SQ("MulSQ")
ASMulQ        == /\ SQ("SMulQ")
ADivSQ        == /\ SQ("DivSQ")
ASDivQ        == /\ SQ("SDivQ")
AAddEqSQ      == /\ SQ("AddEqSQ")
ASubEqSQ      == /\ SQ("SubEqSQ")
AMulEqSQ      == /\ SQ("MulEqSQ")
ADivEqSQ      == /\ SQ("DivEqSQ")
AAddEqE       == /\ \E p \in Rot3, i \in 0..(MaxLen - 1) : Do("AddEqE", p[1], p[2], p[3], <<i>>)
ASubEqE       == /\ \E p \in Rot3, i \in 0..(MaxLen - 1) : Do("SubEqE", p[1], p[2], p[3], <<i>>)
AMulEqE       == /\ \E p \in Rot3, i \in 0..(MaxLen - 1) : Do("MulEqE", p[1], p[2], p[3], <<i>>)
ADivEqE       == /\ \E p \in Rot3, i \in 0..(MaxLen - 1) : Do("DivEqE", p[1], p[2], p[3], <<i>>)
ARep          == /\ \E p \in Rot3, n \in 0..3 : Do("Rep", p[1], p[2], p[3], <<n>>)
ASeq          == /\ \/ \E f, t \in Vals, b \in 1..3 : Do("Seq", "-", "-", "-", <<f, t, b>>)
                    \/ \E f, t \in {-250, -1, 0, 199, 300}, b \in {50, 100, 200} : Do("Seq", "-", "-", "-", <<f, t, b>>)
AAdd          == /\ (B("Add") \/ BA("Add"))
ASub          == /\ (B("Sub") \/ BA("Sub"))
AMul          == /\ (B("Mul") \/ BA("Mul"))
ADiv          == /\ (B("Div") \/ BA("Div"))
ASumProd      == /\ (B("SumProd") \/ BA("SumProd"))
AScalar       == /\ (B("Scalar") \/ BA("Scalar"))
AScalar3      == /\ B("Scalar3")
AKron         == /\ (B("Kron") \/ BA("Kron"))
AUnion        == /\ (B("Union") \/ BA("Union"))
AInter        == /\ (B("Inter") \/ BA("Inter"))
ASameC        == /\ (B("SameC") \/ BA("SameC"))
ASame         == /\ B("Same")
AContainsAll  == /\ B("ContainsAll")
AExtract      == /\ B("Extract")
AAddEq        == /\ B("AddEq")
ASubEq        == /\ B("SubEq")
AMulEq        == /\ B("MulEq")
ADivEq        == /\ B("DivEq")
AAppend       == /\ B("Append")
APrepend      == /\ B("Prepend")
AExtend       == /\ B("Extend")
ADiff         == /\ B("Diff")
AUnionAll     == /\ N("UnionAll")
AInterAll     == /\ N("InterAll")
AConcat       == /\ N("Concat")
AMean         == /\ U("Mean")
ACenter       == /\ U("Center")
ACovB         == /\ B("CovB")
AVarB         == /\ U("VarB")
AFdr          == /\ U("Fdr")
ACovO         == /\ B("CovO")
AMeanW        == /\ \E p \in Perm3, nz, pre \in 0..1, e \in {0, 30} : Do("MeanW", p[1], p[2], p[3], <<nz, pre, e>>)
ACovW         == /\ \E p \in Perm3, u, nz, pre \in 0..1, e \in {0, 30} : Do("CovW", p[1], p[2], p[3], <<u, nz, pre, e>>)
AVarW         == /\ \E p \in Perm3, u, nz, pre \in 0..1, e \in {0, 30} : Do("VarW", p[1], p[2], p[3], <<u, nz, pre, e>>)
AMeanX        == /\ \E p \in Rot3, e \in {0, 30} : Do("MeanX", p[1], p[2], p[3], <<e>>)
ACenterX      == /\ \E p \in Rot3, e \in {0, 30} : Do("CenterX", p[1], p[2], p[3], <<e>>)
ACovX         == /\ \E p \in Perm3, u \in 0..1, e \in {0, 30} : Do("CovX", p[1], p[2], p[3], <<u, e>>)
AVarX         == /\ \E p \in Rot3, u \in 0..1, e \in {0, 30} : Do("VarX", p[1], p[2], p[3], <<u, e>>)
ASdX          == /\ \E p \in Rot3, u \in 0..1, e \in {0, 30} : Do("SdX", p[1], p[2], p[3], <<u, e>>)
ACorX         == /\ \E p \in Perm3, e \in {0, 30} : Do("CorX", p[1], p[2], p[3], <<e>>)

Next ==
  \/ ASet \/ ASum \/ AProd \/ ACumSum \/ ACumProd \/ AAbs \/ ASqr \/ AMin \/ AMax
  \/ AWhichMin \/ AWhichMax \/ AWhichMinAll \/ AWhichMaxAll \/ ARange \/ AOrder \/ AUnique
  \/ AIsUnique \/ ACountValues \/ AMedian
  \/ AWhich \/ AWhichAll \/ AContains \/ AFill \/ AAndEq \/ AAddS \/ ASAdd \/ ASubS \/ ASSub
  \/ AMulS \/ ASMul \/ ADivS \/ ASDiv \/ AAddEqS \/ ASubEqS \/ AMulEqS \/ ADivEqS \/ AAddSQ \/ ASAddQ \/ ASubSQ \/ ASSubQ \/ AMulSQ \/ ASMulQ \/ ADivSQ \/ ASDivQ
  \/ AAddEqSQ \/ ASubEqSQ \/ AMulEqSQ \/ ADivEqSQ \/ AAddEqE \/ ASubEqE \/ AMulEqE \/ ADivEqE \/ ARep \/ ASeq
  \/ AAdd \/ ASub \/ AMul \/ ADiv \/ ASumProd \/ AScalar \/ AScalar3 \/ AKron \/ AUnion \/ AInter
  \/ ASameC \/ ASame \/ AContainsAll \/ AExtract \/ AAddEq \/ ASubEq \/ AMulEq \/ ADivEq
  \/ AAppend \/ APrepend \/ AExtend \/ ADiff \/ AUnionAll \/ AInterAll \/ AConcat
  \/ AMean \/ ACenter \/ ACovB \/ AVarB \/ AFdr \/ ACovO \/ AMeanW \/ ACovW \/ AVarW \/ AMeanX \/ ACenterX \/ ACovX \/ AVarX \/ ASdX \/ ACorX

Spec == Init /\ [][Next]_vars

\* states that are expanded further
Bound == \A g \in Regs : regs[g] \in Vecs

\* ----------------------------------------------------------------- invariants
TypeOK == /\ DOMAIN regs = Regs /\ ty \in Types
          /\ \A g \in Regs : regs[g] \in Seq(Int)

\* Laws that tie different calls together, evaluated on the transcriptions in
\* every reachable register state (they are consequences of the definitions;
\* a transcription that is accepted call by call but inconsistent across calls
\* would show here).
R(op, x, y, z, k) == A(ty, op, x, y, z, k).r
Laws ==
  \* every ordered pair of vectors inside the bound sits in (a, b) of some reachable state
  \A g \in {"a"}, h \in {"a", "b"} :
    LET x == regs[g]  y == regs[h]  e == <<>> IN
    /\ R("Sum", x \o y, e, e, e) = R("Sum", x, e, e, e) + R("Sum", y, e, e, e)
    /\ R("Prod", x \o y, e, e, e) = R("Prod", x, e, e, e) * R("Prod", y, e, e, e)
    /\ x # e => /\ R("CumSum", x, e, e, e)[Len(x)] = R("Sum", x, e, e, e)
                /\ R("CumProd", x, e, e, e)[Len(x)] = R("Prod", x, e, e, e)
                /\ R("Range", x, e, e, e) = <<R("Min", x, e, e, e), R("Max", x, e, e, e)>>
                /\ x[R("WhichMin", x, e, e, e) + 1] = R("Min", x, e, e, e)
                /\ R("WhichMaxAll", x, e, e, e)[1] = R("WhichMax", x, e, e, e)
                \* extracting by the order gives the sorted vector, which is what median leaves behind
                /\ R("Extract", x, R("Order", x, e, e, e), e, e) = Sorted(x)
                /\ Len(x) >= 2 => A(ty, "Median", x, e, e, e).X = R("Extract", x, R("Order", x, e, e, e), e, e)
                /\ 2 * R("Min", x, e, e, e) <= AlgoMedian2(x) /\ AlgoMedian2(x) <= 2 * R("Max", x, e, e, e)
    /\ R("Sum", R("Kron", x, y, e, e), e, e, e) = R("Sum", x, e, e, e) * R("Sum", y, e, e, e)
    /\ Len(x) = Len(y) => R("Scalar", x, y, e, e) = R("Sum", R("Mul", x, y, e, e), e, e, e)
    \* difference and intersection split x; union = unique of the concatenation (as sets)
    /\ LET d == A(ty, "Diff", x, y, e, e).Z  i == R("Inter", x, y, e, e) IN
         /\ SetOf(d) \cup SetOf(i) = SetOf(x) /\ SetOf(d) \cap SetOf(i) = {}
         /\ d = R("Unique", d, e, e, e)
    /\ SetOf(R("Union", x, y, e, e)) = SetOf(R("Unique", x \o y, e, e, e))
    /\ R("ContainsAll", R("Union", x, y, e, e), y, e, e)
    /\ R("ContainsAll", x, y, e, e) = (A(ty, "Diff", y, x, e, e).Z = e)
    /\ R("IsUnique", x, e, e, e) = (R("Unique", x, e, e, e) = Sorted(x))
    /\ R("SameC", x, y, e, e) = R("SameC", y, x, e, e)
    /\ R("Sum", R("Rep", x, e, e, <<3>>), e, e, e) = 3 * R("Sum", x, e, e, e)
    /\ Len(R("CountValues", x, e, e, e)) = Len(R("Unique", x, e, e, e))

\* ----------------------------------------------------------------- action properties
\* calls with const arguments leave every register alone; a refused call too
ConstCallsKeepRegisters == [][(last'[1] \in PureOps \/ last'[2] # "ok") => regs' = regs]_vars
\* the sorting calls only permute; no call but Set / arithmetic / append-like ones changes a multiset
Permuting == {"Median", "Same", "ContainsAll"}
SortingCallsPermute ==
  [][last'[1] \in Permuting => \A g \in Regs : regs'[g] = regs[g] \/ regs'[g] = Sorted(regs[g])]_vars
\* at most one register is written by any call other than the sorting ones and diff
OneWriter ==
  [][last'[1] \notin (Permuting \cup {"Diff", "Set"}) => Cardinality({g \in Regs : regs'[g] # regs[g]}) <= 1]_vars
=============================================================================
