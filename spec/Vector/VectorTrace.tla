------------------------------ MODULE VectorTrace ------------------------------
\* C07 - trace validation: every event recorded by harness/drv_vector.cpp on the
\* real VectorTools / NumTools / StatTools code must be a step of VectorOps, the
\* outcome, returned value and post-state read back from the implementation
\* taking the place of the transcription's; the judge J (definition +
\* documented error protocol) decides each call on the register contents the
\* specification holds from the previous events.
\*
\*  {"e":"Reset","t":T}                        new scenario, registers empty, element type T
\*  {"e":"Set","x":g,"v":[..],"s":S}          the driver assigns a register (not a library call)
\*  {"e":"Call","op":..,"x":g,"y":g,"z":g,"k":[..],"o":..,"c":..,"r":..,"s":S}
\*  {"e":"Log","op":..,"v":[..],"w":[..],"P":n,"o":..,"c":..,"f":{facts}}   log-domain reductions (E1)
\* S = registers after the event; a crash or a hang is an event nothing explains.
EXTENDS VectorOps, TraceLib

TReset == /\ IsEvent("Reset")
          /\ regs' = [g \in Regs |-> <<>>] /\ ty' = Ev.t /\ last' = <<"Reset", "ok">>

TSet == /\ IsEvent("Set")
        /\ Assign(Ev.x, Ev.v)
        /\ regs' = Ev.s

TCall ==
  /\ IsEvent("Call")
  /\ LET ev == Ev
         x == Arg(ev.x)  y == Arg(ev.y)  z == Arg(ev.z)
         Post(g, pre) == IF g \in Regs THEN ev.s[g] ELSE pre
         res == [o |-> ev.o, c |-> ev.c, r |-> ev.r, X |-> Post(ev.x, x), Y |-> Post(ev.y, y), Z |-> Post(ev.z, z)]
     IN /\ Pre(ev.op, x, y, z, ev.k) /\ PreT(ty, ev.op, x, ev.k)   \* the driver stayed inside the quantifier
        /\ J(ty, ev.op, x, y, z, ev.k, ev.o, ev.c, ev.r, res.X, res.Y, res.Z)
        /\ Step(ev.op, ev.x, ev.y, ev.z, ev.k, res)
        /\ regs' = ev.s                                  \* registers the call does not name are untouched

TLog == /\ IsEvent("Log")
        /\ JLog(Ev.op, Ev.v, Ev.w, Ev.P, Ev.o, Ev.c, Ev.f)
        /\ last' = <<Ev.op, Ev.o>> /\ UNCHANGED <<regs, ty>>

TraceNext == TReset \/ TSet \/ TCall \/ TLog
TraceInit == regs = [g \in Regs |-> <<>>] /\ ty = "int" /\ last = <<"Reset", "ok">> /\ l = 1
TraceSpec == TraceInit /\ [][TraceNext]_<<vars, l>>
=============================================================================
