----------------------------- MODULE VectorLemmas -----------------------------
\* C07 - closed lemmas evaluated by TLC (no state space): on every vector of
\* length <= N1 over Vals, every pair of vectors of length <= N2 and every
\* triple of length <= N3, the transcription of each library loop (VectorAlgo)
\* is accepted by the definition-level judge (VectorDefs), for both element
\* types.  Also sanity lemmas on the definitions themselves.
EXTENDS VectorAlgo

CONSTANTS Vals, N1, N2, N3

Vec(n) == UNION {[1..m -> Vals] : m \in 0..n}
Types == {"int", "double"}

Unary == {"Sum", "Prod", "CumSum", "CumProd", "Abs", "Sqr", "Min", "Max", "WhichMin", "WhichMax",
          "WhichMinAll", "WhichMaxAll", "Range", "Order", "Unique", "IsUnique", "CountValues", "Median",
          "Mean", "Center", "VarB", "Fdr"}
WithScalar == {"Which", "WhichAll", "Contains", "Fill", "AndEq", "AddS", "SAdd", "SubS", "SSub", "MulS", "SMul",
               "DivS", "SDiv", "AddEqS", "SubEqS", "MulEqS", "DivEqS"}
Binary == {"Add", "Sub", "Mul", "Div", "SumProd", "Scalar", "Kron", "Union", "Inter", "SameC", "Same",
           "ContainsAll", "Extract", "AddEq", "SubEq", "MulEq", "DivEq", "Append", "Prepend", "Extend",
           "CovB", "CovO", "CorO", "CosO", "NormWO", "MiO"}
Ternary == {"Scalar3", "Diff"}
Nary == {"UnionAll", "InterAll", "Concat"}

Check(t, op, x, y, z, k) ==
  (Pre(op, x, y, z, k) /\ PreT(t, op, x, k)) =>
     (Conforms(t, op, x, y, z, k) \/ ~PrintT(<<"lemma fails", t, op, x, y, z, k, A(t, op, x, y, z, k)>>))

UnaryLemma   == \A t \in Types, op \in Unary, x \in Vec(N1) : Check(t, op, x, <<>>, <<>>, <<>>)
ScalarLemma  == \A t \in Types, op \in WithScalar, x \in Vec(N1), s \in Vals : Check(t, op, x, <<>>, <<>>, <<s>>)
RepLemma     == \A x \in Vec(N1), n \in 0..3 : Check("int", "Rep", x, <<>>, <<>>, <<n>>)
SeqLemma     == /\ \A t \in Types, f, g \in -6..6, b \in 1..4 : Check(t, "Seq", <<>>, <<>>, <<>>, <<f, g, b>>)
                \* large steps: spans that are / are not multiples of the step, just short of one, inside the 1% zone
                /\ \A t \in Types, f \in {0, -300, 17}, b \in {49, 50, 51, 99, 100, 101, 128, 200, 250, 1000}, m \in 0..4, d \in {1, -1} :
                      \A e \in {0, 1, 2, b \div 2, b - 2, b - 1} :
                         Check(t, "Seq", <<>>, <<>>, <<>>, <<f, f + d * (m * b + e), b>>)
MixedLemma   == \A t \in Types, op \in QOps, x \in Vec(N1), m \in {-10, -6, -4, -2, -1, 1, 2, 3, 4, 8, 10} :
                   Check(t, op, x, <<>>, <<>>, <<m>>)
ElemLemma    == \A t \in Types, op \in {"AddEqE", "SubEqE", "MulEqE", "DivEqE"}, x \in Vec(N1), i \in 0..(N1 - 1) :
                   Check(t, op, x, <<>>, <<>>, <<i>>)
BinaryLemma  == \A t \in Types, op \in Binary, x, y \in Vec(N2) : Check(t, op, x, y, <<>>, <<>>)
TernaryLemma == \A op \in Ternary, x, y, z \in Vec(N3) : Check("int", op, x, y, z, <<>>)
WeightedLemma == /\ \A x, a \in Vec(N2), nz, pre \in 0..1 : Check("double", "MeanW", x, a, <<>>, <<nz, pre, 30>>)
                 /\ \A x, a \in Vec(N2), u, nz, pre \in 0..1 : Check("double", "VarW", x, a, <<>>, <<u, nz, pre, 0>>)
                 /\ \A x, y, a \in Vec(N3), u, nz, pre \in 0..1 : Check("double", "CovW", x, y, a, <<u, nz, pre, 40>>)
OffsetLemma  == /\ \A x \in Vec(N1), e \in {0, 40} : Check("double", "MeanX", x, <<>>, <<>>, <<e>>) /\ Check("double", "CenterX", x, <<>>, <<>>, <<e>>)
                /\ \A x \in Vec(N1), u \in 0..1 : Check("double", "VarX", x, <<>>, <<>>, <<u, 30>>) /\ Check("double", "SdX", x, <<>>, <<>>, <<u, 30>>)
                /\ \A x, y \in Vec(N2), u \in 0..1 : Check("double", "CovX", x, y, <<>>, <<u, 30>>) /\ Check("double", "CorX", x, y, <<>>, <<30>>)
                /\ \A m \in 0..2000 : ISqrt(m) * ISqrt(m) <= m /\ m < (ISqrt(m) + 1) * (ISqrt(m) + 1)
                /\ ISqrt(1000000000) = 31622
NaryLemma    == \A op \in Nary, x, y, z \in Vec(N3), n \in 0..3 : Check("int", op, x, y, z, <<n>>)

\* the definitions themselves
DefLemma ==
  \A x, y \in Vec(N2) :
    /\ Sum(x \o y) = Sum(x) + Sum(y) /\ Prod(x \o y) = Prod(x) * Prod(y)
    /\ SameMultiset(x, Sorted(x)) /\ IsSortedAsc(Sorted(x))
    /\ SetOf(Dedup(x)) = SetOf(x) /\ NoDup(Dedup(x))
    /\ Len(x) = Len(y) => Dot(x, y) = Dot(y, x)
    /\ x # <<>> => (Mn(x) <= Mx(x) /\ 2 * Mn(x) <= Median2(x) /\ Median2(x) <= 2 * Mx(x))
    /\ SameMultiset(x, y) <=> Sorted(x) = Sorted(y)
TruncLemma == \A a \in -7..7, b \in (-4..4) \ {0} :
                LET q == TruncDiv(a, b) IN AbsI(a - q * b) < AbsI(b) /\ (a - q * b = 0 \/ ((a - q * b < 0) = (a < 0)))
\* the judge is not vacuous: a wrong value, a wrong outcome, a touched const argument are refused
RefuseLemma ==
  /\ ~J("int", "Sum", <<1, 2>>, <<>>, <<>>, <<>>, "ok", "", 4, <<1, 2>>, <<>>, <<>>)
  /\ ~J("int", "Sum", <<1, 2>>, <<>>, <<>>, <<>>, "ok", "", 3, <<2, 1>>, <<>>, <<>>)
  /\ ~J("int", "Min", <<>>, <<>>, <<>>, <<>>, "ok", "", 0, <<>>, <<>>, <<>>)
  /\ ~J("int", "Min", <<>>, <<>>, <<>>, <<>>, "raise", "DimensionException", 0, <<>>, <<>>, <<>>)
  /\ ~J("int", "Scalar", <<1>>, <<1, 2>>, <<>>, <<>>, "ok", "", 1, <<1>>, <<1, 2>>, <<>>)
  /\ ~J("int", "Sum", <<1>>, <<>>, <<>>, <<>>, "fault", "", 1, <<1>>, <<>>, <<>>)
  /\ ~J("int", "Order", <<2, 1, 1>>, <<>>, <<>>, <<>>, "ok", "", <<0, 1, 2>>, <<2, 1, 1>>, <<>>, <<>>)
  /\ J("int", "Order", <<2, 1, 1>>, <<>>, <<>>, <<>>, "ok", "", <<2, 1, 0>>, <<2, 1, 1>>, <<>>, <<>>)
  /\ J("int", "Order", <<2, 1, 1>>, <<>>, <<>>, <<>>, "ok", "", <<1, 2, 0>>, <<2, 1, 1>>, <<>>, <<>>)
  /\ ~J("int", "Seq", <<>>, <<>>, <<>>, <<5, 1, 1>>, "ok", "", <<1, 0, -1, -2, -3>>, <<>>, <<>>, <<>>)
  /\ J("int", "Seq", <<>>, <<>>, <<>>, <<5, 1, 2>>, "ok", "", <<5, 3, 1>>, <<>>, <<>>, <<>>)
  \* large steps: nothing beyond `to` for integers, at most a hundredth of a step for reals
  /\ ~J("int", "Seq", <<>>, <<>>, <<>>, <<0, 99, 100>>, "ok", "", <<0, 100>>, <<>>, <<>>, <<>>)
  /\ J("double", "Seq", <<>>, <<>>, <<>>, <<0, 99, 100>>, "ok", "", <<0, 100>>, <<>>, <<>>, <<>>)
  /\ J("double", "Seq", <<>>, <<>>, <<>>, <<0, 99, 100>>, "ok", "", <<0>>, <<>>, <<>>, <<>>)
  /\ ~J("double", "Seq", <<>>, <<>>, <<>>, <<0, 1000, 200>>, "ok", "", <<0, 200, 400, 600, 800, 1000, 1200, 1400>>, <<>>, <<>>, <<>>)
  /\ ~J("double", "Seq", <<>>, <<>>, <<>>, <<0, 95, 50>>, "ok", "", <<0, 50, 100>>, <<>>, <<>>, <<>>)
  \* Vint (1, 2, 3) * 2.5 = (2, 5, 7), not (2, 4, 6); * 0.5 = (0, 1, 1); (-1) + 0.5 is -1 or 0 as a binary form, 0 as v += 0.5
  /\ J("int", "MulSQ", <<1, 2, 3>>, <<>>, <<>>, <<10>>, "ok", "", <<2, 5, 7>>, <<1, 2, 3>>, <<>>, <<>>)
  /\ ~J("int", "MulSQ", <<1, 2, 3>>, <<>>, <<>>, <<10>>, "ok", "", <<2, 4, 6>>, <<1, 2, 3>>, <<>>, <<>>)
  /\ ~J("int", "SMulQ", <<1, 2, 3>>, <<>>, <<>>, <<2>>, "ok", "", <<0, 0, 0>>, <<1, 2, 3>>, <<>>, <<>>)
  /\ J("int", "AddSQ", <<-1>>, <<>>, <<>>, <<2>>, "ok", "", <<-1>>, <<-1>>, <<>>, <<>>)
  /\ J("int", "AddSQ", <<-1>>, <<>>, <<>>, <<2>>, "ok", "", <<0>>, <<-1>>, <<>>, <<>>)
  /\ ~J("int", "AddEqSQ", <<-1>>, <<>>, <<>>, <<2>>, "ok", "", 0, <<-1>>, <<>>, <<>>)
  /\ J("int", "AddEqSQ", <<-1>>, <<>>, <<>>, <<2>>, "ok", "", 0, <<0>>, <<>>, <<>>)
  \* v -= v[0] on (2, 5): (0, 3), not (0, 5)
  /\ J("int", "SubEqE", <<2, 5>>, <<>>, <<>>, <<0>>, "ok", "", 0, <<0, 3>>, <<>>, <<>>)
  /\ ~J("int", "SubEqE", <<2, 5>>, <<>>, <<>>, <<0>>, "ok", "", 0, <<0, 5>>, <<>>, <<>>)
  /\ ~J("int", "Diff", <<2, 1>>, <<>>, <<7>>, <<>>, "ok", "", 0, <<1, 2>>, <<>>, <<7, 2, 1>>)
  /\ J("int", "Diff", <<2, 1>>, <<>>, <<7>>, <<>>, "ok", "", 0, <<1, 2>>, <<>>, <<7, 1, 2>>)
  /\ ~J("int", "Union", <<1, 1>>, <<>>, <<>>, <<>>, "ok", "", <<1, 1>>, <<1, 1>>, <<>>, <<>>)
  /\ ~J("double", "Fdr", <<3, 1, 2>>, <<>>, <<>>, <<>>, "ok", "", <<22680, 3780, 5040>>, <<3, 1, 2>>, <<>>, <<>>)
  /\ J("double", "Fdr", <<3, 1, 2>>, <<>>, <<>>, <<>>, "ok", "", <<3 * 2520, 2520 * 3, 2520 * 3>>, <<3, 1, 2>>, <<>>, <<>>)
  \* weighted variance of x = (0, 2) with weights (1, 1)/2: biased 1, unbiased 2; a flag mix-up is refused
  /\ J("double", "VarW", <<0, 2>>, <<1, 1>>, <<>>, <<0, 1, 0, 0>>, "ok", "", <<4096, 0, 0, 1, 0>>, <<0, 2>>, <<1, 1>>, <<>>)
  /\ ~J("double", "VarW", <<0, 2>>, <<1, 1>>, <<>>, <<0, 1, 0, 30>>, "ok", "", <<8192, 0, 0, 1, 0>>, <<0, 2>>, <<1, 1>>, <<>>)
  /\ J("double", "VarW", <<0, 2>>, <<1, 1>>, <<>>, <<1, 0, 1, 0>>, "ok", "", <<8192, 0, 0, 1, 0>>, <<0, 2>>, <<1, 1>>, <<>>)
  /\ ~J("double", "VarW", <<0, 2>>, <<1, 1>>, <<>>, <<1, 0, 1, 0>>, "ok", "", <<4096, 0, 0, 0, 0>>, <<0, 2>>, <<1, 1>>, <<>>)
  /\ ~J("double", "VarW", <<0, 2>>, <<1, 1>>, <<>>, <<0, 1, 0, 0>>, "ok", "", <<-4096, 0, 1, 0, 1>>, <<0, 2>>, <<1, 1>>, <<>>)
  \* (1,2,3,4) + 2^30: biased variance 5/4, unbiased 5/3 (not on the scale: only the sure facts), sd of (0,2)+2^30 is 1
  /\ J("double", "VarX", <<1, 2, 3, 4>>, <<>>, <<>>, <<0, 30>>, "ok", "", <<5120, 0, 0>>, <<1, 2, 3, 4>>, <<>>, <<>>)
  /\ ~J("double", "VarX", <<1, 2, 3, 4>>, <<>>, <<>>, <<0, 30>>, "ok", "", <<0, 0, 0>>, <<1, 2, 3, 4>>, <<>>, <<>>)
  /\ ~J("double", "VarX", <<1, 2, 3, 4>>, <<>>, <<>>, <<1, 30>>, "ok", "", <<-2000000000, 0, 1>>, <<1, 2, 3, 4>>, <<>>, <<>>)
  /\ J("double", "VarX", <<1, 2, 3, 4>>, <<>>, <<>>, <<1, 30>>, "ok", "", <<-2000000000, 0, 0>>, <<1, 2, 3, 4>>, <<>>, <<>>)
  /\ J("double", "SdX", <<0, 2>>, <<>>, <<>>, <<0, 30>>, "ok", "", <<64, 0>>, <<0, 2>>, <<>>, <<>>)
  /\ ~J("double", "CorX", <<1, 2>>, <<2, 4>>, <<>>, <<30>>, "ok", "", <<1, 0>>, <<1, 2>>, <<2, 4>>, <<>>)
  \* log-sum-exp of two tied finite entries that answers max (ties dropped) is refused through c3
  /\ ~JLog("LogSumExp", <<2, 2>>, <<>>, 5, "ok", "", [nan |-> FALSE, fin |-> TRUE, ri |-> 2, mi |-> 2, zero |-> FALSE, c1 |-> TRUE, c2 |-> TRUE,
                                                   wm |-> 0, w |-> 0, eo |-> FALSE, k |-> 2, c3 |-> FALSE, near |-> TRUE, c4 |-> FALSE, sha |-> TRUE, sh |-> TRUE])
  /\ ~JLog("LogSum2", <<0, 0>>, <<>>, 5, "ok", "", [nan |-> TRUE, fin |-> FALSE, ri |-> -1, mi |-> 0, zero |-> FALSE, c1 |-> FALSE, c2 |-> FALSE, wm |-> 0, w |-> 0, eo |-> FALSE, k |-> 2, c3 |-> FALSE, near |-> FALSE, c4 |-> FALSE, sha |-> FALSE, sh |-> FALSE])
  /\ JLog("LogSum2", <<0, 0>>, <<>>, 5, "ok", "", [nan |-> FALSE, fin |-> FALSE, ri |-> 0, mi |-> 0, zero |-> FALSE, c1 |-> TRUE, c2 |-> TRUE, wm |-> 0, w |-> 0, eo |-> FALSE, k |-> 2, c3 |-> FALSE, near |-> FALSE, c4 |-> FALSE, sha |-> FALSE, sh |-> FALSE])

ASSUME LET v == UnaryLemma IN PrintT(<<"Lemma", "Unary", v>>) /\ v
ASSUME LET v == ScalarLemma IN PrintT(<<"Lemma", "Scalar", v>>) /\ v
ASSUME LET v == MixedLemma IN PrintT(<<"Lemma", "MixedTypes", v>>) /\ v
ASSUME LET v == ElemLemma IN PrintT(<<"Lemma", "ElementScalar", v>>) /\ v
ASSUME LET v == RepLemma /\ SeqLemma IN PrintT(<<"Lemma", "RepSeq", v>>) /\ v
ASSUME LET v == BinaryLemma IN PrintT(<<"Lemma", "Binary", v>>) /\ v
ASSUME LET v == TernaryLemma IN PrintT(<<"Lemma", "Ternary", v>>) /\ v
ASSUME LET v == NaryLemma IN PrintT(<<"Lemma", "Nary", v>>) /\ v
ASSUME LET v == OffsetLemma IN PrintT(<<"Lemma", "Offset", v>>) /\ v
ASSUME LET v == WeightedLemma IN PrintT(<<"Lemma", "Weighted", v>>) /\ v
ASSUME LET v == DefLemma /\ TruncLemma IN PrintT(<<"Lemma", "Defs", v>>) /\ v
ASSUME LET v == RefuseLemma IN PrintT(<<"Lemma", "Refuse", v>>) /\ v

VARIABLE dummy
Init == dummy = 0
Next == UNCHANGED dummy
Spec == Init /\ [][Next]_dummy
=============================================================================
