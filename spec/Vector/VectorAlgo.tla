------------------------------ MODULE VectorAlgo ------------------------------
\* C07 - transcription of what the library's loops are meant to compute
\* (VectorTools.h, StatTools.cpp), operation by operation, as A(...) returning
\* [o, c, r, X, Y, Z].  The design model VectorOps and the closed lemmas
\* VectorLemmas check that every transcribed result is accepted by the judge
\* J of VectorDefs, i.e. that the algorithms and the definitions agree on every
\* input inside the bound.  Where the current code deviated from its
\* definition (see notes/C07.md) the transcription is of the repaired loop.
EXTENDS VectorDefs

\* value sets for the model configurations (a .cfg cannot spell a negative number)
ValsA == {-1, 0, 2}
ValsB == {-1, 0, 1, 2}
ValsC == {0, 1}

\* ---- scans
ScanMin(v) == LET F[i \in Idx(v)] == IF i = 1 THEN v[1] ELSE LET p == F[i-1] IN IF v[i] < p THEN v[i] ELSE p IN F[Len(v)]
ScanMax(v) == LET F[i \in Idx(v)] == IF i = 1 THEN v[1] ELSE LET p == F[i-1] IN IF v[i] > p THEN v[i] ELSE p IN F[Len(v)]
\* <<extreme, position>>, strict comparison keeps the first one
ScanWhichMin(v) == LET F[i \in Idx(v)] == IF i = 1 THEN <<v[1], 0>>
                                          ELSE LET p == F[i-1] IN IF v[i] < p[1] THEN <<v[i], i - 1>> ELSE p IN F[Len(v)][2]
ScanWhichMax(v) == LET F[i \in Idx(v)] == IF i = 1 THEN <<v[1], 0>>
                                          ELSE LET p == F[i-1] IN IF v[i] > p[1] THEN <<v[i], i - 1>> ELSE p IN F[Len(v)][2]
ScanAll(v, m)   == LET F[i \in 0..Len(v)] == IF i = 0 THEN <<>>
                                             ELSE LET p == F[i-1] IN IF v[i] = m THEN Append(p, i - 1) ELSE p IN F[Len(v)]
PartialSums(v)  == LET F[i \in Idx(v)] == IF i = 1 THEN v[1] ELSE F[i-1] + v[i] IN [i \in Idx(v) |-> F[i]]
PartialProds(v) == LET F[i \in Idx(v)] == IF i = 1 THEN v[1] ELSE v[i] * F[i-1] IN [i \in Idx(v) |-> F[i]]

\* sort a copy, keep an element when it differs from its predecessor
AlgoUnique(v) == IF v = <<>> THEN v
                 ELSE LET s == Sorted(v)
                          F[i \in Idx(s)] == IF i = 1 THEN <<s[1]>>
                                             ELSE LET p == F[i-1] IN IF s[i] # s[i-1] THEN Append(p, s[i]) ELSE p
                      IN F[Len(s)]
AlgoIsUnique(v) == IF v = <<>> THEN TRUE
                   ELSE LET s == Sorted(v) IN ~\E i \in 2..Len(s) : s[i] = s[i-1]

\* while (j < size - 1 && s[j] < e) j++   (1-based, s non-empty)
Advance(s, j, e) == LET W[q \in Idx(s)] == IF q < Len(s) /\ s[q] < e THEN W[q+1] ELSE q IN W[j]

\* containsAll: both sorted, one forward scan
AlgoContainsAll(sx, sy) ==
  IF sy = <<>> THEN TRUE
  ELSE IF sx = <<>> THEN FALSE
  ELSE LET F[i \in 0..Len(sy)] ==
             IF i = 0 THEN <<1, TRUE>>
             ELSE LET p == F[i-1] IN
                  IF ~p[2] THEN p
                  ELSE IF i > 1 /\ sy[i] = sy[i-1] THEN p
                  ELSE LET j == Advance(sx, p[1], sy[i]) IN <<j, sx[j] = sy[i]>>
       IN F[Len(sy)][2]

\* diff: both sorted, distinct elements of sx not met in sy
AlgoDiff(sx, sy) ==
  LET F[i \in 0..Len(sx)] ==
        IF i = 0 THEN <<1, <<>> >>
        ELSE LET p == F[i-1] IN
             IF i > 1 /\ sx[i] = sx[i-1] THEN p
             ELSE IF sy = <<>> THEN <<1, Append(p[2], sx[i])>>
             ELSE LET j == Advance(sy, p[1], sx[i]) IN
                  IF sy[j] # sx[i] THEN <<j, Append(p[2], sx[i])>> ELSE <<j, p[2]>>
  IN F[Len(sx)][2]

\* push what is not there yet
ExtendLoop(u, v) == LET F[i \in 0..Len(v)] == IF i = 0 THEN u
                                              ELSE LET p == F[i-1] IN IF v[i] \in SetOf(p) THEN p ELSE Append(p, v[i])
                    IN F[Len(v)]

AlgoMedian2(v) == \* twice the value the double instantiation returns
  IF Len(v) = 0 THEN 0
  ELSE IF Len(v) = 1 THEN 2 * v[1]
  ELSE LET s == Sorted(v)  i == Len(v) \div 2 IN          \* i is the 0-based middle
       IF Len(v) % 2 = 0 THEN s[i] + s[i+1] ELSE 2 * s[i+1]

\* count = (|from - to| + tolerance) / by + 1 with tolerance by/100 for reals, none for integers
AlgoSeq(t, from, to, by) ==
  LET dist == AbsI(from - to)
      cnt == IF t = "int" THEN (dist \div by) + 1 ELSE ((100 * dist + by) \div (100 * by)) + 1
      step == IF from < to THEN by ELSE -by
  IN [i \in 1..cnt |-> from + (i - 1) * step]

\* sort descending with the original index attached; the rank (ascending) of the
\* entry at sorted position i (1-based) is n - i + 1
AlgoFdr(x) ==
  LET n == Len(x)
      byDesc == SortSeq([i \in Idx(x) |-> i], LAMBDA a, b : x[b] < x[a])
      rankOf(k) == n - (CHOOSE i \in Idx(x) : byDesc[i] = k) + 1
  IN [k \in Idx(x) |-> (FdrUnit * n * x[k]) \div rankOf(k)]

A(t, op, x, y, z, k) ==
  LET Ok(r)      == [o |-> "ok", c |-> "", r |-> r, X |-> x, Y |-> y, Z |-> z]
      OkX(r, nx) == [o |-> "ok", c |-> "", r |-> r, X |-> nx, Y |-> y, Z |-> z]
      Rs(cls)    == [o |-> "raise", c |-> cls, r |-> 0, X |-> x, Y |-> y, Z |-> z]
      n          == Len(x)
      L          == SubSeq(<<x, y, z>>, 1, IF k = <<>> THEN 0 ELSE k[1])
      mism       == Len(x) # Len(y)
  IN
  CASE op = "Sum"     -> Ok(Sum(x))
    [] op = "Prod"    -> Ok(Prod(x))
    [] op = "CumSum"  -> Ok(PartialSums(x))
    [] op = "CumProd" -> Ok(PartialProds(x))
    [] op = "Abs"     -> Ok(Map1(x, AbsI))
    [] op = "Sqr"     -> Ok(Map1(x, LAMBDA e : e * e))
    [] op = "Min"     -> IF n = 0 THEN Rs(EMPTY) ELSE Ok(ScanMin(x))
    [] op = "Max"     -> IF n = 0 THEN Rs(EMPTY) ELSE Ok(ScanMax(x))
    [] op = "WhichMin"    -> IF n = 0 THEN Rs(EMPTY) ELSE Ok(ScanWhichMin(x))
    [] op = "WhichMax"    -> IF n = 0 THEN Rs(EMPTY) ELSE Ok(ScanWhichMax(x))
    [] op = "WhichMinAll" -> IF n = 0 THEN Rs(EMPTY) ELSE Ok(ScanAll(x, ScanMin(x)))
    [] op = "WhichMaxAll" -> IF n = 0 THEN Rs(EMPTY) ELSE Ok(ScanAll(x, ScanMax(x)))
    [] op = "Range"   -> IF n = 0 THEN Rs(EMPTY) ELSE Ok(<<ScanMin(x), ScanMax(x)>>)
    [] op = "Order"   -> IF n = 0 THEN Rs(EMPTY)
                         ELSE Ok(SortSeq([i \in Idx(x) |-> i - 1], LAMBDA a, b : x[a + 1] < x[b + 1]))
    [] op = "Unique"  -> Ok(AlgoUnique(x))
    [] op = "IsUnique" -> Ok(AlgoIsUnique(x))
    [] op = "CountValues" -> LET ks == AlgoUnique(x) IN Ok([i \in Idx(ks) |-> <<ks[i], Count(x, ks[i])>>])
    [] op = "Median"  -> LET m2 == AlgoMedian2(x) IN
                         OkX(IF t = "double" THEN m2 ELSE TruncDiv(m2, 2), IF n >= 2 THEN Sorted(x) ELSE x)
    [] op = "Which"    -> LET p == ScanAll(x, k[1]) IN IF p = <<>> THEN Rs("ElementNotFoundException") ELSE Ok(p[1])
    [] op = "WhichAll" -> LET p == ScanAll(x, k[1]) IN IF p = <<>> THEN Rs("ElementNotFoundException") ELSE Ok(p)
    [] op = "Contains" -> Ok(\E i \in Idx(x) : x[i] = k[1])
    [] op = "Rep"      -> IF k[1] = 1 THEN Ok(x) ELSE IF k[1] = 0 THEN Ok(<<>>)
                          ELSE Ok([i \in 1..(n * k[1]) |-> x[((i - 1) % n) + 1]])
    [] op = "Seq"      -> Ok(AlgoSeq(t, k[1], k[2], k[3]))
    [] op \in {"Fill", "AndEq"} -> OkX(0, [i \in Idx(x) |-> k[1]])
    [] op \in {"AddS", "SAdd"}  -> Ok(Map1(x, LAMBDA e : e + k[1]))
    [] op = "SubS"     -> Ok(Map1(x, LAMBDA e : e - k[1]))
    [] op = "SSub"     -> Ok(Map1(x, LAMBDA e : k[1] - e))
    [] op \in {"MulS", "SMul"}  -> Ok(Map1(x, LAMBDA e : e * k[1]))
    [] op = "DivS"     -> Ok(Map1(x, LAMBDA e : TruncDiv(e, k[1])))
    [] op = "SDiv"     -> Ok(Map1(x, LAMBDA e : TruncDiv(k[1], e)))
    [] op = "AddEqS"   -> OkX(0, Map1(x, LAMBDA e : e + k[1]))
    [] op = "SubEqS"   -> OkX(0, Map1(x, LAMBDA e : e - k[1]))
    [] op = "MulEqS"   -> OkX(0, Map1(x, LAMBDA e : e * k[1]))
    [] op = "DivEqS"   -> OkX(0, Map1(x, LAMBDA e : TruncDiv(e, k[1])))
    \* mixed types: the header's additive forms convert the scalar first, the others work in the common type
    [] op \in {"AddSQ", "SAddQ"} -> Ok(Map1(x, LAMBDA e : e + TruncDiv(k[1], 4)))
    [] op = "SubSQ"    -> Ok(Map1(x, LAMBDA e : e - TruncDiv(k[1], 4)))
    [] op = "SSubQ"    -> Ok(Map1(x, LAMBDA e : TruncDiv(k[1], 4) - e))
    [] op \in {"MulSQ", "SMulQ"} -> Ok(Map1(x, LAMBDA e : TruncDiv(e * k[1], 4)))
    [] op = "DivSQ"    -> Ok(Map1(x, LAMBDA e : TruncDiv(4 * e, k[1])))
    [] op = "SDivQ"    -> Ok(Map1(x, LAMBDA e : TruncDiv(k[1], 4 * e)))
    [] op = "AddEqSQ"  -> OkX(0, Map1(x, LAMBDA e : TruncDiv(4 * e + k[1], 4)))
    [] op = "SubEqSQ"  -> OkX(0, Map1(x, LAMBDA e : TruncDiv(4 * e - k[1], 4)))
    [] op = "MulEqSQ"  -> OkX(0, Map1(x, LAMBDA e : TruncDiv(e * k[1], 4)))
    [] op = "DivEqSQ"  -> OkX(0, Map1(x, LAMBDA e : TruncDiv(4 * e, k[1])))
    \* the scalar is copied before the loop
    [] op = "AddEqE"   -> LET c0 == x[k[1] + 1] IN OkX(0, Map1(x, LAMBDA e : e + c0))
    [] op = "SubEqE"   -> LET c0 == x[k[1] + 1] IN OkX(0, Map1(x, LAMBDA e : e - c0))
    [] op = "MulEqE"   -> LET c0 == x[k[1] + 1] IN OkX(0, Map1(x, LAMBDA e : e * c0))
    [] op = "DivEqE"   -> LET c0 == x[k[1] + 1] IN OkX(0, Map1(x, LAMBDA e : TruncDiv(e, c0)))
    [] op = "Add" -> IF mism THEN Rs(DIM) ELSE Ok(Map2(x, y, Plus))
    [] op = "Sub" -> IF mism THEN Rs(DIM) ELSE Ok(Map2(x, y, Minus))
    [] op = "Mul" -> IF mism THEN Rs(DIM) ELSE Ok(Map2(x, y, Times))
    [] op = "Div" -> IF mism THEN Rs(DIM) ELSE Ok(Map2(x, y, TruncDiv))
    [] op \in {"SumProd", "Scalar"} ->
         IF mism THEN Rs(DIM)
         ELSE Ok(LET F[i \in 0..n] == IF i = 0 THEN 0 ELSE F[i-1] + y[i] * x[i] IN F[n])
    [] op = "Scalar3" -> IF Len(x) # Len(z) \/ Len(y) # Len(z) THEN Rs(DIM)
                         ELSE Ok(LET F[i \in 0..n] == IF i = 0 THEN 0 ELSE F[i-1] + x[i] * y[i] * z[i] IN F[n])
    [] op = "Kron"    -> LET n2 == Len(y) IN
                         Ok([p \in 1..(n * n2) |-> x[((p - 1) \div n2) + 1] * y[((p - 1) % n2) + 1]])
    [] op = "Union"   -> Ok(ExtendLoop(ExtendLoop(<<>>, x), y))
    [] op = "Inter"   -> Ok(SelectSeq(x, LAMBDA e : \E j \in Idx(y) : y[j] = e))
    [] op = "SameC"   -> Ok(IF mism THEN FALSE ELSE Sorted(x) = Sorted(y))
    [] op = "Same"    -> IF mism THEN Ok(FALSE)
                         ELSE [o |-> "ok", c |-> "", r |-> Sorted(x) = Sorted(y), X |-> Sorted(x), Y |-> Sorted(y), Z |-> z]
    [] op = "ContainsAll" ->
         [o |-> "ok", c |-> "", r |-> AlgoContainsAll(Sorted(x), Sorted(y)), X |-> Sorted(x), Y |-> Sorted(y), Z |-> z]
    [] op = "Extract" -> Ok([i \in Idx(y) |-> x[y[i] + 1]])
    [] op = "AddEq"   -> IF mism THEN Rs(DIM) ELSE OkX(0, Map2(x, y, Plus))
    [] op = "SubEq"   -> IF mism THEN Rs(DIM) ELSE OkX(0, Map2(x, y, Minus))
    [] op = "MulEq"   -> IF mism THEN Rs(DIM) ELSE OkX(0, Map2(x, y, Times))
    [] op = "DivEq"   -> IF mism THEN Rs(DIM) ELSE OkX(0, Map2(x, y, TruncDiv))
    [] op = "Append"  -> OkX(0, x \o y)
    [] op = "Prepend" -> OkX(0, y \o x)
    [] op = "Extend"  -> OkX(0, ExtendLoop(x, y))
    [] op = "Diff"    -> [o |-> "ok", c |-> "", r |-> 0, X |-> Sorted(x), Y |-> Sorted(y),
                          Z |-> z \o AlgoDiff(Sorted(x), Sorted(y))]
    [] op = "UnionAll" -> Ok(ExtendLoop(<<>>, ConcatAll(L)))
    [] op = "InterAll" -> IF Len(L) = 1 THEN Ok(x) ELSE IF Len(L) = 0 THEN Ok(<<>>)
                          ELSE Ok(SelectSeq(x, LAMBDA e : \A j \in 2..Len(L) : e \in SetOf(L[j])))
    [] op = "Concat"   -> Ok(ConcatAll(L))
    [] op = "Mean"    -> Ok((64 * Sum(x)) \div n)
    [] op = "Center"  -> Ok([i \in Idx(x) |-> (64 * (n * x[i] - Sum(x))) \div n])
    [] op \in {"CovB", "VarB"} ->
         LET w == IF op = "VarB" THEN x ELSE y IN
         IF Len(x) # Len(w) THEN Rs(DIM)
         ELSE Ok((4096 \div (n * n * n)) * Sum([i \in Idx(x) |-> (n * x[i] - Sum(x)) * (n * w[i] - Sum(w))]))
    [] op = "MeanX"   -> Ok(<<IF n \in PowersOfTwo THEN (64 * Sum(x)) \div n ELSE -2000000000, 0>>)
    [] op = "CenterX" -> Ok([i \in Idx(x) |-> IF n \in PowersOfTwo THEN (64 * (n * x[i] - Sum(x))) \div n ELSE -2000000000])
    [] op \in {"CovX", "VarX", "SdX"} ->
         LET yy == IF op = "CovX" THEN y ELSE x
             v == IF n \in ExactN THEN CovKnown(x, yy, k[1] = 1) ELSE <<FALSE, 0>>
             val == IF v[1] THEN v[2] ELSE -2000000000
         IN IF Len(x) # Len(yy) THEN Rs(DIM)
            ELSE IF op = "CovX" THEN Ok(<<val, 0>>)
            ELSE IF op = "VarX" THEN Ok(<<val, 0, 0>>)
            ELSE Ok(<<IF v[1] /\ ISqrt(v[2]) * ISqrt(v[2]) = v[2] THEN ISqrt(v[2]) ELSE -2000000000, 0>>)
    [] op = "CorX"    -> IF mism THEN Rs(DIM) ELSE Ok(<<0, 1>>)
    [] op = "MeanW"   -> IF mism THEN Rs(DIM) ELSE Ok(<<(16 * Dot(x, y)) \div Sum(y), 0>>)
    [] op \in {"CovW", "VarW"} ->
         LET yy == IF op = "VarW" THEN x ELSE y
             a  == IF op = "VarW" THEN y ELSE z
             W  == Sum(a)  N == CovNum(x, yy, a)
             val == IF k[1] = 0 THEN (4096 \div (W * W * W)) * N
                    ELSE IF (4096 * N) % (W * WQ(a)) = 0 THEN (4096 * N) \div (W * WQ(a)) ELSE -2000000000
         IN IF Len(x) # Len(yy) \/ Len(x) # Len(a) THEN Rs(DIM)
            ELSE IF op = "CovW" THEN Ok(<<val, 0>>) ELSE Ok(<<val, 0, 0, 1, 0>>)
    [] op = "Fdr"     -> Ok(AlgoFdr(x))
    [] op \in {"CovO", "CorO", "CosO", "NormWO", "MiO"} -> IF mism THEN Rs(DIM) ELSE Ok(0)

\* ----------------------------------------------------------------- the quantifier's domain
\* Calls outside it are not generated by the driver (integer division by zero,
\* positions beyond the end, a negative repeat count / non-positive step, the
\* non-dyadic cases of the moments): see notes/C07.md.
Pre(op, x, y, z, k) ==
  CASE op \in {"DivS", "DivEqS"} -> k[1] # 0
    [] op = "SDiv"               -> 0 \notin SetOf(x)
    [] op \in {"DivSQ", "DivEqSQ"} -> k[1] # 0
    [] op = "SDivQ"              -> 0 \notin SetOf(x)
    [] op \in {"AddEqE", "SubEqE", "MulEqE"} -> k[1] \in 0..(Len(x) - 1)
    [] op = "DivEqE"             -> k[1] \in 0..(Len(x) - 1) /\ x[k[1] + 1] # 0
    [] op \in {"Div", "DivEq"}   -> 0 \notin SetOf(y)
    [] op = "Rep"                -> k[1] >= 0
    [] op = "Seq"                -> k[3] >= 1
    [] op = "Extract"            -> \A i \in Idx(y) : y[i] \in 0..(Len(x) - 1)
    [] op \in {"UnionAll", "InterAll", "Concat"} -> k[1] \in 0..3
    [] op \in {"Mean", "Center"} -> Len(x) \in PowersOfTwo
    [] op = "VarB"               -> Len(x) \in {1, 2, 4, 8, 16}
    [] op = "CovB"               -> Len(x) # Len(y) \/ Len(x) \in {1, 2, 4, 8, 16}
    [] op = "Fdr"                -> Len(x) <= 10 /\ \A i \in Idx(x) : x[i] >= 0
    [] op \in {"MeanX", "CenterX"} -> Len(x) >= 1 /\ k[1] \in {0} \cup 20..40
    [] op \in {"CovX", "VarX", "SdX"} -> /\ k[2] \in {0} \cup 20..40 /\ Len(x) >= 1
                                         /\ k[1] = 1 => Len(x) >= 2
    [] op = "CorX"               -> k[1] \in {0} \cup 20..40 /\ Len(x) >= 2
    [] op \in {"MeanW", "VarW", "CovW"} ->
         LET a == IF op = "CovW" THEN z ELSE y
             u == IF op = "MeanW" THEN 0 ELSE k[1]
             nz == IF op = "MeanW" THEN k[1] ELSE k[2]
             pre == IF op = "MeanW" THEN k[2] ELSE k[3] IN
         /\ \A i \in Idx(a) : a[i] >= 0
         /\ Sum(a) \in {1, 2, 4, 8}
         /\ u = 1 => WQ(a) > 0
         /\ nz = 1 \/ pre = 1            \* weights not summing to one are only meaningful with normalisation
         /\ k[Len(k)] \in {0} \cup 20..40  \* last entry: exponent of the power-of-two offset added to the data
    [] OTHER                     -> TRUE


\* type-dependent part of the domain: a double vector meets an int scalar (k[1]/4 whole), and a real
\* quotient is only encodable when it is exact
QOps == {"AddSQ", "SAddQ", "SubSQ", "SSubQ", "MulSQ", "SMulQ", "DivSQ", "SDivQ", "AddEqSQ", "SubEqSQ", "MulEqSQ", "DivEqSQ"}
PreT(t, op, x, k) ==
  (op \in QOps /\ t = "double") =>
     /\ k[1] % 4 = 0
     /\ op \in {"DivSQ", "DivEqSQ"} => \A i \in Idx(x) : (4 * AbsI(x[i])) % AbsI(k[1]) = 0
     /\ op = "SDivQ" => \A i \in Idx(x) : AbsI(k[1]) % (4 * AbsI(x[i])) = 0

\* the transcription of op on these arguments is accepted by the judge
Conforms(t, op, x, y, z, k) ==
  LET a == A(t, op, x, y, z, k) IN J(t, op, x, y, z, k, a.o, a.c, a.r, a.X, a.Y, a.Z)
=============================================================================
