---- MODULE OptimizerTrace_TTrace_1790489335 ----
EXTENDS Sequences, TLCExt, Toolbox, OptimizerTrace, Naturals, TLC

_expression ==
    LET OptimizerTrace_TEExpression == INSTANCE OptimizerTrace_TEExpression
    IN OptimizerTrace_TEExpression!expression
----

_trace ==
    LET OptimizerTrace_TETrace == INSTANCE OptimizerTrace_TETrace
    IN OptimizerTrace_TETrace!trace
----

_inv ==
    ~(
        TLCGet("level") = Len(_TETrace)
        /\
        phase = ("Dead")
        /\
        badRaise = (FALSE)
        /\
        lo = (0)
        /\
        overrun = (FALSE)
        /\
        max = (0)
        /\
        held = (-1)
        /\
        cnt = (0)
        /\
        back = ("New")
        /\
        box = (<<<<FALSE, TRUE, FALSE>>>>)
        /\
        earlyOk = (FALSE)
        /\
        l = (45)
        /\
        pol = ("ignore")
        /\
        steps = (0)
        /\
        br = ([x |-> <<0, 2, 1>>, f |-> <<2, 0, 1>>])
        /\
        tol = (FALSE)
        /\
        obj = ([quad |-> FALSE, inact |-> TRUE, conv |-> TRUE])
        /\
        lateStep = (FALSE)
        /\
        infeas = (FALSE)
        /\
        rep = ([none |-> TRUE])
        /\
        s0 = (-1)
        /\
        pend = (0)
    )
----

_init ==
    /\ phase = _TETrace[1].phase
    /\ badRaise = _TETrace[1].badRaise
    /\ lo = _TETrace[1].lo
    /\ steps = _TETrace[1].steps
    /\ box = _TETrace[1].box
    /\ br = _TETrace[1].br
    /\ l = _TETrace[1].l
    /\ pol = _TETrace[1].pol
    /\ pend = _TETrace[1].pend
    /\ tol = _TETrace[1].tol
    /\ earlyOk = _TETrace[1].earlyOk
    /\ s0 = _TETrace[1].s0
    /\ infeas = _TETrace[1].infeas
    /\ back = _TETrace[1].back
    /\ rep = _TETrace[1].rep
    /\ cnt = _TETrace[1].cnt
    /\ max = _TETrace[1].max
    /\ overrun = _TETrace[1].overrun
    /\ obj = _TETrace[1].obj
    /\ lateStep = _TETrace[1].lateStep
    /\ held = _TETrace[1].held
----

_next ==
    /\ \E i,j \in DOMAIN _TETrace:
        /\ \/ /\ j = i + 1
              /\ i = TLCGet("level")
        /\ phase  = _TETrace[i].phase
        /\ phase' = _TETrace[j].phase
        /\ badRaise  = _TETrace[i].badRaise
        /\ badRaise' = _TETrace[j].badRaise
        /\ lo  = _TETrace[i].lo
        /\ lo' = _TETrace[j].lo
        /\ steps  = _TETrace[i].steps
        /\ steps' = _TETrace[j].steps
        /\ box  = _TETrace[i].box
        /\ box' = _TETrace[j].box
        /\ br  = _TETrace[i].br
        /\ br' = _TETrace[j].br
        /\ l  = _TETrace[i].l
        /\ l' = _TETrace[j].l
        /\ pol  = _TETrace[i].pol
        /\ pol' = _TETrace[j].pol
        /\ pend  = _TETrace[i].pend
        /\ pend' = _TETrace[j].pend
        /\ tol  = _TETrace[i].tol
        /\ tol' = _TETrace[j].tol
        /\ earlyOk  = _TETrace[i].earlyOk
        /\ earlyOk' = _TETrace[j].earlyOk
        /\ s0  = _TETrace[i].s0
        /\ s0' = _TETrace[j].s0
        /\ infeas  = _TETrace[i].infeas
        /\ infeas' = _TETrace[j].infeas
        /\ back  = _TETrace[i].back
        /\ back' = _TETrace[j].back
        /\ rep  = _TETrace[i].rep
        /\ rep' = _TETrace[j].rep
        /\ cnt  = _TETrace[i].cnt
        /\ cnt' = _TETrace[j].cnt
        /\ max  = _TETrace[i].max
        /\ max' = _TETrace[j].max
        /\ overrun  = _TETrace[i].overrun
        /\ overrun' = _TETrace[j].overrun
        /\ obj  = _TETrace[i].obj
        /\ obj' = _TETrace[j].obj
        /\ lateStep  = _TETrace[i].lateStep
        /\ lateStep' = _TETrace[j].lateStep
        /\ held  = _TETrace[i].held
        /\ held' = _TETrace[j].held

\* Uncomment the ASSUME below to write the states of the error trace
\* to the given file in Json format. Note that you can pass any tuple
\* to `JsonSerialize`. For example, a sub-sequence of _TETrace.
    \* ASSUME
    \*     LET J == INSTANCE Json
    \*         IN J!JsonSerialize("OptimizerTrace_TTrace_1790489335.json", _TETrace)

=============================================================================

 Note that you can extract this module `OptimizerTrace_TEExpression`
  to a dedicated file to reuse `expression` (the module in the 
  dedicated `OptimizerTrace_TEExpression.tla` file takes precedence 
  over the module `OptimizerTrace_TEExpression` below).

---- MODULE OptimizerTrace_TEExpression ----
EXTENDS Sequences, TLCExt, Toolbox, OptimizerTrace, Naturals, TLC

expression == 
    [
        \* To hide variables of the `OptimizerTrace` spec from the error trace,
        \* remove the variables below.  The trace will be written in the order
        \* of the fields of this record.
        phase |-> phase
        ,badRaise |-> badRaise
        ,lo |-> lo
        ,steps |-> steps
        ,box |-> box
        ,br |-> br
        ,l |-> l
        ,pol |-> pol
        ,pend |-> pend
        ,tol |-> tol
        ,earlyOk |-> earlyOk
        ,s0 |-> s0
        ,infeas |-> infeas
        ,back |-> back
        ,rep |-> rep
        ,cnt |-> cnt
        ,max |-> max
        ,overrun |-> overrun
        ,obj |-> obj
        ,lateStep |-> lateStep
        ,held |-> held
        
        \* Put additional constant-, state-, and action-level expressions here:
        \* ,_stateNumber |-> _TEPosition
        \* ,_phaseUnchanged |-> phase = phase'
        
        \* Format the `phase` variable as Json value.
        \* ,_phaseJson |->
        \*     LET J == INSTANCE Json
        \*     IN J!ToJson(phase)
        
        \* Lastly, you may build expressions over arbitrary sets of states by
        \* leveraging the _TETrace operator.  For example, this is how to
        \* count the number of times a spec variable changed up to the current
        \* state in the trace.
        \* ,_phaseModCount |->
        \*     LET F[s \in DOMAIN _TETrace] ==
        \*         IF s = 1 THEN 0
        \*         ELSE IF _TETrace[s].phase # _TETrace[s-1].phase
        \*             THEN 1 + F[s-1] ELSE F[s-1]
        \*     IN F[_TEPosition - 1]
    ]

=============================================================================



Parsing and semantic processing can take forever if the trace below is long.
 In this case, it is advised to uncomment the module below to deserialize the
 trace from a generated binary file.

\*
\*---- MODULE OptimizerTrace_TETrace ----
\*EXTENDS IOUtils, OptimizerTrace, TLC
\*
\*trace == IODeserialize("OptimizerTrace_TTrace_1790489335.bin", TRUE)
\*
\*=============================================================================
\*

---- MODULE OptimizerTrace_TETrace ----
EXTENDS OptimizerTrace, TLC

trace == 
    <<
    ([phase |-> "Dead",badRaise |-> FALSE,lo |-> -1,overrun |-> FALSE,max |-> 0,held |-> -1,cnt |-> 0,back |-> "New",box |-> <<>>,earlyOk |-> FALSE,l |-> 1,pol |-> "ignore",steps |-> 0,br |-> [none |-> TRUE],tol |-> FALSE,obj |-> [quad |-> FALSE, inact |-> FALSE, conv |-> FALSE],lateStep |-> FALSE,infeas |-> FALSE,rep |-> [none |-> TRUE],s0 |-> -1,pend |-> 0]),
    ([phase |-> "New",badRaise |-> FALSE,lo |-> -1,overrun |-> FALSE,max |-> 0,held |-> -1,cnt |-> 0,back |-> "New",box |-> <<<<FALSE, FALSE, TRUE>>>>,earlyOk |-> FALSE,l |-> 2,pol |-> "ignore",steps |-> 0,br |-> [none |-> TRUE],tol |-> FALSE,obj |-> [quad |-> FALSE, inact |-> TRUE, conv |-> TRUE],lateStep |-> FALSE,infeas |-> FALSE,rep |-> [none |-> TRUE],s0 |-> -1,pend |-> 0]),
    ([phase |-> "Bracketing",badRaise |-> FALSE,lo |-> -1,overrun |-> FALSE,max |-> 0,held |-> -1,cnt |-> 0,back |-> "New",box |-> <<<<FALSE, FALSE, TRUE>>>>,earlyOk |-> FALSE,l |-> 3,pol |-> "ignore",steps |-> 0,br |-> [none |-> TRUE],tol |-> FALSE,obj |-> [quad |-> FALSE, inact |-> TRUE, conv |-> TRUE],lateStep |-> FALSE,infeas |-> FALSE,rep |-> [none |-> TRUE],s0 |-> -1,pend |-> 0]),
    ([phase |-> "Bracketing",badRaise |-> FALSE,lo |-> 0,overrun |-> FALSE,max |-> 0,held |-> -1,cnt |-> 0,back |-> "New",box |-> <<<<FALSE, FALSE, TRUE>>>>,earlyOk |-> FALSE,l |-> 4,pol |-> "ignore",steps |-> 0,br |-> [none |-> TRUE],tol |-> FALSE,obj |-> [quad |-> FALSE, inact |-> TRUE, conv |-> TRUE],lateStep |-> FALSE,infeas |-> FALSE,rep |-> [none |-> TRUE],s0 |-> -1,pend |-> 3]),
    ([phase |-> "Dead",badRaise |-> FALSE,lo |-> 0,overrun |-> FALSE,max |-> 0,held |-> -1,cnt |-> 0,back |-> "New",box |-> <<<<FALSE, FALSE, TRUE>>>>,earlyOk |-> FALSE,l |-> 5,pol |-> "ignore",steps |-> 0,br |-> [x |-> <<0, 1, 2>>, f |-> <<1, 0, 2>>],tol |-> FALSE,obj |-> [quad |-> FALSE, inact |-> TRUE, conv |-> TRUE],lateStep |-> FALSE,infeas |-> FALSE,rep |-> [none |-> TRUE],s0 |-> -1,pend |-> 0]),
    ([phase |-> "New",badRaise |-> FALSE,lo |-> -1,overrun |-> FALSE,max |-> 0,held |-> -1,cnt |-> 0,back |-> "New",box |-> <<<<FALSE, TRUE, FALSE>>>>,earlyOk |-> FALSE,l |-> 6,pol |-> "ignore",steps |-> 0,br |-> [none |-> TRUE],tol |-> FALSE,obj |-> [quad |-> FALSE, inact |-> TRUE, conv |-> TRUE],lateStep |-> FALSE,infeas |-> FALSE,rep |-> [none |-> TRUE],s0 |-> -1,pend |-> 0]),
    ([phase |-> "Bracketing",badRaise |-> FALSE,lo |-> -1,overrun |-> FALSE,max |-> 0,held |-> -1,cnt |-> 0,back |-> "New",box |-> <<<<FALSE, TRUE, FALSE>>>>,earlyOk |-> FALSE,l |-> 7,pol |-> "ignore",steps |-> 0,br |-> [none |-> TRUE],tol |-> FALSE,obj |-> [quad |-> FALSE, inact |-> TRUE, conv |-> TRUE],lateStep |-> FALSE,infeas |-> FALSE,rep |-> [none |-> TRUE],s0 |-> -1,pend |-> 0]),
    ([phase |-> "Bracketing",badRaise |-> FALSE,lo |-> 0,overrun |-> FALSE,max |-> 0,held |-> -1,cnt |-> 0,back |-> "New",box |-> <<<<FALSE, TRUE, FALSE>>>>,earlyOk |-> FALSE,l |-> 8,pol |-> "ignore",steps |-> 0,br |-> [none |-> TRUE],tol |-> FALSE,obj |-> [quad |-> FALSE, inact |-> TRUE, conv |-> TRUE],lateStep |-> FALSE,infeas |-> FALSE,rep |-> [none |-> TRUE],s0 |-> -1,pend |-> 6]),
    ([phase |-> "Dead",badRaise |-> FALSE,lo |-> 0,overrun |-> FALSE,max |-> 0,held |-> -1,cnt |-> 0,back |-> "New",box |-> <<<<FALSE, TRUE, FALSE>>>>,earlyOk |-> FALSE,l |-> 9,pol |-> "ignore",steps |-> 0,br |-> [x |-> <<2, 0, 1>>, f |-> <<3, 1, 0>>],tol |-> FALSE,obj |-> [quad |-> FALSE, inact |-> TRUE, conv |-> TRUE],lateStep |-> FALSE,infeas |-> FALSE,rep |-> [none |-> TRUE],s0 |-> -1,pend |-> 0]),
    ([phase |-> "New",badRaise |-> FALSE,lo |-> -1,overrun |-> FALSE,max |-> 0,held |-> -1,cnt |-> 0,back |-> "New",box |-> <<<<FALSE, TRUE, TRUE>>>>,earlyOk |-> FALSE,l |-> 10,pol |-> "ignore",steps |-> 0,br |-> [none |-> TRUE],tol |-> FALSE,obj |-> [quad |-> TRUE, inact |-> TRUE, conv |-> TRUE],lateStep |-> FALSE,infeas |-> FALSE,rep |-> [none |-> TRUE],s0 |-> -1,pend |-> 0]),
    ([phase |-> "Bracketing",badRaise |-> FALSE,lo |-> -1,overrun |-> FALSE,max |-> 0,held |-> -1,cnt |-> 0,back |-> "New",box |-> <<<<FALSE, TRUE, TRUE>>>>,earlyOk |-> FALSE,l |-> 11,pol |-> "ignore",steps |-> 0,br |-> [none |-> TRUE],tol |-> FALSE,obj |-> [quad |-> TRUE, inact |-> TRUE, conv |-> TRUE],lateStep |-> FALSE,infeas |-> FALSE,rep |-> [none |-> TRUE],s0 |-> -1,pend |-> 0]),
    ([phase |-> "Bracketing",badRaise |-> FALSE,lo |-> 0,overrun |-> FALSE,max |-> 0,held |-> -1,cnt |-> 0,back |-> "New",box |-> <<<<FALSE, TRUE, TRUE>>>>,earlyOk |-> FALSE,l |-> 12,pol |-> "ignore",steps |-> 0,br |-> [none |-> TRUE],tol |-> FALSE,obj |-> [quad |-> TRUE, inact |-> TRUE, conv |-> TRUE],lateStep |-> FALSE,infeas |-> FALSE,rep |-> [none |-> TRUE],s0 |-> -1,pend |-> 10]),
    ([phase |-> "Dead",badRaise |-> FALSE,lo |-> 0,overrun |-> FALSE,max |-> 0,held |-> -1,cnt |-> 0,back |-> "New",box |-> <<<<FALSE, TRUE, TRUE>>>>,earlyOk |-> FALSE,l |-> 13,pol |-> "ignore",steps |-> 0,br |-> [x |-> <<2, 0, 1>>, f |-> <<2, 7, 0>>],tol |-> FALSE,obj |-> [quad |-> TRUE, inact |-> TRUE, conv |-> TRUE],lateStep |-> FALSE,infeas |-> FALSE,rep |-> [none |-> TRUE],s0 |-> -1,pend |-> 0]),
    ([phase |-> "New",badRaise |-> FALSE,lo |-> -1,overrun |-> FALSE,max |-> 0,held |-> -1,cnt |-> 0,back |-> "New",box |-> <<<<FALSE, FALSE, FALSE>>>>,earlyOk |-> FALSE,l |-> 14,pol |-> "ignore",steps |-> 0,br |-> [none |-> TRUE],tol |-> FALSE,obj |-> [quad |-> FALSE, inact |-> TRUE, conv |-> TRUE],lateStep |-> FALSE,infeas |-> FALSE,rep |-> [none |-> TRUE],s0 |-> -1,pend |-> 0]),
    ([phase |-> "Bracketing",badRaise |-> FALSE,lo |-> -1,overrun |-> FALSE,max |-> 0,held |-> -1,cnt |-> 0,back |-> "New",box |-> <<<<FALSE, FALSE, FALSE>>>>,earlyOk |-> FALSE,l |-> 15,pol |-> "ignore",steps |-> 0,br |-> [none |-> TRUE],tol |-> FALSE,obj |-> [quad |-> FALSE, inact |-> TRUE, conv |-> TRUE],lateStep |-> FALSE,infeas |-> FALSE,rep |-> [none |-> TRUE],s0 |-> -1,pend |-> 0]),
    ([phase |-> "Bracketing",badRaise |-> FALSE,lo |-> 0,overrun |-> FALSE,max |-> 0,held |-> -1,cnt |-> 0,back |-> "New",box |-> <<<<FALSE, FALSE, FALSE>>>>,earlyOk |-> FALSE,l |-> 16,pol |-> "ignore",steps |-> 0,br |-> [none |-> TRUE],tol |-> FALSE,obj |-> [quad |-> FALSE, inact |-> TRUE, conv |-> TRUE],lateStep |-> FALSE,infeas |-> FALSE,rep |-> [none |-> TRUE],s0 |-> -1,pend |-> 7]),
    ([phase |-> "Dead",badRaise |-> FALSE,lo |-> 0,overrun |-> FALSE,max |-> 0,held |-> -1,cnt |-> 0,back |-> "New",box |-> <<<<FALSE, FALSE, FALSE>>>>,earlyOk |-> FALSE,l |-> 17,pol |-> "ignore",steps |-> 0,br |-> [x |-> <<2, 0, 1>>, f |-> <<5, 2, 0>>],tol |-> FALSE,obj |-> [quad |-> FALSE, inact |-> TRUE, conv |-> TRUE],lateStep |-> FALSE,infeas |-> FALSE,rep |-> [none |-> TRUE],s0 |-> -1,pend |-> 0]),
    ([phase |-> "New",badRaise |-> FALSE,lo |-> -1,overrun |-> FALSE,max |-> 0,held |-> -1,cnt |-> 0,back |-> "New",box |-> <<<<TRUE, TRUE, FALSE>>>>,earlyOk |-> FALSE,l |-> 18,pol |-> "auto",steps |-> 0,br |-> [none |-> TRUE],tol |-> FALSE,obj |-> [quad |-> FALSE, inact |-> TRUE, conv |-> TRUE],lateStep |-> FALSE,infeas |-> FALSE,rep |-> [none |-> TRUE],s0 |-> -1,pend |-> 0]),
    ([phase |-> "Bracketing",badRaise |-> FALSE,lo |-> -1,overrun |-> FALSE,max |-> 0,held |-> -1,cnt |-> 0,back |-> "New",box |-> <<<<TRUE, TRUE, FALSE>>>>,earlyOk |-> FALSE,l |-> 19,pol |-> "auto",steps |-> 0,br |-> [none |-> TRUE],tol |-> FALSE,obj |-> [quad |-> FALSE, inact |-> TRUE, conv |-> TRUE],lateStep |-> FALSE,infeas |-> FALSE,rep |-> [none |-> TRUE],s0 |-> -1,pend |-> 0]),
    ([phase |-> "Bracketing",badRaise |-> FALSE,lo |-> 0,overrun |-> FALSE,max |-> 0,held |-> -1,cnt |-> 0,back |-> "New",box |-> <<<<TRUE, TRUE, FALSE>>>>,earlyOk |-> FALSE,l |-> 20,pol |-> "auto",steps |-> 0,br |-> [none |-> TRUE],tol |-> FALSE,obj |-> [quad |-> FALSE, inact |-> TRUE, conv |-> TRUE],lateStep |-> FALSE,infeas |-> FALSE,rep |-> [none |-> TRUE],s0 |-> -1,pend |-> 11]),
    ([phase |-> "Dead",badRaise |-> FALSE,lo |-> 0,overrun |-> FALSE,max |-> 0,held |-> -1,cnt |-> 0,back |-> "New",box |-> <<<<TRUE, TRUE, FALSE>>>>,earlyOk |-> FALSE,l |-> 21,pol |-> "auto",steps |-> 0,br |-> [x |-> <<0, 1, 0>>, f |-> <<0, 8, 0>>],tol |-> FALSE,obj |-> [quad |-> FALSE, inact |-> TRUE, conv |-> TRUE],lateStep |-> FALSE,infeas |-> FALSE,rep |-> [none |-> TRUE],s0 |-> -1,pend |-> 0]),
    ([phase |-> "New",badRaise |-> FALSE,lo |-> -1,overrun |-> FALSE,max |-> 0,held |-> -1,cnt |-> 0,back |-> "New",box |-> <<<<FALSE, TRUE, FALSE>>>>,earlyOk |-> FALSE,l |-> 22,pol |-> "ignore",steps |-> 0,br |-> [none |-> TRUE],tol |-> FALSE,obj |-> [quad |-> FALSE, inact |-> TRUE, conv |-> TRUE],lateStep |-> FALSE,infeas |-> FALSE,rep |-> [none |-> TRUE],s0 |-> -1,pend |-> 0]),
    ([phase |-> "Bracketing",badRaise |-> FALSE,lo |-> -1,overrun |-> FALSE,max |-> 0,held |-> -1,cnt |-> 0,back |-> "New",box |-> <<<<FALSE, TRUE, FALSE>>>>,earlyOk |-> FALSE,l |-> 23,pol |-> "ignore",steps |-> 0,br |-> [none |-> TRUE],tol |-> FALSE,obj |-> [quad |-> FALSE, inact |-> TRUE, conv |-> TRUE],lateStep |-> FALSE,infeas |-> FALSE,rep |-> [none |-> TRUE],s0 |-> -1,pend |-> 0]),
    ([phase |-> "Bracketing",badRaise |-> FALSE,lo |-> 0,overrun |-> FALSE,max |-> 0,held |-> -1,cnt |-> 0,back |-> "New",box |-> <<<<FALSE, TRUE, FALSE>>>>,earlyOk |-> FALSE,l |-> 24,pol |-> "ignore",steps |-> 0,br |-> [none |-> TRUE],tol |-> FALSE,obj |-> [quad |-> FALSE, inact |-> TRUE, conv |-> TRUE],lateStep |-> FALSE,infeas |-> FALSE,rep |-> [none |-> TRUE],s0 |-> -1,pend |-> 13]),
    ([phase |-> "Dead",badRaise |-> FALSE,lo |-> 0,overrun |-> FALSE,max |-> 0,held |-> -1,cnt |-> 0,back |-> "New",box |-> <<<<FALSE, TRUE, FALSE>>>>,earlyOk |-> FALSE,l |-> 25,pol |-> "ignore",steps |-> 0,br |-> [x |-> <<2, 0, 1>>, f |-> <<2, 10, 0>>],tol |-> FALSE,obj |-> [quad |-> FALSE, inact |-> TRUE, conv |-> TRUE],lateStep |-> FALSE,infeas |-> FALSE,rep |-> [none |-> TRUE],s0 |-> -1,pend |-> 0]),
    ([phase |-> "New",badRaise |-> FALSE,lo |-> -1,overrun |-> FALSE,max |-> 0,held |-> -1,cnt |-> 0,back |-> "New",box |-> <<<<TRUE, TRUE, FALSE>>>>,earlyOk |-> FALSE,l |-> 26,pol |-> "auto",steps |-> 0,br |-> [none |-> TRUE],tol |-> FALSE,obj |-> [quad |-> FALSE, inact |-> TRUE, conv |-> TRUE],lateStep |-> FALSE,infeas |-> FALSE,rep |-> [none |-> TRUE],s0 |-> -1,pend |-> 0]),
    ([phase |-> "Bracketing",badRaise |-> FALSE,lo |-> -1,overrun |-> FALSE,max |-> 0,held |-> -1,cnt |-> 0,back |-> "New",box |-> <<<<TRUE, TRUE, FALSE>>>>,earlyOk |-> FALSE,l |-> 27,pol |-> "auto",steps |-> 0,br |-> [none |-> TRUE],tol |-> FALSE,obj |-> [quad |-> FALSE, inact |-> TRUE, conv |-> TRUE],lateStep |-> FALSE,infeas |-> FALSE,rep |-> [none |-> TRUE],s0 |-> -1,pend |-> 0]),
    ([phase |-> "Bracketing",badRaise |-> FALSE,lo |-> 0,overrun |-> FALSE,max |-> 0,held |-> -1,cnt |-> 0,back |-> "New",box |-> <<<<TRUE, TRUE, FALSE>>>>,earlyOk |-> FALSE,l |-> 28,pol |-> "auto",steps |-> 0,br |-> [none |-> TRUE],tol |-> FALSE,obj |-> [quad |-> FALSE, inact |-> TRUE, conv |-> TRUE],lateStep |-> FALSE,infeas |-> FALSE,rep |-> [none |-> TRUE],s0 |-> -1,pend |-> 5]),
    ([phase |-> "Dead",badRaise |-> FALSE,lo |-> 0,overrun |-> FALSE,max |-> 0,held |-> -1,cnt |-> 0,back |-> "New",box |-> <<<<TRUE, TRUE, FALSE>>>>,earlyOk |-> FALSE,l |-> 29,pol |-> "auto",steps |-> 0,br |-> [x |-> <<2, 1, 0>>, f |-> <<1, 0, 4>>],tol |-> FALSE,obj |-> [quad |-> FALSE, inact |-> TRUE, conv |-> TRUE],lateStep |-> FALSE,infeas |-> FALSE,rep |-> [none |-> TRUE],s0 |-> -1,pend |-> 0]),
    ([phase |-> "New",badRaise |-> FALSE,lo |-> -1,overrun |-> FALSE,max |-> 0,held |-> -1,cnt |-> 0,back |-> "New",box |-> <<<<FALSE, TRUE, TRUE>>>>,earlyOk |-> FALSE,l |-> 30,pol |-> "ignore",steps |-> 0,br |-> [none |-> TRUE],tol |-> FALSE,obj |-> [quad |-> TRUE, inact |-> TRUE, conv |-> TRUE],lateStep |-> FALSE,infeas |-> FALSE,rep |-> [none |-> TRUE],s0 |-> -1,pend |-> 0]),
    ([phase |-> "Bracketing",badRaise |-> FALSE,lo |-> -1,overrun |-> FALSE,max |-> 0,held |-> -1,cnt |-> 0,back |-> "New",box |-> <<<<FALSE, TRUE, TRUE>>>>,earlyOk |-> FALSE,l |-> 31,pol |-> "ignore",steps |-> 0,br |-> [none |-> TRUE],tol |-> FALSE,obj |-> [quad |-> TRUE, inact |-> TRUE, conv |-> TRUE],lateStep |-> FALSE,infeas |-> FALSE,rep |-> [none |-> TRUE],s0 |-> -1,pend |-> 0]),
    ([phase |-> "Bracketing",badRaise |-> FALSE,lo |-> 0,overrun |-> FALSE,max |-> 0,held |-> -1,cnt |-> 0,back |-> "New",box |-> <<<<FALSE, TRUE, TRUE>>>>,earlyOk |-> FALSE,l |-> 32,pol |-> "ignore",steps |-> 0,br |-> [none |-> TRUE],tol |-> FALSE,obj |-> [quad |-> TRUE, inact |-> TRUE, conv |-> TRUE],lateStep |-> FALSE,infeas |-> FALSE,rep |-> [none |-> TRUE],s0 |-> -1,pend |-> 16]),
    ([phase |-> "Dead",badRaise |-> FALSE,lo |-> 0,overrun |-> FALSE,max |-> 0,held |-> -1,cnt |-> 0,back |-> "New",box |-> <<<<FALSE, TRUE, TRUE>>>>,earlyOk |-> FALSE,l |-> 33,pol |-> "ignore",steps |-> 0,br |-> [x |-> <<0, 1, 1>>, f |-> <<14, 0, 0>>],tol |-> FALSE,obj |-> [quad |-> TRUE, inact |-> TRUE, conv |-> TRUE],lateStep |-> FALSE,infeas |-> FALSE,rep |-> [none |-> TRUE],s0 |-> -1,pend |-> 0]),
    ([phase |-> "New",badRaise |-> FALSE,lo |-> -1,overrun |-> FALSE,max |-> 0,held |-> -1,cnt |-> 0,back |-> "New",box |-> <<<<FALSE, TRUE, FALSE>>>>,earlyOk |-> FALSE,l |-> 34,pol |-> "ignore",steps |-> 0,br |-> [none |-> TRUE],tol |-> FALSE,obj |-> [quad |-> FALSE, inact |-> TRUE, conv |-> TRUE],lateStep |-> FALSE,infeas |-> FALSE,rep |-> [none |-> TRUE],s0 |-> -1,pend |-> 0]),
    ([phase |-> "Bracketing",badRaise |-> FALSE,lo |-> -1,overrun |-> FALSE,max |-> 0,held |-> -1,cnt |-> 0,back |-> "New",box |-> <<<<FALSE, TRUE, FALSE>>>>,earlyOk |-> FALSE,l |-> 35,pol |-> "ignore",steps |-> 0,br |-> [none |-> TRUE],tol |-> FALSE,obj |-> [quad |-> FALSE, inact |-> TRUE, conv |-> TRUE],lateStep |-> FALSE,infeas |-> FALSE,rep |-> [none |-> TRUE],s0 |-> -1,pend |-> 0]),
    ([phase |-> "Bracketing",badRaise |-> FALSE,lo |-> 0,overrun |-> FALSE,max |-> 0,held |-> -1,cnt |-> 0,back |-> "New",box |-> <<<<FALSE, TRUE, FALSE>>>>,earlyOk |-> FALSE,l |-> 36,pol |-> "ignore",steps |-> 0,br |-> [none |-> TRUE],tol |-> FALSE,obj |-> [quad |-> FALSE, inact |-> TRUE, conv |-> TRUE],lateStep |-> FALSE,infeas |-> FALSE,rep |-> [none |-> TRUE],s0 |-> -1,pend |-> 20]),
    ([phase |-> "Dead",badRaise |-> FALSE,lo |-> 0,overrun |-> FALSE,max |-> 0,held |-> -1,cnt |-> 0,back |-> "New",box |-> <<<<FALSE, TRUE, FALSE>>>>,earlyOk |-> FALSE,l |-> 37,pol |-> "ignore",steps |-> 0,br |-> [x |-> <<0, 2, 1>>, f |-> <<13, 18, 0>>],tol |-> FALSE,obj |-> [quad |-> FALSE, inact |-> TRUE, conv |-> TRUE],lateStep |-> FALSE,infeas |-> FALSE,rep |-> [none |-> TRUE],s0 |-> -1,pend |-> 0]),
    ([phase |-> "New",badRaise |-> FALSE,lo |-> -1,overrun |-> FALSE,max |-> 0,held |-> -1,cnt |-> 0,back |-> "New",box |-> <<<<TRUE, FALSE, FALSE>>>>,earlyOk |-> FALSE,l |-> 38,pol |-> "auto",steps |-> 0,br |-> [none |-> TRUE],tol |-> FALSE,obj |-> [quad |-> FALSE, inact |-> TRUE, conv |-> TRUE],lateStep |-> FALSE,infeas |-> FALSE,rep |-> [none |-> TRUE],s0 |-> -1,pend |-> 0]),
    ([phase |-> "Bracketing",badRaise |-> FALSE,lo |-> -1,overrun |-> FALSE,max |-> 0,held |-> -1,cnt |-> 0,back |-> "New",box |-> <<<<TRUE, FALSE, FALSE>>>>,earlyOk |-> FALSE,l |-> 39,pol |-> "auto",steps |-> 0,br |-> [none |-> TRUE],tol |-> FALSE,obj |-> [quad |-> FALSE, inact |-> TRUE, conv |-> TRUE],lateStep |-> FALSE,infeas |-> FALSE,rep |-> [none |-> TRUE],s0 |-> -1,pend |-> 0]),
    ([phase |-> "Bracketing",badRaise |-> FALSE,lo |-> 0,overrun |-> FALSE,max |-> 0,held |-> -1,cnt |-> 0,back |-> "New",box |-> <<<<TRUE, FALSE, FALSE>>>>,earlyOk |-> FALSE,l |-> 40,pol |-> "auto",steps |-> 0,br |-> [none |-> TRUE],tol |-> FALSE,obj |-> [quad |-> FALSE, inact |-> TRUE, conv |-> TRUE],lateStep |-> FALSE,infeas |-> FALSE,rep |-> [none |-> TRUE],s0 |-> -1,pend |-> 16]),
    ([phase |-> "Dead",badRaise |-> FALSE,lo |-> 0,overrun |-> FALSE,max |-> 0,held |-> -1,cnt |-> 0,back |-> "New",box |-> <<<<TRUE, FALSE, FALSE>>>>,earlyOk |-> FALSE,l |-> 41,pol |-> "auto",steps |-> 0,br |-> [x |-> <<0, 2, 1>>, f |-> <<4, 13, 0>>],tol |-> FALSE,obj |-> [quad |-> FALSE, inact |-> TRUE, conv |-> TRUE],lateStep |-> FALSE,infeas |-> FALSE,rep |-> [none |-> TRUE],s0 |-> -1,pend |-> 0]),
    ([phase |-> "New",badRaise |-> FALSE,lo |-> -1,overrun |-> FALSE,max |-> 0,held |-> -1,cnt |-> 0,back |-> "New",box |-> <<<<FALSE, TRUE, FALSE>>>>,earlyOk |-> FALSE,l |-> 42,pol |-> "ignore",steps |-> 0,br |-> [none |-> TRUE],tol |-> FALSE,obj |-> [quad |-> FALSE, inact |-> TRUE, conv |-> TRUE],lateStep |-> FALSE,infeas |-> FALSE,rep |-> [none |-> TRUE],s0 |-> -1,pend |-> 0]),
    ([phase |-> "Bracketing",badRaise |-> FALSE,lo |-> -1,overrun |-> FALSE,max |-> 0,held |-> -1,cnt |-> 0,back |-> "New",box |-> <<<<FALSE, TRUE, FALSE>>>>,earlyOk |-> FALSE,l |-> 43,pol |-> "ignore",steps |-> 0,br |-> [none |-> TRUE],tol |-> FALSE,obj |-> [quad |-> FALSE, inact |-> TRUE, conv |-> TRUE],lateStep |-> FALSE,infeas |-> FALSE,rep |-> [none |-> TRUE],s0 |-> -1,pend |-> 0]),
    ([phase |-> "Bracketing",badRaise |-> FALSE,lo |-> 0,overrun |-> FALSE,max |-> 0,held |-> -1,cnt |-> 0,back |-> "New",box |-> <<<<FALSE, TRUE, FALSE>>>>,earlyOk |-> FALSE,l |-> 44,pol |-> "ignore",steps |-> 0,br |-> [none |-> TRUE],tol |-> FALSE,obj |-> [quad |-> FALSE, inact |-> TRUE, conv |-> TRUE],lateStep |-> FALSE,infeas |-> FALSE,rep |-> [none |-> TRUE],s0 |-> -1,pend |-> 5]),
    ([phase |-> "Dead",badRaise |-> FALSE,lo |-> 0,overrun |-> FALSE,max |-> 0,held |-> -1,cnt |-> 0,back |-> "New",box |-> <<<<FALSE, TRUE, FALSE>>>>,earlyOk |-> FALSE,l |-> 45,pol |-> "ignore",steps |-> 0,br |-> [x |-> <<0, 2, 1>>, f |-> <<2, 0, 1>>],tol |-> FALSE,obj |-> [quad |-> FALSE, inact |-> TRUE, conv |-> TRUE],lateStep |-> FALSE,infeas |-> FALSE,rep |-> [none |-> TRUE],s0 |-> -1,pend |-> 0])
    >>
----


=============================================================================

---- CONFIG OptimizerTrace_TTrace_1790489335 ----
CONSTANTS
    Budgets = { }
    Pols = { }
    Objs = { }
    MaxRank = 0
    MaxInner = 0
    Boxes = { }
    KConv = 1000000

INVARIANT
    _inv

CHECK_DEADLOCK
    \* CHECK_DEADLOCK off because of PROPERTY or INVARIANT above.
    FALSE

INIT
    _init

NEXT
    _next

CONSTANT
    _TETrace <- _trace

ALIAS
    _expression
=============================================================================
\* Generated on Sun Sep 27 06:09:14 UTC 2026