---- MODULE OptimizerTrace_TTrace_1790491000 ----
EXTENDS Sequences, TLCExt, Toolbox, OptimizerTrace, Naturals, TLC

_expression ==
    LET OptimizerTrace_TEExpression == INSTANCE OptimizerTrace_TEExpression
    IN OptimizerTrace_TEExpression!expression
----

_trace ==
    LET OptimizerTrace_TETrace == INSTANCE OptimizerTrace_TETrace
    IN OptimizerTrace_TETrace!trace
----

_inv ==
    ~(
        TLCGet("level") = Len(_TETrace)
        /\
        phase = ("Done")
        /\
        badRaise = (FALSE)
        /\
        touched = (TRUE)
        /\
        lo = (0)
        /\
        overrun = (FALSE)
        /\
        max = (20000)
        /\
        held = (0)
        /\
        cnt = (32)
        /\
        back = ("New")
        /\
        box = (<<<<TRUE, TRUE, FALSE>>, <<TRUE, FALSE, FALSE>>, <<TRUE, TRUE, TRUE>>, <<TRUE, TRUE, FALSE>>, <<TRUE, FALSE, FALSE>>, <<TRUE, TRUE, FALSE>>>>)
        /\
        earlyOk = (FALSE)
        /\
        l = (26)
        /\
        pol = ("auto")
        /\
        steps = (9)
        /\
        br = ([none |-> TRUE])
        /\
        tol = (TRUE)
        /\
        obj = ([quad |-> TRUE, inact |-> TRUE, conv |-> TRUE])
        /\
        lateStep = (FALSE)
        /\
        infeas = (FALSE)
        /\
        rep = ([tol |-> TRUE, nb |-> 33, fv |-> 0, ret |-> 1, re |-> 0, feas |-> <<2, 2, 2, 2, 2, 2>>, q |-> 1])
        /\
        s0 = (11)
        /\
        pend = (0)
    )
----

_init ==
    /\ phase = _TETrace[1].phase
    /\ badRaise = _TETrace[1].badRaise
    /\ lo = _TETrace[1].lo
    /\ steps = _TETrace[1].steps
    /\ box = _TETrace[1].box
    /\ br = _TETrace[1].br
    /\ l = _TETrace[1].l
    /\ pol = _TETrace[1].pol
    /\ pend = _TETrace[1].pend
    /\ tol = _TETrace[1].tol
    /\ earlyOk = _TETrace[1].earlyOk
    /\ s0 = _TETrace[1].s0
    /\ infeas = _TETrace[1].infeas
    /\ back = _TETrace[1].back
    /\ rep = _TETrace[1].rep
    /\ cnt = _TETrace[1].cnt
    /\ max = _TETrace[1].max
    /\ overrun = _TETrace[1].overrun
    /\ obj = _TETrace[1].obj
    /\ lateStep = _TETrace[1].lateStep
    /\ held = _TETrace[1].held
    /\ touched = _TETrace[1].touched
----

_next ==
    /\ \E i,j \in DOMAIN _TETrace:
        /\ \/ /\ j = i + 1
              /\ i = TLCGet("level")
        /\ phase  = _TETrace[i].phase
        /\ phase' = _TETrace[j].phase
        /\ badRaise  = _TETrace[i].badRaise
        /\ badRaise' = _TETrace[j].badRaise
        /\ lo  = _TETrace[i].lo
        /\ lo' = _TETrace[j].lo
        /\ steps  = _TETrace[i].steps
        /\ steps' = _TETrace[j].steps
        /\ box  = _TETrace[i].box
        /\ box' = _TETrace[j].box
        /\ br  = _TETrace[i].br
        /\ br' = _TETrace[j].br
        /\ l  = _TETrace[i].l
        /\ l' = _TETrace[j].l
        /\ pol  = _TETrace[i].pol
        /\ pol' = _TETrace[j].pol
        /\ pend  = _TETrace[i].pend
        /\ pend' = _TETrace[j].pend
        /\ tol  = _TETrace[i].tol
        /\ tol' = _TETrace[j].tol
        /\ earlyOk  = _TETrace[i].earlyOk
        /\ earlyOk' = _TETrace[j].earlyOk
        /\ s0  = _TETrace[i].s0
        /\ s0' = _TETrace[j].s0
        /\ infeas  = _TETrace[i].infeas
        /\ infeas' = _TETrace[j].infeas
        /\ back  = _TETrace[i].back
        /\ back' = _TETrace[j].back
        /\ rep  = _TETrace[i].rep
        /\ rep' = _TETrace[j].rep
        /\ cnt  = _TETrace[i].cnt
        /\ cnt' = _TETrace[j].cnt
        /\ max  = _TETrace[i].max
        /\ max' = _TETrace[j].max
        /\ overrun  = _TETrace[i].overrun
        /\ overrun' = _TETrace[j].overrun
        /\ obj  = _TETrace[i].obj
        /\ obj' = _TETrace[j].obj
        /\ lateStep  = _TETrace[i].lateStep
        /\ lateStep' = _TETrace[j].lateStep
        /\ held  = _TETrace[i].held
        /\ held' = _TETrace[j].held
        /\ touched  = _TETrace[i].touched
        /\ touched' = _TETrace[j].touched

\* Uncomment the ASSUME below to write the states of the error trace
\* to the given file in Json format. Note that you can pass any tuple
\* to `JsonSerialize`. For example, a sub-sequence of _TETrace.
    \* ASSUME
    \*     LET J == INSTANCE Json
    \*         IN J!JsonSerialize("OptimizerTrace_TTrace_1790491000.json", _TETrace)

=============================================================================

 Note that you can extract this module `OptimizerTrace_TEExpression`
  to a dedicated file to reuse `expression` (the module in the 
  dedicated `OptimizerTrace_TEExpression.tla` file takes precedence 
  over the module `OptimizerTrace_TEExpression` below).

---- MODULE OptimizerTrace_TEExpression ----
EXTENDS Sequences, TLCExt, Toolbox, OptimizerTrace, Naturals, TLC

expression == 
    [
        \* To hide variables of the `OptimizerTrace` spec from the error trace,
        \* remove the variables below.  The trace will be written in the order
        \* of the fields of this record.
        phase |-> phase
        ,badRaise |-> badRaise
        ,lo |-> lo
        ,steps |-> steps
        ,box |-> box
        ,br |-> br
        ,l |-> l
        ,pol |-> pol
        ,pend |-> pend
        ,tol |-> tol
        ,earlyOk |-> earlyOk
        ,s0 |-> s0
        ,infeas |-> infeas
        ,back |-> back
        ,rep |-> rep
        ,cnt |-> cnt
        ,max |-> max
        ,overrun |-> overrun
        ,obj |-> obj
        ,lateStep |-> lateStep
        ,held |-> held
        ,touched |-> touched
        
        \* Put additional constant-, state-, and action-level expressions here:
        \* ,_stateNumber |-> _TEPosition
        \* ,_phaseUnchanged |-> phase = phase'
        
        \* Format the `phase` variable as Json value.
        \* ,_phaseJson |->
        \*     LET J == INSTANCE Json
        \*     IN J!ToJson(phase)
        
        \* Lastly, you may build expressions over arbitrary sets of states by
        \* leveraging the _TETrace operator.  For example, this is how to
        \* count the number of times a spec variable changed up to the current
        \* state in the trace.
        \* ,_phaseModCount |->
        \*     LET F[s \in DOMAIN _TETrace] ==
        \*         IF s = 1 THEN 0
        \*         ELSE IF _TETrace[s].phase # _TETrace[s-1].phase
        \*             THEN 1 + F[s-1] ELSE F[s-1]
        \*     IN F[_TEPosition - 1]
    ]

=============================================================================



Parsing and semantic processing can take forever if the trace below is long.
 In this case, it is advised to uncomment the module below to deserialize the
 trace from a generated binary file.

\*
\*---- MODULE OptimizerTrace_TETrace ----
\*EXTENDS IOUtils, OptimizerTrace, TLC
\*
\*trace == IODeserialize("OptimizerTrace_TTrace_1790491000.bin", TRUE)
\*
\*=============================================================================
\*

---- MODULE OptimizerTrace_TETrace ----
EXTENDS OptimizerTrace, TLC

trace == 
    <<
    ([phase |-> "Dead",badRaise |-> FALSE,touched |-> FALSE,lo |-> -1,overrun |-> FALSE,max |-> 0,held |-> -1,cnt |-> 0,back |-> "New",box |-> <<>>,earlyOk |-> FALSE,l |-> 1,pol |-> "ignore",steps |-> 0,br |-> [none |-> TRUE],tol |-> FALSE,obj |-> [quad |-> FALSE, inact |-> FALSE, conv |-> FALSE],lateStep |-> FALSE,infeas |-> FALSE,rep |-> [none |-> TRUE],s0 |-> -1,pend |-> 0]),
    ([phase |-> "New",badRaise |-> FALSE,touched |-> FALSE,lo |-> -1,overrun |-> FALSE,max |-> 20000,held |-> -1,cnt |-> 0,back |-> "New",box |-> <<<<TRUE, TRUE, FALSE>>, <<TRUE, FALSE, FALSE>>, <<TRUE, TRUE, TRUE>>, <<TRUE, TRUE, FALSE>>, <<TRUE, FALSE, FALSE>>, <<TRUE, TRUE, FALSE>>>>,earlyOk |-> FALSE,l |-> 2,pol |-> "auto",steps |-> 0,br |-> [none |-> TRUE],tol |-> FALSE,obj |-> [quad |-> TRUE, inact |-> TRUE, conv |-> TRUE],lateStep |-> FALSE,infeas |-> FALSE,rep |-> [none |-> TRUE],s0 |-> -1,pend |-> 0]),
    ([phase |-> "Initing",badRaise |-> FALSE,touched |-> FALSE,lo |-> -1,overrun |-> FALSE,max |-> 20000,held |-> 11,cnt |-> 0,back |-> "New",box |-> <<<<TRUE, TRUE, FALSE>>, <<TRUE, FALSE, FALSE>>, <<TRUE, TRUE, TRUE>>, <<TRUE, TRUE, FALSE>>, <<TRUE, FALSE, FALSE>>, <<TRUE, TRUE, FALSE>>>>,earlyOk |-> FALSE,l |-> 3,pol |-> "auto",steps |-> 0,br |-> [none |-> TRUE],tol |-> FALSE,obj |-> [quad |-> TRUE, inact |-> TRUE, conv |-> TRUE],lateStep |-> FALSE,infeas |-> FALSE,rep |-> [none |-> TRUE],s0 |-> 11,pend |-> 0]),
    ([phase |-> "Initing",badRaise |-> FALSE,touched |-> FALSE,lo |-> 11,overrun |-> FALSE,max |-> 20000,held |-> 11,cnt |-> 0,back |-> "New",box |-> <<<<TRUE, TRUE, FALSE>>, <<TRUE, FALSE, FALSE>>, <<TRUE, TRUE, TRUE>>, <<TRUE, TRUE, FALSE>>, <<TRUE, FALSE, FALSE>>, <<TRUE, TRUE, FALSE>>>>,earlyOk |-> FALSE,l |-> 4,pol |-> "auto",steps |-> 0,br |-> [none |-> TRUE],tol |-> FALSE,obj |-> [quad |-> TRUE, inact |-> TRUE, conv |-> TRUE],lateStep |-> FALSE,infeas |-> FALSE,rep |-> [none |-> TRUE],s0 |-> 11,pend |-> 1]),
    ([phase |-> "Inited",badRaise |-> FALSE,touched |-> FALSE,lo |-> 11,overrun |-> FALSE,max |-> 20000,held |-> 11,cnt |-> 0,back |-> "New",box |-> <<<<TRUE, TRUE, FALSE>>, <<TRUE, FALSE, FALSE>>, <<TRUE, TRUE, TRUE>>, <<TRUE, TRUE, FALSE>>, <<TRUE, FALSE, FALSE>>, <<TRUE, TRUE, FALSE>>>>,earlyOk |-> FALSE,l |-> 5,pol |-> "auto",steps |-> 0,br |-> [none |-> TRUE],tol |-> FALSE,obj |-> [quad |-> TRUE, inact |-> TRUE, conv |-> TRUE],lateStep |-> FALSE,infeas |-> FALSE,rep |-> [none |-> TRUE],s0 |-> 11,pend |-> 0]),
    ([phase |-> "Inited",badRaise |-> FALSE,touched |-> FALSE,lo |-> 11,overrun |-> FALSE,max |-> 20000,held |-> 11,cnt |-> 0,back |-> "New",box |-> <<<<TRUE, TRUE, FALSE>>, <<TRUE, FALSE, FALSE>>, <<TRUE, TRUE, TRUE>>, <<TRUE, TRUE, FALSE>>, <<TRUE, FALSE, FALSE>>, <<TRUE, TRUE, FALSE>>>>,earlyOk |-> FALSE,l |-> 6,pol |-> "auto",steps |-> 0,br |-> [none |-> TRUE],tol |-> FALSE,obj |-> [quad |-> TRUE, inact |-> TRUE, conv |-> TRUE],lateStep |-> FALSE,infeas |-> FALSE,rep |-> [none |-> TRUE],s0 |-> 11,pend |-> 0]),
    ([phase |-> "Running",badRaise |-> FALSE,touched |-> FALSE,lo |-> 11,overrun |-> FALSE,max |-> 20000,held |-> 11,cnt |-> 0,back |-> "New",box |-> <<<<TRUE, TRUE, FALSE>>, <<TRUE, FALSE, FALSE>>, <<TRUE, TRUE, TRUE>>, <<TRUE, TRUE, FALSE>>, <<TRUE, FALSE, FALSE>>, <<TRUE, TRUE, FALSE>>>>,earlyOk |-> FALSE,l |-> 7,pol |-> "auto",steps |-> 0,br |-> [none |-> TRUE],tol |-> FALSE,obj |-> [quad |-> TRUE, inact |-> TRUE, conv |-> TRUE],lateStep |-> FALSE,infeas |-> FALSE,rep |-> [none |-> TRUE],s0 |-> 11,pend |-> 0]),
    ([phase |-> "Running",badRaise |-> FALSE,touched |-> TRUE,lo |-> 8,overrun |-> FALSE,max |-> 20000,held |-> 11,cnt |-> 0,back |-> "New",box |-> <<<<TRUE, TRUE, FALSE>>, <<TRUE, FALSE, FALSE>>, <<TRUE, TRUE, TRUE>>, <<TRUE, TRUE, FALSE>>, <<TRUE, FALSE, FALSE>>, <<TRUE, TRUE, FALSE>>>>,earlyOk |-> FALSE,l |-> 8,pol |-> "auto",steps |-> 0,br |-> [none |-> TRUE],tol |-> FALSE,obj |-> [quad |-> TRUE, inact |-> TRUE, conv |-> TRUE],lateStep |-> FALSE,infeas |-> FALSE,rep |-> [none |-> TRUE],s0 |-> 11,pend |-> 4]),
    ([phase |-> "Running",badRaise |-> FALSE,touched |-> TRUE,lo |-> 8,overrun |-> FALSE,max |-> 20000,held |-> 8,cnt |-> 4,back |-> "New",box |-> <<<<TRUE, TRUE, FALSE>>, <<TRUE, FALSE, FALSE>>, <<TRUE, TRUE, TRUE>>, <<TRUE, TRUE, FALSE>>, <<TRUE, FALSE, FALSE>>, <<TRUE, TRUE, FALSE>>>>,earlyOk |-> FALSE,l |-> 9,pol |-> "auto",steps |-> 1,br |-> [none |-> TRUE],tol |-> FALSE,obj |-> [quad |-> TRUE, inact |-> TRUE, conv |-> TRUE],lateStep |-> FALSE,infeas |-> FALSE,rep |-> [none |-> TRUE],s0 |-> 11,pend |-> 0]),
    ([phase |-> "Running",badRaise |-> FALSE,touched |-> TRUE,lo |-> 7,overrun |-> FALSE,max |-> 20000,held |-> 8,cnt |-> 4,back |-> "New",box |-> <<<<TRUE, TRUE, FALSE>>, <<TRUE, FALSE, FALSE>>, <<TRUE, TRUE, TRUE>>, <<TRUE, TRUE, FALSE>>, <<TRUE, FALSE, FALSE>>, <<TRUE, TRUE, FALSE>>>>,earlyOk |-> FALSE,l |-> 10,pol |-> "auto",steps |-> 1,br |-> [none |-> TRUE],tol |-> FALSE,obj |-> [quad |-> TRUE, inact |-> TRUE, conv |-> TRUE],lateStep |-> FALSE,infeas |-> FALSE,rep |-> [none |-> TRUE],s0 |-> 11,pend |-> 4]),
    ([phase |-> "Running",badRaise |-> FALSE,touched |-> TRUE,lo |-> 7,overrun |-> FALSE,max |-> 20000,held |-> 7,cnt |-> 8,back |-> "New",box |-> <<<<TRUE, TRUE, FALSE>>, <<TRUE, FALSE, FALSE>>, <<TRUE, TRUE, TRUE>>, <<TRUE, TRUE, FALSE>>, <<TRUE, FALSE, FALSE>>, <<TRUE, TRUE, FALSE>>>>,earlyOk |-> FALSE,l |-> 11,pol |-> "auto",steps |-> 2,br |-> [none |-> TRUE],tol |-> FALSE,obj |-> [quad |-> TRUE, inact |-> TRUE, conv |-> TRUE],lateStep |-> FALSE,infeas |-> FALSE,rep |-> [none |-> TRUE],s0 |-> 11,pend |-> 0]),
    ([phase |-> "Running",badRaise |-> FALSE,touched |-> TRUE,lo |-> 6,overrun |-> FALSE,max |-> 20000,held |-> 7,cnt |-> 8,back |-> "New",box |-> <<<<TRUE, TRUE, FALSE>>, <<TRUE, FALSE, FALSE>>, <<TRUE, TRUE, TRUE>>, <<TRUE, TRUE, FALSE>>, <<TRUE, FALSE, FALSE>>, <<TRUE, TRUE, FALSE>>>>,earlyOk |-> FALSE,l |-> 12,pol |-> "auto",steps |-> 2,br |-> [none |-> TRUE],tol |-> FALSE,obj |-> [quad |-> TRUE, inact |-> TRUE, conv |-> TRUE],lateStep |-> FALSE,infeas |-> FALSE,rep |-> [none |-> TRUE],s0 |-> 11,pend |-> 4]),
    ([phase |-> "Running",badRaise |-> FALSE,touched |-> TRUE,lo |-> 6,overrun |-> FALSE,max |-> 20000,held |-> 6,cnt |-> 12,back |-> "New",box |-> <<<<TRUE, TRUE, FALSE>>, <<TRUE, FALSE, FALSE>>, <<TRUE, TRUE, TRUE>>, <<TRUE, TRUE, FALSE>>, <<TRUE, FALSE, FALSE>>, <<TRUE, TRUE, FALSE>>>>,earlyOk |-> FALSE,l |-> 13,pol |-> "auto",steps |-> 3,br |-> [none |-> TRUE],tol |-> FALSE,obj |-> [quad |-> TRUE, inact |-> TRUE, conv |-> TRUE],lateStep |-> FALSE,infeas |-> FALSE,rep |-> [none |-> TRUE],s0 |-> 11,pend |-> 0]),
    ([phase |-> "Running",badRaise |-> FALSE,touched |-> TRUE,lo |-> 5,overrun |-> FALSE,max |-> 20000,held |-> 6,cnt |-> 12,back |-> "New",box |-> <<<<TRUE, TRUE, FALSE>>, <<TRUE, FALSE, FALSE>>, <<TRUE, TRUE, TRUE>>, <<TRUE, TRUE, FALSE>>, <<TRUE, FALSE, FALSE>>, <<TRUE, TRUE, FALSE>>>>,earlyOk |-> FALSE,l |-> 14,pol |-> "auto",steps |-> 3,br |-> [none |-> TRUE],tol |-> FALSE,obj |-> [quad |-> TRUE, inact |-> TRUE, conv |-> TRUE],lateStep |-> FALSE,infeas |-> FALSE,rep |-> [none |-> TRUE],s0 |-> 11,pend |-> 4]),
    ([phase |-> "Running",badRaise |-> FALSE,touched |-> TRUE,lo |-> 5,overrun |-> FALSE,max |-> 20000,held |-> 5,cnt |-> 16,back |-> "New",box |-> <<<<TRUE, TRUE, FALSE>>, <<TRUE, FALSE, FALSE>>, <<TRUE, TRUE, TRUE>>, <<TRUE, TRUE, FALSE>>, <<TRUE, FALSE, FALSE>>, <<TRUE, TRUE, FALSE>>>>,earlyOk |-> FALSE,l |-> 15,pol |-> "auto",steps |-> 4,br |-> [none |-> TRUE],tol |-> FALSE,obj |-> [quad |-> TRUE, inact |-> TRUE, conv |-> TRUE],lateStep |-> FALSE,infeas |-> FALSE,rep |-> [none |-> TRUE],s0 |-> 11,pend |-> 0]),
    ([phase |-> "Running",badRaise |-> FALSE,touched |-> TRUE,lo |-> 3,overrun |-> FALSE,max |-> 20000,held |-> 5,cnt |-> 16,back |-> "New",box |-> <<<<TRUE, TRUE, FALSE>>, <<TRUE, FALSE, FALSE>>, <<TRUE, TRUE, TRUE>>, <<TRUE, TRUE, FALSE>>, <<TRUE, FALSE, FALSE>>, <<TRUE, TRUE, FALSE>>>>,earlyOk |-> FALSE,l |-> 16,pol |-> "auto",steps |-> 4,br |-> [none |-> TRUE],tol |-> FALSE,obj |-> [quad |-> TRUE, inact |-> TRUE, conv |-> TRUE],lateStep |-> FALSE,infeas |-> FALSE,rep |-> [none |-> TRUE],s0 |-> 11,pend |-> 3]),
    ([phase |-> "Running",badRaise |-> FALSE,touched |-> TRUE,lo |-> 3,overrun |-> FALSE,max |-> 20000,held |-> 3,cnt |-> 19,back |-> "New",box |-> <<<<TRUE, TRUE, FALSE>>, <<TRUE, FALSE, FALSE>>, <<TRUE, TRUE, TRUE>>, <<TRUE, TRUE, FALSE>>, <<TRUE, FALSE, FALSE>>, <<TRUE, TRUE, FALSE>>>>,earlyOk |-> FALSE,l |-> 17,pol |-> "auto",steps |-> 5,br |-> [none |-> TRUE],tol |-> FALSE,obj |-> [quad |-> TRUE, inact |-> TRUE, conv |-> TRUE],lateStep |-> FALSE,infeas |-> FALSE,rep |-> [none |-> TRUE],s0 |-> 11,pend |-> 0]),
    ([phase |-> "Running",badRaise |-> FALSE,touched |-> TRUE,lo |-> 2,overrun |-> FALSE,max |-> 20000,held |-> 3,cnt |-> 19,back |-> "New",box |-> <<<<TRUE, TRUE, FALSE>>, <<TRUE, FALSE, FALSE>>, <<TRUE, TRUE, TRUE>>, <<TRUE, TRUE, FALSE>>, <<TRUE, FALSE, FALSE>>, <<TRUE, TRUE, FALSE>>>>,earlyOk |-> FALSE,l |-> 18,pol |-> "auto",steps |-> 5,br |-> [none |-> TRUE],tol |-> FALSE,obj |-> [quad |-> TRUE, inact |-> TRUE, conv |-> TRUE],lateStep |-> FALSE,infeas |-> FALSE,rep |-> [none |-> TRUE],s0 |-> 11,pend |-> 4]),
    ([phase |-> "Running",badRaise |-> FALSE,touched |-> TRUE,lo |-> 2,overrun |-> FALSE,max |-> 20000,held |-> 2,cnt |-> 23,back |-> "New",box |-> <<<<TRUE, TRUE, FALSE>>, <<TRUE, FALSE, FALSE>>, <<TRUE, TRUE, TRUE>>, <<TRUE, TRUE, FALSE>>, <<TRUE, FALSE, FALSE>>, <<TRUE, TRUE, FALSE>>>>,earlyOk |-> FALSE,l |-> 19,pol |-> "auto",steps |-> 6,br |-> [none |-> TRUE],tol |-> FALSE,obj |-> [quad |-> TRUE, inact |-> TRUE, conv |-> TRUE],lateStep |-> FALSE,infeas |-> FALSE,rep |-> [none |-> TRUE],s0 |-> 11,pend |-> 0]),
    ([phase |-> "Running",badRaise |-> FALSE,touched |-> TRUE,lo |-> 1,overrun |-> FALSE,max |-> 20000,held |-> 2,cnt |-> 23,back |-> "New",box |-> <<<<TRUE, TRUE, FALSE>>, <<TRUE, FALSE, FALSE>>, <<TRUE, TRUE, TRUE>>, <<TRUE, TRUE, FALSE>>, <<TRUE, FALSE, FALSE>>, <<TRUE, TRUE, FALSE>>>>,earlyOk |-> FALSE,l |-> 20,pol |-> "auto",steps |-> 6,br |-> [none |-> TRUE],tol |-> FALSE,obj |-> [quad |-> TRUE, inact |-> TRUE, conv |-> TRUE],lateStep |-> FALSE,infeas |-> FALSE,rep |-> [none |-> TRUE],s0 |-> 11,pend |-> 3]),
    ([phase |-> "Running",badRaise |-> FALSE,touched |-> TRUE,lo |-> 1,overrun |-> FALSE,max |-> 20000,held |-> 1,cnt |-> 26,back |-> "New",box |-> <<<<TRUE, TRUE, FALSE>>, <<TRUE, FALSE, FALSE>>, <<TRUE, TRUE, TRUE>>, <<TRUE, TRUE, FALSE>>, <<TRUE, FALSE, FALSE>>, <<TRUE, TRUE, FALSE>>>>,earlyOk |-> FALSE,l |-> 21,pol |-> "auto",steps |-> 7,br |-> [none |-> TRUE],tol |-> FALSE,obj |-> [quad |-> TRUE, inact |-> TRUE, conv |-> TRUE],lateStep |-> FALSE,infeas |-> FALSE,rep |-> [none |-> TRUE],s0 |-> 11,pend |-> 0]),
    ([phase |-> "Running",badRaise |-> FALSE,touched |-> TRUE,lo |-> 0,overrun |-> FALSE,max |-> 20000,held |-> 1,cnt |-> 26,back |-> "New",box |-> <<<<TRUE, TRUE, FALSE>>, <<TRUE, FALSE, FALSE>>, <<TRUE, TRUE, TRUE>>, <<TRUE, TRUE, FALSE>>, <<TRUE, FALSE, FALSE>>, <<TRUE, TRUE, FALSE>>>>,earlyOk |-> FALSE,l |-> 22,pol |-> "auto",steps |-> 7,br |-> [none |-> TRUE],tol |-> FALSE,obj |-> [quad |-> TRUE, inact |-> TRUE, conv |-> TRUE],lateStep |-> FALSE,infeas |-> FALSE,rep |-> [none |-> TRUE],s0 |-> 11,pend |-> 3]),
    ([phase |-> "Running",badRaise |-> FALSE,touched |-> TRUE,lo |-> 0,overrun |-> FALSE,max |-> 20000,held |-> 0,cnt |-> 29,back |-> "New",box |-> <<<<TRUE, TRUE, FALSE>>, <<TRUE, FALSE, FALSE>>, <<TRUE, TRUE, TRUE>>, <<TRUE, TRUE, FALSE>>, <<TRUE, FALSE, FALSE>>, <<TRUE, TRUE, FALSE>>>>,earlyOk |-> FALSE,l |-> 23,pol |-> "auto",steps |-> 8,br |-> [none |-> TRUE],tol |-> FALSE,obj |-> [quad |-> TRUE, inact |-> TRUE, conv |-> TRUE],lateStep |-> FALSE,infeas |-> FALSE,rep |-> [none |-> TRUE],s0 |-> 11,pend |-> 0]),
    ([phase |-> "Running",badRaise |-> FALSE,touched |-> TRUE,lo |-> 0,overrun |-> FALSE,max |-> 20000,held |-> 0,cnt |-> 29,back |-> "New",box |-> <<<<TRUE, TRUE, FALSE>>, <<TRUE, FALSE, FALSE>>, <<TRUE, TRUE, TRUE>>, <<TRUE, TRUE, FALSE>>, <<TRUE, FALSE, FALSE>>, <<TRUE, TRUE, FALSE>>>>,earlyOk |-> FALSE,l |-> 24,pol |-> "auto",steps |-> 8,br |-> [none |-> TRUE],tol |-> FALSE,obj |-> [quad |-> TRUE, inact |-> TRUE, conv |-> TRUE],lateStep |-> FALSE,infeas |-> FALSE,rep |-> [none |-> TRUE],s0 |-> 11,pend |-> 2]),
    ([phase |-> "Running",badRaise |-> FALSE,touched |-> TRUE,lo |-> 0,overrun |-> FALSE,max |-> 20000,held |-> 0,cnt |-> 32,back |-> "New",box |-> <<<<TRUE, TRUE, FALSE>>, <<TRUE, FALSE, FALSE>>, <<TRUE, TRUE, TRUE>>, <<TRUE, TRUE, FALSE>>, <<TRUE, FALSE, FALSE>>, <<TRUE, TRUE, FALSE>>>>,earlyOk |-> FALSE,l |-> 25,pol |-> "auto",steps |-> 9,br |-> [none |-> TRUE],tol |-> FALSE,obj |-> [quad |-> TRUE, inact |-> TRUE, conv |-> TRUE],lateStep |-> FALSE,infeas |-> FALSE,rep |-> [none |-> TRUE],s0 |-> 11,pend |-> 0]),
    ([phase |-> "Done",badRaise |-> FALSE,touched |-> TRUE,lo |-> 0,overrun |-> FALSE,max |-> 20000,held |-> 0,cnt |-> 32,back |-> "New",box |-> <<<<TRUE, TRUE, FALSE>>, <<TRUE, FALSE, FALSE>>, <<TRUE, TRUE, TRUE>>, <<TRUE, TRUE, FALSE>>, <<TRUE, FALSE, FALSE>>, <<TRUE, TRUE, FALSE>>>>,earlyOk |-> FALSE,l |-> 26,pol |-> "auto",steps |-> 9,br |-> [none |-> TRUE],tol |-> TRUE,obj |-> [quad |-> TRUE, inact |-> TRUE, conv |-> TRUE],lateStep |-> FALSE,infeas |-> FALSE,rep |-> [tol |-> TRUE, nb |-> 33, fv |-> 0, ret |-> 1, re |-> 0, feas |-> <<2, 2, 2, 2, 2, 2>>, q |-> 1],s0 |-> 11,pend |-> 0])
    >>
----


=============================================================================

---- CONFIG OptimizerTrace_TTrace_1790491000 ----
CONSTANTS
    Budgets = { }
    Pols = { }
    Objs = { }
    MaxRank = 0
    MaxInner = 0
    Boxes = { }
    KConv = 1000000

INVARIANT
    _inv

CHECK_DEADLOCK
    \* CHECK_DEADLOCK off because of PROPERTY or INVARIANT above.
    FALSE

INIT
    _init

NEXT
    _next

CONSTANT
    _TETrace <- _trace

ALIAS
    _expression
=============================================================================
\* Generated on Sun Sep 27 06:36:42 UTC 2026