SPECIFICATION TraceSpec
CONSTANTS
  Budgets = {}
  Pols = {}
  Objs = {}
  MaxRank = 0
  MaxInner = 0
  Boxes = {}
  KConv = 1000000
  KConvX = 1000
INVARIANTS TypeOK Protocol Descent ReportConsistent Budget FeasibleAlways Bracketed Converged
POSTCONDITION TraceAccepted
CHECK_DEADLOCK FALSE
