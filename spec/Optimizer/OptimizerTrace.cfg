SPECIFICATION TraceSpec
CONSTANTS
  MetaNs = {}
  Budgets = {}
  Pols = {}
  Objs = {}
  MaxRank = 0
  MaxInner = 0
  Boxes = {}
  KConv = 1000000
  KConvX = 1000
  KGap = 1000000000
INVARIANTS TypeOK Protocol Descent ReportConsistent Budget FeasibleAlways Bracketed Converged MetaSchedule
POSTCONDITION TraceAccepted
CHECK_DEADLOCK FALSE
