SPECIFICATION Spec
CONSTANTS
  MetaNs = {0}
  Budgets = {0, 2, 3}
  Pols = {"auto", "keep"}
  Objs <- ObjsOne
  MaxRank = 1
  MaxInner = 1
  Boxes <- BoxesL
  KConv = 1000
  KConvX = 10
  KGap = 100
INVARIANTS TypeOK Budget
PROPERTY Terminates
CHECK_DEADLOCK FALSE
