------------------------------ MODULE Optimizer ------------------------------
\* C10 - the optimiser protocol of bpp-core (src/Bpp/Numeric/Function) as a
\* run-time monitor state machine.
\*
\* One action per observable boundary of a public call of an optimiser
\* (init / step / optimize / clone), per call of the user-supplied objective
\* (Eval) and per iteration of the optimize() loop (StepDone, the
\* OptimizationListener seam).  Reals are abstracted (E1): a coordinate is a
\* code relative to that coordinate's own bounds
\*       0 below, 1 at the lower bound, 2 strictly inside, 3 at the upper bound, 4 above, 5 NaN,
\*       6 / 7 strictly inside but within a few precision steps (1e-11) of the lower / upper bound
\* and an objective value is its dense rank among all values of the scenario.
\* The only non-order quantity is the E4 fixed-point distance to the minimiser.
\*
\* Every action has the shape Act(observed arguments).  Actions guard the
\* *phase protocol* only; everything the property C10 states is recorded in
\* ghost variables and judged by the invariants at the end of the module, so
\* that a violated clause is reported by name:
\*   - the design model (Next) supplies the arguments the AbstractOptimizer
\*     template produces (loop guard, counter arithmetic, tolerance polling,
\*     an abstract nondeterministic step that accepts only improvements) and
\*     TLC checks that the template guarantees the invariants and terminates;
\*   - the trace specification OptimizerTrace supplies the arguments observed
\*     on the real optimisers, so the same invariants judge the implementation.
EXTENDS Integers, Sequences, FiniteSets, TLC

CONSTANTS MetaNs,      \* design model: numbers of precision stages (0 = not a meta-optimiser)
          Budgets,     \* design model: set of evaluation budgets (nbEvalMax)
          Pols,        \* design model: set of constraint policies
          Objs,        \* design model: set of objective descriptions [quad, inact, conv]
          MaxRank,     \* design model: objective values are the ranks 0..MaxRank
          MaxInner,    \* design model: evaluations per step / extra counter increments per step <= MaxInner
          Boxes,       \* design model: set of boxes (sequences of <<has, inclLower, inclUpper>>)
          KConv,       \* E4: accepted distance to the minimiser, in units of sqrt(tol*max(1,|f*|))*max(1,|m|), times 1000,
                       \*     for optimisers whose stop condition watches the function value
          KConvX,      \* same for optimisers whose stop condition watches the abscissa itself (Brent, golden section)
          KGap         \* E4: accepted gap f(x) - f*, in units of tolerance * max(1,|f*|) * condition number, times 1000 (stop rules on f)

VARIABLES
  phase,    \* "New" | "Initing" | "Inited" | "Running" | "Stepping" | "Done" | "Dead" | "Bracketing"
  pol,      \* constraint policy "auto" | "ignore" | "keep"
  box,      \* per coordinate <<has, inclLower, inclUpper>>
  max,      \* evaluation budget (nbEvalMax)
  mn,       \* number of precision stages of a meta-optimiser (0: the optimiser is not one)
  obj,      \* [quad, inact, conv]: strictly convex quadratic / constraints inactive at the minimiser /
            \* conv: what the optimiser's stop condition watches: "f" the function value, "x" the abscissa,
            \* "none" it is no minimiser (the backtracking line search only promises sufficient decrease);
            \* bnd: the optimiser shortens its steps at simple bounds itself (BFGS), working one precision step inside them
  cnt,      \* optimiser's evaluation counter at the end of the last completed step of this optimize() (0: none yet)
  steps,    \* completed steps of this optimize()
  tol,      \* tolerance flag as last observed
  s0,       \* rank of the objective at the starting point of the current run
  held,     \* rank the optimiser holds as "current value"
  pend,     \* objective evaluations since the last boundary event
  lo,       \* lowest rank evaluated since init (NoRank: none)
  touched,  \* since init, some evaluation sat on / next to / beyond a bound the policy keeps (a constraint was active)
  back,     \* phase to return to after a manual step
  stage,    \* steps performed since the last init() (saturates at MaxStage)
  rep,      \* what the last optimize() reported (NoRep: nothing yet)
  br,       \* what the last bracketing call returned (NoRep: nothing yet)
  \* ghost verdict flags (all must stay FALSE)
  infeas,   \* the objective was evaluated at an infeasible point
  overrun,  \* a loop iteration started although the counter had reached the budget
  lateStep, \* a loop iteration started although the tolerance flag was already set
  badRaise, \* a call raised without the constraint policy giving it a licence
  earlyOk,  \* optimize() before init() did not raise
  coarseLate \* a meta-optimiser ran a sub-optimiser with a tolerance coarser than requested in its n-th or a later step

vars == <<phase, pol, box, max, mn, obj, cnt, steps, tol, s0, held, pend, lo, touched, back, stage, rep, br,
          infeas, overrun, lateStep, badRaise, earlyOk, coarseLate>>

NoRep  == [none |-> TRUE]
NoRank == -1
Mn(a, b) == IF a <= b THEN a ELSE b
Mx(a, b) == IF a >= b THEN a ELSE b

\* ---------------------------------------------------------------- E1 feasibility
FeasCode(c, b) == \/ ~b[1]
                  \/ c \in {2, 6, 7}
                  \/ c = 1 /\ b[2]
                  \/ c = 3 /\ b[3]
FeasPoint(cs) == /\ Len(cs) = Len(box)
                 /\ \A i \in DOMAIN cs : FeasCode(cs[i], box[i])
Constrained == \E i \in DOMAIN box : box[i][1]
\* the point sits exactly on a bound
OnBound(cs) == \E i \in DOMAIN cs : i \in DOMAIN box /\ box[i][1] /\ cs[i] \in {1, 3}
\* the point stays clear of every bound
ClearPoint(cs) == \A i \in DOMAIN cs : i \in DOMAIN box => (~box[i][1] \/ cs[i] = 2)

IsRaise(r)  == r # "ok"
\* the only exception the statement leaves room for: policy "keep" keeps the
\* constraints on the optimiser's parameters, so stepping outside raises
\* ... unless the optimiser handles the bounds itself: then it has to stay inside under every policy
Licensed(r) == r = "raise:ConstraintException" /\ pol = "keep" /\ Constrained /\ ~obj.bnd

\* ---------------------------------------------------------------- actions
Init ==
  /\ phase = "New" /\ pol \in Pols /\ box \in Boxes /\ max \in Budgets /\ obj \in Objs /\ mn \in MetaNs
  /\ cnt = 0 /\ steps = 0 /\ tol = FALSE /\ s0 = NoRank /\ held = NoRank /\ pend = 0 /\ lo = NoRank /\ touched = FALSE
  /\ back = "New" /\ stage = 0 /\ rep = NoRep /\ br = NoRep
  /\ infeas = FALSE /\ overrun = FALSE /\ lateStep = FALSE /\ badRaise = FALSE /\ earlyOk = FALSE /\ coarseLate = FALSE

Flags == <<infeas, overrun, lateStep, badRaise, earlyOk, coarseLate>>
MaxStage == 2
Conf  == <<pol, box, max, mn, obj>>

\* optimize() on an optimiser that was never initialised: raises, nothing changes
OptEarly(r) ==
  /\ phase = "New"
  /\ earlyOk' = (earlyOk \/ ~IsRaise(r))
  /\ UNCHANGED <<phase, Conf, cnt, steps, tol, s0, held, pend, lo, touched, back, rep, br, infeas, overrun, lateStep, badRaise, stage, coarseLate>>

\* init(params) is entered with the objective worth f0 at the (admissible) start sf
InitBegin(f0, sf) ==
  /\ phase \in {"New", "Inited", "Done"}
  /\ FeasPoint(sf)                              \* the driver only offers admissible starts
  /\ phase' = "Initing" /\ s0' = f0 /\ held' = f0 /\ pend' = 0 /\ lo' = NoRank /\ touched' = FALSE
  /\ cnt' = 0 /\ steps' = 0 /\ tol' = FALSE /\ rep' = NoRep /\ stage' = 0
  /\ UNCHANGED <<Conf, back, br, Flags>>

\* a batch of calls of the objective: pts[i] = <<codes, rank>>
EvalMany(pts) ==
  /\ phase \in {"Initing", "Running", "Stepping", "Bracketing"}
  /\ Len(pts) >= 1
  /\ infeas' = (infeas \/ \E i \in DOMAIN pts : ~FeasPoint(pts[i][1]))
  /\ pend' = pend + Len(pts)
  /\ LET m == CHOOSE r \in {pts[i][2] : i \in DOMAIN pts} : \A j \in DOMAIN pts : r <= pts[j][2]
     IN lo' = IF lo = NoRank THEN m ELSE Mn(lo, m)
  /\ touched' = (touched \/ (pol # "ignore" /\ \E i \in DOMAIN pts : ~ClearPoint(pts[i][1])))
  /\ UNCHANGED <<phase, Conf, cnt, steps, tol, s0, held, back, rep, br, overrun, lateStep, badRaise, earlyOk, stage, coarseLate>>
Eval(cs, r) == EvalMany(<< <<cs, r>> >>)

InitEnd(r) ==
  /\ phase = "Initing"
  /\ phase' = IF r = "ok" THEN "Inited" ELSE "Dead"
  /\ badRaise' = (badRaise \/ (IsRaise(r) /\ ~Licensed(r)))
  /\ pend' = 0
  /\ UNCHANGED <<Conf, cnt, steps, tol, s0, held, lo, touched, back, rep, br, infeas, overrun, lateStep, earlyOk, stage, coarseLate>>

\* copies are interchangeable with the original: nothing the monitor tracks changes
Clone ==
  /\ phase \in {"Inited", "Done"}
  /\ UNCHANGED vars

\* the caller replaces the constraints of its parameters between two runs of the same optimiser object
\* (same coordinates, other intervals); ia: the new intervals contain the minimiser strictly
Rebox(b, ia) ==
  /\ phase \in {"New", "Inited", "Done"}
  /\ Len(b) = Len(box)
  /\ box' = b /\ obj' = [obj EXCEPT !.inact = ia]
  /\ UNCHANGED <<phase, pol, max, mn, stage, cnt, steps, tol, s0, held, pend, lo, touched, back, rep, br, Flags>>

\* manual step(): no budget applies
MStepBegin ==
  /\ phase \in {"Inited", "Done"}
  /\ phase' = "Stepping" /\ back' = phase /\ pend' = 0
  /\ UNCHANGED <<Conf, cnt, steps, tol, s0, held, lo, touched, rep, br, stage, Flags>>

\* optimize() is entered; the run starts from a point worth s
OptBegin(s) ==
  /\ phase \in {"Inited", "Done"}
  /\ phase' = "Running" /\ s0' = s /\ cnt' = 0 /\ steps' = 0 /\ tol' = FALSE /\ pend' = 0 /\ rep' = NoRep
  /\ UNCHANGED <<Conf, held, lo, touched, back, br, stage, Flags>>

\* one iteration of the loop has completed (listener): the optimiser's counter
\* reads nb, its tolerance flag t, its current value h.  The iteration started
\* with the counter at cnt + 1 (the loop's own increment; 1 for the first).
\* c: (meta-optimiser) a sub-optimiser was just run with a tolerance coarser than the requested one.  The k-th step
\* since init() is precision stage k + 1; from stage mn on the schedule must have arrived at the requested tolerance.
StepDone(nb, t, h, c) ==
  /\ phase \in {"Running", "Stepping"}
  /\ IF phase = "Running"
     THEN /\ overrun'  = (overrun \/ ~(cnt + 1 < max))
          /\ lateStep' = (lateStep \/ tol)
          /\ steps' = steps + 1
     ELSE UNCHANGED <<overrun, lateStep, steps>>
  /\ cnt' = nb /\ tol' = t /\ held' = h /\ pend' = 0
  /\ stage' = IF mn > 0 THEN Mn(stage + 1, MaxStage) ELSE 0    \* only a meta-optimiser has stages
  /\ coarseLate' = (coarseLate \/ (mn > 0 /\ c /\ stage + 2 >= mn))
  /\ UNCHANGED <<phase, Conf, s0, lo, touched, back, rep, br, infeas, badRaise, earlyOk>>

MStepEnd(r) ==
  /\ phase = "Stepping"
  /\ phase' = IF r = "ok" THEN back ELSE "Dead"
  /\ badRaise' = (badRaise \/ (IsRaise(r) /\ ~Licensed(r)))
  /\ pend' = 0
  /\ UNCHANGED <<Conf, cnt, steps, tol, s0, held, lo, touched, back, rep, br, infeas, overrun, lateStep, earlyOk, stage, coarseLate>>

\* optimize() returned (r = "ok": ret = returned value, fv = getFunctionValue(),
\* re = objective re-evaluated at getParameters(), feas = codes of that point,
\* nb = getNumberOfEvaluations(), t = isToleranceReached(), q = E4 distance, gp = E4 gap) or raised
Finish(r, ret, fv, re, feas, nb, t, q, gp) ==
  /\ phase = "Running"
  /\ IF r = "ok"
     THEN /\ phase' = "Done"
          /\ rep' = [ret |-> ret, fv |-> fv, re |-> re, feas |-> feas, fok |-> FeasPoint(feas), onb |-> OnBound(feas), nb |-> nb, tol |-> t, q |-> q, g |-> gp]
          /\ UNCHANGED badRaise
     ELSE /\ phase' = "Dead"
          /\ rep' = NoRep
          /\ badRaise' = (badRaise \/ ~Licensed(r))
  /\ tol' = t /\ pend' = 0
  /\ UNCHANGED <<Conf, cnt, steps, s0, held, lo, touched, back, br, infeas, overrun, lateStep, earlyOk, stage, coarseLate>>

\* one-dimensional bracketing (bracketMinimum / inwardBracketMinimum)
BrBegin ==
  /\ phase = "New"
  /\ phase' = "Bracketing" /\ pend' = 0
  /\ UNCHANGED <<Conf, cnt, steps, tol, s0, held, lo, touched, back, rep, br, stage, Flags>>

\* xs = dense ranks of the three abscissae (fields a, b, c), fs = ranks of their values
Bracket(r, xs, fs) ==
  /\ phase = "Bracketing"
  /\ phase' = "Dead"
  /\ IF r = "ok" THEN br' = [x |-> xs, f |-> fs] /\ UNCHANGED badRaise
                 ELSE br' = NoRep /\ badRaise' = TRUE
  /\ pend' = 0
  /\ UNCHANGED <<Conf, cnt, steps, tol, s0, held, lo, touched, back, rep, infeas, overrun, lateStep, earlyOk, stage, coarseLate>>

\* ---------------------------------------------------------------- the property (C10)
HasRep == rep # NoRep

\* the point reported is no worse than the point the run started from
Descent == HasRep => rep.re >= 0 /\ rep.re <= s0

\* value returned = getFunctionValue() = objective at the reported parameters (same double)
ReportConsistent == HasRep => rep.ret = rep.re /\ rep.fv = rep.re

\* AbstractOptimizer::optimize(): for (nbEval_ = 1; nbEval_ < nbEvalMax_ && !tolIsReached_; nbEval_++) step();
\* the counter is advanced by the loop and by the steps themselves (they add the evaluations they account for), so
\*   - no iteration starts once the counter has reached the budget (the one in progress may overrun it),
\*   - hence at most max - 1 iterations,
\*   - no iteration starts once the tolerance flag is set,
\*   - the run ends for one of the two reasons.
Budget == /\ ~overrun
          /\ ~lateStep
          /\ steps <= Mx(max - 1, 0)
          /\ HasRep => (rep.tol \/ rep.nb >= max)

\* automatic-constraint policy: never evaluated outside the constraints, reported point feasible
FeasibleAlways == pol = "auto" => /\ ~infeas
                                  /\ HasRep => rep.fok      \* judged against the constraints in force during that run

\* strictly convex quadratic, no constraint active (the minimiser is strictly inside and, unless the
\* policy drops the constraints, no evaluation since init came within a precision step of a bound),
\* stopped by its own tolerance having used at most a tenth of its budget (so that no share of the
\* budget handed to an inner optimiser can have been binding either):
\* within KConv/1000 * sqrt(tolerance * max(1,|f*|)) * max(1,|m|) of the minimiser (sup norm)
\* The clamping excuse (touched) does not cover a bound-handling optimiser that ends exactly ON a bound: it works
\* with the bounds moved one precision step inside, so it can only get there by a step that escaped its own shortening.
ConvApplies == /\ HasRep /\ obj.quad /\ obj.inact /\ obj.conv # "none" /\ rep.tol /\ rep.nb * 10 <= max
               /\ (~touched \/ (obj.bnd /\ rep.onb))
\* ... and, for a stop rule on the function value, the value reached is within KGap/1000 * kappa * tolerance * max(1,|f*|) of
\* the minimum (a linearly convergent method with rate 1 - 1/kappa stopped by |df| < tol sits at about kappa * tol)
Converged == ConvApplies => /\ rep.q <= (IF obj.conv = "x" THEN KConvX ELSE KConv)
                            /\ obj.conv = "f" => rep.g <= KGap

\* the point whose abscissa lies (weakly) between the other two has the lowest value
Between(x, a, b) == (a <= x /\ x <= b) \/ (b <= x /\ x <= a)
MiddleLowest(t) ==
  \E m \in 1..3 : LET o == (1..3) \ {m} IN
      /\ \E a, b \in o : a # b /\ Between(t.x[m], t.x[a], t.x[b])
      /\ \A a \in o : t.f[m] <= t.f[a]
Bracketed == br # NoRep => /\ \A i \in 1..3 : br.f[i] >= 0
                           /\ MiddleLowest(br)

\* meta-optimiser: its n-stage precision schedule (tolerance_k = |f(start)| * 10^(k * step), k = 2..n, then the requested
\* tolerance) hands the requested tolerance - nothing coarser - to its sub-optimisers from stage n on; this is what ties
\* the accuracy of the meta-optimiser to ITS stopping tolerance
MetaSchedule == ~coarseLate

\* optimize() needs init(); no exception without a licence from the policy
Protocol == ~earlyOk /\ ~badRaise

TypeOK ==
  /\ phase \in {"New", "Initing", "Inited", "Running", "Stepping", "Done", "Dead", "Bracketing"}
  /\ pol \in {"auto", "ignore", "keep"}
  /\ cnt >= 0 /\ steps >= 0 /\ pend >= 0 /\ max >= 0
  /\ tol \in BOOLEAN

\* ---------------------------------------------------------------- design model
\* boxes of the design configurations (the .cfg substitutes one of them for Boxes)
B0 == <<FALSE, TRUE, TRUE>>      \* unconstrained coordinate
B1 == <<TRUE, TRUE, TRUE>>       \* closed interval
B2 == <<TRUE, FALSE, TRUE>>      \* lower bound excluded
B3 == <<TRUE, TRUE, FALSE>>      \* upper bound excluded
Boxes1 == {<<B0>>, <<B1>>, <<B2>>}
Boxes2 == {<<B0, B0>>, <<B1, B0>>, <<B2, B3>>}
ObjsAll == {[quad |-> TRUE, inact |-> TRUE, conv |-> "f", bnd |-> FALSE], [quad |-> FALSE, inact |-> TRUE, conv |-> "f", bnd |-> FALSE],
            [quad |-> TRUE, inact |-> TRUE, conv |-> "x", bnd |-> FALSE], [quad |-> TRUE, inact |-> TRUE, conv |-> "none", bnd |-> FALSE],
            [quad |-> TRUE, inact |-> TRUE, conv |-> "f", bnd |-> TRUE]}
BoxesL == {<<B1>>}
BoxesQ == {<<B0>>, <<B2>>}
BoxesQ1 == {<<B2>>}
ObjsOne == {[quad |-> TRUE, inact |-> TRUE, conv |-> "f", bnd |-> FALSE]}
ObjsTwo == {[quad |-> TRUE, inact |-> TRUE, conv |-> "f", bnd |-> FALSE], [quad |-> TRUE, inact |-> TRUE, conv |-> "x", bnd |-> TRUE]}
\* What the AbstractOptimizer template plus a well-behaved doStep() produce.
Ranks  == 0..MaxRank
Codes  == {0, 1, 2, 3, 6}
Points == [DOMAIN box -> Codes]
\* where the design evaluates: AutoParameter clamps into the constraints, plain
\* constrained parameters ("keep") refuse to leave them, "ignore" strips them
DesignPoints == IF pol = "ignore" THEN Points ELSE {p \in Points : FeasPoint(p)}
Seq1(f) == [i \in 1..Len(box) |-> f[i]]

DInitBegin == \E f0 \in Ranks : \E p \in {q \in Points : FeasPoint(q)} : InitBegin(f0, Seq1(p))
DEval      == /\ pend < MaxInner
              /\ \E p \in DesignPoints, r \in Ranks : Eval(Seq1(p), r)
DInitEnd   == \/ InitEnd("ok")
              \/ Licensed("raise:ConstraintException") /\ InitEnd("raise:ConstraintException")
DOptEarly  == OptEarly("raise:Exception")
DRebox     == \E b \in Boxes : Rebox(b, obj.inact)
DOptBegin  == OptBegin(held)
\* the loop guard of optimize(); the step accepts the best value it evaluated only if it improves
DStep      == /\ phase = "Running" => (cnt + 1 < max /\ ~tol)
              /\ \E extra \in 0..MaxInner, t \in BOOLEAN :
                    LET h == IF lo # NoRank /\ lo < held THEN lo ELSE held
                        nb == IF phase = "Running" THEN cnt + 1 + extra ELSE cnt IN
                    \E c \in (IF mn > 0 /\ stage + 2 < mn THEN BOOLEAN ELSE {FALSE}) :
                       \/ StepDone(nb, t, h, c)
                       \/ StepDone(nb, t, held, c)
DFinish    == /\ phase = "Running"
              /\ ~(cnt + 1 < max /\ ~tol)
              /\ \E p \in {q \in Points : pol = "auto" => FeasPoint(q)} :
                    \* stopping by tolerance means being at the minimiser; a budget stop may end anywhere
                    \E q \in {0} \cup (IF tol /\ (cnt + 1) * 10 <= max /\ (~touched \/ (obj.bnd /\ OnBound(Seq1(p)))) THEN {} ELSE {KConv + 1, KConvX + 1}) :
                       Finish("ok", held, held, held, Seq1(p), cnt + 1, tol, q, IF q = 0 THEN 0 ELSE KGap + 1)
DRaise     == /\ phase = "Running" /\ Licensed("raise:ConstraintException")
              /\ Finish("raise:ConstraintException", NoRank, NoRank, NoRank, <<>>, cnt + 1, tol, 0, 0)
DMStepEnd  == MStepEnd("ok")
DBracket   == \E xs \in [1..3 -> 0..2], fs \in [1..3 -> Ranks] :
                 /\ MiddleLowest([x |-> xs, f |-> fs])
                 /\ Bracket("ok", <<xs[1], xs[2], xs[3]>>, <<fs[1], fs[2], fs[3]>>)

Next == \/ DOptEarly \/ DRebox \/ DInitBegin \/ DEval \/ DInitEnd \/ Clone \/ MStepBegin \/ DMStepEnd
        \/ DOptBegin \/ DStep \/ DFinish \/ DRaise \/ BrBegin \/ DBracket

\* the loop makes progress whenever it can: every optimize() ends
SafetySpec == Init /\ [][Next]_vars
Spec == Init /\ [][Next]_vars /\ WF_vars(DStep) /\ WF_vars(DFinish) /\ WF_vars(DMStepEnd)

Terminates == [](phase = "Running" => <>(phase \in {"Done", "Dead"}))

\* design-only: the held value never exceeds the starting value of the run
HeldDescends == (phase \in {"Running", "Done"} /\ s0 # NoRank /\ held # NoRank) => held <= s0
=============================================================================
