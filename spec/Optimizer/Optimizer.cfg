SPECIFICATION SafetySpec
CONSTANTS
  Budgets = {1, 3}
  Pols = {"auto", "ignore", "keep"}
  Objs <- ObjsAll
  MaxRank = 1
  MaxInner = 1
  Boxes <- BoxesQ
  KConv = 1000
  KConvX = 10
INVARIANTS TypeOK Descent ReportConsistent Budget FeasibleAlways Converged Bracketed Protocol HeldDescends
CHECK_DEADLOCK FALSE
