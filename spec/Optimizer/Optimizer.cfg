SPECIFICATION SafetySpec
CONSTANTS
  MetaNs = {3}
  Budgets = {1, 3}
  Pols = {"auto", "ignore", "keep"}
  Objs <- ObjsOne
  MaxRank = 1
  MaxInner = 1
  Boxes <- BoxesQ1
  KConv = 1000
  KConvX = 10
  KGap = 100
INVARIANTS TypeOK MetaSchedule Descent ReportConsistent Budget FeasibleAlways Converged Bracketed Protocol HeldDescends
CHECK_DEADLOCK FALSE
