---------------------------- MODULE OptimizerTrace ----------------------------
\* Trace validation for C10: every event recorded by harness/drv_optim.cpp from
\* the real optimisers must be a step of Optimizer (phase protocol), the
\* arguments being the observations the event carries; the C10 invariants are
\* evaluated in every state, so the first event after which a clause fails is
\* reported together with the name of the clause.
\* A Hang / Crash event (watchdog, evaluation cap, signal) matches no action:
\* "the run terminates" is violated at that event.
EXTENDS Optimizer, TraceLib

\* Reset carries the configuration of the scenario
TReset ==
  /\ IsEvent("Reset")
  /\ phase' = "New" /\ pol' = Ev.pol /\ box' = Ev.box /\ max' = Ev.max /\ mn' = Ev.mn
  /\ obj' = [quad |-> Ev.kind = "quad", inact |-> Ev.inact,
              \* no convergence claim for the line search, nor when only a sub-list of the coordinates is optimised
              \* (block-wise histories: the minimiser of the restricted problem is not the one the driver knows), nor for a
              \* meta-optimiser driving the simplex method one step at a time (its init() rebuilds the simplex every time)
              conv |-> IF Ev.opt = "NewtonBacktrack" \/ ~Ev.cvg THEN "none"
                       ELSE IF Ev.opt \in {"Brent", "GoldenSection"} THEN "x" ELSE "f",
              bnd |-> Ev.opt = "Bfgs"]
  /\ cnt' = 0 /\ steps' = 0 /\ tol' = FALSE /\ s0' = NoRank /\ held' = NoRank /\ pend' = 0 /\ lo' = NoRank /\ touched' = FALSE
  /\ back' = "New" /\ stage' = 0 /\ rep' = NoRep /\ br' = NoRep
  /\ infeas' = FALSE /\ overrun' = FALSE /\ lateStep' = FALSE /\ badRaise' = FALSE /\ earlyOk' = FALSE /\ coarseLate' = FALSE

TOptEarly   == IsEvent("OptEarly")   /\ OptEarly(Ev.r)
TRebox      == IsEvent("Rebox")      /\ Rebox(Ev.box, Ev.inact)
TInitBegin  == IsEvent("InitBegin")  /\ InitBegin(Ev.f0, Ev.sf)
TEvals      == IsEvent("Evals")      /\ EvalMany(Ev.pts)
TInitEnd    == IsEvent("InitEnd")    /\ InitEnd(Ev.r)
TClone      == IsEvent("Clone")      /\ Clone
TMStepBegin == IsEvent("MStepBegin") /\ MStepBegin
TStepDone   == IsEvent("StepDone")   /\ StepDone(Ev.nb, Ev.tol, Ev.fv, Ev.itc)
TMStepEnd   == IsEvent("MStepEnd")   /\ MStepEnd(Ev.r)
TOptBegin   == IsEvent("OptBegin")   /\ OptBegin(Ev.s0)
TFinish     == /\ IsEvent("Finish")
               /\ IF Ev.r = "ok"
                  THEN Finish("ok", Ev.ret, Ev.fv, Ev.re, Ev.feas, Ev.nb, Ev.tol, Ev.q, Ev.g)
                  ELSE Finish(Ev.r, NoRank, NoRank, NoRank, <<>>, Ev.nb, Ev.tol, 0, 0)
TBrBegin    == IsEvent("BrBegin")    /\ BrBegin
TBracket    == /\ IsEvent("Bracket")
               /\ IF Ev.r = "ok" THEN Bracket("ok", Ev.x, Ev.f) ELSE Bracket(Ev.r, <<>>, <<>>)

TraceNext == \/ TReset \/ TOptEarly \/ TRebox \/ TInitBegin \/ TEvals \/ TInitEnd \/ TClone \/ TMStepBegin
             \/ TStepDone \/ TMStepEnd \/ TOptBegin \/ TFinish \/ TBrBegin \/ TBracket

TraceInit ==
  /\ l = 1
  /\ phase = "Dead" /\ pol = "ignore" /\ box = <<>> /\ max = 0 /\ mn = 0
  /\ obj = [quad |-> FALSE, inact |-> FALSE, conv |-> "none", bnd |-> FALSE]
  /\ cnt = 0 /\ steps = 0 /\ tol = FALSE /\ s0 = NoRank /\ held = NoRank /\ pend = 0 /\ lo = NoRank /\ touched = FALSE
  /\ back = "New" /\ stage = 0 /\ rep = NoRep /\ br = NoRep
  /\ infeas = FALSE /\ overrun = FALSE /\ lateStep = FALSE /\ badRaise = FALSE /\ earlyOk = FALSE /\ coarseLate = FALSE

TraceSpec == TraceInit /\ [][TraceNext]_<<vars, l>>
=============================================================================
