SPECIFICATION Spec
CONSTANTS
  U = 4
  Objs = {1, 2}
  Kinds = {"rs"}
  MaxLen = 3
CONSTRAINT Bound
INVARIANTS TypeOK MrCanonical MrUnionIsPts MrMeasure RsKeepsEvery
PROPERTY CopyDeep
CHECK_DEADLOCK FALSE
