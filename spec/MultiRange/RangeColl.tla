------------------------------ MODULE RangeColl ------------------------------
(* Range collections of bpp-core (src/Bpp/Numeric/Range.h) as point sets.     *)
(*                                                                            *)
(* Objects are MultiRange ("mr") or RangeSet ("rs") instances.  Each public   *)
(* call is one action.  Every action has the shape Step(o, args, new) where   *)
(* `new` is the stored sequence after the call:                               *)
(*   - the design model (Next) supplies new = the transcription of the merge  *)
(*     / slice / clean algorithm (the Algo operators), and TLC checks the C20 invariants   *)
(*     over every history inside the bound;                                   *)
(*   - the trace specification RangeCollTrace supplies new = the sequence   *)
(*     read back from the real object, so the same ghost bookkeeping and the  *)
(*     same invariants judge the implementation.                              *)
(* Ghost state is definitional: pts[o] is the union of everything added,      *)
(* intersected with every restriction since; items[o] are the individual      *)
(* point sets a RangeSet must keep.                                           *)
EXTENDS RangePrims, TLC

CONSTANTS U,        \* coordinates range over 0..U in the design model
          Objs,     \* object identifiers of the design model
          Kinds,    \* subset of {"mr", "rs"} explored by the design model
          MaxLen    \* bound on the length of a RangeSet in the design model

VARIABLES kind,     \* kind[o] \in {"mr","rs"} for live objects (DOMAIN kind = live objects)
          seq,      \* seq[o]  : stored sequence of ranges <<b,e>>
          pts,      \* ghost, mr: point set the object must denote
          items     \* ghost, rs: sequence of point sets the object must keep

vars == <<kind, seq, pts, items>>

Live == DOMAIN kind

AllCells(s)   == UNION {Cells(s[i]) : i \in DOMAIN s}
CellsSeq(s)   == [i \in DOMAIN s |-> Cells(s[i])]
SumLen(s)     == IF s = <<>> THEN 0
                 ELSE LET F[i \in 0..Len(s)] == IF i = 0 THEN 0 ELSE F[i-1] + LengthR(s[i]) IN F[Len(s)]
Flatten(s)    == [i \in 1..(2 * Len(s)) |-> s[(i + 1) \div 2][IF i % 2 = 1 THEN 1 ELSE 2]]
Canonical(s)  == /\ \A i \in DOMAIN s : s[i][1] < s[i][2]
                 /\ \A i \in 1..(Len(s) - 1) : s[i][2] <= s[i+1][1]
WellFormed(s) == \A i \in DOMAIN s : s[i][1] <= s[i][2]
Keep(s, T(_)) == SelectSeq(s, T)

\* ---------------------------------------------------------------- algorithm (transcription)
Lt(x, y) == x[1] < y[1] \/ x[2] < y[2]                       \* Range::operator<
Clean(s) == LET sorted == SortSeq(s, Lt) IN SelectSeq(sorted, LAMBDA r : ~IsEmptyR(r))

AlgoAdd(s, q) ==
  LET ov == {i \in DOMAIN s : OverlapAlgo(s[i], q)} IN
  IF ov = {} THEN Clean(Append(s, q))
  ELSE LET f == CHOOSE i \in ov : \A j \in ov : i <= j
           \* others are absorbed from the last to the first
           Absorb[k \in 0..Len(s)] ==        \* k = number of positions (from the end) already scanned
             IF k = 0 THEN ExpandAlgo(s[f], q)
             ELSE LET i == Len(s) - k + 1 IN
                  IF i \in ov /\ i # f THEN ExpandAlgo(Absorb[k-1], s[i]) ELSE Absorb[k-1]
           merged == Absorb[Len(s)]
           kept == [i \in DOMAIN s |-> IF i = f THEN merged ELSE s[i]]
           idx  == SelectSeq([i \in DOMAIN s |-> i], LAMBDA i : i = f \/ i \notin ov)
       IN Clean([j \in DOMAIN idx |-> kept[idx[j]]])

AlgoRestrict(s, q) == Clean([i \in DOMAIN s |-> SliceAlgo(s[i], q)])
AlgoFilter(s, q)   == SelectSeq(s, LAMBDA r : ContainsAlgo(q, r))

AlgoAddS(s, q)      == IF IsEmptyR(q) THEN s ELSE Append(s, q)
AlgoRestrictS(s, q) == SelectSeq([i \in DOMAIN s |-> SliceAlgo(s[i], q)], LAMBDA r : ~IsEmptyR(r))

\* ---------------------------------------------------------------- actions (ghost = definition)
Init == kind = <<>> /\ seq = <<>> /\ pts = <<>> /\ items = <<>>

Put(f, o, v) == [x \in DOMAIN f \cup {o} |-> IF x = o THEN v ELSE f[x]]

New(o, k) ==
  /\ o \notin Live
  /\ kind' = Put(kind, o, k) /\ seq' = Put(seq, o, <<>>)
  /\ pts' = Put(pts, o, {}) /\ items' = Put(items, o, <<>>)

\* copy construction (o2 fresh) or assignment (o2 live, same kind)
Copy(o, o2) ==
  /\ o \in Live /\ o2 # o
  /\ (o2 \in Live => kind[o2] = kind[o])
  /\ kind' = Put(kind, o2, kind[o]) /\ seq' = Put(seq, o2, seq[o])
  /\ pts' = Put(pts, o2, pts[o]) /\ items' = Put(items, o2, items[o])

Drop(o) ==     \* destruction; other objects must not notice
  /\ o \in Live
  /\ LET D == Live \ {o} IN
       /\ kind' = [x \in D |-> kind[x]] /\ seq' = [x \in D |-> seq[x]]
       /\ pts' = [x \in D |-> pts[x]] /\ items' = [x \in D |-> items[x]]

AddStep(o, a, b, new) ==
  /\ o \in Live /\ kind[o] = "mr"
  /\ seq' = [seq EXCEPT ![o] = new]
  /\ pts' = [pts EXCEPT ![o] = @ \cup Cells(Mk(a, b))]
  /\ UNCHANGED <<kind, items>>

RestrictStep(o, a, b, new) ==
  /\ o \in Live /\ kind[o] = "mr"
  /\ seq' = [seq EXCEPT ![o] = new]
  /\ pts' = [pts EXCEPT ![o] = @ \cap Cells(Mk(a, b))]
  /\ UNCHANGED <<kind, items>>

\* filterWithin keeps exactly the stored ranges lying inside [a,b[ ; the point
\* set afterwards is what those ranges cover.
FilterStep(o, a, b, new) ==
  /\ o \in Live /\ kind[o] = "mr"
  /\ new = SelectSeq(seq[o], LAMBDA r : ContainsDef(Mk(a, b), r))
  /\ seq' = [seq EXCEPT ![o] = new]
  /\ pts' = [pts EXCEPT ![o] = AllCells(new)]
  /\ UNCHANGED <<kind, items>>

ClearStep(o, new) ==
  /\ o \in Live
  /\ new = <<>>
  /\ seq' = [seq EXCEPT ![o] = new]
  /\ pts' = [pts EXCEPT ![o] = {}] /\ items' = [items EXCEPT ![o] = <<>>]
  /\ UNCHANGED kind

AddSStep(o, a, b, new) ==
  /\ o \in Live /\ kind[o] = "rs"
  /\ seq' = [seq EXCEPT ![o] = new]
  /\ items' = [items EXCEPT ![o] = IF a = b THEN @ ELSE Append(@, Cells(Mk(a, b)))]
  /\ UNCHANGED <<kind, pts>>

RestrictSStep(o, a, b, new) ==
  /\ o \in Live /\ kind[o] = "rs"
  /\ seq' = [seq EXCEPT ![o] = new]
  /\ items' = [items EXCEPT ![o] =
        SelectSeq([i \in DOMAIN @ |-> @[i] \cap Cells(Mk(a, b))], LAMBDA c : c # {})]
  /\ UNCHANGED <<kind, pts>>

FilterSStep(o, a, b, new) ==
  /\ o \in Live /\ kind[o] = "rs"
  /\ seq' = [seq EXCEPT ![o] = new]
  /\ items' = [items EXCEPT ![o] = SelectSeq(@, LAMBDA c : c \subseteq Cells(Mk(a, b)))]
  /\ UNCHANGED <<kind, pts>>

\* ---------------------------------------------------------------- design model
Coord == 0..U
Next ==
  \/ \E o \in Objs, k \in Kinds : New(o, k)
  \/ \E o, o2 \in Objs : Copy(o, o2)
  \/ \E o \in Live : Drop(o)
  \/ \E o \in Live : ClearStep(o, <<>>)
  \/ \E o \in Live, a, b \in Coord :
        \/ AddStep(o, a, b, AlgoAdd(seq[o], Mk(a, b)))
        \/ RestrictStep(o, a, b, AlgoRestrict(seq[o], Mk(a, b)))
        \/ FilterStep(o, a, b, AlgoFilter(seq[o], Mk(a, b)))
        \/ AddSStep(o, a, b, AlgoAddS(seq[o], Mk(a, b)))
        \/ RestrictSStep(o, a, b, AlgoRestrictS(seq[o], Mk(a, b)))
        \/ FilterSStep(o, a, b, AlgoFilter(seq[o], Mk(a, b)))

Spec == Init /\ [][Next]_vars

Bound == \A o \in Live : kind[o] = "rs" => Len(seq[o]) <= MaxLen

\* ---------------------------------------------------------------- C20 invariants
TypeOK       == /\ DOMAIN seq = Live /\ DOMAIN pts = Live /\ DOMAIN items = Live
                /\ \A o \in Live : kind[o] \in {"mr", "rs"} /\ WellFormed(seq[o])
\* MultiRange: disjoint, non-empty, ascending
MrCanonical  == \A o \in Live : kind[o] = "mr" => Canonical(seq[o])
\* MultiRange: union is exactly what was added, cut by every later restriction
MrUnionIsPts == \A o \in Live : kind[o] = "mr" => AllCells(seq[o]) = pts[o]
\* MultiRange: total length is the measure of the union
MrMeasure    == \A o \in Live : kind[o] = "mr" => SumLen(seq[o]) = Cardinality(pts[o])
\* RangeSet: every non-empty range kept individually, in order, none empty
RsKeepsEvery == \A o \in Live : kind[o] = "rs" =>
                   /\ CellsSeq(seq[o]) = items[o]
                   /\ \A i \in DOMAIN seq[o] : ~IsEmptyR(seq[o][i])

\* Copies are deep: every step changes the stored sequence of at most one
\* object (the trace binding compares the sequences of all watched objects
\* after every call, so an implementation that shares storage is rejected).
CopyDeep ==
  [][Cardinality({o \in Live \cap DOMAIN kind' : seq'[o] # seq[o]}) <= 1]_vars
=============================================================================
