SPECIFICATION Spec
CONSTANT N = 8
