----------------------------- MODULE RangeLemmas -----------------------------
(* Closed lemmas evaluated by TLC: the transcription of the Range primitives *)
(* agrees with interval arithmetic on every pair of ranges over 0..N.        *)
EXTENDS RangePrims, TLC
CONSTANT N
ASSUME PrimLemmas(N)
VARIABLE x
Init == x = 0
Next == UNCHANGED x
Spec == Init /\ [][Next]_x
=============================================================================
