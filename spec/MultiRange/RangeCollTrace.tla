---------------------------- MODULE RangeCollTrace ----------------------------
(* Trace validation: every event recorded from the real MultiRange<T> /      *)
(* RangeSet<T> / Range<T> objects must be a step of RangeColl, with the       *)
(* stored sequences read back from the objects taking the place of the        *)
(* algorithm's result; the C20 invariants are evaluated in every state.       *)
(* Event fields: e (action), o, o2, a, b (arguments as given, possibly        *)
(* reversed), w = list of watched objects                                     *)
(*     <<id, ranges via getRange, getBounds(), totalLength(), isEmpty(), size()>> *)
EXTENDS RangeColl, TraceLib

W == Ev.w
Entry(o) == W[CHOOSE i \in DOMAIN W : W[i][1] = o]
Logged(o) == Entry(o)[2]

\* what the object reports must be consistent with the sequence read back and
\* with the ghost point set / item list (evaluated on the primed state)
WatchedOk ==
  \A i \in DOMAIN W :
     LET x == W[i]  id == x[1] IN
       /\ id \in DOMAIN seq'
       /\ seq'[id] = x[2]
       /\ x[3] = Flatten(x[2])                                   \* getBounds
       /\ \/ x[4] = -1                                           \* totalLength (not logged for scaled coordinates)
          \/ x[4] = (IF kind'[id] = "mr" THEN Cardinality(pts'[id]) ELSE SumLen(x[2]))
       /\ x[5] = (x[2] = <<>>)                                   \* isEmpty
       /\ x[6] = Len(x[2])                                       \* size

TReset == /\ IsEvent("Reset")
          /\ kind' = <<>> /\ seq' = <<>> /\ pts' = <<>> /\ items' = <<>>

TNew   == IsEvent("New") /\ New(Ev.o, Ev.k) /\ WatchedOk
TCopy  == IsEvent("Copy") /\ Copy(Ev.o, Ev.o2) /\ WatchedOk
TDrop  == IsEvent("Drop") /\ Drop(Ev.o) /\ WatchedOk
TClear == IsEvent("Clear") /\ ClearStep(Ev.o, Logged(Ev.o)) /\ WatchedOk
TAdd   == IsEvent("Add") /\ AddStep(Ev.o, Ev.a, Ev.b, Logged(Ev.o)) /\ WatchedOk
TRestrict == IsEvent("Restrict") /\ RestrictStep(Ev.o, Ev.a, Ev.b, Logged(Ev.o)) /\ WatchedOk
TFilter   == IsEvent("Filter") /\ FilterStep(Ev.o, Ev.a, Ev.b, Logged(Ev.o)) /\ WatchedOk
TAddS     == IsEvent("AddS") /\ AddSStep(Ev.o, Ev.a, Ev.b, Logged(Ev.o)) /\ WatchedOk
TRestrictS == IsEvent("RestrictS") /\ RestrictSStep(Ev.o, Ev.a, Ev.b, Logged(Ev.o)) /\ WatchedOk
TFilterS   == IsEvent("FilterS") /\ FilterSStep(Ev.o, Ev.a, Ev.b, Logged(Ev.o)) /\ WatchedOk

\* Range<T> primitives on r = Range(a,b), q = Range(c,d) and a shift by k.
\* Point-set claims are made for non-empty operands only.
PrimOk(ev) ==
  LET r == Mk(ev.a, ev.b)  q == Mk(ev.c, ev.d)
      ne == ~IsEmptyR(r) /\ ~IsEmptyR(q) IN
  /\ ev.mk = r /\ ev.mq = q                                      \* constructor swaps reversed arguments
  /\ ev.len = LengthR(r)
  /\ ev.emp = IsEmptyR(r)
  /\ ev.sh = ShiftDef(r, ev.k)                                   \* shifting preserves length
  /\ ev.sh[2] - ev.sh[1] = ev.len
  /\ ev.ush = r                                                  \* shifting back restores the range
  /\ ev.sb = ShiftDef(r, 0 - r[1])                               \* r -= r.begin(): the argument is a value, not the live bound
  /\ ev.ab = ShiftDef(r, r[1])                                   \* r += r.begin()
  /\ ev.ae = ShiftDef(r, r[2])                                   \* r += r.end()
  /\ ev.dnlen = ev.len /\ ev.dn2len = ev.len                     \* shifting below the origin (unsigned: wrap) keeps the length
  /\ ev.cg = ContigDef(r, q)                                    \* contiguity is a statement about bounds (documented: "share one bound"), so it is
                                                                 \* asserted for empty operands too (seeded C20-19: an empty range nested inside the other)
  /\ ne => /\ ev.ov = OverlapDef(r, q)
           /\ ev.ct = ContainsDef(r, q)
           /\ ev.ex = ExpandDef(r, q)
           /\ ev.sl[1] <= ev.sl[2] /\ Cells(ev.sl) = SliceCells(r, q)
  /\ (~IsEmptyR(r)) => (ev.sl[1] <= ev.sl[2] /\ Cells(ev.sl) = SliceCells(r, q))
  /\ ev.eq = (r = q)

TPrim == IsEvent("Prim") /\ PrimOk(Ev) /\ UNCHANGED vars

TraceNext == TReset \/ TNew \/ TCopy \/ TDrop \/ TClear \/ TAdd \/ TRestrict \/ TFilter
             \/ TAddS \/ TRestrictS \/ TFilterS \/ TPrim
TraceInit == Init /\ l = 1
TraceSpec == TraceInit /\ [][TraceNext]_<<vars, l>>
=============================================================================
