----------------------------- MODULE RangePrims -----------------------------
(* Half-open integer ranges <<b, e>> = [b, e[ and the primitives of          *)
(* bpp::Range<T>.  Two layers are kept apart on purpose:                     *)
(*   *Def  : interval arithmetic / point-set definitions (what C20 states)   *)
(*   *Algo : transcription of the comparisons the code makes                 *)
(* TLC checks (PrimLemmas) that the two layers agree on every pair of ranges *)
(* over 0..U; the trace specification judges the implementation by *Def.     *)
EXTENDS Naturals, Integers, Sequences, FiniteSets

Mn(a, b) == IF a <= b THEN a ELSE b
Mx(a, b) == IF a >= b THEN a ELSE b

Mk(a, b)     == <<Mn(a, b), Mx(a, b)>>          \* the constructor swaps reversed arguments
IsEmptyR(r)  == r[1] = r[2]
LengthR(r)   == r[2] - r[1]
Cells(r)     == r[1] .. (r[2] - 1)              \* unit cell i stands for [i, i+1[

\* ---- definitions -------------------------------------------------------
OverlapDef(r, q)  == Cells(r) \cap Cells(q) # {}
ContainsDef(r, q) == Cells(q) \subseteq Cells(r)                 \* meaningful for non-empty q
ContigDef(r, q)   == q[1] = r[2] \/ q[2] = r[1]
Touching(r, q)    == q[1] <= r[2] /\ q[2] >= r[1]
ExpandDef(r, q)   == IF Touching(r, q) THEN <<Mn(r[1], q[1]), Mx(r[2], q[2])>> ELSE r
SliceCells(r, q)  == Cells(r) \cap Cells(q)
ShiftDef(r, k)    == <<r[1] + k, r[2] + k>>

\* ---- transcription of Range.h -----------------------------------------
OverlapAlgo(r, q)  == q[1] < r[2] /\ q[2] > r[1]
ContainsAlgo(r, q) == q[1] >= r[1] /\ q[2] <= r[2]
ExpandAlgo(r, q)   == << IF q[1] < r[1] /\ q[2] >= r[1] THEN q[1] ELSE r[1],
                         IF q[2] > r[2] /\ q[1] <= r[2] THEN q[2] ELSE r[2] >>
SliceAlgo(r, q)    == IF ~OverlapAlgo(r, q) THEN <<0, 0>>
                      ELSE LET b == IF q[1] > r[1] /\ q[1] <= r[2] THEN q[1] ELSE r[1]
                               e == IF q[2] < r[2] /\ q[2] >= b THEN q[2] ELSE r[2]
                           IN <<b, e>>

\* ---- agreement of the two layers on all pairs over 0..U ---------------
RangesOver(U) == {<<a, b>> \in (0..U) \X (0..U) : a <= b}
NonEmptyOver(U) == {r \in RangesOver(U) : ~IsEmptyR(r)}

PrimLemmas(U) ==
  /\ \A r, q \in NonEmptyOver(U) :
        /\ OverlapAlgo(r, q)  = OverlapDef(r, q)
        /\ ContainsAlgo(r, q) = ContainsDef(r, q)
        /\ ExpandAlgo(r, q)   = ExpandDef(r, q)
        /\ Cells(SliceAlgo(r, q)) = SliceCells(r, q)
        /\ (OverlapDef(r, q) => Cells(ExpandDef(r, q)) = Cells(r) \cup Cells(q))
  \* with an empty second operand slicing still yields the (empty) intersection
  /\ \A r \in NonEmptyOver(U), q \in RangesOver(U) : Cells(SliceAlgo(r, q)) = SliceCells(r, q)
  /\ \A a, b \in 0..U : Mk(a, b) = Mk(b, a) /\ Mk(a, b)[1] <= Mk(a, b)[2]
=============================================================================
