SPECIFICATION TraceSpec
CONSTANTS
  U = 0
  Objs = {}
  Kinds = {}
  MaxLen = 0
INVARIANTS TypeOK MrCanonical MrUnionIsPts MrMeasure RsKeepsEvery
POSTCONDITION TraceAccepted
CHECK_DEADLOCK FALSE
