SPECIFICATION Spec
CONSTANTS
  U = 6
  Objs = {1, 2}
  Kinds = {"mr"}
  MaxLen = 3
CONSTRAINT Bound
INVARIANTS TypeOK MrCanonical MrUnionIsPts MrMeasure RsKeepsEvery
PROPERTY CopyDeep
CHECK_DEADLOCK FALSE
