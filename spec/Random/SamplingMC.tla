----------------------------- MODULE SamplingMC -----------------------------
\* Call sets of the Sampling design model (records cannot be written in a cfg).
EXTENDS Sampling

\* one call of every shape the statement distinguishes
CallsAll == {
  [op |-> "getSample", src |-> <<>>, k |-> 0, repl |-> FALSE],
  [op |-> "getSample", src |-> <<>>, k |-> 1, repl |-> TRUE],
  [op |-> "getSample", src |-> <<>>, k |-> 1, repl |-> FALSE],
  [op |-> "getSample", src |-> <<1, 2>>, k |-> 0, repl |-> FALSE],
  [op |-> "getSample", src |-> <<1, 2>>, k |-> 1, repl |-> FALSE],
  [op |-> "getSample", src |-> <<1, 2>>, k |-> 2, repl |-> FALSE],
  [op |-> "getSample", src |-> <<1, 2>>, k |-> 3, repl |-> FALSE],
  [op |-> "getSample", src |-> <<1, 1, 2>>, k |-> 2, repl |-> FALSE],
  [op |-> "getSample", src |-> <<1, 2>>, k |-> 3, repl |-> TRUE],
  [op |-> "getSample", src |-> <<1, 2, 3>>, w |-> <<0, 1, 1>>, k |-> 3, repl |-> FALSE],
  [op |-> "getSample", src |-> <<1, 2>>, w |-> <<0, 2>>, k |-> 2, repl |-> TRUE],
  [op |-> "pickOne", src |-> <<>>, repl |-> FALSE, cst |-> FALSE],
  [op |-> "pickOne", src |-> <<1, 2>>, repl |-> FALSE, cst |-> FALSE],
  [op |-> "pickOne", src |-> <<1, 1>>, repl |-> TRUE, cst |-> TRUE],
  [op |-> "pickOne", src |-> <<1, 2>>, w |-> <<1, 0>>, repl |-> FALSE, cst |-> FALSE],
  [op |-> "pickOne", src |-> <<1, 2>>, w |-> <<0, 3>>, repl |-> TRUE, cst |-> FALSE],
  [op |-> "cumSum", cum |-> <<0, 1, 1, 2>>],
  [op |-> "multinom", n |-> 2, w |-> <<1, 0, 1>>],
  [op |-> "randInt", entry |-> 0],
  [op |-> "randInt", entry |-> 2],
  [op |-> "flip", p |-> 0], [op |-> "flip", p |-> 1], [op |-> "flip", p |-> 2],
  [op |-> "real", kind |-> "uniform", par |-> <<10>>]}

\* a few calls with small outcome sets, for histories over several runs
CallsFew == {
  [op |-> "pickOne", src |-> <<1, 2>>, repl |-> FALSE, cst |-> FALSE],
  [op |-> "getSample", src |-> <<1, 2>>, k |-> 2, repl |-> FALSE],
  [op |-> "getSample", src |-> <<>>, k |-> 0, repl |-> FALSE],
  [op |-> "randInt", entry |-> 2],
  [op |-> "randInt", entry |-> 0]}
=============================================================================
