SPECIFICATION TraceSpec
CONSTANTS
  Objs = {}
  Pars = {}
  Doms = {}
  Impl = "ok"
INVARIANTS ObservedDrawOK DrawCurrent
POSTCONDITION TraceAccepted
CHECK_DEADLOCK FALSE
