----------------------------- MODULE DistHistory -----------------------------
\* Draws of a distribution object over its life: built, re-parameterised
\* through the parameter interface, restricted, copied, assigned.  Under a seed
\* the draws (continuous randC(), discrete rand()) of an object are a function
\* of its CURRENT parameters and its CURRENT domain only:
\*   DrawCurrent      a draw uses the current parameters / domain, whatever the
\*                    history (no sampler-side value cached at an earlier time);
\*   CopyIndependent  what is done to a copy (restriction, new parameters) leaves
\*                    the draws of the other object unchanged.
\* Design model: par / dom are the definitional (ghost) parameters and domain;
\* the implementation keeps a sampler-side copy of the parameters (spar, what
\* randC really uses) and holds its domain through a reference (dref) into a heap
\* of interval objects.  Impl = "ok" is what the code should do; negative
\* controls: "staleSampler" refreshes spar from the values before the update,
\* "sharedDomain" copy-constructs with the same interval object.
EXTENDS Integers, Sequences, FiniteSets, TLC

CONSTANTS Objs, Pars, Doms,   \* design model bounds (Doms: domain values, 0 = unrestricted)
          Impl                \* "ok" | "staleSampler" | "sharedDomain"

VARIABLES par, dom,           \* ghost: o -> current parameters / domain   (DOMAIN par = live objects)
          spar, dref, heap,   \* implementation: sampler-side parameters, domain reference, interval objects
          last                \* <<>> or the last draw [o, usedPar, usedDom, curPar, curDom]

dvars == <<par, dom, spar, dref, heap, last>>
Put(f, k, v) == [x \in DOMAIN f \cup {k} |-> IF x = k THEN v ELSE f[x]]
Fresh == Cardinality(DOMAIN heap) + 1

Init == par = <<>> /\ dom = <<>> /\ spar = <<>> /\ dref = <<>> /\ heap = <<>> /\ last = <<>>

New(o, p) == /\ o \notin DOMAIN par
             /\ par' = Put(par, o, p) /\ dom' = Put(dom, o, 0) /\ spar' = Put(spar, o, p)
             /\ dref' = Put(dref, o, Fresh) /\ heap' = Put(heap, Fresh, 0) /\ UNCHANGED last
\* setParameterValue / setParametersValues / matchParametersValues -> fireParameterChanged
SetPar(o, p) == /\ o \in DOMAIN par
                /\ par' = [par EXCEPT ![o] = p]
                /\ spar' = [spar EXCEPT ![o] = IF Impl = "staleSampler" THEN par[o] ELSE p]
                /\ UNCHANGED <<dom, dref, heap, last>>
\* restrictToConstraint: the interval object of o is narrowed in place
Restrict(o, d) == /\ o \in DOMAIN par /\ d # 0
                  /\ dom' = [dom EXCEPT ![o] = d] /\ heap' = [heap EXCEPT ![dref[o]] = d]
                  /\ UNCHANGED <<par, spar, dref, last>>
\* clone() / copy construction (o2 fresh) and operator= (o2 live): o2 gets its own interval object
CopyTo(o, o2) == /\ o \in DOMAIN par /\ o2 # o
                 /\ par' = Put(par, o2, par[o]) /\ dom' = Put(dom, o2, dom[o]) /\ spar' = Put(spar, o2, spar[o])
                 /\ IF Impl = "sharedDomain" /\ o2 \notin DOMAIN par
                    THEN dref' = Put(dref, o2, dref[o]) /\ UNCHANGED heap
                    ELSE dref' = Put(dref, o2, Fresh) /\ heap' = Put(heap, Fresh, heap[dref[o]])
                 /\ UNCHANGED last
Draw(o) == /\ o \in DOMAIN par
           /\ last' = [o |-> o, usedPar |-> spar[o], usedDom |-> heap[dref[o]], curPar |-> par[o], curDom |-> dom[o]]
           /\ UNCHANGED <<par, dom, spar, dref, heap>>

Next == \/ \E o \in Objs, p \in Pars : New(o, p) \/ SetPar(o, p)
        \/ \E o \in Objs, d \in Doms : Restrict(o, d)
        \/ \E o \in Objs, o2 \in Objs : CopyTo(o, o2)
        \/ \E o \in Objs : Draw(o)
Spec == Init /\ [][Next]_dvars
HeapBound == Cardinality(DOMAIN heap) <= 4

DrawCurrent == last # <<>> => (last.usedPar = last.curPar /\ last.usedDom = last.curDom)
\* no action on another object changes what an object would draw with
CopyIndependent == [][\A o \in DOMAIN par :
                        (o \in DOMAIN par' /\ par'[o] = par[o] /\ dom'[o] = dom[o]) =>
                           (spar'[o] = spar[o] /\ heap'[dref'[o]] = heap[dref[o]])]_dvars

\* ------------------------------------------------------------ observation predicate (DistHistoryTrace)
\* o: [sameC, sameD, domC, domD]: the k continuous / discrete draws under one seed equal, bit for bit, those of a
\* freshly built object with the object's current parameters and restriction; they lie in the bounds the object reports
DrawOK(o) == o.sameC /\ o.sameD /\ o.domC /\ o.domD
=============================================================================
