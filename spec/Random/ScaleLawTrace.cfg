SPECIFICATION TraceSpec
CONSTANTS
  ZMag = {}
  ExpMax = 0
  Impl = "decl"
INVARIANTS LawHolds PickHolds RandCOK
POSTCONDITION TraceAccepted
CHECK_DEADLOCK FALSE
