SPECIFICATION TraceSpec
CONSTANTS
  ZMag = {}
  ExpMax = 0
  Impl = "decl"
INVARIANTS LawHolds PickHolds RestrictHolds RandCOK
POSTCONDITION TraceAccepted
CHECK_DEADLOCK FALSE
