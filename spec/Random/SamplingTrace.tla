--------------------------- MODULE SamplingTrace ---------------------------
\* Trace validation of RandomTools (and of the calls drawing from its
\* generator): every event recorded by harness/drv_random.cpp (modes sampling-*)
\* is a step of Sampling with the outcome the implementation returned in place
\* of the design model's choice; StructOK and Reproducible judge every state.
\*   {"e":"SetSeed","seed":n}
\*   {"e":"Call","c":{op, arguments},"r":{st, bpp, cls | results}}
EXTENDS Sampling, TraceLib

TReset   == IsEvent("Reset") /\ seed' = -1 /\ log' = <<>> /\ runs' = <<>>
TSetSeed == IsEvent("SetSeed") /\ Ev.seed >= 0 /\ SetSeed(Ev.seed)
TCall    == IsEvent("Call") /\ Step(Ev.c, Ev.r)

TraceNext == TReset \/ TSetSeed \/ TCall
TraceInit == Init /\ l = 1
TraceSpec == TraceInit /\ [][TraceNext]_<<svars, l>>

\* only the newest entry can change the verdict (the earlier ones were judged in earlier states)
LastOK == log # <<>> => OutcomeOK(log[Len(log)].c, log[Len(log)].r)
LastReproducible == log # <<>> => AgreesAt(seed, log, Len(log))
=============================================================================
