------------------------------ MODULE ScaleLaw ------------------------------
\* What the *arguments* of the continuous samplers mean ("a mean argument is
\* the mean, a rate argument is the rate, a variance argument is the variance",
\* and for the distribution classes "the law that the same parameters describe
\* in the library's cumulative functions"), stated without statistics.
\*
\* Under one seed a sampler of a location/scale family is a fixed function of
\* the uniform stream: X = loc + scale * Z, with Z (the standardised deviate)
\* depending on the seed and on the shape arguments only.  So the meaning of an
\* argument is an exact transformation law between two draws under the same
\* seed that differ in that argument only:
\*     mean / scale / sd  x f   =>  X - loc  is multiplied by f
\*     rate               x f   =>  X - loc  is divided by f
\*     variance           x f   =>  X - loc  is multiplied by sqrt(f)   (f in {4, 1/4})
\*     location           + d   =>  X        is shifted by d
\*     same arguments           =>  the same draw                        (reproducibility)
\* Factors are powers of two, so the laws hold exactly in floating point.
\*
\* Numbers are dyadic: a value is an integer count of 1/Unit, a factor f is
\* coded by 4f in {1, 2, 4, 8, 16}.  The observed transformation is coded the
\* same way (RatioCode), 0 = none of these.
\*
\* The design model draws Z from a small set and evaluates every sampler under
\* an "implementation reading" Impl of its arguments; with Impl = Decl (the
\* declared meaning) the law invariant holds over all histories, with a
\* mismatching reading (negative control, ImplExpAsRate) TLC reports LawHolds
\* violated.  ScaleLawTrace replaces the evaluation by what the code returned.
EXTENDS Integers, Sequences, FiniteSets, TLC

CONSTANTS ZMag,      \* design model: magnitudes of the standardised deviates (positive integers)
          ExpMax,    \* design model: arguments are 2^p, p in -ExpMax..ExpMax (even p only for a variance)
          Impl       \* design model: "decl" | "expAsRate" | "gaussSd" | "gammaScale" | "retryOtherLaw"

VARIABLES last,      \* <<>> or the last observation [s, arg, kind, f, code] / [s, arg, kind, d, code]
          pick,      \* <<>> or the last inverse-cdf pick [cum, r, tie, out]
          rd         \* <<>> or the last draw of a restricted distribution [s, inDom, idx, dom]

lvars == <<last, pick, rd>>

\* ------------------------------------------------------------ declared meaning of the arguments
\* RandomTools: randExponential(mean); randGaussian(mean, variance); randGamma(alpha, beta) with beta
\* as pGamma/qGamma use it (pGamma(x, a, b) = P(a, b*x): a rate); giveRandomNumberBetweenZeroAndEntry(entry).
\* Classes (their own pProb/qProb): Exponential(lambda): 1 - exp(-lambda x); TruncExponential(lambda, tp)
\* with tp a length (scaled along, 1/f); Gaussian(mu, sigma): pNorm(x, mu, sigma) sigma = sd;
\* Gamma(alpha, beta, offset): pGamma(x - offset, alpha, beta); Uniform(min, max): pseudo-arguments
\* 1 = shift both bounds, 2 = scale both bounds.
Decl == [s \in {"rt.exp", "rt.gauss", "rt.gamma", "rt.unif", "dd.exp", "dd.texp", "dd.gauss", "dd.gamma", "dd.unif"} |->
           CASE s = "rt.exp"   -> <<"mean">>
             [] s = "rt.gauss" -> <<"location", "variance">>
             [] s = "rt.gamma" -> <<"shape", "rate">>
             [] s = "rt.unif"  -> <<"scale">>
             [] s = "dd.exp"   -> <<"rate">>
             [] s = "dd.texp"  -> <<"rate">>
             [] s = "dd.gauss" -> <<"location", "sd">>
             [] s = "dd.gamma" -> <<"shape", "rate", "location">>
             [] s = "dd.unif"  -> <<"location", "scale">>]
Samplers == DOMAIN Decl

\* ------------------------------------------------------------ the law
Factors == {1, 2, 8, 16}                       \* 4f for f in {1/4, 1/2, 2, 4}
\* expected code of (X' - loc') / (X - loc) when an argument of kind k is multiplied by f (coded 4f)
Expected(k, f4) ==
  CASE k \in {"mean", "scale", "sd"} -> f4
    [] k = "rate"                    -> 16 \div f4
    [] k = "variance"                -> IF f4 = 16 THEN 8 ELSE IF f4 = 1 THEN 2 ELSE 0
    [] OTHER                         -> 0
HasLaw(k, f4) == k \in {"mean", "scale", "sd", "rate"} \/ (k = "variance" /\ f4 \in {1, 16})

\* an observation o is lawful
\*   kind "same":  o.code = 4                       (same seed, same arguments)
\*   scale-like:   o.code = Expected(kind, o.f)
\*   location:     o.code = 4, code of (X' - X) / d
Lawful(o) ==
  CASE o.kind = "same"     -> o.code = 4
    [] o.kind = "location" -> o.code = 4
    [] OTHER               -> HasLaw(o.kind, o.f) /\ o.code = Expected(o.kind, o.f)

LawHolds == last # <<>> => Lawful(last)

\* ------------------------------------------------------------ picks by inverse cdf
\* pickFromCumSum(w), randMultinomial(n, w) and the weighted pickOne draw a uniform u and return the
\* category whose cumulative interval contains u.  With the thresholds cum[1] <= ... <= cum[n] (integers,
\* cum[n] = total) and r = the number of thresholds strictly below u * total (its rank; the uniform itself
\* is read from the same seed), the category is r (0-based); when u hits a threshold exactly (tie) the
\* neighbour r + 1 is accepted too (the statement does not say which side is closed).  Consequences:
\* a zero-mass category is never returned, the pick is monotone in the uniform, n draws give n states.
PickOK(o) ==
  /\ Len(o.out) = Len(o.r) /\ Len(o.tie) = Len(o.r)
  /\ \A i \in DOMAIN o.r :
        /\ o.out[i] \in 0..(Len(o.cum) - 1)
        /\ o.out[i] = o.r[i] \/ (o.tie[i] /\ o.out[i] = o.r[i] + 1)
CountsSumToN(o) ==
  LET Cnt(j) == Cardinality({i \in DOMAIN o.out : o.out[i] = j})
      F[j \in -1..(Len(o.cum) - 1)] == IF j = -1 THEN 0 ELSE F[j-1] + Cnt(j)
  IN F[Len(o.cum) - 1] = Len(o.r)
MonotoneInU(o) == \A i, j \in DOMAIN o.r : (o.r[i] < o.r[j] /\ ~o.tie[i] /\ ~o.tie[j]) => o.out[i] <= o.out[j]
PickHolds == pick # <<>> => (PickOK(pick) /\ CountsSumToN(pick) /\ MonotoneInU(pick))

\* transcription of the three search loops on ranks: "u <= cum[pos]" <=> pos >= r, "u < cum[pos]" <=> pos >= r (+1 on a tie)
AlgoLe(n, r) == IF r < n - 1 THEN r ELSE n - 1                                   \* pickFromCumSum / randMultinomial
AlgoLt(n, r, tie) == LET q == IF tie THEN r + 1 ELSE r IN IF q < n - 1 THEN q ELSE n - 1   \* weighted pickOne
CumSet == {<<1>>, <<0, 1>>, <<1, 1, 3>>, <<0, 2, 2, 2>>, <<1, 2, 3, 3>>}
\* ranks a uniform in [0,1] can have: below the first positive threshold .. below the total
Ranks(c) == {r \in 0..(Len(c) - 1) : c[r + 1] > 0 /\ (r = 0 \/ c[r] < c[Len(c)])}

\* ------------------------------------------------------------ draws of a restricted distribution
\* A distribution restricted to an interval (restrictToConstraint) draws by rejection.  Under one seed the
\* unrestricted distribution with the same parameters yields the raw stream x1, x2, ... (its successive
\* randC() after seeding; its argument conventions are what the pair laws above establish); the restricted
\* object, seeded alike, must return exactly the first element of that stream that lies in the interval
\* - so every retry is drawn from the same law as the first try - and the result lies in the interval.
\* o.inDom[j] = "xj lies in the interval" (j = 1..K), o.idx = the j with xj = returned value bit for bit
\* (0: none of them), o.dom = the returned value lies in the interval.
FirstIn(f) == IF \E j \in DOMAIN f : f[j] THEN CHOOSE j \in DOMAIN f : f[j] /\ \A i \in 1..(j - 1) : ~f[i] ELSE 0
RestrictOK(o) == o.dom /\ FirstIn(o.inDom) >= 1 /\ o.idx = FirstIn(o.inDom)
RestrictHolds == rd # <<>> => RestrictOK(rd)

\* ------------------------------------------------------------ design model
Unit == 4096
Zs == ZMag \cup {0 - z : z \in ZMag}
Exps == (0 - ExpMax)..ExpMax
\* how the implementation reads argument i of sampler s
Reading(s, i) ==
  IF Impl = "expAsRate" /\ s \in {"rt.exp"} /\ i = 1 THEN "rate"
  ELSE IF Impl = "expAsRate" /\ s \in {"dd.exp", "dd.texp"} /\ i = 1 THEN "mean"   \* 1/lambda handed to a rate
  ELSE IF Impl = "gaussSd" /\ s = "dd.gauss" /\ i = 2 THEN "variance"               \* sigma handed to a variance
  ELSE IF Impl = "gammaScale" /\ s \in {"rt.gamma", "dd.gamma"} /\ i = 2 THEN "scale"
  ELSE Decl[s][i]

\* exponent of the scale of the draw, arguments 2^p[i] (location arguments do not contribute)
ScaleExp(s, p) ==
  LET C(i) == LET k == Reading(s, i) IN
              CASE k \in {"mean", "scale", "sd"} -> p[i]
                [] k = "rate"                    -> 0 - p[i]
                [] k = "variance"                -> p[i] \div 2
                [] OTHER                         -> 0
      F[i \in 0..Len(p)] == IF i = 0 THEN 0 ELSE F[i-1] + C(i)
  IN F[Len(p)]
\* draw in units of 1/Unit: loc + z * 2^scale (locations are given in units directly)
Draw(s, p, loc, z) == loc * Unit + z * 2 ^ (ScaleExp(s, p) + 6)

RatioCode(x1, x2) == IF x1 = 0 THEN 0
                     ELSE IF \E c \in {1, 2, 4, 8, 16} : 4 * x2 = c * x1
                     THEN CHOOSE c \in {1, 2, 4, 8, 16} : 4 * x2 = c * x1 ELSE 0

ArgsOf(s) == {p \in [1..Len(Decl[s]) -> Exps] :
                \A i \in 1..Len(Decl[s]) : (Decl[s][i] = "variance" \/ Reading(s, i) = "variance") => p[i] % 2 = 0}

Init == last = <<>> /\ pick = <<>> /\ rd = <<>>

\* two draws under one seed (same z), argument i multiplied by f
ScalePair == \E s \in Samplers, z \in Zs : \E p \in ArgsOf(s) : \E i \in 1..Len(Decl[s]), f4 \in Factors :
               /\ HasLaw(Decl[s][i], f4)
               /\ pick' = <<>> /\ rd' = <<>>
               /\ LET e  == IF f4 = 1 THEN -2 ELSE IF f4 = 2 THEN -1 ELSE IF f4 = 8 THEN 1 ELSE 2
                      p2 == [p EXCEPT ![i] = @ + e]
                  IN last' = [s |-> s, arg |-> i, kind |-> Decl[s][i], f |-> f4,
                              code |-> RatioCode(Draw(s, p, 0, z), Draw(s, p2, 0, z))]
\* two draws under one seed, a location argument shifted by d units
ShiftPair == \E s \in Samplers, z \in Zs, d \in {-3, 1, 2} : \E p \in ArgsOf(s) : \E i \in 1..Len(Decl[s]) :
               /\ Decl[s][i] = "location"
               /\ pick' = <<>> /\ rd' = <<>>
               /\ LET x1 == Draw(s, p, 1, z)  x2 == Draw(s, p, 1 + d, z) IN
                  last' = [s |-> s, arg |-> i, kind |-> "location", d |-> d,
                           code |-> RatioCode(d * Unit, x2 - x1)]
SamePair == \E s \in Samplers, z \in Zs : \E p \in ArgsOf(s) :
               /\ pick' = <<>> /\ rd' = <<>>
               /\ last' = [s |-> s, arg |-> 0, kind |-> "same", f |-> 4,
                        code |-> RatioCode(Draw(s, p, 0, z), Draw(s, p, 0, z))]

\* two draws from one cumulative vector: ranks chosen freely (a tie only where the rank is a threshold of
\* positive mass below the total), results by the transcribed loops
InvPick == \E c \in CumSet : \E r1 \in Ranks(c), r2 \in Ranks(c), t1 \in BOOLEAN, strict \in BOOLEAN :
             /\ (t1 => r1 < Len(c) - 1)
             /\ pick' = [cum |-> c, r |-> <<r1, r2>>, tie |-> <<t1, FALSE>>,
                         out |-> IF strict THEN <<AlgoLt(Len(c), r1, t1), AlgoLt(Len(c), r2, FALSE)>>
                                 ELSE <<AlgoLe(Len(c), r1), AlgoLe(Len(c), r2)>>]
             /\ last' = <<>> /\ rd' = <<>>

\* the rejection loop on a stream of three raw draws of which at least one is in the interval: first try, then
\* retries; with Impl = "retryOtherLaw" the retries come from another law (they match no element of the stream)
RestrictedDraw == \E s \in {"dd.exp", "dd.gamma", "dd.gauss", "dd.unif"}, f \in [1..3 -> BOOLEAN] :
                    /\ \E j \in 1..3 : f[j]
                    /\ rd' = [s |-> s, inDom |-> f, dom |-> TRUE,
                               idx |-> IF f[1] THEN 1 ELSE IF Impl = "retryOtherLaw" THEN 0 ELSE FirstIn(f)]
                    /\ last' = <<>> /\ pick' = <<>>

Next == ScalePair \/ ShiftPair \/ SamePair \/ InvPick \/ RestrictedDraw
Spec == Init /\ [][Next]_lvars
=============================================================================
