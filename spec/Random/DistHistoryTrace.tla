-------------------------- MODULE DistHistoryTrace --------------------------
\* Trace validation of the distribution classes' draws over histories
\* (harness/drv_random.cpp, mode dist).  The driver keeps, per object, the
\* parameter values and the restriction it asked for (the ghost par / dom); a Draw
\* event compares the object's draws under a seed with those of a reference
\* object built afresh from exactly that ghost state.
\*   {"e":"New","o":id,"cls":name}          {"e":"SetPar","o":id,"how":entry point,"r":outcome}
\*   {"e":"Restrict","o":id,"r":outcome}    {"e":"CopyTo","o":src,"o2":dst,"how":"clone"|"assign"}
\*   {"e":"Draw","o":id,"seed":s,"sameC":b,"sameD":b,"domC":b,"domD":b}
EXTENDS DistHistory, TraceLib

VARIABLE obs     \* <<>> or the last Draw observation

\* the ghost state itself lives in the driver (real numbers); here epochs stand for it
TReset == /\ IsEvent("Reset")
          /\ par' = <<>> /\ dom' = <<>> /\ spar' = <<>> /\ dref' = <<>> /\ heap' = <<>> /\ last' = <<>> /\ obs' = <<>>
TNew == IsEvent("New") /\ New(Ev.o, 1) /\ obs' = <<>>
TSetPar == /\ IsEvent("SetPar") /\ Ev.o \in DOMAIN par
           /\ IF Ev.r = "ok" THEN SetPar(Ev.o, par[Ev.o] + 1) ELSE UNCHANGED dvars
           /\ obs' = <<>>
TRestrict == /\ IsEvent("Restrict") /\ Ev.o \in DOMAIN par
             /\ IF Ev.r = "ok" THEN Restrict(Ev.o, dom[Ev.o] + 1) ELSE UNCHANGED dvars
             /\ obs' = <<>>
TCopyTo == /\ IsEvent("CopyTo") /\ (Ev.how = "assign") = (Ev.o2 \in DOMAIN par)
           /\ CopyTo(Ev.o, Ev.o2) /\ obs' = <<>>
TDraw == /\ IsEvent("Draw") /\ Draw(Ev.o)
         /\ obs' = [sameC |-> Ev.sameC, sameD |-> Ev.sameD, domC |-> Ev.domC, domD |-> Ev.domD]

TraceNext == TReset \/ TNew \/ TSetPar \/ TRestrict \/ TCopyTo \/ TDraw
TraceInit == Init /\ obs = <<>> /\ l = 1
TraceSpec == TraceInit /\ [][TraceNext]_<<dvars, obs, l>>

ObservedDrawOK == obs # <<>> => DrawOK(obs)
=============================================================================
