SPECIFICATION TraceSpec
CONSTANTS
  Seeds = {}
  CallSet = {}
  Foreign = 0
  MaxCalls = 0
  MaxRuns = 0
INVARIANTS LastOK LastReproducible
POSTCONDITION TraceAccepted
CHECK_DEADLOCK FALSE
