SPECIFICATION TraceSpec
CONSTANTS
  Objs = {}
  Cfgs = {}
  Seeds = {}
  Lens = {}
  Impl = "refresh"
INVARIANTS LastOK PrefixOK GetterCurrent
POSTCONDITION TraceAccepted
CHECK_DEADLOCK FALSE
