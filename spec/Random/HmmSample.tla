------------------------------ MODULE HmmSample ------------------------------
\* Hidden-state path sampling, AbstractHmmTransitionMatrix::sample(n), for the
\* concrete FullHmmTransitionMatrix ("full") and AutoCorrelationTransitionMatrix
\* ("auto").  sample(n) is a chain of weighted picks drawn from the process-wide
\* generator: state 1 is picked with the equilibrium frequencies of the CURRENT
\* transition probabilities, state t+1 with row state_t of the CURRENT matrix.
\*
\* Two layers:
\*  (1) a design model of the laziness: the object has a configuration (cfg,
\*      changed by setTransitionProbabilities / parameter updates) and two caches
\*      (pij_, eqFreq_) with an up-to-date flag; getters refresh; sample(n) must
\*      use the current configuration for both picks whatever the order of the
\*      earlier calls (UsesCurrent), and two samples under one seed between two
\*      mutations are prefixes of one another (PrefixOK).  Sample is written as
\*      the code should behave (Impl = "refresh"); the other values of Impl are
\*      negative controls: "lazyFirst" refreshes only when n > 1, "autoEqStale"
\*      is an "auto" object whose getPij() does not refresh eqFreq_,
\*      "assignKeepsFlag" is an operator= that copies the caches but not the flag.
\*      Objects can be copy-constructed and assigned (same kind): configuration,
\*      caches and flag travel together, so a stale cache stays marked stale.
\*  (2) the observation predicates used by HmmSampleTrace on what the real
\*      objects returned (PathOK, PrefixOK on recorded paths).
EXTENDS Integers, Sequences, FiniteSets, TLC

CONSTANTS Objs, Cfgs, Seeds, Lens,   \* design model bounds
          Impl                       \* "refresh" | "lazyFirst" | "autoEqStale" | "assignKeepsFlag"

VARIABLES kind,    \* o -> "full" | "auto"             (DOMAIN kind = live objects)
          cfg,     \* o -> current configuration (design: element of Cfgs; trace: epoch counter)
          pijC,    \* o -> configuration held by the cache pij_   (0: never computed)
          eqC,     \* o -> configuration held by the cache eqFreq_ (0: never computed)
          up,      \* o -> the up-to-date flag
          hist,    \* o -> samples since the last mutation: set of [seed, path]
          last     \* <<>> or the last sample observation

hvars == <<kind, cfg, pijC, eqC, up, hist, last>>

Put(f, k, v) == [x \in DOMAIN f \cup {k} |-> IF x = k THEN v ELSE f[x]]
IsPrefix(a, b) == Len(a) <= Len(b) /\ \A i \in DOMAIN a : a[i] = b[i]

\* ------------------------------------------------------------ observation predicates
\* o: [ns, n, out, lo, hi, wpos]; lo/hi = rank interval (+-1e-12) of the t-th uniform of the stream in the
\* cumulated CURRENT weights (equilibrium frequencies for t = 1, row out[t-1] of Pij for t > 1), read under
\* the same seed; wpos[t] = the weight of the state picked at t is positive.
PathOK(o) ==
  /\ Len(o.out) = o.n /\ Len(o.lo) = o.n /\ Len(o.hi) = o.n /\ Len(o.wpos) = o.n
  /\ \A t \in DOMAIN o.out :
        /\ o.out[t] \in 0..(o.ns - 1)                         \* a valid state
        /\ o.lo[t] <= o.out[t] /\ o.out[t] <= o.hi[t]         \* the inverse cdf of the t-th uniform
        /\ o.wpos[t]                                          \* zero-probability starts / transitions never taken
LastOK == last # <<>> => PathOK(last)
\* reproducibility and prefix property under one seed, between two mutations
PrefixOK == \A o \in DOMAIN hist : \A a, b \in hist[o] :
              a.seed = b.seed => (IsPrefix(a.path, b.path) \/ IsPrefix(b.path, a.path))

\* ------------------------------------------------------------ design model
\* a path is abstractly the list of the (configuration used, stream position) of its picks
PathOf(ce, cp, sd, n) == [t \in 1..n |-> <<IF t = 1 THEN ce ELSE cp, sd, t>>]
UsesCurrent == last # <<>> => \A t \in DOMAIN last.path : last.path[t][1] = last.cur

Init == kind = <<>> /\ cfg = <<>> /\ pijC = <<>> /\ eqC = <<>> /\ up = <<>> /\ hist = <<>> /\ last = <<>>

New(o, k, c) == /\ o \notin DOMAIN kind
                /\ kind' = Put(kind, o, k) /\ cfg' = Put(cfg, o, c)
                /\ pijC' = Put(pijC, o, 0) /\ eqC' = Put(eqC, o, 0) /\ up' = Put(up, o, FALSE)
                /\ hist' = Put(hist, o, {}) /\ UNCHANGED last

\* setTransitionProbabilities / setParameterValue: fireParameterChanged drops the flag
Mutate(o, c) == /\ o \in DOMAIN kind
                /\ cfg' = [cfg EXCEPT ![o] = c] /\ up' = [up EXCEPT ![o] = FALSE]
                /\ hist' = [hist EXCEPT ![o] = {}]
                /\ UNCHANGED <<kind, pijC, eqC, last>>

\* copy construction (o2 fresh) / assignment (o2 live, same kind): o2 becomes what o is, caches and flag included
CopyTo(o, o2) ==
  /\ o \in DOMAIN kind /\ o2 # o
  /\ (o2 \in DOMAIN kind => kind[o2] = kind[o])
  /\ kind' = Put(kind, o2, kind[o]) /\ cfg' = Put(cfg, o2, cfg[o])
  /\ pijC' = Put(pijC, o2, pijC[o]) /\ eqC' = Put(eqC, o2, eqC[o])
  /\ up' = Put(up, o2, IF Impl = "assignKeepsFlag" /\ o2 \in DOMAIN kind THEN up[o2] ELSE up[o])
  /\ hist' = Put(hist, o2, {})
  /\ UNCHANGED last

\* what a getPij() does to the caches
RefreshPij(o, p, e, u) ==
  IF u THEN <<p, e, u>>
  ELSE IF kind[o] = "auto" /\ Impl = "autoEqStale" THEN <<cfg[o], e, TRUE>>
  ELSE <<cfg[o], cfg[o], TRUE>>
GetPij(o) == /\ o \in DOMAIN kind
             /\ LET r == RefreshPij(o, pijC[o], eqC[o], up[o]) IN
                pijC' = [pijC EXCEPT ![o] = r[1]] /\ eqC' = [eqC EXCEPT ![o] = r[2]] /\ up' = [up EXCEPT ![o] = r[3]]
             /\ UNCHANGED <<kind, cfg, hist, last>>
\* getEquilibriumFrequencies(): "full" refreshes both under the flag, "auto" recomputes eqFreq_ every time
GetEq(o) == /\ o \in DOMAIN kind
            /\ IF kind[o] = "auto"
               THEN eqC' = [eqC EXCEPT ![o] = cfg[o]] /\ UNCHANGED <<pijC, up>>
               ELSE LET r == RefreshPij(o, pijC[o], eqC[o], up[o]) IN
                    pijC' = [pijC EXCEPT ![o] = r[1]] /\ eqC' = [eqC EXCEPT ![o] = r[2]] /\ up' = [up EXCEPT ![o] = r[3]]
            /\ UNCHANGED <<kind, cfg, hist, last>>

\* sample(n): "update pij_" by getPij(), first pick in eqFreq_, the others in the rows of pij_
Sample(o, n, sd) ==
  /\ o \in DOMAIN kind /\ n >= 1
  /\ LET r == IF Impl = "lazyFirst" /\ n = 1 THEN <<pijC[o], eqC[o], up[o]>> ELSE RefreshPij(o, pijC[o], eqC[o], up[o])
         path == PathOf(r[2], r[1], sd, n) IN
     /\ pijC' = [pijC EXCEPT ![o] = r[1]] /\ eqC' = [eqC EXCEPT ![o] = r[2]] /\ up' = [up EXCEPT ![o] = r[3]]
     /\ last' = [o |-> o, cur |-> cfg[o], path |-> path]
     /\ hist' = [hist EXCEPT ![o] = @ \cup {[seed |-> sd, path |-> path]}]
  /\ UNCHANGED <<kind, cfg>>

Next == \/ \E o \in Objs, k \in {"full", "auto"}, c \in Cfgs : New(o, k, c)
        \/ \E o \in Objs, c \in Cfgs : Mutate(o, c)
        \/ \E o \in Objs, o2 \in Objs : CopyTo(o, o2)
        \/ \E o \in Objs : GetPij(o) \/ GetEq(o)
        \/ \E o \in Objs, n \in Lens, sd \in Seeds : Sample(o, n, sd)
Spec == Init /\ [][Next]_hvars
=============================================================================
