------------------------------- MODULE Rcont2 -------------------------------
\* Algorithm AS 159 (Patefield 1981) as implemented by
\* bpp::ContingencyTableGenerator::rcont2 (src/Bpp/Numeric/Random/
\* ContingencyTableGenerator.cpp): a random r x c table with given margins is
\* built cell by cell; cell (l,m) is drawn from the conditional hypergeometric
\* law by walking up (nlm) and down (nll) from a start value until the
\* accumulated probability passes a uniform draw.
\*
\* What is abstracted: the real numbers.  "x >= dummy" / "sumprb >= dummy" are
\* nondeterministic choices, with one fact kept: a redraw replaces dummy by
\* sumprb * U (U in [0,1]) where sumprb is the mass accumulated over the
\* *whole* feasible range and the partial sums of the next pass are the same
\* numbers in the same order, so the second pass accepts at the latest when
\* the last term is added (MustAccept).
\* What is kept: every bookkeeping variable of the code (l, m, ia, ib, ic, id,
\* ie, ii, jc, jwork, nlm, nll, lsp, lsm), the loop structure (one action per
\* loop iteration), and the nine index expressions into the log-factorial
\* table fact_[0..ntot] (ghost fidx).  size_t arithmetic is modelled with
\* mathematical integers: an index is inside the vector iff its mathematical
\* value is in 0..ntot (a "negative" size_t is a huge one), and intermediate
\* wrapped values (ii) are only ever used in sums whose mathematical value is
\* what the code obtains modulo 2^64.
\*
\* Indices are 0-based as in the code; margins are sequences (1-based), read
\* through RowT(l) / ColT(m).
EXTENDS Integers, Sequences, FiniteSets, TLC

CONSTANTS MaxTot,      \* design model: totals 0..MaxTot
          Dims,        \* design model: allowed numbers of rows / columns
          StartRule    \* "expected": nlm = round(ia*id/ie) (AS 159, R's rcont2.c)
                       \* "cast":     nlm = ia * trunc(id/ie + 0.5) (mis-parenthesised cast; negative control)

VARIABLES rows, cols,  \* requested margins
          s,           \* bookkeeping record (see Start)
          pc,          \* "idle" | "cell" | "full" | "outer" | "inc" | "dec" | "redraw" | "commit" | "done"
          nlm, nll, lsp, lsm,
          pass,        \* number of the current pass of the outer loop for this cell
          fidx         \* ghost: the nine fact_ indices used by the last evaluation of x

vars == <<rows, cols, s, pc, nlm, nll, lsp, lsm, pass, fidx>>

Mn(a, b) == IF a <= b THEN a ELSE b
Mx(a, b) == IF a >= b THEN a ELSE b
Put(f, k, v) == [x \in DOMAIN f \cup {k} |-> IF x = k THEN v ELSE f[x]]

SumSeq(q) == LET F[i \in 0..Len(q)] == IF i = 0 THEN 0 ELSE F[i-1] + q[i] IN F[Len(q)]

NRow == Len(rows)
NCol == Len(cols)
NR1  == NRow - 1
NC1  == NCol - 1
NTot == SumSeq(rows)
RowT(l) == rows[l + 1]
ColT(m) == cols[m + 1]

\* ------------------------------------------------------------ bookkeeping
\* rcont2 entry up to the first cell: jwork_[j] = ncolt_[j] for j < nc_1
\* (the last slot is never read), jc = ntot, then the head of the row loop
\* for l = 0.
RowHead(st, l) == [st EXCEPT !.l = l, !.m = 0, !.ia = RowT(l), !.ic = st.jc, !.jc = st.jc - RowT(l)]

Start ==
  RowHead([l |-> 0, m |-> 0, ia |-> 0, ib |-> 0, ic |-> 0, id |-> 0, ie |-> 0, ii |-> 0,
           jc |-> NTot,
           jwork |-> [j \in 0..NC1 |-> IF j < NC1 THEN ColT(j) ELSE 0],
           table |-> <<>>], 0)

\* head of the column loop:  id = jwork_[m]; ie = ic; ic -= id; ib = ie - ia; ii = ib - id;
Enter(st) == [st EXCEPT !.id = st.jwork[st.m], !.ie = st.ic, !.ic = st.ic - st.jwork[st.m],
                        !.ib = st.ic - st.ia, !.ii = st.ic - st.ia - st.jwork[st.m]]

\* for (j = m; j < nc_1; ++j) table(l, j) = 0;
FillZeros(t, l, m) == [x \in DOMAIN t \cup {<<l, j>> : j \in m..(NC1 - 1)} |->
                         IF x[1] = l /\ x[2] >= m /\ x[2] < NC1 THEN 0 ELSE t[x]]

\* last row:  table(nr_1, m) = jwork_[m] (m < nc_1);  table(nr_1, nc_1) = ib - table(nr_1, nc_1 - 1)
LastRow(t, jw, ib) ==
  LET t1 == [x \in DOMAIN t \cup {<<NR1, j>> : j \in 0..(NC1 - 1)} |->
               IF x[1] = NR1 /\ x[2] < NC1 THEN jw[x[2]] ELSE t[x]]
  IN Put(t1, <<NR1, NC1>>, ib - t1[<<NR1, NC1 - 1>>])

\* From the entered cell (l,m) to the next cell boundary: L160 (or the
\* "row is full" branch), the end of the column loop, table(l, nc_1) = ia, the
\* head of the next row, or the last row.  Returns <<next pc, next record>>.
Commit(st, full, n) ==
  LET t1  == IF full THEN FillZeros(st.table, st.l, st.m) ELSE Put(st.table, <<st.l, st.m>>, n)
      ia1 == IF full THEN 0 ELSE st.ia - n
      jw1 == IF full THEN st.jwork ELSE [st.jwork EXCEPT ![st.m] = @ - n]
      st1 == [st EXCEPT !.table = t1, !.ia = ia1, !.jwork = jw1]
  IN IF ~full /\ st.m + 1 < NC1
     THEN <<"cell", [st1 EXCEPT !.m = st.m + 1]>>
     ELSE LET st2 == [st1 EXCEPT !.table = Put(t1, <<st.l, NC1>>, ia1)] IN
          IF st.l + 1 < NR1
          THEN <<"cell", RowHead(st2, st.l + 1)>>
          ELSE <<"done", [st2 EXCEPT !.table = LastRow(st2.table, jw1, st2.ib)]>>

\* ------------------------------------------------------------ the draw
Lo(st) == Mx(0, 0 - st.ii)            \* = max(0, ia + id - ie)
Hi(st) == Mn(st.ia, st.id)

\* nlm = (size_t)(ia * (id / (long double) ie) + 0.5): an integer within 1/2 of
\* ia*id/ie (both neighbours on an exact tie: rounding of the quotient decides)
Expected(st) == {n \in 0..st.ia : 2 * st.ie * n - 2 * st.ia * st.id \in (0 - st.ie)..st.ie}
\* nlm = ia * (size_t)(id / (long double) ie + 0.5)
CastStart(st) == {IF 2 * st.id >= st.ie THEN st.ia ELSE 0}
StartValues(st) == IF StartRule = "expected" THEN Expected(st) ELSE CastStart(st)

\* fact_[ia] + fact_[ib] + fact_[ic] + fact_[id] - fact_[ie] - fact_[nlm]
\*   - fact_[id - nlm] - fact_[ia - nlm] - fact_[ii + nlm]
Indices(st, n) == <<st.ia, st.ib, st.ic, st.id, st.ie, n, st.id - n, st.ia - n, st.ii + n>>

CanInc(st, n) == (st.id - n) * (st.ia - n) # 0      \* j = (id - nlm) * (ia - nlm); lsp = (j == 0)
CanDec(st, n) == n * (st.ii + n) # 0                \* j = nll * (ii + nll);       lsm = (j == 0)
\* every term of the conditional law has been added
Exhausted(st, up, down) == ~CanInc(st, up) /\ ~CanDec(st, down)
MustAccept(st, up, down) == pass >= 2 /\ Exhausted(st, up, down)

\* ------------------------------------------------------------ actions
Margins(n, t) == {v \in [1..n -> 0..t] : SumSeq(v) = t}

Init == /\ \E t \in 0..MaxTot, nr \in Dims, nc \in Dims :
             rows \in Margins(nr, t) /\ cols \in Margins(nc, t)
        /\ pc = "idle" /\ s = <<>> /\ nlm = 0 /\ nll = 0 /\ lsp = FALSE /\ lsm = FALSE
        /\ pass = 0 /\ fidx = <<>>

Begin == /\ pc = "idle"
         /\ s' = Start /\ pc' = "cell"
         /\ UNCHANGED <<rows, cols, nlm, nll, lsp, lsm, pass, fidx>>

EnterCell == /\ pc = "cell"
             /\ s' = Enter(s)
             /\ pc' = IF s'.ie = 0 THEN "full" ELSE "outer"
             /\ pass' = 1 /\ fidx' = <<>>
             /\ UNCHANGED <<rows, cols, nlm, nll, lsp, lsm>>

RowFull == /\ pc = "full"
           /\ LET c == Commit(s, TRUE, 0) IN pc' = c[1] /\ s' = c[2]
           /\ UNCHANGED <<rows, cols, nlm, nll, lsp, lsm, pass, fidx>>

\* head of the outer loop: start value, x = exp(...), "if (x >= dummy) break"
Outer == /\ pc = "outer"
         /\ \E n \in StartValues(s) :
              /\ nlm' = n /\ nll' = n
              /\ fidx' = Indices(s, n)
              /\ \/ pc' = "commit"
                 \/ ~MustAccept(s, n, n) /\ pc' = "inc"
         /\ UNCHANGED <<rows, cols, s, lsp, lsm, pass>>

\* "Increment entry in row L, column M"
Inc == /\ pc = "inc"
       /\ IF CanInc(s, nlm)
          THEN /\ lsp' = FALSE /\ nlm' = nlm + 1
               /\ \/ pc' = "commit"                                   \* sumprb >= dummy: goto L160
                  \/ ~MustAccept(s, nlm + 1, nll) /\ pc' = "dec"
          ELSE lsp' = TRUE /\ nlm' = nlm /\ pc' = "dec"
       /\ UNCHANGED <<rows, cols, s, nll, lsm, pass, fidx>>

\* "Decrement entry in row L, column M"
Dec == /\ pc = "dec"
       /\ IF CanDec(s, nll)
          THEN /\ lsm' = FALSE /\ nll' = nll - 1
               /\ \/ nlm' = nll - 1 /\ pc' = "commit"                 \* nlm = nll; goto L160
                  \/ /\ ~MustAccept(s, nlm, nll - 1)
                     /\ nlm' = nlm
                     /\ pc' = IF ~lsp THEN "inc" ELSE "dec"           \* if (!lsp) break;  /  while (!lsm)
          ELSE /\ lsm' = TRUE /\ nll' = nll /\ nlm' = nlm
               /\ pc' = IF ~lsp THEN "inc" ELSE "redraw"              \* while (!lsp)
       /\ UNCHANGED <<rows, cols, s, lsp, pass, fidx>>

\* dummy = sumprb * U
Redraw == /\ pc = "redraw"
          /\ pass' = pass + 1 /\ pc' = "outer"
          /\ UNCHANGED <<rows, cols, s, nlm, nll, lsp, lsm, fidx>>

\* L160
CommitCell == /\ pc = "commit"
              /\ LET c == Commit(s, FALSE, nlm) IN pc' = c[1] /\ s' = c[2]
              /\ UNCHANGED <<rows, cols, nlm, nll, lsp, lsm, pass, fidx>>

Next == Begin \/ EnterCell \/ RowFull \/ Outer \/ Inc \/ Dec \/ Redraw \/ CommitCell

Spec == Init /\ [][Next]_vars /\ WF_vars(Next)

\* ------------------------------------------------------------ the property
T == s.table
Cell(i, j) == T[<<i, j>>]
SumTo(F(_), n) == LET G[k \in -1..n] == IF k = -1 THEN 0 ELSE G[k-1] + F(k) IN G[n]   \* F(0)+...+F(n)
RowSum(i) == SumTo(LAMBDA j : Cell(i, j), NC1)
ColSum(j) == SumTo(LAMBDA i : Cell(i, j), NR1)

Active == pc # "idle"

\* every produced entry is non-negative (a wrapped size_t shows up as negative)
EntriesNonNeg == Active => \A x \in DOMAIN T : T[x] >= 0
\* every log-factorial index is inside the table fact_[0..ntot]
IndexSafe == \A i \in DOMAIN fidx : fidx[i] \in 0..NTot
\* at the end every cell has been written and every total is met exactly
MarginsMet == pc = "done" =>
                /\ DOMAIN T = (0..NR1) \X (0..NC1)
                /\ \A i \in 0..NR1 : RowSum(i) = RowT(i)
                /\ \A j \in 0..NC1 : ColSum(j) = ColT(j)

\* the bookkeeping variables mean what AS 159 says they mean (definitions over
\* the part of the table already produced)
Done(i, j) == <<i, j>> \in DOMAIN T
RemCol(j, l) == ColT(j) - SumTo(LAMBDA i : Cell(i, j), l - 1)          \* column j minus rows 0..l-1
BookDef == pc = "cell" =>
             /\ s.l \in 0..(NR1 - 1) /\ s.m \in 0..(NC1 - 1)
             /\ DOMAIN T = {x \in (0..NR1) \X (0..NC1) : x[1] < s.l \/ (x[1] = s.l /\ x[2] < s.m)}
             /\ s.ia = RowT(s.l) - SumTo(LAMBDA j : Cell(s.l, j), s.m - 1)
             /\ \A j \in 0..(NC1 - 1) : s.jwork[j] = RemCol(j, IF j < s.m THEN s.l + 1 ELSE s.l)
             /\ s.ic = SumTo(LAMBDA j : IF j >= s.m THEN RemCol(j, s.l) ELSE 0, NC1)
             /\ s.jc = NTot - SumTo(LAMBDA i : RowT(i), s.l)
             /\ s.ia >= 0 /\ s.ia <= s.ic
             /\ \A j \in 0..NC1 : s.jwork[j] >= 0
\* the walk stays inside the support of the conditional law and what is
\* committed is a feasible entry
WalkInRange == pc \in {"inc", "dec", "redraw", "commit"} => (Lo(s) <= nll /\ nll <= nlm /\ nlm <= Hi(s))
ChosenFeasible == pc = "commit" => nlm \in Lo(s)..Hi(s)
AtMostTwoPasses == pass <= 2

Termination == <>(pc = "done")
=============================================================================
