--------------------------- MODULE HmmSampleTrace ---------------------------
\* Trace validation of AbstractHmmTransitionMatrix::sample() on real
\* FullHmmTransitionMatrix / AutoCorrelationTransitionMatrix objects
\* (harness/drv_random.cpp, mode hmm).  The caches are not observable; what is
\* observed is the path, judged against the CURRENT weights: the driver reads
\* the uniforms of the stream by re-seeding, and reads the current equilibrium
\* frequencies / Pij from a twin object that received the same mutations and on
\* which the getters may be called freely (the object under test only receives
\* the calls of the history).
\*   {"e":"New","o":id,"k":"full"|"auto","ns":states}
\*   {"e":"Mut","o":id,"what":"setP"|"param","r":"ok"|"raise:.."}
\*   {"e":"CopyTo","o":src,"o2":dst,"how":"ctor"|"assign"}   dst becomes a copy of src (twin of dst rebuilt from src's parameters)
\*   {"e":"Get","o":id,"which":"pij"|"eq","same":b}      getter of the object = getter of the twin
\*   {"e":"Sample","o":id,"n":len,"seed":s,"out":[..],"lo":[..],"hi":[..],"wpos":[..]}
EXTENDS HmmSample, TraceLib

VARIABLES ns,     \* o -> number of hidden states
          gsame   \* TRUE or the verdict of the last Get event

TReset == /\ IsEvent("Reset")
          /\ kind' = <<>> /\ cfg' = <<>> /\ pijC' = <<>> /\ eqC' = <<>> /\ up' = <<>> /\ hist' = <<>> /\ last' = <<>>
          /\ ns' = <<>> /\ gsame' = TRUE

TNew == /\ IsEvent("New") /\ Ev.k \in {"full", "auto"} /\ Ev.ns >= 1
        /\ New(Ev.o, Ev.k, 1)
        /\ ns' = Put(ns, Ev.o, Ev.ns) /\ gsame' = TRUE

\* every mutation starts a new epoch - also a refused one (setTransitionProbabilities may raise after some
\* rows were already taken over; what a refusal leaves behind is not part of this property)
TMut == /\ IsEvent("Mut") /\ Ev.o \in DOMAIN kind
        /\ Mutate(Ev.o, cfg[Ev.o] + 1)
        /\ UNCHANGED ns /\ gsame' = TRUE

TCopyTo == /\ IsEvent("CopyTo") /\ Ev.o \in DOMAIN kind
           /\ (Ev.how = "assign") = (Ev.o2 \in DOMAIN kind)
           /\ CopyTo(Ev.o, Ev.o2)
           /\ ns' = Put(ns, Ev.o2, ns[Ev.o]) /\ gsame' = TRUE

TGet == /\ IsEvent("Get") /\ Ev.o \in DOMAIN kind
        /\ gsame' = Ev.same
        /\ UNCHANGED <<hvars, ns>>

TSample == /\ IsEvent("Sample") /\ Ev.o \in DOMAIN kind
           /\ last' = [ns |-> ns[Ev.o], n |-> Ev.n, out |-> Ev.out, lo |-> Ev.lo, hi |-> Ev.hi, wpos |-> Ev.wpos]
           /\ hist' = [hist EXCEPT ![Ev.o] = @ \cup {[seed |-> Ev.seed, path |-> Ev.out]}]
           /\ UNCHANGED <<kind, cfg, pijC, eqC, up, ns>> /\ gsame' = TRUE

TraceNext == TReset \/ TNew \/ TMut \/ TCopyTo \/ TGet \/ TSample
TraceInit == Init /\ ns = <<>> /\ gsame = TRUE /\ l = 1
TraceSpec == TraceInit /\ [][TraceNext]_<<hvars, ns, gsame, l>>

GetterCurrent == gsame
=============================================================================
