------------------------------ MODULE Sampling ------------------------------
\* Discrete / structural part of bpp::RandomTools (and of the calls that draw
\* from its process-wide generator) as a history of calls:
\*     SetSeed(sd) ; Call(c1) -> r1 ; Call(c2) -> r2 ; ... ; SetSeed(sd') ; ...
\* A call c is a record (op + arguments); an outcome r is a record
\* (st = "ok" | "raise", bpp = raised class derives from bpp::Exception, + results).
\*
\* The property is stated as two definitions:
\*   OutcomeOK(c, r)  what each single call may return (structure, refusals);
\*   Reproducible     the outcome sequence is a function of (seed, sequence of
\*                    calls since the seed was set): two runs with the same
\*                    seed agree as long as their calls agree.
\* The design model (Next) lets every call return any candidate outcome that
\* satisfies both; TLC checks that the invariants hold over every history in
\* the bound and that no call is ever left without an admissible outcome
\* (Enabledness).  The trace specification SamplingTrace replaces the choice
\* by what the implementation returned; the same invariants judge it.
\*
\* Not expressible here (and not claimed): that the draws follow the named law.
EXTENDS Integers, Sequences, FiniteSets, TLC

CONSTANTS Seeds,      \* design model: seeds
          CallSet,    \* design model: the calls explored
          Foreign,    \* design model: a value that is in no source
          MaxCalls,   \* design model: calls per run
          MaxRuns     \* design model: completed runs

VARIABLES seed,       \* current seed (-1: never set)
          log,        \* calls since the seed was set: <<[c |-> call, r |-> outcome], ...>>
          runs        \* completed runs: <<[seed |-> sd, log |-> ...], ...>>

svars == <<seed, log, runs>>

\* ------------------------------------------------------------ helpers
Range(q) == {q[i] : i \in DOMAIN q}
Count(q, v) == Cardinality({i \in DOMAIN q : q[i] = v})
SubBag(a, b) == \A v \in Range(a) : Count(a, v) <= Count(b, v)
SameBag(a, b) == Len(a) = Len(b) /\ SubBag(a, b)
Distinct(q) == \A i, j \in DOMAIN q : i # j => q[i] # q[j]
Pairs(a, b) == [i \in DOMAIN a |-> <<a[i], b[i]>>]
Has(rec, f) == f \in DOMAIN rec
SumQ(q) == LET F[i \in 0..Len(q)] == IF i = 0 THEN 0 ELSE F[i-1] + q[i] IN F[Len(q)]

IsOk(r) == r.st = "ok"
Refused(r) == r.st = "raise" /\ r.bpp          \* reported by a library exception

Weighted(c) == Has(c, "w")
PosVals(c) == {c.src[p] : p \in {q \in DOMAIN c.src : c.w[q] > 0}}
\* the zero-weight rule is stated on values, so it is asserted for duplicate-free
\* sources with at least one positive weight
WRule(c) == Weighted(c) /\ Distinct(c.src) /\ PosVals(c) # {}

\* ------------------------------------------------------------ per call
\* getSample(vin, vout(k), replace)  /  getSample(vin, w, vout(k), replace)
SampleOK(c, r) ==
  LET n == Len(c.src) IN
  IF (~c.repl /\ c.k > n) \/ (n = 0 /\ c.k >= 1)
  THEN Refused(r)                                          \* over-long request / empty source
  ELSE IF n = 0
  THEN Refused(r) \/ (IsOk(r) /\ r.out = <<>>)             \* nothing asked of nothing: either
  ELSE /\ IsOk(r) /\ Len(r.out) = c.k
       /\ IF c.repl
          THEN Range(r.out) \subseteq Range(c.src)
          ELSE SubBag(r.out, c.src) /\ (c.k = n => SameBag(r.out, c.src))
       /\ WRule(c) =>
            IF c.repl
            THEN Range(r.out) \subseteq PosVals(c)
            ELSE \A i \in DOMAIN r.out :                   \* a zero-weight element only once
                   r.out[i] \notin PosVals(c) =>           \* every weighted one is gone
                     PosVals(c) \subseteq {r.out[j] : j \in 1..(i - 1)}

\* pickOne(v, replace) / pickOne(v, w, replace): rest (wrest) = the vectors after the call
PickOK(c, r) ==
  LET n == Len(c.src) IN
  IF n = 0 THEN Refused(r)
  ELSE /\ IsOk(r) /\ r.out \in Range(c.src)
       /\ IF c.repl
          THEN r.rest = c.src /\ (Weighted(c) => r.wrest = c.w)
          ELSE /\ SameBag(Append(r.rest, r.out), c.src)
               /\ Weighted(c) => /\ Len(r.wrest) = Len(r.rest)
                                 /\ SubBag(Pairs(r.rest, r.wrest), Pairs(c.src, c.w))
       /\ WRule(c) => r.out \in PosVals(c)

\* pickFromCumSum(cum / cum[n]) : index of a category of positive mass
CumOK(c, r) ==
  LET n == Len(c.cum)
      Mass(i) == c.cum[i + 1] - (IF i = 0 THEN 0 ELSE c.cum[i]) IN
  /\ IsOk(r) /\ r.out \in 0..(n - 1) /\ Mass(r.out) > 0

\* randMultinomial(n, w) : n states, each a category of positive weight
MultiOK(c, r) ==
  /\ IsOk(r) /\ Len(r.out) = c.n
  /\ \A i \in DOMAIN r.out : r.out[i] \in 0..(Len(c.w) - 1) /\ c.w[r.out[i] + 1] > 0

\* giveIntRandomNumberBetweenZeroAndEntry(entry) : 0 <= x < entry, entry = 0 refused
IntOK(c, r) == IF c.entry = 0 THEN Refused(r) ELSE IsOk(r) /\ r.out \in 0..(c.entry - 1)

\* flipCoin(p), p coded 0 -> 0.0, 1 -> 1.0, 2 -> 0.5
FlipOK(c, r) == IsOk(r) /\ (c.p = 0 => ~r.out) /\ (c.p = 1 => r.out)

\* continuous draws: only the support is an order fact (finite, lower bound <= x <= upper
\* bound where the law has one); bits = the IEEE pattern in three chunks, used by Reproducible
RealOK(c, r) == IsOk(r) /\ r.fin /\ r.geLo /\ r.leHi

\* rcont2() on a generator for (rows, cols) : see Rcont2; here only the returned matrix
RowSumsM(t) == [i \in DOMAIN t |-> SumQ(t[i])]
ColSumsM(t, nc) == [j \in 1..nc |-> SumQ([i \in DOMAIN t |-> t[i][j]])]
TableOK(c, r) ==
  /\ IsOk(r) /\ Len(r.out) = Len(c.rows)
  /\ \A i \in DOMAIN r.out : Len(r.out[i]) = Len(c.cols) /\ \A j \in DOMAIN r.out[i] : r.out[i][j] >= 0
  /\ RowSumsM(r.out) = c.rows /\ ColSumsM(r.out, Len(c.cols)) = c.cols

\* ContingencyTableTest(t, np).getPValue() for a proper table
PValOK(c, r) == IsOk(r) /\ r.ge0 /\ r.le1

OutcomeOK(c, r) ==
  CASE c.op = "getSample" -> SampleOK(c, r)
    [] c.op = "pickOne"   -> PickOK(c, r)
    [] c.op = "cumSum"    -> CumOK(c, r)
    [] c.op = "multinom"  -> MultiOK(c, r)
    [] c.op = "randInt"   -> IntOK(c, r)
    [] c.op = "flip"      -> FlipOK(c, r)
    [] c.op = "real"      -> RealOK(c, r)
    [] c.op = "table"     -> TableOK(c, r)
    [] c.op = "pvalue"    -> PValOK(c, r)
    [] OTHER              -> FALSE

\* ------------------------------------------------------------ histories
Init == seed = -1 /\ log = <<>> /\ runs = <<>>

SetSeed(sd) == /\ seed' = sd /\ log' = <<>>
               /\ runs' = IF seed = -1 THEN runs ELSE Append(runs, [seed |-> seed, log |-> log])

Step(c, r) == /\ seed # -1
              /\ log' = Append(log, [c |-> c, r |-> r])
              /\ UNCHANGED <<seed, runs>>

SameCalls(a, b, n) == \A k \in 1..n : a[k].c = b[k].c
\* position i of log lg agrees with every earlier run of the same seed that made the same calls up to i
AgreesAt(sd, lg, i) ==
  \A x \in DOMAIN runs :
     (runs[x].seed = sd /\ Len(runs[x].log) >= i /\ SameCalls(runs[x].log, lg, i))
       => runs[x].log[i].r = lg[i].r

\* ------------------------------------------------------------ the property
StructOK == \A i \in DOMAIN log : OutcomeOK(log[i].c, log[i].r)
Reproducible == \A i \in DOMAIN log : AgreesAt(seed, log, i)

\* ------------------------------------------------------------ design model
SeqsUpTo(S, n) == UNION {[1..k -> S] : k \in 0..n}
Raises == {[st |-> "raise", bpp |-> TRUE, cls |-> "Exception"], [st |-> "raise", bpp |-> FALSE, cls |-> "std:length_error"]}
Vals(c) == Range(c.src) \cup {Foreign}

\* a finite superset of what a call could possibly return (wrong answers included)
Cand(c) ==
  Raises \cup
  (CASE c.op = "getSample" -> {[st |-> "ok", bpp |-> FALSE, out |-> o] : o \in SeqsUpTo(Vals(c), c.k + 1)}
    [] c.op = "pickOne"   ->
         IF Weighted(c)
         THEN {[st |-> "ok", bpp |-> FALSE, out |-> o, rest |-> q, wrest |-> wq] :
                 o \in Vals(c), q \in SeqsUpTo(Vals(c), Len(c.src)), wq \in SeqsUpTo(Range(c.w), Len(c.src))}
         ELSE {[st |-> "ok", bpp |-> FALSE, out |-> o, rest |-> q] : o \in Vals(c), q \in SeqsUpTo(Vals(c), Len(c.src))}
    [] c.op = "cumSum"    -> {[st |-> "ok", bpp |-> FALSE, out |-> o] : o \in -1..Len(c.cum)}
    [] c.op = "multinom"  -> {[st |-> "ok", bpp |-> FALSE, out |-> o] : o \in SeqsUpTo(0..Len(c.w), c.n + 1)}
    [] c.op = "randInt"   -> {[st |-> "ok", bpp |-> FALSE, out |-> o] : o \in -1..c.entry}
    [] c.op = "flip"      -> {[st |-> "ok", bpp |-> FALSE, out |-> o] : o \in BOOLEAN}
    [] c.op = "real"      -> {[st |-> "ok", bpp |-> FALSE, fin |-> f, geLo |-> a, leHi |-> b, bits |-> <<x>>] :
                                f \in BOOLEAN, a \in BOOLEAN, b \in BOOLEAN, x \in 0..1}
    [] OTHER              -> {})

Admissible(c, r) == /\ OutcomeOK(c, r)
                    /\ LET lg == Append(log, [c |-> c, r |-> r]) IN AgreesAt(seed, lg, Len(lg))

DoSetSeed == \E sd \in Seeds : Len(runs) < MaxRuns /\ SetSeed(sd)
DoCall == \E c \in CallSet : \E r \in Cand(c) : Len(log) < MaxCalls /\ Admissible(c, r) /\ Step(c, r)
Next == DoSetSeed \/ DoCall

Spec == Init /\ [][Next]_svars

\* the definitions never demand the impossible: every call has an admissible outcome in every history
Enabledness == seed # -1 => \A c \in CallSet : \E r \in Cand(c) : Admissible(c, r)
\* and they do exclude something: every call has a candidate outcome that is refused
Discriminating == \A c \in CallSet : \E r \in Cand(c) : ~OutcomeOK(c, r)
=============================================================================
