---------------------------- MODULE Rcont2Trace ----------------------------
\* Trace validation of bpp::ContingencyTableGenerator / ContingencyTableTest.
\* Every event recorded by harness/drv_random.cpp (mode tables) must be a step
\* of Rcont2 at cell granularity:
\*   NewGen/CopyGen  construction (refusal of inconsistent margins)
\*   Begin           rcont2 entered (emitted by the hook call-back on cell (0,0))
\*   Cell            hook h2: {l, m, ia, ib, ic, id, ie, ii, first start value, chosen value}
\*                   = EnterCell ; (Outer ; walk)* ; CommitCell   or   EnterCell ; RowFull
\*   Table           the matrix returned through the public API
\*   TestBegin/End   ContingencyTableTest(table, np): np random tables are drawn
\*                   inside (their Begin/Cell events lie in between), p-value as
\*                   order facts against 0 and 1
\* The bookkeeping values the code reports must be the ones the model derives
\* from the cells produced so far (they are *defined* by the margins and the
\* partial table: BookDef); the start value and the chosen value are taken
\* from the event unconstrained and judged by the invariants (IndexSafe,
\* EntriesNonNeg, BookDef, MarginsMet, RetOK) - any start value whose nine
\* indices are inside fact_[0..ntot] is accepted, not only the one of AS 159.
EXTENDS Rcont2, TraceLib

VARIABLES gens,    \* generator id -> <<rows, cols>>
          ret,     \* last matrix returned by rcont2() (<<>> while a table is being built)
          test,    \* <<>> or [t, np, n]: a ContingencyTableTest under construction, n tables begun
          pv       \* <<>> or <<p >= 0, p <= 1>> of the last test

tvars == <<vars, gens, ret, test, pv, l>>

Quiet == pc \in {"idle", "done"}
ColSums(t) == [j \in 1..Len(t[1]) |-> SumSeq([i \in 1..Len(t) |-> t[i][j]])]
RowSums(t) == [i \in 1..Len(t) |-> SumSeq(t[i])]
Rect(t) == Len(t) >= 1 /\ \A i \in DOMAIN t : Len(t[i]) = Len(t[1])

Idle == /\ pc' = "idle" /\ s' = <<>> /\ nlm' = 0 /\ nll' = 0 /\ lsp' = FALSE /\ lsm' = FALSE
        /\ pass' = 0 /\ fidx' = <<>>

TReset == /\ IsEvent("Reset")
          /\ rows' = <<0, 0>> /\ cols' = <<0, 0>> /\ Idle
          /\ gens' = <<>> /\ ret' = <<>> /\ test' = <<>> /\ pv' = <<>>

TSetSeed == IsEvent("SetSeed") /\ Quiet /\ UNCHANGED <<vars, gens, ret, test, pv>>

\* constructor: inconsistent totals cannot be honoured => refusal; fewer than
\* two rows / columns is outside the statement (either outcome, generator unused)
TNewGen == /\ IsEvent("NewGen") /\ Quiet
           /\ LET rs == Ev.rows  cs == Ev.cols IN
              IF Len(rs) < 2 \/ Len(cs) < 2
              THEN UNCHANGED gens
              ELSE IF SumSeq(rs) # SumSeq(cs)
              THEN Ev.r # "ok" /\ Ev.bpp /\ UNCHANGED gens
              ELSE Ev.r = "ok" /\ gens' = Put(gens, Ev.g, <<rs, cs>>)
           /\ UNCHANGED <<vars, ret, test, pv>>

TCopyGen == /\ IsEvent("CopyGen") /\ Quiet
            /\ Ev.g \in DOMAIN gens
            /\ gens' = Put(gens, Ev.g2, gens[Ev.g])
            /\ UNCHANGED <<vars, ret, test, pv>>

\* rcont2() entered: g >= 0 a generator of the driver, g = -1 the generator
\* ContingencyTableTest builds from the margins of the tested table
TBegin == /\ IsEvent("Begin") /\ Quiet
          /\ IF Ev.g >= 0
             THEN /\ test = <<>> /\ Ev.g \in DOMAIN gens
                  /\ rows' = gens[Ev.g][1] /\ cols' = gens[Ev.g][2] /\ test' = test
             ELSE /\ test # <<>> /\ test.proper
                  /\ rows' = RowSums(test.t) /\ cols' = ColSums(test.t)
                  /\ test' = [test EXCEPT !.n = @ + 1]
          /\ s' = Start' /\ pc' = "cell"
          /\ nlm' = 0 /\ nll' = 0 /\ lsp' = FALSE /\ lsm' = FALSE /\ pass' = 0 /\ fidx' = <<>>
          /\ ret' = <<>>
          /\ UNCHANGED <<gens, pv>>

TCell == /\ IsEvent("Cell") /\ pc = "cell"
         /\ LET v == Ev.v  e == Enter(s) IN
            /\ <<v[1], v[2], v[3], v[4], v[5], v[6], v[7], v[8]>> = <<e.l, e.m, e.ia, e.ib, e.ic, e.id, e.ie, e.ii>>
            /\ IF e.ie = 0
               THEN /\ v[9] = 0 /\ v[10] = 0
                    /\ fidx' = <<>> /\ nlm' = 0
                    /\ LET c == Commit(e, TRUE, 0) IN pc' = c[1] /\ s' = c[2]
               ELSE /\ fidx' = Indices(e, v[9]) /\ nlm' = v[10]
                    /\ LET c == Commit(e, FALSE, v[10]) IN pc' = c[1] /\ s' = c[2]
         /\ nll' = nlm' /\ pass' = 1
         /\ UNCHANGED <<rows, cols, lsp, lsm, gens, ret, test, pv>>

\* the value returned by rcont2(); all cells must have been produced
TTable == /\ IsEvent("Table") /\ pc = "done" /\ test = <<>>
          /\ Ev.r = "ok"
          /\ ret' = Ev.t
          /\ UNCHANGED <<vars, gens, test, pv>>

TTestBegin == /\ IsEvent("TestBegin") /\ Quiet /\ test = <<>>
              /\ test' = [t |-> Ev.t, np |-> Ev.np, n |-> 0,
                          proper |-> /\ Len(Ev.t) >= 2 /\ Rect(Ev.t) /\ Len(Ev.t[1]) >= 2
                                     /\ \A i \in DOMAIN RowSums(Ev.t) : RowSums(Ev.t)[i] > 0
                                     /\ \A j \in DOMAIN ColSums(Ev.t) : ColSums(Ev.t)[j] > 0]
              /\ pv' = <<>> /\ ret' = <<>>
              /\ UNCHANGED <<vars, gens>>

\* a proper table (>= 2x2, positive margins) must be tested; anything else is
\* outside the statement (either outcome).  np permutations = np random tables.
TTestEnd == /\ IsEvent("TestEnd") /\ Quiet /\ test # <<>>
            /\ test.proper => (Ev.r = "ok" /\ test.n = test.np)
            /\ Ev.r # "ok" => test.n = 0
            /\ pv' = IF Ev.r = "ok" THEN <<Ev.ge0, Ev.le1>> ELSE <<>>
            /\ test' = <<>>
            /\ UNCHANGED <<vars, gens, ret>>

TraceNext == TReset \/ TSetSeed \/ TNewGen \/ TCopyGen \/ TBegin \/ TCell \/ TTable \/ TTestBegin \/ TTestEnd
TraceInit == /\ rows = <<0, 0>> /\ cols = <<0, 0>>
             /\ pc = "idle" /\ s = <<>> /\ nlm = 0 /\ nll = 0 /\ lsp = FALSE /\ lsm = FALSE
             /\ pass = 0 /\ fidx = <<>>
             /\ gens = <<>> /\ ret = <<>> /\ test = <<>> /\ pv = <<>> /\ l = 1
TraceSpec == TraceInit /\ [][TraceNext]_tvars

\* ------------------------------------------------------------ judged on the public result
\* the returned matrix is the table the cells built ...
RetIsModel == ret # <<>> =>
                /\ Len(ret) = NRow /\ \A i \in DOMAIN ret : Len(ret[i]) = NCol
                /\ \A x \in DOMAIN T : ret[x[1] + 1][x[2] + 1] = T[x]
\* ... and, independently of the hook, has non-negative entries and exactly the requested totals
RetOK == ret # <<>> =>
           /\ Rect(ret)
           /\ \A i \in DOMAIN ret : \A j \in DOMAIN ret[i] : ret[i][j] >= 0
           /\ RowSums(ret) = rows /\ ColSums(ret) = cols
PValueInUnit == pv # <<>> => (pv[1] /\ pv[2])
=============================================================================
