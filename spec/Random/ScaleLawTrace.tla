--------------------------- MODULE ScaleLawTrace ---------------------------
\* Trace validation of the argument conventions of the continuous samplers and
\* of the inverse-cdf picks (harness/drv_random.cpp, mode laws).
\*   {"e":"Pair","s":sampler,"arg":i,"f":4f | "d":shift,"code":observed code,"seed":n}
\*        two draws under one seed differing in argument i only (i = 0: identical arguments);
\*        code = 4 * (X' - loc') / (X - loc) if that is one of 1/4, 1/2, 1, 2, 4 (relative 1e-12), else 0;
\*        for a location argument code = 4 * (X' - X) / d (relative 1e-9).
\*        The *kind* of the argument is not taken from the event: it is Decl[s][i].
\*   {"e":"Inv","op":..,"cum":[..],"r":[..],"tie":[..],"out":[..]}
\*        picks by inverse cdf; r = rank of the uniform read under the same seed
\*   {"e":"RandC","s":class,"dom":b,"rt":b,"skip":b}
\*        a class's randC(): inside its domain; E4: qProb(pProb(x)) = x within 1e-3 (skip: pProb(x) too close to 1)
EXTENDS ScaleLaw, TraceLib

VARIABLE rc      \* <<>> or the last RandC observation

TReset == IsEvent("Reset") /\ last' = <<>> /\ pick' = <<>> /\ rd' = <<>> /\ rc' = <<>>

TPair == /\ IsEvent("Pair")
         /\ Ev.s \in Samplers /\ Ev.arg \in 0..Len(Decl[Ev.s])
         /\ LET k == IF Ev.arg = 0 THEN "same" ELSE Decl[Ev.s][Ev.arg] IN
            last' = IF k = "location"
                    THEN [s |-> Ev.s, arg |-> Ev.arg, kind |-> k, d |-> Ev.d, code |-> Ev.code]
                    ELSE [s |-> Ev.s, arg |-> Ev.arg, kind |-> k, f |-> Ev.f, code |-> Ev.code]
         /\ pick' = <<>> /\ rd' = <<>> /\ rc' = <<>>

TInv == /\ IsEvent("Inv")
        /\ pick' = [cum |-> Ev.cum, r |-> Ev.r, tie |-> Ev.tie, out |-> Ev.out]
        /\ last' = <<>> /\ rd' = <<>> /\ rc' = <<>>

TRandC == /\ IsEvent("RandC")
          /\ rc' = [s |-> Ev.s, dom |-> Ev.dom, rt |-> Ev.rt, skip |-> Ev.skip]
          /\ last' = <<>> /\ pick' = <<>> /\ rd' = <<>>

\*   {"e":"Restricted","s":class,"inDom":[b,..],"idx":j,"dom":b}   (see RestrictOK)
TRestricted == /\ IsEvent("Restricted")
               /\ rd' = [s |-> Ev.s, inDom |-> Ev.inDom, idx |-> Ev.idx, dom |-> Ev.dom]
               /\ last' = <<>> /\ pick' = <<>> /\ rc' = <<>>

TraceNext == TReset \/ TPair \/ TInv \/ TRandC \/ TRestricted
TraceInit == Init /\ rc = <<>> /\ l = 1
TraceSpec == TraceInit /\ [][TraceNext]_<<lvars, rc, l>>

RandCOK == rc # <<>> => (rc.dom /\ (rc.skip \/ rc.rt))
=============================================================================
