SPECIFICATION TraceSpec
CONSTANTS
  MaxTot = 0
  Dims = {}
  StartRule = "expected"
INVARIANTS IndexSafe EntriesNonNeg BookDef MarginsMet RetIsModel RetOK PValueInUnit
POSTCONDITION TraceAccepted
CHECK_DEADLOCK FALSE
