------------------------------- MODULE Graph -------------------------------
\* bpp-core graph core (src/Bpp/Graph/GlobalGraph.{h,cpp}) against a reference
\* multigraph - property C14, graph part.
\*
\* Two layers live side by side:
\*   * REFERENCE (ghost, the property's definition): directed, nodes,
\*     edges[e] = <<a,b>>, id high-water marks nextN/nextE.  Every public call
\*     has an effect record E<Call>(args) saying when the call may succeed,
\*     when it may raise, and what the multigraph is afterwards.  A call that
\*     raises leaves the reference unchanged (DESIGN 2k).  Where the statement
\*     leaves a choice both outcomes are permitted (second link on an existing
\*     relation: raise or parallel edge, 2a; makeDirected: either orientation,
\*     2f; stored orientation of an undirected edge).
\*   * VIEWS (what the implementation keeps redundantly): node table
\*     outT/inT (per node: neighbour -> edge, twice), edge table edgeT
\*     (edge -> <<top,bottom>>), flag dirT.  In this design model the views
\*     are produced by a transcription of the (repaired) algorithms of
\*     GlobalGraph.cpp (the A* operators); in GraphTrace.tla they are read
\*     back from the real object after every call.
\* The invariants say that the views always agree with the reference and with
\* each other, and `legal` records that the outcome (ok / raise) of the last
\* call was one the statement permits.
EXTENDS Integers, FiniteSets, Sequences, TLC

CONSTANTS MaxN,      \* design model: node ids 0..MaxN-1 can be allocated
          MaxE       \* design model: edge ids 0..MaxE-1 can be allocated

VARIABLES directed, nodes, edges, nextN, nextE,      \* reference multigraph (ghost)
          outT, inT, edgeT, dirT,                    \* implementation views
          out,                                       \* outcome of the last call: "ok" | "raise"
          legal                                      \* ghost: that outcome was permitted

refvars  == <<directed, nodes, edges, nextN, nextE>>
viewvars == <<outT, inT, edgeT, dirT>>
gvars    == <<directed, nodes, edges, nextN, nextE, outT, inT, edgeT, dirT, out, legal>>

\* ---------------------------------------------------------------- finite maps
Put(f, k, v) == [x \in DOMAIN f \cup {k} |-> IF x = k THEN v ELSE f[x]]
Ins(f, k, v) == IF k \in DOMAIN f THEN f ELSE Put(f, k, v)        \* std::map::insert: no overwrite
Del(f, K)    == [x \in DOMAIN f \ K |-> f[x]]
Rng(f)       == {f[x] : x \in DOMAIN f}
Rev(p)       == <<p[2], p[1]>>
Mx(a, b)     == IF a >= b THEN a ELSE b
NoMap        == <<>>

\* ---------------------------------------------------------------- reference queries (definitions)
\* parameterised by (D, E) so that they can be evaluated on any multigraph
EOutOf(D, E, n) == {e \in DOMAIN E : E[e][1] = n \/ (~D /\ E[e][2] = n)}
EInOf(D, E, n)  == {e \in DOMAIN E : E[e][2] = n \/ (~D /\ E[e][1] = n)}
EOut(n) == EOutOf(directed, edges, n)          \* edges listed as outgoing by n
EIn(n)  == EInOf(directed, edges, n)           \* edges listed as incoming by n
EAll(n) == EOut(n) \cup EIn(n)
FarOut(e, n) == IF edges[e][1] = n THEN edges[e][2] ELSE edges[e][1]
FarIn(e, n)  == IF edges[e][2] = n THEN edges[e][1] ELSE edges[e][2]
NOut(n) == {FarOut(e, n) : e \in EOut(n)}
NIn(n)  == {FarIn(e, n) : e \in EIn(n)}
Nbrs(n) == NOut(n) \cup NIn(n)
HasLoop(n) == \E e \in DOMAIN edges : edges[e] = <<n, n>>
Degree(n)  == Cardinality(EAll(n))              \* number of incident edges; a self-loop: see GraphTrace!ViewNodeTable
IsLeaf(n)  == Cardinality(Nbrs(n)) <= 1         \* "has at most one neighbour"; a looped node is its own neighbour
RelD(a, b) == {e \in DOMAIN edges : edges[e] = <<a, b>> \/ (~directed /\ edges[e] = <<b, a>>)}
RelAny(a, b) == RelD(a, b) \cup RelD(b, a)
Incident(n) == {e \in DOMAIN edges : edges[e][1] = n \/ edges[e][2] = n}
Reciprocal == \E e1, e2 \in DOMAIN edges : e1 # e2 /\ edges[e1] = Rev(edges[e2])

RECURSIVE Ball(_, _)
Ball(n, d) == IF d = 0 THEN {n} ELSE LET B == Ball(n, d - 1) IN B \cup UNION {Nbrs(m) : m \in B}
LeavesFrom(n, d) == IF IsLeaf(n) THEN {n} ELSE {m \in Ball(n, d) : IsLeaf(m)}

FreshN(n) == n \notin nodes /\ n >= nextN
FreshE(e) == e \notin DOMAIN edges /\ e >= nextE

\* ---------------------------------------------------------------- effect records
Eff(ok, rs, N, E, D, nn, ne) ==
  [mayOk |-> ok, mayRaise |-> rs, nodes |-> N, edges |-> E, dir |-> D, nn |-> nn, ne |-> ne]
Same == [nodes |-> nodes, edges |-> edges, dir |-> directed, nn |-> nextN, ne |-> nextE]

ECreateNode(n) ==
  Eff(FreshN(n), FALSE, nodes \cup {n}, edges, directed, n + 1, nextE)

ECreateNodeFromNode(o, n, e) ==
  Eff(o \in nodes /\ FreshN(n) /\ FreshE(e), o \notin nodes,
      nodes \cup {n}, Put(edges, e, <<o, n>>), directed, n + 1, e + 1)

\* A -x-> B becomes A -e1-> n -e2-> B
\* splitting an undirected self-loop a - a needs two parallel edges a - n: raise, or parallel edges (2a)
ULoop(x) == x \in DOMAIN edges /\ ~directed /\ edges[x][1] = edges[x][2]
ECreateNodeOnEdge(x, n, e1, e2) ==
  LET ab == IF x \in DOMAIN edges THEN edges[x] ELSE <<0, 0>> IN
  Eff(x \in DOMAIN edges /\ FreshN(n) /\ FreshE(e1) /\ FreshE(e2) /\ e1 # e2, x \notin DOMAIN edges \/ ULoop(x),
      nodes \cup {n}, Put(Put(Del(edges, {x}), e1, <<ab[1], n>>), e2, <<n, ab[2]>>),
      directed, n + 1, Mx(e1, e2) + 1)

\* A -x-> B becomes A -e1-> n1 -e2-> B plus n1 -e3-> n2 ; n2 is returned
ECreateNodeFromEdge(x, n1, n2, e1, e2, e3) ==
  LET ab == IF x \in DOMAIN edges THEN edges[x] ELSE <<0, 0>> IN
  Eff(/\ x \in DOMAIN edges /\ FreshN(n1) /\ FreshN(n2) /\ n1 # n2
      /\ FreshE(e1) /\ FreshE(e2) /\ FreshE(e3) /\ Cardinality({e1, e2, e3}) = 3,
      x \notin DOMAIN edges \/ ULoop(x),
      nodes \cup {n1, n2},
      Put(Put(Put(Del(edges, {x}), e1, <<ab[1], n1>>), e2, <<n1, ab[2]>>), e3, <<n1, n2>>),
      directed, Mx(n1, n2) + 1, Mx(e1, Mx(e2, e3)) + 1)

\* second link on an existing relation: raise or parallel edge (2a)
ELink(a, b, e) ==
  Eff(a \in nodes /\ b \in nodes /\ FreshE(e),
      a \notin nodes \/ b \notin nodes \/ RelD(a, b) # {},
      nodes, Put(edges, e, <<a, b>>), directed, nextN, e + 1)

\* "remove all links between two nodes"; ret = set of edge ids the call reported
EUnlink(a, b, ret) ==
  LET can == a \in nodes /\ b \in nodes /\ RelD(a, b) # {} IN
  Eff(can /\ ret = RelD(a, b), ~can, nodes, Del(edges, RelD(a, b)), directed, nextN, nextE)

EDeleteNode(n) ==
  Eff(n \in nodes, n \notin nodes, nodes \ {n}, Del(edges, Incident(n)), directed, nextN, nextE)

EMakeDirected   == Eff(TRUE, FALSE, nodes, edges, TRUE, nextN, nextE)
\* documented: raises when reciprocal relations exist; succeeding (parallel undirected edges) is not excluded by the statement
EMakeUndirected == Eff(TRUE, directed /\ Reciprocal, nodes, edges, FALSE, nextN, nextE)

\* The stored orientation of an edge is the implementation's choice for edges
\* in `flex` (all edges when an undirected graph becomes directed, the new
\* edges of an undirected graph): the reference adopts the edge table's choice.
Adopt(E, T, flex) ==
  [e \in DOMAIN E |-> IF e \in flex /\ e \in DOMAIN T /\ T[e] = Rev(E[e]) THEN T[e] ELSE E[e]]

Flex(g) == IF ~directed /\ g.dir THEN DOMAIN g.edges
           ELSE IF ~g.dir THEN DOMAIN g.edges \ DOMAIN edges ELSE {}

\* reference step, given the outcome out' and the views after the call
Apply(g) ==
  /\ out' \in {"ok", "raise"}
  /\ legal' = (IF out' = "ok" THEN g.mayOk ELSE g.mayRaise)
  /\ IF out' = "ok" /\ g.mayOk
     THEN /\ nodes' = g.nodes /\ directed' = g.dir /\ nextN' = g.nn /\ nextE' = g.ne
          /\ edges' = Adopt(g.edges, edgeT', Flex(g))
     ELSE UNCHANGED refvars

\* ---------------------------------------------------------------- algorithms (transcription of the repaired GlobalGraph.cpp)
\* working state S = [o |-> outT, i |-> inT, e |-> edgeT, d |-> dirT]
Cur == [o |-> outT, i |-> inT, e |-> edgeT, d |-> dirT]
Commit(S) == outT' = S.o /\ inT' = S.i /\ edgeT' = S.e /\ dirT' = S.d

ALinkNode(S, a, b, e) ==          \* linkInNodeStructure_
  LET o2 == IF a \in DOMAIN S.o THEN [S.o EXCEPT ![a] = Ins(S.o[a], b, e)] ELSE S.o
      i2 == IF b \in DOMAIN S.i THEN [S.i EXCEPT ![b] = Ins(S.i[b], a, e)] ELSE S.i
  IN [S EXCEPT !.o = o2, !.i = i2]

AUnlinkNode(S, a, b) ==           \* unlinkInNodeStructure_ (after its checks)
  [S EXCEPT !.o = [S.o EXCEPT ![a] = Del(S.o[a], {b})], !.i = [S.i EXCEPT ![b] = Del(S.i[b], {a})]]

ACreateNode(S, n) == [S EXCEPT !.o = Put(S.o, n, NoMap), !.i = Put(S.i, n, NoMap)]

ACanLink(S, a, b) == a \in DOMAIN S.o /\ b \in DOMAIN S.o /\ b \notin DOMAIN S.o[a]
ALink(S, a, b, e) ==
  LET S1 == ALinkNode(S, a, b, e)
      S2 == IF ~S.d THEN ALinkNode(S1, b, a, e) ELSE S1
  IN [S2 EXCEPT !.e = Put(S2.e, e, <<a, b>>)]

ACanUnlink(S, a, b) == /\ a \in DOMAIN S.o /\ b \in DOMAIN S.o
                       /\ b \in DOMAIN S.o[a] /\ a \in DOMAIN S.i[b]
                       /\ (~S.d /\ a # b) => (a \in DOMAIN S.o[b] /\ b \in DOMAIN S.i[a])
AUnlink(S, a, b) ==
  LET e  == S.o[a][b]
      S1 == AUnlinkNode(S, a, b)
      S2 == IF ~S.d /\ a # b THEN AUnlinkNode(S1, b, a) ELSE S1
  IN [S2 EXCEPT !.e = Del(S2.e, {e})]

RECURSIVE AUnlinkOuts(_, _, _), AUnlinkIns(_, _, _)
AUnlinkOuts(S, n, ms) == IF ms = {} THEN S
                         ELSE LET m == CHOOSE x \in ms : TRUE IN AUnlinkOuts(AUnlink(S, n, m), n, ms \ {m})
AUnlinkIns(S, n, ms)  == IF ms = {} THEN S
                         ELSE LET m == CHOOSE x \in ms : TRUE IN AUnlinkIns(AUnlink(S, m, n), n, ms \ {m})
AIsolate(S, n) ==                 \* isolate_: outgoing first, then the incoming list is read again
  LET S1 == AUnlinkOuts(S, n, DOMAIN S.o[n]) IN AUnlinkIns(S1, n, DOMAIN S1.i[n])
ADeleteNode(S, n) ==
  LET S1 == AIsolate(S, n) IN [S1 EXCEPT !.o = Del(S1.o, {n}), !.i = Del(S1.i, {n})]

Blank(S) == [S EXCEPT !.o = [n \in DOMAIN S.o |-> NoMap], !.i = [n \in DOMAIN S.i |-> NoMap]]
RECURSIVE ARelinkEdges(_, _, _)
ARelinkEdges(S, T, es) ==         \* makeDirected: node table rebuilt from the edge table T
  IF es = {} THEN S
  ELSE LET e == CHOOSE x \in es : TRUE IN ARelinkEdges(ALinkNode(S, T[e][1], T[e][2], e), T, es \ {e})
AMakeDirected(S) ==
  IF S.d THEN S ELSE ARelinkEdges([Blank(S) EXCEPT !.d = TRUE], S.e, DOMAIN S.e)

APairs(S) == {p \in (DOMAIN S.o) \X (DOMAIN S.o) : p[2] \in DOMAIN S.o[p[1]]}
AReciprocal(S) == \E p \in APairs(S) : p[1] # p[2] /\ Rev(p) \in APairs(S)
RECURSIVE ADoublePairs(_, _, _)
ADoublePairs(S, old, ps) ==       \* makeUndirected: every relation written in both directions
  IF ps = {} THEN S
  ELSE LET p == CHOOSE x \in ps : TRUE
           e == old[p[1]][p[2]]
       IN ADoublePairs(ALinkNode(ALinkNode(S, p[1], p[2], e), p[2], p[1], e), old, ps \ {p})
AMakeUndirected(S) == IF ~S.d THEN S ELSE ADoublePairs([Blank(S) EXCEPT !.d = FALSE], S.o, APairs(S))

\* ---------------------------------------------------------------- design-model actions (one per public call)
Ok(S)  == out' = "ok" /\ Commit(S)
Raise  == out' = "raise" /\ UNCHANGED viewvars

CreateNode ==
  /\ nextN < MaxN
  /\ Ok(ACreateNode(Cur, nextN))
  /\ Apply(ECreateNode(nextN))

CreateNodeFromNode(o) ==
  /\ nextN < MaxN /\ nextE < MaxE
  /\ IF o \in DOMAIN outT                                   \* nodeMustExist_(origin) before anything is created
     THEN Ok(ALink(ACreateNode(Cur, nextN), o, nextN, nextE))
     ELSE Raise
  /\ Apply(ECreateNodeFromNode(o, nextN, nextE))

ASplit(S, x, n, e1, e2) ==        \* createNodeOnEdge after edgeMustExist_
  LET a == S.e[x][1]  b == S.e[x][2] IN
  ALink(ALink(AUnlink(ACreateNode(S, n), a, b), a, n, e1), n, b, e2)

\* edgeMustExist_, and an undirected self-loop cannot be split (the node table holds one edge per pair)
ACanSplit(S, x) == x \in DOMAIN S.e /\ (S.d \/ S.e[x][1] # S.e[x][2])

CreateNodeOnEdge(x) ==
  /\ nextN < MaxN /\ nextE + 1 < MaxE
  /\ IF ACanSplit(Cur, x) THEN Ok(ASplit(Cur, x, nextN, nextE, nextE + 1)) ELSE Raise
  /\ Apply(ECreateNodeOnEdge(x, nextN, nextE, nextE + 1))

CreateNodeFromEdge(x) ==
  /\ nextN + 1 < MaxN /\ nextE + 2 < MaxE
  /\ IF ACanSplit(Cur, x)
     THEN Ok(ALink(ACreateNode(ASplit(Cur, x, nextN, nextE, nextE + 1), nextN + 1), nextN, nextN + 1, nextE + 2))
     ELSE Raise
  /\ Apply(ECreateNodeFromEdge(x, nextN, nextN + 1, nextE, nextE + 1, nextE + 2))

Link(a, b) ==
  /\ nextE < MaxE
  /\ IF ACanLink(Cur, a, b) THEN Ok(ALink(Cur, a, b, nextE)) ELSE Raise
  /\ Apply(ELink(a, b, nextE))

Unlink(a, b) ==
  /\ IF ACanUnlink(Cur, a, b) THEN Ok(AUnlink(Cur, a, b)) ELSE Raise
  /\ Apply(EUnlink(a, b, IF ACanUnlink(Cur, a, b) THEN {outT[a][b]} ELSE {}))

DeleteNode(n) ==
  /\ IF n \in DOMAIN outT THEN Ok(ADeleteNode(Cur, n)) ELSE Raise
  /\ Apply(EDeleteNode(n))

MakeDirected ==
  /\ Ok(AMakeDirected(Cur))
  /\ Apply(EMakeDirected)

MakeUndirected ==
  /\ IF dirT /\ AReciprocal(Cur) THEN Raise ELSE Ok(AMakeUndirected(Cur))
  /\ Apply(EMakeUndirected)

Ids == 0..MaxN          \* MaxN itself is never allocated: always an absent node
EIds == 0..MaxE

GraphNext ==
  \/ CreateNode
  \/ \E o \in Ids : CreateNodeFromNode(o)
  \/ \E x \in EIds : CreateNodeOnEdge(x) \/ CreateNodeFromEdge(x)
  \/ \E a, b \in Ids : Link(a, b)                         \* self-loops included, in both modes
  \/ \E a, b \in Ids : Unlink(a, b)
  \/ \E n \in Ids : DeleteNode(n)
  \/ MakeDirected
  \/ MakeUndirected

GraphInit(d) ==
  /\ directed = d /\ nodes = {} /\ edges = NoMap /\ nextN = 0 /\ nextE = 0
  /\ outT = NoMap /\ inT = NoMap /\ edgeT = NoMap /\ dirT = d
  /\ out = "ok" /\ legal = TRUE

Init == \E d \in BOOLEAN : GraphInit(d)
Spec == Init /\ [][GraphNext]_gvars

\* ---------------------------------------------------------------- the property (graph part)
TypeOK ==
  /\ directed \in BOOLEAN /\ dirT \in BOOLEAN /\ legal \in BOOLEAN /\ out \in {"ok", "raise"}
  /\ nodes \subseteq Nat /\ DOMAIN edges \subseteq Nat
  /\ \A n \in nodes : n < nextN
  /\ \A e \in DOMAIN edges : e < nextE

\* the outcome of every call is one the statement permits (absent operands raise, ...)
OutcomeLegal == legal

\* every edge has two existing end points (reference and edge table)
EndpointsExist ==
  /\ \A e \in DOMAIN edges : edges[e][1] \in nodes /\ edges[e][2] \in nodes
  /\ \A e \in DOMAIN edgeT : edgeT[e][1] \in DOMAIN outT /\ edgeT[e][2] \in DOMAIN outT

\* ... and is listed by both of them, in both directions when undirected (views against each other)
ListedByBoth ==
  \A e \in DOMAIN edgeT :
    LET a == edgeT[e][1]  b == edgeT[e][2] IN
    (a \in DOMAIN outT /\ b \in DOMAIN inT) =>
      /\ b \in DOMAIN outT[a] /\ outT[a][b] = e
      /\ a \in DOMAIN inT[b] /\ inT[b][a] = e
      /\ ~dirT => (b \in DOMAIN outT /\ a \in DOMAIN inT /\ a \in DOMAIN outT[b] /\ outT[b][a] = e
                    /\ b \in DOMAIN inT[a] /\ inT[a][b] = e)

\* nothing is listed by a node that the edge table does not know, with these end points
NoDangling ==
  \A n \in DOMAIN outT :
    /\ \A m \in DOMAIN outT[n] :
         LET e == outT[n][m] IN e \in DOMAIN edgeT /\ (edgeT[e] = <<n, m>> \/ (~dirT /\ edgeT[e] = <<m, n>>))
    /\ n \in DOMAIN inT /\ \A m \in DOMAIN inT[n] :
         LET e == inT[n][m] IN e \in DOMAIN edgeT /\ (edgeT[e] = <<m, n>> \/ (~dirT /\ edgeT[e] = <<n, m>>))

\* the views are the reference multigraph
TablesMatchRef ==
  /\ dirT = directed
  /\ DOMAIN outT = nodes /\ DOMAIN inT = nodes
  /\ edgeT = edges
  /\ \A n \in nodes \cap DOMAIN outT \cap DOMAIN inT :
       /\ DOMAIN outT[n] = NOut(n) /\ Rng(outT[n]) = EOut(n)
       /\ DOMAIN inT[n] = NIn(n) /\ Rng(inT[n]) = EIn(n)
       /\ \A m \in DOMAIN outT[n] : outT[n][m] \in RelD(n, m)
       /\ \A m \in DOMAIN inT[n] : inT[n][m] \in RelD(m, n)

GraphInvariants == TypeOK /\ OutcomeLegal /\ EndpointsExist /\ ListedByBoth /\ NoDangling /\ TablesMatchRef
=============================================================================
