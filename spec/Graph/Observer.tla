------------------------------ MODULE Observer ------------------------------
\* Association layer (src/Bpp/Graph/AssociationGraphImplObserver.h) on top of
\* the graph core - property C14, association part.
\*
\* Up to two observers watch ONE graph: observer 1 and a copy (observer 2).
\* REFERENCE (ghost) per observer k:  rf[k] = [nObj, nIdx, eObj, eIdx, looseN, looseE]
\*     nObj : live node id -> node object     (partial injection)
\*     nIdx : node object  -> index           (partial injection)
\*     eObj, eIdx likewise for edges
\*     looseN/looseE : objects that hold an index without being associated,
\*                     because the user asked for exactly that (dissociate keeps
\*                     the index; set index on a not yet associated object)
\* VIEWS per observer k (the four redundant maps of the implementation, twice):
\*     ob[k] = [n2o, o2n, i2o, o2i,  e2o, o2e, j2o, o2j]
\* Deleting a node or an edge of the graph - through whichever observer or on
\* the graph itself - must make EVERY observer forget the item: object,
\* identifier and index.  A copy owns fresh objects (o + CopyShift) with the
\* same relations and indices; afterwards the two observers are independent.
EXTENDS Graph

CONSTANTS NObjs,     \* design model: node objects observer 1 may use
          EObjs,     \* design model: edge objects observer 1 may use
          Idxs,      \* design model: indices that may be set explicitly
          MaxObs,    \* design model: 1 = no copies, 2 = one copy may exist
          WithClone  \* design model: TRUE = the graph itself may be copied (second side)

None == -1
CopyShift == 1000

\* A copy of the GRAPH (GlobalGraph copy constructor / clone) is a second "side":
\* a graph of its own, with its own observers (none at first).  One side is
\* active - all the variables above describe it and every call acts on it - the
\* other one is parked:
\*   parked    = everything the parked side was when it was last active
\*               (reference and views), [has |-> FALSE] when there is no copy
\*   parkedNow = the views of the parked side as they are now (design model:
\*               what the algorithms do to it; traces: read back after every call)
\* "A later call on either side never changes the other" is SidesIndependent:
\* parkedNow always equals the views recorded in parked.
VARIABLES alive, ob, rf, parked, parkedNow
ovars == <<alive, ob, rf, parked, parkedNow>>
vars  == <<gvars, alive, ob, rf, parked, parkedNow>>

NoSide == [has |-> FALSE]
ThisSide(isClone) ==
  [has |-> TRUE, clone |-> isClone, directed |-> directed, nodes |-> nodes, edges |-> edges,
   nextN |-> nextN, nextE |-> nextE, outT |-> outT, inT |-> inT, edgeT |-> edgeT, dirT |-> dirT,
   alive |-> alive, ob |-> ob, rf |-> rf]
SideViews(sd) == IF sd.has THEN [has |-> TRUE, outT |-> sd.outT, inT |-> sd.inT, edgeT |-> sd.edgeT,
                                  dirT |-> sd.dirT, ob |-> sd.ob]
                 ELSE NoSide

Inv(f)        == [y \in Rng(f) |-> CHOOSE x \in DOMAIN f : f[x] = y]
Injective(f)  == \A x, y \in DOMAIN f : f[x] = f[y] => x = y
EmptyOb == [n2o |-> NoMap, o2n |-> NoMap, i2o |-> NoMap, o2i |-> NoMap,
            e2o |-> NoMap, o2e |-> NoMap, j2o |-> NoMap, o2j |-> NoMap]
EmptyRf == [nObj |-> NoMap, nIdx |-> NoMap, eObj |-> NoMap, eIdx |-> NoMap, looseN |-> {}, looseE |-> {}]

NodeOf(R, o) == IF o \in Rng(R.nObj) THEN Inv(R.nObj)[o] ELSE -1      \* -1: never a node
EdgeOf(R, o) == IF o \in Rng(R.eObj) THEN Inv(R.eObj)[o] ELSE -1

\* ---------------------------------------------------------------- reference
\* "forgets deleted items in every map"
ForgetR(R, dn, de) ==
  LET no == {R.nObj[n] : n \in dn \cap DOMAIN R.nObj}
      eo == {R.eObj[e] : e \in de \cap DOMAIN R.eObj}
  IN [R EXCEPT !.nObj = Del(R.nObj, dn), !.nIdx = Del(R.nIdx, no),
               !.eObj = Del(R.eObj, de), !.eIdx = Del(R.eIdx, eo)]

GEff(ok, rs) == Eff(ok, rs, nodes, edges, directed, nextN, nextE)     \* the graph is not touched
OEff(g, ok, rs, R) == [g |-> [g EXCEPT !.mayOk = ok, !.mayRaise = rs], R |-> R]

\* reference step of a call issued on observer k (k = 0: on the graph itself)
ApplyO(k, x) ==
  /\ Apply(x.g)
  /\ rf' = [j \in alive |->
              ForgetR(IF j = k /\ out' = "ok" /\ x.g.mayOk THEN x.R ELSE rf[j],
                      nodes \ nodes', DOMAIN edges \ DOMAIN edges')]
  /\ UNCHANGED <<alive, parked>>
OnGraph(g) == [g |-> g, R |-> EmptyRf]

\* an object that loses its association by an explicit user request keeps or
\* loses its index (the statement only speaks about deleted items): the
\* reference adopts what the observer did (keep = the object still has an index)
DropN(R, o, keep) == IF o \in DOMAIN R.nIdx /\ keep THEN [R EXCEPT !.looseN = R.looseN \cup {o}]
                     ELSE [R EXCEPT !.nIdx = Del(R.nIdx, {o})]
DropE(R, o, keep) == IF o \in DOMAIN R.eIdx /\ keep THEN [R EXCEPT !.looseE = R.looseE \cup {o}]
                     ELSE [R EXCEPT !.eIdx = Del(R.eIdx, {o})]

EOCreateNode(R, o, n) ==
  LET g == ECreateNode(n)  used == o \in Rng(R.nObj) IN
  OEff(g, g.mayOk /\ ~used, used,
       [R EXCEPT !.nObj = Put(R.nObj, n, o), !.looseN = R.looseN \ {o}])

EOCreateNodeFrom(R, of, o, eo, n, e) ==
  LET pre == of \in Rng(R.nObj) /\ o \notin Rng(R.nObj) /\ (eo = None \/ eo \notin Rng(R.eObj))
      g   == ECreateNodeFromNode(NodeOf(R, of), n, e)
  IN OEff(g, g.mayOk /\ pre, ~pre,
          [R EXCEPT !.nObj = Put(R.nObj, n, o), !.looseN = R.looseN \ {o},
                    !.eObj = IF eo = None THEN R.eObj ELSE Put(R.eObj, e, eo),
                    !.looseE = R.looseE \ {eo}])

EOLink(R, oa, ob2, eo, e) ==
  LET pre == oa \in Rng(R.nObj) /\ ob2 \in Rng(R.nObj) /\ (eo = None \/ eo \notin Rng(R.eObj))
      g   == ELink(NodeOf(R, oa), NodeOf(R, ob2), e)
  IN OEff(g, g.mayOk /\ pre, ~pre \/ g.mayRaise,
          [R EXCEPT !.eObj = IF eo = None THEN R.eObj ELSE Put(R.eObj, e, eo), !.looseE = R.looseE \ {eo}])

EOUnlink(R, oa, ob2) ==
  LET a == NodeOf(R, oa)  b == NodeOf(R, ob2)
      g == EUnlink(a, b, RelD(a, b))
  IN OEff(g, g.mayOk, g.mayRaise, R)

EODeleteNode(R, o) ==
  LET g == EDeleteNode(NodeOf(R, o)) IN OEff(g, g.mayOk, g.mayRaise, R)

\* associating to an occupied identifier: raise, or replace the previous object
EAssocNode(R, o, n, keepOld) ==
  LET used == o \in Rng(R.nObj)  occ == n \in DOMAIN R.nObj
      R1 == IF occ THEN DropN(R, R.nObj[n], keepOld) ELSE R
  IN OEff(GEff(TRUE, FALSE), ~used /\ n \in nodes, used \/ n \notin nodes \/ occ,
          [R1 EXCEPT !.nObj = Put(R.nObj, n, o), !.looseN = R1.looseN \ {o}])

EAssocEdge(R, o, e, keepOld) ==
  LET used == o \in Rng(R.eObj)  occ == e \in DOMAIN R.eObj
      R1 == IF occ THEN DropE(R, R.eObj[e], keepOld) ELSE R
  IN OEff(GEff(TRUE, FALSE), ~used /\ e \in DOMAIN edges, used \/ e \notin DOMAIN edges \/ occ,
          [R1 EXCEPT !.eObj = Put(R.eObj, e, o), !.looseE = R1.looseE \ {o}])

EDissocNode(R, o, keep) ==
  LET used == o \in Rng(R.nObj) IN
  OEff(GEff(TRUE, FALSE), used, ~used, [DropN(R, o, keep) EXCEPT !.nObj = Del(R.nObj, {NodeOf(R, o)})])

EDissocEdge(R, o, keep) ==
  LET used == o \in Rng(R.eObj) IN
  OEff(GEff(TRUE, FALSE), used, ~used, [DropE(R, o, keep) EXCEPT !.eObj = Del(R.eObj, {EdgeOf(R, o)})])

\* explicit index: refused when the index is taken or the object has one;
\* an object that is not associated (yet) may be refused or accepted
ESetNodeIndex(R, o, i, ret) ==
  LET bad == i \in Rng(R.nIdx) \/ o \in DOMAIN R.nIdx IN
  OEff(GEff(TRUE, FALSE), ~bad /\ ret = i, bad \/ o \notin Rng(R.nObj),
       [R EXCEPT !.nIdx = Put(R.nIdx, o, i),
                 !.looseN = IF o \in Rng(R.nObj) THEN R.looseN ELSE R.looseN \cup {o}])

ESetEdgeIndex(R, o, i, ret) ==
  LET bad == i \in Rng(R.eIdx) \/ o \in DOMAIN R.eIdx IN
  OEff(GEff(TRUE, FALSE), ~bad /\ ret = i, bad \/ o \notin Rng(R.eObj),
       [R EXCEPT !.eIdx = Put(R.eIdx, o, i),
                 !.looseE = IF o \in Rng(R.eObj) THEN R.looseE ELSE R.looseE \cup {o}])

\* allocated index: any index nobody holds
EAddNodeIndex(R, o, ret) ==
  LET bad == o \in DOMAIN R.nIdx IN
  OEff(GEff(TRUE, FALSE), ~bad /\ ret >= 0 /\ ret \notin Rng(R.nIdx), bad \/ o \notin Rng(R.nObj),
       [R EXCEPT !.nIdx = Put(R.nIdx, o, ret),
                 !.looseN = IF o \in Rng(R.nObj) THEN R.looseN ELSE R.looseN \cup {o}])

EAddEdgeIndex(R, o, ret) ==
  LET bad == o \in DOMAIN R.eIdx IN
  OEff(GEff(TRUE, FALSE), ~bad /\ ret >= 0 /\ ret \notin Rng(R.eIdx), bad \/ o \notin Rng(R.eObj),
       [R EXCEPT !.eIdx = Put(R.eIdx, o, ret),
                 !.looseE = IF o \in Rng(R.eObj) THEN R.looseE ELSE R.looseE \cup {o}])

\* setEdgeLinking(a, b, eo) = associate eo to the edge a -> b ; tgt = the edge the observer chose
ESetEdgeLinking(R, oa, ob2, eo, tgt, keepOld) ==
  LET a == NodeOf(R, oa)  b == NodeOf(R, ob2)
      S == RelD(a, b)
      e == IF tgt \in S THEN tgt ELSE IF S # {} THEN CHOOSE x \in S : TRUE ELSE -1
      x == EAssocEdge(R, eo, e, keepOld)
  IN OEff(x.g, x.g.mayOk /\ S # {}, x.g.mayRaise \/ S = {}, x.R)

\* a copy owns fresh objects with the same relations and the same indices
\* the objects of observer k are named (k-1) * CopyShift + label; a copy made for observer k keeps the label
Ren(o, k) == (o % CopyShift) + (k - 1) * CopyShift
Shift(o) == Ren(o, 2)
CopyInto(R, k) ==
  LET no == DOMAIN R.nIdx \cap Rng(R.nObj)  eo == DOMAIN R.eIdx \cap Rng(R.eObj) IN
  [nObj |-> [n \in DOMAIN R.nObj |-> Ren(R.nObj[n], k)],
   nIdx |-> [o2 \in {Ren(o, k) : o \in no} |-> R.nIdx[CHOOSE o \in no : Ren(o, k) = o2]],
   eObj |-> [e \in DOMAIN R.eObj |-> Ren(R.eObj[e], k)],
   eIdx |-> [o2 \in {Ren(o, k) : o \in eo} |-> R.eIdx[CHOOSE o \in eo : Ren(o, k) = o2]],
   looseN |-> {}, looseE |-> {}]
CopyOf(R) == CopyInto(R, 2)

RefCopy ==      \* observer 2 := copy of observer 1
  /\ out' \in {"ok", "raise"}
  /\ legal' = (out' = "ok" /\ alive = {1})
  /\ IF out' = "ok" /\ alive = {1}
     THEN alive' = {1, 2} /\ rf' = [j \in {1, 2} |-> IF j = 1 THEN rf[1] ELSE CopyOf(rf[1])]
     ELSE UNCHANGED <<alive, rf>>
  /\ UNCHANGED <<refvars, parked>>

RefDrop ==      \* the copy is destroyed
  /\ out' \in {"ok", "raise"}
  /\ legal' = (out' = "ok" /\ alive = {1, 2})
  /\ IF out' = "ok" /\ alive = {1, 2}
     THEN alive' = {1} /\ rf' = [j \in {1} |-> rf[1]]
     ELSE UNCHANGED <<alive, rf>>
  /\ UNCHANGED <<refvars, parked>>

\* dst = src (operator=): dst forgets everything it had and becomes a copy of src, on src's graph
RefAssign(dst, src) ==
  LET can == dst \in alive /\ src \in alive IN
  /\ out' \in {"ok", "raise"}
  /\ legal' = (out' = "ok" /\ can)
  /\ IF out' = "ok" /\ can /\ dst # src
     THEN rf' = [rf EXCEPT ![dst] = CopyInto(rf[src], dst)]
     ELSE UNCHANGED rf
  /\ UNCHANGED <<refvars, alive, parked>>

\* an observer is attached to a graph that has none (constructor taking the graph)
RefAttach ==
  /\ out' \in {"ok", "raise"}
  /\ legal' = (out' = "ok" /\ alive = {})
  /\ IF out' = "ok" /\ alive = {}
     THEN alive' = {1} /\ rf' = [j \in {1} |-> EmptyRf]
     ELSE UNCHANGED <<alive, rf>>
  /\ UNCHANGED <<refvars, parked>>

\* the graph is copied: the copy has the same nodes and edges, and no observer
RefClone ==
  /\ out' \in {"ok", "raise"}
  /\ legal' = (out' = "ok" /\ ~parked.has)
  /\ IF out' = "ok" /\ ~parked.has
     THEN parked' = [ThisSide(TRUE) EXCEPT !.alive = {}, !.ob = <<>>, !.rf = <<>>]
     ELSE UNCHANGED parked
  /\ UNCHANGED <<refvars, alive, rf>>

\* the other side becomes the active one
RefSwap ==
  /\ out' \in {"ok", "raise"}
  /\ legal' = (out' = "ok" /\ parked.has)
  /\ IF out' = "ok" /\ parked.has
     THEN /\ directed' = parked.directed /\ nodes' = parked.nodes /\ edges' = parked.edges
          /\ nextN' = parked.nextN /\ nextE' = parked.nextE
          /\ alive' = parked.alive /\ rf' = parked.rf
          /\ parked' = ThisSide(~parked.clone)
     ELSE UNCHANGED <<refvars, alive, rf, parked>>

\* the copied graph (parked) is destroyed together with its observers
RefDropClone ==
  /\ out' \in {"ok", "raise"}
  /\ legal' = (out' = "ok" /\ parked.has /\ parked.clone)
  /\ IF out' = "ok" /\ parked.has /\ parked.clone THEN parked' = NoSide ELSE UNCHANGED parked
  /\ UNCHANGED <<refvars, alive, rf>>

\* observer k of this side = observer 1 of the other side: k leaves this graph and
\* becomes observer 2 of the other graph, a copy of its observer 1
\* the eight maps an observer must show for the association R
ObOfRef(R) == [n2o |-> R.nObj, o2n |-> Inv(R.nObj), i2o |-> Inv(R.nIdx), o2i |-> R.nIdx,
               e2o |-> R.eObj, o2e |-> Inv(R.eObj), j2o |-> Inv(R.eIdx), o2j |-> R.eIdx]
CanAssignAcross(k) ==
  /\ parked.has /\ k \in alive /\ \A j \in alive : j <= k
  /\ parked.alive = {1}
RefAssignAcross(k) ==
  /\ out' \in {"ok", "raise"}
  /\ legal' = (out' = "ok" /\ CanAssignAcross(k))
  /\ IF out' = "ok" /\ CanAssignAcross(k)
     THEN /\ alive' = alive \ {k} /\ rf' = [j \in alive \ {k} |-> rf[j]]
          /\ parked' = [parked EXCEPT !.alive = {1, 2},
                                      !.rf = [j \in {1, 2} |-> IF j = 1 THEN parked.rf[1] ELSE CopyInto(parked.rf[1], 2)],
                                      !.ob = [j \in {1, 2} |-> IF j = 1 THEN parked.ob[1]
                                                                 ELSE ObOfRef(CopyInto(parked.rf[1], 2))]]
     ELSE UNCHANGED <<alive, rf, parked>>
  /\ UNCHANGED refvars

\* ---------------------------------------------------------------- algorithms (transcription of the repaired observer)
AForget(O, dn, de) ==          \* deletedNodesUpdate / deletedEdgesUpdate
  LET no == {O.n2o[n] : n \in dn \cap DOMAIN O.n2o}
      eo == {O.e2o[e] : e \in de \cap DOMAIN O.e2o}
  IN [O EXCEPT !.n2o = Del(O.n2o, dn), !.o2n = Del(O.o2n, no),
               !.i2o = Del(O.i2o, {O.o2i[o] : o \in no \cap DOMAIN O.o2i}), !.o2i = Del(O.o2i, no),
               !.e2o = Del(O.e2o, de), !.o2e = Del(O.o2e, eo),
               !.j2o = Del(O.j2o, {O.o2j[o] : o \in eo \cap DOMAIN O.o2j}), !.o2j = Del(O.o2j, eo)]

\* views after a call on observer k whose graph part produced tables S and whose own maps became Onew
CommitO(S, k, Onew) ==
  /\ Commit(S)
  /\ ob' = [j \in alive |-> AForget(IF j = k THEN Onew ELSE ob[j],
                                    DOMAIN outT \ DOMAIN S.o, DOMAIN edgeT \ DOMAIN S.e)]
\* (the repaired algorithms of one side never touch the other side: parkedNow stays)
OkO(S, k, Onew) == out' = "ok" /\ CommitO(S, k, Onew) /\ parkedNow' = parkedNow
RaiseO == out' = "raise" /\ UNCHANGED viewvars /\ ob' = ob /\ parkedNow' = parkedNow

AAssocN(O, o, n) == [O EXCEPT !.n2o = Put(O.n2o, n, o), !.o2n = Put(O.o2n, o, n)]
AAssocE(O, o, e) == IF o = None THEN O ELSE [O EXCEPT !.e2o = Put(O.e2o, e, o), !.o2e = Put(O.o2e, o, e)]

Pool(k)  == IF k = 1 THEN NObjs ELSE {Shift(o) : o \in NObjs}
EPool(k) == IF k = 1 THEN EObjs ELSE {Shift(o) : o \in EObjs}

\* graph-level calls: every observer is notified
OnGraphCall(A) ==
  /\ A
  /\ ob' = [j \in alive |-> AForget(ob[j], DOMAIN outT \ DOMAIN outT', DOMAIN edgeT \ DOMAIN edgeT')]
  /\ rf' = [j \in alive |-> ForgetR(rf[j], nodes \ nodes', DOMAIN edges \ DOMAIN edges')]
  /\ UNCHANGED <<alive, parked, parkedNow>>

GCreateNode          == OnGraphCall(CreateNode)
GCreateNodeFromNode  == \E o \in Ids : OnGraphCall(CreateNodeFromNode(o))
GCreateNodeOnEdge    == \E x \in EIds : OnGraphCall(CreateNodeOnEdge(x))
GCreateNodeFromEdge  == \E x \in EIds : OnGraphCall(CreateNodeFromEdge(x))
GLink                == \E a, b \in Ids : OnGraphCall(Link(a, b))
GUnlink              == \E a, b \in Ids : OnGraphCall(Unlink(a, b))
GDeleteNode          == \E n \in Ids : OnGraphCall(DeleteNode(n))
GMakeDirected        == OnGraphCall(MakeDirected)
GMakeUndirected      == OnGraphCall(MakeUndirected)

OCreateNode(k, o) ==
  /\ nextN < MaxN
  /\ IF o \in DOMAIN ob[k].o2n THEN RaiseO
     ELSE OkO(ACreateNode(Cur, nextN), k, AAssocN(ob[k], o, nextN))
  /\ ApplyO(k, EOCreateNode(rf[k], o, nextN))

OCreateNodeFrom(k, of, o, eo) ==
  /\ nextN < MaxN /\ nextE < MaxE
  /\ LET O == ob[k] IN
     IF of \notin DOMAIN O.o2n \/ o \in DOMAIN O.o2n \/ (eo # None /\ eo \in DOMAIN O.o2e) THEN RaiseO
     ELSE OkO(ALink(ACreateNode(Cur, nextN), O.o2n[of], nextN, nextE), k,
              AAssocE(AAssocN(O, o, nextN), eo, nextE))
  /\ ApplyO(k, EOCreateNodeFrom(rf[k], of, o, eo, nextN, nextE))

OLink(k, oa, ob2, eo) ==
  /\ nextE < MaxE
  /\ LET O == ob[k] IN
     IF oa \notin DOMAIN O.o2n \/ ob2 \notin DOMAIN O.o2n \/ (eo # None /\ eo \in DOMAIN O.o2e) THEN RaiseO
     ELSE IF ~ACanLink(Cur, O.o2n[oa], O.o2n[ob2]) THEN RaiseO
     ELSE OkO(ALink(Cur, O.o2n[oa], O.o2n[ob2], nextE), k, AAssocE(O, eo, nextE))
  /\ ApplyO(k, EOLink(rf[k], oa, ob2, eo, nextE))

OUnlink(k, oa, ob2) ==
  /\ LET O == ob[k] IN
     IF oa \notin DOMAIN O.o2n \/ ob2 \notin DOMAIN O.o2n THEN RaiseO
     ELSE IF ~ACanUnlink(Cur, O.o2n[oa], O.o2n[ob2]) THEN RaiseO
     ELSE OkO(AUnlink(Cur, O.o2n[oa], O.o2n[ob2]), k, O)
  /\ ApplyO(k, EOUnlink(rf[k], oa, ob2))

ODeleteNode(k, o) ==
  /\ LET O == ob[k] IN
     IF o \notin DOMAIN O.o2n THEN RaiseO ELSE OkO(ADeleteNode(Cur, O.o2n[o]), k, O)
  /\ ApplyO(k, EODeleteNode(rf[k], o))

AssocNode(k, o, n) ==
  /\ LET O == ob[k] IN
     IF o \in DOMAIN O.o2n \/ n \notin DOMAIN outT \/ n \in DOMAIN O.n2o THEN RaiseO
     ELSE OkO(Cur, k, AAssocN(O, o, n))
  /\ ApplyO(k, EAssocNode(rf[k], o, n, TRUE))

AssocEdge(k, o, e) ==
  /\ LET O == ob[k] IN
     IF o \in DOMAIN O.o2e \/ e \notin DOMAIN edgeT \/ e \in DOMAIN O.e2o THEN RaiseO
     ELSE OkO(Cur, k, AAssocE(O, o, e))
  /\ ApplyO(k, EAssocEdge(rf[k], o, e, TRUE))

DissocNode(k, o) ==      \* the index stays with the object
  /\ LET O == ob[k] IN
     IF o \notin DOMAIN O.o2n THEN RaiseO
     ELSE OkO(Cur, k, [O EXCEPT !.n2o = Del(O.n2o, {O.o2n[o]}), !.o2n = Del(O.o2n, {o})])
  /\ ApplyO(k, EDissocNode(rf[k], o, o \in DOMAIN ob'[k].o2i))

DissocEdge(k, o) ==
  /\ LET O == ob[k] IN
     IF o \notin DOMAIN O.o2e THEN RaiseO
     ELSE OkO(Cur, k, [O EXCEPT !.e2o = Del(O.e2o, {O.o2e[o]}), !.o2e = Del(O.o2e, {o})])
  /\ ApplyO(k, EDissocEdge(rf[k], o, o \in DOMAIN ob'[k].o2j))

SetNodeIndex(k, o, i) ==
  /\ LET O == ob[k] IN
     IF i \in DOMAIN O.i2o \/ o \in DOMAIN O.o2i THEN RaiseO
     ELSE OkO(Cur, k, [O EXCEPT !.i2o = Put(O.i2o, i, o), !.o2i = Put(O.o2i, o, i)])
  /\ ApplyO(k, ESetNodeIndex(rf[k], o, i, i))

SetEdgeIndex(k, o, i) ==
  /\ LET O == ob[k] IN
     IF i \in DOMAIN O.j2o \/ o \in DOMAIN O.o2j THEN RaiseO
     ELSE OkO(Cur, k, [O EXCEPT !.j2o = Put(O.j2o, i, o), !.o2j = Put(O.o2j, o, i)])
  /\ ApplyO(k, ESetEdgeIndex(rf[k], o, i, i))

FirstFree(f) == CHOOSE i \in 0..Cardinality(DOMAIN f) : i \notin DOMAIN f /\ \A j \in 0..(i - 1) : j \in DOMAIN f

AddNodeIndex(k, o) ==
  /\ LET O == ob[k]  i == FirstFree(O.i2o) IN
     /\ IF o \in DOMAIN O.o2i THEN RaiseO
        ELSE OkO(Cur, k, [O EXCEPT !.i2o = Put(O.i2o, i, o), !.o2i = Put(O.o2i, o, i)])
     /\ ApplyO(k, EAddNodeIndex(rf[k], o, i))

AddEdgeIndex(k, o) ==
  /\ LET O == ob[k]  i == FirstFree(O.j2o) IN
     /\ IF o \in DOMAIN O.o2j THEN RaiseO
        ELSE OkO(Cur, k, [O EXCEPT !.j2o = Put(O.j2o, i, o), !.o2j = Put(O.o2j, o, i)])
     /\ ApplyO(k, EAddEdgeIndex(rf[k], o, i))

SetEdgeLinking(k, oa, ob2, eo) ==
  /\ LET O == ob[k] IN
     IF oa \notin DOMAIN O.o2n \/ ob2 \notin DOMAIN O.o2n THEN RaiseO /\ ApplyO(k, ESetEdgeLinking(rf[k], oa, ob2, eo, -1, TRUE))
     ELSE LET a == O.o2n[oa]  b == O.o2n[ob2] IN
          IF b \notin DOMAIN outT[a] THEN RaiseO /\ ApplyO(k, ESetEdgeLinking(rf[k], oa, ob2, eo, -1, TRUE))
          ELSE LET e == outT[a][b] IN
               /\ IF eo \in DOMAIN O.o2e \/ e \in DOMAIN O.e2o THEN RaiseO ELSE OkO(Cur, k, AAssocE(O, eo, e))
               /\ ApplyO(k, ESetEdgeLinking(rf[k], oa, ob2, eo, e, TRUE))

\* copy constructors and (repaired) operator=: one fresh object per associated object,
\* index copied when there is one, nothing else kept
ACopyInto(O, k) ==
  LET Back(S, o2) == CHOOSE o \in S : Ren(o, k) = o2
      ni == DOMAIN O.o2i \cap DOMAIN O.o2n  ei == DOMAIN O.o2j \cap DOMAIN O.o2e IN
  [n2o |-> [n \in DOMAIN O.n2o |-> Ren(O.n2o[n], k)],
   o2n |-> [o2 \in {Ren(o, k) : o \in DOMAIN O.o2n} |-> O.o2n[Back(DOMAIN O.o2n, o2)]],
   i2o |-> [i \in {O.o2i[o] : o \in ni} |-> Ren(O.i2o[i], k)],
   o2i |-> [o2 \in {Ren(o, k) : o \in ni} |-> O.o2i[Back(ni, o2)]],
   e2o |-> [e \in DOMAIN O.e2o |-> Ren(O.e2o[e], k)],
   o2e |-> [o2 \in {Ren(o, k) : o \in DOMAIN O.o2e} |-> O.o2e[Back(DOMAIN O.o2e, o2)]],
   j2o |-> [i \in {O.o2j[o] : o \in ei} |-> Ren(O.j2o[i], k)],
   o2j |-> [o2 \in {Ren(o, k) : o \in ei} |-> O.o2j[Back(ei, o2)]]]
ACopyOf(O) == ACopyInto(O, 2)

Copy ==
  /\ MaxObs >= 2 /\ alive = {1}
  /\ out' = "ok" /\ UNCHANGED viewvars /\ parkedNow' = parkedNow
  /\ ob' = [j \in {1, 2} |-> IF j = 1 THEN ob[1] ELSE ACopyOf(ob[1])]
  /\ RefCopy

Drop ==
  /\ alive = {1, 2}
  /\ out' = "ok" /\ UNCHANGED viewvars /\ parkedNow' = parkedNow
  /\ ob' = [j \in {1} |-> ob[1]]
  /\ RefDrop

Assign(dst, src) ==
  /\ dst \in alive /\ src \in alive
  /\ out' = "ok" /\ UNCHANGED viewvars /\ parkedNow' = parkedNow
  /\ ob' = IF dst = src THEN ob ELSE [ob EXCEPT ![dst] = ACopyInto(ob[src], dst)]
  /\ RefAssign(dst, src)

Attach ==
  /\ alive = {}
  /\ out' = "ok" /\ UNCHANGED viewvars /\ parkedNow' = parkedNow
  /\ ob' = [j \in {1} |-> EmptyOb]
  /\ RefAttach

Clone ==              \* repaired copy constructor: the observer registrations are not copied
  /\ WithClone /\ ~parked.has
  /\ out' = "ok" /\ UNCHANGED viewvars /\ ob' = ob
  /\ RefClone
  /\ parkedNow' = [has |-> TRUE, outT |-> outT, inT |-> inT, edgeT |-> edgeT, dirT |-> dirT, ob |-> <<>>]

Swap ==
  /\ parked.has
  /\ out' = "ok"
  /\ outT' = parkedNow.outT /\ inT' = parkedNow.inT /\ edgeT' = parkedNow.edgeT /\ dirT' = parkedNow.dirT
  /\ ob' = parkedNow.ob
  /\ RefSwap
  /\ parkedNow' = [has |-> TRUE, outT |-> outT, inT |-> inT, edgeT |-> edgeT, dirT |-> dirT, ob |-> ob]

DropClone ==
  /\ parked.has /\ parked.clone
  /\ out' = "ok" /\ UNCHANGED viewvars /\ ob' = ob
  /\ RefDropClone
  /\ parkedNow' = NoSide

AssignAcross(k) ==    \* repaired operator=: leaves the old graph, registers with the new one
  /\ CanAssignAcross(k)
  /\ out' = "ok" /\ UNCHANGED viewvars
  /\ ob' = [j \in alive \ {k} |-> ob[j]]
  /\ parkedNow' = [parkedNow EXCEPT !.ob = [j \in {1, 2} |-> IF j = 1 THEN parkedNow.ob[1]
                                                             ELSE ACopyInto(parkedNow.ob[1], 2)]]
  /\ RefAssignAcross(k)

\* ---------------------------------------------------------------- design-model next-state relation
NO(k) == Pool(k)                   \* node objects a call may name (associated or not)
EO(k) == EPool(k) \cup {None}

DCreateNode      == \E k \in alive : \E o \in NO(k) : OCreateNode(k, o)
DCreateNodeFrom  == \E k \in alive : \E of, o \in NO(k) : \E eo \in EO(k) : OCreateNodeFrom(k, of, o, eo)
DLink            == \E k \in alive : \E oa, ob2 \in NO(k) : \E eo \in EO(k) : OLink(k, oa, ob2, eo)
DUnlink          == \E k \in alive : \E oa, ob2 \in NO(k) : OUnlink(k, oa, ob2)
DDeleteNode      == \E k \in alive : \E o \in NO(k) : ODeleteNode(k, o)
DAssocNode       == \E k \in alive : \E o \in NO(k) : \E n \in Ids : AssocNode(k, o, n)
DAssocEdge       == \E k \in alive : \E o \in EPool(k) : \E e \in EIds : AssocEdge(k, o, e)
DDissocNode      == \E k \in alive : \E o \in NO(k) : DissocNode(k, o)
DDissocEdge      == \E k \in alive : \E o \in EPool(k) : DissocEdge(k, o)
DSetNodeIndex    == \E k \in alive : \E o \in NO(k) : \E i \in Idxs : SetNodeIndex(k, o, i)
DSetEdgeIndex    == \E k \in alive : \E o \in EPool(k) : \E i \in Idxs : SetEdgeIndex(k, o, i)
DAddNodeIndex    == \E k \in alive : \E o \in NO(k) : AddNodeIndex(k, o)
DAddEdgeIndex    == \E k \in alive : \E o \in EPool(k) : AddEdgeIndex(k, o)
DSetEdgeLinking  == \E k \in alive : \E oa, ob2 \in NO(k) : \E eo \in EPool(k) : SetEdgeLinking(k, oa, ob2, eo)

DAssign          == \E dst, src \in alive : Assign(dst, src)
DAssignAcross    == \E k \in alive : AssignAcross(k)

ObsNext ==
  \/ GCreateNode \/ GCreateNodeFromNode \/ GCreateNodeOnEdge \/ GCreateNodeFromEdge
  \/ GLink \/ GUnlink \/ GDeleteNode \/ GMakeDirected \/ GMakeUndirected
  \/ DCreateNode \/ DCreateNodeFrom \/ DLink \/ DUnlink \/ DDeleteNode
  \/ DAssocNode \/ DAssocEdge \/ DDissocNode \/ DDissocEdge
  \/ DSetNodeIndex \/ DSetEdgeIndex \/ DAddNodeIndex \/ DAddEdgeIndex \/ DSetEdgeLinking
  \/ Copy \/ Drop \/ DAssign \/ Attach
  \/ Clone \/ Swap \/ DropClone \/ DAssignAcross

ObsInit(d) ==
  /\ GraphInit(d)
  /\ alive = {1} /\ ob = [j \in {1} |-> EmptyOb] /\ rf = [j \in {1} |-> EmptyRf]
  /\ parked = NoSide /\ parkedNow = NoSide

OInit == \E d \in BOOLEAN : ObsInit(d)
OSpec == OInit /\ [][ObsNext]_vars

\* ---------------------------------------------------------------- the property (association part)
OTypeOK == alive \in {{}, {1}, {1, 2}} /\ DOMAIN ob = alive /\ DOMAIN rf = alive /\ parked.has = parkedNow.has

\* a call on one side (graph + its observers) never changes the other side: the copy of a
\* graph shares nothing with the original, an observer assigned away no longer listens to its old graph
SidesIndependent == parkedNow = SideViews(parked)

\* each live node / edge has at most one object, identifier and index, and back again
OneToOne ==
  \A k \in alive :
    LET R == rf[k]  O == ob[k] IN
    /\ Injective(R.nObj) /\ Injective(R.nIdx) /\ Injective(R.eObj) /\ Injective(R.eIdx)
    /\ Injective(O.n2o) /\ Injective(O.o2n) /\ Injective(O.i2o) /\ Injective(O.o2i)
    /\ Injective(O.e2o) /\ Injective(O.o2e) /\ Injective(O.j2o) /\ Injective(O.o2j)

\* the two directions of every map are inverse to each other (views against each other)
BackAgain ==
  \A k \in alive :
    LET O == ob[k] IN
    /\ DOMAIN O.o2n = Rng(O.n2o) /\ \A n \in DOMAIN O.n2o : O.n2o[n] \in DOMAIN O.o2n /\ O.o2n[O.n2o[n]] = n
    /\ DOMAIN O.o2i = Rng(O.i2o) /\ \A i \in DOMAIN O.i2o : O.i2o[i] \in DOMAIN O.o2i /\ O.o2i[O.i2o[i]] = i
    /\ DOMAIN O.o2e = Rng(O.e2o) /\ \A e \in DOMAIN O.e2o : O.e2o[e] \in DOMAIN O.o2e /\ O.o2e[O.e2o[e]] = e
    /\ DOMAIN O.o2j = Rng(O.j2o) /\ \A i \in DOMAIN O.j2o : O.j2o[i] \in DOMAIN O.o2j /\ O.o2j[O.j2o[i]] = i

\* no map mentions a deleted node or edge: identifiers are live, and an index
\* belongs to an associated object unless the user put it there explicitly
ForgetDeleted ==
  \A k \in alive :
    LET R == rf[k]  O == ob[k] IN
    /\ DOMAIN R.nObj \subseteq nodes /\ DOMAIN R.eObj \subseteq DOMAIN edges
    /\ DOMAIN R.nIdx \subseteq Rng(R.nObj) \cup R.looseN
    /\ DOMAIN R.eIdx \subseteq Rng(R.eObj) \cup R.looseE
    /\ DOMAIN O.n2o \subseteq DOMAIN outT /\ DOMAIN O.e2o \subseteq DOMAIN edgeT
    /\ DOMAIN O.o2i \subseteq DOMAIN O.o2n \cup R.looseN
    /\ DOMAIN O.o2j \subseteq DOMAIN O.o2e \cup R.looseE

\* the observer's maps are the reference association
MapsMatchRef ==
  \A k \in alive :
    LET R == rf[k]  O == ob[k] IN
    /\ O.n2o = R.nObj /\ O.o2i = R.nIdx /\ O.e2o = R.eObj /\ O.o2j = R.eIdx
    /\ Injective(R.nObj) => O.o2n = Inv(R.nObj)
    /\ Injective(R.nIdx) => O.i2o = Inv(R.nIdx)
    /\ Injective(R.eObj) => O.o2e = Inv(R.eObj)
    /\ Injective(R.eIdx) => O.j2o = Inv(R.eIdx)

\* a copy shares no object with the original
CopyIndependent ==
  alive = {1, 2} =>
    /\ (Rng(rf[1].nObj) \cup DOMAIN rf[1].nIdx) \cap (Rng(rf[2].nObj) \cup DOMAIN rf[2].nIdx) = {}
    /\ (Rng(rf[1].eObj) \cup DOMAIN rf[1].eIdx) \cap (Rng(rf[2].eObj) \cup DOMAIN rf[2].eIdx) = {}
    /\ (DOMAIN ob[1].o2n \cup DOMAIN ob[1].o2i) \cap (DOMAIN ob[2].o2n \cup DOMAIN ob[2].o2i) = {}
    /\ (DOMAIN ob[1].o2e \cup DOMAIN ob[1].o2j) \cap (DOMAIN ob[2].o2e \cup DOMAIN ob[2].o2j) = {}

\* ... and right after the copy it has the same relations and indices (action property)
CopySame ==
  [][(alive = {1} /\ alive' = {1, 2} /\ parked' = parked) =>
        /\ rf'[1] = rf[1] /\ ob'[1] = ob[1]
        /\ DOMAIN rf'[2].nObj = DOMAIN rf[1].nObj /\ DOMAIN rf'[2].eObj = DOMAIN rf[1].eObj
        /\ \A n \in DOMAIN rf[1].nObj :
             (rf[1].nObj[n] \in DOMAIN rf[1].nIdx) =>
               (rf'[2].nObj[n] \in DOMAIN rf'[2].nIdx /\ rf'[2].nIdx[rf'[2].nObj[n]] = rf[1].nIdx[rf[1].nObj[n]])
        /\ \A e \in DOMAIN rf[1].eObj :
             (rf[1].eObj[e] \in DOMAIN rf[1].eIdx) =>
               (rf'[2].eObj[e] \in DOMAIN rf'[2].eIdx /\ rf'[2].eIdx[rf'[2].eObj[e]] = rf[1].eIdx[rf[1].eObj[e]])]_vars

\* a call on one observer that deletes nothing leaves the other observer's association alone
Independent ==
  [][(alive' = alive /\ parked' = parked /\ nodes' = nodes /\ DOMAIN edges \subseteq DOMAIN edges') =>
        \A k \in alive : (rf'[k] # rf[k]) => \A j \in alive \ {k} : rf'[j] = rf[j] /\ ob'[j] = ob[j]]_vars

\* a call that raises changes nothing at all (2k)
RaiseKeepsState ==
  [][(out' = "raise") => UNCHANGED <<refvars, viewvars, alive, ob, rf, parked, parkedNow>>]_vars

CONSTANT MaxDepth        \* history-length bound used by ObserverMC.tla (0 = none)
=============================================================================
