SPECIFICATION TraceSpec
CONSTANTS
  MaxN = 0
  MaxE = 0
  NObjs = {}
  EObjs = {}
  Idxs = {}
  MaxObs = 2
  MaxDepth = 0
  WithClone = TRUE
INVARIANTS
  OutcomeLegal EndpointsExist ListedByBoth NoDangling TablesMatchRef
  OTypeOK OneToOne BackAgain ForgetDeleted MapsMatchRef CopyIndependent SidesIndependent
  ViewLists ViewNodeTable ViewPairs ViewAbsent ViewObs AssocEndpoints
POSTCONDITION TraceAccepted
CHECK_DEADLOCK FALSE
