---- MODULE GraphTrace_TTrace_1790489136 ----
EXTENDS Sequences, TLCExt, Toolbox, GraphTrace, Naturals, TLC

_expression ==
    LET GraphTrace_TEExpression == INSTANCE GraphTrace_TEExpression
    IN GraphTrace_TEExpression!expression
----

_trace ==
    LET GraphTrace_TETrace == INSTANCE GraphTrace_TETrace
    IN GraphTrace_TETrace!trace
----

_inv ==
    ~(
        TLCGet("level") = Len(_TETrace)
        /\
        directed = (TRUE)
        /\
        alive = ({1})
        /\
        nextN = (0)
        /\
        edges = (<<>>)
        /\
        dirT = (TRUE)
        /\
        edgeT = ((0 :> <<0, 0>>))
        /\
        l = (3)
        /\
        inT = ((0 :> (0 :> 0)))
        /\
        nextE = (0)
        /\
        out = ("ok")
        /\
        view = ([nt |-> <<[n |-> 0, om |-> <<<<0, 0>>>>, im |-> <<<<0, 0>>>>, on |-> <<0>>, in |-> <<0>>, nb |-> <<0, 0>>, oe |-> <<0>>, ie |-> <<0>>, ed |-> <<0, 0>>, ion |-> <<0>>, iin |-> <<0>>, ioe |-> <<0>>, iie |-> <<0>>, con |-> <<0>>, cin |-> <<0>>, coe |-> <<0>>, cie |-> <<0>>, no |-> 1, ni |-> 1, nnb |-> 2, deg |-> 2, leaf |-> TRUE]>>, et |-> <<<<0, 0, 0, 0, 0>>>>, dir |-> TRUE, obs |-> <<[n2o |-> <<<<0, 1>>>>, o2n |-> <<<<1, 0>>>>, i2o |-> <<>>, o2i |-> <<>>, e2o |-> <<<<0, 1>>>>, o2e |-> <<<<1, 0>>>>, j2o |-> <<>>, o2j |-> <<>>, nt |-> <<[o |-> 1, on |-> <<1>>, in |-> <<1>>, nb |-> <<1, 1>>, oe |-> <<1>>, ie |-> <<1>>, ed |-> <<1, 1>>, ion |-> <<1>>, iin |-> <<1>>, ioe |-> <<1>>, iie |-> <<1>>, con |-> <<1>>, cin |-> <<1>>, coe |-> <<1>>, cie |-> <<1>>, deg |-> 2, leaf |-> TRUE]>>, et |-> <<<<1, 1, 1>>>>, k |-> 1, nn |-> 1, ite |-> <<1>>, itec |-> <<1>>, ne |-> 1, lv |-> <<1>>, all |-> <<1>>, it |-> <<1>>, itc |-> <<1>>, alle |-> <<1>>, nl |-> 1, idxs |-> <<-2>>, eidxs |-> <<-2>>, el |-> <<<<1, 1, 1>>>>, absq |-> 0]>>, nodes |-> <<0>>, itn |-> <<0>>, itnc |-> <<0>>, nn |-> 1, ite |-> <<0>>, itec |-> <<0>>, ne |-> 1, lv |-> <<0>>, lvs |-> <<0>>, pairs |-> <<<<0, 0, 0, 0>>, <<0, 3, -2, -2>>, <<3, 0, -2, -2>>, <<3, 3, -2, -2>>>>, absn |-> 0])
        /\
        outT = ((0 :> (0 :> 0)))
        /\
        nodes = ({})
        /\
        ob = (<<[n2o |-> (0 :> 1), o2n |-> <<0>>, i2o |-> <<>>, o2i |-> <<>>, e2o |-> (0 :> 1), o2e |-> <<0>>, j2o |-> <<>>, o2j |-> <<>>]>>)
        /\
        rf = (<<[nObj |-> <<>>, nIdx |-> <<>>, eObj |-> <<>>, eIdx |-> <<>>, looseN |-> {}, looseE |-> {}]>>)
        /\
        legal = (FALSE)
    )
----

_init ==
    /\ view = _TETrace[1].view
    /\ inT = _TETrace[1].inT
    /\ l = _TETrace[1].l
    /\ edgeT = _TETrace[1].edgeT
    /\ edges = _TETrace[1].edges
    /\ dirT = _TETrace[1].dirT
    /\ directed = _TETrace[1].directed
    /\ nodes = _TETrace[1].nodes
    /\ legal = _TETrace[1].legal
    /\ ob = _TETrace[1].ob
    /\ nextE = _TETrace[1].nextE
    /\ nextN = _TETrace[1].nextN
    /\ outT = _TETrace[1].outT
    /\ rf = _TETrace[1].rf
    /\ out = _TETrace[1].out
    /\ alive = _TETrace[1].alive
----

_next ==
    /\ \E i,j \in DOMAIN _TETrace:
        /\ \/ /\ j = i + 1
              /\ i = TLCGet("level")
        /\ view  = _TETrace[i].view
        /\ view' = _TETrace[j].view
        /\ inT  = _TETrace[i].inT
        /\ inT' = _TETrace[j].inT
        /\ l  = _TETrace[i].l
        /\ l' = _TETrace[j].l
        /\ edgeT  = _TETrace[i].edgeT
        /\ edgeT' = _TETrace[j].edgeT
        /\ edges  = _TETrace[i].edges
        /\ edges' = _TETrace[j].edges
        /\ dirT  = _TETrace[i].dirT
        /\ dirT' = _TETrace[j].dirT
        /\ directed  = _TETrace[i].directed
        /\ directed' = _TETrace[j].directed
        /\ nodes  = _TETrace[i].nodes
        /\ nodes' = _TETrace[j].nodes
        /\ legal  = _TETrace[i].legal
        /\ legal' = _TETrace[j].legal
        /\ ob  = _TETrace[i].ob
        /\ ob' = _TETrace[j].ob
        /\ nextE  = _TETrace[i].nextE
        /\ nextE' = _TETrace[j].nextE
        /\ nextN  = _TETrace[i].nextN
        /\ nextN' = _TETrace[j].nextN
        /\ outT  = _TETrace[i].outT
        /\ outT' = _TETrace[j].outT
        /\ rf  = _TETrace[i].rf
        /\ rf' = _TETrace[j].rf
        /\ out  = _TETrace[i].out
        /\ out' = _TETrace[j].out
        /\ alive  = _TETrace[i].alive
        /\ alive' = _TETrace[j].alive

\* Uncomment the ASSUME below to write the states of the error trace
\* to the given file in Json format. Note that you can pass any tuple
\* to `JsonSerialize`. For example, a sub-sequence of _TETrace.
    \* ASSUME
    \*     LET J == INSTANCE Json
    \*         IN J!JsonSerialize("GraphTrace_TTrace_1790489136.json", _TETrace)

=============================================================================

 Note that you can extract this module `GraphTrace_TEExpression`
  to a dedicated file to reuse `expression` (the module in the 
  dedicated `GraphTrace_TEExpression.tla` file takes precedence 
  over the module `GraphTrace_TEExpression` below).

---- MODULE GraphTrace_TEExpression ----
EXTENDS Sequences, TLCExt, Toolbox, GraphTrace, Naturals, TLC

expression == 
    [
        \* To hide variables of the `GraphTrace` spec from the error trace,
        \* remove the variables below.  The trace will be written in the order
        \* of the fields of this record.
        view |-> view
        ,inT |-> inT
        ,l |-> l
        ,edgeT |-> edgeT
        ,edges |-> edges
        ,dirT |-> dirT
        ,directed |-> directed
        ,nodes |-> nodes
        ,legal |-> legal
        ,ob |-> ob
        ,nextE |-> nextE
        ,nextN |-> nextN
        ,outT |-> outT
        ,rf |-> rf
        ,out |-> out
        ,alive |-> alive
        
        \* Put additional constant-, state-, and action-level expressions here:
        \* ,_stateNumber |-> _TEPosition
        \* ,_viewUnchanged |-> view = view'
        
        \* Format the `view` variable as Json value.
        \* ,_viewJson |->
        \*     LET J == INSTANCE Json
        \*     IN J!ToJson(view)
        
        \* Lastly, you may build expressions over arbitrary sets of states by
        \* leveraging the _TETrace operator.  For example, this is how to
        \* count the number of times a spec variable changed up to the current
        \* state in the trace.
        \* ,_viewModCount |->
        \*     LET F[s \in DOMAIN _TETrace] ==
        \*         IF s = 1 THEN 0
        \*         ELSE IF _TETrace[s].view # _TETrace[s-1].view
        \*             THEN 1 + F[s-1] ELSE F[s-1]
        \*     IN F[_TEPosition - 1]
    ]

=============================================================================



Parsing and semantic processing can take forever if the trace below is long.
 In this case, it is advised to uncomment the module below to deserialize the
 trace from a generated binary file.

\*
\*---- MODULE GraphTrace_TETrace ----
\*EXTENDS IOUtils, GraphTrace, TLC
\*
\*trace == IODeserialize("GraphTrace_TTrace_1790489136.bin", TRUE)
\*
\*=============================================================================
\*

---- MODULE GraphTrace_TETrace ----
EXTENDS GraphTrace, TLC

trace == 
    <<
    ([directed |-> TRUE,alive |-> {1},nextN |-> 0,edges |-> <<>>,dirT |-> TRUE,edgeT |-> <<>>,l |-> 1,inT |-> <<>>,nextE |-> 0,out |-> "ok",view |-> [none |-> TRUE],outT |-> <<>>,nodes |-> {},ob |-> <<[n2o |-> <<>>, o2n |-> <<>>, i2o |-> <<>>, o2i |-> <<>>, e2o |-> <<>>, o2e |-> <<>>, j2o |-> <<>>, o2j |-> <<>>]>>,rf |-> <<[nObj |-> <<>>, nIdx |-> <<>>, eObj |-> <<>>, eIdx |-> <<>>, looseN |-> {}, looseE |-> {}]>>,legal |-> TRUE]),
    ([directed |-> TRUE,alive |-> {1},nextN |-> 0,edges |-> <<>>,dirT |-> TRUE,edgeT |-> <<>>,l |-> 2,inT |-> <<>>,nextE |-> 0,out |-> "ok",view |-> [nt |-> <<>>, et |-> <<>>, dir |-> TRUE, obs |-> <<[n2o |-> <<>>, o2n |-> <<>>, i2o |-> <<>>, o2i |-> <<>>, e2o |-> <<>>, o2e |-> <<>>, j2o |-> <<>>, o2j |-> <<>>, nt |-> <<>>, et |-> <<>>, k |-> 1, nn |-> 0, ite |-> <<>>, itec |-> <<>>, ne |-> 0, lv |-> <<>>, all |-> <<>>, it |-> <<>>, itc |-> <<>>, alle |-> <<>>, nl |-> 0, idxs |-> <<>>, eidxs |-> <<>>, el |-> <<>>, absq |-> 0]>>, nodes |-> <<>>, itn |-> <<>>, itnc |-> <<>>, nn |-> 0, ite |-> <<>>, itec |-> <<>>, ne |-> 0, lv |-> <<>>, lvs |-> <<>>, pairs |-> <<<<2, 2, -2, -2>>>>, absn |-> 0],outT |-> <<>>,nodes |-> {},ob |-> <<[n2o |-> <<>>, o2n |-> <<>>, i2o |-> <<>>, o2i |-> <<>>, e2o |-> <<>>, o2e |-> <<>>, j2o |-> <<>>, o2j |-> <<>>]>>,rf |-> <<[nObj |-> <<>>, nIdx |-> <<>>, eObj |-> <<>>, eIdx |-> <<>>, looseN |-> {}, looseE |-> {}]>>,legal |-> TRUE]),
    ([directed |-> TRUE,alive |-> {1},nextN |-> 0,edges |-> <<>>,dirT |-> TRUE,edgeT |-> (0 :> <<0, 0>>),l |-> 3,inT |-> (0 :> (0 :> 0)),nextE |-> 0,out |-> "ok",view |-> [nt |-> <<[n |-> 0, om |-> <<<<0, 0>>>>, im |-> <<<<0, 0>>>>, on |-> <<0>>, in |-> <<0>>, nb |-> <<0, 0>>, oe |-> <<0>>, ie |-> <<0>>, ed |-> <<0, 0>>, ion |-> <<0>>, iin |-> <<0>>, ioe |-> <<0>>, iie |-> <<0>>, con |-> <<0>>, cin |-> <<0>>, coe |-> <<0>>, cie |-> <<0>>, no |-> 1, ni |-> 1, nnb |-> 2, deg |-> 2, leaf |-> TRUE]>>, et |-> <<<<0, 0, 0, 0, 0>>>>, dir |-> TRUE, obs |-> <<[n2o |-> <<<<0, 1>>>>, o2n |-> <<<<1, 0>>>>, i2o |-> <<>>, o2i |-> <<>>, e2o |-> <<<<0, 1>>>>, o2e |-> <<<<1, 0>>>>, j2o |-> <<>>, o2j |-> <<>>, nt |-> <<[o |-> 1, on |-> <<1>>, in |-> <<1>>, nb |-> <<1, 1>>, oe |-> <<1>>, ie |-> <<1>>, ed |-> <<1, 1>>, ion |-> <<1>>, iin |-> <<1>>, ioe |-> <<1>>, iie |-> <<1>>, con |-> <<1>>, cin |-> <<1>>, coe |-> <<1>>, cie |-> <<1>>, deg |-> 2, leaf |-> TRUE]>>, et |-> <<<<1, 1, 1>>>>, k |-> 1, nn |-> 1, ite |-> <<1>>, itec |-> <<1>>, ne |-> 1, lv |-> <<1>>, all |-> <<1>>, it |-> <<1>>, itc |-> <<1>>, alle |-> <<1>>, nl |-> 1, idxs |-> <<-2>>, eidxs |-> <<-2>>, el |-> <<<<1, 1, 1>>>>, absq |-> 0]>>, nodes |-> <<0>>, itn |-> <<0>>, itnc |-> <<0>>, nn |-> 1, ite |-> <<0>>, itec |-> <<0>>, ne |-> 1, lv |-> <<0>>, lvs |-> <<0>>, pairs |-> <<<<0, 0, 0, 0>>, <<0, 3, -2, -2>>, <<3, 0, -2, -2>>, <<3, 3, -2, -2>>>>, absn |-> 0],outT |-> (0 :> (0 :> 0)),nodes |-> {},ob |-> <<[n2o |-> (0 :> 1), o2n |-> <<0>>, i2o |-> <<>>, o2i |-> <<>>, e2o |-> (0 :> 1), o2e |-> <<0>>, j2o |-> <<>>, o2j |-> <<>>]>>,rf |-> <<[nObj |-> <<>>, nIdx |-> <<>>, eObj |-> <<>>, eIdx |-> <<>>, looseN |-> {}, looseE |-> {}]>>,legal |-> FALSE])
    >>
----


=============================================================================

---- CONFIG GraphTrace_TTrace_1790489136 ----
CONSTANTS
    MaxN = 0
    MaxE = 0
    NObjs = { }
    EObjs = { }
    Idxs = { }
    MaxObs = 2
    MaxDepth = 0

INVARIANT
    _inv

CHECK_DEADLOCK
    \* CHECK_DEADLOCK off because of PROPERTY or INVARIANT above.
    FALSE

INIT
    _init

NEXT
    _next

CONSTANT
    _TETrace <- _trace

ALIAS
    _expression
=============================================================================
\* Generated on Sun Sep 27 06:05:40 UTC 2026