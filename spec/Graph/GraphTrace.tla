----------------------------- MODULE GraphTrace -----------------------------
\* Trace validation for C14: every event recorded by harness/drv_graph.cpp
\* from the real GlobalGraph / AssociationGraphImplObserver objects must be a
\* step of the reference of Graph.tla / Observer.tla.
\*
\*  * the implementation views (node table, edge table, directed flag, the
\*    eight maps of every observer) are READ BACK from the objects after each
\*    call and take the place of the algorithm transcriptions of the design
\*    model;
\*  * the reference multigraph / association advances by the effect record of
\*    the call (arguments from the event, outcome from the event);
\*  * the invariants of Graph.tla and Observer.tla judge views against the
\*    reference in every state, and the View* invariants below judge every
\*    other logged query (lists, iterators, counts, degrees, leaves, pair
\*    look-ups, end points of associations, queries on absent items).
\* An event no action matches (Crash, Hang, malformed) ends the trace early
\* and is reported as "no specification step explains this event".
EXTENDS Observer, TraceLib

VARIABLE view            \* the projection logged with the last event
tvars == <<vars, view, l>>

S == Ev.s
A(i) == Ev.a[i]

Set(s) == {s[i] : i \in DOMAIN s}
FromPairs(s) == [x \in {s[i][1] : i \in DOMAIN s} |-> s[CHOOSE i \in DOMAIN s : s[i][1] = x][2]]
StrictlySorted(s) == \A i \in 1..(Len(s) - 1) : s[i] < s[i + 1]
Sorted(s) == \A i \in 1..(Len(s) - 1) : s[i] <= s[i + 1]

\* ---------------------------------------------------------------- views from the log
LoggedOb(W) ==
  [n2o |-> FromPairs(W.n2o), o2n |-> FromPairs(W.o2n), i2o |-> FromPairs(W.i2o), o2i |-> FromPairs(W.o2i),
   e2o |-> FromPairs(W.e2o), o2e |-> FromPairs(W.o2e), j2o |-> FromPairs(W.j2o), o2j |-> FromPairs(W.o2j)]

Views ==
  /\ outT' = [n \in {S.nt[i].n : i \in DOMAIN S.nt} |-> FromPairs(S.nt[CHOOSE i \in DOMAIN S.nt : S.nt[i].n = n].om)]
  /\ inT'  = [n \in {S.nt[i].n : i \in DOMAIN S.nt} |-> FromPairs(S.nt[CHOOSE i \in DOMAIN S.nt : S.nt[i].n = n].im)]
  /\ edgeT' = [e \in {S.et[i][1] : i \in DOMAIN S.et} |->
                 LET r == S.et[CHOOSE i \in DOMAIN S.et : S.et[i][1] = e] IN <<r[2], r[3]>>]
  /\ dirT' = S.dir
  /\ ob' = [k \in {S.obs[i].k : i \in DOMAIN S.obs} |-> LoggedOb(S.obs[CHOOSE i \in DOMAIN S.obs : S.obs[i].k = k])]
  /\ view' = S
  /\ out' = Ev.r

NewN == DOMAIN outT' \ nodes
NewE == DOMAIN edgeT' \ DOMAIN edges
TheNewN == IF Cardinality(NewN) = 1 THEN CHOOSE n \in NewN : TRUE ELSE nextN
TheNewE == IF Cardinality(NewE) = 1 THEN CHOOSE e \in NewE : TRUE ELSE nextE
Matches(e, p) == edgeT'[e] = p \/ (~dirT' /\ edgeT'[e] = Rev(p))
PickE(P(_), fallback) == IF \E e \in NewE : P(e) THEN CHOOSE e \in NewE : P(e) ELSE fallback
EndsOf(x) == IF x \in DOMAIN edges THEN edges[x] ELSE <<-1, -1>>
Rk == IF Ev.k \in alive THEN rf[Ev.k] ELSE EmptyRf
Ret == Ev.ret

\* ---------------------------------------------------------------- events
TReset ==
  /\ IsEvent("Reset") /\ Views
  /\ directed' = (A(1) = 1) /\ nodes' = {} /\ edges' = NoMap /\ nextN' = 0 /\ nextE' = 0
  /\ legal' = (Ev.r = "ok")
  /\ alive' = {1} /\ rf' = [j \in {1} |-> EmptyRf]

\* Load: the scenario continues from a state that an earlier, validated
\* scenario reached (breadth-first enumeration); the history that rebuilt it
\* ran silently.  The reference is read off the logged views, which the
\* invariants then check for internal agreement like any other state.
LooseOf(o2x, x2o) == {o \in DOMAIN o2x : o \notin Rng(x2o)}
TLoad ==
  /\ IsEvent("Load") /\ Views
  /\ directed' = dirT' /\ nodes' = DOMAIN outT' /\ edges' = edgeT'
  /\ nextN' = Ev.hw[1] /\ nextE' = Ev.hw[2]
  /\ legal' = (Ev.r = "ok")
  /\ alive' = DOMAIN ob'
  /\ rf' = [k \in DOMAIN ob' |->
             [nObj |-> ob'[k].n2o, nIdx |-> ob'[k].o2i, eObj |-> ob'[k].e2o, eIdx |-> ob'[k].o2j,
              looseN |-> LooseOf(ob'[k].o2i, ob'[k].n2o), looseE |-> LooseOf(ob'[k].o2j, ob'[k].e2o)]]

G(g) == ApplyO(0, OnGraph(g))

TGCreateNode         == IsEvent("GCreateNode") /\ Views /\ G(ECreateNode(Ret))
TGCreateNodeFromNode == IsEvent("GCreateNodeFromNode") /\ Views /\ G(ECreateNodeFromNode(A(1), Ret, TheNewE))
TGCreateNodeOnEdge ==
  /\ IsEvent("GCreateNodeOnEdge") /\ Views
  /\ LET ab == EndsOf(A(1))
         e1 == PickE(LAMBDA e : Matches(e, <<ab[1], Ret>>), nextE)
         e2 == PickE(LAMBDA e : e # e1 /\ Matches(e, <<Ret, ab[2]>>), nextE + 1)
     IN G(ECreateNodeOnEdge(A(1), Ret, e1, e2))
TGCreateNodeFromEdge ==
  /\ IsEvent("GCreateNodeFromEdge") /\ Views
  /\ LET ab == EndsOf(A(1))
         rest == NewN \ {Ret}
         n1 == IF Cardinality(rest) = 1 THEN CHOOSE n \in rest : TRUE ELSE nextN
         e1 == PickE(LAMBDA e : Matches(e, <<ab[1], n1>>), nextE)
         e2 == PickE(LAMBDA e : e # e1 /\ Matches(e, <<n1, ab[2]>>), nextE + 1)
         e3 == PickE(LAMBDA e : e # e1 /\ e # e2 /\ Matches(e, <<n1, Ret>>), nextE + 2)
     IN G(ECreateNodeFromEdge(A(1), n1, Ret, e1, e2, e3))
TGLink           == IsEvent("GLink") /\ Views /\ G(ELink(A(1), A(2), Ret))
TGUnlink         == IsEvent("GUnlink") /\ Views /\ G(EUnlink(A(1), A(2), Set(Ret)))
TGDeleteNode     == IsEvent("GDeleteNode") /\ Views /\ G(EDeleteNode(A(1)))
TGMakeDirected   == IsEvent("GMakeDirected") /\ Views /\ G(EMakeDirected)
TGMakeUndirected == IsEvent("GMakeUndirected") /\ Views /\ G(EMakeUndirected)

O(x) == ApplyO(Ev.k, x)
KeepN(o) == Ev.k \in DOMAIN ob' /\ o \in DOMAIN ob'[Ev.k].o2i
KeepE(o) == Ev.k \in DOMAIN ob' /\ o \in DOMAIN ob'[Ev.k].o2j
OldN(n) == IF n \in DOMAIN Rk.nObj THEN Rk.nObj[n] ELSE None
OldE(e) == IF e \in DOMAIN Rk.eObj THEN Rk.eObj[e] ELSE None

TOCreateNode     == IsEvent("OCreateNode") /\ Views /\ O(EOCreateNode(Rk, A(1), TheNewN))
TOCreateNodeFrom == IsEvent("OCreateNodeFrom") /\ Views /\ O(EOCreateNodeFrom(Rk, A(1), A(2), A(3), TheNewN, TheNewE))
TOLink           == IsEvent("OLink") /\ Views /\ O(EOLink(Rk, A(1), A(2), A(3), TheNewE))
TOUnlink         == IsEvent("OUnlink") /\ Views /\ O(EOUnlink(Rk, A(1), A(2)))
TODeleteNode     == IsEvent("ODeleteNode") /\ Views /\ O(EODeleteNode(Rk, A(1)))
TAssocNode       == IsEvent("AssocNode") /\ Views /\ O(EAssocNode(Rk, A(1), A(2), KeepN(OldN(A(2)))))
TAssocEdge       == IsEvent("AssocEdge") /\ Views /\ O(EAssocEdge(Rk, A(1), A(2), KeepE(OldE(A(2)))))
TDissocNode      == IsEvent("DissocNode") /\ Views /\ O(EDissocNode(Rk, A(1), KeepN(A(1))))
TDissocEdge      == IsEvent("DissocEdge") /\ Views /\ O(EDissocEdge(Rk, A(1), KeepE(A(1))))
TSetNodeIndex    == IsEvent("SetNodeIndex") /\ Views /\ O(ESetNodeIndex(Rk, A(1), A(2), Ret))
TSetEdgeIndex    == IsEvent("SetEdgeIndex") /\ Views /\ O(ESetEdgeIndex(Rk, A(1), A(2), Ret))
TAddNodeIndex    == IsEvent("AddNodeIndex") /\ Views /\ O(EAddNodeIndex(Rk, A(1), Ret))
TAddEdgeIndex    == IsEvent("AddEdgeIndex") /\ Views /\ O(EAddEdgeIndex(Rk, A(1), Ret))
TSetEdgeLinking ==
  /\ IsEvent("SetEdgeLinking") /\ Views
  /\ LET tgt == IF Ev.k \in DOMAIN ob' /\ A(3) \in DOMAIN ob'[Ev.k].o2e THEN ob'[Ev.k].o2e[A(3)] ELSE -1
     IN O(ESetEdgeLinking(Rk, A(1), A(2), A(3), tgt, KeepE(OldE(tgt))))
TCopy == IsEvent("Copy") /\ Views /\ RefCopy
TDrop == IsEvent("Drop") /\ Views /\ RefDrop

TraceNext ==
  \/ TReset \/ TLoad
  \/ TGCreateNode \/ TGCreateNodeFromNode \/ TGCreateNodeOnEdge \/ TGCreateNodeFromEdge
  \/ TGLink \/ TGUnlink \/ TGDeleteNode \/ TGMakeDirected \/ TGMakeUndirected
  \/ TOCreateNode \/ TOCreateNodeFrom \/ TOLink \/ TOUnlink \/ TODeleteNode
  \/ TAssocNode \/ TAssocEdge \/ TDissocNode \/ TDissocEdge
  \/ TSetNodeIndex \/ TSetEdgeIndex \/ TAddNodeIndex \/ TAddEdgeIndex \/ TSetEdgeLinking
  \/ TCopy \/ TDrop

TraceInit == ObsInit(TRUE) /\ view = [none |-> TRUE] /\ l = 1
TraceSpec == TraceInit /\ [][TraceNext]_tvars

\* ---------------------------------------------------------------- every other logged query against the reference
V == view
Seen == l > 1 /\ V.full          \* light projections (Reset / Load of the enumeration) carry the maps only

\* node and edge lists, iterators, counts, end points, leaves
ViewLists ==
  Seen =>
    /\ Set(V.nodes) = nodes /\ StrictlySorted(V.nodes)
    /\ V.itn = V.nodes /\ V.itnc = V.nodes                        \* iterators enumerate what the list query returns
    /\ V.nn = Cardinality(nodes)
    /\ {V.et[i][1] : i \in DOMAIN V.et} = DOMAIN edges
    /\ \A i \in DOMAIN V.et :
         LET r == V.et[i] IN
         /\ r[1] \in DOMAIN edges => <<r[2], r[3]>> = edges[r[1]]     \* getNodes
         /\ r[4] = r[2] /\ r[5] = r[3]                                \* getTop / getBottom
    /\ V.ite = [i \in DOMAIN V.et |-> V.et[i][1]] /\ V.itec = V.ite
    /\ StrictlySorted(V.ite)
    /\ V.ne = Cardinality(DOMAIN edges)
    /\ Set(V.lv) \subseteq nodes /\ V.lvs = V.lv
    /\ \A n \in nodes : ~HasLoop(n) => ((n \in Set(V.lv)) <=> IsLeaf(n))

\* per node: neighbour, edge, degree, leaf queries and the four iterators (twice: const and not)
ViewNodeTable ==
  Seen =>
    /\ {V.nt[i].n : i \in DOMAIN V.nt} = nodes
    /\ \A i \in DOMAIN V.nt :
         LET r == V.nt[i]  n == r.n IN
         n \in nodes =>
           /\ Set(r.on) = NOut(n) /\ Set(r.in) = NIn(n) /\ Set(r.nb) = Nbrs(n)
           /\ Set(r.oe) = EOut(n) /\ Set(r.ie) = EIn(n) /\ Set(r.ed) = EAll(n)
           /\ Sorted(r.on) /\ Sorted(r.in) /\ Sorted(r.oe) /\ Sorted(r.ie)
           /\ r.ion = r.on /\ r.iin = r.in /\ r.ioe = r.oe /\ r.iie = r.ie
           /\ r.con = r.on /\ r.cin = r.in /\ r.coe = r.oe /\ r.cie = r.ie
           /\ r.no = Cardinality(NOut(n)) /\ r.ni = Cardinality(NIn(n))
           /\ r.nnb \in {Cardinality(Nbrs(n)), Len(r.nb)}      \* "number of neighbours": distinct ones, or one per listed entry (2b)
           /\ ~HasLoop(n) => (r.deg = Degree(n) /\ r.leaf = IsLeaf(n))

\* getEdge(a,b) / getAnyEdge(a,b) on every ordered pair (one absent id included): -2 = raised
ViewPairs ==
  Seen =>
    \A i \in DOMAIN V.pairs :
      LET p == V.pairs[i]  a == p[1]  b == p[2] IN
      /\ IF RelD(a, b) = {} THEN p[3] = -2 ELSE p[3] \in RelD(a, b)
      /\ p[4] = -3 \/ (IF RelAny(a, b) = {} THEN p[4] = -2 ELSE p[4] \in RelAny(a, b))     \* -3 = not asked

\* list, degree and end-point queries on an absent node / edge all raise
ViewAbsent == Seen => V.absn = 0

ObjsOf(R, Ns) == {R.nObj[n] : n \in Ns \cap DOMAIN R.nObj}
EObjsOf(R, Es) == {R.eObj[e] : e \in Es \cap DOMAIN R.eObj}
ObjOrNone(R, n) == IF n \in DOMAIN R.nObj THEN R.nObj[n] ELSE None
EObjOrNone(R, e) == IF e \in DOMAIN R.eObj THEN R.eObj[e] ELSE None

\* the observer's object-level queries: items without an object are skipped
ViewObs ==
  Seen =>
    /\ {V.obs[i].k : i \in DOMAIN V.obs} = alive
    /\ \A i \in DOMAIN V.obs :
         LET W == V.obs[i]  k == W.k IN
         k \in alive =>
           LET R == rf[k] IN
           /\ Set(W.all) = Rng(R.nObj) /\ W.it = W.all /\ W.itc = W.all
           /\ W.nn = Cardinality(Rng(R.nObj))
           /\ Set(W.alle) = Rng(R.eObj) /\ W.ite = W.alle /\ W.itec = W.alle
           /\ W.ne = Cardinality(Rng(R.eObj))
           /\ Set(W.lv) \subseteq Rng(R.nObj)
           /\ \A n \in DOMAIN R.nObj \cap nodes : ~HasLoop(n) => ((R.nObj[n] \in Set(W.lv)) <=> IsLeaf(n))
           /\ W.nl = Len(W.lv)
           /\ IF W.idxs = <<-2>> THEN \E o \in Rng(R.nObj) : o \notin DOMAIN R.nIdx
              ELSE Set(W.idxs) = {R.nIdx[o] : o \in Rng(R.nObj) \cap DOMAIN R.nIdx}
           /\ IF W.eidxs = <<-2>> THEN \E o \in Rng(R.eObj) : o \notin DOMAIN R.eIdx
              ELSE Set(W.eidxs) = {R.eIdx[o] : o \in Rng(R.eObj) \cap DOMAIN R.eIdx}
           /\ {W.nt[j].o : j \in DOMAIN W.nt} = Rng(R.nObj)
           /\ \A j \in DOMAIN W.nt :
                LET r == W.nt[j]  n == NodeOf(R, r.o) IN
                n \in nodes =>
                  /\ Set(r.on) = ObjsOf(R, NOut(n)) /\ Set(r.in) = ObjsOf(R, NIn(n)) /\ Set(r.nb) = ObjsOf(R, Nbrs(n))
                  /\ Set(r.oe) = EObjsOf(R, EOut(n)) /\ Set(r.ie) = EObjsOf(R, EIn(n)) /\ Set(r.ed) = EObjsOf(R, EAll(n))
                  /\ r.ion = r.on /\ r.iin = r.in /\ r.ioe = r.oe /\ r.iie = r.ie
                  /\ r.con = r.on /\ r.cin = r.in /\ r.coe = r.oe /\ r.cie = r.ie
                  /\ ~HasLoop(n) => (r.deg = Degree(n) /\ r.leaf = IsLeaf(n))

\* end points of every association and the edge linking two associated nodes
AssocEndpoints ==
  Seen =>
    \A i \in DOMAIN V.obs :
      LET W == V.obs[i]  k == W.k IN
      k \in alive =>
        LET R == rf[k] IN
        /\ {W.et[j][1] : j \in DOMAIN W.et} = Rng(R.eObj)
        /\ \A j \in DOMAIN W.et :
             LET r == W.et[j]  e == EdgeOf(R, r[1]) IN
             e \in DOMAIN edges => (r[2] = ObjOrNone(R, edges[e][1]) /\ r[3] = ObjOrNone(R, edges[e][2]))
        /\ \A j \in DOMAIN W.el :
             LET r == W.el[j]  a == NodeOf(R, r[1])  b == NodeOf(R, r[2]) IN
             IF RelD(a, b) = {} THEN r[3] = -2
             ELSE r[3] \in {EObjOrNone(R, e) : e \in RelD(a, b)}
        /\ W.absq = 0                                   \* queries on objects the observer does not know all raise
=============================================================================
