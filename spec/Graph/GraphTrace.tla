----------------------------- MODULE GraphTrace -----------------------------
\* Trace validation for C14: every event recorded by harness/drv_graph.cpp
\* from the real GlobalGraph / AssociationGraphImplObserver objects must be a
\* step of the reference of Graph.tla / Observer.tla.
\*
\*  * the implementation views (node table, edge table, directed flag, the
\*    eight maps of every observer) are READ BACK from the objects after each
\*    call and take the place of the algorithm transcriptions of the design
\*    model;
\*  * the reference multigraph / association advances by the effect record of
\*    the call (arguments from the event, outcome from the event);
\*  * the invariants of Graph.tla and Observer.tla judge views against the
\*    reference in every state, and the View* invariants below judge every
\*    other logged query (lists, iterators, counts, degrees, leaves, pair
\*    look-ups, end points of associations, queries on absent items).
\* An event no action matches (Crash, Hang, malformed) ends the trace early
\* and is reported as "no specification step explains this event".
EXTENDS Observer, TraceLib

VARIABLE view            \* the projection logged with the last event
tvars == <<vars, view, l>>

S == Ev.s
A(i) == Ev.a[i]

Set(s) == {s[i] : i \in DOMAIN s}
B2I(b) == IF b THEN 1 ELSE 0        \* booleans a query may fail to deliver are logged as 1 / 0 / -2 (raised)
FromPairs(s) == [x \in {s[i][1] : i \in DOMAIN s} |-> s[CHOOSE i \in DOMAIN s : s[i][1] = x][2]]
StrictlySorted(s) == \A i \in 1..(Len(s) - 1) : s[i] < s[i + 1]
Sorted(s) == \A i \in 1..(Len(s) - 1) : s[i] <= s[i + 1]

\* ---------------------------------------------------------------- views from the log
LoggedOb(W) ==
  [n2o |-> FromPairs(W.n2o), o2n |-> FromPairs(W.o2n), i2o |-> FromPairs(W.i2o), o2i |-> FromPairs(W.o2i),
   e2o |-> FromPairs(W.e2o), o2e |-> FromPairs(W.o2e), j2o |-> FromPairs(W.j2o), o2j |-> FromPairs(W.o2j)]

\* P = a projection record (of the active side, or the light one of the other side)
OutFrom(P)  == [n \in {P.nt[i].n : i \in DOMAIN P.nt} |-> FromPairs(P.nt[CHOOSE i \in DOMAIN P.nt : P.nt[i].n = n].om)]
InFrom(P)   == [n \in {P.nt[i].n : i \in DOMAIN P.nt} |-> FromPairs(P.nt[CHOOSE i \in DOMAIN P.nt : P.nt[i].n = n].im)]
EdgeFrom(P) == [e \in {P.et[i][1] : i \in DOMAIN P.et} |->
                 LET r == P.et[CHOOSE i \in DOMAIN P.et : P.et[i][1] = e] IN <<r[2], r[3]>>]
ObsFrom(P)  == [k \in {P.obs[i].k : i \in DOMAIN P.obs} |-> LoggedOb(P.obs[CHOOSE i \in DOMAIN P.obs : P.obs[i].k = k])]

Views ==
  /\ outT' = OutFrom(S)
  /\ inT'  = InFrom(S)
  /\ edgeT' = EdgeFrom(S)
  /\ dirT' = S.dir
  /\ ob' = ObsFrom(S)
  /\ parkedNow' = IF S.oth.has
                   THEN [has |-> TRUE, outT |-> OutFrom(S.oth), inT |-> InFrom(S.oth), edgeT |-> EdgeFrom(S.oth),
                         dirT |-> S.oth.dir, ob |-> ObsFrom(S.oth)]
                   ELSE NoSide
  /\ view' = S
  /\ out' = Ev.r

NewN == DOMAIN outT' \ nodes
NewE == DOMAIN edgeT' \ DOMAIN edges
TheNewN == IF Cardinality(NewN) = 1 THEN CHOOSE n \in NewN : TRUE ELSE nextN
TheNewE == IF Cardinality(NewE) = 1 THEN CHOOSE e \in NewE : TRUE ELSE nextE
Matches(e, p) == edgeT'[e] = p \/ (~dirT' /\ edgeT'[e] = Rev(p))
PickE(P(_), fallback) == IF \E e \in NewE : P(e) THEN CHOOSE e \in NewE : P(e) ELSE fallback
EndsOf(x) == IF x \in DOMAIN edges THEN edges[x] ELSE <<-1, -1>>
Rk == IF Ev.k \in alive THEN rf[Ev.k] ELSE EmptyRf
Ret == Ev.ret

\* ---------------------------------------------------------------- events
TReset ==
  /\ IsEvent("Reset") /\ ~Ev.load /\ Views
  /\ directed' = (A(1) = 1) /\ nodes' = {} /\ edges' = NoMap /\ nextN' = 0 /\ nextE' = 0
  /\ legal' = (Ev.r = "ok")
  /\ alive' = {1} /\ rf' = [j \in {1} |-> EmptyRf]
  /\ parked' = NoSide

\* Reset with load = TRUE: the scenario continues from a state that an earlier, validated
\* scenario reached (breadth-first enumeration); the history that rebuilt it
\* ran silently.  The reference is read off the logged views, which the
\* invariants then check for internal agreement like any other state.
LooseOf(o2x, x2o) == {o \in DOMAIN o2x : o \notin Rng(x2o)}
TLoad ==
  /\ IsEvent("Reset") /\ Ev.load /\ Views
  /\ directed' = dirT' /\ nodes' = DOMAIN outT' /\ edges' = edgeT'
  /\ nextN' = Ev.hw[1] /\ nextE' = Ev.hw[2]
  /\ legal' = (Ev.r = "ok")
  /\ alive' = DOMAIN ob' /\ parked' = NoSide
  /\ rf' = [k \in DOMAIN ob' |->
             [nObj |-> ob'[k].n2o, nIdx |-> ob'[k].o2i, eObj |-> ob'[k].e2o, eIdx |-> ob'[k].o2j,
              looseN |-> LooseOf(ob'[k].o2i, ob'[k].n2o), looseE |-> LooseOf(ob'[k].o2j, ob'[k].e2o)]]

G(g) == ApplyO(0, OnGraph(g))

TGCreateNode         == IsEvent("GCreateNode") /\ Views /\ G(ECreateNode(Ret))
TGCreateNodeFromNode == IsEvent("GCreateNodeFromNode") /\ Views /\ G(ECreateNodeFromNode(A(1), Ret, TheNewE))
TGCreateNodeOnEdge ==
  /\ IsEvent("GCreateNodeOnEdge") /\ Views
  /\ LET ab == EndsOf(A(1))
         e1 == PickE(LAMBDA e : Matches(e, <<ab[1], Ret>>), nextE)
         e2 == PickE(LAMBDA e : e # e1 /\ Matches(e, <<Ret, ab[2]>>), nextE + 1)
     IN G(ECreateNodeOnEdge(A(1), Ret, e1, e2))
TGCreateNodeFromEdge ==
  /\ IsEvent("GCreateNodeFromEdge") /\ Views
  /\ LET ab == EndsOf(A(1))
         rest == NewN \ {Ret}
         n1 == IF Cardinality(rest) = 1 THEN CHOOSE n \in rest : TRUE ELSE nextN
         e1 == PickE(LAMBDA e : Matches(e, <<ab[1], n1>>), nextE)
         e2 == PickE(LAMBDA e : e # e1 /\ Matches(e, <<n1, ab[2]>>), nextE + 1)
         e3 == PickE(LAMBDA e : e # e1 /\ e # e2 /\ Matches(e, <<n1, Ret>>), nextE + 2)
     IN G(ECreateNodeFromEdge(A(1), n1, Ret, e1, e2, e3))
TGLink           == IsEvent("GLink") /\ Views /\ G(ELink(A(1), A(2), Ret))
TGUnlink         == IsEvent("GUnlink") /\ Views /\ G(EUnlink(A(1), A(2), Set(Ret)))
TGDeleteNode     == IsEvent("GDeleteNode") /\ Views /\ G(EDeleteNode(A(1)))
TGMakeDirected   == IsEvent("GMakeDirected") /\ Views /\ G(EMakeDirected)
TGMakeUndirected == IsEvent("GMakeUndirected") /\ Views /\ G(EMakeUndirected)

O(x) == ApplyO(Ev.k, x)
KeepN(o) == Ev.k \in DOMAIN ob' /\ o \in DOMAIN ob'[Ev.k].o2i
KeepE(o) == Ev.k \in DOMAIN ob' /\ o \in DOMAIN ob'[Ev.k].o2j
OldN(n) == IF n \in DOMAIN Rk.nObj THEN Rk.nObj[n] ELSE None
OldE(e) == IF e \in DOMAIN Rk.eObj THEN Rk.eObj[e] ELSE None

TOCreateNode     == IsEvent("OCreateNode") /\ Views /\ O(EOCreateNode(Rk, A(1), TheNewN))
TOCreateNodeFrom == IsEvent("OCreateNodeFrom") /\ Views /\ O(EOCreateNodeFrom(Rk, A(1), A(2), A(3), TheNewN, TheNewE))
TOLink           == IsEvent("OLink") /\ Views /\ O(EOLink(Rk, A(1), A(2), A(3), TheNewE))
TOUnlink         == IsEvent("OUnlink") /\ Views /\ O(EOUnlink(Rk, A(1), A(2)))
TODeleteNode     == IsEvent("ODeleteNode") /\ Views /\ O(EODeleteNode(Rk, A(1)))
TAssocNode       == IsEvent("AssocNode") /\ Views /\ O(EAssocNode(Rk, A(1), A(2), KeepN(OldN(A(2)))))
TAssocEdge       == IsEvent("AssocEdge") /\ Views /\ O(EAssocEdge(Rk, A(1), A(2), KeepE(OldE(A(2)))))
TDissocNode      == IsEvent("DissocNode") /\ Views /\ O(EDissocNode(Rk, A(1), KeepN(A(1))))
TDissocEdge      == IsEvent("DissocEdge") /\ Views /\ O(EDissocEdge(Rk, A(1), KeepE(A(1))))
TSetNodeIndex    == IsEvent("SetNodeIndex") /\ Views /\ O(ESetNodeIndex(Rk, A(1), A(2), Ret))
TSetEdgeIndex    == IsEvent("SetEdgeIndex") /\ Views /\ O(ESetEdgeIndex(Rk, A(1), A(2), Ret))
TAddNodeIndex    == IsEvent("AddNodeIndex") /\ Views /\ O(EAddNodeIndex(Rk, A(1), Ret))
TAddEdgeIndex    == IsEvent("AddEdgeIndex") /\ Views /\ O(EAddEdgeIndex(Rk, A(1), Ret))
TSetEdgeLinking ==
  /\ IsEvent("SetEdgeLinking") /\ Views
  /\ LET tgt == IF Ev.k \in DOMAIN ob' /\ A(3) \in DOMAIN ob'[Ev.k].o2e THEN ob'[Ev.k].o2e[A(3)] ELSE -1
     IN O(ESetEdgeLinking(Rk, A(1), A(2), A(3), tgt, KeepE(OldE(tgt))))
TCopy == IsEvent("Copy") /\ Views /\ RefCopy               \* copy constructor
TCopyConv == IsEvent("CopyConv") /\ Views /\ RefCopy       \* converting copy constructor (there and back)
TDrop == IsEvent("Drop") /\ Views /\ RefDrop
TAssign == IsEvent("Assign") /\ Views /\ RefAssign(A(1), A(2))
TAttach == IsEvent("Attach") /\ Views /\ RefAttach
TClone == IsEvent("Clone") /\ Views /\ RefClone
TSwap == IsEvent("Swap") /\ Views /\ RefSwap
TDropClone == IsEvent("DropClone") /\ Views /\ RefDropClone
TAssignAcross == IsEvent("AssignAcross") /\ Views /\ RefAssignAcross(A(1))

\* RaiseBatch (enumeration): a run of calls that all raised, logged as one event with the maps
\* read after the last of them.  Every one of them must be a call that may raise in this state,
\* and - like after any raise - nothing may have changed.
RkOf(k) == IF k \in alive THEN rf[k] ELSE EmptyRf
MayRaise(op) ==
  LET nm == op[1]  k == op[2]  a == op[3]  R == RkOf(op[2]) IN
  CASE nm = "GCreateNode"         -> ECreateNode(nextN).mayRaise
    [] nm = "GCreateNodeFromNode" -> ECreateNodeFromNode(a[1], nextN, nextE).mayRaise
    [] nm = "GCreateNodeOnEdge"   -> ECreateNodeOnEdge(a[1], nextN, nextE, nextE + 1).mayRaise
    [] nm = "GCreateNodeFromEdge" -> ECreateNodeFromEdge(a[1], nextN, nextN + 1, nextE, nextE + 1, nextE + 2).mayRaise
    [] nm = "GLink"               -> ELink(a[1], a[2], nextE).mayRaise
    [] nm = "GUnlink"             -> EUnlink(a[1], a[2], {}).mayRaise
    [] nm = "GDeleteNode"         -> EDeleteNode(a[1]).mayRaise
    [] nm = "GMakeDirected"       -> EMakeDirected.mayRaise
    [] nm = "GMakeUndirected"     -> EMakeUndirected.mayRaise
    [] nm = "OCreateNode"         -> EOCreateNode(R, a[1], nextN).g.mayRaise
    [] nm = "OCreateNodeFrom"     -> EOCreateNodeFrom(R, a[1], a[2], a[3], nextN, nextE).g.mayRaise
    [] nm = "OLink"               -> EOLink(R, a[1], a[2], a[3], nextE).g.mayRaise
    [] nm = "OUnlink"             -> EOUnlink(R, a[1], a[2]).g.mayRaise
    [] nm = "ODeleteNode"         -> EODeleteNode(R, a[1]).g.mayRaise
    [] nm = "AssocNode"           -> EAssocNode(R, a[1], a[2], TRUE).g.mayRaise
    [] nm = "AssocEdge"           -> EAssocEdge(R, a[1], a[2], TRUE).g.mayRaise
    [] nm = "DissocNode"          -> EDissocNode(R, a[1], TRUE).g.mayRaise
    [] nm = "DissocEdge"          -> EDissocEdge(R, a[1], TRUE).g.mayRaise
    [] nm = "SetNodeIndex"        -> ESetNodeIndex(R, a[1], a[2], a[2]).g.mayRaise
    [] nm = "SetEdgeIndex"        -> ESetEdgeIndex(R, a[1], a[2], a[2]).g.mayRaise
    [] nm = "AddNodeIndex"        -> EAddNodeIndex(R, a[1], 0).g.mayRaise
    [] nm = "AddEdgeIndex"        -> EAddEdgeIndex(R, a[1], 0).g.mayRaise
    [] OTHER                      -> FALSE
TRaiseBatch ==
  /\ IsEvent("RaiseBatch") /\ Views
  /\ legal' = (Ev.r = "raise" /\ \A i \in DOMAIN Ev.ops : MayRaise(Ev.ops[i]))
  /\ UNCHANGED <<refvars, alive, rf, parked>>

TraceNext ==
  \/ TRaiseBatch
  \/ TReset \/ TLoad
  \/ TGCreateNode \/ TGCreateNodeFromNode \/ TGCreateNodeOnEdge \/ TGCreateNodeFromEdge
  \/ TGLink \/ TGUnlink \/ TGDeleteNode \/ TGMakeDirected \/ TGMakeUndirected
  \/ TOCreateNode \/ TOCreateNodeFrom \/ TOLink \/ TOUnlink \/ TODeleteNode
  \/ TAssocNode \/ TAssocEdge \/ TDissocNode \/ TDissocEdge
  \/ TSetNodeIndex \/ TSetEdgeIndex \/ TAddNodeIndex \/ TAddEdgeIndex \/ TSetEdgeLinking
  \/ TCopy \/ TCopyConv \/ TDrop \/ TAssign \/ TAttach \/ TClone \/ TSwap \/ TDropClone \/ TAssignAcross

TraceInit == ObsInit(TRUE) /\ view = [none |-> TRUE] /\ l = 1
TraceSpec == TraceInit /\ [][TraceNext]_tvars

\* ---------------------------------------------------------------- every other logged query against the reference
V == view
Seen == l > 1 /\ V.full          \* light projections (Reset / Load of the enumeration) carry the maps only

\* node and edge lists, iterators, counts, end points, leaves
ViewLists ==
  Seen =>
    /\ Set(V.nodes) = nodes /\ StrictlySorted(V.nodes)
    /\ V.itn = V.nodes /\ V.itnc = V.nodes                        \* iterators enumerate what the list query returns
    /\ V.nn = Cardinality(nodes)
    /\ {V.et[i][1] : i \in DOMAIN V.et} = DOMAIN edges
    /\ \A i \in DOMAIN V.et :
         LET r == V.et[i] IN
         /\ r[1] \in DOMAIN edges => <<r[2], r[3]>> = edges[r[1]]     \* getNodes
         /\ r[4] = r[2] /\ r[5] = r[3]                                \* getTop / getBottom
    /\ V.ite = [i \in DOMAIN V.et |-> V.et[i][1]] /\ V.itec = V.ite
    /\ StrictlySorted(V.ite)
    /\ V.ne = Cardinality(DOMAIN edges)
    /\ Set(V.lv) \subseteq nodes /\ V.lvs = V.lv
    /\ \A n \in nodes : (n \in Set(V.lv)) <=> IsLeaf(n)
    \* getAllInnerNodes: "degree > 1" says the documentation, "has an outgoing neighbour" does the code;
    \* asserted where both readings agree
    /\ Set(V.inner) \subseteq nodes
    /\ \A n \in nodes : ~HasLoop(n) =>
         /\ (NOut(n) # {} /\ Degree(n) > 1) => n \in Set(V.inner)
         /\ (NOut(n) = {} /\ Degree(n) <= 1) => n \notin Set(V.inner)
    \* getLeavesFromNode(n, d): the leaves within d steps of n (n itself when it is a leaf)
    /\ (\A n \in nodes : ~HasLoop(n)) =>
         \A i \in DOMAIN V.lf : LET r == V.lf[i] IN r[1] \in nodes => Set(r[3]) = LeavesFrom(r[1], r[2])

\* per node: neighbour, edge, degree, leaf queries and the four iterators (twice: const and not)
ViewNodeTable ==
  Seen =>
    /\ {V.nt[i].n : i \in DOMAIN V.nt} = nodes
    /\ \A i \in DOMAIN V.nt :
         LET r == V.nt[i]  n == r.n IN
         n \in nodes =>
           /\ Set(r.on) = NOut(n) /\ Set(r.in) = NIn(n) /\ Set(r.nb) = Nbrs(n)
           /\ Set(r.oe) = EOut(n) /\ Set(r.ie) = EIn(n) /\ Set(r.ed) = EAll(n)
           /\ Sorted(r.on) /\ Sorted(r.in) /\ Sorted(r.oe) /\ Sorted(r.ie)
           /\ r.ion = r.on /\ r.iin = r.in /\ r.ioe = r.oe /\ r.iie = r.ie
           /\ r.con = r.on /\ r.cin = r.in /\ r.coe = r.oe /\ r.cie = r.ie
           /\ r.no = Cardinality(NOut(n)) /\ r.ni = Cardinality(NIn(n))
           /\ r.nnb \in {Cardinality(Nbrs(n)), Len(r.nb)}      \* "number of neighbours": distinct ones, or one per listed entry (2b)
           /\ r.leaf = B2I(IsLeaf(n))                                  \* a looped node is its own neighbour (as getNeighbors lists it)
           /\ ~HasLoop(n) => r.deg = Degree(n)
           \* with a self-loop the documentation ("number of neighbours") does not say how the loop
           \* counts (the code: 2 when directed, 1 when undirected); only agreement with the list query is asserted
           /\ HasLoop(n) => r.deg = (IF directed THEN Len(r.nb) ELSE Len(r.nb) \div 2)

\* getEdge(a,b) / getAnyEdge(a,b) on every ordered pair (one absent id included): -2 = raised
ViewPairs ==
  Seen =>
    \A i \in DOMAIN V.pairs :
      LET p == V.pairs[i]  a == p[1]  b == p[2] IN
      /\ IF RelD(a, b) = {} THEN p[3] = -2 ELSE p[3] \in RelD(a, b)
      /\ p[4] = -3 \/ (IF RelAny(a, b) = {} THEN p[4] = -2 ELSE p[4] \in RelAny(a, b))     \* -3 = not asked

\* list, degree and end-point queries on an absent node / edge all raise
ViewAbsent == Seen => V.absn = 0

ObjsOf(R, Ns) == {R.nObj[n] : n \in Ns \cap DOMAIN R.nObj}
EObjsOf(R, Es) == {R.eObj[e] : e \in Es \cap DOMAIN R.eObj}
ObjOrNone(R, n) == IF n \in DOMAIN R.nObj THEN R.nObj[n] ELSE None
EObjOrNone(R, e) == IF e \in DOMAIN R.eObj THEN R.eObj[e] ELSE None

\* an index-valued list query over the objects Os: their indices, or - when one of them has no index - a raise (<<-2>>)
IdxListOk(R, lst, Os) ==
  IF lst = <<-2>> THEN \E o \in Os : o \notin DOMAIN R.nIdx
  ELSE (Os \subseteq DOMAIN R.nIdx) /\ Set(lst) = {R.nIdx[o] : o \in Os}
EIdxListOk(R, lst, Os) ==
  IF lst = <<-2>> THEN \E o \in Os : o \notin DOMAIN R.eIdx
  ELSE (Os \subseteq DOMAIN R.eIdx) /\ Set(lst) = {R.eIdx[o] : o \in Os}

\* the observer's object-level queries: items without an object are skipped
ViewObs ==
  Seen =>
    /\ {V.obs[i].k : i \in DOMAIN V.obs} = alive
    /\ \A i \in DOMAIN V.obs :
         LET W == V.obs[i]  k == W.k IN
         k \in alive =>
           LET R == rf[k] IN
           /\ Set(W.all) = Rng(R.nObj) /\ W.it = W.all /\ W.itc = W.all
           /\ W.nn = Cardinality(Rng(R.nObj))
           /\ Set(W.alle) = Rng(R.eObj) /\ W.ite = W.alle /\ W.itec = W.alle
           /\ W.ne = Cardinality(Rng(R.eObj))
           /\ Set(W.lv) \subseteq Rng(R.nObj)
           /\ \A n \in DOMAIN R.nObj \cap nodes : (R.nObj[n] \in Set(W.lv)) <=> IsLeaf(n)
           /\ W.nl = Len(W.lv)
           /\ Set(W.inner) = ObjsOf(R, Set(V.inner))               \* the observer's inner nodes are the graph's
           /\ IdxListOk(R, W.lvidx, Set(W.lv)) /\ IdxListOk(R, W.inneridx, Set(W.inner))
           /\ (\A n \in nodes : ~HasLoop(n)) =>
                \A j \in DOMAIN W.lf : LET r == W.lf[j]  n == NodeOf(R, r[1]) IN
                                          n \in nodes => Set(r[3]) = ObjsOf(R, LeavesFrom(n, r[2]))
           \* the list queries by node index: the indices of what the object-level query lists
           /\ {W.ix[j].i : j \in DOMAIN W.ix} = {R.nIdx[o] : o \in Rng(R.nObj) \cap DOMAIN R.nIdx}
           /\ \A j \in DOMAIN W.ix :
                LET r == W.ix[j]
                    o == IF r.i \in Rng(R.nIdx) THEN Inv(R.nIdx)[r.i] ELSE None
                    n == NodeOf(R, o) IN
                n \in nodes =>
                  /\ IdxListOk(R, r.nb, ObjsOf(R, Nbrs(n))) /\ IdxListOk(R, r.on, ObjsOf(R, NOut(n)))
                  /\ IdxListOk(R, r.in, ObjsOf(R, NIn(n)))
                  /\ EIdxListOk(R, r.ed, EObjsOf(R, EAll(n))) /\ EIdxListOk(R, r.oe, EObjsOf(R, EOut(n)))
                  /\ EIdxListOk(R, r.ie, EObjsOf(R, EIn(n)))
                  /\ r.leaf = B2I(IsLeaf(n))
           /\ IdxListOk(R, W.idxs, Rng(R.nObj)) /\ EIdxListOk(R, W.eidxs, Rng(R.eObj))
           /\ {W.nt[j].o : j \in DOMAIN W.nt} = Rng(R.nObj)
           /\ \A j \in DOMAIN W.nt :
                LET r == W.nt[j]  n == NodeOf(R, r.o) IN
                n \in nodes =>
                  /\ Set(r.on) = ObjsOf(R, NOut(n)) /\ Set(r.in) = ObjsOf(R, NIn(n)) /\ Set(r.nb) = ObjsOf(R, Nbrs(n))
                  /\ Set(r.oe) = EObjsOf(R, EOut(n)) /\ Set(r.ie) = EObjsOf(R, EIn(n)) /\ Set(r.ed) = EObjsOf(R, EAll(n))
                  /\ r.ion = r.on /\ r.iin = r.in /\ r.ioe = r.oe /\ r.iie = r.ie
                  /\ r.con = r.on /\ r.cin = r.in /\ r.coe = r.oe /\ r.cie = r.ie
                  /\ r.leaf = B2I(IsLeaf(n))
                  /\ ~HasLoop(n) => r.deg = Degree(n)

\* end points of every association and the edge linking two associated nodes
AssocEndpoints ==
  Seen =>
    \A i \in DOMAIN V.obs :
      LET W == V.obs[i]  k == W.k IN
      k \in alive =>
        LET R == rf[k] IN
        /\ {W.et[j][1] : j \in DOMAIN W.et} = Rng(R.eObj)
        /\ \A j \in DOMAIN W.et :
             LET r == W.et[j]  e == EdgeOf(R, r[1]) IN
             e \in DOMAIN edges => (r[2] = ObjOrNone(R, edges[e][1]) /\ r[3] = ObjOrNone(R, edges[e][2]))
        /\ \A j \in DOMAIN W.el :
             LET r == W.el[j]  a == NodeOf(R, r[1])  b == NodeOf(R, r[2]) IN
             IF RelD(a, b) = {} THEN r[3] = -2
             ELSE r[3] \in {EObjOrNone(R, e) : e \in RelD(a, b)}
        /\ W.absq = 0                                   \* queries on objects the observer does not know all raise
=============================================================================
