----------------------------- MODULE ObserverMC -----------------------------
\* Model-checking wrapper of Observer.tla: a step counter makes "all histories
\* of at most MaxDepth calls" an exact bound that does not depend on the order
\* in which parallel TLC workers discover states (TLCGet("level") does).
EXTENDS Observer

VARIABLE depth
mcvars == <<vars, depth>>

MCInit == OInit /\ depth = 0
MCNext == ObsNext /\ depth' = depth + 1
MCSpec == MCInit /\ [][MCNext]_mcvars
DepthBound == depth <= MaxDepth         \* every history of at most MaxDepth calls is expanded and checked
=============================================================================
