----------------------------- MODULE ObserverMC -----------------------------
\* Model-checking wrapper of Observer.tla: a step counter makes "all histories
\* of at most MaxDepth calls" an exact bound that does not depend on the order
\* in which parallel TLC workers discover states (TLCGet("level") does).
\* One named action per call so that -coverage reports each of them.
EXTENDS Observer

VARIABLE depth
mcvars == <<vars, depth>>
Step == depth' = depth + 1

S_GCreateNode == GCreateNode /\ Step
S_GCreateNodeFromNode == GCreateNodeFromNode /\ Step
S_GCreateNodeOnEdge == GCreateNodeOnEdge /\ Step
S_GCreateNodeFromEdge == GCreateNodeFromEdge /\ Step
S_GLink == GLink /\ Step
S_GUnlink == GUnlink /\ Step
S_GDeleteNode == GDeleteNode /\ Step
S_GMakeDirected == GMakeDirected /\ Step
S_GMakeUndirected == GMakeUndirected /\ Step
S_DCreateNode == DCreateNode /\ Step
S_DCreateNodeFrom == DCreateNodeFrom /\ Step
S_DLink == DLink /\ Step
S_DUnlink == DUnlink /\ Step
S_DDeleteNode == DDeleteNode /\ Step
S_DAssocNode == DAssocNode /\ Step
S_DAssocEdge == DAssocEdge /\ Step
S_DDissocNode == DDissocNode /\ Step
S_DDissocEdge == DDissocEdge /\ Step
S_DSetNodeIndex == DSetNodeIndex /\ Step
S_DSetEdgeIndex == DSetEdgeIndex /\ Step
S_DAddNodeIndex == DAddNodeIndex /\ Step
S_DAddEdgeIndex == DAddEdgeIndex /\ Step
S_DSetEdgeLinking == DSetEdgeLinking /\ Step
S_Copy == Copy /\ Step
S_Drop == Drop /\ Step
S_DAssign == DAssign /\ Step
S_Attach == Attach /\ Step
S_Clone == Clone /\ Step
S_Swap == Swap /\ Step
S_DropClone == DropClone /\ Step
S_DAssignAcross == DAssignAcross /\ Step

MCInit == OInit /\ depth = 0
MCNext ==
  \/ S_GCreateNode
  \/ S_GCreateNodeFromNode
  \/ S_GCreateNodeOnEdge
  \/ S_GCreateNodeFromEdge
  \/ S_GLink
  \/ S_GUnlink
  \/ S_GDeleteNode
  \/ S_GMakeDirected
  \/ S_GMakeUndirected
  \/ S_DCreateNode
  \/ S_DCreateNodeFrom
  \/ S_DLink
  \/ S_DUnlink
  \/ S_DDeleteNode
  \/ S_DAssocNode
  \/ S_DAssocEdge
  \/ S_DDissocNode
  \/ S_DDissocEdge
  \/ S_DSetNodeIndex
  \/ S_DSetEdgeIndex
  \/ S_DAddNodeIndex
  \/ S_DAddEdgeIndex
  \/ S_DSetEdgeLinking
  \/ S_Copy
  \/ S_Drop
  \/ S_DAssign
  \/ S_Attach
  \/ S_Clone
  \/ S_Swap
  \/ S_DropClone
  \/ S_DAssignAcross
MCSpec == MCInit /\ [][MCNext]_mcvars
DepthBound == depth <= MaxDepth         \* every history of at most MaxDepth calls is expanded and checked
=============================================================================
