------------------------------ MODULE TraceLib ------------------------------
(* Shared plumbing of every *Trace module: the recorded implementation trace *)
(* (ndjson, one event per public call, path taken from the environment       *)
(* variable TRACEFILE), the cursor l, the event matcher and the acceptance   *)
(* condition.  The trace is accepted iff the search consumed every line:     *)
(* one state per consumed line plus the initial state.                       *)
EXTENDS Json, IOUtils, TLC, Sequences, Naturals

Tr == ndJsonDeserialize(IOEnv.TRACEFILE)

VARIABLE l          \* index of the next event to explain

Ev == Tr[l]

IsEvent(name) == /\ l <= Len(Tr)
                 /\ Tr[l].e = name
                 /\ l' = l + 1

TraceAccepted == TLCGet("stats").diameter - 1 = Len(Tr)

\* field access with default (ndjson objects are records)
Has(rec, f) == f \in DOMAIN rec
=============================================================================
