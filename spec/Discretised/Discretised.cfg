SPECIFICATION Spec
CONSTANTS
  Objs = {1, 2}
  Fams = {"fixed", "shift"}
  NMax = 3
  G = 3
  PMax = 2
  Forget = "none"
  LookupStart = 0
INVARIANTS CacheFresh WellFormed InvCount InvBoundsMonotone InvValuesStrict InvValueInOwnClass
  InvProbsNonNeg InvProbsSumOne InvEqualMass InvDomainInside InvDomainMass InvMassMatchesCdf
  InvCdfMonotone InvMeanMatches InvLookup InvCumulative
PROPERTY RefusalKeeps
CHECK_DEADLOCK FALSE
