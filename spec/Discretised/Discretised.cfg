\* manual run of the design model (checks/c09.py generates its own cfg per tier; this is the quick one)
SPECIFICATION Spec
SYMMETRY Sym
CONSTANTS
  Objs = {o1, o2}
  Fams = {"fixed", "shift"}
  NMax = 3
  G = 2
  PMax = 2
  Forget = "none"
  LookupStart = 0
INVARIANTS CacheFresh AllObsInv
PROPERTY RefusalKeeps
CHECK_DEADLOCK FALSE
