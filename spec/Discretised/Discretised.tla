----------------------------- MODULE Discretised -----------------------------
\* C09 - lifecycle of a discretised distribution (bpp-core, src/Bpp/Numeric/Prob).
\*
\* An object is [st, src, o]:
\*   st   the abstract state the caller has asked for: family, class count, scheme,
\*        median flag, parameter value, accepted restrictions;
\*   src  the abstract state the stored discretisation was computed from.  The
\*        classes of the real objects are a CACHE (distribution_, bounds_, the domain
\*        interval) that every entry point changing st has to recompute;
\*   o    the observation (module DiscObs) the public queries give.
\* One action per public entry point, each with an ok / refused outcome; a refused
\* call leaves the object as it was.  The property is
\*   CacheFresh  src = st for every live object (history independence: what an object
\*               reports depends on its abstract state only, however it got there), and
\*   the DiscObs predicates on o (count, monotone bounds, strictly increasing values
\*               inside their classes, normalisation, equal masses, masses = parent
\*               masses, mean, lookup, cumulative queries, domain inside the restrictions).
\*
\* The actions take the new observation as an argument:
\*   - the design model below computes it with a toy discretiser (uniform parent on an
\*     integer grid, exact arithmetic) from st', and TLC explores every interleaving of
\*     the entry points on two objects (copies included).  Forget = <action> yields the
\*     model of an implementation that does not recompute in that entry point and
\*     LookupStart = 1 the scan that skips the first interior bound: TLC must reject both
\*     (checks/c09.py runs these variants as a self-test of the invariants);
\*   - DiscretisedTrace supplies the observation logged from the real object, src' being
\*     st' exactly when the observation is bit-for-bit the one of a freshly built twin.
EXTENDS DiscObs, TLC

CONSTANTS Objs,         \* object identifiers
          Fams,         \* design model: subset of {"fixed", "shift"} (natural domain [0,G] / [par,G])
          NMax,         \* design model: class counts 1..NMax
          G,            \* design model: grid 0..G
          PMax,         \* design model: parameter values 0..PMax, PMax itself refused by the constraint
          Forget,       \* design model: entry point that forgets to recompute ("none" = correct)
          LookupStart   \* design model: first interior bound the lookup scan looks at (0 = correct)

VARIABLES objs,         \* [Objs -> object or None]
          out           \* outcome of the last call: "ok" | "raise" | "init"

vars == <<objs, out>>
None == [none |-> TRUE]
Stale == [stale |-> TRUE]
Live == {i \in Objs : objs[i] # None}

Mn(a, b) == IF a < b THEN a ELSE b
Mx(a, b) == IF a > b THEN a ELSE b

\* ---------------------------------------------------------------- toy discretiser
K == CASE NMax <= 2 -> 2 [] NMax = 3 -> 6 [] NMax = 4 -> 12 [] OTHER -> 60     \* lcm(1..NMax)
S == 2 * K                                                                      \* coordinate scale

NatLo(st) == IF st.fam = "shift" THEN st.par ELSE 0
DomLo(st) == Mx(NatLo(st), st.rlo)
DomHi(st) == Mn(G, st.rhi)
Regular(st) == DomLo(st) < DomHi(st)

\* transcription of the scan of getValueCategory / getCategoryIndex over the interior bounds
\* b[0..m-1] (m = n - 1), starting at index `start`
FirstBelow(b, m, x, start) ==
  LET I == {i \in start..(m - 1) : x < b[i]} IN
  IF I = {} THEN m ELSE CHOOSE i \in I : \A j \in I : i <= j
ValueClassAlg(b, m, x, start) == Mx(FirstBelow(b, m, x, start) - start, 0)
IndexAlg(b, m, x, start) ==
  LET f == FirstBelow(b, m, x, start) IN IF f = m /\ start # 0 THEN -3 ELSE f

ToyObs(st) ==
  LET n  == st.n
      lo == S * DomLo(st)
      w  == (S * (DomHi(st) - DomLo(st))) \div n
      B  == [i \in 0..n |-> lo + i * w]
      b  == [i \in 0..(n - 2) |-> B[i + 1]]
      V  == [i \in 0..(n - 1) |-> (B[i] + B[i + 1]) \div 2]
      pr == 1000000 \div n
      P  == [i \in 1..n |-> pr]
      look(x) == <<ValueClassAlg(b, n - 1, x, LookupStart), IndexAlg(b, n - 1, x, LookupStart)>>
      probeB == [i \in 1..(n + 1) |-> <<B[i - 1], 0, i - 1, look(B[i - 1])[1], look(B[i - 1])[2]>>]
      probeM == [i \in 1..n |-> <<V[i - 1], 1, i - 1, look(V[i - 1])[1], look(V[i - 1])[2]>>]
      natw == G - NatLo(st)
      mass == (1000000 * (DomHi(st) - DomLo(st))) \div natw
  IN [failed |-> FALSE, n |-> n, sz |-> <<n, n, n + 1>>, nan |-> FALSE,
      rb |-> [i \in 1..(n + 1) |-> B[i - 1]], rB |-> [i \in 1..(n + 1) |-> B[i - 1]],
      rv |-> [i \in 1..n |-> V[i - 1]], sl |-> FALSE, su |-> FALSE,
      rr |-> IF st.nr = 0 THEN <<>> ELSE << <<S * st.rlo, S * st.rhi, TRUE, TRUE>> >>,
      p |-> P, ps |-> [i \in 1..n |-> 1], psum |-> 1000000, peq |-> TRUE,
      lk |-> probeB \o probeM,
      cum |-> [j \in 1..n |-> <<(j - 1) * pr, j * pr, (n - j) * pr, (n - j + 1) * pr>>],
      cdf |-> TRUE, mc |-> P, rF |-> [i \in 1..(n + 1) |-> B[i - 1]],
      Z |-> mass,
      Zexp |-> IF st.nr = 0 THEN 1000000
               ELSE (1000000 * (Mn(G, st.rhi) - Mx(NatLo(st), st.rlo))) \div natw,
      dm |-> 500000, pm |-> 500000, same |-> FALSE,
      tw |-> [built |-> TRUE, n |-> TRUE, lower |-> TRUE, upper |-> TRUE, flags |-> TRUE,
              bounds |-> TRUE, values |-> TRUE, probs |-> TRUE]]

\* ---------------------------------------------------------------- shared step shapes
\* object i moves to abstract state st2 and now reports o2; fresh = the observation is the
\* one of a discretisation computed from st2
\* nsO / nsN: the namespace under which the object, respectively its nested component, knows the
\* parameters (compounds forward parameter changes to the nested distribution by name)
Apply(i, st2, o2, fresh) ==
  objs' = [objs EXCEPT ![i] = [st |-> st2, src |-> IF fresh THEN st2 ELSE (IF objs[i] = None THEN Stale ELSE objs[i].src), o |-> o2,
                               nsO |-> IF objs[i] = None THEN 0 ELSE objs[i].nsO,
                               nsN |-> IF objs[i] = None THEN 0 ELSE objs[i].nsN]]

\* The design model stores the observation as a thunk [toy |-> st] (the toy discretisation of
\* st, expanded only where an invariant looks at it); the trace stores the logged record.
Obs(x) == IF "toy" \in DOMAIN x THEN ToyObs(x.toy) ELSE x

\* a refused call: same abstract state, and the object must report what it reported before
Refused(i, o2) ==
  /\ objs[i] # None
  /\ Core(Obs(o2)) = Core(Obs(objs[i].o))
  /\ objs' = [objs EXCEPT ![i].o = o2]

\* ---------------------------------------------------------------- design model
NewSt(f, n, v) == [kind |-> "cont", fam |-> f, n |-> n, scheme |-> 1, med |-> FALSE, nr |-> 0, k |-> 1,
                   par |-> v, rlo |-> 0, rhi |-> G]

\* an entry point that recomputes - or, in the Forget variant, does not
Recompute(name, i, st2) ==
  IF Forget = name THEN Apply(i, st2, objs[i].o, FALSE) ELSE Apply(i, st2, [toy |-> st2], TRUE)

Construct(i, f, n, v) ==
  /\ objs[i] = None /\ Regular(NewSt(f, n, v))
  /\ Apply(i, NewSt(f, n, v), [toy |-> NewSt(f, n, v)], TRUE)
  /\ out' = "ok"

SetParam(i, v) ==
  /\ objs[i] # None
  /\ LET st2 == [objs[i].st EXCEPT !.par = v] IN
       IF v < PMax /\ Regular(st2)
       THEN /\ IF objs[i].nsN = objs[i].nsO
               THEN Recompute("SetParam", i, st2)
               ELSE Apply(i, st2, objs[i].o, FALSE)          \* the change never reaches the nested distribution
            /\ out' = "ok"
       ELSE Refused(i, objs[i].o) /\ out' = "raise"          \* refused by the constraint

SetN(i, n) ==
  /\ objs[i] # None
  /\ Recompute("SetN", i, [objs[i].st EXCEPT !.n = n]) /\ out' = "ok"

SetMedian(i, m) ==
  /\ objs[i] # None
  /\ Recompute("SetMedian", i, [objs[i].st EXCEPT !.med = m]) /\ out' = "ok"

Restrict(i, lo, hi) ==
  /\ objs[i] # None
  /\ LET st1 == objs[i].st
         st2 == [st1 EXCEPT !.rlo = Mx(st1.rlo, lo), !.rhi = Mn(st1.rhi, hi), !.nr = 1] IN
       IF Regular(st2)
       THEN Recompute("Restrict", i, st2) /\ out' = "ok"
       ELSE Refused(i, objs[i].o) /\ out' = "raise"

\* setNamespace: the object and its nested component are renamed together; the classes do not move.
\* (Forget = "Rename": the nested component receives the PREVIOUS namespace - one rename behind.)
Rename(i, v) ==
  /\ objs[i] # None
  /\ objs' = [objs EXCEPT ![i].nsO = v, ![i].nsN = IF Forget = "Rename" THEN objs[i].nsO ELSE v]
  /\ out' = "ok"

\* copy construction / assignment: j becomes a second object in the abstract state of i
Copy(i, j) ==
  /\ objs[i] # None /\ i # j
  /\ IF Forget = "Copy"
     THEN objs' = [objs EXCEPT ![j] = [objs[i] EXCEPT !.src = IF objs[j] = None THEN Stale ELSE objs[j].src,
                                                     !.o = IF objs[j] = None THEN objs[i].o ELSE objs[j].o]]
     ELSE objs' = [objs EXCEPT ![j] = objs[i]]
  /\ out' = "ok"

Init == objs = [i \in Objs |-> None] /\ out = "init"

Next == \E i \in Objs :
          \/ \E f \in Fams, n \in 1..NMax, v \in 0..(PMax - 1) : Construct(i, f, n, v)
          \/ \E v \in 0..PMax : SetParam(i, v)
          \/ \E n \in 1..NMax : SetN(i, n)
          \/ \E m \in BOOLEAN : SetMedian(i, m)
          \/ \E lo \in 0..G, hi \in 0..G : lo < hi /\ Restrict(i, lo, hi)
          \/ \E j \in Objs : Copy(i, j)
          \/ \E v \in 0..1 : Rename(i, v)

Spec == Init /\ [][Next]_vars
Sym == Permutations(Objs)      \* the object identifiers are interchangeable (design model only)

\* ---------------------------------------------------------------- the property
ForAll(P(_, _)) == \A i \in Live : LET o == Obs(objs[i].o) IN Wf(o) => P(objs[i].st, o)

CacheFresh        == \A i \in Live : objs[i].src = objs[i].st
WellFormed        == \A i \in Live : Wf(Obs(objs[i].o))
InvCount          == ForAll(Count)
InvBoundsMonotone == ForAll(LAMBDA st, o : BoundsMonotone(o))
InvValuesStrict   == ForAll(LAMBDA st, o : ValuesStrict(o))
InvValueInOwnClass == ForAll(LAMBDA st, o : ValueInOwnClass(o))
InvProbsNonNeg    == ForAll(LAMBDA st, o : ProbsNonNeg(o))
InvProbsSumOne    == ForAll(LAMBDA st, o : ProbsSumOne(o))
InvEqualMass      == ForAll(EqualMass)
InvDomainInside   == ForAll(DomainInside)
InvDomainMass     == ForAll(LAMBDA st, o : DomainMass(o))
InvMassMatchesCdf == ForAll(LAMBDA st, o : MassMatchesCdf(o))
InvCdfMonotone    == ForAll(LAMBDA st, o : CdfMonotone(o))
InvMeanMatches    == ForAll(MeanMatches)
InvLookup         == ForAll(LAMBDA st, o : Lookup(o))
InvCumulative     == ForAll(LAMBDA st, o : CumulativeConsistent(o))

\* all of the above at once, the observation expanded once per object (design model runs)
AllObsInv ==
  \A i \in Live :
    LET st == objs[i].st  o == Obs(objs[i].o) IN
    /\ Wf(o) /\ Count(st, o) /\ BoundsMonotone(o) /\ ValuesStrict(o) /\ ValueInOwnClass(o)
    /\ ProbsNonNeg(o) /\ ProbsSumOne(o) /\ EqualMass(st, o) /\ DomainInside(st, o) /\ DomainMass(o)
    /\ MassMatchesCdf(o) /\ CdfMonotone(o) /\ MeanMatches(st, o) /\ Lookup(o) /\ CumulativeConsistent(o)

\* a refused call changes nothing (action property)
RefusalKeeps == [][out' = "raise" => \A i \in Objs : objs'[i] = objs[i]]_vars
=============================================================================
