SPECIFICATION TraceSpec
CONSTANTS
  Objs = {1}
  Fams = {}
  NMax = 1
  G = 1
  PMax = 1
  Forget = "none"
  LookupStart = 0
INVARIANTS WellFormed InvCount InvBoundsMonotone InvValuesStrict InvValueInOwnClass
  InvProbsNonNeg InvProbsSumOne InvEqualMass InvDomainInside InvDomainMass InvMassMatchesCdf
  InvCdfMonotone InvMeanMatches InvLookup InvCumulative CacheFresh
POSTCONDITION TraceAccepted
CHECK_DEADLOCK FALSE
