---- MODULE Discretised_TTrace_1790488164 ----
EXTENDS Discretised, Discretised_TEConstants, Sequences, TLCExt, Toolbox, Naturals, TLC

_expression ==
    LET Discretised_TEExpression == INSTANCE Discretised_TEExpression
    IN Discretised_TEExpression!expression
----

_trace ==
    LET Discretised_TETrace == INSTANCE Discretised_TETrace
    IN Discretised_TETrace!trace
----

_inv ==
    ~(
        TLCGet("level") = Len(_TETrace)
        /\
        out = ("ok")
        /\
        objs = ((o1 :> [st |-> [fam |-> "fixed", par |-> 0, rlo |-> 0, rhi |-> 1, n |-> 1, nr |-> 1, kind |-> "cont", scheme |-> 1, med |-> FALSE, k |-> 1], src |-> [fam |-> "fixed", par |-> 0, rlo |-> 0, rhi |-> 2, n |-> 1, nr |-> 0, kind |-> "cont", scheme |-> 1, med |-> FALSE, k |-> 1], o |-> [toy |-> [fam |-> "fixed", par |-> 0, rlo |-> 0, rhi |-> 2, n |-> 1, nr |-> 0, kind |-> "cont", scheme |-> 1, med |-> FALSE, k |-> 1]]] @@ o2 :> [none |-> TRUE]))
    )
----

_init ==
    /\ out = _TETrace[1].out
    /\ objs = _TETrace[1].objs
----

_next ==
    /\ \E i,j \in DOMAIN _TETrace:
        /\ \/ /\ j = i + 1
              /\ i = TLCGet("level")
        /\ out  = _TETrace[i].out
        /\ out' = _TETrace[j].out
        /\ objs  = _TETrace[i].objs
        /\ objs' = _TETrace[j].objs

\* Uncomment the ASSUME below to write the states of the error trace
\* to the given file in Json format. Note that you can pass any tuple
\* to `JsonSerialize`. For example, a sub-sequence of _TETrace.
    \* ASSUME
    \*     LET J == INSTANCE Json
    \*         IN J!JsonSerialize("Discretised_TTrace_1790488164.json", _TETrace)

=============================================================================

 Note that you can extract this module `Discretised_TEExpression`
  to a dedicated file to reuse `expression` (the module in the 
  dedicated `Discretised_TEExpression.tla` file takes precedence 
  over the module `Discretised_TEExpression` below).

---- MODULE Discretised_TEExpression ----
EXTENDS Discretised, Discretised_TEConstants, Sequences, TLCExt, Toolbox, Naturals, TLC

expression == 
    [
        \* To hide variables of the `Discretised` spec from the error trace,
        \* remove the variables below.  The trace will be written in the order
        \* of the fields of this record.
        out |-> out
        ,objs |-> objs
        
        \* Put additional constant-, state-, and action-level expressions here:
        \* ,_stateNumber |-> _TEPosition
        \* ,_outUnchanged |-> out = out'
        
        \* Format the `out` variable as Json value.
        \* ,_outJson |->
        \*     LET J == INSTANCE Json
        \*     IN J!ToJson(out)
        
        \* Lastly, you may build expressions over arbitrary sets of states by
        \* leveraging the _TETrace operator.  For example, this is how to
        \* count the number of times a spec variable changed up to the current
        \* state in the trace.
        \* ,_outModCount |->
        \*     LET F[s \in DOMAIN _TETrace] ==
        \*         IF s = 1 THEN 0
        \*         ELSE IF _TETrace[s].out # _TETrace[s-1].out
        \*             THEN 1 + F[s-1] ELSE F[s-1]
        \*     IN F[_TEPosition - 1]
    ]

=============================================================================



Parsing and semantic processing can take forever if the trace below is long.
 In this case, it is advised to uncomment the module below to deserialize the
 trace from a generated binary file.

\*
\*---- MODULE Discretised_TETrace ----
\*EXTENDS Discretised, Discretised_TEConstants, IOUtils, TLC
\*
\*trace == IODeserialize("Discretised_TTrace_1790488164.bin", TRUE)
\*
\*=============================================================================
\*

---- MODULE Discretised_TETrace ----
EXTENDS Discretised, Discretised_TEConstants, TLC

trace == 
    <<
    ([out |-> "init",objs |-> (o1 :> [none |-> TRUE] @@ o2 :> [none |-> TRUE])]),
    ([out |-> "ok",objs |-> (o1 :> [st |-> [fam |-> "fixed", par |-> 0, rlo |-> 0, rhi |-> 2, n |-> 1, nr |-> 0, kind |-> "cont", scheme |-> 1, med |-> FALSE, k |-> 1], src |-> [fam |-> "fixed", par |-> 0, rlo |-> 0, rhi |-> 2, n |-> 1, nr |-> 0, kind |-> "cont", scheme |-> 1, med |-> FALSE, k |-> 1], o |-> [toy |-> [fam |-> "fixed", par |-> 0, rlo |-> 0, rhi |-> 2, n |-> 1, nr |-> 0, kind |-> "cont", scheme |-> 1, med |-> FALSE, k |-> 1]]] @@ o2 :> [none |-> TRUE])]),
    ([out |-> "ok",objs |-> (o1 :> [st |-> [fam |-> "fixed", par |-> 0, rlo |-> 0, rhi |-> 1, n |-> 1, nr |-> 1, kind |-> "cont", scheme |-> 1, med |-> FALSE, k |-> 1], src |-> [fam |-> "fixed", par |-> 0, rlo |-> 0, rhi |-> 2, n |-> 1, nr |-> 0, kind |-> "cont", scheme |-> 1, med |-> FALSE, k |-> 1], o |-> [toy |-> [fam |-> "fixed", par |-> 0, rlo |-> 0, rhi |-> 2, n |-> 1, nr |-> 0, kind |-> "cont", scheme |-> 1, med |-> FALSE, k |-> 1]]] @@ o2 :> [none |-> TRUE])])
    >>
----


=============================================================================

---- MODULE Discretised_TEConstants ----
EXTENDS Discretised

CONSTANTS o1, o2

=============================================================================

---- CONFIG Discretised_TTrace_1790488164 ----
CONSTANTS
    Objs = { o1 , o2 }
    Fams = { "fixed" , "shift" }
    NMax = 3
    G = 2
    PMax = 2
    Forget = "Restrict"
    LookupStart = 0
    o2 = o2
    o1 = o1

INVARIANT
    _inv

CHECK_DEADLOCK
    \* CHECK_DEADLOCK off because of PROPERTY or INVARIANT above.
    FALSE

INIT
    _init

NEXT
    _next

CONSTANT
    _TETrace <- _trace

ALIAS
    _expression
=============================================================================
\* Generated on Sun Sep 27 05:49:26 UTC 2026