---- MODULE DiscretisedTrace_TTrace_1790488469 ----
EXTENDS Sequences, TLCExt, Toolbox, Naturals, TLC, DiscretisedTrace

_expression ==
    LET DiscretisedTrace_TEExpression == INSTANCE DiscretisedTrace_TEExpression
    IN DiscretisedTrace_TEExpression!expression
----

_trace ==
    LET DiscretisedTrace_TETrace == INSTANCE DiscretisedTrace_TETrace
    IN DiscretisedTrace_TETrace!trace
----

_inv ==
    ~(
        TLCGet("level") = Len(_TETrace)
        /\
        l = (4)
        /\
        out = ("ok")
        /\
        objs = (<<[st |-> [kind |-> "cont", fam |-> "gaussian", n |-> 6, scheme |-> 1, med |-> TRUE, nr |-> 0, k |-> 1], src |-> [kind |-> "cont", fam |-> "gaussian", n |-> 6, scheme |-> 1, med |-> TRUE, nr |-> 0, k |-> 1], o |-> [failed |-> FALSE, same |-> FALSE, n |-> 6, rr |-> <<>>, sz |-> <<6, 6, 7>>, nan |-> FALSE, rb |-> <<0, 2, 4, 12, 14, 16, 18>>, rB |-> <<0, 2, 4, 12, 14, 16, 18>>, rv |-> <<6, 7, 8, 9, 10, 11>>, sl |-> FALSE, su |-> FALSE, p |-> <<166667, 166667, 166667, 166667, 166667, 166667>>, ps |-> <<1, 1, 1, 1, 1, 1>>, psum |-> 1000000, peq |-> TRUE, lk |-> <<<<0, 0, 0, 0, 0>>, <<2, 0, 1, 1, 1>>, <<4, 0, 2, 2, 2>>, <<12, 0, 3, 3, 3>>, <<14, 0, 4, 4, 4>>, <<16, 0, 5, 5, 5>>, <<18, 0, 6, 5, 5>>, <<1, 1, 0, 0, 0>>, <<3, 1, 1, 1, 1>>, <<5, 1, 2, 2, 2>>, <<13, 1, 3, 3, 3>>, <<15, 1, 4, 4, 4>>, <<17, 1, 5, 5, 5>>>>, cum |-> <<<<0, 166667, 833333, 1000000>>, <<166667, 333333, 666667, 833333>>, <<333333, 500000, 500000, 666667>>, <<500000, 666667, 333333, 500000>>, <<666667, 833333, 166667, 333333>>, <<833333, 1000000, 0, 166667>>>>, cdf |-> TRUE, mc |-> <<166667, 166667, 166667, 166667, 166667, 166667>>, rF |-> <<0, 1, 2, 3, 4, 5, 6>>, Z |-> 1000000, Zexp |-> 1000000, dm |-> 500000, pm |-> 0, tw |-> [n |-> TRUE, built |-> TRUE, lower |-> TRUE, upper |-> TRUE, flags |-> TRUE, bounds |-> TRUE, values |-> TRUE, probs |-> TRUE]]]>>)
    )
----

_init ==
    /\ l = _TETrace[1].l
    /\ out = _TETrace[1].out
    /\ objs = _TETrace[1].objs
----

_next ==
    /\ \E i,j \in DOMAIN _TETrace:
        /\ \/ /\ j = i + 1
              /\ i = TLCGet("level")
        /\ l  = _TETrace[i].l
        /\ l' = _TETrace[j].l
        /\ out  = _TETrace[i].out
        /\ out' = _TETrace[j].out
        /\ objs  = _TETrace[i].objs
        /\ objs' = _TETrace[j].objs

\* Uncomment the ASSUME below to write the states of the error trace
\* to the given file in Json format. Note that you can pass any tuple
\* to `JsonSerialize`. For example, a sub-sequence of _TETrace.
    \* ASSUME
    \*     LET J == INSTANCE Json
    \*         IN J!JsonSerialize("DiscretisedTrace_TTrace_1790488469.json", _TETrace)

=============================================================================

 Note that you can extract this module `DiscretisedTrace_TEExpression`
  to a dedicated file to reuse `expression` (the module in the 
  dedicated `DiscretisedTrace_TEExpression.tla` file takes precedence 
  over the module `DiscretisedTrace_TEExpression` below).

---- MODULE DiscretisedTrace_TEExpression ----
EXTENDS Sequences, TLCExt, Toolbox, Naturals, TLC, DiscretisedTrace

expression == 
    [
        \* To hide variables of the `DiscretisedTrace` spec from the error trace,
        \* remove the variables below.  The trace will be written in the order
        \* of the fields of this record.
        l |-> l
        ,out |-> out
        ,objs |-> objs
        
        \* Put additional constant-, state-, and action-level expressions here:
        \* ,_stateNumber |-> _TEPosition
        \* ,_lUnchanged |-> l = l'
        
        \* Format the `l` variable as Json value.
        \* ,_lJson |->
        \*     LET J == INSTANCE Json
        \*     IN J!ToJson(l)
        
        \* Lastly, you may build expressions over arbitrary sets of states by
        \* leveraging the _TETrace operator.  For example, this is how to
        \* count the number of times a spec variable changed up to the current
        \* state in the trace.
        \* ,_lModCount |->
        \*     LET F[s \in DOMAIN _TETrace] ==
        \*         IF s = 1 THEN 0
        \*         ELSE IF _TETrace[s].l # _TETrace[s-1].l
        \*             THEN 1 + F[s-1] ELSE F[s-1]
        \*     IN F[_TEPosition - 1]
    ]

=============================================================================



Parsing and semantic processing can take forever if the trace below is long.
 In this case, it is advised to uncomment the module below to deserialize the
 trace from a generated binary file.

\*
\*---- MODULE DiscretisedTrace_TETrace ----
\*EXTENDS IOUtils, TLC, DiscretisedTrace
\*
\*trace == IODeserialize("DiscretisedTrace_TTrace_1790488469.bin", TRUE)
\*
\*=============================================================================
\*

---- MODULE DiscretisedTrace_TETrace ----
EXTENDS TLC, DiscretisedTrace

trace == 
    <<
    ([l |-> 1,out |-> "init",objs |-> <<[none |-> TRUE]>>]),
    ([l |-> 2,out |-> "init",objs |-> <<[none |-> TRUE]>>]),
    ([l |-> 3,out |-> "ok",objs |-> <<[st |-> [kind |-> "cont", fam |-> "gaussian", n |-> 6, scheme |-> 1, med |-> FALSE, nr |-> 0, k |-> 1], src |-> [kind |-> "cont", fam |-> "gaussian", n |-> 6, scheme |-> 1, med |-> FALSE, nr |-> 0, k |-> 1], o |-> [failed |-> FALSE, same |-> FALSE, n |-> 6, rr |-> <<>>, sz |-> <<6, 6, 7>>, nan |-> FALSE, rb |-> <<0, 3, 6, 9, 12, 15, 18>>, rB |-> <<0, 3, 6, 9, 12, 15, 18>>, rv |-> <<2, 5, 8, 10, 13, 16>>, sl |-> FALSE, su |-> FALSE, p |-> <<166667, 166667, 166667, 166667, 166667, 166667>>, ps |-> <<1, 1, 1, 1, 1, 1>>, psum |-> 1000000, peq |-> TRUE, lk |-> <<<<0, 0, 0, 0, 0>>, <<3, 0, 1, 1, 1>>, <<6, 0, 2, 2, 2>>, <<9, 0, 3, 3, 3>>, <<12, 0, 4, 4, 4>>, <<15, 0, 5, 5, 5>>, <<18, 0, 6, 5, 5>>, <<1, 1, 0, 0, 0>>, <<4, 1, 1, 1, 1>>, <<7, 1, 2, 2, 2>>, <<11, 1, 3, 3, 3>>, <<14, 1, 4, 4, 4>>, <<17, 1, 5, 5, 5>>>>, cum |-> <<<<0, 166667, 833333, 1000000>>, <<166667, 333333, 666667, 833333>>, <<333333, 500000, 500000, 666667>>, <<500000, 666667, 333333, 500000>>, <<666667, 833333, 166667, 333333>>, <<833333, 1000000, 0, 166667>>>>, cdf |-> TRUE, mc |-> <<166667, 166667, 166667, 166667, 166667, 166667>>, rF |-> <<0, 1, 2, 3, 4, 5, 6>>, Z |-> 1000000, Zexp |-> 1000000, dm |-> 0, pm |-> 0, tw |-> [n |-> TRUE, built |-> TRUE, lower |-> TRUE, upper |-> TRUE, flags |-> TRUE, bounds |-> TRUE, values |-> TRUE, probs |-> TRUE]]]>>]),
    ([l |-> 4,out |-> "ok",objs |-> <<[st |-> [kind |-> "cont", fam |-> "gaussian", n |-> 6, scheme |-> 1, med |-> TRUE, nr |-> 0, k |-> 1], src |-> [kind |-> "cont", fam |-> "gaussian", n |-> 6, scheme |-> 1, med |-> TRUE, nr |-> 0, k |-> 1], o |-> [failed |-> FALSE, same |-> FALSE, n |-> 6, rr |-> <<>>, sz |-> <<6, 6, 7>>, nan |-> FALSE, rb |-> <<0, 2, 4, 12, 14, 16, 18>>, rB |-> <<0, 2, 4, 12, 14, 16, 18>>, rv |-> <<6, 7, 8, 9, 10, 11>>, sl |-> FALSE, su |-> FALSE, p |-> <<166667, 166667, 166667, 166667, 166667, 166667>>, ps |-> <<1, 1, 1, 1, 1, 1>>, psum |-> 1000000, peq |-> TRUE, lk |-> <<<<0, 0, 0, 0, 0>>, <<2, 0, 1, 1, 1>>, <<4, 0, 2, 2, 2>>, <<12, 0, 3, 3, 3>>, <<14, 0, 4, 4, 4>>, <<16, 0, 5, 5, 5>>, <<18, 0, 6, 5, 5>>, <<1, 1, 0, 0, 0>>, <<3, 1, 1, 1, 1>>, <<5, 1, 2, 2, 2>>, <<13, 1, 3, 3, 3>>, <<15, 1, 4, 4, 4>>, <<17, 1, 5, 5, 5>>>>, cum |-> <<<<0, 166667, 833333, 1000000>>, <<166667, 333333, 666667, 833333>>, <<333333, 500000, 500000, 666667>>, <<500000, 666667, 333333, 500000>>, <<666667, 833333, 166667, 333333>>, <<833333, 1000000, 0, 166667>>>>, cdf |-> TRUE, mc |-> <<166667, 166667, 166667, 166667, 166667, 166667>>, rF |-> <<0, 1, 2, 3, 4, 5, 6>>, Z |-> 1000000, Zexp |-> 1000000, dm |-> 500000, pm |-> 0, tw |-> [n |-> TRUE, built |-> TRUE, lower |-> TRUE, upper |-> TRUE, flags |-> TRUE, bounds |-> TRUE, values |-> TRUE, probs |-> TRUE]]]>>])
    >>
----


=============================================================================

---- CONFIG DiscretisedTrace_TTrace_1790488469 ----
CONSTANTS
    Objs = { 1 }
    Fams = { }
    NMax = 1
    G = 1
    PMax = 1
    Forget = "none"
    LookupStart = 0

INVARIANT
    _inv

CHECK_DEADLOCK
    \* CHECK_DEADLOCK off because of PROPERTY or INVARIANT above.
    FALSE

INIT
    _init

NEXT
    _next

CONSTANT
    _TETrace <- _trace

ALIAS
    _expression
=============================================================================
\* Generated on Sun Sep 27 05:54:31 UTC 2026