-------------------------- MODULE DiscretisedTrace --------------------------
\* Trace validation for C09: every event logged by harness/drv_discrete.cpp from a
\* real object (one event per public call, written after the call returned or threw)
\* must be a step of Discretised with the logged observation in the place of the toy
\* discretiser's; the C09 invariants are evaluated in every state.
\*
\* Event fields: e (entry point), a / il, iu / names, via / how (arguments), r (outcome
\* text), rk (outcome kind: "ok", "bpp" = library exception, "std", "other"),
\* st (the driver's view of the abstract state; read at Construct only, for the family,
\* kind, scheme, component count), o (observation, module DiscObs).
\* A Crash / Hang line, a constructor that throws, a setNumberOfCategories / setMedian /
\* copy that throws, or a non-library exception anywhere match no action: rejected.
EXTENDS Discretised, TraceLib

o1 == objs[1]

\* the object now reports the logged observation; its cache is fresh exactly when that
\* observation is bit-for-bit the one of a freshly constructed twin in state st2
Observed(st2) ==
  objs' = [objs EXCEPT ![1] = [st |-> st2, src |-> IF TwinEq(Ev.o) THEN st2 ELSE Stale, o |-> Ev.o, nsO |-> 0, nsN |-> 0]]

Accepted == Ev.rk = "ok" /\ out' = "ok"
\* refused by the library (any bpp exception): nothing may have moved, bit for bit
RefusedByLib == /\ Ev.rk = "bpp" /\ out' = "raise"
                /\ ~Ev.o.failed /\ Ev.o.same
                /\ Refused(1, Ev.o)

TReset == IsEvent("Reset") /\ objs' = [i \in Objs |-> None] /\ out' = "init"

TConstruct ==
  /\ IsEvent("Construct") /\ objs[1] = None
  /\ Accepted
  /\ Observed([kind |-> Ev.st.kind, fam |-> Ev.st.fam, n |-> Ev.st.n, scheme |-> Ev.st.scheme,
               med |-> FALSE, nr |-> 0, k |-> Ev.st.k])

\* accepted: same family / count / flags, new parameter values (not part of the trace's
\* abstract state: the twin is built from them); refused: unchanged
TSetParam ==
  /\ IsEvent("SetParam") /\ objs[1] # None
  /\ \/ Accepted /\ Observed(o1.st)
     \/ RefusedByLib

TSetN ==
  /\ IsEvent("SetN") /\ objs[1] # None
  /\ Accepted /\ Observed([o1.st EXCEPT !.n = Ev.a])

TSetMedian ==
  /\ IsEvent("SetMedian") /\ objs[1] # None
  /\ Accepted /\ Observed([o1.st EXCEPT !.med = Ev.a])

\* the requested interval is the last entry of the observation's restriction list
TRestrict ==
  /\ IsEvent("Restrict") /\ objs[1] # None
  /\ \/ /\ Accepted /\ Observed([o1.st EXCEPT !.nr = @ + 1])
        /\ ~Ev.o.failed /\ Len(Ev.o.rr) = o1.st.nr + 1
        /\ Ev.o.rr[Len(Ev.o.rr)][3] = Ev.il /\ Ev.o.rr[Len(Ev.o.rr)][4] = Ev.iu
     \/ RefusedByLib

\* clone / operator= / clone-then-disturb-the-original: the copy reports what the source reported
TCopy ==
  /\ IsEvent("Copy") /\ objs[1] # None
  /\ Accepted /\ Observed(o1.st)
  /\ ~Ev.o.failed /\ Ev.o.same /\ Core(Ev.o) = Core(o1.o)

\* setNamespace renames the parameters (own and nested); the classes do not depend on names
TSetNamespace ==
  /\ IsEvent("SetNamespace") /\ objs[1] # None
  /\ Accepted /\ Observed(o1.st)
  /\ ~Ev.o.failed /\ Ev.o.same /\ Core(Ev.o) = Core(o1.o)

TraceNext == TReset \/ TConstruct \/ TSetParam \/ TSetN \/ TSetMedian \/ TRestrict \/ TCopy \/ TSetNamespace
TraceInit == Init /\ l = 1
TraceSpec == TraceInit /\ [][TraceNext]_<<vars, l>>
=============================================================================
