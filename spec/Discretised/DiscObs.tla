------------------------------- MODULE DiscObs -------------------------------
\* C09 as predicates on ONE observation record of a discretised distribution.
\*
\* An observation is what the public const queries of an object report right
\* after a call, in the encodings of DESIGN.md:
\*   E1  every double of the observation (domain ends, interior bounds, class
\*       values, lookup probes, ends of the accepted restrictions) is replaced by
\*       its rank in the sorted set of all of them: order facts are exact;
\*   E4  probabilities, parent masses and means are round(x * 10^6).
\* The same predicates judge the toy discretiser of the design model
\* (Discretised.tla) and the observations logged from the real classes
\* (DiscretisedTrace.tla).
\*
\* Fields (JSON arrays are 1-based tuples here, class numbers inside them stay
\* 0-based as the library counts them):
\*   failed        a const query threw; nothing else present
\*   n             getNumberOfCategories()
\*   sz            <<|getCategories()|, |getProbabilities()|, |getBounds()|>>
\*   nan           some reported double is NaN
\*   rb            ranks of lower end, getBound(0..n-2), upper end
\*   rB            ranks of getBounds()
\*   rv            ranks of the class values
\*   sl, su        strictLowerBound(), strictUpperBound()
\*   rr            accepted restrictions <<rank lo, rank hi, incl lo, incl hi>>
\*   p, ps, psum   E4 probabilities, their exact signs, E4 of their double sum
\*   peq           all probabilities bit-equal
\*   lk            probes <<rank x, kind, i, class by getValueCategory, getCategoryIndex>>
\*                 (-2 = library exception, -3 = anything else thrown, -1 = not a class value)
\*   cum           per class value <<Inf, IInf, Sup, SSup>> cumulative queries (E4)
\*   cdf           parent functions available (continuous families); then
\*   mc, rF        conditional parent mass of each class interval (E4), ranks of pProb at the bounds
\*   Z, Zexp       parent mass of the domain; parent mass of the intersection of the accepted
\*                 restrictions (10^6 when there is none)
\*   dm, pm        discrete mean and parent mean over the domain, in a common unit (E4)
\*   same          bit-for-bit equal to the previous observation of the object
\*   tw            built + per-field bit-for-bit equality with a freshly constructed twin
EXTENDS Integers, Sequences

\* E4 tolerances (>= 100 x the accuracy the library documents for its cdf / quantile code)
TolMass == 5000     \* 5e-3 of the total mass (RandomTools::qBeta and pBeta disagree by 2e-3 at Beta(33, 0.1): C08, not judged here)
TolMean == 200      \* 2e-4 of the largest class value
TolSum  == 2

Abs(x) == IF x < 0 THEN -x ELSE x
SumTo(s, k) == LET F[i \in 0..k] == IF i = 0 THEN 0 ELSE F[i - 1] + s[i] IN F[k]   \* s[1] + .. + s[k]
Total(s) == SumTo(s, Len(s))

\* ---------------------------------------------------------------- well-formedness
Sizes(o) ==
  /\ ~o.nan
  /\ o.n >= 1
  /\ o.sz = <<o.n, o.n, o.n + 1>>
  /\ Len(o.rb) = o.n + 1 /\ Len(o.rv) = o.n
  /\ Len(o.p) = o.n /\ Len(o.ps) = o.n /\ Len(o.cum) = o.n
  /\ o.rB = o.rb                                      \* getBounds() = lower, getBound(i).., upper
  /\ o.cdf => (Len(o.mc) = o.n /\ Len(o.rF) = o.n + 1)

Wf(o) == ~o.failed /\ Sizes(o)

\* ---------------------------------------------------------------- the partition
\* st: the abstract state the object should be in (kind, n, scheme, med, nr, k)
Count(st, o) ==
  CASE st.kind = "cont"      -> o.n = st.n
    [] st.kind = "simple"    -> o.n = st.k
    [] st.kind = "constant"  -> o.n = 1
    [] st.kind = "invariant" -> o.n \in {st.n, st.n + 1}       \* the invariant may share a class
    [] st.kind = "mixture"   -> o.n >= st.n /\ o.n <= st.k * (st.n + 1)   \* a component may be invariant-mixed

BoundsMonotone(o)  == \A i \in 1..o.n : o.rb[i] <= o.rb[i + 1]          \* non-decreasing, inside the domain
ValuesStrict(o)    == \A i \in 1..(o.n - 1) : o.rv[i] < o.rv[i + 1]
ValueInOwnClass(o) == \A i \in 1..o.n : o.rb[i] <= o.rv[i] /\ o.rv[i] <= o.rb[i + 1]

ProbsNonNeg(o) == \A i \in 1..o.n : o.ps[i] >= 0 /\ o.p[i] >= 0
ProbsSumOne(o) == Abs(o.psum - 1000000) <= TolSum /\ Abs(Total(o.p) - 1000000) <= o.n + TolSum

EqualMass(st, o) == (st.kind = "cont" /\ st.scheme = 1) => o.peq

\* the domain lies inside every accepted restriction and carries the parent's mass over them
DomainInside(st, o) ==
  /\ Len(o.rr) = st.nr
  /\ \A k \in 1..Len(o.rr) : o.rb[1] >= o.rr[k][1] /\ o.rb[o.n + 1] <= o.rr[k][2]
DomainMass(o) == o.cdf => Abs(o.Z - o.Zexp) <= TolMass

MassMatchesCdf(o) == o.cdf => \A i \in 1..o.n : Abs(o.p[i] - o.mc[i]) <= TolMass
CdfMonotone(o)    == o.cdf => \A i \in 1..o.n : o.rF[i] <= o.rF[i + 1]

\* mean-valued classes: the equal-probability discretisation with the median flag off
MeanValued(st, o) == st.kind = "cont" /\ ~st.med /\ (st.scheme = 1 \/ (st.scheme = 3 /\ o.peq))
MeanMatches(st, o) == (o.cdf /\ MeanValued(st, o)) => Abs(o.dm - o.pm) <= TolMean

\* ---------------------------------------------------------------- lookup
\* classes (0-based) whose closed interval contains the probe of rank x
Containing(o, x) == {c \in 0..(o.n - 1) : o.rb[c + 1] <= x /\ x <= o.rb[c + 2]}
InDomain(o, x)   == /\ (x > o.rb[1] \/ (x = o.rb[1] /\ ~o.sl))
                    /\ (x < o.rb[o.n + 1] \/ (x = o.rb[o.n + 1] /\ ~o.su))
\* A value inside the domain is reported in a class whose interval contains it (on a bound:
\* either side); for an excluded domain end the call may refuse instead.
\* The two look-ups describe the same partition: whichever side a bound is given to, the class
\* whose value getValueCategory returns is the class whose index getCategoryIndex returns (and
\* they refuse together).  No side is asserted: the documentation defines a class by "two
\* bounds" without saying which one belongs to it.
ProbeOk(o, q) ==
  LET x == q[1]  ok == Containing(o, x) IN
  /\ q[4] = q[5]
  /\ IF InDomain(o, x) THEN q[4] \in ok /\ q[5] \in ok
     ELSE (q[4] = -2 \/ q[4] \in ok) /\ (q[5] = -2 \/ q[5] \in ok)
Lookup(o) == \A k \in 1..Len(o.lk) : ProbeOk(o, o.lk[k])

\* ---------------------------------------------------------------- cumulative class queries
\* at the j-th class value: Pr(x < v), Pr(x <= v), Pr(x > v), Pr(x >= v)
CumulativeConsistent(o) ==
  \A j \in 1..o.n :
    LET before == SumTo(o.p, j - 1)  tol == o.n + TolSum  all == Total(o.p) IN
    /\ Abs(o.cum[j][1] - before) <= tol
    /\ Abs(o.cum[j][2] - (before + o.p[j])) <= tol
    /\ Abs(o.cum[j][3] - (all - before - o.p[j])) <= tol
    /\ Abs(o.cum[j][4] - (all - before)) <= tol

\* ---------------------------------------------------------------- history
\* the observation is the one a freshly constructed object in the same abstract state gives
TwinEq(o) == /\ ~o.failed /\ o.tw.built
             /\ o.tw.n /\ o.tw.lower /\ o.tw.upper /\ o.tw.flags
             /\ o.tw.bounds /\ o.tw.values /\ o.tw.probs

\* what must not move when a call is refused or an object is copied
Core(o) == IF o.failed THEN <<"failed">> ELSE <<o.n, o.rb, o.rv, o.p, o.sl, o.su>>
=============================================================================
