---- MODULE DagTrace_TTrace_1790489991 ----
EXTENDS Sequences, TLCExt, Toolbox, Naturals, TLC, DagTrace

_expression ==
    LET DagTrace_TEExpression == INSTANCE DagTrace_TEExpression
    IN DagTrace_TEExpression!expression
----

_trace ==
    LET DagTrace_TETrace == INSTANCE DagTrace_TETrace
    IN DagTrace_TETrace!trace
----

_inv ==
    ~(
        TLCGet("level") = Len(_TETrace)
        /\
        res = ("RT")
        /\
        cacheV = (TRUE)
        /\
        nodes = ({0, 1, 2})
        /\
        cacheR = (FALSE)
        /\
        nextN = (4)
        /\
        edges = (<<>>)
        /\
        acyclic = (TRUE)
        /\
        l = (449)
        /\
        eObj = (<<>>)
        /\
        nextE = (3)
    )
----

_init ==
    /\ acyclic = _TETrace[1].acyclic
    /\ l = _TETrace[1].l
    /\ nodes = _TETrace[1].nodes
    /\ res = _TETrace[1].res
    /\ eObj = _TETrace[1].eObj
    /\ edges = _TETrace[1].edges
    /\ cacheR = _TETrace[1].cacheR
    /\ cacheV = _TETrace[1].cacheV
    /\ nextE = _TETrace[1].nextE
    /\ nextN = _TETrace[1].nextN
----

_next ==
    /\ \E i,j \in DOMAIN _TETrace:
        /\ \/ /\ j = i + 1
              /\ i = TLCGet("level")
        /\ acyclic  = _TETrace[i].acyclic
        /\ acyclic' = _TETrace[j].acyclic
        /\ l  = _TETrace[i].l
        /\ l' = _TETrace[j].l
        /\ nodes  = _TETrace[i].nodes
        /\ nodes' = _TETrace[j].nodes
        /\ res  = _TETrace[i].res
        /\ res' = _TETrace[j].res
        /\ eObj  = _TETrace[i].eObj
        /\ eObj' = _TETrace[j].eObj
        /\ edges  = _TETrace[i].edges
        /\ edges' = _TETrace[j].edges
        /\ cacheR  = _TETrace[i].cacheR
        /\ cacheR' = _TETrace[j].cacheR
        /\ cacheV  = _TETrace[i].cacheV
        /\ cacheV' = _TETrace[j].cacheV
        /\ nextE  = _TETrace[i].nextE
        /\ nextE' = _TETrace[j].nextE
        /\ nextN  = _TETrace[i].nextN
        /\ nextN' = _TETrace[j].nextN

\* Uncomment the ASSUME below to write the states of the error trace
\* to the given file in Json format. Note that you can pass any tuple
\* to `JsonSerialize`. For example, a sub-sequence of _TETrace.
    \* ASSUME
    \*     LET J == INSTANCE Json
    \*         IN J!JsonSerialize("DagTrace_TTrace_1790489991.json", _TETrace)

=============================================================================

 Note that you can extract this module `DagTrace_TEExpression`
  to a dedicated file to reuse `expression` (the module in the 
  dedicated `DagTrace_TEExpression.tla` file takes precedence 
  over the module `DagTrace_TEExpression` below).

---- MODULE DagTrace_TEExpression ----
EXTENDS Sequences, TLCExt, Toolbox, Naturals, TLC, DagTrace

expression == 
    [
        \* To hide variables of the `DagTrace` spec from the error trace,
        \* remove the variables below.  The trace will be written in the order
        \* of the fields of this record.
        acyclic |-> acyclic
        ,l |-> l
        ,nodes |-> nodes
        ,res |-> res
        ,eObj |-> eObj
        ,edges |-> edges
        ,cacheR |-> cacheR
        ,cacheV |-> cacheV
        ,nextE |-> nextE
        ,nextN |-> nextN
        
        \* Put additional constant-, state-, and action-level expressions here:
        \* ,_stateNumber |-> _TEPosition
        \* ,_acyclicUnchanged |-> acyclic = acyclic'
        
        \* Format the `acyclic` variable as Json value.
        \* ,_acyclicJson |->
        \*     LET J == INSTANCE Json
        \*     IN J!ToJson(acyclic)
        
        \* Lastly, you may build expressions over arbitrary sets of states by
        \* leveraging the _TETrace operator.  For example, this is how to
        \* count the number of times a spec variable changed up to the current
        \* state in the trace.
        \* ,_acyclicModCount |->
        \*     LET F[s \in DOMAIN _TETrace] ==
        \*         IF s = 1 THEN 0
        \*         ELSE IF _TETrace[s].acyclic # _TETrace[s-1].acyclic
        \*             THEN 1 + F[s-1] ELSE F[s-1]
        \*     IN F[_TEPosition - 1]
    ]

=============================================================================



Parsing and semantic processing can take forever if the trace below is long.
 In this case, it is advised to uncomment the module below to deserialize the
 trace from a generated binary file.

\*
\*---- MODULE DagTrace_TETrace ----
\*EXTENDS IOUtils, TLC, DagTrace
\*
\*trace == IODeserialize("DagTrace_TTrace_1790489991.bin", TRUE)
\*
\*=============================================================================
\*

---- MODULE DagTrace_TETrace ----
EXTENDS TLC, DagTrace

trace == 
    <<
    ([res |-> "ok",cacheV |-> FALSE,nodes |-> {},cacheR |-> FALSE,nextN |-> 0,edges |-> <<>>,acyclic |-> TRUE,l |-> 1,eObj |-> <<>>,nextE |-> 0]),
    ([res |-> "ok",cacheV |-> FALSE,nodes |-> {},cacheR |-> FALSE,nextN |-> 0,edges |-> <<>>,acyclic |-> TRUE,l |-> 2,eObj |-> <<>>,nextE |-> 0]),
    ([res |-> "ok",cacheV |-> FALSE,nodes |-> {0},cacheR |-> FALSE,nextN |-> 1,edges |-> <<>>,acyclic |-> TRUE,l |-> 3,eObj |-> <<>>,nextE |-> 0]),
    ([res |-> "ok",cacheV |-> FALSE,nodes |-> {0, 1},cacheR |-> FALSE,nextN |-> 2,edges |-> <<>>,acyclic |-> TRUE,l |-> 4,eObj |-> <<>>,nextE |-> 0]),
    ([res |-> "ok",cacheV |-> FALSE,nodes |-> {0, 1, 2},cacheR |-> FALSE,nextN |-> 3,edges |-> <<>>,acyclic |-> TRUE,l |-> 5,eObj |-> <<>>,nextE |-> 0]),
    ([res |-> "ok",cacheV |-> FALSE,nodes |-> {0, 1, 2, 3},cacheR |-> FALSE,nextN |-> 4,edges |-> <<>>,acyclic |-> TRUE,l |-> 6,eObj |-> <<>>,nextE |-> 0]),
    ([res |-> "ok",cacheV |-> FALSE,nodes |-> {0, 1, 2, 3},cacheR |-> FALSE,nextN |-> 4,edges |-> (0 :> <<1, 3>>),acyclic |-> TRUE,l |-> 7,eObj |-> (0 :> 1),nextE |-> 1]),
    ([res |-> "ok",cacheV |-> FALSE,nodes |-> {0, 1, 2, 3},cacheR |-> FALSE,nextN |-> 4,edges |-> (0 :> <<1, 3>> @@ 1 :> <<0, 1>>),acyclic |-> TRUE,l |-> 8,eObj |-> (0 :> 1 @@ 1 :> 2),nextE |-> 2]),
    ([res |-> "ok",cacheV |-> FALSE,nodes |-> {0, 1, 2, 3},cacheR |-> FALSE,nextN |-> 4,edges |-> (0 :> <<1, 3>> @@ 1 :> <<0, 1>> @@ 2 :> <<2, 3>>),acyclic |-> TRUE,l |-> 9,eObj |-> (0 :> 1 @@ 1 :> 2),nextE |-> 3]),
    ([res |-> "ok",cacheV |-> FALSE,nodes |-> {0, 1, 2, 3},cacheR |-> FALSE,nextN |-> 4,edges |-> (0 :> <<1, 3>> @@ 1 :> <<0, 1>> @@ 2 :> <<2, 3>> @@ 3 :> <<2, 0>>),acyclic |-> TRUE,l |-> 10,eObj |-> (0 :> 1 @@ 1 :> 2 @@ 3 :> 3),nextE |-> 4]),
    ([res |-> "ok",cacheV |-> FALSE,nodes |-> {0, 1, 2, 3},cacheR |-> FALSE,nextN |-> 4,edges |-> (0 :> <<1, 3>> @@ 1 :> <<0, 1>> @@ 2 :> <<2, 3>> @@ 3 :> <<2, 0>> @@ 4 :> <<3, 2>>),acyclic |-> FALSE,l |-> 11,eObj |-> (0 :> 1 @@ 1 :> 2 @@ 3 :> 3),nextE |-> 5]),
    ([res |-> "ok",cacheV |-> FALSE,nodes |-> {0, 1, 2, 3},cacheR |-> FALSE,nextN |-> 4,edges |-> (0 :> <<1, 3>> @@ 1 :> <<0, 1>> @@ 2 :> <<2, 3>> @@ 3 :> <<2, 0>> @@ 4 :> <<3, 2>> @@ 5 :> <<1, 0>>),acyclic |-> FALSE,l |-> 12,eObj |-> (0 :> 1 @@ 1 :> 2 @@ 3 :> 3),nextE |-> 6]),
    ([res |-> "ok",cacheV |-> FALSE,nodes |-> {0, 1, 2, 3},cacheR |-> FALSE,nextN |-> 4,edges |-> (0 :> <<1, 3>> @@ 1 :> <<0, 1>> @@ 2 :> <<2, 3>> @@ 3 :> <<2, 0>> @@ 4 :> <<3, 2>> @@ 5 :> <<1, 0>> @@ 6 :> <<2, 1>>),acyclic |-> FALSE,l |-> 13,eObj |-> (0 :> 1 @@ 1 :> 2 @@ 3 :> 3),nextE |-> 7]),
    ([res |-> "ok",cacheV |-> FALSE,nodes |-> {0, 1, 2, 3},cacheR |-> FALSE,nextN |-> 4,edges |-> (0 :> <<1, 3>> @@ 1 :> <<0, 1>> @@ 2 :> <<2, 3>> @@ 3 :> <<2, 0>> @@ 4 :> <<3, 2>> @@ 5 :> <<1, 0>> @@ 6 :> <<2, 1>> @@ 7 :> <<3, 1>>),acyclic |-> FALSE,l |-> 14,eObj |-> (0 :> 1 @@ 1 :> 2 @@ 3 :> 3 @@ 7 :> 4),nextE |-> 8]),
    ([res |-> "F",cacheV |-> FALSE,nodes |-> {0, 1, 2, 3},cacheR |-> FALSE,nextN |-> 4,edges |-> (0 :> <<1, 3>> @@ 1 :> <<0, 1>> @@ 2 :> <<2, 3>> @@ 3 :> <<2, 0>> @@ 4 :> <<3, 2>> @@ 5 :> <<1, 0>> @@ 6 :> <<2, 1>> @@ 7 :> <<3, 1>>),acyclic |-> FALSE,l |-> 15,eObj |-> (0 :> 1 @@ 1 :> 2 @@ 3 :> 3 @@ 7 :> 4),nextE |-> 8]),
    ([res |-> "RT",cacheV |-> FALSE,nodes |-> {0, 1, 2, 3},cacheR |-> FALSE,nextN |-> 4,edges |-> (0 :> <<1, 3>> @@ 1 :> <<0, 1>> @@ 2 :> <<2, 3>> @@ 3 :> <<2, 0>> @@ 4 :> <<3, 2>> @@ 5 :> <<1, 0>> @@ 6 :> <<2, 1>> @@ 7 :> <<3, 1>>),acyclic |-> FALSE,l |-> 16,eObj |-> (0 :> 1 @@ 1 :> 2 @@ 3 :> 3 @@ 7 :> 4),nextE |-> 8]),
    ([res |-> "ok",cacheV |-> FALSE,nodes |-> {0, 1, 2, 3},cacheR |-> FALSE,nextN |-> 4,edges |-> (0 :> <<1, 3>> @@ 1 :> <<0, 1>> @@ 2 :> <<2, 3>> @@ 3 :> <<2, 0>> @@ 4 :> <<3, 2>> @@ 5 :> <<1, 0>> @@ 6 :> <<2, 1>> @@ 7 :> <<3, 1>> @@ 8 :> <<0, 3>>),acyclic |-> FALSE,l |-> 17,eObj |-> (0 :> 1 @@ 1 :> 2 @@ 3 :> 3 @@ 7 :> 4),nextE |-> 9]),
    ([res |-> "F",cacheV |-> FALSE,nodes |-> {0, 1, 2, 3},cacheR |-> FALSE,nextN |-> 4,edges |-> (0 :> <<1, 3>> @@ 1 :> <<0, 1>> @@ 2 :> <<2, 3>> @@ 3 :> <<2, 0>> @@ 4 :> <<3, 2>> @@ 5 :> <<1, 0>> @@ 6 :> <<2, 1>> @@ 7 :> <<3, 1>> @@ 8 :> <<0, 3>>),acyclic |-> FALSE,l |-> 18,eObj |-> (0 :> 1 @@ 1 :> 2 @@ 3 :> 3 @@ 7 :> 4),nextE |-> 9]),
    ([res |-> "RT",cacheV |-> FALSE,nodes |-> {0, 1, 2, 3},cacheR |-> FALSE,nextN |-> 4,edges |-> (0 :> <<1, 3>> @@ 1 :> <<0, 1>> @@ 2 :> <<2, 3>> @@ 3 :> <<2, 0>> @@ 4 :> <<3, 2>> @@ 5 :> <<1, 0>> @@ 6 :> <<2, 1>> @@ 7 :> <<3, 1>> @@ 8 :> <<0, 3>>),acyclic |-> FALSE,l |-> 19,eObj |-> (0 :> 1 @@ 1 :> 2 @@ 3 :> 3 @@ 7 :> 4),nextE |-> 9]),
    ([res |-> "ok",cacheV |-> FALSE,nodes |-> {0, 1, 2, 3},cacheR |-> FALSE,nextN |-> 4,edges |-> (0 :> <<1, 3>> @@ 1 :> <<0, 1>> @@ 2 :> <<2, 3>> @@ 3 :> <<2, 0>> @@ 4 :> <<3, 2>> @@ 5 :> <<1, 0>> @@ 6 :> <<2, 1>> @@ 7 :> <<3, 1>> @@ 8 :> <<0, 3>>),acyclic |-> FALSE,l |-> 20,eObj |-> (0 :> 1 @@ 1 :> 2 @@ 3 :> 3 @@ 7 :> 4),nextE |-> 9]),
    ([res |-> "raise",cacheV |-> FALSE,nodes |-> {0, 1, 2, 3},cacheR |-> FALSE,nextN |-> 4,edges |-> (0 :> <<1, 3>> @@ 1 :> <<0, 1>> @@ 2 :> <<2, 3>> @@ 3 :> <<2, 0>> @@ 4 :> <<3, 2>> @@ 5 :> <<1, 0>> @@ 6 :> <<2, 1>> @@ 7 :> <<3, 1>> @@ 8 :> <<0, 3>>),acyclic |-> FALSE,l |-> 21,eObj |-> (0 :> 1 @@ 1 :> 2 @@ 3 :> 3 @@ 7 :> 4),nextE |-> 9]),
    ([res |-> "ok",cacheV |-> FALSE,nodes |-> {0, 1, 2, 3, 4},cacheR |-> FALSE,nextN |-> 5,edges |-> (0 :> <<1, 3>> @@ 1 :> <<0, 1>> @@ 2 :> <<2, 3>> @@ 3 :> <<2, 0>> @@ 4 :> <<3, 2>> @@ 5 :> <<1, 0>> @@ 6 :> <<2, 1>> @@ 7 :> <<3, 1>> @@ 8 :> <<0, 3>>),acyclic |-> FALSE,l |-> 22,eObj |-> (0 :> 1 @@ 1 :> 2 @@ 3 :> 3 @@ 7 :> 4),nextE |-> 9]),
    ([res |-> "F",cacheV |-> FALSE,nodes |-> {0, 1, 2, 3, 4},cacheR |-> FALSE,nextN |-> 5,edges |-> (0 :> <<1, 3>> @@ 1 :> <<0, 1>> @@ 2 :> <<2, 3>> @@ 3 :> <<2, 0>> @@ 4 :> <<3, 2>> @@ 5 :> <<1, 0>> @@ 6 :> <<2, 1>> @@ 7 :> <<3, 1>> @@ 8 :> <<0, 3>>),acyclic |-> FALSE,l |-> 23,eObj |-> (0 :> 1 @@ 1 :> 2 @@ 3 :> 3 @@ 7 :> 4),nextE |-> 9]),
    ([res |-> "RT",cacheV |-> FALSE,nodes |-> {0, 1, 2, 3, 4},cacheR |-> TRUE,nextN |-> 5,edges |-> (0 :> <<1, 3>> @@ 1 :> <<0, 1>> @@ 2 :> <<2, 3>> @@ 3 :> <<2, 0>> @@ 4 :> <<3, 2>> @@ 5 :> <<1, 0>> @@ 6 :> <<2, 1>> @@ 7 :> <<3, 1>> @@ 8 :> <<0, 3>>),acyclic |-> FALSE,l |-> 24,eObj |-> (0 :> 1 @@ 1 :> 2 @@ 3 :> 3 @@ 7 :> 4),nextE |-> 9]),
    ([res |-> "ok",cacheV |-> FALSE,nodes |-> {},cacheR |-> FALSE,nextN |-> 0,edges |-> <<>>,acyclic |-> TRUE,l |-> 25,eObj |-> <<>>,nextE |-> 0]),
    ([res |-> "ok",cacheV |-> FALSE,nodes |-> {0},cacheR |-> FALSE,nextN |-> 1,edges |-> <<>>,acyclic |-> TRUE,l |-> 26,eObj |-> <<>>,nextE |-> 0]),
    ([res |-> "ok",cacheV |-> FALSE,nodes |-> {0, 1},cacheR |-> FALSE,nextN |-> 2,edges |-> <<>>,acyclic |-> TRUE,l |-> 27,eObj |-> <<>>,nextE |-> 0]),
    ([res |-> "ok",cacheV |-> FALSE,nodes |-> {0, 1, 2},cacheR |-> FALSE,nextN |-> 3,edges |-> <<>>,acyclic |-> TRUE,l |-> 28,eObj |-> <<>>,nextE |-> 0]),
    ([res |-> "ok",cacheV |-> FALSE,nodes |-> {0, 1, 2, 3},cacheR |-> FALSE,nextN |-> 4,edges |-> <<>>,acyclic |-> TRUE,l |-> 29,eObj |-> <<>>,nextE |-> 0]),
    ([res |-> "ok",cacheV |-> FALSE,nodes |-> {0, 1, 2, 3},cacheR |-> FALSE,nextN |-> 4,edges |-> (0 :> <<3, 1>>),acyclic |-> TRUE,l |-> 30,eObj |-> <<>>,nextE |-> 1]),
    ([res |-> "ok",cacheV |-> FALSE,nodes |-> {0, 1, 2, 3},cacheR |-> FALSE,nextN |-> 4,edges |-> (0 :> <<3, 1>> @@ 1 :> <<3, 2>>),acyclic |-> TRUE,l |-> 31,eObj |-> <<>>,nextE |-> 2]),
    ([res |-> "ok",cacheV |-> FALSE,nodes |-> {0, 1, 2, 3},cacheR |-> FALSE,nextN |-> 4,edges |-> (0 :> <<3, 1>> @@ 1 :> <<3, 2>> @@ 2 :> <<0, 3>>),acyclic |-> TRUE,l |-> 32,eObj |-> <<>>,nextE |-> 3]),
    ([res |-> "ok",cacheV |-> FALSE,nodes |-> {0, 1, 2, 3},cacheR |-> FALSE,nextN |-> 4,edges |-> (0 :> <<3, 1>> @@ 1 :> <<3, 2>> @@ 2 :> <<0, 3>> @@ 3 :> <<2, 0>>),acyclic |-> FALSE,l |-> 33,eObj |-> (3 :> 1),nextE |-> 4]),
    ([res |-> "ok",cacheV |-> FALSE,nodes |-> {0, 1, 2, 3},cacheR |-> FALSE,nextN |-> 4,edges |-> (0 :> <<3, 1>> @@ 1 :> <<3, 2>> @@ 2 :> <<0, 3>> @@ 3 :> <<2, 0>> @@ 4 :> <<2, 1>>),acyclic |-> FALSE,l |-> 34,eObj |-> (3 :> 1),nextE |-> 5]),
    ([res |-> "ok",cacheV |-> FALSE,nodes |-> {0, 1, 2, 3},cacheR |-> FALSE,nextN |-> 4,edges |-> (0 :> <<3, 1>> @@ 1 :> <<3, 2>> @@ 2 :> <<0, 3>> @@ 3 :> <<2, 0>> @@ 4 :> <<2, 1>> @@ 5 :> <<0, 2>>),acyclic |-> FALSE,l |-> 35,eObj |-> (3 :> 1 @@ 5 :> 2),nextE |-> 6]),
    ([res |-> "ok",cacheV |-> FALSE,nodes |-> {0, 1, 2, 3},cacheR |-> FALSE,nextN |-> 4,edges |-> (0 :> <<3, 1>> @@ 1 :> <<3, 2>> @@ 2 :> <<0, 3>> @@ 3 :> <<2, 0>> @@ 4 :> <<2, 1>> @@ 5 :> <<0, 2>> @@ 6 :> <<1, 3>>),acyclic |-> FALSE,l |-> 36,eObj |-> (3 :> 1 @@ 5 :> 2),nextE |-> 7]),
    ([res |-> "F",cacheV |-> FALSE,nodes |-> {0, 1, 2, 3},cacheR |-> FALSE,nextN |-> 4,edges |-> (0 :> <<3, 1>> @@ 1 :> <<3, 2>> @@ 2 :> <<0, 3>> @@ 3 :> <<2, 0>> @@ 4 :> <<2, 1>> @@ 5 :> <<0, 2>> @@ 6 :> <<1, 3>>),acyclic |-> FALSE,l |-> 37,eObj |-> (3 :> 1 @@ 5 :> 2),nextE |-> 7]),
    ([res |-> "ok",cacheV |-> FALSE,nodes |-> {0, 1, 2, 3},cacheR |-> FALSE,nextN |-> 4,edges |-> (0 :> <<3, 1>> @@ 1 :> <<3, 2>> @@ 2 :> <<0, 3>> @@ 3 :> <<2, 0>> @@ 4 :> <<2, 1>> @@ 5 :> <<0, 2>> @@ 6 :> <<1, 3>> @@ 7 :> <<2, 3>>),acyclic |-> FALSE,l |-> 38,eObj |-> (3 :> 1 @@ 5 :> 2),nextE |-> 8]),
    ([res |-> "ok",cacheV |-> FALSE,nodes |-> {0, 1, 2, 3},cacheR |-> FALSE,nextN |-> 4,edges |-> (0 :> <<3, 1>> @@ 1 :> <<3, 2>> @@ 2 :> <<0, 3>> @@ 3 :> <<2, 0>> @@ 4 :> <<2, 1>> @@ 5 :> <<0, 2>> @@ 6 :> <<1, 3>> @@ 7 :> <<2, 3>> @@ 8 :> <<1, 0>>),acyclic |-> FALSE,l |-> 39,eObj |-> (3 :> 1 @@ 5 :> 2),nextE |-> 9]),
    ([res |-> "F",cacheV |-> FALSE,nodes |-> {0, 1, 2, 3},cacheR |-> FALSE,nextN |-> 4,edges |-> (0 :> <<3, 1>> @@ 1 :> <<3, 2>> @@ 2 :> <<0, 3>> @@ 3 :> <<2, 0>> @@ 4 :> <<2, 1>> @@ 5 :> <<0, 2>> @@ 6 :> <<1, 3>> @@ 7 :> <<2, 3>> @@ 8 :> <<1, 0>>),acyclic |-> FALSE,l |-> 40,eObj |-> (3 :> 1 @@ 5 :> 2),nextE |-> 9]),
    ([res |-> "RT",cacheV |-> FALSE,nodes |-> {0, 1, 2, 3},cacheR |-> FALSE,nextN |-> 4,edges |-> (0 :> <<3, 1>> @@ 1 :> <<3, 2>> @@ 2 :> <<0, 3>> @@ 3 :> <<2, 0>> @@ 4 :> <<2, 1>> @@ 5 :> <<0, 2>> @@ 6 :> <<1, 3>> @@ 7 :> <<2, 3>> @@ 8 :> <<1, 0>>),acyclic |-> FALSE,l |-> 41,eObj |-> (3 :> 1 @@ 5 :> 2),nextE |-> 9]),
    ([res |-> "ok",cacheV |-> FALSE,nodes |-> {0, 1, 2, 3},cacheR |-> FALSE,nextN |-> 4,edges |-> (0 :> <<3, 1>> @@ 1 :> <<3, 2>> @@ 2 :> <<0, 3>> @@ 3 :> <<2, 0>> @@ 4 :> <<2, 1>> @@ 5 :> <<0, 2>> @@ 6 :> <<1, 3>> @@ 7 :> <<2, 3>> @@ 8 :> <<1, 0>>),acyclic |-> FALSE,l |-> 42,eObj |-> (3 :> 1 @@ 5 :> 2),nextE |-> 9]),
    ([res |-> "raise",cacheV |-> FALSE,nodes |-> {0, 1, 2, 3},cacheR |-> FALSE,nextN |-> 4,edges |-> (0 :> <<3, 1>> @@ 1 :> <<3, 2>> @@ 2 :> <<0, 3>> @@ 3 :> <<2, 0>> @@ 4 :> <<2, 1>> @@ 5 :> <<0, 2>> @@ 6 :> <<1, 3>> @@ 7 :> <<2, 3>> @@ 8 :> <<1, 0>>),acyclic |-> FALSE,l |-> 43,eObj |-> (3 :> 1 @@ 5 :> 2),nextE |-> 9]),
    ([res |-> "ok",cacheV |-> FALSE,nodes |-> {0, 1, 2, 3},cacheR |-> FALSE,nextN |-> 4,edges |-> (0 :> <<3, 1>> @@ 1 :> <<3, 2>> @@ 2 :> <<0, 3>> @@ 3 :> <<2, 0>> @@ 4 :> <<2, 1>> @@ 5 :> <<0, 2>> @@ 6 :> <<1, 3>> @@ 7 :> <<2, 3>>),acyclic |-> FALSE,l |-> 44,eObj |-> (3 :> 1 @@ 5 :> 2),nextE |-> 9]),
    ([res |-> "F",cacheV |-> FALSE,nodes |-> {0, 1, 2, 3},cacheR |-> FALSE,nextN |-> 4,edges |-> (0 :> <<3, 1>> @@ 1 :> <<3, 2>> @@ 2 :> <<0, 3>> @@ 3 :> <<2, 0>> @@ 4 :> <<2, 1>> @@ 5 :> <<0, 2>> @@ 6 :> <<1, 3>> @@ 7 :> <<2, 3>>),acyclic |-> FALSE,l |-> 45,eObj |-> (3 :> 1 @@ 5 :> 2),nextE |-> 9]),
    ([res |-> "RT",cacheV |-> FALSE,nodes |-> {0, 1, 2, 3},cacheR |-> FALSE,nextN |-> 4,edges |-> (0 :> <<3, 1>> @@ 1 :> <<3, 2>> @@ 2 :> <<0, 3>> @@ 3 :> <<2, 0>> @@ 4 :> <<2, 1>> @@ 5 :> <<0, 2>> @@ 6 :> <<1, 3>> @@ 7 :> <<2, 3>>),acyclic |-> FALSE,l |-> 46,eObj |-> (3 :> 1 @@ 5 :> 2),nextE |-> 9]),
    ([res |-> "ok",cacheV |-> FALSE,nodes |-> {},cacheR |-> FALSE,nextN |-> 0,edges |-> <<>>,acyclic |-> TRUE,l |-> 47,eObj |-> <<>>,nextE |-> 0]),
    ([res |-> "ok",cacheV |-> FALSE,nodes |-> {0},cacheR |-> FALSE,nextN |-> 1,edges |-> <<>>,acyclic |-> TRUE,l |-> 48,eObj |-> <<>>,nextE |-> 0]),
    ([res |-> "ok",cacheV |-> FALSE,nodes |-> {0, 1},cacheR |-> FALSE,nextN |-> 2,edges |-> <<>>,acyclic |-> TRUE,l |-> 49,eObj |-> <<>>,nextE |-> 0]),
    ([res |-> "ok",cacheV |-> FALSE,nodes |-> {0, 1, 2},cacheR |-> FALSE,nextN |-> 3,edges |-> <<>>,acyclic |-> TRUE,l |-> 50,eObj |-> <<>>,nextE |-> 0]),
    ([res |-> "ok",cacheV |-> FALSE,nodes |-> {0, 1, 2, 3},cacheR |-> FALSE,nextN |-> 4,edges |-> <<>>,acyclic |-> TRUE,l |-> 51,eObj |-> <<>>,nextE |-> 0]),
    ([res |-> "ok",cacheV |-> FALSE,nodes |-> {0, 1, 2, 3},cacheR |-> FALSE,nextN |-> 4,edges |-> (0 :> <<2, 0>>),acyclic |-> TRUE,l |-> 52,eObj |-> (0 :> 1),nextE |-> 1]),
    ([res |-> "ok",cacheV |-> FALSE,nodes |-> {0, 1, 2, 3},cacheR |-> FALSE,nextN |-> 4,edges |-> (0 :> <<2, 0>> @@ 1 :> <<0, 3>>),acyclic |-> TRUE,l |-> 53,eObj |-> (0 :> 1),nextE |-> 2]),
    ([res |-> "ok",cacheV |-> FALSE,nodes |-> {0, 1, 2, 3},cacheR |-> FALSE,nextN |-> 4,edges |-> (0 :> <<2, 0>> @@ 1 :> <<0, 3>> @@ 2 :> <<2, 3>>),acyclic |-> TRUE,l |-> 54,eObj |-> (0 :> 1),nextE |-> 3]),
    ([res |-> "T",cacheV |-> TRUE,nodes |-> {0, 1, 2, 3},cacheR |-> FALSE,nextN |-> 4,edges |-> (0 :> <<2, 0>> @@ 1 :> <<0, 3>> @@ 2 :> <<2, 3>>),acyclic |-> TRUE,l |-> 55,eObj |-> (0 :> 1),nextE |-> 3]),
    ([res |-> "RF",cacheV |-> TRUE,nodes |-> {0, 1, 2, 3},cacheR |-> FALSE,nextN |-> 4,edges |-> (0 :> <<2, 0>> @@ 1 :> <<0, 3>> @@ 2 :> <<2, 3>>),acyclic |-> TRUE,l |-> 56,eObj |-> (0 :> 1),nextE |-> 3]),
    ([res |-> "ok",cacheV |-> FALSE,nodes |-> {0, 1, 2, 3},cacheR |-> FALSE,nextN |-> 4,edges |-> (0 :> <<2, 0>> @@ 1 :> <<0, 3>> @@ 2 :> <<2, 3>> @@ 3 :> <<1, 3>>),acyclic |-> TRUE,l |-> 57,eObj |-> (0 :> 1),nextE |-> 4]),
    ([res |-> "ok",cacheV |-> FALSE,nodes |-> {0, 1, 2, 3},cacheR |-> FALSE,nextN |-> 4,edges |-> (0 :> <<2, 0>> @@ 1 :> <<0, 3>> @@ 2 :> <<2, 3>> @@ 3 :> <<1, 3>> @@ 4 :> <<2, 1>>),acyclic |-> TRUE,l |-> 58,eObj |-> (0 :> 1),nextE |-> 5]),
    ([res |-> "ok",cacheV |-> FALSE,nodes |-> {0, 1, 2, 3},cacheR |-> FALSE,nextN |-> 4,edges |-> (0 :> <<2, 0>> @@ 1 :> <<0, 3>> @@ 2 :> <<2, 3>> @@ 3 :> <<1, 3>> @@ 4 :> <<2, 1>> @@ 5 :> <<0, 1>>),acyclic |-> TRUE,l |-> 59,eObj |-> (0 :> 1),nextE |-> 6]),
    ([res |-> "ok",cacheV |-> FALSE,nodes |-> {0, 1, 2, 3},cacheR |-> FALSE,nextN |-> 4,edges |-> (0 :> <<2, 0>> @@ 1 :> <<0, 3>> @@ 2 :> <<2, 3>> @@ 3 :> <<1, 3>> @@ 4 :> <<2, 1>> @@ 5 :> <<0, 1>> @@ 6 :> <<1, 0>>),acyclic |-> FALSE,l |-> 60,eObj |-> (0 :> 1),nextE |-> 7]),
    ([res |-> "ok",cacheV |-> FALSE,nodes |-> {0, 1, 2, 3},cacheR |-> FALSE,nextN |-> 4,edges |-> (0 :> <<2, 0>> @@ 1 :> <<0, 3>> @@ 2 :> <<2, 3>> @@ 3 :> <<1, 3>> @@ 4 :> <<2, 1>> @@ 5 :> <<0, 1>> @@ 6 :> <<1, 0>> @@ 7 :> <<3, 1>>),acyclic |-> FALSE,l |-> 61,eObj |-> (0 :> 1 @@ 7 :> 2),nextE |-> 8]),
    ([res |-> "ok",cacheV |-> FALSE,nodes |-> {0, 1, 2, 3},cacheR |-> FALSE,nextN |-> 4,edges |-> (0 :> <<2, 0>> @@ 1 :> <<0, 3>> @@ 2 :> <<2, 3>> @@ 3 :> <<1, 3>> @@ 4 :> <<2, 1>> @@ 5 :> <<0, 1>> @@ 6 :> <<1, 0>> @@ 7 :> <<3, 1>> @@ 8 :> <<0, 2>>),acyclic |-> FALSE,l |-> 62,eObj |-> (0 :> 1 @@ 7 :> 2),nextE |-> 9]),
    ([res |-> "ok",cacheV |-> FALSE,nodes |-> {0, 1, 2, 3},cacheR |-> FALSE,nextN |-> 4,edges |-> (0 :> <<2, 0>> @@ 1 :> <<0, 3>> @@ 2 :> <<2, 3>> @@ 3 :> <<1, 3>> @@ 4 :> <<2, 1>> @@ 5 :> <<0, 1>> @@ 6 :> <<1, 0>> @@ 7 :> <<3, 1>> @@ 8 :> <<0, 2>> @@ 9 :> <<3, 2>>),acyclic |-> FALSE,l |-> 63,eObj |-> (0 :> 1 @@ 7 :> 2 @@ 9 :> 3),nextE |-> 10]),
    ([res |-> "F",cacheV |-> FALSE,nodes |-> {0, 1, 2, 3},cacheR |-> FALSE,nextN |-> 4,edges |-> (0 :> <<2, 0>> @@ 1 :> <<0, 3>> @@ 2 :> <<2, 3>> @@ 3 :> <<1, 3>> @@ 4 :> <<2, 1>> @@ 5 :> <<0, 1>> @@ 6 :> <<1, 0>> @@ 7 :> <<3, 1>> @@ 8 :> <<0, 2>> @@ 9 :> <<3, 2>>),acyclic |-> FALSE,l |-> 64,eObj |-> (0 :> 1 @@ 7 :> 2 @@ 9 :> 3),nextE |-> 10]),
    ([res |-> "RT",cacheV |-> FALSE,nodes |-> {0, 1, 2, 3},cacheR |-> FALSE,nextN |-> 4,edges |-> (0 :> <<2, 0>> @@ 1 :> <<0, 3>> @@ 2 :> <<2, 3>> @@ 3 :> <<1, 3>> @@ 4 :> <<2, 1>> @@ 5 :> <<0, 1>> @@ 6 :> <<1, 0>> @@ 7 :> <<3, 1>> @@ 8 :> <<0, 2>> @@ 9 :> <<3, 2>>),acyclic |-> FALSE,l |-> 65,eObj |-> (0 :> 1 @@ 7 :> 2 @@ 9 :> 3),nextE |-> 10]),
    ([res |-> "ok",cacheV |-> FALSE,nodes |-> {0, 1, 2, 3},cacheR |-> FALSE,nextN |-> 4,edges |-> (0 :> <<2, 0>> @@ 1 :> <<0, 3>> @@ 2 :> <<2, 3>> @@ 3 :> <<1, 3>> @@ 4 :> <<2, 1>> @@ 5 :> <<0, 1>> @@ 6 :> <<1, 0>> @@ 7 :> <<3, 1>> @@ 8 :> <<0, 2>> @@ 9 :> <<3, 2>>),acyclic |-> FALSE,l |-> 66,eObj |-> (0 :> 1 @@ 7 :> 2 @@ 9 :> 3),nextE |-> 10]),
    ([res |-> "raise",cacheV |-> FALSE,nodes |-> {0, 1, 2, 3},cacheR |-> FALSE,nextN |-> 4,edges |-> (0 :> <<2, 0>> @@ 1 :> <<0, 3>> @@ 2 :> <<2, 3>> @@ 3 :> <<1, 3>> @@ 4 :> <<2, 1>> @@ 5 :> <<0, 1>> @@ 6 :> <<1, 0>> @@ 7 :> <<3, 1>> @@ 8 :> <<0, 2>> @@ 9 :> <<3, 2>>),acyclic |-> FALSE,l |-> 67,eObj |-> (0 :> 1 @@ 7 :> 2 @@ 9 :> 3),nextE |-> 10]),
    ([res |-> "ok",cacheV |-> FALSE,nodes |-> {0, 1, 3},cacheR |-> FALSE,nextN |-> 4,edges |-> (1 :> <<0, 3>> @@ 3 :> <<1, 3>> @@ 5 :> <<0, 1>> @@ 6 :> <<1, 0>> @@ 7 :> <<3, 1>>),acyclic |-> FALSE,l |-> 68,eObj |-> (7 :> 2),nextE |-> 10]),
    ([res |-> "F",cacheV |-> FALSE,nodes |-> {0, 1, 3},cacheR |-> FALSE,nextN |-> 4,edges |-> (1 :> <<0, 3>> @@ 3 :> <<1, 3>> @@ 5 :> <<0, 1>> @@ 6 :> <<1, 0>> @@ 7 :> <<3, 1>>),acyclic |-> FALSE,l |-> 69,eObj |-> (7 :> 2),nextE |-> 10]),
    ([res |-> "RT",cacheV |-> FALSE,nodes |-> {0, 1, 3},cacheR |-> FALSE,nextN |-> 4,edges |-> (1 :> <<0, 3>> @@ 3 :> <<1, 3>> @@ 5 :> <<0, 1>> @@ 6 :> <<1, 0>> @@ 7 :> <<3, 1>>),acyclic |-> FALSE,l |-> 70,eObj |-> (7 :> 2),nextE |-> 10]),
    ([res |-> "ok",cacheV |-> FALSE,nodes |-> {},cacheR |-> FALSE,nextN |-> 0,edges |-> <<>>,acyclic |-> TRUE,l |-> 71,eObj |-> <<>>,nextE |-> 0]),
    ([res |-> "ok",cacheV |-> FALSE,nodes |-> {0},cacheR |-> FALSE,nextN |-> 1,edges |-> <<>>,acyclic |-> TRUE,l |-> 72,eObj |-> <<>>,nextE |-> 0]),
    ([res |-> "ok",cacheV |-> FALSE,nodes |-> {0, 1},cacheR |-> FALSE,nextN |-> 2,edges |-> <<>>,acyclic |-> TRUE,l |-> 73,eObj |-> <<>>,nextE |-> 0]),
    ([res |-> "ok",cacheV |-> FALSE,nodes |-> {0, 1, 2},cacheR |-> FALSE,nextN |-> 3,edges |-> <<>>,acyclic |-> TRUE,l |-> 74,eObj |-> <<>>,nextE |-> 0]),
    ([res |-> "ok",cacheV |-> FALSE,nodes |-> {0, 1, 2, 3},cacheR |-> FALSE,nextN |-> 4,edges |-> <<>>,acyclic |-> TRUE,l |-> 75,eObj |-> <<>>,nextE |-> 0]),
    ([res |-> "ok",cacheV |-> FALSE,nodes |-> {0, 1, 2, 3},cacheR |-> FALSE,nextN |-> 4,edges |-> (0 :> <<1, 3>>),acyclic |-> TRUE,l |-> 76,eObj |-> (0 :> 1),nextE |-> 1]),
    ([res |-> "ok",cacheV |-> FALSE,nodes |-> {0, 1, 2, 3},cacheR |-> FALSE,nextN |-> 4,edges |-> (0 :> <<1, 3>> @@ 1 :> <<2, 1>>),acyclic |-> TRUE,l |-> 77,eObj |-> (0 :> 1),nextE |-> 2]),
    ([res |-> "ok",cacheV |-> FALSE,nodes |-> {0, 1, 2, 3},cacheR |-> FALSE,nextN |-> 4,edges |-> (0 :> <<1, 3>> @@ 1 :> <<2, 1>> @@ 2 :> <<2, 0>>),acyclic |-> TRUE,l |-> 78,eObj |-> (0 :> 1),nextE |-> 3]),
    ([res |-> "ok",cacheV |-> FALSE,nodes |-> {0, 1, 2, 3},cacheR |-> FALSE,nextN |-> 4,edges |-> (0 :> <<1, 3>> @@ 1 :> <<2, 1>> @@ 2 :> <<2, 0>> @@ 3 :> <<3, 2>>),acyclic |-> FALSE,l |-> 79,eObj |-> (0 :> 1),nextE |-> 4]),
    ([res |-> "ok",cacheV |-> FALSE,nodes |-> {0, 1, 2, 3},cacheR |-> FALSE,nextN |-> 4,edges |-> (0 :> <<1, 3>> @@ 1 :> <<2, 1>> @@ 2 :> <<2, 0>> @@ 3 :> <<3, 2>> @@ 4 :> <<3, 1>>),acyclic |-> FALSE,l |-> 80,eObj |-> (0 :> 1),nextE |-> 5]),
    ([res |-> "ok",cacheV |-> FALSE,nodes |-> {0, 1, 2, 3},cacheR |-> FALSE,nextN |-> 4,edges |-> (0 :> <<1, 3>> @@ 1 :> <<2, 1>> @@ 2 :> <<2, 0>> @@ 3 :> <<3, 2>> @@ 4 :> <<3, 1>> @@ 5 :> <<2, 3>>),acyclic |-> FALSE,l |-> 81,eObj |-> (0 :> 1),nextE |-> 6]),
    ([res |-> "F",cacheV |-> FALSE,nodes |-> {0, 1, 2, 3},cacheR |-> FALSE,nextN |-> 4,edges |-> (0 :> <<1, 3>> @@ 1 :> <<2, 1>> @@ 2 :> <<2, 0>> @@ 3 :> <<3, 2>> @@ 4 :> <<3, 1>> @@ 5 :> <<2, 3>>),acyclic |-> FALSE,l |-> 82,eObj |-> (0 :> 1),nextE |-> 6]),
    ([res |-> "RT",cacheV |-> FALSE,nodes |-> {0, 1, 2, 3},cacheR |-> FALSE,nextN |-> 4,edges |-> (0 :> <<1, 3>> @@ 1 :> <<2, 1>> @@ 2 :> <<2, 0>> @@ 3 :> <<3, 2>> @@ 4 :> <<3, 1>> @@ 5 :> <<2, 3>>),acyclic |-> FALSE,l |-> 83,eObj |-> (0 :> 1),nextE |-> 6]),
    ([res |-> "ok",cacheV |-> FALSE,nodes |-> {0, 1, 2, 3},cacheR |-> FALSE,nextN |-> 4,edges |-> (0 :> <<1, 3>> @@ 1 :> <<2, 1>> @@ 2 :> <<2, 0>> @@ 3 :> <<3, 2>> @@ 4 :> <<3, 1>> @@ 5 :> <<2, 3>> @@ 6 :> <<1, 2>>),acyclic |-> FALSE,l |-> 84,eObj |-> (0 :> 1 @@ 6 :> 2),nextE |-> 7]),
    ([res |-> "F",cacheV |-> FALSE,nodes |-> {0, 1, 2, 3},cacheR |-> FALSE,nextN |-> 4,edges |-> (0 :> <<1, 3>> @@ 1 :> <<2, 1>> @@ 2 :> <<2, 0>> @@ 3 :> <<3, 2>> @@ 4 :> <<3, 1>> @@ 5 :> <<2, 3>> @@ 6 :> <<1, 2>>),acyclic |-> FALSE,l |-> 85,eObj |-> (0 :> 1 @@ 6 :> 2),nextE |-> 7]),
    ([res |-> "RT",cacheV |-> FALSE,nodes |-> {0, 1, 2, 3},cacheR |-> FALSE,nextN |-> 4,edges |-> (0 :> <<1, 3>> @@ 1 :> <<2, 1>> @@ 2 :> <<2, 0>> @@ 3 :> <<3, 2>> @@ 4 :> <<3, 1>> @@ 5 :> <<2, 3>> @@ 6 :> <<1, 2>>),acyclic |-> FALSE,l |-> 86,eObj |-> (0 :> 1 @@ 6 :> 2),nextE |-> 7]),
    ([res |-> "ok",cacheV |-> FALSE,nodes |-> {0, 1, 2, 3},cacheR |-> FALSE,nextN |-> 4,edges |-> (0 :> <<1, 3>> @@ 1 :> <<2, 1>> @@ 2 :> <<2, 0>> @@ 3 :> <<3, 2>> @@ 4 :> <<3, 1>> @@ 5 :> <<2, 3>> @@ 6 :> <<1, 2>>),acyclic |-> FALSE,l |-> 87,eObj |-> (0 :> 1 @@ 6 :> 2),nextE |-> 7]),
    ([res |-> "raise",cacheV |-> FALSE,nodes |-> {0, 1, 2, 3},cacheR |-> FALSE,nextN |-> 4,edges |-> (0 :> <<1, 3>> @@ 1 :> <<2, 1>> @@ 2 :> <<2, 0>> @@ 3 :> <<3, 2>> @@ 4 :> <<3, 1>> @@ 5 :> <<2, 3>> @@ 6 :> <<1, 2>>),acyclic |-> FALSE,l |-> 88,eObj |-> (0 :> 1 @@ 6 :> 2),nextE |-> 7]),
    ([res |-> "ok",cacheV |-> FALSE,nodes |-> {0, 1, 2, 3},cacheR |-> FALSE,nextN |-> 4,edges |-> (0 :> <<1, 3>> @@ 1 :> <<2, 1>> @@ 2 :> <<2, 0>> @@ 3 :> <<3, 2>> @@ 5 :> <<2, 3>> @@ 6 :> <<1, 2>>),acyclic |-> FALSE,l |-> 89,eObj |-> (0 :> 1 @@ 6 :> 2),nextE |-> 7]),
    ([res |-> "F",cacheV |-> FALSE,nodes |-> {0, 1, 2, 3},cacheR |-> FALSE,nextN |-> 4,edges |-> (0 :> <<1, 3>> @@ 1 :> <<2, 1>> @@ 2 :> <<2, 0>> @@ 3 :> <<3, 2>> @@ 5 :> <<2, 3>> @@ 6 :> <<1, 2>>),acyclic |-> FALSE,l |-> 90,eObj |-> (0 :> 1 @@ 6 :> 2),nextE |-> 7]),
    ([res |-> "RT",cacheV |-> FALSE,nodes |-> {0, 1, 2, 3},cacheR |-> FALSE,nextN |-> 4,edges |-> (0 :> <<1, 3>> @@ 1 :> <<2, 1>> @@ 2 :> <<2, 0>> @@ 3 :> <<3, 2>> @@ 5 :> <<2, 3>> @@ 6 :> <<1, 2>>),acyclic |-> FALSE,l |-> 91,eObj |-> (0 :> 1 @@ 6 :> 2),nextE |-> 7]),
    ([res |-> "ok",cacheV |-> FALSE,nodes |-> {},cacheR |-> FALSE,nextN |-> 0,edges |-> <<>>,acyclic |-> TRUE,l |-> 92,eObj |-> <<>>,nextE |-> 0]),
    ([res |-> "ok",cacheV |-> FALSE,nodes |-> {0},cacheR |-> FALSE,nextN |-> 1,edges |-> <<>>,acyclic |-> TRUE,l |-> 93,eObj |-> <<>>,nextE |-> 0]),
    ([res |-> "ok",cacheV |-> FALSE,nodes |-> {0, 1},cacheR |-> FALSE,nextN |-> 2,edges |-> <<>>,acyclic |-> TRUE,l |-> 94,eObj |-> <<>>,nextE |-> 0]),
    ([res |-> "ok",cacheV |-> FALSE,nodes |-> {0, 1, 2},cacheR |-> FALSE,nextN |-> 3,edges |-> <<>>,acyclic |-> TRUE,l |-> 95,eObj |-> <<>>,nextE |-> 0]),
    ([res |-> "ok",cacheV |-> FALSE,nodes |-> {0, 1, 2, 3},cacheR |-> FALSE,nextN |-> 4,edges |-> <<>>,acyclic |-> TRUE,l |-> 96,eObj |-> <<>>,nextE |-> 0]),
    ([res |-> "ok",cacheV |-> FALSE,nodes |-> {0, 1, 2, 3},cacheR |-> FALSE,nextN |-> 4,edges |-> (0 :> <<3, 1>>),acyclic |-> TRUE,l |-> 97,eObj |-> <<>>,nextE |-> 1]),
    ([res |-> "ok",cacheV |-> FALSE,nodes |-> {0, 1, 2, 3},cacheR |-> FALSE,nextN |-> 4,edges |-> (0 :> <<3, 1>> @@ 1 :> <<2, 3>>),acyclic |-> TRUE,l |-> 98,eObj |-> <<>>,nextE |-> 2]),
    ([res |-> "T",cacheV |-> TRUE,nodes |-> {0, 1, 2, 3},cacheR |-> FALSE,nextN |-> 4,edges |-> (0 :> <<3, 1>> @@ 1 :> <<2, 3>>),acyclic |-> TRUE,l |-> 99,eObj |-> <<>>,nextE |-> 2]),
    ([res |-> "RF",cacheV |-> TRUE,nodes |-> {0, 1, 2, 3},cacheR |-> FALSE,nextN |-> 4,edges |-> (0 :> <<3, 1>> @@ 1 :> <<2, 3>>),acyclic |-> TRUE,l |-> 100,eObj |-> <<>>,nextE |-> 2]),
    ([res |-> "ok",cacheV |-> FALSE,nodes |-> {0, 1, 2, 3},cacheR |-> FALSE,nextN |-> 4,edges |-> (0 :> <<3, 1>> @@ 1 :> <<2, 3>> @@ 2 :> <<2, 0>>),acyclic |-> TRUE,l |-> 101,eObj |-> <<>>,nextE |-> 3]),
    ([res |-> "ok",cacheV |-> FALSE,nodes |-> {0, 1, 2, 3},cacheR |-> FALSE,nextN |-> 4,edges |-> (0 :> <<3, 1>> @@ 1 :> <<2, 3>> @@ 2 :> <<2, 0>> @@ 3 :> <<1, 2>>),acyclic |-> FALSE,l |-> 102,eObj |-> <<>>,nextE |-> 4]),
    ([res |-> "ok",cacheV |-> FALSE,nodes |-> {0, 1, 2, 3},cacheR |-> FALSE,nextN |-> 4,edges |-> (0 :> <<3, 1>> @@ 1 :> <<2, 3>> @@ 2 :> <<2, 0>> @@ 3 :> <<1, 2>> @@ 4 :> <<0, 1>>),acyclic |-> FALSE,l |-> 103,eObj |-> (4 :> 1),nextE |-> 5]),
    ([res |-> "ok",cacheV |-> FALSE,nodes |-> {0, 1, 2, 3},cacheR |-> FALSE,nextN |-> 4,edges |-> (0 :> <<3, 1>> @@ 1 :> <<2, 3>> @@ 2 :> <<2, 0>> @@ 3 :> <<1, 2>> @@ 4 :> <<0, 1>> @@ 5 :> <<2, 1>>),acyclic |-> FALSE,l |-> 104,eObj |-> (4 :> 1 @@ 5 :> 2),nextE |-> 6]),
    ([res |-> "ok",cacheV |-> FALSE,nodes |-> {0, 1, 2, 3},cacheR |-> FALSE,nextN |-> 4,edges |-> (0 :> <<3, 1>> @@ 1 :> <<2, 3>> @@ 2 :> <<2, 0>> @@ 3 :> <<1, 2>> @@ 4 :> <<0, 1>> @@ 5 :> <<2, 1>> @@ 6 :> <<3, 2>>),acyclic |-> FALSE,l |-> 105,eObj |-> (4 :> 1 @@ 5 :> 2),nextE |-> 7]),
    ([res |-> "ok",cacheV |-> FALSE,nodes |-> {0, 1, 2, 3},cacheR |-> FALSE,nextN |-> 4,edges |-> (0 :> <<3, 1>> @@ 1 :> <<2, 3>> @@ 2 :> <<2, 0>> @@ 3 :> <<1, 2>> @@ 4 :> <<0, 1>> @@ 5 :> <<2, 1>> @@ 6 :> <<3, 2>> @@ 7 :> <<1, 3>>),acyclic |-> FALSE,l |-> 106,eObj |-> (4 :> 1 @@ 5 :> 2),nextE |-> 8]),
    ([res |-> "F",cacheV |-> FALSE,nodes |-> {0, 1, 2, 3},cacheR |-> FALSE,nextN |-> 4,edges |-> (0 :> <<3, 1>> @@ 1 :> <<2, 3>> @@ 2 :> <<2, 0>> @@ 3 :> <<1, 2>> @@ 4 :> <<0, 1>> @@ 5 :> <<2, 1>> @@ 6 :> <<3, 2>> @@ 7 :> <<1, 3>>),acyclic |-> FALSE,l |-> 107,eObj |-> (4 :> 1 @@ 5 :> 2),nextE |-> 8]),
    ([res |-> "RT",cacheV |-> FALSE,nodes |-> {0, 1, 2, 3},cacheR |-> FALSE,nextN |-> 4,edges |-> (0 :> <<3, 1>> @@ 1 :> <<2, 3>> @@ 2 :> <<2, 0>> @@ 3 :> <<1, 2>> @@ 4 :> <<0, 1>> @@ 5 :> <<2, 1>> @@ 6 :> <<3, 2>> @@ 7 :> <<1, 3>>),acyclic |-> FALSE,l |-> 108,eObj |-> (4 :> 1 @@ 5 :> 2),nextE |-> 8]),
    ([res |-> "ok",cacheV |-> FALSE,nodes |-> {0, 1, 2, 3},cacheR |-> FALSE,nextN |-> 4,edges |-> (0 :> <<3, 1>> @@ 1 :> <<2, 3>> @@ 2 :> <<2, 0>> @@ 3 :> <<1, 2>> @@ 4 :> <<0, 1>> @@ 5 :> <<2, 1>> @@ 6 :> <<3, 2>> @@ 7 :> <<1, 3>>),acyclic |-> FALSE,l |-> 109,eObj |-> (4 :> 1 @@ 5 :> 2),nextE |-> 8]),
    ([res |-> "raise",cacheV |-> FALSE,nodes |-> {0, 1, 2, 3},cacheR |-> FALSE,nextN |-> 4,edges |-> (0 :> <<3, 1>> @@ 1 :> <<2, 3>> @@ 2 :> <<2, 0>> @@ 3 :> <<1, 2>> @@ 4 :> <<0, 1>> @@ 5 :> <<2, 1>> @@ 6 :> <<3, 2>> @@ 7 :> <<1, 3>>),acyclic |-> FALSE,l |-> 110,eObj |-> (4 :> 1 @@ 5 :> 2),nextE |-> 8]),
    ([res |-> "ok",cacheV |-> FALSE,nodes |-> {0, 1, 2, 3},cacheR |-> FALSE,nextN |-> 4,edges |-> <<<<2, 3>>, <<2, 0>>, <<1, 2>>, <<0, 1>>, <<2, 1>>, <<3, 2>>, <<1, 3>>>>,acyclic |-> FALSE,l |-> 111,eObj |-> (4 :> 1 @@ 5 :> 2),nextE |-> 8]),
    ([res |-> "F",cacheV |-> FALSE,nodes |-> {0, 1, 2, 3},cacheR |-> FALSE,nextN |-> 4,edges |-> <<<<2, 3>>, <<2, 0>>, <<1, 2>>, <<0, 1>>, <<2, 1>>, <<3, 2>>, <<1, 3>>>>,acyclic |-> FALSE,l |-> 112,eObj |-> (4 :> 1 @@ 5 :> 2),nextE |-> 8]),
    ([res |-> "RT",cacheV |-> FALSE,nodes |-> {0, 1, 2, 3},cacheR |-> FALSE,nextN |-> 4,edges |-> <<<<2, 3>>, <<2, 0>>, <<1, 2>>, <<0, 1>>, <<2, 1>>, <<3, 2>>, <<1, 3>>>>,acyclic |-> FALSE,l |-> 113,eObj |-> (4 :> 1 @@ 5 :> 2),nextE |-> 8]),
    ([res |-> "ok",cacheV |-> FALSE,nodes |-> {},cacheR |-> FALSE,nextN |-> 0,edges |-> <<>>,acyclic |-> TRUE,l |-> 114,eObj |-> <<>>,nextE |-> 0]),
    ([res |-> "ok",cacheV |-> FALSE,nodes |-> {0},cacheR |-> FALSE,nextN |-> 1,edges |-> <<>>,acyclic |-> TRUE,l |-> 115,eObj |-> <<>>,nextE |-> 0]),
    ([res |-> "ok",cacheV |-> FALSE,nodes |-> {0, 1},cacheR |-> FALSE,nextN |-> 2,edges |-> <<>>,acyclic |-> TRUE,l |-> 116,eObj |-> <<>>,nextE |-> 0]),
    ([res |-> "ok",cacheV |-> FALSE,nodes |-> {0, 1, 2},cacheR |-> FALSE,nextN |-> 3,edges |-> <<>>,acyclic |-> TRUE,l |-> 117,eObj |-> <<>>,nextE |-> 0]),
    ([res |-> "ok",cacheV |-> FALSE,nodes |-> {0, 1, 2, 3},cacheR |-> FALSE,nextN |-> 4,edges |-> <<>>,acyclic |-> TRUE,l |-> 118,eObj |-> <<>>,nextE |-> 0]),
    ([res |-> "ok",cacheV |-> FALSE,nodes |-> {0, 1, 2, 3},cacheR |-> FALSE,nextN |-> 4,edges |-> (0 :> <<0, 2>>),acyclic |-> TRUE,l |-> 119,eObj |-> (0 :> 1),nextE |-> 1]),
    ([res |-> "ok",cacheV |-> FALSE,nodes |-> {0, 1, 2, 3},cacheR |-> FALSE,nextN |-> 4,edges |-> (0 :> <<0, 2>> @@ 1 :> <<2, 1>>),acyclic |-> TRUE,l |-> 120,eObj |-> (0 :> 1),nextE |-> 2]),
    ([res |-> "ok",cacheV |-> FALSE,nodes |-> {0, 1, 2, 3},cacheR |-> FALSE,nextN |-> 4,edges |-> (0 :> <<0, 2>> @@ 1 :> <<2, 1>> @@ 2 :> <<2, 3>>),acyclic |-> TRUE,l |-> 121,eObj |-> (0 :> 1),nextE |-> 3]),
    ([res |-> "ok",cacheV |-> FALSE,nodes |-> {0, 1, 2, 3},cacheR |-> FALSE,nextN |-> 4,edges |-> (0 :> <<0, 2>> @@ 1 :> <<2, 1>> @@ 2 :> <<2, 3>> @@ 3 :> <<1, 2>>),acyclic |-> FALSE,l |-> 122,eObj |-> (0 :> 1 @@ 3 :> 2),nextE |-> 4]),
    ([res |-> "ok",cacheV |-> FALSE,nodes |-> {0, 1, 2, 3},cacheR |-> FALSE,nextN |-> 4,edges |-> (0 :> <<0, 2>> @@ 1 :> <<2, 1>> @@ 2 :> <<2, 3>> @@ 3 :> <<1, 2>> @@ 4 :> <<1, 3>>),acyclic |-> FALSE,l |-> 123,eObj |-> (0 :> 1 @@ 3 :> 2),nextE |-> 5]),
    ([res |-> "ok",cacheV |-> FALSE,nodes |-> {0, 1, 2, 3},cacheR |-> FALSE,nextN |-> 4,edges |-> (0 :> <<0, 2>> @@ 1 :> <<2, 1>> @@ 2 :> <<2, 3>> @@ 3 :> <<1, 2>> @@ 4 :> <<1, 3>> @@ 5 :> <<2, 0>>),acyclic |-> FALSE,l |-> 124,eObj |-> (0 :> 1 @@ 3 :> 2),nextE |-> 6]),
    ([res |-> "ok",cacheV |-> FALSE,nodes |-> {0, 1, 2, 3},cacheR |-> FALSE,nextN |-> 4,edges |-> (0 :> <<0, 2>> @@ 1 :> <<2, 1>> @@ 2 :> <<2, 3>> @@ 3 :> <<1, 2>> @@ 4 :> <<1, 3>> @@ 5 :> <<2, 0>> @@ 6 :> <<3, 1>>),acyclic |-> FALSE,l |-> 125,eObj |-> (0 :> 1 @@ 3 :> 2),nextE |-> 7]),
    ([res |-> "F",cacheV |-> FALSE,nodes |-> {0, 1, 2, 3},cacheR |-> FALSE,nextN |-> 4,edges |-> (0 :> <<0, 2>> @@ 1 :> <<2, 1>> @@ 2 :> <<2, 3>> @@ 3 :> <<1, 2>> @@ 4 :> <<1, 3>> @@ 5 :> <<2, 0>> @@ 6 :> <<3, 1>>),acyclic |-> FALSE,l |-> 126,eObj |-> (0 :> 1 @@ 3 :> 2),nextE |-> 7]),
    ([res |-> "RT",cacheV |-> FALSE,nodes |-> {0, 1, 2, 3},cacheR |-> FALSE,nextN |-> 4,edges |-> (0 :> <<0, 2>> @@ 1 :> <<2, 1>> @@ 2 :> <<2, 3>> @@ 3 :> <<1, 2>> @@ 4 :> <<1, 3>> @@ 5 :> <<2, 0>> @@ 6 :> <<3, 1>>),acyclic |-> FALSE,l |-> 127,eObj |-> (0 :> 1 @@ 3 :> 2),nextE |-> 7]),
    ([res |-> "ok",cacheV |-> FALSE,nodes |-> {0, 1, 2, 3},cacheR |-> FALSE,nextN |-> 4,edges |-> (0 :> <<0, 2>> @@ 1 :> <<2, 1>> @@ 2 :> <<2, 3>> @@ 3 :> <<1, 2>> @@ 4 :> <<1, 3>> @@ 5 :> <<2, 0>> @@ 6 :> <<3, 1>> @@ 7 :> <<3, 2>>),acyclic |-> FALSE,l |-> 128,eObj |-> (0 :> 1 @@ 3 :> 2),nextE |-> 8]),
    ([res |-> "F",cacheV |-> FALSE,nodes |-> {0, 1, 2, 3},cacheR |-> FALSE,nextN |-> 4,edges |-> (0 :> <<0, 2>> @@ 1 :> <<2, 1>> @@ 2 :> <<2, 3>> @@ 3 :> <<1, 2>> @@ 4 :> <<1, 3>> @@ 5 :> <<2, 0>> @@ 6 :> <<3, 1>> @@ 7 :> <<3, 2>>),acyclic |-> FALSE,l |-> 129,eObj |-> (0 :> 1 @@ 3 :> 2),nextE |-> 8]),
    ([res |-> "RT",cacheV |-> FALSE,nodes |-> {0, 1, 2, 3},cacheR |-> FALSE,nextN |-> 4,edges |-> (0 :> <<0, 2>> @@ 1 :> <<2, 1>> @@ 2 :> <<2, 3>> @@ 3 :> <<1, 2>> @@ 4 :> <<1, 3>> @@ 5 :> <<2, 0>> @@ 6 :> <<3, 1>> @@ 7 :> <<3, 2>>),acyclic |-> FALSE,l |-> 130,eObj |-> (0 :> 1 @@ 3 :> 2),nextE |-> 8]),
    ([res |-> "ok",cacheV |-> FALSE,nodes |-> {0, 1, 2, 3},cacheR |-> FALSE,nextN |-> 4,edges |-> (0 :> <<0, 2>> @@ 1 :> <<2, 1>> @@ 2 :> <<2, 3>> @@ 3 :> <<1, 2>> @@ 4 :> <<1, 3>> @@ 5 :> <<2, 0>> @@ 6 :> <<3, 1>> @@ 7 :> <<3, 2>>),acyclic |-> FALSE,l |-> 131,eObj |-> (0 :> 1 @@ 3 :> 2),nextE |-> 8]),
    ([res |-> "raise",cacheV |-> FALSE,nodes |-> {0, 1, 2, 3},cacheR |-> FALSE,nextN |-> 4,edges |-> (0 :> <<0, 2>> @@ 1 :> <<2, 1>> @@ 2 :> <<2, 3>> @@ 3 :> <<1, 2>> @@ 4 :> <<1, 3>> @@ 5 :> <<2, 0>> @@ 6 :> <<3, 1>> @@ 7 :> <<3, 2>>),acyclic |-> FALSE,l |-> 132,eObj |-> (0 :> 1 @@ 3 :> 2),nextE |-> 8]),
    ([res |-> "ok",cacheV |-> FALSE,nodes |-> {0, 1, 2, 3},cacheR |-> FALSE,nextN |-> 4,edges |-> (0 :> <<0, 2>> @@ 1 :> <<2, 1>> @@ 2 :> <<2, 3>> @@ 3 :> <<1, 2>> @@ 4 :> <<1, 3>> @@ 5 :> <<2, 0>> @@ 6 :> <<3, 1>>),acyclic |-> FALSE,l |-> 133,eObj |-> (0 :> 1 @@ 3 :> 2),nextE |-> 8]),
    ([res |-> "F",cacheV |-> FALSE,nodes |-> {0, 1, 2, 3},cacheR |-> FALSE,nextN |-> 4,edges |-> (0 :> <<0, 2>> @@ 1 :> <<2, 1>> @@ 2 :> <<2, 3>> @@ 3 :> <<1, 2>> @@ 4 :> <<1, 3>> @@ 5 :> <<2, 0>> @@ 6 :> <<3, 1>>),acyclic |-> FALSE,l |-> 134,eObj |-> (0 :> 1 @@ 3 :> 2),nextE |-> 8]),
    ([res |-> "RT",cacheV |-> FALSE,nodes |-> {0, 1, 2, 3},cacheR |-> FALSE,nextN |-> 4,edges |-> (0 :> <<0, 2>> @@ 1 :> <<2, 1>> @@ 2 :> <<2, 3>> @@ 3 :> <<1, 2>> @@ 4 :> <<1, 3>> @@ 5 :> <<2, 0>> @@ 6 :> <<3, 1>>),acyclic |-> FALSE,l |-> 135,eObj |-> (0 :> 1 @@ 3 :> 2),nextE |-> 8]),
    ([res |-> "ok",cacheV |-> FALSE,nodes |-> {},cacheR |-> FALSE,nextN |-> 0,edges |-> <<>>,acyclic |-> TRUE,l |-> 136,eObj |-> <<>>,nextE |-> 0]),
    ([res |-> "ok",cacheV |-> FALSE,nodes |-> {0},cacheR |-> FALSE,nextN |-> 1,edges |-> <<>>,acyclic |-> TRUE,l |-> 137,eObj |-> <<>>,nextE |-> 0]),
    ([res |-> "ok",cacheV |-> FALSE,nodes |-> {0, 1},cacheR |-> FALSE,nextN |-> 2,edges |-> <<>>,acyclic |-> TRUE,l |-> 138,eObj |-> <<>>,nextE |-> 0]),
    ([res |-> "ok",cacheV |-> FALSE,nodes |-> {0, 1, 2},cacheR |-> FALSE,nextN |-> 3,edges |-> <<>>,acyclic |-> TRUE,l |-> 139,eObj |-> <<>>,nextE |-> 0]),
    ([res |-> "ok",cacheV |-> FALSE,nodes |-> {0, 1, 2, 3},cacheR |-> FALSE,nextN |-> 4,edges |-> <<>>,acyclic |-> TRUE,l |-> 140,eObj |-> <<>>,nextE |-> 0]),
    ([res |-> "ok",cacheV |-> FALSE,nodes |-> {0, 1, 2, 3},cacheR |-> FALSE,nextN |-> 4,edges |-> (0 :> <<0, 1>>),acyclic |-> TRUE,l |-> 141,eObj |-> <<>>,nextE |-> 1]),
    ([res |-> "ok",cacheV |-> FALSE,nodes |-> {0, 1, 2, 3},cacheR |-> FALSE,nextN |-> 4,edges |-> (0 :> <<0, 1>> @@ 1 :> <<2, 3>>),acyclic |-> TRUE,l |-> 142,eObj |-> <<>>,nextE |-> 2]),
    ([res |-> "ok",cacheV |-> FALSE,nodes |-> {0, 1, 2, 3},cacheR |-> FALSE,nextN |-> 4,edges |-> (0 :> <<0, 1>> @@ 1 :> <<2, 3>> @@ 2 :> <<0, 2>>),acyclic |-> TRUE,l |-> 143,eObj |-> (2 :> 1),nextE |-> 3]),
    ([res |-> "ok",cacheV |-> FALSE,nodes |-> {0, 1, 2, 3},cacheR |-> FALSE,nextN |-> 4,edges |-> (0 :> <<0, 1>> @@ 1 :> <<2, 3>> @@ 2 :> <<0, 2>> @@ 3 :> <<3, 1>>),acyclic |-> TRUE,l |-> 144,eObj |-> (2 :> 1 @@ 3 :> 2),nextE |-> 4]),
    ([res |-> "ok",cacheV |-> FALSE,nodes |-> {0, 1, 2, 3},cacheR |-> FALSE,nextN |-> 4,edges |-> (0 :> <<0, 1>> @@ 1 :> <<2, 3>> @@ 2 :> <<0, 2>> @@ 3 :> <<3, 1>> @@ 4 :> <<2, 1>>),acyclic |-> TRUE,l |-> 145,eObj |-> (2 :> 1 @@ 3 :> 2),nextE |-> 5]),
    ([res |-> "ok",cacheV |-> FALSE,nodes |-> {0, 1, 2, 3},cacheR |-> FALSE,nextN |-> 4,edges |-> (0 :> <<0, 1>> @@ 1 :> <<2, 3>> @@ 2 :> <<0, 2>> @@ 3 :> <<3, 1>> @@ 4 :> <<2, 1>> @@ 5 :> <<1, 3>>),acyclic |-> FALSE,l |-> 146,eObj |-> (2 :> 1 @@ 3 :> 2),nextE |-> 6]),
    ([res |-> "ok",cacheV |-> FALSE,nodes |-> {0, 1, 2, 3},cacheR |-> FALSE,nextN |-> 4,edges |-> (0 :> <<0, 1>> @@ 1 :> <<2, 3>> @@ 2 :> <<0, 2>> @@ 3 :> <<3, 1>> @@ 4 :> <<2, 1>> @@ 5 :> <<1, 3>> @@ 6 :> <<3, 2>>),acyclic |-> FALSE,l |-> 147,eObj |-> (2 :> 1 @@ 3 :> 2 @@ 6 :> 3),nextE |-> 7]),
    ([res |-> "F",cacheV |-> FALSE,nodes |-> {0, 1, 2, 3},cacheR |-> FALSE,nextN |-> 4,edges |-> (0 :> <<0, 1>> @@ 1 :> <<2, 3>> @@ 2 :> <<0, 2>> @@ 3 :> <<3, 1>> @@ 4 :> <<2, 1>> @@ 5 :> <<1, 3>> @@ 6 :> <<3, 2>>),acyclic |-> FALSE,l |-> 148,eObj |-> (2 :> 1 @@ 3 :> 2 @@ 6 :> 3),nextE |-> 7]),
    ([res |-> "RT",cacheV |-> FALSE,nodes |-> {0, 1, 2, 3},cacheR |-> TRUE,nextN |-> 4,edges |-> (0 :> <<0, 1>> @@ 1 :> <<2, 3>> @@ 2 :> <<0, 2>> @@ 3 :> <<3, 1>> @@ 4 :> <<2, 1>> @@ 5 :> <<1, 3>> @@ 6 :> <<3, 2>>),acyclic |-> FALSE,l |-> 149,eObj |-> (2 :> 1 @@ 3 :> 2 @@ 6 :> 3),nextE |-> 7]),
    ([res |-> "ok",cacheV |-> FALSE,nodes |-> {0, 1, 2, 3},cacheR |-> FALSE,nextN |-> 4,edges |-> (0 :> <<0, 1>> @@ 1 :> <<2, 3>> @@ 2 :> <<0, 2>> @@ 3 :> <<3, 1>> @@ 4 :> <<2, 1>> @@ 5 :> <<1, 3>> @@ 6 :> <<3, 2>> @@ 7 :> <<2, 0>>),acyclic |-> FALSE,l |-> 150,eObj |-> (2 :> 1 @@ 3 :> 2 @@ 6 :> 3 @@ 7 :> 4),nextE |-> 8]),
    ([res |-> "ok",cacheV |-> FALSE,nodes |-> {0, 1, 2, 3},cacheR |-> FALSE,nextN |-> 4,edges |-> (0 :> <<0, 1>> @@ 1 :> <<2, 3>> @@ 2 :> <<0, 2>> @@ 3 :> <<3, 1>> @@ 4 :> <<2, 1>> @@ 5 :> <<1, 3>> @@ 6 :> <<3, 2>> @@ 7 :> <<2, 0>> @@ 8 :> <<1, 2>>),acyclic |-> FALSE,l |-> 151,eObj |-> (2 :> 1 @@ 3 :> 2 @@ 6 :> 3 @@ 7 :> 4),nextE |-> 9]),
    ([res |-> "F",cacheV |-> FALSE,nodes |-> {0, 1, 2, 3},cacheR |-> FALSE,nextN |-> 4,edges |-> (0 :> <<0, 1>> @@ 1 :> <<2, 3>> @@ 2 :> <<0, 2>> @@ 3 :> <<3, 1>> @@ 4 :> <<2, 1>> @@ 5 :> <<1, 3>> @@ 6 :> <<3, 2>> @@ 7 :> <<2, 0>> @@ 8 :> <<1, 2>>),acyclic |-> FALSE,l |-> 152,eObj |-> (2 :> 1 @@ 3 :> 2 @@ 6 :> 3 @@ 7 :> 4),nextE |-> 9]),
    ([res |-> "RT",cacheV |-> FALSE,nodes |-> {0, 1, 2, 3},cacheR |-> FALSE,nextN |-> 4,edges |-> (0 :> <<0, 1>> @@ 1 :> <<2, 3>> @@ 2 :> <<0, 2>> @@ 3 :> <<3, 1>> @@ 4 :> <<2, 1>> @@ 5 :> <<1, 3>> @@ 6 :> <<3, 2>> @@ 7 :> <<2, 0>> @@ 8 :> <<1, 2>>),acyclic |-> FALSE,l |-> 153,eObj |-> (2 :> 1 @@ 3 :> 2 @@ 6 :> 3 @@ 7 :> 4),nextE |-> 9]),
    ([res |-> "ok",cacheV |-> FALSE,nodes |-> {0, 1, 2, 3},cacheR |-> FALSE,nextN |-> 4,edges |-> (0 :> <<0, 1>> @@ 1 :> <<2, 3>> @@ 2 :> <<0, 2>> @@ 3 :> <<3, 1>> @@ 4 :> <<2, 1>> @@ 5 :> <<1, 3>> @@ 6 :> <<3, 2>> @@ 7 :> <<2, 0>> @@ 8 :> <<1, 2>>),acyclic |-> FALSE,l |-> 154,eObj |-> (2 :> 1 @@ 3 :> 2 @@ 6 :> 3 @@ 7 :> 4),nextE |-> 9]),
    ([res |-> "raise",cacheV |-> FALSE,nodes |-> {0, 1, 2, 3},cacheR |-> FALSE,nextN |-> 4,edges |-> (0 :> <<0, 1>> @@ 1 :> <<2, 3>> @@ 2 :> <<0, 2>> @@ 3 :> <<3, 1>> @@ 4 :> <<2, 1>> @@ 5 :> <<1, 3>> @@ 6 :> <<3, 2>> @@ 7 :> <<2, 0>> @@ 8 :> <<1, 2>>),acyclic |-> FALSE,l |-> 155,eObj |-> (2 :> 1 @@ 3 :> 2 @@ 6 :> 3 @@ 7 :> 4),nextE |-> 9]),
    ([res |-> "ok",cacheV |-> FALSE,nodes |-> {0, 1, 2, 3, 4},cacheR |-> FALSE,nextN |-> 5,edges |-> (0 :> <<0, 1>> @@ 1 :> <<2, 3>> @@ 2 :> <<0, 2>> @@ 3 :> <<3, 1>> @@ 4 :> <<2, 1>> @@ 5 :> <<1, 3>> @@ 6 :> <<3, 2>> @@ 7 :> <<2, 0>> @@ 8 :> <<1, 2>>),acyclic |-> FALSE,l |-> 156,eObj |-> (2 :> 1 @@ 3 :> 2 @@ 6 :> 3 @@ 7 :> 4),nextE |-> 9]),
    ([res |-> "F",cacheV |-> FALSE,nodes |-> {0, 1, 2, 3, 4},cacheR |-> FALSE,nextN |-> 5,edges |-> (0 :> <<0, 1>> @@ 1 :> <<2, 3>> @@ 2 :> <<0, 2>> @@ 3 :> <<3, 1>> @@ 4 :> <<2, 1>> @@ 5 :> <<1, 3>> @@ 6 :> <<3, 2>> @@ 7 :> <<2, 0>> @@ 8 :> <<1, 2>>),acyclic |-> FALSE,l |-> 157,eObj |-> (2 :> 1 @@ 3 :> 2 @@ 6 :> 3 @@ 7 :> 4),nextE |-> 9]),
    ([res |-> "RT",cacheV |-> FALSE,nodes |-> {0, 1, 2, 3, 4},cacheR |-> TRUE,nextN |-> 5,edges |-> (0 :> <<0, 1>> @@ 1 :> <<2, 3>> @@ 2 :> <<0, 2>> @@ 3 :> <<3, 1>> @@ 4 :> <<2, 1>> @@ 5 :> <<1, 3>> @@ 6 :> <<3, 2>> @@ 7 :> <<2, 0>> @@ 8 :> <<1, 2>>),acyclic |-> FALSE,l |-> 158,eObj |-> (2 :> 1 @@ 3 :> 2 @@ 6 :> 3 @@ 7 :> 4),nextE |-> 9]),
    ([res |-> "ok",cacheV |-> FALSE,nodes |-> {},cacheR |-> FALSE,nextN |-> 0,edges |-> <<>>,acyclic |-> TRUE,l |-> 159,eObj |-> <<>>,nextE |-> 0]),
    ([res |-> "ok",cacheV |-> FALSE,nodes |-> {0},cacheR |-> FALSE,nextN |-> 1,edges |-> <<>>,acyclic |-> TRUE,l |-> 160,eObj |-> <<>>,nextE |-> 0]),
    ([res |-> "ok",cacheV |-> FALSE,nodes |-> {0, 1},cacheR |-> FALSE,nextN |-> 2,edges |-> <<>>,acyclic |-> TRUE,l |-> 161,eObj |-> <<>>,nextE |-> 0]),
    ([res |-> "ok",cacheV |-> FALSE,nodes |-> {0, 1, 2},cacheR |-> FALSE,nextN |-> 3,edges |-> <<>>,acyclic |-> TRUE,l |-> 162,eObj |-> <<>>,nextE |-> 0]),
    ([res |-> "ok",cacheV |-> FALSE,nodes |-> {0, 1, 2, 3},cacheR |-> FALSE,nextN |-> 4,edges |-> <<>>,acyclic |-> TRUE,l |-> 163,eObj |-> <<>>,nextE |-> 0]),
    ([res |-> "ok",cacheV |-> FALSE,nodes |-> {0, 1, 2, 3},cacheR |-> FALSE,nextN |-> 4,edges |-> (0 :> <<2, 1>>),acyclic |-> TRUE,l |-> 164,eObj |-> <<>>,nextE |-> 1]),
    ([res |-> "ok",cacheV |-> FALSE,nodes |-> {0, 1, 2, 3},cacheR |-> FALSE,nextN |-> 4,edges |-> (0 :> <<2, 1>> @@ 1 :> <<2, 3>>),acyclic |-> TRUE,l |-> 165,eObj |-> <<>>,nextE |-> 2]),
    ([res |-> "ok",cacheV |-> FALSE,nodes |-> {0, 1, 2, 3},cacheR |-> FALSE,nextN |-> 4,edges |-> (0 :> <<2, 1>> @@ 1 :> <<2, 3>> @@ 2 :> <<3, 1>>),acyclic |-> TRUE,l |-> 166,eObj |-> (2 :> 1),nextE |-> 3]),
    ([res |-> "ok",cacheV |-> FALSE,nodes |-> {0, 1, 2, 3},cacheR |-> FALSE,nextN |-> 4,edges |-> (0 :> <<2, 1>> @@ 1 :> <<2, 3>> @@ 2 :> <<3, 1>> @@ 3 :> <<1, 2>>),acyclic |-> FALSE,l |-> 167,eObj |-> (2 :> 1 @@ 3 :> 2),nextE |-> 4]),
    ([res |-> "ok",cacheV |-> FALSE,nodes |-> {0, 1, 2, 3},cacheR |-> FALSE,nextN |-> 4,edges |-> (0 :> <<2, 1>> @@ 1 :> <<2, 3>> @@ 2 :> <<3, 1>> @@ 3 :> <<1, 2>> @@ 4 :> <<2, 0>>),acyclic |-> FALSE,l |-> 168,eObj |-> (2 :> 1 @@ 3 :> 2),nextE |-> 5]),
    ([res |-> "ok",cacheV |-> FALSE,nodes |-> {0, 1, 2, 3},cacheR |-> FALSE,nextN |-> 4,edges |-> (0 :> <<2, 1>> @@ 1 :> <<2, 3>> @@ 2 :> <<3, 1>> @@ 3 :> <<1, 2>> @@ 4 :> <<2, 0>> @@ 5 :> <<1, 3>>),acyclic |-> FALSE,l |-> 169,eObj |-> (2 :> 1 @@ 3 :> 2),nextE |-> 6]),
    ([res |-> "F",cacheV |-> FALSE,nodes |-> {0, 1, 2, 3},cacheR |-> FALSE,nextN |-> 4,edges |-> (0 :> <<2, 1>> @@ 1 :> <<2, 3>> @@ 2 :> <<3, 1>> @@ 3 :> <<1, 2>> @@ 4 :> <<2, 0>> @@ 5 :> <<1, 3>>),acyclic |-> FALSE,l |-> 170,eObj |-> (2 :> 1 @@ 3 :> 2),nextE |-> 6]),
    ([res |-> "RT",cacheV |-> FALSE,nodes |-> {0, 1, 2, 3},cacheR |-> FALSE,nextN |-> 4,edges |-> (0 :> <<2, 1>> @@ 1 :> <<2, 3>> @@ 2 :> <<3, 1>> @@ 3 :> <<1, 2>> @@ 4 :> <<2, 0>> @@ 5 :> <<1, 3>>),acyclic |-> FALSE,l |-> 171,eObj |-> (2 :> 1 @@ 3 :> 2),nextE |-> 6]),
    ([res |-> "ok",cacheV |-> FALSE,nodes |-> {0, 1, 2, 3},cacheR |-> FALSE,nextN |-> 4,edges |-> (0 :> <<2, 1>> @@ 1 :> <<2, 3>> @@ 2 :> <<3, 1>> @@ 3 :> <<1, 2>> @@ 4 :> <<2, 0>> @@ 5 :> <<1, 3>> @@ 6 :> <<3, 2>>),acyclic |-> FALSE,l |-> 172,eObj |-> (2 :> 1 @@ 3 :> 2),nextE |-> 7]),
    ([res |-> "ok",cacheV |-> FALSE,nodes |-> {0, 1, 2, 3},cacheR |-> FALSE,nextN |-> 4,edges |-> (0 :> <<2, 1>> @@ 1 :> <<2, 3>> @@ 2 :> <<3, 1>> @@ 3 :> <<1, 2>> @@ 4 :> <<2, 0>> @@ 5 :> <<1, 3>> @@ 6 :> <<3, 2>> @@ 7 :> <<0, 3>>),acyclic |-> FALSE,l |-> 173,eObj |-> (2 :> 1 @@ 3 :> 2),nextE |-> 8]),
    ([res |-> "F",cacheV |-> FALSE,nodes |-> {0, 1, 2, 3},cacheR |-> FALSE,nextN |-> 4,edges |-> (0 :> <<2, 1>> @@ 1 :> <<2, 3>> @@ 2 :> <<3, 1>> @@ 3 :> <<1, 2>> @@ 4 :> <<2, 0>> @@ 5 :> <<1, 3>> @@ 6 :> <<3, 2>> @@ 7 :> <<0, 3>>),acyclic |-> FALSE,l |-> 174,eObj |-> (2 :> 1 @@ 3 :> 2),nextE |-> 8]),
    ([res |-> "RT",cacheV |-> FALSE,nodes |-> {0, 1, 2, 3},cacheR |-> FALSE,nextN |-> 4,edges |-> (0 :> <<2, 1>> @@ 1 :> <<2, 3>> @@ 2 :> <<3, 1>> @@ 3 :> <<1, 2>> @@ 4 :> <<2, 0>> @@ 5 :> <<1, 3>> @@ 6 :> <<3, 2>> @@ 7 :> <<0, 3>>),acyclic |-> FALSE,l |-> 175,eObj |-> (2 :> 1 @@ 3 :> 2),nextE |-> 8]),
    ([res |-> "ok",cacheV |-> FALSE,nodes |-> {0, 1, 2, 3},cacheR |-> FALSE,nextN |-> 4,edges |-> (0 :> <<2, 1>> @@ 1 :> <<2, 3>> @@ 2 :> <<3, 1>> @@ 3 :> <<1, 2>> @@ 4 :> <<2, 0>> @@ 5 :> <<1, 3>> @@ 6 :> <<3, 2>> @@ 7 :> <<0, 3>>),acyclic |-> FALSE,l |-> 176,eObj |-> (2 :> 1 @@ 3 :> 2),nextE |-> 8]),
    ([res |-> "raise",cacheV |-> FALSE,nodes |-> {0, 1, 2, 3},cacheR |-> FALSE,nextN |-> 4,edges |-> (0 :> <<2, 1>> @@ 1 :> <<2, 3>> @@ 2 :> <<3, 1>> @@ 3 :> <<1, 2>> @@ 4 :> <<2, 0>> @@ 5 :> <<1, 3>> @@ 6 :> <<3, 2>> @@ 7 :> <<0, 3>>),acyclic |-> FALSE,l |-> 177,eObj |-> (2 :> 1 @@ 3 :> 2),nextE |-> 8]),
    ([res |-> "ok",cacheV |-> FALSE,nodes |-> {0, 1, 2, 3},cacheR |-> FALSE,nextN |-> 4,edges |-> (0 :> <<2, 1>> @@ 1 :> <<2, 3>> @@ 3 :> <<1, 2>> @@ 4 :> <<2, 0>> @@ 5 :> <<1, 3>> @@ 6 :> <<3, 2>> @@ 7 :> <<0, 3>>),acyclic |-> FALSE,l |-> 178,eObj |-> (3 :> 2),nextE |-> 8]),
    ([res |-> "F",cacheV |-> FALSE,nodes |-> {0, 1, 2, 3},cacheR |-> FALSE,nextN |-> 4,edges |-> (0 :> <<2, 1>> @@ 1 :> <<2, 3>> @@ 3 :> <<1, 2>> @@ 4 :> <<2, 0>> @@ 5 :> <<1, 3>> @@ 6 :> <<3, 2>> @@ 7 :> <<0, 3>>),acyclic |-> FALSE,l |-> 179,eObj |-> (3 :> 2),nextE |-> 8]),
    ([res |-> "RT",cacheV |-> FALSE,nodes |-> {0, 1, 2, 3},cacheR |-> FALSE,nextN |-> 4,edges |-> (0 :> <<2, 1>> @@ 1 :> <<2, 3>> @@ 3 :> <<1, 2>> @@ 4 :> <<2, 0>> @@ 5 :> <<1, 3>> @@ 6 :> <<3, 2>> @@ 7 :> <<0, 3>>),acyclic |-> FALSE,l |-> 180,eObj |-> (3 :> 2),nextE |-> 8]),
    ([res |-> "ok",cacheV |-> FALSE,nodes |-> {},cacheR |-> FALSE,nextN |-> 0,edges |-> <<>>,acyclic |-> TRUE,l |-> 181,eObj |-> <<>>,nextE |-> 0]),
    ([res |-> "ok",cacheV |-> FALSE,nodes |-> {0},cacheR |-> FALSE,nextN |-> 1,edges |-> <<>>,acyclic |-> TRUE,l |-> 182,eObj |-> <<>>,nextE |-> 0]),
    ([res |-> "ok",cacheV |-> FALSE,nodes |-> {0, 1},cacheR |-> FALSE,nextN |-> 2,edges |-> <<>>,acyclic |-> TRUE,l |-> 183,eObj |-> <<>>,nextE |-> 0]),
    ([res |-> "ok",cacheV |-> FALSE,nodes |-> {0, 1, 2},cacheR |-> FALSE,nextN |-> 3,edges |-> <<>>,acyclic |-> TRUE,l |-> 184,eObj |-> <<>>,nextE |-> 0]),
    ([res |-> "ok",cacheV |-> FALSE,nodes |-> {0, 1, 2, 3},cacheR |-> FALSE,nextN |-> 4,edges |-> <<>>,acyclic |-> TRUE,l |-> 185,eObj |-> <<>>,nextE |-> 0]),
    ([res |-> "ok",cacheV |-> FALSE,nodes |-> {0, 1, 2, 3},cacheR |-> FALSE,nextN |-> 4,edges |-> (0 :> <<0, 3>>),acyclic |-> TRUE,l |-> 186,eObj |-> (0 :> 1),nextE |-> 1]),
    ([res |-> "ok",cacheV |-> FALSE,nodes |-> {0, 1, 2, 3},cacheR |-> FALSE,nextN |-> 4,edges |-> (0 :> <<0, 3>> @@ 1 :> <<1, 2>>),acyclic |-> TRUE,l |-> 187,eObj |-> (0 :> 1 @@ 1 :> 2),nextE |-> 2]),
    ([res |-> "ok",cacheV |-> FALSE,nodes |-> {0, 1, 2, 3},cacheR |-> FALSE,nextN |-> 4,edges |-> (0 :> <<0, 3>> @@ 1 :> <<1, 2>> @@ 2 :> <<2, 1>>),acyclic |-> FALSE,l |-> 188,eObj |-> (0 :> 1 @@ 1 :> 2),nextE |-> 3]),
    ([res |-> "ok",cacheV |-> FALSE,nodes |-> {0, 1, 2, 3},cacheR |-> FALSE,nextN |-> 4,edges |-> (0 :> <<0, 3>> @@ 1 :> <<1, 2>> @@ 2 :> <<2, 1>> @@ 3 :> <<2, 3>>),acyclic |-> FALSE,l |-> 189,eObj |-> (0 :> 1 @@ 1 :> 2),nextE |-> 4]),
    ([res |-> "ok",cacheV |-> FALSE,nodes |-> {0, 1, 2, 3},cacheR |-> FALSE,nextN |-> 4,edges |-> (0 :> <<0, 3>> @@ 1 :> <<1, 2>> @@ 2 :> <<2, 1>> @@ 3 :> <<2, 3>> @@ 4 :> <<3, 1>>),acyclic |-> FALSE,l |-> 190,eObj |-> (0 :> 1 @@ 1 :> 2 @@ 4 :> 3),nextE |-> 5]),
    ([res |-> "ok",cacheV |-> FALSE,nodes |-> {0, 1, 2, 3},cacheR |-> FALSE,nextN |-> 4,edges |-> (0 :> <<0, 3>> @@ 1 :> <<1, 2>> @@ 2 :> <<2, 1>> @@ 3 :> <<2, 3>> @@ 4 :> <<3, 1>> @@ 5 :> <<3, 2>>),acyclic |-> FALSE,l |-> 191,eObj |-> (0 :> 1 @@ 1 :> 2 @@ 4 :> 3),nextE |-> 6]),
    ([res |-> "F",cacheV |-> FALSE,nodes |-> {0, 1, 2, 3},cacheR |-> FALSE,nextN |-> 4,edges |-> (0 :> <<0, 3>> @@ 1 :> <<1, 2>> @@ 2 :> <<2, 1>> @@ 3 :> <<2, 3>> @@ 4 :> <<3, 1>> @@ 5 :> <<3, 2>>),acyclic |-> FALSE,l |-> 192,eObj |-> (0 :> 1 @@ 1 :> 2 @@ 4 :> 3),nextE |-> 6]),
    ([res |-> "ok",cacheV |-> FALSE,nodes |-> {0, 1, 2, 3},cacheR |-> FALSE,nextN |-> 4,edges |-> (0 :> <<0, 3>> @@ 1 :> <<1, 2>> @@ 2 :> <<2, 1>> @@ 3 :> <<2, 3>> @@ 4 :> <<3, 1>> @@ 5 :> <<3, 2>> @@ 6 :> <<0, 1>>),acyclic |-> FALSE,l |-> 193,eObj |-> (0 :> 1 @@ 1 :> 2 @@ 4 :> 3 @@ 6 :> 4),nextE |-> 7]),
    ([res |-> "ok",cacheV |-> FALSE,nodes |-> {0, 1, 2, 3},cacheR |-> FALSE,nextN |-> 4,edges |-> (0 :> <<0, 3>> @@ 1 :> <<1, 2>> @@ 2 :> <<2, 1>> @@ 3 :> <<2, 3>> @@ 4 :> <<3, 1>> @@ 5 :> <<3, 2>> @@ 6 :> <<0, 1>> @@ 7 :> <<2, 0>>),acyclic |-> FALSE,l |-> 194,eObj |-> (0 :> 1 @@ 1 :> 2 @@ 4 :> 3 @@ 6 :> 4 @@ 7 :> 5),nextE |-> 8]),
    ([res |-> "ok",cacheV |-> FALSE,nodes |-> {0, 1, 2, 3},cacheR |-> FALSE,nextN |-> 4,edges |-> (0 :> <<0, 3>> @@ 1 :> <<1, 2>> @@ 2 :> <<2, 1>> @@ 3 :> <<2, 3>> @@ 4 :> <<3, 1>> @@ 5 :> <<3, 2>> @@ 6 :> <<0, 1>> @@ 7 :> <<2, 0>> @@ 8 :> <<1, 3>>),acyclic |-> FALSE,l |-> 195,eObj |-> (0 :> 1 @@ 1 :> 2 @@ 4 :> 3 @@ 6 :> 4 @@ 7 :> 5),nextE |-> 9]),
    ([res |-> "F",cacheV |-> FALSE,nodes |-> {0, 1, 2, 3},cacheR |-> FALSE,nextN |-> 4,edges |-> (0 :> <<0, 3>> @@ 1 :> <<1, 2>> @@ 2 :> <<2, 1>> @@ 3 :> <<2, 3>> @@ 4 :> <<3, 1>> @@ 5 :> <<3, 2>> @@ 6 :> <<0, 1>> @@ 7 :> <<2, 0>> @@ 8 :> <<1, 3>>),acyclic |-> FALSE,l |-> 196,eObj |-> (0 :> 1 @@ 1 :> 2 @@ 4 :> 3 @@ 6 :> 4 @@ 7 :> 5),nextE |-> 9]),
    ([res |-> "RT",cacheV |-> FALSE,nodes |-> {0, 1, 2, 3},cacheR |-> FALSE,nextN |-> 4,edges |-> (0 :> <<0, 3>> @@ 1 :> <<1, 2>> @@ 2 :> <<2, 1>> @@ 3 :> <<2, 3>> @@ 4 :> <<3, 1>> @@ 5 :> <<3, 2>> @@ 6 :> <<0, 1>> @@ 7 :> <<2, 0>> @@ 8 :> <<1, 3>>),acyclic |-> FALSE,l |-> 197,eObj |-> (0 :> 1 @@ 1 :> 2 @@ 4 :> 3 @@ 6 :> 4 @@ 7 :> 5),nextE |-> 9]),
    ([res |-> "ok",cacheV |-> FALSE,nodes |-> {0, 1, 2, 3},cacheR |-> FALSE,nextN |-> 4,edges |-> (0 :> <<0, 3>> @@ 1 :> <<1, 2>> @@ 2 :> <<2, 1>> @@ 3 :> <<2, 3>> @@ 4 :> <<3, 1>> @@ 5 :> <<3, 2>> @@ 6 :> <<0, 1>> @@ 7 :> <<2, 0>> @@ 8 :> <<1, 3>>),acyclic |-> FALSE,l |-> 198,eObj |-> (0 :> 1 @@ 1 :> 2 @@ 4 :> 3 @@ 6 :> 4 @@ 7 :> 5),nextE |-> 9]),
    ([res |-> "raise",cacheV |-> FALSE,nodes |-> {0, 1, 2, 3},cacheR |-> FALSE,nextN |-> 4,edges |-> (0 :> <<0, 3>> @@ 1 :> <<1, 2>> @@ 2 :> <<2, 1>> @@ 3 :> <<2, 3>> @@ 4 :> <<3, 1>> @@ 5 :> <<3, 2>> @@ 6 :> <<0, 1>> @@ 7 :> <<2, 0>> @@ 8 :> <<1, 3>>),acyclic |-> FALSE,l |-> 199,eObj |-> (0 :> 1 @@ 1 :> 2 @@ 4 :> 3 @@ 6 :> 4 @@ 7 :> 5),nextE |-> 9]),
    ([res |-> "ok",cacheV |-> FALSE,nodes |-> {0, 1, 2, 3},cacheR |-> FALSE,nextN |-> 4,edges |-> (0 :> <<0, 3>> @@ 1 :> <<1, 2>> @@ 2 :> <<2, 1>> @@ 3 :> <<2, 3>> @@ 4 :> <<3, 1>> @@ 5 :> <<3, 2>> @@ 6 :> <<0, 1>> @@ 7 :> <<2, 0>>),acyclic |-> FALSE,l |-> 200,eObj |-> (0 :> 1 @@ 1 :> 2 @@ 4 :> 3 @@ 6 :> 4 @@ 7 :> 5),nextE |-> 9]),
    ([res |-> "F",cacheV |-> FALSE,nodes |-> {0, 1, 2, 3},cacheR |-> FALSE,nextN |-> 4,edges |-> (0 :> <<0, 3>> @@ 1 :> <<1, 2>> @@ 2 :> <<2, 1>> @@ 3 :> <<2, 3>> @@ 4 :> <<3, 1>> @@ 5 :> <<3, 2>> @@ 6 :> <<0, 1>> @@ 7 :> <<2, 0>>),acyclic |-> FALSE,l |-> 201,eObj |-> (0 :> 1 @@ 1 :> 2 @@ 4 :> 3 @@ 6 :> 4 @@ 7 :> 5),nextE |-> 9]),
    ([res |-> "RT",cacheV |-> FALSE,nodes |-> {0, 1, 2, 3},cacheR |-> FALSE,nextN |-> 4,edges |-> (0 :> <<0, 3>> @@ 1 :> <<1, 2>> @@ 2 :> <<2, 1>> @@ 3 :> <<2, 3>> @@ 4 :> <<3, 1>> @@ 5 :> <<3, 2>> @@ 6 :> <<0, 1>> @@ 7 :> <<2, 0>>),acyclic |-> FALSE,l |-> 202,eObj |-> (0 :> 1 @@ 1 :> 2 @@ 4 :> 3 @@ 6 :> 4 @@ 7 :> 5),nextE |-> 9]),
    ([res |-> "ok",cacheV |-> FALSE,nodes |-> {},cacheR |-> FALSE,nextN |-> 0,edges |-> <<>>,acyclic |-> TRUE,l |-> 203,eObj |-> <<>>,nextE |-> 0]),
    ([res |-> "ok",cacheV |-> FALSE,nodes |-> {0},cacheR |-> FALSE,nextN |-> 1,edges |-> <<>>,acyclic |-> TRUE,l |-> 204,eObj |-> <<>>,nextE |-> 0]),
    ([res |-> "ok",cacheV |-> FALSE,nodes |-> {0, 1},cacheR |-> FALSE,nextN |-> 2,edges |-> <<>>,acyclic |-> TRUE,l |-> 205,eObj |-> <<>>,nextE |-> 0]),
    ([res |-> "ok",cacheV |-> FALSE,nodes |-> {0, 1, 2},cacheR |-> FALSE,nextN |-> 3,edges |-> <<>>,acyclic |-> TRUE,l |-> 206,eObj |-> <<>>,nextE |-> 0]),
    ([res |-> "ok",cacheV |-> FALSE,nodes |-> {0, 1, 2, 3},cacheR |-> FALSE,nextN |-> 4,edges |-> <<>>,acyclic |-> TRUE,l |-> 207,eObj |-> <<>>,nextE |-> 0]),
    ([res |-> "ok",cacheV |-> FALSE,nodes |-> {0, 1, 2, 3},cacheR |-> FALSE,nextN |-> 4,edges |-> (0 :> <<0, 2>>),acyclic |-> TRUE,l |-> 208,eObj |-> (0 :> 1),nextE |-> 1]),
    ([res |-> "ok",cacheV |-> FALSE,nodes |-> {0, 1, 2, 3},cacheR |-> FALSE,nextN |-> 4,edges |-> (0 :> <<0, 2>> @@ 1 :> <<0, 3>>),acyclic |-> TRUE,l |-> 209,eObj |-> (0 :> 1 @@ 1 :> 2),nextE |-> 2]),
    ([res |-> "ok",cacheV |-> FALSE,nodes |-> {0, 1, 2, 3},cacheR |-> FALSE,nextN |-> 4,edges |-> (0 :> <<0, 2>> @@ 1 :> <<0, 3>> @@ 2 :> <<2, 3>>),acyclic |-> TRUE,l |-> 210,eObj |-> (0 :> 1 @@ 1 :> 2),nextE |-> 3]),
    ([res |-> "ok",cacheV |-> FALSE,nodes |-> {0, 1, 2, 3},cacheR |-> FALSE,nextN |-> 4,edges |-> (0 :> <<0, 2>> @@ 1 :> <<0, 3>> @@ 2 :> <<2, 3>> @@ 3 :> <<3, 2>>),acyclic |-> FALSE,l |-> 211,eObj |-> (0 :> 1 @@ 1 :> 2),nextE |-> 4]),
    ([res |-> "F",cacheV |-> FALSE,nodes |-> {0, 1, 2, 3},cacheR |-> FALSE,nextN |-> 4,edges |-> (0 :> <<0, 2>> @@ 1 :> <<0, 3>> @@ 2 :> <<2, 3>> @@ 3 :> <<3, 2>>),acyclic |-> FALSE,l |-> 212,eObj |-> (0 :> 1 @@ 1 :> 2),nextE |-> 4]),
    ([res |-> "ok",cacheV |-> FALSE,nodes |-> {0, 1, 2, 3},cacheR |-> FALSE,nextN |-> 4,edges |-> (0 :> <<0, 2>> @@ 1 :> <<0, 3>> @@ 2 :> <<2, 3>> @@ 3 :> <<3, 2>> @@ 4 :> <<3, 1>>),acyclic |-> FALSE,l |-> 213,eObj |-> (0 :> 1 @@ 1 :> 2),nextE |-> 5]),
    ([res |-> "ok",cacheV |-> FALSE,nodes |-> {0, 1, 2, 3},cacheR |-> FALSE,nextN |-> 4,edges |-> (0 :> <<0, 2>> @@ 1 :> <<0, 3>> @@ 2 :> <<2, 3>> @@ 3 :> <<3, 2>> @@ 4 :> <<3, 1>> @@ 5 :> <<2, 0>>),acyclic |-> FALSE,l |-> 214,eObj |-> (0 :> 1 @@ 1 :> 2),nextE |-> 6]),
    ([res |-> "ok",cacheV |-> FALSE,nodes |-> {0, 1, 2, 3},cacheR |-> FALSE,nextN |-> 4,edges |-> (0 :> <<0, 2>> @@ 1 :> <<0, 3>> @@ 2 :> <<2, 3>> @@ 3 :> <<3, 2>> @@ 4 :> <<3, 1>> @@ 5 :> <<2, 0>> @@ 6 :> <<1, 2>>),acyclic |-> FALSE,l |-> 215,eObj |-> (0 :> 1 @@ 1 :> 2),nextE |-> 7]),
    ([res |-> "ok",cacheV |-> FALSE,nodes |-> {0, 1, 2, 3},cacheR |-> FALSE,nextN |-> 4,edges |-> (0 :> <<0, 2>> @@ 1 :> <<0, 3>> @@ 2 :> <<2, 3>> @@ 3 :> <<3, 2>> @@ 4 :> <<3, 1>> @@ 5 :> <<2, 0>> @@ 6 :> <<1, 2>> @@ 7 :> <<1, 3>>),acyclic |-> FALSE,l |-> 216,eObj |-> (0 :> 1 @@ 1 :> 2),nextE |-> 8]),
    ([res |-> "ok",cacheV |-> FALSE,nodes |-> {0, 1, 2, 3},cacheR |-> FALSE,nextN |-> 4,edges |-> (0 :> <<0, 2>> @@ 1 :> <<0, 3>> @@ 2 :> <<2, 3>> @@ 3 :> <<3, 2>> @@ 4 :> <<3, 1>> @@ 5 :> <<2, 0>> @@ 6 :> <<1, 2>> @@ 7 :> <<1, 3>> @@ 8 :> <<2, 1>>),acyclic |-> FALSE,l |-> 217,eObj |-> (0 :> 1 @@ 1 :> 2),nextE |-> 9]),
    ([res |-> "F",cacheV |-> FALSE,nodes |-> {0, 1, 2, 3},cacheR |-> FALSE,nextN |-> 4,edges |-> (0 :> <<0, 2>> @@ 1 :> <<0, 3>> @@ 2 :> <<2, 3>> @@ 3 :> <<3, 2>> @@ 4 :> <<3, 1>> @@ 5 :> <<2, 0>> @@ 6 :> <<1, 2>> @@ 7 :> <<1, 3>> @@ 8 :> <<2, 1>>),acyclic |-> FALSE,l |-> 218,eObj |-> (0 :> 1 @@ 1 :> 2),nextE |-> 9]),
    ([res |-> "RT",cacheV |-> FALSE,nodes |-> {0, 1, 2, 3},cacheR |-> FALSE,nextN |-> 4,edges |-> (0 :> <<0, 2>> @@ 1 :> <<0, 3>> @@ 2 :> <<2, 3>> @@ 3 :> <<3, 2>> @@ 4 :> <<3, 1>> @@ 5 :> <<2, 0>> @@ 6 :> <<1, 2>> @@ 7 :> <<1, 3>> @@ 8 :> <<2, 1>>),acyclic |-> FALSE,l |-> 219,eObj |-> (0 :> 1 @@ 1 :> 2),nextE |-> 9]),
    ([res |-> "ok",cacheV |-> FALSE,nodes |-> {0, 1, 2, 3},cacheR |-> FALSE,nextN |-> 4,edges |-> (0 :> <<0, 2>> @@ 1 :> <<0, 3>> @@ 2 :> <<2, 3>> @@ 3 :> <<3, 2>> @@ 4 :> <<3, 1>> @@ 5 :> <<2, 0>> @@ 6 :> <<1, 2>> @@ 7 :> <<1, 3>> @@ 8 :> <<2, 1>>),acyclic |-> FALSE,l |-> 220,eObj |-> (0 :> 1 @@ 1 :> 2),nextE |-> 9]),
    ([res |-> "raise",cacheV |-> FALSE,nodes |-> {0, 1, 2, 3},cacheR |-> FALSE,nextN |-> 4,edges |-> (0 :> <<0, 2>> @@ 1 :> <<0, 3>> @@ 2 :> <<2, 3>> @@ 3 :> <<3, 2>> @@ 4 :> <<3, 1>> @@ 5 :> <<2, 0>> @@ 6 :> <<1, 2>> @@ 7 :> <<1, 3>> @@ 8 :> <<2, 1>>),acyclic |-> FALSE,l |-> 221,eObj |-> (0 :> 1 @@ 1 :> 2),nextE |-> 9]),
    ([res |-> "ok",cacheV |-> FALSE,nodes |-> {0, 1, 3},cacheR |-> FALSE,nextN |-> 4,edges |-> (1 :> <<0, 3>> @@ 4 :> <<3, 1>> @@ 7 :> <<1, 3>>),acyclic |-> FALSE,l |-> 222,eObj |-> <<2>>,nextE |-> 9]),
    ([res |-> "F",cacheV |-> FALSE,nodes |-> {0, 1, 3},cacheR |-> FALSE,nextN |-> 4,edges |-> (1 :> <<0, 3>> @@ 4 :> <<3, 1>> @@ 7 :> <<1, 3>>),acyclic |-> FALSE,l |-> 223,eObj |-> <<2>>,nextE |-> 9]),
    ([res |-> "RT",cacheV |-> FALSE,nodes |-> {0, 1, 3},cacheR |-> TRUE,nextN |-> 4,edges |-> (1 :> <<0, 3>> @@ 4 :> <<3, 1>> @@ 7 :> <<1, 3>>),acyclic |-> FALSE,l |-> 224,eObj |-> <<2>>,nextE |-> 9]),
    ([res |-> "ok",cacheV |-> FALSE,nodes |-> {},cacheR |-> FALSE,nextN |-> 0,edges |-> <<>>,acyclic |-> TRUE,l |-> 225,eObj |-> <<>>,nextE |-> 0]),
    ([res |-> "ok",cacheV |-> FALSE,nodes |-> {0},cacheR |-> FALSE,nextN |-> 1,edges |-> <<>>,acyclic |-> TRUE,l |-> 226,eObj |-> <<>>,nextE |-> 0]),
    ([res |-> "ok",cacheV |-> FALSE,nodes |-> {0, 1},cacheR |-> FALSE,nextN |-> 2,edges |-> <<>>,acyclic |-> TRUE,l |-> 227,eObj |-> <<>>,nextE |-> 0]),
    ([res |-> "ok",cacheV |-> FALSE,nodes |-> {0, 1, 2},cacheR |-> FALSE,nextN |-> 3,edges |-> <<>>,acyclic |-> TRUE,l |-> 228,eObj |-> <<>>,nextE |-> 0]),
    ([res |-> "ok",cacheV |-> FALSE,nodes |-> {0, 1, 2, 3},cacheR |-> FALSE,nextN |-> 4,edges |-> <<>>,acyclic |-> TRUE,l |-> 229,eObj |-> <<>>,nextE |-> 0]),
    ([res |-> "ok",cacheV |-> FALSE,nodes |-> {0, 1, 2, 3},cacheR |-> FALSE,nextN |-> 4,edges |-> (0 :> <<0, 1>>),acyclic |-> TRUE,l |-> 230,eObj |-> <<>>,nextE |-> 1]),
    ([res |-> "ok",cacheV |-> FALSE,nodes |-> {0, 1, 2, 3},cacheR |-> FALSE,nextN |-> 4,edges |-> (0 :> <<0, 1>> @@ 1 :> <<2, 3>>),acyclic |-> TRUE,l |-> 231,eObj |-> <<>>,nextE |-> 2]),
    ([res |-> "ok",cacheV |-> FALSE,nodes |-> {0, 1, 2, 3},cacheR |-> FALSE,nextN |-> 4,edges |-> (0 :> <<0, 1>> @@ 1 :> <<2, 3>> @@ 2 :> <<3, 2>>),acyclic |-> FALSE,l |-> 232,eObj |-> (2 :> 1),nextE |-> 3]),
    ([res |-> "F",cacheV |-> FALSE,nodes |-> {0, 1, 2, 3},cacheR |-> FALSE,nextN |-> 4,edges |-> (0 :> <<0, 1>> @@ 1 :> <<2, 3>> @@ 2 :> <<3, 2>>),acyclic |-> FALSE,l |-> 233,eObj |-> (2 :> 1),nextE |-> 3]),
    ([res |-> "RT",cacheV |-> FALSE,nodes |-> {0, 1, 2, 3},cacheR |-> TRUE,nextN |-> 4,edges |-> (0 :> <<0, 1>> @@ 1 :> <<2, 3>> @@ 2 :> <<3, 2>>),acyclic |-> FALSE,l |-> 234,eObj |-> (2 :> 1),nextE |-> 3]),
    ([res |-> "ok",cacheV |-> FALSE,nodes |-> {0, 1, 2, 3},cacheR |-> FALSE,nextN |-> 4,edges |-> (0 :> <<0, 1>> @@ 1 :> <<2, 3>> @@ 2 :> <<3, 2>> @@ 3 :> <<2, 0>>),acyclic |-> FALSE,l |-> 235,eObj |-> (2 :> 1 @@ 3 :> 2),nextE |-> 4]),
    ([res |-> "ok",cacheV |-> FALSE,nodes |-> {0, 1, 2, 3},cacheR |-> FALSE,nextN |-> 4,edges |-> (0 :> <<0, 1>> @@ 1 :> <<2, 3>> @@ 2 :> <<3, 2>> @@ 3 :> <<2, 0>> @@ 4 :> <<1, 3>>),acyclic |-> FALSE,l |-> 236,eObj |-> (2 :> 1 @@ 3 :> 2),nextE |-> 5]),
    ([res |-> "ok",cacheV |-> FALSE,nodes |-> {0, 1, 2, 3},cacheR |-> FALSE,nextN |-> 4,edges |-> (0 :> <<0, 1>> @@ 1 :> <<2, 3>> @@ 2 :> <<3, 2>> @@ 3 :> <<2, 0>> @@ 4 :> <<1, 3>> @@ 5 :> <<0, 2>>),acyclic |-> FALSE,l |-> 237,eObj |-> (2 :> 1 @@ 3 :> 2),nextE |-> 6]),
    ([res |-> "ok",cacheV |-> FALSE,nodes |-> {0, 1, 2, 3},cacheR |-> FALSE,nextN |-> 4,edges |-> (0 :> <<0, 1>> @@ 1 :> <<2, 3>> @@ 2 :> <<3, 2>> @@ 3 :> <<2, 0>> @@ 4 :> <<1, 3>> @@ 5 :> <<0, 2>> @@ 6 :> <<1, 2>>),acyclic |-> FALSE,l |-> 238,eObj |-> (2 :> 1 @@ 3 :> 2),nextE |-> 7]),
    ([res |-> "ok",cacheV |-> FALSE,nodes |-> {0, 1, 2, 3},cacheR |-> FALSE,nextN |-> 4,edges |-> (0 :> <<0, 1>> @@ 1 :> <<2, 3>> @@ 2 :> <<3, 2>> @@ 3 :> <<2, 0>> @@ 4 :> <<1, 3>> @@ 5 :> <<0, 2>> @@ 6 :> <<1, 2>> @@ 7 :> <<0, 3>>),acyclic |-> FALSE,l |-> 239,eObj |-> (2 :> 1 @@ 3 :> 2),nextE |-> 8]),
    ([res |-> "ok",cacheV |-> FALSE,nodes |-> {0, 1, 2, 3},cacheR |-> FALSE,nextN |-> 4,edges |-> (0 :> <<0, 1>> @@ 1 :> <<2, 3>> @@ 2 :> <<3, 2>> @@ 3 :> <<2, 0>> @@ 4 :> <<1, 3>> @@ 5 :> <<0, 2>> @@ 6 :> <<1, 2>> @@ 7 :> <<0, 3>> @@ 8 :> <<2, 1>>),acyclic |-> FALSE,l |-> 240,eObj |-> (2 :> 1 @@ 3 :> 2),nextE |-> 9]),
    ([res |-> "ok",cacheV |-> FALSE,nodes |-> {0, 1, 2, 3},cacheR |-> FALSE,nextN |-> 4,edges |-> (0 :> <<0, 1>> @@ 1 :> <<2, 3>> @@ 2 :> <<3, 2>> @@ 3 :> <<2, 0>> @@ 4 :> <<1, 3>> @@ 5 :> <<0, 2>> @@ 6 :> <<1, 2>> @@ 7 :> <<0, 3>> @@ 8 :> <<2, 1>> @@ 9 :> <<3, 1>>),acyclic |-> FALSE,l |-> 241,eObj |-> (2 :> 1 @@ 3 :> 2),nextE |-> 10]),
    ([res |-> "F",cacheV |-> FALSE,nodes |-> {0, 1, 2, 3},cacheR |-> FALSE,nextN |-> 4,edges |-> (0 :> <<0, 1>> @@ 1 :> <<2, 3>> @@ 2 :> <<3, 2>> @@ 3 :> <<2, 0>> @@ 4 :> <<1, 3>> @@ 5 :> <<0, 2>> @@ 6 :> <<1, 2>> @@ 7 :> <<0, 3>> @@ 8 :> <<2, 1>> @@ 9 :> <<3, 1>>),acyclic |-> FALSE,l |-> 242,eObj |-> (2 :> 1 @@ 3 :> 2),nextE |-> 10]),
    ([res |-> "RT",cacheV |-> FALSE,nodes |-> {0, 1, 2, 3},cacheR |-> FALSE,nextN |-> 4,edges |-> (0 :> <<0, 1>> @@ 1 :> <<2, 3>> @@ 2 :> <<3, 2>> @@ 3 :> <<2, 0>> @@ 4 :> <<1, 3>> @@ 5 :> <<0, 2>> @@ 6 :> <<1, 2>> @@ 7 :> <<0, 3>> @@ 8 :> <<2, 1>> @@ 9 :> <<3, 1>>),acyclic |-> FALSE,l |-> 243,eObj |-> (2 :> 1 @@ 3 :> 2),nextE |-> 10]),
    ([res |-> "ok",cacheV |-> FALSE,nodes |-> {0, 1, 2, 3},cacheR |-> FALSE,nextN |-> 4,edges |-> (0 :> <<0, 1>> @@ 1 :> <<2, 3>> @@ 2 :> <<3, 2>> @@ 3 :> <<2, 0>> @@ 4 :> <<1, 3>> @@ 5 :> <<0, 2>> @@ 6 :> <<1, 2>> @@ 7 :> <<0, 3>> @@ 8 :> <<2, 1>> @@ 9 :> <<3, 1>>),acyclic |-> FALSE,l |-> 244,eObj |-> (2 :> 1 @@ 3 :> 2),nextE |-> 10]),
    ([res |-> "raise",cacheV |-> FALSE,nodes |-> {0, 1, 2, 3},cacheR |-> FALSE,nextN |-> 4,edges |-> (0 :> <<0, 1>> @@ 1 :> <<2, 3>> @@ 2 :> <<3, 2>> @@ 3 :> <<2, 0>> @@ 4 :> <<1, 3>> @@ 5 :> <<0, 2>> @@ 6 :> <<1, 2>> @@ 7 :> <<0, 3>> @@ 8 :> <<2, 1>> @@ 9 :> <<3, 1>>),acyclic |-> FALSE,l |-> 245,eObj |-> (2 :> 1 @@ 3 :> 2),nextE |-> 10]),
    ([res |-> "ok",cacheV |-> FALSE,nodes |-> {0, 1, 2, 3, 4},cacheR |-> FALSE,nextN |-> 5,edges |-> (0 :> <<0, 1>> @@ 1 :> <<2, 3>> @@ 2 :> <<3, 2>> @@ 3 :> <<2, 0>> @@ 4 :> <<1, 3>> @@ 5 :> <<0, 2>> @@ 6 :> <<1, 2>> @@ 7 :> <<0, 3>> @@ 8 :> <<2, 1>> @@ 9 :> <<3, 1>>),acyclic |-> FALSE,l |-> 246,eObj |-> (2 :> 1 @@ 3 :> 2),nextE |-> 10]),
    ([res |-> "F",cacheV |-> FALSE,nodes |-> {0, 1, 2, 3, 4},cacheR |-> FALSE,nextN |-> 5,edges |-> (0 :> <<0, 1>> @@ 1 :> <<2, 3>> @@ 2 :> <<3, 2>> @@ 3 :> <<2, 0>> @@ 4 :> <<1, 3>> @@ 5 :> <<0, 2>> @@ 6 :> <<1, 2>> @@ 7 :> <<0, 3>> @@ 8 :> <<2, 1>> @@ 9 :> <<3, 1>>),acyclic |-> FALSE,l |-> 247,eObj |-> (2 :> 1 @@ 3 :> 2),nextE |-> 10]),
    ([res |-> "RT",cacheV |-> FALSE,nodes |-> {0, 1, 2, 3, 4},cacheR |-> TRUE,nextN |-> 5,edges |-> (0 :> <<0, 1>> @@ 1 :> <<2, 3>> @@ 2 :> <<3, 2>> @@ 3 :> <<2, 0>> @@ 4 :> <<1, 3>> @@ 5 :> <<0, 2>> @@ 6 :> <<1, 2>> @@ 7 :> <<0, 3>> @@ 8 :> <<2, 1>> @@ 9 :> <<3, 1>>),acyclic |-> FALSE,l |-> 248,eObj |-> (2 :> 1 @@ 3 :> 2),nextE |-> 10]),
    ([res |-> "ok",cacheV |-> FALSE,nodes |-> {},cacheR |-> FALSE,nextN |-> 0,edges |-> <<>>,acyclic |-> TRUE,l |-> 249,eObj |-> <<>>,nextE |-> 0]),
    ([res |-> "ok",cacheV |-> FALSE,nodes |-> {0},cacheR |-> FALSE,nextN |-> 1,edges |-> <<>>,acyclic |-> TRUE,l |-> 250,eObj |-> <<>>,nextE |-> 0]),
    ([res |-> "ok",cacheV |-> FALSE,nodes |-> {0, 1},cacheR |-> FALSE,nextN |-> 2,edges |-> <<>>,acyclic |-> TRUE,l |-> 251,eObj |-> <<>>,nextE |-> 0]),
    ([res |-> "ok",cacheV |-> FALSE,nodes |-> {0, 1, 2},cacheR |-> FALSE,nextN |-> 3,edges |-> <<>>,acyclic |-> TRUE,l |-> 252,eObj |-> <<>>,nextE |-> 0]),
    ([res |-> "ok",cacheV |-> FALSE,nodes |-> {0, 1, 2, 3},cacheR |-> FALSE,nextN |-> 4,edges |-> <<>>,acyclic |-> TRUE,l |-> 253,eObj |-> <<>>,nextE |-> 0]),
    ([res |-> "ok",cacheV |-> FALSE,nodes |-> {0, 1, 2, 3},cacheR |-> FALSE,nextN |-> 4,edges |-> (0 :> <<1, 0>>),acyclic |-> TRUE,l |-> 254,eObj |-> <<>>,nextE |-> 1]),
    ([res |-> "ok",cacheV |-> FALSE,nodes |-> {0, 1, 2, 3},cacheR |-> FALSE,nextN |-> 4,edges |-> (0 :> <<1, 0>> @@ 1 :> <<2, 3>>),acyclic |-> TRUE,l |-> 255,eObj |-> <<>>,nextE |-> 2]),
    ([res |-> "ok",cacheV |-> FALSE,nodes |-> {0, 1, 2, 3},cacheR |-> FALSE,nextN |-> 4,edges |-> (0 :> <<1, 0>> @@ 1 :> <<2, 3>> @@ 2 :> <<2, 0>>),acyclic |-> TRUE,l |-> 256,eObj |-> <<>>,nextE |-> 3]),
    ([res |-> "ok",cacheV |-> FALSE,nodes |-> {0, 1, 2, 3},cacheR |-> FALSE,nextN |-> 4,edges |-> (0 :> <<1, 0>> @@ 1 :> <<2, 3>> @@ 2 :> <<2, 0>> @@ 3 :> <<1, 2>>),acyclic |-> TRUE,l |-> 257,eObj |-> <<>>,nextE |-> 4]),
    ([res |-> "ok",cacheV |-> FALSE,nodes |-> {0, 1, 2, 3},cacheR |-> FALSE,nextN |-> 4,edges |-> (0 :> <<1, 0>> @@ 1 :> <<2, 3>> @@ 2 :> <<2, 0>> @@ 3 :> <<1, 2>> @@ 4 :> <<3, 1>>),acyclic |-> FALSE,l |-> 258,eObj |-> <<>>,nextE |-> 5]),
    ([res |-> "ok",cacheV |-> FALSE,nodes |-> {0, 1, 2, 3},cacheR |-> FALSE,nextN |-> 4,edges |-> (0 :> <<1, 0>> @@ 1 :> <<2, 3>> @@ 2 :> <<2, 0>> @@ 3 :> <<1, 2>> @@ 4 :> <<3, 1>> @@ 5 :> <<1, 3>>),acyclic |-> FALSE,l |-> 259,eObj |-> (5 :> 1),nextE |-> 6]),
    ([res |-> "ok",cacheV |-> FALSE,nodes |-> {0, 1, 2, 3},cacheR |-> FALSE,nextN |-> 4,edges |-> (0 :> <<1, 0>> @@ 1 :> <<2, 3>> @@ 2 :> <<2, 0>> @@ 3 :> <<1, 2>> @@ 4 :> <<3, 1>> @@ 5 :> <<1, 3>> @@ 6 :> <<2, 1>>),acyclic |-> FALSE,l |-> 260,eObj |-> (5 :> 1),nextE |-> 7]),
    ([res |-> "F",cacheV |-> FALSE,nodes |-> {0, 1, 2, 3},cacheR |-> FALSE,nextN |-> 4,edges |-> (0 :> <<1, 0>> @@ 1 :> <<2, 3>> @@ 2 :> <<2, 0>> @@ 3 :> <<1, 2>> @@ 4 :> <<3, 1>> @@ 5 :> <<1, 3>> @@ 6 :> <<2, 1>>),acyclic |-> FALSE,l |-> 261,eObj |-> (5 :> 1),nextE |-> 7]),
    ([res |-> "RT",cacheV |-> FALSE,nodes |-> {0, 1, 2, 3},cacheR |-> FALSE,nextN |-> 4,edges |-> (0 :> <<1, 0>> @@ 1 :> <<2, 3>> @@ 2 :> <<2, 0>> @@ 3 :> <<1, 2>> @@ 4 :> <<3, 1>> @@ 5 :> <<1, 3>> @@ 6 :> <<2, 1>>),acyclic |-> FALSE,l |-> 262,eObj |-> (5 :> 1),nextE |-> 7]),
    ([res |-> "ok",cacheV |-> FALSE,nodes |-> {0, 1, 2, 3},cacheR |-> FALSE,nextN |-> 4,edges |-> (0 :> <<1, 0>> @@ 1 :> <<2, 3>> @@ 2 :> <<2, 0>> @@ 3 :> <<1, 2>> @@ 4 :> <<3, 1>> @@ 5 :> <<1, 3>> @@ 6 :> <<2, 1>> @@ 7 :> <<3, 2>>),acyclic |-> FALSE,l |-> 263,eObj |-> (5 :> 1 @@ 7 :> 2),nextE |-> 8]),
    ([res |-> "F",cacheV |-> FALSE,nodes |-> {0, 1, 2, 3},cacheR |-> FALSE,nextN |-> 4,edges |-> (0 :> <<1, 0>> @@ 1 :> <<2, 3>> @@ 2 :> <<2, 0>> @@ 3 :> <<1, 2>> @@ 4 :> <<3, 1>> @@ 5 :> <<1, 3>> @@ 6 :> <<2, 1>> @@ 7 :> <<3, 2>>),acyclic |-> FALSE,l |-> 264,eObj |-> (5 :> 1 @@ 7 :> 2),nextE |-> 8]),
    ([res |-> "RT",cacheV |-> FALSE,nodes |-> {0, 1, 2, 3},cacheR |-> FALSE,nextN |-> 4,edges |-> (0 :> <<1, 0>> @@ 1 :> <<2, 3>> @@ 2 :> <<2, 0>> @@ 3 :> <<1, 2>> @@ 4 :> <<3, 1>> @@ 5 :> <<1, 3>> @@ 6 :> <<2, 1>> @@ 7 :> <<3, 2>>),acyclic |-> FALSE,l |-> 265,eObj |-> (5 :> 1 @@ 7 :> 2),nextE |-> 8]),
    ([res |-> "ok",cacheV |-> FALSE,nodes |-> {0, 1, 2, 3},cacheR |-> FALSE,nextN |-> 4,edges |-> (0 :> <<1, 0>> @@ 1 :> <<2, 3>> @@ 2 :> <<2, 0>> @@ 3 :> <<1, 2>> @@ 4 :> <<3, 1>> @@ 5 :> <<1, 3>> @@ 6 :> <<2, 1>> @@ 7 :> <<3, 2>>),acyclic |-> FALSE,l |-> 266,eObj |-> (5 :> 1 @@ 7 :> 2),nextE |-> 8]),
    ([res |-> "raise",cacheV |-> FALSE,nodes |-> {0, 1, 2, 3},cacheR |-> FALSE,nextN |-> 4,edges |-> (0 :> <<1, 0>> @@ 1 :> <<2, 3>> @@ 2 :> <<2, 0>> @@ 3 :> <<1, 2>> @@ 4 :> <<3, 1>> @@ 5 :> <<1, 3>> @@ 6 :> <<2, 1>> @@ 7 :> <<3, 2>>),acyclic |-> FALSE,l |-> 267,eObj |-> (5 :> 1 @@ 7 :> 2),nextE |-> 8]),
    ([res |-> "ok",cacheV |-> FALSE,nodes |-> {0, 2, 3},cacheR |-> FALSE,nextN |-> 4,edges |-> (1 :> <<2, 3>> @@ 2 :> <<2, 0>> @@ 7 :> <<3, 2>>),acyclic |-> FALSE,l |-> 268,eObj |-> (7 :> 2),nextE |-> 8]),
    ([res |-> "F",cacheV |-> FALSE,nodes |-> {0, 2, 3},cacheR |-> FALSE,nextN |-> 4,edges |-> (1 :> <<2, 3>> @@ 2 :> <<2, 0>> @@ 7 :> <<3, 2>>),acyclic |-> FALSE,l |-> 269,eObj |-> (7 :> 2),nextE |-> 8]),
    ([res |-> "RT",cacheV |-> FALSE,nodes |-> {0, 2, 3},cacheR |-> FALSE,nextN |-> 4,edges |-> (1 :> <<2, 3>> @@ 2 :> <<2, 0>> @@ 7 :> <<3, 2>>),acyclic |-> FALSE,l |-> 270,eObj |-> (7 :> 2),nextE |-> 8]),
    ([res |-> "ok",cacheV |-> FALSE,nodes |-> {},cacheR |-> FALSE,nextN |-> 0,edges |-> <<>>,acyclic |-> TRUE,l |-> 271,eObj |-> <<>>,nextE |-> 0]),
    ([res |-> "ok",cacheV |-> FALSE,nodes |-> {0},cacheR |-> FALSE,nextN |-> 1,edges |-> <<>>,acyclic |-> TRUE,l |-> 272,eObj |-> <<>>,nextE |-> 0]),
    ([res |-> "ok",cacheV |-> FALSE,nodes |-> {0, 1},cacheR |-> FALSE,nextN |-> 2,edges |-> <<>>,acyclic |-> TRUE,l |-> 273,eObj |-> <<>>,nextE |-> 0]),
    ([res |-> "ok",cacheV |-> FALSE,nodes |-> {0, 1, 2},cacheR |-> FALSE,nextN |-> 3,edges |-> <<>>,acyclic |-> TRUE,l |-> 274,eObj |-> <<>>,nextE |-> 0]),
    ([res |-> "ok",cacheV |-> FALSE,nodes |-> {0, 1, 2, 3},cacheR |-> FALSE,nextN |-> 4,edges |-> <<>>,acyclic |-> TRUE,l |-> 275,eObj |-> <<>>,nextE |-> 0]),
    ([res |-> "ok",cacheV |-> FALSE,nodes |-> {0, 1, 2, 3},cacheR |-> FALSE,nextN |-> 4,edges |-> (0 :> <<2, 3>>),acyclic |-> TRUE,l |-> 276,eObj |-> (0 :> 1),nextE |-> 1]),
    ([res |-> "ok",cacheV |-> FALSE,nodes |-> {0, 1, 2, 3},cacheR |-> FALSE,nextN |-> 4,edges |-> (0 :> <<2, 3>> @@ 1 :> <<3, 2>>),acyclic |-> FALSE,l |-> 277,eObj |-> (0 :> 1),nextE |-> 2]),
    ([res |-> "F",cacheV |-> FALSE,nodes |-> {0, 1, 2, 3},cacheR |-> FALSE,nextN |-> 4,edges |-> (0 :> <<2, 3>> @@ 1 :> <<3, 2>>),acyclic |-> FALSE,l |-> 278,eObj |-> (0 :> 1),nextE |-> 2]),
    ([res |-> "ok",cacheV |-> FALSE,nodes |-> {0, 1, 2, 3},cacheR |-> FALSE,nextN |-> 4,edges |-> (0 :> <<2, 3>> @@ 1 :> <<3, 2>> @@ 2 :> <<1, 0>>),acyclic |-> FALSE,l |-> 279,eObj |-> (0 :> 1),nextE |-> 3]),
    ([res |-> "ok",cacheV |-> FALSE,nodes |-> {0, 1, 2, 3},cacheR |-> FALSE,nextN |-> 4,edges |-> (0 :> <<2, 3>> @@ 1 :> <<3, 2>> @@ 2 :> <<1, 0>> @@ 3 :> <<1, 2>>),acyclic |-> FALSE,l |-> 280,eObj |-> (0 :> 1),nextE |-> 4]),
    ([res |-> "ok",cacheV |-> FALSE,nodes |-> {0, 1, 2, 3},cacheR |-> FALSE,nextN |-> 4,edges |-> (0 :> <<2, 3>> @@ 1 :> <<3, 2>> @@ 2 :> <<1, 0>> @@ 3 :> <<1, 2>> @@ 4 :> <<0, 1>>),acyclic |-> FALSE,l |-> 281,eObj |-> (0 :> 1),nextE |-> 5]),
    ([res |-> "ok",cacheV |-> FALSE,nodes |-> {0, 1, 2, 3},cacheR |-> FALSE,nextN |-> 4,edges |-> (0 :> <<2, 3>> @@ 1 :> <<3, 2>> @@ 2 :> <<1, 0>> @@ 3 :> <<1, 2>> @@ 4 :> <<0, 1>> @@ 5 :> <<2, 0>>),acyclic |-> FALSE,l |-> 282,eObj |-> (0 :> 1),nextE |-> 6]),
    ([res |-> "ok",cacheV |-> FALSE,nodes |-> {0, 1, 2, 3},cacheR |-> FALSE,nextN |-> 4,edges |-> (0 :> <<2, 3>> @@ 1 :> <<3, 2>> @@ 2 :> <<1, 0>> @@ 3 :> <<1, 2>> @@ 4 :> <<0, 1>> @@ 5 :> <<2, 0>> @@ 6 :> <<2, 1>>),acyclic |-> FALSE,l |-> 283,eObj |-> (0 :> 1),nextE |-> 7]),
    ([res |-> "ok",cacheV |-> FALSE,nodes |-> {0, 1, 2, 3},cacheR |-> FALSE,nextN |-> 4,edges |-> (0 :> <<2, 3>> @@ 1 :> <<3, 2>> @@ 2 :> <<1, 0>> @@ 3 :> <<1, 2>> @@ 4 :> <<0, 1>> @@ 5 :> <<2, 0>> @@ 6 :> <<2, 1>> @@ 7 :> <<3, 1>>),acyclic |-> FALSE,l |-> 284,eObj |-> (0 :> 1),nextE |-> 8]),
    ([res |-> "ok",cacheV |-> FALSE,nodes |-> {0, 1, 2, 3},cacheR |-> FALSE,nextN |-> 4,edges |-> (0 :> <<2, 3>> @@ 1 :> <<3, 2>> @@ 2 :> <<1, 0>> @@ 3 :> <<1, 2>> @@ 4 :> <<0, 1>> @@ 5 :> <<2, 0>> @@ 6 :> <<2, 1>> @@ 7 :> <<3, 1>> @@ 8 :> <<1, 3>>),acyclic |-> FALSE,l |-> 285,eObj |-> (0 :> 1),nextE |-> 9]),
    ([res |-> "F",cacheV |-> FALSE,nodes |-> {0, 1, 2, 3},cacheR |-> FALSE,nextN |-> 4,edges |-> (0 :> <<2, 3>> @@ 1 :> <<3, 2>> @@ 2 :> <<1, 0>> @@ 3 :> <<1, 2>> @@ 4 :> <<0, 1>> @@ 5 :> <<2, 0>> @@ 6 :> <<2, 1>> @@ 7 :> <<3, 1>> @@ 8 :> <<1, 3>>),acyclic |-> FALSE,l |-> 286,eObj |-> (0 :> 1),nextE |-> 9]),
    ([res |-> "RT",cacheV |-> FALSE,nodes |-> {0, 1, 2, 3},cacheR |-> FALSE,nextN |-> 4,edges |-> (0 :> <<2, 3>> @@ 1 :> <<3, 2>> @@ 2 :> <<1, 0>> @@ 3 :> <<1, 2>> @@ 4 :> <<0, 1>> @@ 5 :> <<2, 0>> @@ 6 :> <<2, 1>> @@ 7 :> <<3, 1>> @@ 8 :> <<1, 3>>),acyclic |-> FALSE,l |-> 287,eObj |-> (0 :> 1),nextE |-> 9]),
    ([res |-> "ok",cacheV |-> FALSE,nodes |-> {0, 1, 2, 3},cacheR |-> FALSE,nextN |-> 4,edges |-> (0 :> <<2, 3>> @@ 1 :> <<3, 2>> @@ 2 :> <<1, 0>> @@ 3 :> <<1, 2>> @@ 4 :> <<0, 1>> @@ 5 :> <<2, 0>> @@ 6 :> <<2, 1>> @@ 7 :> <<3, 1>> @@ 8 :> <<1, 3>>),acyclic |-> FALSE,l |-> 288,eObj |-> (0 :> 1),nextE |-> 9]),
    ([res |-> "raise",cacheV |-> FALSE,nodes |-> {0, 1, 2, 3},cacheR |-> FALSE,nextN |-> 4,edges |-> (0 :> <<2, 3>> @@ 1 :> <<3, 2>> @@ 2 :> <<1, 0>> @@ 3 :> <<1, 2>> @@ 4 :> <<0, 1>> @@ 5 :> <<2, 0>> @@ 6 :> <<2, 1>> @@ 7 :> <<3, 1>> @@ 8 :> <<1, 3>>),acyclic |-> FALSE,l |-> 289,eObj |-> (0 :> 1),nextE |-> 9]),
    ([res |-> "ok",cacheV |-> FALSE,nodes |-> {0, 1, 2, 3, 4},cacheR |-> FALSE,nextN |-> 5,edges |-> (0 :> <<2, 3>> @@ 1 :> <<3, 2>> @@ 2 :> <<1, 0>> @@ 3 :> <<1, 2>> @@ 4 :> <<0, 1>> @@ 5 :> <<2, 0>> @@ 6 :> <<2, 1>> @@ 7 :> <<3, 1>> @@ 8 :> <<1, 3>>),acyclic |-> FALSE,l |-> 290,eObj |-> (0 :> 1),nextE |-> 9]),
    ([res |-> "F",cacheV |-> FALSE,nodes |-> {0, 1, 2, 3, 4},cacheR |-> FALSE,nextN |-> 5,edges |-> (0 :> <<2, 3>> @@ 1 :> <<3, 2>> @@ 2 :> <<1, 0>> @@ 3 :> <<1, 2>> @@ 4 :> <<0, 1>> @@ 5 :> <<2, 0>> @@ 6 :> <<2, 1>> @@ 7 :> <<3, 1>> @@ 8 :> <<1, 3>>),acyclic |-> FALSE,l |-> 291,eObj |-> (0 :> 1),nextE |-> 9]),
    ([res |-> "RT",cacheV |-> FALSE,nodes |-> {0, 1, 2, 3, 4},cacheR |-> TRUE,nextN |-> 5,edges |-> (0 :> <<2, 3>> @@ 1 :> <<3, 2>> @@ 2 :> <<1, 0>> @@ 3 :> <<1, 2>> @@ 4 :> <<0, 1>> @@ 5 :> <<2, 0>> @@ 6 :> <<2, 1>> @@ 7 :> <<3, 1>> @@ 8 :> <<1, 3>>),acyclic |-> FALSE,l |-> 292,eObj |-> (0 :> 1),nextE |-> 9]),
    ([res |-> "ok",cacheV |-> FALSE,nodes |-> {},cacheR |-> FALSE,nextN |-> 0,edges |-> <<>>,acyclic |-> TRUE,l |-> 293,eObj |-> <<>>,nextE |-> 0]),
    ([res |-> "ok",cacheV |-> FALSE,nodes |-> {0},cacheR |-> FALSE,nextN |-> 1,edges |-> <<>>,acyclic |-> TRUE,l |-> 294,eObj |-> <<>>,nextE |-> 0]),
    ([res |-> "ok",cacheV |-> FALSE,nodes |-> {0, 1},cacheR |-> FALSE,nextN |-> 2,edges |-> <<>>,acyclic |-> TRUE,l |-> 295,eObj |-> <<>>,nextE |-> 0]),
    ([res |-> "ok",cacheV |-> FALSE,nodes |-> {0, 1, 2},cacheR |-> FALSE,nextN |-> 3,edges |-> <<>>,acyclic |-> TRUE,l |-> 296,eObj |-> <<>>,nextE |-> 0]),
    ([res |-> "ok",cacheV |-> FALSE,nodes |-> {0, 1, 2, 3},cacheR |-> FALSE,nextN |-> 4,edges |-> <<>>,acyclic |-> TRUE,l |-> 297,eObj |-> <<>>,nextE |-> 0]),
    ([res |-> "ok",cacheV |-> FALSE,nodes |-> {0, 1, 2, 3},cacheR |-> FALSE,nextN |-> 4,edges |-> (0 :> <<0, 2>>),acyclic |-> TRUE,l |-> 298,eObj |-> <<>>,nextE |-> 1]),
    ([res |-> "ok",cacheV |-> FALSE,nodes |-> {0, 1, 2, 3},cacheR |-> FALSE,nextN |-> 4,edges |-> (0 :> <<0, 2>> @@ 1 :> <<2, 1>>),acyclic |-> TRUE,l |-> 299,eObj |-> <<>>,nextE |-> 2]),
    ([res |-> "ok",cacheV |-> FALSE,nodes |-> {0, 1, 2, 3},cacheR |-> FALSE,nextN |-> 4,edges |-> (0 :> <<0, 2>> @@ 1 :> <<2, 1>> @@ 2 :> <<2, 0>>),acyclic |-> FALSE,l |-> 300,eObj |-> (2 :> 1),nextE |-> 3]),
    ([res |-> "ok",cacheV |-> FALSE,nodes |-> {0, 1, 2, 3},cacheR |-> FALSE,nextN |-> 4,edges |-> (0 :> <<0, 2>> @@ 1 :> <<2, 1>> @@ 2 :> <<2, 0>> @@ 3 :> <<1, 2>>),acyclic |-> FALSE,l |-> 301,eObj |-> (2 :> 1),nextE |-> 4]),
    ([res |-> "ok",cacheV |-> FALSE,nodes |-> {0, 1, 2, 3},cacheR |-> FALSE,nextN |-> 4,edges |-> (0 :> <<0, 2>> @@ 1 :> <<2, 1>> @@ 2 :> <<2, 0>> @@ 3 :> <<1, 2>> @@ 4 :> <<1, 3>>),acyclic |-> FALSE,l |-> 302,eObj |-> (2 :> 1 @@ 4 :> 2),nextE |-> 5]),
    ([res |-> "ok",cacheV |-> FALSE,nodes |-> {0, 1, 2, 3},cacheR |-> FALSE,nextN |-> 4,edges |-> (0 :> <<0, 2>> @@ 1 :> <<2, 1>> @@ 2 :> <<2, 0>> @@ 3 :> <<1, 2>> @@ 4 :> <<1, 3>> @@ 5 :> <<2, 3>>),acyclic |-> FALSE,l |-> 303,eObj |-> (2 :> 1 @@ 4 :> 2 @@ 5 :> 3),nextE |-> 6]),
    ([res |-> "ok",cacheV |-> FALSE,nodes |-> {0, 1, 2, 3},cacheR |-> FALSE,nextN |-> 4,edges |-> (0 :> <<0, 2>> @@ 1 :> <<2, 1>> @@ 2 :> <<2, 0>> @@ 3 :> <<1, 2>> @@ 4 :> <<1, 3>> @@ 5 :> <<2, 3>> @@ 6 :> <<3, 2>>),acyclic |-> FALSE,l |-> 304,eObj |-> (2 :> 1 @@ 4 :> 2 @@ 5 :> 3),nextE |-> 7]),
    ([res |-> "F",cacheV |-> FALSE,nodes |-> {0, 1, 2, 3},cacheR |-> FALSE,nextN |-> 4,edges |-> (0 :> <<0, 2>> @@ 1 :> <<2, 1>> @@ 2 :> <<2, 0>> @@ 3 :> <<1, 2>> @@ 4 :> <<1, 3>> @@ 5 :> <<2, 3>> @@ 6 :> <<3, 2>>),acyclic |-> FALSE,l |-> 305,eObj |-> (2 :> 1 @@ 4 :> 2 @@ 5 :> 3),nextE |-> 7]),
    ([res |-> "RT",cacheV |-> FALSE,nodes |-> {0, 1, 2, 3},cacheR |-> FALSE,nextN |-> 4,edges |-> (0 :> <<0, 2>> @@ 1 :> <<2, 1>> @@ 2 :> <<2, 0>> @@ 3 :> <<1, 2>> @@ 4 :> <<1, 3>> @@ 5 :> <<2, 3>> @@ 6 :> <<3, 2>>),acyclic |-> FALSE,l |-> 306,eObj |-> (2 :> 1 @@ 4 :> 2 @@ 5 :> 3),nextE |-> 7]),
    ([res |-> "ok",cacheV |-> FALSE,nodes |-> {0, 1, 2, 3},cacheR |-> FALSE,nextN |-> 4,edges |-> (0 :> <<0, 2>> @@ 1 :> <<2, 1>> @@ 2 :> <<2, 0>> @@ 3 :> <<1, 2>> @@ 4 :> <<1, 3>> @@ 5 :> <<2, 3>> @@ 6 :> <<3, 2>> @@ 7 :> <<1, 0>>),acyclic |-> FALSE,l |-> 307,eObj |-> (2 :> 1 @@ 4 :> 2 @@ 5 :> 3),nextE |-> 8]),
    ([res |-> "ok",cacheV |-> FALSE,nodes |-> {0, 1, 2, 3},cacheR |-> FALSE,nextN |-> 4,edges |-> (0 :> <<0, 2>> @@ 1 :> <<2, 1>> @@ 2 :> <<2, 0>> @@ 3 :> <<1, 2>> @@ 4 :> <<1, 3>> @@ 5 :> <<2, 3>> @@ 6 :> <<3, 2>> @@ 7 :> <<1, 0>> @@ 8 :> <<3, 1>>),acyclic |-> FALSE,l |-> 308,eObj |-> (2 :> 1 @@ 4 :> 2 @@ 5 :> 3 @@ 8 :> 4),nextE |-> 9]),
    ([res |-> "F",cacheV |-> FALSE,nodes |-> {0, 1, 2, 3},cacheR |-> FALSE,nextN |-> 4,edges |-> (0 :> <<0, 2>> @@ 1 :> <<2, 1>> @@ 2 :> <<2, 0>> @@ 3 :> <<1, 2>> @@ 4 :> <<1, 3>> @@ 5 :> <<2, 3>> @@ 6 :> <<3, 2>> @@ 7 :> <<1, 0>> @@ 8 :> <<3, 1>>),acyclic |-> FALSE,l |-> 309,eObj |-> (2 :> 1 @@ 4 :> 2 @@ 5 :> 3 @@ 8 :> 4),nextE |-> 9]),
    ([res |-> "RT",cacheV |-> FALSE,nodes |-> {0, 1, 2, 3},cacheR |-> FALSE,nextN |-> 4,edges |-> (0 :> <<0, 2>> @@ 1 :> <<2, 1>> @@ 2 :> <<2, 0>> @@ 3 :> <<1, 2>> @@ 4 :> <<1, 3>> @@ 5 :> <<2, 3>> @@ 6 :> <<3, 2>> @@ 7 :> <<1, 0>> @@ 8 :> <<3, 1>>),acyclic |-> FALSE,l |-> 310,eObj |-> (2 :> 1 @@ 4 :> 2 @@ 5 :> 3 @@ 8 :> 4),nextE |-> 9]),
    ([res |-> "ok",cacheV |-> FALSE,nodes |-> {0, 1, 2, 3},cacheR |-> FALSE,nextN |-> 4,edges |-> (0 :> <<0, 2>> @@ 1 :> <<2, 1>> @@ 2 :> <<2, 0>> @@ 3 :> <<1, 2>> @@ 4 :> <<1, 3>> @@ 5 :> <<2, 3>> @@ 6 :> <<3, 2>> @@ 7 :> <<1, 0>> @@ 8 :> <<3, 1>>),acyclic |-> FALSE,l |-> 311,eObj |-> (2 :> 1 @@ 4 :> 2 @@ 5 :> 3 @@ 8 :> 4),nextE |-> 9]),
    ([res |-> "raise",cacheV |-> FALSE,nodes |-> {0, 1, 2, 3},cacheR |-> FALSE,nextN |-> 4,edges |-> (0 :> <<0, 2>> @@ 1 :> <<2, 1>> @@ 2 :> <<2, 0>> @@ 3 :> <<1, 2>> @@ 4 :> <<1, 3>> @@ 5 :> <<2, 3>> @@ 6 :> <<3, 2>> @@ 7 :> <<1, 0>> @@ 8 :> <<3, 1>>),acyclic |-> FALSE,l |-> 312,eObj |-> (2 :> 1 @@ 4 :> 2 @@ 5 :> 3 @@ 8 :> 4),nextE |-> 9]),
    ([res |-> "ok",cacheV |-> FALSE,nodes |-> {0, 1, 2, 3},cacheR |-> FALSE,nextN |-> 4,edges |-> (0 :> <<0, 2>> @@ 1 :> <<2, 1>> @@ 2 :> <<2, 0>> @@ 3 :> <<1, 2>> @@ 4 :> <<1, 3>> @@ 5 :> <<2, 3>> @@ 7 :> <<1, 0>> @@ 8 :> <<3, 1>>),acyclic |-> FALSE,l |-> 313,eObj |-> (2 :> 1 @@ 4 :> 2 @@ 5 :> 3 @@ 8 :> 4),nextE |-> 9]),
    ([res |-> "F",cacheV |-> FALSE,nodes |-> {0, 1, 2, 3},cacheR |-> FALSE,nextN |-> 4,edges |-> (0 :> <<0, 2>> @@ 1 :> <<2, 1>> @@ 2 :> <<2, 0>> @@ 3 :> <<1, 2>> @@ 4 :> <<1, 3>> @@ 5 :> <<2, 3>> @@ 7 :> <<1, 0>> @@ 8 :> <<3, 1>>),acyclic |-> FALSE,l |-> 314,eObj |-> (2 :> 1 @@ 4 :> 2 @@ 5 :> 3 @@ 8 :> 4),nextE |-> 9]),
    ([res |-> "RT",cacheV |-> FALSE,nodes |-> {0, 1, 2, 3},cacheR |-> FALSE,nextN |-> 4,edges |-> (0 :> <<0, 2>> @@ 1 :> <<2, 1>> @@ 2 :> <<2, 0>> @@ 3 :> <<1, 2>> @@ 4 :> <<1, 3>> @@ 5 :> <<2, 3>> @@ 7 :> <<1, 0>> @@ 8 :> <<3, 1>>),acyclic |-> FALSE,l |-> 315,eObj |-> (2 :> 1 @@ 4 :> 2 @@ 5 :> 3 @@ 8 :> 4),nextE |-> 9]),
    ([res |-> "ok",cacheV |-> FALSE,nodes |-> {},cacheR |-> FALSE,nextN |-> 0,edges |-> <<>>,acyclic |-> TRUE,l |-> 316,eObj |-> <<>>,nextE |-> 0]),
    ([res |-> "ok",cacheV |-> FALSE,nodes |-> {0},cacheR |-> FALSE,nextN |-> 1,edges |-> <<>>,acyclic |-> TRUE,l |-> 317,eObj |-> <<>>,nextE |-> 0]),
    ([res |-> "ok",cacheV |-> FALSE,nodes |-> {0, 1},cacheR |-> FALSE,nextN |-> 2,edges |-> <<>>,acyclic |-> TRUE,l |-> 318,eObj |-> <<>>,nextE |-> 0]),
    ([res |-> "ok",cacheV |-> FALSE,nodes |-> {0, 1, 2},cacheR |-> FALSE,nextN |-> 3,edges |-> <<>>,acyclic |-> TRUE,l |-> 319,eObj |-> <<>>,nextE |-> 0]),
    ([res |-> "ok",cacheV |-> FALSE,nodes |-> {0, 1, 2, 3},cacheR |-> FALSE,nextN |-> 4,edges |-> <<>>,acyclic |-> TRUE,l |-> 320,eObj |-> <<>>,nextE |-> 0]),
    ([res |-> "ok",cacheV |-> FALSE,nodes |-> {0, 1, 2, 3},cacheR |-> FALSE,nextN |-> 4,edges |-> (0 :> <<0, 1>>),acyclic |-> TRUE,l |-> 321,eObj |-> <<>>,nextE |-> 1]),
    ([res |-> "ok",cacheV |-> FALSE,nodes |-> {0, 1, 2, 3},cacheR |-> FALSE,nextN |-> 4,edges |-> (0 :> <<0, 1>> @@ 1 :> <<3, 2>>),acyclic |-> TRUE,l |-> 322,eObj |-> <<>>,nextE |-> 2]),
    ([res |-> "ok",cacheV |-> FALSE,nodes |-> {0, 1, 2, 3},cacheR |-> FALSE,nextN |-> 4,edges |-> (0 :> <<0, 1>> @@ 1 :> <<3, 2>> @@ 2 :> <<1, 3>>),acyclic |-> TRUE,l |-> 323,eObj |-> <<>>,nextE |-> 3]),
    ([res |-> "ok",cacheV |-> FALSE,nodes |-> {0, 1, 2, 3},cacheR |-> FALSE,nextN |-> 4,edges |-> (0 :> <<0, 1>> @@ 1 :> <<3, 2>> @@ 2 :> <<1, 3>> @@ 3 :> <<2, 3>>),acyclic |-> FALSE,l |-> 324,eObj |-> <<>>,nextE |-> 4]),
    ([res |-> "ok",cacheV |-> FALSE,nodes |-> {0, 1, 2, 3},cacheR |-> FALSE,nextN |-> 4,edges |-> (0 :> <<0, 1>> @@ 1 :> <<3, 2>> @@ 2 :> <<1, 3>> @@ 3 :> <<2, 3>> @@ 4 :> <<2, 0>>),acyclic |-> FALSE,l |-> 325,eObj |-> <<>>,nextE |-> 5]),
    ([res |-> "ok",cacheV |-> FALSE,nodes |-> {0, 1, 2, 3},cacheR |-> FALSE,nextN |-> 4,edges |-> (0 :> <<0, 1>> @@ 1 :> <<3, 2>> @@ 2 :> <<1, 3>> @@ 3 :> <<2, 3>> @@ 4 :> <<2, 0>> @@ 5 :> <<0, 2>>),acyclic |-> FALSE,l |-> 326,eObj |-> <<>>,nextE |-> 6]),
    ([res |-> "ok",cacheV |-> FALSE,nodes |-> {0, 1, 2, 3},cacheR |-> FALSE,nextN |-> 4,edges |-> (0 :> <<0, 1>> @@ 1 :> <<3, 2>> @@ 2 :> <<1, 3>> @@ 3 :> <<2, 3>> @@ 4 :> <<2, 0>> @@ 5 :> <<0, 2>> @@ 6 :> <<3, 1>>),acyclic |-> FALSE,l |-> 327,eObj |-> <<>>,nextE |-> 7]),
    ([res |-> "ok",cacheV |-> FALSE,nodes |-> {0, 1, 2, 3},cacheR |-> FALSE,nextN |-> 4,edges |-> (0 :> <<0, 1>> @@ 1 :> <<3, 2>> @@ 2 :> <<1, 3>> @@ 3 :> <<2, 3>> @@ 4 :> <<2, 0>> @@ 5 :> <<0, 2>> @@ 6 :> <<3, 1>> @@ 7 :> <<1, 2>>),acyclic |-> FALSE,l |-> 328,eObj |-> <<>>,nextE |-> 8]),
    ([res |-> "F",cacheV |-> FALSE,nodes |-> {0, 1, 2, 3},cacheR |-> FALSE,nextN |-> 4,edges |-> (0 :> <<0, 1>> @@ 1 :> <<3, 2>> @@ 2 :> <<1, 3>> @@ 3 :> <<2, 3>> @@ 4 :> <<2, 0>> @@ 5 :> <<0, 2>> @@ 6 :> <<3, 1>> @@ 7 :> <<1, 2>>),acyclic |-> FALSE,l |-> 329,eObj |-> <<>>,nextE |-> 8]),
    ([res |-> "ok",cacheV |-> FALSE,nodes |-> {0, 1, 2, 3},cacheR |-> FALSE,nextN |-> 4,edges |-> (0 :> <<0, 1>> @@ 1 :> <<3, 2>> @@ 2 :> <<1, 3>> @@ 3 :> <<2, 3>> @@ 4 :> <<2, 0>> @@ 5 :> <<0, 2>> @@ 6 :> <<3, 1>> @@ 7 :> <<1, 2>> @@ 8 :> <<2, 1>>),acyclic |-> FALSE,l |-> 330,eObj |-> (8 :> 1),nextE |-> 9]),
    ([res |-> "ok",cacheV |-> FALSE,nodes |-> {0, 1, 2, 3},cacheR |-> FALSE,nextN |-> 4,edges |-> (0 :> <<0, 1>> @@ 1 :> <<3, 2>> @@ 2 :> <<1, 3>> @@ 3 :> <<2, 3>> @@ 4 :> <<2, 0>> @@ 5 :> <<0, 2>> @@ 6 :> <<3, 1>> @@ 7 :> <<1, 2>> @@ 8 :> <<2, 1>> @@ 9 :> <<1, 0>>),acyclic |-> FALSE,l |-> 331,eObj |-> (8 :> 1),nextE |-> 10]),
    ([res |-> "F",cacheV |-> FALSE,nodes |-> {0, 1, 2, 3},cacheR |-> FALSE,nextN |-> 4,edges |-> (0 :> <<0, 1>> @@ 1 :> <<3, 2>> @@ 2 :> <<1, 3>> @@ 3 :> <<2, 3>> @@ 4 :> <<2, 0>> @@ 5 :> <<0, 2>> @@ 6 :> <<3, 1>> @@ 7 :> <<1, 2>> @@ 8 :> <<2, 1>> @@ 9 :> <<1, 0>>),acyclic |-> FALSE,l |-> 332,eObj |-> (8 :> 1),nextE |-> 10]),
    ([res |-> "RT",cacheV |-> FALSE,nodes |-> {0, 1, 2, 3},cacheR |-> FALSE,nextN |-> 4,edges |-> (0 :> <<0, 1>> @@ 1 :> <<3, 2>> @@ 2 :> <<1, 3>> @@ 3 :> <<2, 3>> @@ 4 :> <<2, 0>> @@ 5 :> <<0, 2>> @@ 6 :> <<3, 1>> @@ 7 :> <<1, 2>> @@ 8 :> <<2, 1>> @@ 9 :> <<1, 0>>),acyclic |-> FALSE,l |-> 333,eObj |-> (8 :> 1),nextE |-> 10]),
    ([res |-> "ok",cacheV |-> FALSE,nodes |-> {0, 1, 2, 3},cacheR |-> FALSE,nextN |-> 4,edges |-> (0 :> <<0, 1>> @@ 1 :> <<3, 2>> @@ 2 :> <<1, 3>> @@ 3 :> <<2, 3>> @@ 4 :> <<2, 0>> @@ 5 :> <<0, 2>> @@ 6 :> <<3, 1>> @@ 7 :> <<1, 2>> @@ 8 :> <<2, 1>> @@ 9 :> <<1, 0>>),acyclic |-> FALSE,l |-> 334,eObj |-> (8 :> 1),nextE |-> 10]),
    ([res |-> "raise",cacheV |-> FALSE,nodes |-> {0, 1, 2, 3},cacheR |-> FALSE,nextN |-> 4,edges |-> (0 :> <<0, 1>> @@ 1 :> <<3, 2>> @@ 2 :> <<1, 3>> @@ 3 :> <<2, 3>> @@ 4 :> <<2, 0>> @@ 5 :> <<0, 2>> @@ 6 :> <<3, 1>> @@ 7 :> <<1, 2>> @@ 8 :> <<2, 1>> @@ 9 :> <<1, 0>>),acyclic |-> FALSE,l |-> 335,eObj |-> (8 :> 1),nextE |-> 10]),
    ([res |-> "ok",cacheV |-> FALSE,nodes |-> {0, 1, 2, 3},cacheR |-> FALSE,nextN |-> 4,edges |-> (0 :> <<0, 1>> @@ 1 :> <<3, 2>> @@ 2 :> <<1, 3>> @@ 3 :> <<2, 3>> @@ 4 :> <<2, 0>> @@ 5 :> <<0, 2>> @@ 6 :> <<3, 1>> @@ 8 :> <<2, 1>> @@ 9 :> <<1, 0>>),acyclic |-> FALSE,l |-> 336,eObj |-> (8 :> 1),nextE |-> 10]),
    ([res |-> "F",cacheV |-> FALSE,nodes |-> {0, 1, 2, 3},cacheR |-> FALSE,nextN |-> 4,edges |-> (0 :> <<0, 1>> @@ 1 :> <<3, 2>> @@ 2 :> <<1, 3>> @@ 3 :> <<2, 3>> @@ 4 :> <<2, 0>> @@ 5 :> <<0, 2>> @@ 6 :> <<3, 1>> @@ 8 :> <<2, 1>> @@ 9 :> <<1, 0>>),acyclic |-> FALSE,l |-> 337,eObj |-> (8 :> 1),nextE |-> 10]),
    ([res |-> "RT",cacheV |-> FALSE,nodes |-> {0, 1, 2, 3},cacheR |-> FALSE,nextN |-> 4,edges |-> (0 :> <<0, 1>> @@ 1 :> <<3, 2>> @@ 2 :> <<1, 3>> @@ 3 :> <<2, 3>> @@ 4 :> <<2, 0>> @@ 5 :> <<0, 2>> @@ 6 :> <<3, 1>> @@ 8 :> <<2, 1>> @@ 9 :> <<1, 0>>),acyclic |-> FALSE,l |-> 338,eObj |-> (8 :> 1),nextE |-> 10]),
    ([res |-> "ok",cacheV |-> FALSE,nodes |-> {},cacheR |-> FALSE,nextN |-> 0,edges |-> <<>>,acyclic |-> TRUE,l |-> 339,eObj |-> <<>>,nextE |-> 0]),
    ([res |-> "ok",cacheV |-> FALSE,nodes |-> {0},cacheR |-> FALSE,nextN |-> 1,edges |-> <<>>,acyclic |-> TRUE,l |-> 340,eObj |-> <<>>,nextE |-> 0]),
    ([res |-> "ok",cacheV |-> FALSE,nodes |-> {0, 1},cacheR |-> FALSE,nextN |-> 2,edges |-> <<>>,acyclic |-> TRUE,l |-> 341,eObj |-> <<>>,nextE |-> 0]),
    ([res |-> "ok",cacheV |-> FALSE,nodes |-> {0, 1, 2},cacheR |-> FALSE,nextN |-> 3,edges |-> <<>>,acyclic |-> TRUE,l |-> 342,eObj |-> <<>>,nextE |-> 0]),
    ([res |-> "ok",cacheV |-> FALSE,nodes |-> {0, 1, 2, 3},cacheR |-> FALSE,nextN |-> 4,edges |-> <<>>,acyclic |-> TRUE,l |-> 343,eObj |-> <<>>,nextE |-> 0]),
    ([res |-> "ok",cacheV |-> FALSE,nodes |-> {0, 1, 2, 3},cacheR |-> FALSE,nextN |-> 4,edges |-> (0 :> <<1, 3>>),acyclic |-> TRUE,l |-> 344,eObj |-> (0 :> 1),nextE |-> 1]),
    ([res |-> "ok",cacheV |-> FALSE,nodes |-> {0, 1, 2, 3},cacheR |-> FALSE,nextN |-> 4,edges |-> (0 :> <<1, 3>> @@ 1 :> <<2, 0>>),acyclic |-> TRUE,l |-> 345,eObj |-> (0 :> 1 @@ 1 :> 2),nextE |-> 2]),
    ([res |-> "ok",cacheV |-> FALSE,nodes |-> {0, 1, 2, 3},cacheR |-> FALSE,nextN |-> 4,edges |-> (0 :> <<1, 3>> @@ 1 :> <<2, 0>> @@ 2 :> <<1, 0>>),acyclic |-> TRUE,l |-> 346,eObj |-> (0 :> 1 @@ 1 :> 2 @@ 2 :> 3),nextE |-> 3]),
    ([res |-> "ok",cacheV |-> FALSE,nodes |-> {0, 1, 2, 3},cacheR |-> FALSE,nextN |-> 4,edges |-> (0 :> <<1, 3>> @@ 1 :> <<2, 0>> @@ 2 :> <<1, 0>> @@ 3 :> <<2, 1>>),acyclic |-> TRUE,l |-> 347,eObj |-> (0 :> 1 @@ 1 :> 2 @@ 2 :> 3),nextE |-> 4]),
    ([res |-> "ok",cacheV |-> FALSE,nodes |-> {0, 1, 2, 3},cacheR |-> FALSE,nextN |-> 4,edges |-> (0 :> <<1, 3>> @@ 1 :> <<2, 0>> @@ 2 :> <<1, 0>> @@ 3 :> <<2, 1>> @@ 4 :> <<2, 3>>),acyclic |-> TRUE,l |-> 348,eObj |-> (0 :> 1 @@ 1 :> 2 @@ 2 :> 3),nextE |-> 5]),
    ([res |-> "ok",cacheV |-> FALSE,nodes |-> {0, 1, 2, 3},cacheR |-> FALSE,nextN |-> 4,edges |-> (0 :> <<1, 3>> @@ 1 :> <<2, 0>> @@ 2 :> <<1, 0>> @@ 3 :> <<2, 1>> @@ 4 :> <<2, 3>> @@ 5 :> <<0, 3>>),acyclic |-> TRUE,l |-> 349,eObj |-> (0 :> 1 @@ 1 :> 2 @@ 2 :> 3 @@ 5 :> 4),nextE |-> 6]),
    ([res |-> "T",cacheV |-> TRUE,nodes |-> {0, 1, 2, 3},cacheR |-> FALSE,nextN |-> 4,edges |-> (0 :> <<1, 3>> @@ 1 :> <<2, 0>> @@ 2 :> <<1, 0>> @@ 3 :> <<2, 1>> @@ 4 :> <<2, 3>> @@ 5 :> <<0, 3>>),acyclic |-> TRUE,l |-> 350,eObj |-> (0 :> 1 @@ 1 :> 2 @@ 2 :> 3 @@ 5 :> 4),nextE |-> 6]),
    ([res |-> "ok",cacheV |-> FALSE,nodes |-> {0, 1, 2, 3},cacheR |-> FALSE,nextN |-> 4,edges |-> (0 :> <<1, 3>> @@ 1 :> <<2, 0>> @@ 2 :> <<1, 0>> @@ 3 :> <<2, 1>> @@ 4 :> <<2, 3>> @@ 5 :> <<0, 3>> @@ 6 :> <<3, 1>>),acyclic |-> FALSE,l |-> 351,eObj |-> (0 :> 1 @@ 1 :> 2 @@ 2 :> 3 @@ 5 :> 4),nextE |-> 7]),
    ([res |-> "ok",cacheV |-> FALSE,nodes |-> {0, 1, 2, 3},cacheR |-> FALSE,nextN |-> 4,edges |-> (0 :> <<1, 3>> @@ 1 :> <<2, 0>> @@ 2 :> <<1, 0>> @@ 3 :> <<2, 1>> @@ 4 :> <<2, 3>> @@ 5 :> <<0, 3>> @@ 6 :> <<3, 1>> @@ 7 :> <<3, 2>>),acyclic |-> FALSE,l |-> 352,eObj |-> (0 :> 1 @@ 1 :> 2 @@ 2 :> 3 @@ 5 :> 4),nextE |-> 8]),
    ([res |-> "ok",cacheV |-> FALSE,nodes |-> {0, 1, 2, 3},cacheR |-> FALSE,nextN |-> 4,edges |-> (0 :> <<1, 3>> @@ 1 :> <<2, 0>> @@ 2 :> <<1, 0>> @@ 3 :> <<2, 1>> @@ 4 :> <<2, 3>> @@ 5 :> <<0, 3>> @@ 6 :> <<3, 1>> @@ 7 :> <<3, 2>> @@ 8 :> <<1, 2>>),acyclic |-> FALSE,l |-> 353,eObj |-> (0 :> 1 @@ 1 :> 2 @@ 2 :> 3 @@ 5 :> 4 @@ 8 :> 5),nextE |-> 9]),
    ([res |-> "F",cacheV |-> FALSE,nodes |-> {0, 1, 2, 3},cacheR |-> FALSE,nextN |-> 4,edges |-> (0 :> <<1, 3>> @@ 1 :> <<2, 0>> @@ 2 :> <<1, 0>> @@ 3 :> <<2, 1>> @@ 4 :> <<2, 3>> @@ 5 :> <<0, 3>> @@ 6 :> <<3, 1>> @@ 7 :> <<3, 2>> @@ 8 :> <<1, 2>>),acyclic |-> FALSE,l |-> 354,eObj |-> (0 :> 1 @@ 1 :> 2 @@ 2 :> 3 @@ 5 :> 4 @@ 8 :> 5),nextE |-> 9]),
    ([res |-> "RT",cacheV |-> FALSE,nodes |-> {0, 1, 2, 3},cacheR |-> FALSE,nextN |-> 4,edges |-> (0 :> <<1, 3>> @@ 1 :> <<2, 0>> @@ 2 :> <<1, 0>> @@ 3 :> <<2, 1>> @@ 4 :> <<2, 3>> @@ 5 :> <<0, 3>> @@ 6 :> <<3, 1>> @@ 7 :> <<3, 2>> @@ 8 :> <<1, 2>>),acyclic |-> FALSE,l |-> 355,eObj |-> (0 :> 1 @@ 1 :> 2 @@ 2 :> 3 @@ 5 :> 4 @@ 8 :> 5),nextE |-> 9]),
    ([res |-> "ok",cacheV |-> FALSE,nodes |-> {0, 1, 2, 3},cacheR |-> FALSE,nextN |-> 4,edges |-> (0 :> <<1, 3>> @@ 1 :> <<2, 0>> @@ 2 :> <<1, 0>> @@ 3 :> <<2, 1>> @@ 4 :> <<2, 3>> @@ 5 :> <<0, 3>> @@ 6 :> <<3, 1>> @@ 7 :> <<3, 2>> @@ 8 :> <<1, 2>>),acyclic |-> FALSE,l |-> 356,eObj |-> (0 :> 1 @@ 1 :> 2 @@ 2 :> 3 @@ 5 :> 4 @@ 8 :> 5),nextE |-> 9]),
    ([res |-> "raise",cacheV |-> FALSE,nodes |-> {0, 1, 2, 3},cacheR |-> FALSE,nextN |-> 4,edges |-> (0 :> <<1, 3>> @@ 1 :> <<2, 0>> @@ 2 :> <<1, 0>> @@ 3 :> <<2, 1>> @@ 4 :> <<2, 3>> @@ 5 :> <<0, 3>> @@ 6 :> <<3, 1>> @@ 7 :> <<3, 2>> @@ 8 :> <<1, 2>>),acyclic |-> FALSE,l |-> 357,eObj |-> (0 :> 1 @@ 1 :> 2 @@ 2 :> 3 @@ 5 :> 4 @@ 8 :> 5),nextE |-> 9]),
    ([res |-> "ok",cacheV |-> FALSE,nodes |-> {0, 1, 3},cacheR |-> FALSE,nextN |-> 4,edges |-> (0 :> <<1, 3>> @@ 2 :> <<1, 0>> @@ 5 :> <<0, 3>> @@ 6 :> <<3, 1>>),acyclic |-> FALSE,l |-> 358,eObj |-> (0 :> 1 @@ 2 :> 3 @@ 5 :> 4),nextE |-> 9]),
    ([res |-> "F",cacheV |-> FALSE,nodes |-> {0, 1, 3},cacheR |-> FALSE,nextN |-> 4,edges |-> (0 :> <<1, 3>> @@ 2 :> <<1, 0>> @@ 5 :> <<0, 3>> @@ 6 :> <<3, 1>>),acyclic |-> FALSE,l |-> 359,eObj |-> (0 :> 1 @@ 2 :> 3 @@ 5 :> 4),nextE |-> 9]),
    ([res |-> "RT",cacheV |-> FALSE,nodes |-> {0, 1, 3},cacheR |-> FALSE,nextN |-> 4,edges |-> (0 :> <<1, 3>> @@ 2 :> <<1, 0>> @@ 5 :> <<0, 3>> @@ 6 :> <<3, 1>>),acyclic |-> FALSE,l |-> 360,eObj |-> (0 :> 1 @@ 2 :> 3 @@ 5 :> 4),nextE |-> 9]),
    ([res |-> "ok",cacheV |-> FALSE,nodes |-> {},cacheR |-> FALSE,nextN |-> 0,edges |-> <<>>,acyclic |-> TRUE,l |-> 361,eObj |-> <<>>,nextE |-> 0]),
    ([res |-> "ok",cacheV |-> FALSE,nodes |-> {0},cacheR |-> FALSE,nextN |-> 1,edges |-> <<>>,acyclic |-> TRUE,l |-> 362,eObj |-> <<>>,nextE |-> 0]),
    ([res |-> "ok",cacheV |-> FALSE,nodes |-> {0, 1},cacheR |-> FALSE,nextN |-> 2,edges |-> <<>>,acyclic |-> TRUE,l |-> 363,eObj |-> <<>>,nextE |-> 0]),
    ([res |-> "ok",cacheV |-> FALSE,nodes |-> {0, 1, 2},cacheR |-> FALSE,nextN |-> 3,edges |-> <<>>,acyclic |-> TRUE,l |-> 364,eObj |-> <<>>,nextE |-> 0]),
    ([res |-> "ok",cacheV |-> FALSE,nodes |-> {0, 1, 2, 3},cacheR |-> FALSE,nextN |-> 4,edges |-> <<>>,acyclic |-> TRUE,l |-> 365,eObj |-> <<>>,nextE |-> 0]),
    ([res |-> "ok",cacheV |-> FALSE,nodes |-> {0, 1, 2, 3},cacheR |-> FALSE,nextN |-> 4,edges |-> (0 :> <<0, 3>>),acyclic |-> TRUE,l |-> 366,eObj |-> <<>>,nextE |-> 1]),
    ([res |-> "T",cacheV |-> TRUE,nodes |-> {0, 1, 2, 3},cacheR |-> FALSE,nextN |-> 4,edges |-> (0 :> <<0, 3>>),acyclic |-> TRUE,l |-> 367,eObj |-> <<>>,nextE |-> 1]),
    ([res |-> "ok",cacheV |-> FALSE,nodes |-> {0, 1, 2, 3},cacheR |-> FALSE,nextN |-> 4,edges |-> (0 :> <<0, 3>> @@ 1 :> <<0, 1>>),acyclic |-> TRUE,l |-> 368,eObj |-> <<1>>,nextE |-> 2]),
    ([res |-> "ok",cacheV |-> FALSE,nodes |-> {0, 1, 2, 3},cacheR |-> FALSE,nextN |-> 4,edges |-> (0 :> <<0, 3>> @@ 1 :> <<0, 1>> @@ 2 :> <<1, 2>>),acyclic |-> TRUE,l |-> 369,eObj |-> <<1, 2>>,nextE |-> 3]),
    ([res |-> "ok",cacheV |-> FALSE,nodes |-> {0, 1, 2, 3},cacheR |-> FALSE,nextN |-> 4,edges |-> (0 :> <<0, 3>> @@ 1 :> <<0, 1>> @@ 2 :> <<1, 2>> @@ 3 :> <<3, 1>>),acyclic |-> TRUE,l |-> 370,eObj |-> <<1, 2, 3>>,nextE |-> 4]),
    ([res |-> "ok",cacheV |-> FALSE,nodes |-> {0, 1, 2, 3},cacheR |-> FALSE,nextN |-> 4,edges |-> (0 :> <<0, 3>> @@ 1 :> <<0, 1>> @@ 2 :> <<1, 2>> @@ 3 :> <<3, 1>> @@ 4 :> <<2, 0>>),acyclic |-> FALSE,l |-> 371,eObj |-> <<1, 2, 3, 4>>,nextE |-> 5]),
    ([res |-> "ok",cacheV |-> FALSE,nodes |-> {0, 1, 2, 3},cacheR |-> FALSE,nextN |-> 4,edges |-> (0 :> <<0, 3>> @@ 1 :> <<0, 1>> @@ 2 :> <<1, 2>> @@ 3 :> <<3, 1>> @@ 4 :> <<2, 0>> @@ 5 :> <<1, 3>>),acyclic |-> FALSE,l |-> 372,eObj |-> <<1, 2, 3, 4>>,nextE |-> 6]),
    ([res |-> "ok",cacheV |-> FALSE,nodes |-> {0, 1, 2, 3},cacheR |-> FALSE,nextN |-> 4,edges |-> (0 :> <<0, 3>> @@ 1 :> <<0, 1>> @@ 2 :> <<1, 2>> @@ 3 :> <<3, 1>> @@ 4 :> <<2, 0>> @@ 5 :> <<1, 3>> @@ 6 :> <<2, 1>>),acyclic |-> FALSE,l |-> 373,eObj |-> <<1, 2, 3, 4>>,nextE |-> 7]),
    ([res |-> "ok",cacheV |-> FALSE,nodes |-> {0, 1, 2, 3},cacheR |-> FALSE,nextN |-> 4,edges |-> (0 :> <<0, 3>> @@ 1 :> <<0, 1>> @@ 2 :> <<1, 2>> @@ 3 :> <<3, 1>> @@ 4 :> <<2, 0>> @@ 5 :> <<1, 3>> @@ 6 :> <<2, 1>> @@ 7 :> <<2, 3>>),acyclic |-> FALSE,l |-> 374,eObj |-> <<1, 2, 3, 4>>,nextE |-> 8]),
    ([res |-> "ok",cacheV |-> FALSE,nodes |-> {0, 1, 2, 3},cacheR |-> FALSE,nextN |-> 4,edges |-> (0 :> <<0, 3>> @@ 1 :> <<0, 1>> @@ 2 :> <<1, 2>> @@ 3 :> <<3, 1>> @@ 4 :> <<2, 0>> @@ 5 :> <<1, 3>> @@ 6 :> <<2, 1>> @@ 7 :> <<2, 3>> @@ 8 :> <<1, 0>>),acyclic |-> FALSE,l |-> 375,eObj |-> <<1, 2, 3, 4>>,nextE |-> 9]),
    ([res |-> "ok",cacheV |-> FALSE,nodes |-> {0, 1, 2, 3},cacheR |-> FALSE,nextN |-> 4,edges |-> (0 :> <<0, 3>> @@ 1 :> <<0, 1>> @@ 2 :> <<1, 2>> @@ 3 :> <<3, 1>> @@ 4 :> <<2, 0>> @@ 5 :> <<1, 3>> @@ 6 :> <<2, 1>> @@ 7 :> <<2, 3>> @@ 8 :> <<1, 0>> @@ 9 :> <<3, 2>>),acyclic |-> FALSE,l |-> 376,eObj |-> (1 :> 1 @@ 2 :> 2 @@ 3 :> 3 @@ 4 :> 4 @@ 9 :> 5),nextE |-> 10]),
    ([res |-> "F",cacheV |-> FALSE,nodes |-> {0, 1, 2, 3},cacheR |-> FALSE,nextN |-> 4,edges |-> (0 :> <<0, 3>> @@ 1 :> <<0, 1>> @@ 2 :> <<1, 2>> @@ 3 :> <<3, 1>> @@ 4 :> <<2, 0>> @@ 5 :> <<1, 3>> @@ 6 :> <<2, 1>> @@ 7 :> <<2, 3>> @@ 8 :> <<1, 0>> @@ 9 :> <<3, 2>>),acyclic |-> FALSE,l |-> 377,eObj |-> (1 :> 1 @@ 2 :> 2 @@ 3 :> 3 @@ 4 :> 4 @@ 9 :> 5),nextE |-> 10]),
    ([res |-> "RT",cacheV |-> FALSE,nodes |-> {0, 1, 2, 3},cacheR |-> FALSE,nextN |-> 4,edges |-> (0 :> <<0, 3>> @@ 1 :> <<0, 1>> @@ 2 :> <<1, 2>> @@ 3 :> <<3, 1>> @@ 4 :> <<2, 0>> @@ 5 :> <<1, 3>> @@ 6 :> <<2, 1>> @@ 7 :> <<2, 3>> @@ 8 :> <<1, 0>> @@ 9 :> <<3, 2>>),acyclic |-> FALSE,l |-> 378,eObj |-> (1 :> 1 @@ 2 :> 2 @@ 3 :> 3 @@ 4 :> 4 @@ 9 :> 5),nextE |-> 10]),
    ([res |-> "ok",cacheV |-> FALSE,nodes |-> {0, 1, 2, 3},cacheR |-> FALSE,nextN |-> 4,edges |-> (0 :> <<0, 3>> @@ 1 :> <<0, 1>> @@ 2 :> <<1, 2>> @@ 3 :> <<3, 1>> @@ 4 :> <<2, 0>> @@ 5 :> <<1, 3>> @@ 6 :> <<2, 1>> @@ 7 :> <<2, 3>> @@ 8 :> <<1, 0>> @@ 9 :> <<3, 2>>),acyclic |-> FALSE,l |-> 379,eObj |-> (1 :> 1 @@ 2 :> 2 @@ 3 :> 3 @@ 4 :> 4 @@ 9 :> 5),nextE |-> 10]),
    ([res |-> "raise",cacheV |-> FALSE,nodes |-> {0, 1, 2, 3},cacheR |-> FALSE,nextN |-> 4,edges |-> (0 :> <<0, 3>> @@ 1 :> <<0, 1>> @@ 2 :> <<1, 2>> @@ 3 :> <<3, 1>> @@ 4 :> <<2, 0>> @@ 5 :> <<1, 3>> @@ 6 :> <<2, 1>> @@ 7 :> <<2, 3>> @@ 8 :> <<1, 0>> @@ 9 :> <<3, 2>>),acyclic |-> FALSE,l |-> 380,eObj |-> (1 :> 1 @@ 2 :> 2 @@ 3 :> 3 @@ 4 :> 4 @@ 9 :> 5),nextE |-> 10]),
    ([res |-> "ok",cacheV |-> FALSE,nodes |-> {0, 1, 2, 3},cacheR |-> FALSE,nextN |-> 4,edges |-> (0 :> <<0, 3>> @@ 1 :> <<0, 1>> @@ 3 :> <<3, 1>> @@ 4 :> <<2, 0>> @@ 5 :> <<1, 3>> @@ 6 :> <<2, 1>> @@ 7 :> <<2, 3>> @@ 8 :> <<1, 0>> @@ 9 :> <<3, 2>>),acyclic |-> FALSE,l |-> 381,eObj |-> (1 :> 1 @@ 3 :> 3 @@ 4 :> 4 @@ 9 :> 5),nextE |-> 10]),
    ([res |-> "F",cacheV |-> FALSE,nodes |-> {0, 1, 2, 3},cacheR |-> FALSE,nextN |-> 4,edges |-> (0 :> <<0, 3>> @@ 1 :> <<0, 1>> @@ 3 :> <<3, 1>> @@ 4 :> <<2, 0>> @@ 5 :> <<1, 3>> @@ 6 :> <<2, 1>> @@ 7 :> <<2, 3>> @@ 8 :> <<1, 0>> @@ 9 :> <<3, 2>>),acyclic |-> FALSE,l |-> 382,eObj |-> (1 :> 1 @@ 3 :> 3 @@ 4 :> 4 @@ 9 :> 5),nextE |-> 10]),
    ([res |-> "RT",cacheV |-> FALSE,nodes |-> {0, 1, 2, 3},cacheR |-> FALSE,nextN |-> 4,edges |-> (0 :> <<0, 3>> @@ 1 :> <<0, 1>> @@ 3 :> <<3, 1>> @@ 4 :> <<2, 0>> @@ 5 :> <<1, 3>> @@ 6 :> <<2, 1>> @@ 7 :> <<2, 3>> @@ 8 :> <<1, 0>> @@ 9 :> <<3, 2>>),acyclic |-> FALSE,l |-> 383,eObj |-> (1 :> 1 @@ 3 :> 3 @@ 4 :> 4 @@ 9 :> 5),nextE |-> 10]),
    ([res |-> "ok",cacheV |-> FALSE,nodes |-> {},cacheR |-> FALSE,nextN |-> 0,edges |-> <<>>,acyclic |-> TRUE,l |-> 384,eObj |-> <<>>,nextE |-> 0]),
    ([res |-> "ok",cacheV |-> FALSE,nodes |-> {0},cacheR |-> FALSE,nextN |-> 1,edges |-> <<>>,acyclic |-> TRUE,l |-> 385,eObj |-> <<>>,nextE |-> 0]),
    ([res |-> "ok",cacheV |-> FALSE,nodes |-> {0, 1},cacheR |-> FALSE,nextN |-> 2,edges |-> <<>>,acyclic |-> TRUE,l |-> 386,eObj |-> <<>>,nextE |-> 0]),
    ([res |-> "ok",cacheV |-> FALSE,nodes |-> {0, 1, 2},cacheR |-> FALSE,nextN |-> 3,edges |-> <<>>,acyclic |-> TRUE,l |-> 387,eObj |-> <<>>,nextE |-> 0]),
    ([res |-> "ok",cacheV |-> FALSE,nodes |-> {0, 1, 2, 3},cacheR |-> FALSE,nextN |-> 4,edges |-> <<>>,acyclic |-> TRUE,l |-> 388,eObj |-> <<>>,nextE |-> 0]),
    ([res |-> "ok",cacheV |-> FALSE,nodes |-> {0, 1, 2, 3},cacheR |-> FALSE,nextN |-> 4,edges |-> (0 :> <<1, 0>>),acyclic |-> TRUE,l |-> 389,eObj |-> (0 :> 1),nextE |-> 1]),
    ([res |-> "ok",cacheV |-> FALSE,nodes |-> {0, 1, 2, 3},cacheR |-> FALSE,nextN |-> 4,edges |-> (0 :> <<1, 0>> @@ 1 :> <<2, 3>>),acyclic |-> TRUE,l |-> 390,eObj |-> (0 :> 1 @@ 1 :> 2),nextE |-> 2]),
    ([res |-> "ok",cacheV |-> FALSE,nodes |-> {0, 1, 2, 3},cacheR |-> FALSE,nextN |-> 4,edges |-> (0 :> <<1, 0>> @@ 1 :> <<2, 3>> @@ 2 :> <<3, 1>>),acyclic |-> TRUE,l |-> 391,eObj |-> (0 :> 1 @@ 1 :> 2),nextE |-> 3]),
    ([res |-> "ok",cacheV |-> FALSE,nodes |-> {0, 1, 2, 3},cacheR |-> FALSE,nextN |-> 4,edges |-> (0 :> <<1, 0>> @@ 1 :> <<2, 3>> @@ 2 :> <<3, 1>> @@ 3 :> <<3, 2>>),acyclic |-> FALSE,l |-> 392,eObj |-> (0 :> 1 @@ 1 :> 2),nextE |-> 4]),
    ([res |-> "ok",cacheV |-> FALSE,nodes |-> {0, 1, 2, 3},cacheR |-> FALSE,nextN |-> 4,edges |-> (0 :> <<1, 0>> @@ 1 :> <<2, 3>> @@ 2 :> <<3, 1>> @@ 3 :> <<3, 2>> @@ 4 :> <<1, 2>>),acyclic |-> FALSE,l |-> 393,eObj |-> (0 :> 1 @@ 1 :> 2),nextE |-> 5]),
    ([res |-> "ok",cacheV |-> FALSE,nodes |-> {0, 1, 2, 3},cacheR |-> FALSE,nextN |-> 4,edges |-> (0 :> <<1, 0>> @@ 1 :> <<2, 3>> @@ 2 :> <<3, 1>> @@ 3 :> <<3, 2>> @@ 4 :> <<1, 2>> @@ 5 :> <<2, 1>>),acyclic |-> FALSE,l |-> 394,eObj |-> (0 :> 1 @@ 1 :> 2 @@ 5 :> 3),nextE |-> 6]),
    ([res |-> "ok",cacheV |-> FALSE,nodes |-> {0, 1, 2, 3},cacheR |-> FALSE,nextN |-> 4,edges |-> (0 :> <<1, 0>> @@ 1 :> <<2, 3>> @@ 2 :> <<3, 1>> @@ 3 :> <<3, 2>> @@ 4 :> <<1, 2>> @@ 5 :> <<2, 1>> @@ 6 :> <<0, 2>>),acyclic |-> FALSE,l |-> 395,eObj |-> (0 :> 1 @@ 1 :> 2 @@ 5 :> 3 @@ 6 :> 4),nextE |-> 7]),
    ([res |-> "F",cacheV |-> FALSE,nodes |-> {0, 1, 2, 3},cacheR |-> FALSE,nextN |-> 4,edges |-> (0 :> <<1, 0>> @@ 1 :> <<2, 3>> @@ 2 :> <<3, 1>> @@ 3 :> <<3, 2>> @@ 4 :> <<1, 2>> @@ 5 :> <<2, 1>> @@ 6 :> <<0, 2>>),acyclic |-> FALSE,l |-> 396,eObj |-> (0 :> 1 @@ 1 :> 2 @@ 5 :> 3 @@ 6 :> 4),nextE |-> 7]),
    ([res |-> "ok",cacheV |-> FALSE,nodes |-> {0, 1, 2, 3},cacheR |-> FALSE,nextN |-> 4,edges |-> (0 :> <<1, 0>> @@ 1 :> <<2, 3>> @@ 2 :> <<3, 1>> @@ 3 :> <<3, 2>> @@ 4 :> <<1, 2>> @@ 5 :> <<2, 1>> @@ 6 :> <<0, 2>> @@ 7 :> <<2, 0>>),acyclic |-> FALSE,l |-> 397,eObj |-> (0 :> 1 @@ 1 :> 2 @@ 5 :> 3 @@ 6 :> 4),nextE |-> 8]),
    ([res |-> "ok",cacheV |-> FALSE,nodes |-> {0, 1, 2, 3},cacheR |-> FALSE,nextN |-> 4,edges |-> (0 :> <<1, 0>> @@ 1 :> <<2, 3>> @@ 2 :> <<3, 1>> @@ 3 :> <<3, 2>> @@ 4 :> <<1, 2>> @@ 5 :> <<2, 1>> @@ 6 :> <<0, 2>> @@ 7 :> <<2, 0>> @@ 8 :> <<1, 3>>),acyclic |-> FALSE,l |-> 398,eObj |-> (0 :> 1 @@ 1 :> 2 @@ 5 :> 3 @@ 6 :> 4 @@ 8 :> 5),nextE |-> 9]),
    ([res |-> "ok",cacheV |-> FALSE,nodes |-> {0, 1, 2, 3},cacheR |-> FALSE,nextN |-> 4,edges |-> (0 :> <<1, 0>> @@ 1 :> <<2, 3>> @@ 2 :> <<3, 1>> @@ 3 :> <<3, 2>> @@ 4 :> <<1, 2>> @@ 5 :> <<2, 1>> @@ 6 :> <<0, 2>> @@ 7 :> <<2, 0>> @@ 8 :> <<1, 3>> @@ 9 :> <<0, 3>>),acyclic |-> FALSE,l |-> 399,eObj |-> (0 :> 1 @@ 1 :> 2 @@ 5 :> 3 @@ 6 :> 4 @@ 8 :> 5),nextE |-> 10]),
    ([res |-> "F",cacheV |-> FALSE,nodes |-> {0, 1, 2, 3},cacheR |-> FALSE,nextN |-> 4,edges |-> (0 :> <<1, 0>> @@ 1 :> <<2, 3>> @@ 2 :> <<3, 1>> @@ 3 :> <<3, 2>> @@ 4 :> <<1, 2>> @@ 5 :> <<2, 1>> @@ 6 :> <<0, 2>> @@ 7 :> <<2, 0>> @@ 8 :> <<1, 3>> @@ 9 :> <<0, 3>>),acyclic |-> FALSE,l |-> 400,eObj |-> (0 :> 1 @@ 1 :> 2 @@ 5 :> 3 @@ 6 :> 4 @@ 8 :> 5),nextE |-> 10]),
    ([res |-> "RT",cacheV |-> FALSE,nodes |-> {0, 1, 2, 3},cacheR |-> FALSE,nextN |-> 4,edges |-> (0 :> <<1, 0>> @@ 1 :> <<2, 3>> @@ 2 :> <<3, 1>> @@ 3 :> <<3, 2>> @@ 4 :> <<1, 2>> @@ 5 :> <<2, 1>> @@ 6 :> <<0, 2>> @@ 7 :> <<2, 0>> @@ 8 :> <<1, 3>> @@ 9 :> <<0, 3>>),acyclic |-> FALSE,l |-> 401,eObj |-> (0 :> 1 @@ 1 :> 2 @@ 5 :> 3 @@ 6 :> 4 @@ 8 :> 5),nextE |-> 10]),
    ([res |-> "ok",cacheV |-> FALSE,nodes |-> {0, 1, 2, 3},cacheR |-> FALSE,nextN |-> 4,edges |-> (0 :> <<1, 0>> @@ 1 :> <<2, 3>> @@ 2 :> <<3, 1>> @@ 3 :> <<3, 2>> @@ 4 :> <<1, 2>> @@ 5 :> <<2, 1>> @@ 6 :> <<0, 2>> @@ 7 :> <<2, 0>> @@ 8 :> <<1, 3>> @@ 9 :> <<0, 3>>),acyclic |-> FALSE,l |-> 402,eObj |-> (0 :> 1 @@ 1 :> 2 @@ 5 :> 3 @@ 6 :> 4 @@ 8 :> 5),nextE |-> 10]),
    ([res |-> "raise",cacheV |-> FALSE,nodes |-> {0, 1, 2, 3},cacheR |-> FALSE,nextN |-> 4,edges |-> (0 :> <<1, 0>> @@ 1 :> <<2, 3>> @@ 2 :> <<3, 1>> @@ 3 :> <<3, 2>> @@ 4 :> <<1, 2>> @@ 5 :> <<2, 1>> @@ 6 :> <<0, 2>> @@ 7 :> <<2, 0>> @@ 8 :> <<1, 3>> @@ 9 :> <<0, 3>>),acyclic |-> FALSE,l |-> 403,eObj |-> (0 :> 1 @@ 1 :> 2 @@ 5 :> 3 @@ 6 :> 4 @@ 8 :> 5),nextE |-> 10]),
    ([res |-> "ok",cacheV |-> FALSE,nodes |-> {0, 1, 2, 3},cacheR |-> FALSE,nextN |-> 4,edges |-> <<<<2, 3>>, <<3, 1>>, <<3, 2>>, <<1, 2>>, <<2, 1>>, <<0, 2>>, <<2, 0>>, <<1, 3>>, <<0, 3>>>>,acyclic |-> FALSE,l |-> 404,eObj |-> (1 :> 2 @@ 5 :> 3 @@ 6 :> 4 @@ 8 :> 5),nextE |-> 10]),
    ([res |-> "F",cacheV |-> FALSE,nodes |-> {0, 1, 2, 3},cacheR |-> FALSE,nextN |-> 4,edges |-> <<<<2, 3>>, <<3, 1>>, <<3, 2>>, <<1, 2>>, <<2, 1>>, <<0, 2>>, <<2, 0>>, <<1, 3>>, <<0, 3>>>>,acyclic |-> FALSE,l |-> 405,eObj |-> (1 :> 2 @@ 5 :> 3 @@ 6 :> 4 @@ 8 :> 5),nextE |-> 10]),
    ([res |-> "RT",cacheV |-> FALSE,nodes |-> {0, 1, 2, 3},cacheR |-> FALSE,nextN |-> 4,edges |-> <<<<2, 3>>, <<3, 1>>, <<3, 2>>, <<1, 2>>, <<2, 1>>, <<0, 2>>, <<2, 0>>, <<1, 3>>, <<0, 3>>>>,acyclic |-> FALSE,l |-> 406,eObj |-> (1 :> 2 @@ 5 :> 3 @@ 6 :> 4 @@ 8 :> 5),nextE |-> 10]),
    ([res |-> "ok",cacheV |-> FALSE,nodes |-> {},cacheR |-> FALSE,nextN |-> 0,edges |-> <<>>,acyclic |-> TRUE,l |-> 407,eObj |-> <<>>,nextE |-> 0]),
    ([res |-> "ok",cacheV |-> FALSE,nodes |-> {0},cacheR |-> FALSE,nextN |-> 1,edges |-> <<>>,acyclic |-> TRUE,l |-> 408,eObj |-> <<>>,nextE |-> 0]),
    ([res |-> "ok",cacheV |-> FALSE,nodes |-> {0, 1},cacheR |-> FALSE,nextN |-> 2,edges |-> <<>>,acyclic |-> TRUE,l |-> 409,eObj |-> <<>>,nextE |-> 0]),
    ([res |-> "ok",cacheV |-> FALSE,nodes |-> {0, 1, 2},cacheR |-> FALSE,nextN |-> 3,edges |-> <<>>,acyclic |-> TRUE,l |-> 410,eObj |-> <<>>,nextE |-> 0]),
    ([res |-> "ok",cacheV |-> FALSE,nodes |-> {0, 1, 2, 3},cacheR |-> FALSE,nextN |-> 4,edges |-> <<>>,acyclic |-> TRUE,l |-> 411,eObj |-> <<>>,nextE |-> 0]),
    ([res |-> "ok",cacheV |-> FALSE,nodes |-> {0, 1, 2, 3},cacheR |-> FALSE,nextN |-> 4,edges |-> (0 :> <<2, 3>>),acyclic |-> TRUE,l |-> 412,eObj |-> (0 :> 1),nextE |-> 1]),
    ([res |-> "ok",cacheV |-> FALSE,nodes |-> {0, 1, 2, 3},cacheR |-> FALSE,nextN |-> 4,edges |-> (0 :> <<2, 3>> @@ 1 :> <<1, 0>>),acyclic |-> TRUE,l |-> 413,eObj |-> (0 :> 1 @@ 1 :> 2),nextE |-> 2]),
    ([res |-> "ok",cacheV |-> FALSE,nodes |-> {0, 1, 2, 3},cacheR |-> FALSE,nextN |-> 4,edges |-> (0 :> <<2, 3>> @@ 1 :> <<1, 0>> @@ 2 :> <<0, 3>>),acyclic |-> TRUE,l |-> 414,eObj |-> (0 :> 1 @@ 1 :> 2),nextE |-> 3]),
    ([res |-> "ok",cacheV |-> FALSE,nodes |-> {0, 1, 2, 3},cacheR |-> FALSE,nextN |-> 4,edges |-> (0 :> <<2, 3>> @@ 1 :> <<1, 0>> @@ 2 :> <<0, 3>> @@ 3 :> <<1, 2>>),acyclic |-> TRUE,l |-> 415,eObj |-> (0 :> 1 @@ 1 :> 2 @@ 3 :> 3),nextE |-> 4]),
    ([res |-> "ok",cacheV |-> FALSE,nodes |-> {0, 1, 2, 3},cacheR |-> FALSE,nextN |-> 4,edges |-> (0 :> <<2, 3>> @@ 1 :> <<1, 0>> @@ 2 :> <<0, 3>> @@ 3 :> <<1, 2>> @@ 4 :> <<0, 1>>),acyclic |-> FALSE,l |-> 416,eObj |-> (0 :> 1 @@ 1 :> 2 @@ 3 :> 3 @@ 4 :> 4),nextE |-> 5]),
    ([res |-> "ok",cacheV |-> FALSE,nodes |-> {0, 1, 2, 3},cacheR |-> FALSE,nextN |-> 4,edges |-> (0 :> <<2, 3>> @@ 1 :> <<1, 0>> @@ 2 :> <<0, 3>> @@ 3 :> <<1, 2>> @@ 4 :> <<0, 1>> @@ 5 :> <<2, 0>>),acyclic |-> FALSE,l |-> 417,eObj |-> (0 :> 1 @@ 1 :> 2 @@ 3 :> 3 @@ 4 :> 4),nextE |-> 6]),
    ([res |-> "ok",cacheV |-> FALSE,nodes |-> {0, 1, 2, 3},cacheR |-> FALSE,nextN |-> 4,edges |-> (0 :> <<2, 3>> @@ 1 :> <<1, 0>> @@ 2 :> <<0, 3>> @@ 3 :> <<1, 2>> @@ 4 :> <<0, 1>> @@ 5 :> <<2, 0>> @@ 6 :> <<0, 2>>),acyclic |-> FALSE,l |-> 418,eObj |-> (0 :> 1 @@ 1 :> 2 @@ 3 :> 3 @@ 4 :> 4 @@ 6 :> 5),nextE |-> 7]),
    ([res |-> "ok",cacheV |-> FALSE,nodes |-> {0, 1, 2, 3},cacheR |-> FALSE,nextN |-> 4,edges |-> (0 :> <<2, 3>> @@ 1 :> <<1, 0>> @@ 2 :> <<0, 3>> @@ 3 :> <<1, 2>> @@ 4 :> <<0, 1>> @@ 5 :> <<2, 0>> @@ 6 :> <<0, 2>> @@ 7 :> <<3, 2>>),acyclic |-> FALSE,l |-> 419,eObj |-> (0 :> 1 @@ 1 :> 2 @@ 3 :> 3 @@ 4 :> 4 @@ 6 :> 5 @@ 7 :> 6),nextE |-> 8]),
    ([res |-> "ok",cacheV |-> FALSE,nodes |-> {0, 1, 2, 3},cacheR |-> FALSE,nextN |-> 4,edges |-> (0 :> <<2, 3>> @@ 1 :> <<1, 0>> @@ 2 :> <<0, 3>> @@ 3 :> <<1, 2>> @@ 4 :> <<0, 1>> @@ 5 :> <<2, 0>> @@ 6 :> <<0, 2>> @@ 7 :> <<3, 2>> @@ 8 :> <<3, 1>>),acyclic |-> FALSE,l |-> 420,eObj |-> (0 :> 1 @@ 1 :> 2 @@ 3 :> 3 @@ 4 :> 4 @@ 6 :> 5 @@ 7 :> 6 @@ 8 :> 7),nextE |-> 9]),
    ([res |-> "ok",cacheV |-> FALSE,nodes |-> {0, 1, 2, 3},cacheR |-> FALSE,nextN |-> 4,edges |-> (0 :> <<2, 3>> @@ 1 :> <<1, 0>> @@ 2 :> <<0, 3>> @@ 3 :> <<1, 2>> @@ 4 :> <<0, 1>> @@ 5 :> <<2, 0>> @@ 6 :> <<0, 2>> @@ 7 :> <<3, 2>> @@ 8 :> <<3, 1>> @@ 9 :> <<2, 1>>),acyclic |-> FALSE,l |-> 421,eObj |-> (0 :> 1 @@ 1 :> 2 @@ 3 :> 3 @@ 4 :> 4 @@ 6 :> 5 @@ 7 :> 6 @@ 8 :> 7),nextE |-> 10]),
    ([res |-> "ok",cacheV |-> FALSE,nodes |-> {0, 1, 2, 3},cacheR |-> FALSE,nextN |-> 4,edges |-> (0 :> <<2, 3>> @@ 1 :> <<1, 0>> @@ 2 :> <<0, 3>> @@ 3 :> <<1, 2>> @@ 4 :> <<0, 1>> @@ 5 :> <<2, 0>> @@ 6 :> <<0, 2>> @@ 7 :> <<3, 2>> @@ 8 :> <<3, 1>> @@ 9 :> <<2, 1>> @@ 10 :> <<1, 3>>),acyclic |-> FALSE,l |-> 422,eObj |-> (0 :> 1 @@ 1 :> 2 @@ 3 :> 3 @@ 4 :> 4 @@ 6 :> 5 @@ 7 :> 6 @@ 8 :> 7),nextE |-> 11]),
    ([res |-> "F",cacheV |-> FALSE,nodes |-> {0, 1, 2, 3},cacheR |-> FALSE,nextN |-> 4,edges |-> (0 :> <<2, 3>> @@ 1 :> <<1, 0>> @@ 2 :> <<0, 3>> @@ 3 :> <<1, 2>> @@ 4 :> <<0, 1>> @@ 5 :> <<2, 0>> @@ 6 :> <<0, 2>> @@ 7 :> <<3, 2>> @@ 8 :> <<3, 1>> @@ 9 :> <<2, 1>> @@ 10 :> <<1, 3>>),acyclic |-> FALSE,l |-> 423,eObj |-> (0 :> 1 @@ 1 :> 2 @@ 3 :> 3 @@ 4 :> 4 @@ 6 :> 5 @@ 7 :> 6 @@ 8 :> 7),nextE |-> 11]),
    ([res |-> "RT",cacheV |-> FALSE,nodes |-> {0, 1, 2, 3},cacheR |-> FALSE,nextN |-> 4,edges |-> (0 :> <<2, 3>> @@ 1 :> <<1, 0>> @@ 2 :> <<0, 3>> @@ 3 :> <<1, 2>> @@ 4 :> <<0, 1>> @@ 5 :> <<2, 0>> @@ 6 :> <<0, 2>> @@ 7 :> <<3, 2>> @@ 8 :> <<3, 1>> @@ 9 :> <<2, 1>> @@ 10 :> <<1, 3>>),acyclic |-> FALSE,l |-> 424,eObj |-> (0 :> 1 @@ 1 :> 2 @@ 3 :> 3 @@ 4 :> 4 @@ 6 :> 5 @@ 7 :> 6 @@ 8 :> 7),nextE |-> 11]),
    ([res |-> "ok",cacheV |-> FALSE,nodes |-> {0, 1, 2, 3},cacheR |-> FALSE,nextN |-> 4,edges |-> (0 :> <<2, 3>> @@ 1 :> <<1, 0>> @@ 2 :> <<0, 3>> @@ 3 :> <<1, 2>> @@ 4 :> <<0, 1>> @@ 5 :> <<2, 0>> @@ 6 :> <<0, 2>> @@ 7 :> <<3, 2>> @@ 8 :> <<3, 1>> @@ 9 :> <<2, 1>> @@ 10 :> <<1, 3>>),acyclic |-> FALSE,l |-> 425,eObj |-> (0 :> 1 @@ 1 :> 2 @@ 3 :> 3 @@ 4 :> 4 @@ 6 :> 5 @@ 7 :> 6 @@ 8 :> 7),nextE |-> 11]),
    ([res |-> "raise",cacheV |-> FALSE,nodes |-> {0, 1, 2, 3},cacheR |-> FALSE,nextN |-> 4,edges |-> (0 :> <<2, 3>> @@ 1 :> <<1, 0>> @@ 2 :> <<0, 3>> @@ 3 :> <<1, 2>> @@ 4 :> <<0, 1>> @@ 5 :> <<2, 0>> @@ 6 :> <<0, 2>> @@ 7 :> <<3, 2>> @@ 8 :> <<3, 1>> @@ 9 :> <<2, 1>> @@ 10 :> <<1, 3>>),acyclic |-> FALSE,l |-> 426,eObj |-> (0 :> 1 @@ 1 :> 2 @@ 3 :> 3 @@ 4 :> 4 @@ 6 :> 5 @@ 7 :> 6 @@ 8 :> 7),nextE |-> 11]),
    ([res |-> "ok",cacheV |-> FALSE,nodes |-> {0, 1, 2, 3, 4},cacheR |-> FALSE,nextN |-> 5,edges |-> (0 :> <<2, 3>> @@ 1 :> <<1, 0>> @@ 2 :> <<0, 3>> @@ 3 :> <<1, 2>> @@ 4 :> <<0, 1>> @@ 5 :> <<2, 0>> @@ 6 :> <<0, 2>> @@ 7 :> <<3, 2>> @@ 8 :> <<3, 1>> @@ 9 :> <<2, 1>> @@ 10 :> <<1, 3>>),acyclic |-> FALSE,l |-> 427,eObj |-> (0 :> 1 @@ 1 :> 2 @@ 3 :> 3 @@ 4 :> 4 @@ 6 :> 5 @@ 7 :> 6 @@ 8 :> 7),nextE |-> 11]),
    ([res |-> "F",cacheV |-> FALSE,nodes |-> {0, 1, 2, 3, 4},cacheR |-> FALSE,nextN |-> 5,edges |-> (0 :> <<2, 3>> @@ 1 :> <<1, 0>> @@ 2 :> <<0, 3>> @@ 3 :> <<1, 2>> @@ 4 :> <<0, 1>> @@ 5 :> <<2, 0>> @@ 6 :> <<0, 2>> @@ 7 :> <<3, 2>> @@ 8 :> <<3, 1>> @@ 9 :> <<2, 1>> @@ 10 :> <<1, 3>>),acyclic |-> FALSE,l |-> 428,eObj |-> (0 :> 1 @@ 1 :> 2 @@ 3 :> 3 @@ 4 :> 4 @@ 6 :> 5 @@ 7 :> 6 @@ 8 :> 7),nextE |-> 11]),
    ([res |-> "RT",cacheV |-> FALSE,nodes |-> {0, 1, 2, 3, 4},cacheR |-> TRUE,nextN |-> 5,edges |-> (0 :> <<2, 3>> @@ 1 :> <<1, 0>> @@ 2 :> <<0, 3>> @@ 3 :> <<1, 2>> @@ 4 :> <<0, 1>> @@ 5 :> <<2, 0>> @@ 6 :> <<0, 2>> @@ 7 :> <<3, 2>> @@ 8 :> <<3, 1>> @@ 9 :> <<2, 1>> @@ 10 :> <<1, 3>>),acyclic |-> FALSE,l |-> 429,eObj |-> (0 :> 1 @@ 1 :> 2 @@ 3 :> 3 @@ 4 :> 4 @@ 6 :> 5 @@ 7 :> 6 @@ 8 :> 7),nextE |-> 11]),
    ([res |-> "ok",cacheV |-> FALSE,nodes |-> {},cacheR |-> FALSE,nextN |-> 0,edges |-> <<>>,acyclic |-> TRUE,l |-> 430,eObj |-> <<>>,nextE |-> 0]),
    ([res |-> "ok",cacheV |-> FALSE,nodes |-> {0},cacheR |-> FALSE,nextN |-> 1,edges |-> <<>>,acyclic |-> TRUE,l |-> 431,eObj |-> <<>>,nextE |-> 0]),
    ([res |-> "ok",cacheV |-> FALSE,nodes |-> {0, 1},cacheR |-> FALSE,nextN |-> 2,edges |-> <<>>,acyclic |-> TRUE,l |-> 432,eObj |-> <<>>,nextE |-> 0]),
    ([res |-> "ok",cacheV |-> FALSE,nodes |-> {0, 1, 2},cacheR |-> FALSE,nextN |-> 3,edges |-> <<>>,acyclic |-> TRUE,l |-> 433,eObj |-> <<>>,nextE |-> 0]),
    ([res |-> "ok",cacheV |-> FALSE,nodes |-> {0, 1, 2, 3},cacheR |-> FALSE,nextN |-> 4,edges |-> <<>>,acyclic |-> TRUE,l |-> 434,eObj |-> <<>>,nextE |-> 0]),
    ([res |-> "ok",cacheV |-> FALSE,nodes |-> {0, 1, 2, 3},cacheR |-> FALSE,nextN |-> 4,edges |-> (0 :> <<3, 0>>),acyclic |-> TRUE,l |-> 435,eObj |-> (0 :> 1),nextE |-> 1]),
    ([res |-> "ok",cacheV |-> FALSE,nodes |-> {0, 1, 2, 3},cacheR |-> FALSE,nextN |-> 4,edges |-> (0 :> <<3, 0>> @@ 1 :> <<3, 2>>),acyclic |-> TRUE,l |-> 436,eObj |-> (0 :> 1 @@ 1 :> 2),nextE |-> 2]),
    ([res |-> "T",cacheV |-> TRUE,nodes |-> {0, 1, 2, 3},cacheR |-> FALSE,nextN |-> 4,edges |-> (0 :> <<3, 0>> @@ 1 :> <<3, 2>>),acyclic |-> TRUE,l |-> 437,eObj |-> (0 :> 1 @@ 1 :> 2),nextE |-> 2]),
    ([res |-> "ok",cacheV |-> FALSE,nodes |-> {0, 1, 2, 3},cacheR |-> FALSE,nextN |-> 4,edges |-> (0 :> <<3, 0>> @@ 1 :> <<3, 2>> @@ 2 :> <<3, 1>>),acyclic |-> TRUE,l |-> 438,eObj |-> (0 :> 1 @@ 1 :> 2),nextE |-> 3]),
    ([res |-> "T",cacheV |-> TRUE,nodes |-> {0, 1, 2, 3},cacheR |-> FALSE,nextN |-> 4,edges |-> (0 :> <<3, 0>> @@ 1 :> <<3, 2>> @@ 2 :> <<3, 1>>),acyclic |-> TRUE,l |-> 439,eObj |-> (0 :> 1 @@ 1 :> 2),nextE |-> 3]),
    ([res |-> "RT",cacheV |-> TRUE,nodes |-> {0, 1, 2, 3},cacheR |-> TRUE,nextN |-> 4,edges |-> (0 :> <<3, 0>> @@ 1 :> <<3, 2>> @@ 2 :> <<3, 1>>),acyclic |-> TRUE,l |-> 440,eObj |-> (0 :> 1 @@ 1 :> 2),nextE |-> 3]),
    ([res |-> "ok",cacheV |-> TRUE,nodes |-> {0, 1, 2, 3},cacheR |-> TRUE,nextN |-> 4,edges |-> (0 :> <<3, 0>> @@ 1 :> <<3, 2>> @@ 2 :> <<3, 1>>),acyclic |-> TRUE,l |-> 441,eObj |-> (0 :> 1 @@ 1 :> 2),nextE |-> 3]),
    ([res |-> "ok",cacheV |-> TRUE,nodes |-> {0, 1, 2, 3},cacheR |-> TRUE,nextN |-> 4,edges |-> (0 :> <<3, 0>> @@ 1 :> <<3, 2>> @@ 2 :> <<3, 1>>),acyclic |-> TRUE,l |-> 442,eObj |-> (0 :> 1 @@ 1 :> 2),nextE |-> 3]),
    ([res |-> "ok",cacheV |-> TRUE,nodes |-> {0, 1, 2, 3},cacheR |-> TRUE,nextN |-> 4,edges |-> (0 :> <<3, 0>> @@ 1 :> <<3, 2>> @@ 2 :> <<3, 1>>),acyclic |-> TRUE,l |-> 443,eObj |-> (0 :> 1 @@ 1 :> 2),nextE |-> 3]),
    ([res |-> "ok",cacheV |-> TRUE,nodes |-> {0, 1, 2, 3},cacheR |-> TRUE,nextN |-> 4,edges |-> (0 :> <<3, 0>> @@ 1 :> <<3, 2>> @@ 2 :> <<3, 1>>),acyclic |-> TRUE,l |-> 444,eObj |-> (0 :> 1 @@ 1 :> 2),nextE |-> 3]),
    ([res |-> "ok",cacheV |-> TRUE,nodes |-> {0, 1, 2, 3},cacheR |-> TRUE,nextN |-> 4,edges |-> (0 :> <<3, 0>> @@ 1 :> <<3, 2>> @@ 2 :> <<3, 1>>),acyclic |-> TRUE,l |-> 445,eObj |-> (0 :> 1 @@ 1 :> 2),nextE |-> 3]),
    ([res |-> "ok",cacheV |-> TRUE,nodes |-> {0, 1, 2, 3},cacheR |-> TRUE,nextN |-> 4,edges |-> (0 :> <<3, 0>> @@ 1 :> <<3, 2>> @@ 2 :> <<3, 1>>),acyclic |-> TRUE,l |-> 446,eObj |-> (0 :> 1 @@ 1 :> 2),nextE |-> 3]),
    ([res |-> "ok",cacheV |-> FALSE,nodes |-> {0, 1, 2},cacheR |-> FALSE,nextN |-> 4,edges |-> <<>>,acyclic |-> TRUE,l |-> 447,eObj |-> <<>>,nextE |-> 3]),
    ([res |-> "T",cacheV |-> TRUE,nodes |-> {0, 1, 2},cacheR |-> FALSE,nextN |-> 4,edges |-> <<>>,acyclic |-> TRUE,l |-> 448,eObj |-> <<>>,nextE |-> 3]),
    ([res |-> "RT",cacheV |-> TRUE,nodes |-> {0, 1, 2},cacheR |-> FALSE,nextN |-> 4,edges |-> <<>>,acyclic |-> TRUE,l |-> 449,eObj |-> <<>>,nextE |-> 3])
    >>
----


=============================================================================

---- CONFIG DagTrace_TTrace_1790489991 ----
CONSTANTS
    MaxN = 1000000
    MaxE = 1000000
    EObjs = { 1 , 2 , 3 , 4 , 5 , 6 , 7 , 8 , 9 , 10 , 11 , 12 , 13 , 14 , 15 , 16 }
    Forget = { }

INVARIANT
    _inv

CHECK_DEADLOCK
    \* CHECK_DEADLOCK off because of PROPERTY or INVARIANT above.
    FALSE

INIT
    _init

NEXT
    _next

CONSTANT
    _TETrace <- _trace

ALIAS
    _expression
=============================================================================
\* Generated on Sun Sep 27 06:19:58 UTC 2026