---- MODULE DagTrace_TTrace_1790491208 ----
EXTENDS Sequences, TLCExt, Toolbox, Naturals, TLC, DagTrace

_expression ==
    LET DagTrace_TEExpression == INSTANCE DagTrace_TEExpression
    IN DagTrace_TEExpression!expression
----

_trace ==
    LET DagTrace_TETrace == INSTANCE DagTrace_TETrace
    IN DagTrace_TETrace!trace
----

_inv ==
    ~(
        TLCGet("level") = Len(_TETrace)
        /\
        res = ("RT")
        /\
        cacheV = (FALSE)
        /\
        nodes = ({0, 1, 2})
        /\
        cacheR = (FALSE)
        /\
        nextN = (3)
        /\
        edges = ((0 :> <<0, 0>>))
        /\
        acyclic = (FALSE)
        /\
        l = (702)
        /\
        eObj = (<<>>)
        /\
        nextE = (1)
    )
----

_init ==
    /\ acyclic = _TETrace[1].acyclic
    /\ l = _TETrace[1].l
    /\ nodes = _TETrace[1].nodes
    /\ res = _TETrace[1].res
    /\ eObj = _TETrace[1].eObj
    /\ edges = _TETrace[1].edges
    /\ cacheR = _TETrace[1].cacheR
    /\ cacheV = _TETrace[1].cacheV
    /\ nextE = _TETrace[1].nextE
    /\ nextN = _TETrace[1].nextN
----

_next ==
    /\ \E i,j \in DOMAIN _TETrace:
        /\ \/ /\ j = i + 1
              /\ i = TLCGet("level")
        /\ acyclic  = _TETrace[i].acyclic
        /\ acyclic' = _TETrace[j].acyclic
        /\ l  = _TETrace[i].l
        /\ l' = _TETrace[j].l
        /\ nodes  = _TETrace[i].nodes
        /\ nodes' = _TETrace[j].nodes
        /\ res  = _TETrace[i].res
        /\ res' = _TETrace[j].res
        /\ eObj  = _TETrace[i].eObj
        /\ eObj' = _TETrace[j].eObj
        /\ edges  = _TETrace[i].edges
        /\ edges' = _TETrace[j].edges
        /\ cacheR  = _TETrace[i].cacheR
        /\ cacheR' = _TETrace[j].cacheR
        /\ cacheV  = _TETrace[i].cacheV
        /\ cacheV' = _TETrace[j].cacheV
        /\ nextE  = _TETrace[i].nextE
        /\ nextE' = _TETrace[j].nextE
        /\ nextN  = _TETrace[i].nextN
        /\ nextN' = _TETrace[j].nextN

\* Uncomment the ASSUME below to write the states of the error trace
\* to the given file in Json format. Note that you can pass any tuple
\* to `JsonSerialize`. For example, a sub-sequence of _TETrace.
    \* ASSUME
    \*     LET J == INSTANCE Json
    \*         IN J!JsonSerialize("DagTrace_TTrace_1790491208.json", _TETrace)

=============================================================================

 Note that you can extract this module `DagTrace_TEExpression`
  to a dedicated file to reuse `expression` (the module in the 
  dedicated `DagTrace_TEExpression.tla` file takes precedence 
  over the module `DagTrace_TEExpression` below).

---- MODULE DagTrace_TEExpression ----
EXTENDS Sequences, TLCExt, Toolbox, Naturals, TLC, DagTrace

expression == 
    [
        \* To hide variables of the `DagTrace` spec from the error trace,
        \* remove the variables below.  The trace will be written in the order
        \* of the fields of this record.
        acyclic |-> acyclic
        ,l |-> l
        ,nodes |-> nodes
        ,res |-> res
        ,eObj |-> eObj
        ,edges |-> edges
        ,cacheR |-> cacheR
        ,cacheV |-> cacheV
        ,nextE |-> nextE
        ,nextN |-> nextN
        
        \* Put additional constant-, state-, and action-level expressions here:
        \* ,_stateNumber |-> _TEPosition
        \* ,_acyclicUnchanged |-> acyclic = acyclic'
        
        \* Format the `acyclic` variable as Json value.
        \* ,_acyclicJson |->
        \*     LET J == INSTANCE Json
        \*     IN J!ToJson(acyclic)
        
        \* Lastly, you may build expressions over arbitrary sets of states by
        \* leveraging the _TETrace operator.  For example, this is how to
        \* count the number of times a spec variable changed up to the current
        \* state in the trace.
        \* ,_acyclicModCount |->
        \*     LET F[s \in DOMAIN _TETrace] ==
        \*         IF s = 1 THEN 0
        \*         ELSE IF _TETrace[s].acyclic # _TETrace[s-1].acyclic
        \*             THEN 1 + F[s-1] ELSE F[s-1]
        \*     IN F[_TEPosition - 1]
    ]

=============================================================================



Parsing and semantic processing can take forever if the trace below is long.
 In this case, it is advised to uncomment the module below to deserialize the
 trace from a generated binary file.

\*
\*---- MODULE DagTrace_TETrace ----
\*EXTENDS IOUtils, TLC, DagTrace
\*
\*trace == IODeserialize("DagTrace_TTrace_1790491208.bin", TRUE)
\*
\*=============================================================================
\*

---- MODULE DagTrace_TETrace ----
EXTENDS TLC, DagTrace

trace == 
    <<
    ([res |-> "ok",cacheV |-> FALSE,nodes |-> {},cacheR |-> FALSE,nextN |-> 0,edges |-> <<>>,acyclic |-> TRUE,l |-> 1,eObj |-> <<>>,nextE |-> 0]),
    ([res |-> "ok",cacheV |-> FALSE,nodes |-> {},cacheR |-> FALSE,nextN |-> 0,edges |-> <<>>,acyclic |-> TRUE,l |-> 2,eObj |-> <<>>,nextE |-> 0]),
    ([res |-> "raise",cacheV |-> FALSE,nodes |-> {},cacheR |-> FALSE,nextN |-> 0,edges |-> <<>>,acyclic |-> TRUE,l |-> 3,eObj |-> <<>>,nextE |-> 0]),
    ([res |-> "raise",cacheV |-> FALSE,nodes |-> {},cacheR |-> FALSE,nextN |-> 0,edges |-> <<>>,acyclic |-> TRUE,l |-> 4,eObj |-> <<>>,nextE |-> 0]),
    ([res |-> "raise",cacheV |-> FALSE,nodes |-> {},cacheR |-> FALSE,nextN |-> 0,edges |-> <<>>,acyclic |-> TRUE,l |-> 5,eObj |-> <<>>,nextE |-> 0]),
    ([res |-> "RT",cacheV |-> FALSE,nodes |-> {},cacheR |-> FALSE,nextN |-> 0,edges |-> <<>>,acyclic |-> TRUE,l |-> 6,eObj |-> <<>>,nextE |-> 0]),
    ([res |-> "raise",cacheV |-> FALSE,nodes |-> {},cacheR |-> FALSE,nextN |-> 0,edges |-> <<>>,acyclic |-> TRUE,l |-> 7,eObj |-> <<>>,nextE |-> 0]),
    ([res |-> "raise",cacheV |-> FALSE,nodes |-> {},cacheR |-> FALSE,nextN |-> 0,edges |-> <<>>,acyclic |-> TRUE,l |-> 8,eObj |-> <<>>,nextE |-> 0]),
    ([res |-> "raise",cacheV |-> FALSE,nodes |-> {},cacheR |-> FALSE,nextN |-> 0,edges |-> <<>>,acyclic |-> TRUE,l |-> 9,eObj |-> <<>>,nextE |-> 0]),
    ([res |-> "raise",cacheV |-> FALSE,nodes |-> {},cacheR |-> FALSE,nextN |-> 0,edges |-> <<>>,acyclic |-> TRUE,l |-> 10,eObj |-> <<>>,nextE |-> 0]),
    ([res |-> "F",cacheV |-> TRUE,nodes |-> {},cacheR |-> FALSE,nextN |-> 0,edges |-> <<>>,acyclic |-> TRUE,l |-> 11,eObj |-> <<>>,nextE |-> 0]),
    ([res |-> "raise",cacheV |-> TRUE,nodes |-> {},cacheR |-> FALSE,nextN |-> 0,edges |-> <<>>,acyclic |-> TRUE,l |-> 12,eObj |-> <<>>,nextE |-> 0]),
    ([res |-> "ok",cacheV |-> FALSE,nodes |-> {0},cacheR |-> FALSE,nextN |-> 1,edges |-> <<>>,acyclic |-> TRUE,l |-> 13,eObj |-> <<>>,nextE |-> 0]),
    ([res |-> "T",cacheV |-> TRUE,nodes |-> {0},cacheR |-> FALSE,nextN |-> 1,edges |-> <<>>,acyclic |-> TRUE,l |-> 14,eObj |-> <<>>,nextE |-> 0]),
    ([res |-> "ok",cacheV |-> FALSE,nodes |-> {0},cacheR |-> FALSE,nextN |-> 1,edges |-> (0 :> <<0, 0>>),acyclic |-> FALSE,l |-> 15,eObj |-> (0 :> 1),nextE |-> 1]),
    ([res |-> "raise",cacheV |-> FALSE,nodes |-> {0},cacheR |-> FALSE,nextN |-> 1,edges |-> (0 :> <<0, 0>>),acyclic |-> FALSE,l |-> 16,eObj |-> (0 :> 1),nextE |-> 1]),
    ([res |-> "ok",cacheV |-> FALSE,nodes |-> {0},cacheR |-> FALSE,nextN |-> 1,edges |-> <<>>,acyclic |-> TRUE,l |-> 17,eObj |-> <<>>,nextE |-> 1]),
    ([res |-> "T",cacheV |-> TRUE,nodes |-> {0},cacheR |-> FALSE,nextN |-> 1,edges |-> <<>>,acyclic |-> TRUE,l |-> 18,eObj |-> <<>>,nextE |-> 1]),
    ([res |-> "T",cacheV |-> TRUE,nodes |-> {0},cacheR |-> FALSE,nextN |-> 1,edges |-> <<>>,acyclic |-> TRUE,l |-> 19,eObj |-> <<>>,nextE |-> 1]),
    ([res |-> "ok",cacheV |-> FALSE,nodes |-> {0},cacheR |-> FALSE,nextN |-> 1,edges |-> <<<<0, 0>>>>,acyclic |-> FALSE,l |-> 20,eObj |-> <<>>,nextE |-> 2]),
    ([res |-> "ok",cacheV |-> FALSE,nodes |-> {0, 1},cacheR |-> FALSE,nextN |-> 2,edges |-> <<<<0, 0>>>>,acyclic |-> FALSE,l |-> 21,eObj |-> <<>>,nextE |-> 2]),
    ([res |-> "ok",cacheV |-> FALSE,nodes |-> {0, 1, 2},cacheR |-> FALSE,nextN |-> 3,edges |-> <<<<0, 0>>>>,acyclic |-> FALSE,l |-> 22,eObj |-> <<>>,nextE |-> 2]),
    ([res |-> "ok",cacheV |-> FALSE,nodes |-> {0, 1, 2},cacheR |-> FALSE,nextN |-> 3,edges |-> <<<<0, 0>>>>,acyclic |-> FALSE,l |-> 23,eObj |-> <<>>,nextE |-> 2]),
    ([res |-> "ok",cacheV |-> FALSE,nodes |-> {0, 1, 2},cacheR |-> FALSE,nextN |-> 3,edges |-> <<>>,acyclic |-> TRUE,l |-> 24,eObj |-> <<>>,nextE |-> 2]),
    ([res |-> "ok",cacheV |-> TRUE,nodes |-> {0, 1, 2},cacheR |-> FALSE,nextN |-> 3,edges |-> <<>>,acyclic |-> TRUE,l |-> 25,eObj |-> <<>>,nextE |-> 2]),
    ([res |-> "ok",cacheV |-> TRUE,nodes |-> {0, 1, 2},cacheR |-> FALSE,nextN |-> 3,edges |-> <<>>,acyclic |-> TRUE,l |-> 26,eObj |-> <<>>,nextE |-> 2]),
    ([res |-> "ok",cacheV |-> FALSE,nodes |-> {0, 1, 2},cacheR |-> FALSE,nextN |-> 3,edges |-> (2 :> <<2, 2>>),acyclic |-> FALSE,l |-> 27,eObj |-> <<>>,nextE |-> 3]),
    ([res |-> "ok",cacheV |-> FALSE,nodes |-> {0, 1, 2},cacheR |-> FALSE,nextN |-> 3,edges |-> (2 :> <<2, 2>>),acyclic |-> FALSE,l |-> 28,eObj |-> <<>>,nextE |-> 3]),
    ([res |-> "F",cacheV |-> FALSE,nodes |-> {0, 1, 2},cacheR |-> FALSE,nextN |-> 3,edges |-> (2 :> <<2, 2>>),acyclic |-> FALSE,l |-> 29,eObj |-> <<>>,nextE |-> 3]),
    ([res |-> "raise",cacheV |-> FALSE,nodes |-> {0, 1, 2},cacheR |-> FALSE,nextN |-> 3,edges |-> (2 :> <<2, 2>>),acyclic |-> FALSE,l |-> 30,eObj |-> <<>>,nextE |-> 3]),
    ([res |-> "raise",cacheV |-> FALSE,nodes |-> {0, 1, 2},cacheR |-> FALSE,nextN |-> 3,edges |-> (2 :> <<2, 2>>),acyclic |-> FALSE,l |-> 31,eObj |-> <<>>,nextE |-> 3]),
    ([res |-> "raise",cacheV |-> FALSE,nodes |-> {0, 1, 2},cacheR |-> FALSE,nextN |-> 3,edges |-> (2 :> <<2, 2>>),acyclic |-> FALSE,l |-> 32,eObj |-> <<>>,nextE |-> 3]),
    ([res |-> "F",cacheV |-> FALSE,nodes |-> {0, 1, 2},cacheR |-> FALSE,nextN |-> 3,edges |-> (2 :> <<2, 2>>),acyclic |-> FALSE,l |-> 33,eObj |-> <<>>,nextE |-> 3]),
    ([res |-> "RF",cacheV |-> FALSE,nodes |-> {0, 1, 2},cacheR |-> FALSE,nextN |-> 3,edges |-> (2 :> <<2, 2>>),acyclic |-> FALSE,l |-> 34,eObj |-> <<>>,nextE |-> 3]),
    ([res |-> "ok",cacheV |-> FALSE,nodes |-> {0, 1, 2},cacheR |-> FALSE,nextN |-> 3,edges |-> (2 :> <<2, 2>>),acyclic |-> FALSE,l |-> 35,eObj |-> <<>>,nextE |-> 3]),
    ([res |-> "ok",cacheV |-> FALSE,nodes |-> {0, 2},cacheR |-> FALSE,nextN |-> 3,edges |-> (2 :> <<2, 2>>),acyclic |-> FALSE,l |-> 36,eObj |-> <<>>,nextE |-> 3]),
    ([res |-> "ok",cacheV |-> FALSE,nodes |-> {0, 2},cacheR |-> FALSE,nextN |-> 3,edges |-> (2 :> <<2, 2>> @@ 3 :> <<0, 0>>),acyclic |-> FALSE,l |-> 37,eObj |-> (3 :> 1),nextE |-> 4]),
    ([res |-> "ok",cacheV |-> FALSE,nodes |-> {0, 2},cacheR |-> FALSE,nextN |-> 3,edges |-> (2 :> <<2, 2>> @@ 3 :> <<0, 0>> @@ 4 :> <<2, 0>>),acyclic |-> FALSE,l |-> 38,eObj |-> (3 :> 1 @@ 4 :> 2),nextE |-> 5]),
    ([res |-> "raise",cacheV |-> FALSE,nodes |-> {0, 2},cacheR |-> FALSE,nextN |-> 3,edges |-> (2 :> <<2, 2>> @@ 3 :> <<0, 0>> @@ 4 :> <<2, 0>>),acyclic |-> FALSE,l |-> 39,eObj |-> (3 :> 1 @@ 4 :> 2),nextE |-> 5]),
    ([res |-> "ok",cacheV |-> FALSE,nodes |-> {0, 2},cacheR |-> FALSE,nextN |-> 3,edges |-> (2 :> <<2, 2>> @@ 3 :> <<0, 0>> @@ 4 :> <<2, 0>> @@ 5 :> <<0, 2>>),acyclic |-> FALSE,l |-> 40,eObj |-> (3 :> 1 @@ 4 :> 2),nextE |-> 6]),
    ([res |-> "F",cacheV |-> FALSE,nodes |-> {0, 2},cacheR |-> FALSE,nextN |-> 3,edges |-> (2 :> <<2, 2>> @@ 3 :> <<0, 0>> @@ 4 :> <<2, 0>> @@ 5 :> <<0, 2>>),acyclic |-> FALSE,l |-> 41,eObj |-> (3 :> 1 @@ 4 :> 2),nextE |-> 6]),
    ([res |-> "RT",cacheV |-> FALSE,nodes |-> {0, 2},cacheR |-> FALSE,nextN |-> 3,edges |-> (2 :> <<2, 2>> @@ 3 :> <<0, 0>> @@ 4 :> <<2, 0>> @@ 5 :> <<0, 2>>),acyclic |-> FALSE,l |-> 42,eObj |-> (3 :> 1 @@ 4 :> 2),nextE |-> 6]),
    ([res |-> "ok",cacheV |-> FALSE,nodes |-> {0, 2},cacheR |-> FALSE,nextN |-> 3,edges |-> (2 :> <<2, 2>> @@ 3 :> <<0, 0>> @@ 4 :> <<2, 0>> @@ 5 :> <<0, 2>>),acyclic |-> FALSE,l |-> 43,eObj |-> (3 :> 1 @@ 4 :> 2),nextE |-> 6]),
    ([res |-> "raise",cacheV |-> FALSE,nodes |-> {0, 2},cacheR |-> FALSE,nextN |-> 3,edges |-> (2 :> <<2, 2>> @@ 3 :> <<0, 0>> @@ 4 :> <<2, 0>> @@ 5 :> <<0, 2>>),acyclic |-> FALSE,l |-> 44,eObj |-> (3 :> 1 @@ 4 :> 2),nextE |-> 6]),
    ([res |-> "ok",cacheV |-> FALSE,nodes |-> {},cacheR |-> FALSE,nextN |-> 0,edges |-> <<>>,acyclic |-> TRUE,l |-> 45,eObj |-> <<>>,nextE |-> 0]),
    ([res |-> "ok",cacheV |-> FALSE,nodes |-> {0},cacheR |-> FALSE,nextN |-> 1,edges |-> <<>>,acyclic |-> TRUE,l |-> 46,eObj |-> <<>>,nextE |-> 0]),
    ([res |-> "ok",cacheV |-> FALSE,nodes |-> {0, 1},cacheR |-> FALSE,nextN |-> 2,edges |-> <<>>,acyclic |-> TRUE,l |-> 47,eObj |-> <<>>,nextE |-> 0]),
    ([res |-> "ok",cacheV |-> FALSE,nodes |-> {0, 1, 2},cacheR |-> FALSE,nextN |-> 3,edges |-> <<>>,acyclic |-> TRUE,l |-> 48,eObj |-> <<>>,nextE |-> 0]),
    ([res |-> "ok",cacheV |-> FALSE,nodes |-> {0, 1, 2, 3},cacheR |-> FALSE,nextN |-> 4,edges |-> <<>>,acyclic |-> TRUE,l |-> 49,eObj |-> <<>>,nextE |-> 0]),
    ([res |-> "ok",cacheV |-> FALSE,nodes |-> {0, 1, 2, 3, 4},cacheR |-> FALSE,nextN |-> 5,edges |-> <<>>,acyclic |-> TRUE,l |-> 50,eObj |-> <<>>,nextE |-> 0]),
    ([res |-> "ok",cacheV |-> FALSE,nodes |-> {0, 1, 2, 3, 4, 5},cacheR |-> FALSE,nextN |-> 6,edges |-> <<>>,acyclic |-> TRUE,l |-> 51,eObj |-> <<>>,nextE |-> 0]),
    ([res |-> "ok",cacheV |-> FALSE,nodes |-> {0, 1, 2, 3, 4, 5},cacheR |-> FALSE,nextN |-> 6,edges |-> (0 :> <<4, 3>>),acyclic |-> TRUE,l |-> 52,eObj |-> (0 :> 1),nextE |-> 1]),
    ([res |-> "ok",cacheV |-> FALSE,nodes |-> {0, 1, 2, 3, 4, 5},cacheR |-> FALSE,nextN |-> 6,edges |-> (0 :> <<4, 3>> @@ 1 :> <<2, 0>>),acyclic |-> TRUE,l |-> 53,eObj |-> (0 :> 1 @@ 1 :> 2),nextE |-> 2]),
    ([res |-> "ok",cacheV |-> FALSE,nodes |-> {0, 1, 2, 3, 4, 5},cacheR |-> FALSE,nextN |-> 6,edges |-> (0 :> <<4, 3>> @@ 1 :> <<2, 0>> @@ 2 :> <<4, 5>>),acyclic |-> TRUE,l |-> 54,eObj |-> (0 :> 1 @@ 1 :> 2),nextE |-> 3]),
    ([res |-> "ok",cacheV |-> FALSE,nodes |-> {0, 1, 2, 3, 4, 5},cacheR |-> FALSE,nextN |-> 6,edges |-> (0 :> <<4, 3>> @@ 1 :> <<2, 0>> @@ 2 :> <<4, 5>> @@ 3 :> <<1, 3>>),acyclic |-> TRUE,l |-> 55,eObj |-> (0 :> 1 @@ 1 :> 2),nextE |-> 4]),
    ([res |-> "ok",cacheV |-> FALSE,nodes |-> {0, 1, 2, 3, 4, 5},cacheR |-> FALSE,nextN |-> 6,edges |-> (0 :> <<4, 3>> @@ 1 :> <<2, 0>> @@ 2 :> <<4, 5>> @@ 3 :> <<1, 3>> @@ 4 :> <<1, 4>>),acyclic |-> TRUE,l |-> 56,eObj |-> (0 :> 1 @@ 1 :> 2),nextE |-> 5]),
    ([res |-> "ok",cacheV |-> FALSE,nodes |-> {0, 1, 2, 3, 4, 5},cacheR |-> FALSE,nextN |-> 6,edges |-> (0 :> <<4, 3>> @@ 1 :> <<2, 0>> @@ 2 :> <<4, 5>> @@ 3 :> <<1, 3>> @@ 4 :> <<1, 4>> @@ 5 :> <<0, 5>>),acyclic |-> TRUE,l |-> 57,eObj |-> (0 :> 1 @@ 1 :> 2),nextE |-> 6]),
    ([res |-> "ok",cacheV |-> FALSE,nodes |-> {0, 1, 2, 3, 4, 5},cacheR |-> FALSE,nextN |-> 6,edges |-> (0 :> <<4, 3>> @@ 1 :> <<2, 0>> @@ 2 :> <<4, 5>> @@ 3 :> <<1, 3>> @@ 4 :> <<1, 4>> @@ 5 :> <<0, 5>> @@ 6 :> <<2, 5>>),acyclic |-> TRUE,l |-> 58,eObj |-> (0 :> 1 @@ 1 :> 2),nextE |-> 7]),
    ([res |-> "RF",cacheV |-> FALSE,nodes |-> {0, 1, 2, 3, 4, 5},cacheR |-> FALSE,nextN |-> 6,edges |-> (0 :> <<4, 3>> @@ 1 :> <<2, 0>> @@ 2 :> <<4, 5>> @@ 3 :> <<1, 3>> @@ 4 :> <<1, 4>> @@ 5 :> <<0, 5>> @@ 6 :> <<2, 5>>),acyclic |-> TRUE,l |-> 59,eObj |-> (0 :> 1 @@ 1 :> 2),nextE |-> 7]),
    ([res |-> "T",cacheV |-> TRUE,nodes |-> {0, 1, 2, 3, 4, 5},cacheR |-> FALSE,nextN |-> 6,edges |-> (0 :> <<4, 3>> @@ 1 :> <<2, 0>> @@ 2 :> <<4, 5>> @@ 3 :> <<1, 3>> @@ 4 :> <<1, 4>> @@ 5 :> <<0, 5>> @@ 6 :> <<2, 5>>),acyclic |-> TRUE,l |-> 60,eObj |-> (0 :> 1 @@ 1 :> 2),nextE |-> 7]),
    ([res |-> "RF",cacheV |-> TRUE,nodes |-> {0, 1, 2, 3, 4, 5},cacheR |-> FALSE,nextN |-> 6,edges |-> (0 :> <<4, 3>> @@ 1 :> <<2, 0>> @@ 2 :> <<4, 5>> @@ 3 :> <<1, 3>> @@ 4 :> <<1, 4>> @@ 5 :> <<0, 5>> @@ 6 :> <<2, 5>>),acyclic |-> TRUE,l |-> 61,eObj |-> (0 :> 1 @@ 1 :> 2),nextE |-> 7]),
    ([res |-> "ok",cacheV |-> TRUE,nodes |-> {0, 1, 2, 3, 4, 5},cacheR |-> FALSE,nextN |-> 6,edges |-> (0 :> <<4, 3>> @@ 1 :> <<2, 0>> @@ 2 :> <<4, 5>> @@ 3 :> <<1, 3>> @@ 4 :> <<1, 4>> @@ 5 :> <<0, 5>> @@ 6 :> <<2, 5>>),acyclic |-> TRUE,l |-> 62,eObj |-> (0 :> 1 @@ 1 :> 2),nextE |-> 7]),
    ([res |-> "ok",cacheV |-> TRUE,nodes |-> {0, 1, 2, 3, 4, 5},cacheR |-> FALSE,nextN |-> 6,edges |-> (0 :> <<4, 3>> @@ 1 :> <<2, 0>> @@ 2 :> <<4, 5>> @@ 3 :> <<1, 3>> @@ 4 :> <<1, 4>> @@ 5 :> <<0, 5>> @@ 6 :> <<2, 5>>),acyclic |-> TRUE,l |-> 63,eObj |-> (0 :> 1 @@ 1 :> 2),nextE |-> 7]),
    ([res |-> "ok",cacheV |-> TRUE,nodes |-> {0, 1, 2, 3, 4, 5},cacheR |-> FALSE,nextN |-> 6,edges |-> (0 :> <<4, 3>> @@ 1 :> <<2, 0>> @@ 2 :> <<4, 5>> @@ 3 :> <<1, 3>> @@ 4 :> <<1, 4>> @@ 5 :> <<0, 5>> @@ 6 :> <<2, 5>>),acyclic |-> TRUE,l |-> 64,eObj |-> (0 :> 1 @@ 1 :> 2),nextE |-> 7]),
    ([res |-> "ok",cacheV |-> TRUE,nodes |-> {0, 1, 2, 3, 4, 5},cacheR |-> FALSE,nextN |-> 6,edges |-> (0 :> <<4, 3>> @@ 1 :> <<2, 0>> @@ 2 :> <<4, 5>> @@ 3 :> <<1, 3>> @@ 4 :> <<1, 4>> @@ 5 :> <<0, 5>> @@ 6 :> <<2, 5>>),acyclic |-> TRUE,l |-> 65,eObj |-> (0 :> 1 @@ 1 :> 2),nextE |-> 7]),
    ([res |-> "ok",cacheV |-> TRUE,nodes |-> {0, 1, 2, 3, 4, 5},cacheR |-> FALSE,nextN |-> 6,edges |-> (0 :> <<4, 3>> @@ 1 :> <<2, 0>> @@ 2 :> <<4, 5>> @@ 3 :> <<1, 3>> @@ 4 :> <<1, 4>> @@ 5 :> <<0, 5>> @@ 6 :> <<2, 5>>),acyclic |-> TRUE,l |-> 66,eObj |-> (0 :> 1 @@ 1 :> 2),nextE |-> 7]),
    ([res |-> "ok",cacheV |-> TRUE,nodes |-> {0, 1, 2, 3, 4, 5},cacheR |-> FALSE,nextN |-> 6,edges |-> (0 :> <<4, 3>> @@ 1 :> <<2, 0>> @@ 2 :> <<4, 5>> @@ 3 :> <<1, 3>> @@ 4 :> <<1, 4>> @@ 5 :> <<0, 5>> @@ 6 :> <<2, 5>>),acyclic |-> TRUE,l |-> 67,eObj |-> (0 :> 1 @@ 1 :> 2),nextE |-> 7]),
    ([res |-> "ok",cacheV |-> TRUE,nodes |-> {0, 1, 2, 3, 4, 5},cacheR |-> FALSE,nextN |-> 6,edges |-> (0 :> <<4, 3>> @@ 1 :> <<2, 0>> @@ 2 :> <<4, 5>> @@ 3 :> <<1, 3>> @@ 4 :> <<1, 4>> @@ 5 :> <<0, 5>> @@ 6 :> <<2, 5>>),acyclic |-> TRUE,l |-> 68,eObj |-> (0 :> 1 @@ 1 :> 2),nextE |-> 7]),
    ([res |-> "ok",cacheV |-> TRUE,nodes |-> {0, 1, 2, 3, 4, 5},cacheR |-> FALSE,nextN |-> 6,edges |-> (0 :> <<4, 3>> @@ 1 :> <<2, 0>> @@ 2 :> <<4, 5>> @@ 3 :> <<1, 3>> @@ 4 :> <<1, 4>> @@ 5 :> <<0, 5>> @@ 6 :> <<2, 5>>),acyclic |-> TRUE,l |-> 69,eObj |-> (0 :> 1 @@ 1 :> 2),nextE |-> 7]),
    ([res |-> "ok",cacheV |-> FALSE,nodes |-> {},cacheR |-> FALSE,nextN |-> 0,edges |-> <<>>,acyclic |-> TRUE,l |-> 70,eObj |-> <<>>,nextE |-> 0]),
    ([res |-> "RT",cacheV |-> FALSE,nodes |-> {},cacheR |-> FALSE,nextN |-> 0,edges |-> <<>>,acyclic |-> TRUE,l |-> 71,eObj |-> <<>>,nextE |-> 0]),
    ([res |-> "raise",cacheV |-> FALSE,nodes |-> {},cacheR |-> FALSE,nextN |-> 0,edges |-> <<>>,acyclic |-> TRUE,l |-> 72,eObj |-> <<>>,nextE |-> 0]),
    ([res |-> "raise",cacheV |-> FALSE,nodes |-> {},cacheR |-> FALSE,nextN |-> 0,edges |-> <<>>,acyclic |-> TRUE,l |-> 73,eObj |-> <<>>,nextE |-> 0]),
    ([res |-> "ok",cacheV |-> FALSE,nodes |-> {0},cacheR |-> FALSE,nextN |-> 1,edges |-> <<>>,acyclic |-> TRUE,l |-> 74,eObj |-> <<>>,nextE |-> 0]),
    ([res |-> "T",cacheV |-> TRUE,nodes |-> {0},cacheR |-> FALSE,nextN |-> 1,edges |-> <<>>,acyclic |-> TRUE,l |-> 75,eObj |-> <<>>,nextE |-> 0]),
    ([res |-> "ok",cacheV |-> TRUE,nodes |-> {0},cacheR |-> FALSE,nextN |-> 1,edges |-> <<>>,acyclic |-> TRUE,l |-> 76,eObj |-> <<>>,nextE |-> 0]),
    ([res |-> "ok",cacheV |-> TRUE,nodes |-> {0},cacheR |-> FALSE,nextN |-> 1,edges |-> <<>>,acyclic |-> TRUE,l |-> 77,eObj |-> <<>>,nextE |-> 0]),
    ([res |-> "ok",cacheV |-> FALSE,nodes |-> {0},cacheR |-> FALSE,nextN |-> 1,edges |-> (0 :> <<0, 0>>),acyclic |-> FALSE,l |-> 78,eObj |-> <<>>,nextE |-> 1]),
    ([res |-> "ok",cacheV |-> FALSE,nodes |-> {0},cacheR |-> FALSE,nextN |-> 1,edges |-> (0 :> <<0, 0>>),acyclic |-> FALSE,l |-> 79,eObj |-> <<>>,nextE |-> 1]),
    ([res |-> "ok",cacheV |-> FALSE,nodes |-> {0},cacheR |-> FALSE,nextN |-> 1,edges |-> <<>>,acyclic |-> TRUE,l |-> 80,eObj |-> <<>>,nextE |-> 1]),
    ([res |-> "ok",cacheV |-> FALSE,nodes |-> {0, 1},cacheR |-> FALSE,nextN |-> 2,edges |-> <<>>,acyclic |-> TRUE,l |-> 81,eObj |-> <<>>,nextE |-> 1]),
    ([res |-> "ok",cacheV |-> FALSE,nodes |-> {0, 1},cacheR |-> FALSE,nextN |-> 2,edges |-> <<<<0, 1>>>>,acyclic |-> TRUE,l |-> 82,eObj |-> <<>>,nextE |-> 2]),
    ([res |-> "ok",cacheV |-> FALSE,nodes |-> {1},cacheR |-> FALSE,nextN |-> 2,edges |-> <<>>,acyclic |-> TRUE,l |-> 83,eObj |-> <<>>,nextE |-> 2]),
    ([res |-> "raise",cacheV |-> FALSE,nodes |-> {1},cacheR |-> FALSE,nextN |-> 2,edges |-> <<>>,acyclic |-> TRUE,l |-> 84,eObj |-> <<>>,nextE |-> 2]),
    ([res |-> "ok",cacheV |-> FALSE,nodes |-> {1},cacheR |-> FALSE,nextN |-> 2,edges |-> <<>>,acyclic |-> TRUE,l |-> 85,eObj |-> <<>>,nextE |-> 2]),
    ([res |-> "ok",cacheV |-> FALSE,nodes |-> {1},cacheR |-> FALSE,nextN |-> 2,edges |-> <<>>,acyclic |-> TRUE,l |-> 86,eObj |-> <<>>,nextE |-> 2]),
    ([res |-> "ok",cacheV |-> FALSE,nodes |-> {1, 2},cacheR |-> FALSE,nextN |-> 3,edges |-> <<>>,acyclic |-> TRUE,l |-> 87,eObj |-> <<>>,nextE |-> 2]),
    ([res |-> "raise",cacheV |-> FALSE,nodes |-> {1, 2},cacheR |-> FALSE,nextN |-> 3,edges |-> <<>>,acyclic |-> TRUE,l |-> 88,eObj |-> <<>>,nextE |-> 2]),
    ([res |-> "ok",cacheV |-> TRUE,nodes |-> {1, 2},cacheR |-> FALSE,nextN |-> 3,edges |-> <<>>,acyclic |-> TRUE,l |-> 89,eObj |-> <<>>,nextE |-> 2]),
    ([res |-> "RF",cacheV |-> TRUE,nodes |-> {1, 2},cacheR |-> FALSE,nextN |-> 3,edges |-> <<>>,acyclic |-> TRUE,l |-> 90,eObj |-> <<>>,nextE |-> 2]),
    ([res |-> "ok",cacheV |-> FALSE,nodes |-> {1, 2, 3},cacheR |-> FALSE,nextN |-> 4,edges |-> <<>>,acyclic |-> TRUE,l |-> 91,eObj |-> <<>>,nextE |-> 2]),
    ([res |-> "T",cacheV |-> TRUE,nodes |-> {1, 2, 3},cacheR |-> FALSE,nextN |-> 4,edges |-> <<>>,acyclic |-> TRUE,l |-> 92,eObj |-> <<>>,nextE |-> 2]),
    ([res |-> "raise",cacheV |-> TRUE,nodes |-> {1, 2, 3},cacheR |-> FALSE,nextN |-> 4,edges |-> <<>>,acyclic |-> TRUE,l |-> 93,eObj |-> <<>>,nextE |-> 2]),
    ([res |-> "ok",cacheV |-> FALSE,nodes |-> {1, 2, 3},cacheR |-> FALSE,nextN |-> 4,edges |-> (2 :> <<1, 1>>),acyclic |-> FALSE,l |-> 94,eObj |-> <<>>,nextE |-> 3]),
    ([res |-> "ok",cacheV |-> FALSE,nodes |-> {1, 3},cacheR |-> FALSE,nextN |-> 4,edges |-> (2 :> <<1, 1>>),acyclic |-> FALSE,l |-> 95,eObj |-> <<>>,nextE |-> 3]),
    ([res |-> "raise",cacheV |-> FALSE,nodes |-> {1, 3},cacheR |-> FALSE,nextN |-> 4,edges |-> (2 :> <<1, 1>>),acyclic |-> FALSE,l |-> 96,eObj |-> <<>>,nextE |-> 3]),
    ([res |-> "raise",cacheV |-> FALSE,nodes |-> {1, 3},cacheR |-> FALSE,nextN |-> 4,edges |-> (2 :> <<1, 1>>),acyclic |-> FALSE,l |-> 97,eObj |-> <<>>,nextE |-> 3]),
    ([res |-> "raise",cacheV |-> FALSE,nodes |-> {1, 3},cacheR |-> FALSE,nextN |-> 4,edges |-> (2 :> <<1, 1>>),acyclic |-> FALSE,l |-> 98,eObj |-> <<>>,nextE |-> 3]),
    ([res |-> "raise",cacheV |-> FALSE,nodes |-> {1, 3},cacheR |-> FALSE,nextN |-> 4,edges |-> (2 :> <<1, 1>>),acyclic |-> FALSE,l |-> 99,eObj |-> <<>>,nextE |-> 3]),
    ([res |-> "raise",cacheV |-> FALSE,nodes |-> {1, 3},cacheR |-> FALSE,nextN |-> 4,edges |-> (2 :> <<1, 1>>),acyclic |-> FALSE,l |-> 100,eObj |-> <<>>,nextE |-> 3]),
    ([res |-> "ok",cacheV |-> FALSE,nodes |-> {1, 3, 4},cacheR |-> FALSE,nextN |-> 5,edges |-> (2 :> <<1, 1>>),acyclic |-> FALSE,l |-> 101,eObj |-> <<>>,nextE |-> 3]),
    ([res |-> "ok",cacheV |-> FALSE,nodes |-> {1, 3, 4, 5},cacheR |-> FALSE,nextN |-> 6,edges |-> (2 :> <<1, 1>>),acyclic |-> FALSE,l |-> 102,eObj |-> <<>>,nextE |-> 3]),
    ([res |-> "F",cacheV |-> FALSE,nodes |-> {1, 3, 4, 5},cacheR |-> FALSE,nextN |-> 6,edges |-> (2 :> <<1, 1>>),acyclic |-> FALSE,l |-> 103,eObj |-> <<>>,nextE |-> 3]),
    ([res |-> "raise",cacheV |-> FALSE,nodes |-> {1, 3, 4, 5},cacheR |-> FALSE,nextN |-> 6,edges |-> (2 :> <<1, 1>>),acyclic |-> FALSE,l |-> 104,eObj |-> <<>>,nextE |-> 3]),
    ([res |-> "raise",cacheV |-> FALSE,nodes |-> {1, 3, 4, 5},cacheR |-> FALSE,nextN |-> 6,edges |-> (2 :> <<1, 1>>),acyclic |-> FALSE,l |-> 105,eObj |-> <<>>,nextE |-> 3]),
    ([res |-> "ok",cacheV |-> FALSE,nodes |-> {1, 3, 4, 5},cacheR |-> FALSE,nextN |-> 6,edges |-> (2 :> <<1, 1>> @@ 3 :> <<4, 4>>),acyclic |-> FALSE,l |-> 106,eObj |-> <<>>,nextE |-> 4]),
    ([res |-> "RF",cacheV |-> FALSE,nodes |-> {1, 3, 4, 5},cacheR |-> FALSE,nextN |-> 6,edges |-> (2 :> <<1, 1>> @@ 3 :> <<4, 4>>),acyclic |-> FALSE,l |-> 107,eObj |-> <<>>,nextE |-> 4]),
    ([res |-> "F",cacheV |-> FALSE,nodes |-> {1, 3, 4, 5},cacheR |-> FALSE,nextN |-> 6,edges |-> (2 :> <<1, 1>> @@ 3 :> <<4, 4>>),acyclic |-> FALSE,l |-> 108,eObj |-> <<>>,nextE |-> 4]),
    ([res |-> "ok",cacheV |-> FALSE,nodes |-> {1, 3, 4, 5},cacheR |-> FALSE,nextN |-> 6,edges |-> (2 :> <<1, 1>> @@ 3 :> <<4, 4>> @@ 4 :> <<1, 3>>),acyclic |-> FALSE,l |-> 109,eObj |-> (4 :> 1),nextE |-> 5]),
    ([res |-> "ok",cacheV |-> FALSE,nodes |-> {1, 3, 4, 5},cacheR |-> FALSE,nextN |-> 6,edges |-> (2 :> <<1, 1>> @@ 4 :> <<1, 3>>),acyclic |-> FALSE,l |-> 110,eObj |-> (4 :> 1),nextE |-> 5]),
    ([res |-> "ok",cacheV |-> FALSE,nodes |-> {1, 3, 4, 5},cacheR |-> FALSE,nextN |-> 6,edges |-> (2 :> <<1, 1>>),acyclic |-> FALSE,l |-> 111,eObj |-> <<>>,nextE |-> 5]),
    ([res |-> "F",cacheV |-> FALSE,nodes |-> {1, 3, 4, 5},cacheR |-> FALSE,nextN |-> 6,edges |-> (2 :> <<1, 1>>),acyclic |-> FALSE,l |-> 112,eObj |-> <<>>,nextE |-> 5]),
    ([res |-> "RF",cacheV |-> FALSE,nodes |-> {1, 3, 4, 5},cacheR |-> FALSE,nextN |-> 6,edges |-> (2 :> <<1, 1>>),acyclic |-> FALSE,l |-> 113,eObj |-> <<>>,nextE |-> 5]),
    ([res |-> "ok",cacheV |-> FALSE,nodes |-> {1, 3, 4, 5},cacheR |-> FALSE,nextN |-> 6,edges |-> (2 :> <<1, 1>>),acyclic |-> FALSE,l |-> 114,eObj |-> <<>>,nextE |-> 5]),
    ([res |-> "raise",cacheV |-> FALSE,nodes |-> {1, 3, 4, 5},cacheR |-> FALSE,nextN |-> 6,edges |-> (2 :> <<1, 1>>),acyclic |-> FALSE,l |-> 115,eObj |-> <<>>,nextE |-> 5]),
    ([res |-> "ok",cacheV |-> FALSE,nodes |-> {},cacheR |-> FALSE,nextN |-> 0,edges |-> <<>>,acyclic |-> TRUE,l |-> 116,eObj |-> <<>>,nextE |-> 0]),
    ([res |-> "ok",cacheV |-> FALSE,nodes |-> {0},cacheR |-> FALSE,nextN |-> 1,edges |-> <<>>,acyclic |-> TRUE,l |-> 117,eObj |-> <<>>,nextE |-> 0]),
    ([res |-> "ok",cacheV |-> FALSE,nodes |-> {0, 1},cacheR |-> FALSE,nextN |-> 2,edges |-> <<>>,acyclic |-> TRUE,l |-> 118,eObj |-> <<>>,nextE |-> 0]),
    ([res |-> "ok",cacheV |-> FALSE,nodes |-> {0, 1, 2},cacheR |-> FALSE,nextN |-> 3,edges |-> <<>>,acyclic |-> TRUE,l |-> 119,eObj |-> <<>>,nextE |-> 0]),
    ([res |-> "ok",cacheV |-> FALSE,nodes |-> {0, 1, 2, 3},cacheR |-> FALSE,nextN |-> 4,edges |-> <<>>,acyclic |-> TRUE,l |-> 120,eObj |-> <<>>,nextE |-> 0]),
    ([res |-> "ok",cacheV |-> FALSE,nodes |-> {0, 1, 2, 3, 4},cacheR |-> FALSE,nextN |-> 5,edges |-> <<>>,acyclic |-> TRUE,l |-> 121,eObj |-> <<>>,nextE |-> 0]),
    ([res |-> "ok",cacheV |-> FALSE,nodes |-> {0, 1, 2, 3, 4},cacheR |-> FALSE,nextN |-> 5,edges |-> (0 :> <<1, 4>>),acyclic |-> TRUE,l |-> 122,eObj |-> (0 :> 1),nextE |-> 1]),
    ([res |-> "ok",cacheV |-> FALSE,nodes |-> {0, 1, 2, 3, 4},cacheR |-> FALSE,nextN |-> 5,edges |-> (0 :> <<1, 4>> @@ 1 :> <<2, 1>>),acyclic |-> TRUE,l |-> 123,eObj |-> (0 :> 1 @@ 1 :> 2),nextE |-> 2]),
    ([res |-> "T",cacheV |-> TRUE,nodes |-> {0, 1, 2, 3, 4},cacheR |-> FALSE,nextN |-> 5,edges |-> (0 :> <<1, 4>> @@ 1 :> <<2, 1>>),acyclic |-> TRUE,l |-> 124,eObj |-> (0 :> 1 @@ 1 :> 2),nextE |-> 2]),
    ([res |-> "ok",cacheV |-> FALSE,nodes |-> {0, 1, 2, 3, 4},cacheR |-> FALSE,nextN |-> 5,edges |-> (0 :> <<1, 4>> @@ 1 :> <<2, 1>> @@ 2 :> <<3, 4>>),acyclic |-> TRUE,l |-> 125,eObj |-> (0 :> 1 @@ 1 :> 2),nextE |-> 3]),
    ([res |-> "T",cacheV |-> TRUE,nodes |-> {0, 1, 2, 3, 4},cacheR |-> FALSE,nextN |-> 5,edges |-> (0 :> <<1, 4>> @@ 1 :> <<2, 1>> @@ 2 :> <<3, 4>>),acyclic |-> TRUE,l |-> 126,eObj |-> (0 :> 1 @@ 1 :> 2),nextE |-> 3]),
    ([res |-> "ok",cacheV |-> FALSE,nodes |-> {0, 1, 2, 3, 4},cacheR |-> FALSE,nextN |-> 5,edges |-> (0 :> <<1, 4>> @@ 1 :> <<2, 1>> @@ 2 :> <<3, 4>> @@ 3 :> <<0, 1>>),acyclic |-> TRUE,l |-> 127,eObj |-> (0 :> 1 @@ 1 :> 2),nextE |-> 4]),
    ([res |-> "T",cacheV |-> TRUE,nodes |-> {0, 1, 2, 3, 4},cacheR |-> FALSE,nextN |-> 5,edges |-> (0 :> <<1, 4>> @@ 1 :> <<2, 1>> @@ 2 :> <<3, 4>> @@ 3 :> <<0, 1>>),acyclic |-> TRUE,l |-> 128,eObj |-> (0 :> 1 @@ 1 :> 2),nextE |-> 4]),
    ([res |-> "T",cacheV |-> TRUE,nodes |-> {0, 1, 2, 3, 4},cacheR |-> FALSE,nextN |-> 5,edges |-> (0 :> <<1, 4>> @@ 1 :> <<2, 1>> @@ 2 :> <<3, 4>> @@ 3 :> <<0, 1>>),acyclic |-> TRUE,l |-> 129,eObj |-> (0 :> 1 @@ 1 :> 2),nextE |-> 4]),
    ([res |-> "RF",cacheV |-> TRUE,nodes |-> {0, 1, 2, 3, 4},cacheR |-> FALSE,nextN |-> 5,edges |-> (0 :> <<1, 4>> @@ 1 :> <<2, 1>> @@ 2 :> <<3, 4>> @@ 3 :> <<0, 1>>),acyclic |-> TRUE,l |-> 130,eObj |-> (0 :> 1 @@ 1 :> 2),nextE |-> 4]),
    ([res |-> "ok",cacheV |-> TRUE,nodes |-> {0, 1, 2, 3, 4},cacheR |-> FALSE,nextN |-> 5,edges |-> (0 :> <<1, 4>> @@ 1 :> <<2, 1>> @@ 2 :> <<3, 4>> @@ 3 :> <<0, 1>>),acyclic |-> TRUE,l |-> 131,eObj |-> (0 :> 1 @@ 1 :> 2),nextE |-> 4]),
    ([res |-> "ok",cacheV |-> TRUE,nodes |-> {0, 1, 2, 3, 4},cacheR |-> FALSE,nextN |-> 5,edges |-> (0 :> <<1, 4>> @@ 1 :> <<2, 1>> @@ 2 :> <<3, 4>> @@ 3 :> <<0, 1>>),acyclic |-> TRUE,l |-> 132,eObj |-> (0 :> 1 @@ 1 :> 2),nextE |-> 4]),
    ([res |-> "ok",cacheV |-> TRUE,nodes |-> {0, 1, 2, 3, 4},cacheR |-> FALSE,nextN |-> 5,edges |-> (0 :> <<1, 4>> @@ 1 :> <<2, 1>> @@ 2 :> <<3, 4>> @@ 3 :> <<0, 1>>),acyclic |-> TRUE,l |-> 133,eObj |-> (0 :> 1 @@ 1 :> 2),nextE |-> 4]),
    ([res |-> "ok",cacheV |-> TRUE,nodes |-> {0, 1, 2, 3, 4},cacheR |-> FALSE,nextN |-> 5,edges |-> (0 :> <<1, 4>> @@ 1 :> <<2, 1>> @@ 2 :> <<3, 4>> @@ 3 :> <<0, 1>>),acyclic |-> TRUE,l |-> 134,eObj |-> (0 :> 1 @@ 1 :> 2),nextE |-> 4]),
    ([res |-> "ok",cacheV |-> TRUE,nodes |-> {0, 1, 2, 3, 4},cacheR |-> FALSE,nextN |-> 5,edges |-> (0 :> <<1, 4>> @@ 1 :> <<2, 1>> @@ 2 :> <<3, 4>> @@ 3 :> <<0, 1>>),acyclic |-> TRUE,l |-> 135,eObj |-> (0 :> 1 @@ 1 :> 2),nextE |-> 4]),
    ([res |-> "ok",cacheV |-> TRUE,nodes |-> {0, 1, 2, 3, 4},cacheR |-> FALSE,nextN |-> 5,edges |-> (0 :> <<1, 4>> @@ 1 :> <<2, 1>> @@ 2 :> <<3, 4>> @@ 3 :> <<0, 1>>),acyclic |-> TRUE,l |-> 136,eObj |-> (0 :> 1 @@ 1 :> 2),nextE |-> 4]),
    ([res |-> "ok",cacheV |-> TRUE,nodes |-> {0, 1, 2, 3, 4},cacheR |-> FALSE,nextN |-> 5,edges |-> (0 :> <<1, 4>> @@ 1 :> <<2, 1>> @@ 2 :> <<3, 4>> @@ 3 :> <<0, 1>>),acyclic |-> TRUE,l |-> 137,eObj |-> (0 :> 1 @@ 1 :> 2),nextE |-> 4]),
    ([res |-> "ok",cacheV |-> FALSE,nodes |-> {},cacheR |-> FALSE,nextN |-> 0,edges |-> <<>>,acyclic |-> TRUE,l |-> 138,eObj |-> <<>>,nextE |-> 0]),
    ([res |-> "ok",cacheV |-> FALSE,nodes |-> {0},cacheR |-> FALSE,nextN |-> 1,edges |-> <<>>,acyclic |-> TRUE,l |-> 139,eObj |-> <<>>,nextE |-> 0]),
    ([res |-> "ok",cacheV |-> FALSE,nodes |-> {0, 1},cacheR |-> FALSE,nextN |-> 2,edges |-> <<>>,acyclic |-> TRUE,l |-> 140,eObj |-> <<>>,nextE |-> 0]),
    ([res |-> "raise",cacheV |-> FALSE,nodes |-> {0, 1},cacheR |-> FALSE,nextN |-> 2,edges |-> <<>>,acyclic |-> TRUE,l |-> 141,eObj |-> <<>>,nextE |-> 0]),
    ([res |-> "ok",cacheV |-> FALSE,nodes |-> {0, 1},cacheR |-> FALSE,nextN |-> 2,edges |-> (0 :> <<1, 0>>),acyclic |-> TRUE,l |-> 142,eObj |-> <<>>,nextE |-> 1]),
    ([res |-> "ok",cacheV |-> FALSE,nodes |-> {0, 1},cacheR |-> FALSE,nextN |-> 2,edges |-> (0 :> <<1, 0>> @@ 1 :> <<0, 0>>),acyclic |-> FALSE,l |-> 143,eObj |-> <<>>,nextE |-> 2]),
    ([res |-> "ok",cacheV |-> FALSE,nodes |-> {0, 1},cacheR |-> FALSE,nextN |-> 2,edges |-> (0 :> <<1, 0>> @@ 1 :> <<0, 0>> @@ 2 :> <<0, 1>>),acyclic |-> FALSE,l |-> 144,eObj |-> <<>>,nextE |-> 3]),
    ([res |-> "ok",cacheV |-> FALSE,nodes |-> {0, 1},cacheR |-> FALSE,nextN |-> 2,edges |-> (0 :> <<1, 0>> @@ 1 :> <<0, 0>> @@ 2 :> <<0, 1>> @@ 3 :> <<1, 1>>),acyclic |-> FALSE,l |-> 145,eObj |-> (3 :> 1),nextE |-> 4]),
    ([res |-> "raise",cacheV |-> FALSE,nodes |-> {0, 1},cacheR |-> FALSE,nextN |-> 2,edges |-> (0 :> <<1, 0>> @@ 1 :> <<0, 0>> @@ 2 :> <<0, 1>> @@ 3 :> <<1, 1>>),acyclic |-> FALSE,l |-> 146,eObj |-> (3 :> 1),nextE |-> 4]),
    ([res |-> "raise",cacheV |-> FALSE,nodes |-> {0, 1},cacheR |-> FALSE,nextN |-> 2,edges |-> (0 :> <<1, 0>> @@ 1 :> <<0, 0>> @@ 2 :> <<0, 1>> @@ 3 :> <<1, 1>>),acyclic |-> FALSE,l |-> 147,eObj |-> (3 :> 1),nextE |-> 4]),
    ([res |-> "raise",cacheV |-> FALSE,nodes |-> {0, 1},cacheR |-> FALSE,nextN |-> 2,edges |-> (0 :> <<1, 0>> @@ 1 :> <<0, 0>> @@ 2 :> <<0, 1>> @@ 3 :> <<1, 1>>),acyclic |-> FALSE,l |-> 148,eObj |-> (3 :> 1),nextE |-> 4]),
    ([res |-> "ok",cacheV |-> FALSE,nodes |-> {0, 1},cacheR |-> FALSE,nextN |-> 2,edges |-> (0 :> <<1, 0>> @@ 2 :> <<0, 1>> @@ 3 :> <<1, 1>>),acyclic |-> FALSE,l |-> 149,eObj |-> (3 :> 1),nextE |-> 4]),
    ([res |-> "F",cacheV |-> FALSE,nodes |-> {0, 1},cacheR |-> FALSE,nextN |-> 2,edges |-> (0 :> <<1, 0>> @@ 2 :> <<0, 1>> @@ 3 :> <<1, 1>>),acyclic |-> FALSE,l |-> 150,eObj |-> (3 :> 1),nextE |-> 4]),
    ([res |-> "ok",cacheV |-> FALSE,nodes |-> {0, 1, 2},cacheR |-> FALSE,nextN |-> 3,edges |-> (0 :> <<1, 0>> @@ 2 :> <<0, 1>> @@ 3 :> <<1, 1>>),acyclic |-> FALSE,l |-> 151,eObj |-> (3 :> 1),nextE |-> 4]),
    ([res |-> "ok",cacheV |-> FALSE,nodes |-> {0, 1},cacheR |-> FALSE,nextN |-> 3,edges |-> (0 :> <<1, 0>> @@ 2 :> <<0, 1>> @@ 3 :> <<1, 1>>),acyclic |-> FALSE,l |-> 152,eObj |-> (3 :> 1),nextE |-> 4]),
    ([res |-> "ok",cacheV |-> FALSE,nodes |-> {0, 1},cacheR |-> FALSE,nextN |-> 3,edges |-> (0 :> <<1, 0>> @@ 2 :> <<0, 1>> @@ 3 :> <<1, 1>>),acyclic |-> FALSE,l |-> 153,eObj |-> (3 :> 1),nextE |-> 4]),
    ([res |-> "raise",cacheV |-> FALSE,nodes |-> {0, 1},cacheR |-> FALSE,nextN |-> 3,edges |-> (0 :> <<1, 0>> @@ 2 :> <<0, 1>> @@ 3 :> <<1, 1>>),acyclic |-> FALSE,l |-> 154,eObj |-> (3 :> 1),nextE |-> 4]),
    ([res |-> "F",cacheV |-> FALSE,nodes |-> {0, 1},cacheR |-> FALSE,nextN |-> 3,edges |-> (0 :> <<1, 0>> @@ 2 :> <<0, 1>> @@ 3 :> <<1, 1>>),acyclic |-> FALSE,l |-> 155,eObj |-> (3 :> 1),nextE |-> 4]),
    ([res |-> "ok",cacheV |-> FALSE,nodes |-> {0, 1, 3},cacheR |-> FALSE,nextN |-> 4,edges |-> (0 :> <<1, 0>> @@ 2 :> <<0, 1>> @@ 3 :> <<1, 1>>),acyclic |-> FALSE,l |-> 156,eObj |-> (3 :> 1),nextE |-> 4]),
    ([res |-> "ok",cacheV |-> FALSE,nodes |-> {0, 1, 3},cacheR |-> FALSE,nextN |-> 4,edges |-> (0 :> <<1, 0>> @@ 2 :> <<0, 1>> @@ 3 :> <<1, 1>> @@ 4 :> <<3, 0>>),acyclic |-> FALSE,l |-> 157,eObj |-> (3 :> 1),nextE |-> 5]),
    ([res |-> "raise",cacheV |-> FALSE,nodes |-> {0, 1, 3},cacheR |-> FALSE,nextN |-> 4,edges |-> (0 :> <<1, 0>> @@ 2 :> <<0, 1>> @@ 3 :> <<1, 1>> @@ 4 :> <<3, 0>>),acyclic |-> FALSE,l |-> 158,eObj |-> (3 :> 1),nextE |-> 5]),
    ([res |-> "raise",cacheV |-> FALSE,nodes |-> {0, 1, 3},cacheR |-> FALSE,nextN |-> 4,edges |-> (0 :> <<1, 0>> @@ 2 :> <<0, 1>> @@ 3 :> <<1, 1>> @@ 4 :> <<3, 0>>),acyclic |-> FALSE,l |-> 159,eObj |-> (3 :> 1),nextE |-> 5]),
    ([res |-> "F",cacheV |-> FALSE,nodes |-> {0, 1, 3},cacheR |-> FALSE,nextN |-> 4,edges |-> (0 :> <<1, 0>> @@ 2 :> <<0, 1>> @@ 3 :> <<1, 1>> @@ 4 :> <<3, 0>>),acyclic |-> FALSE,l |-> 160,eObj |-> (3 :> 1),nextE |-> 5]),
    ([res |-> "F",cacheV |-> FALSE,nodes |-> {0, 1, 3},cacheR |-> FALSE,nextN |-> 4,edges |-> (0 :> <<1, 0>> @@ 2 :> <<0, 1>> @@ 3 :> <<1, 1>> @@ 4 :> <<3, 0>>),acyclic |-> FALSE,l |-> 161,eObj |-> (3 :> 1),nextE |-> 5]),
    ([res |-> "ok",cacheV |-> FALSE,nodes |-> {0, 1, 3},cacheR |-> FALSE,nextN |-> 4,edges |-> (0 :> <<1, 0>> @@ 2 :> <<0, 1>> @@ 3 :> <<1, 1>> @@ 4 :> <<3, 0>>),acyclic |-> FALSE,l |-> 162,eObj |-> (3 :> 1),nextE |-> 5]),
    ([res |-> "raise",cacheV |-> FALSE,nodes |-> {0, 1, 3},cacheR |-> FALSE,nextN |-> 4,edges |-> (0 :> <<1, 0>> @@ 2 :> <<0, 1>> @@ 3 :> <<1, 1>> @@ 4 :> <<3, 0>>),acyclic |-> FALSE,l |-> 163,eObj |-> (3 :> 1),nextE |-> 5]),
    ([res |-> "RT",cacheV |-> FALSE,nodes |-> {0, 1, 3},cacheR |-> TRUE,nextN |-> 4,edges |-> (0 :> <<1, 0>> @@ 2 :> <<0, 1>> @@ 3 :> <<1, 1>> @@ 4 :> <<3, 0>>),acyclic |-> FALSE,l |-> 164,eObj |-> (3 :> 1),nextE |-> 5]),
    ([res |-> "ok",cacheV |-> FALSE,nodes |-> {0, 1, 3, 4},cacheR |-> FALSE,nextN |-> 5,edges |-> (0 :> <<1, 0>> @@ 2 :> <<0, 1>> @@ 3 :> <<1, 1>> @@ 4 :> <<3, 0>>),acyclic |-> FALSE,l |-> 165,eObj |-> (3 :> 1),nextE |-> 5]),
    ([res |-> "ok",cacheV |-> FALSE,nodes |-> {0, 1, 3, 4},cacheR |-> FALSE,nextN |-> 5,edges |-> (0 :> <<1, 0>> @@ 2 :> <<0, 1>> @@ 3 :> <<1, 1>> @@ 4 :> <<3, 0>> @@ 5 :> <<0, 4>>),acyclic |-> FALSE,l |-> 166,eObj |-> (3 :> 1),nextE |-> 6]),
    ([res |-> "raise",cacheV |-> FALSE,nodes |-> {0, 1, 3, 4},cacheR |-> FALSE,nextN |-> 5,edges |-> (0 :> <<1, 0>> @@ 2 :> <<0, 1>> @@ 3 :> <<1, 1>> @@ 4 :> <<3, 0>> @@ 5 :> <<0, 4>>),acyclic |-> FALSE,l |-> 167,eObj |-> (3 :> 1),nextE |-> 6]),
    ([res |-> "F",cacheV |-> FALSE,nodes |-> {0, 1, 3, 4},cacheR |-> FALSE,nextN |-> 5,edges |-> (0 :> <<1, 0>> @@ 2 :> <<0, 1>> @@ 3 :> <<1, 1>> @@ 4 :> <<3, 0>> @@ 5 :> <<0, 4>>),acyclic |-> FALSE,l |-> 168,eObj |-> (3 :> 1),nextE |-> 6]),
    ([res |-> "raise",cacheV |-> FALSE,nodes |-> {0, 1, 3, 4},cacheR |-> FALSE,nextN |-> 5,edges |-> (0 :> <<1, 0>> @@ 2 :> <<0, 1>> @@ 3 :> <<1, 1>> @@ 4 :> <<3, 0>> @@ 5 :> <<0, 4>>),acyclic |-> FALSE,l |-> 169,eObj |-> (3 :> 1),nextE |-> 6]),
    ([res |-> "raise",cacheV |-> FALSE,nodes |-> {0, 1, 3, 4},cacheR |-> FALSE,nextN |-> 5,edges |-> (0 :> <<1, 0>> @@ 2 :> <<0, 1>> @@ 3 :> <<1, 1>> @@ 4 :> <<3, 0>> @@ 5 :> <<0, 4>>),acyclic |-> FALSE,l |-> 170,eObj |-> (3 :> 1),nextE |-> 6]),
    ([res |-> "ok",cacheV |-> FALSE,nodes |-> {0, 1, 3, 4, 5},cacheR |-> FALSE,nextN |-> 6,edges |-> (0 :> <<1, 0>> @@ 2 :> <<0, 1>> @@ 3 :> <<1, 1>> @@ 4 :> <<3, 0>> @@ 5 :> <<0, 4>>),acyclic |-> FALSE,l |-> 171,eObj |-> (3 :> 1),nextE |-> 6]),
    ([res |-> "RF",cacheV |-> FALSE,nodes |-> {0, 1, 3, 4, 5},cacheR |-> FALSE,nextN |-> 6,edges |-> (0 :> <<1, 0>> @@ 2 :> <<0, 1>> @@ 3 :> <<1, 1>> @@ 4 :> <<3, 0>> @@ 5 :> <<0, 4>>),acyclic |-> FALSE,l |-> 172,eObj |-> (3 :> 1),nextE |-> 6]),
    ([res |-> "raise",cacheV |-> FALSE,nodes |-> {0, 1, 3, 4, 5},cacheR |-> FALSE,nextN |-> 6,edges |-> (0 :> <<1, 0>> @@ 2 :> <<0, 1>> @@ 3 :> <<1, 1>> @@ 4 :> <<3, 0>> @@ 5 :> <<0, 4>>),acyclic |-> FALSE,l |-> 173,eObj |-> (3 :> 1),nextE |-> 6]),
    ([res |-> "raise",cacheV |-> FALSE,nodes |-> {0, 1, 3, 4, 5},cacheR |-> FALSE,nextN |-> 6,edges |-> (0 :> <<1, 0>> @@ 2 :> <<0, 1>> @@ 3 :> <<1, 1>> @@ 4 :> <<3, 0>> @@ 5 :> <<0, 4>>),acyclic |-> FALSE,l |-> 174,eObj |-> (3 :> 1),nextE |-> 6]),
    ([res |-> "ok",cacheV |-> FALSE,nodes |-> {0, 1, 3, 4, 5},cacheR |-> FALSE,nextN |-> 6,edges |-> (0 :> <<1, 0>> @@ 2 :> <<0, 1>> @@ 3 :> <<1, 1>> @@ 4 :> <<3, 0>> @@ 5 :> <<0, 4>> @@ 6 :> <<4, 5>>),acyclic |-> FALSE,l |-> 175,eObj |-> (3 :> 1),nextE |-> 7]),
    ([res |-> "ok",cacheV |-> FALSE,nodes |-> {0, 1, 3, 4, 5},cacheR |-> FALSE,nextN |-> 6,edges |-> (0 :> <<1, 0>> @@ 2 :> <<0, 1>> @@ 3 :> <<1, 1>> @@ 4 :> <<3, 0>> @@ 5 :> <<0, 4>> @@ 6 :> <<4, 5>> @@ 7 :> <<4, 4>>),acyclic |-> FALSE,l |-> 176,eObj |-> (3 :> 1 @@ 7 :> 4),nextE |-> 8]),
    ([res |-> "F",cacheV |-> FALSE,nodes |-> {0, 1, 3, 4, 5},cacheR |-> FALSE,nextN |-> 6,edges |-> (0 :> <<1, 0>> @@ 2 :> <<0, 1>> @@ 3 :> <<1, 1>> @@ 4 :> <<3, 0>> @@ 5 :> <<0, 4>> @@ 6 :> <<4, 5>> @@ 7 :> <<4, 4>>),acyclic |-> FALSE,l |-> 177,eObj |-> (3 :> 1 @@ 7 :> 4),nextE |-> 8]),
    ([res |-> "RT",cacheV |-> FALSE,nodes |-> {0, 1, 3, 4, 5},cacheR |-> TRUE,nextN |-> 6,edges |-> (0 :> <<1, 0>> @@ 2 :> <<0, 1>> @@ 3 :> <<1, 1>> @@ 4 :> <<3, 0>> @@ 5 :> <<0, 4>> @@ 6 :> <<4, 5>> @@ 7 :> <<4, 4>>),acyclic |-> FALSE,l |-> 178,eObj |-> (3 :> 1 @@ 7 :> 4),nextE |-> 8]),
    ([res |-> "ok",cacheV |-> FALSE,nodes |-> {0, 1, 3, 4, 5},cacheR |-> TRUE,nextN |-> 6,edges |-> (0 :> <<1, 0>> @@ 2 :> <<0, 1>> @@ 3 :> <<1, 1>> @@ 4 :> <<3, 0>> @@ 5 :> <<0, 4>> @@ 6 :> <<4, 5>> @@ 7 :> <<4, 4>>),acyclic |-> FALSE,l |-> 179,eObj |-> (3 :> 1 @@ 7 :> 4),nextE |-> 8]),
    ([res |-> "raise",cacheV |-> FALSE,nodes |-> {0, 1, 3, 4, 5},cacheR |-> TRUE,nextN |-> 6,edges |-> (0 :> <<1, 0>> @@ 2 :> <<0, 1>> @@ 3 :> <<1, 1>> @@ 4 :> <<3, 0>> @@ 5 :> <<0, 4>> @@ 6 :> <<4, 5>> @@ 7 :> <<4, 4>>),acyclic |-> FALSE,l |-> 180,eObj |-> (3 :> 1 @@ 7 :> 4),nextE |-> 8]),
    ([res |-> "ok",cacheV |-> FALSE,nodes |-> {},cacheR |-> FALSE,nextN |-> 0,edges |-> <<>>,acyclic |-> TRUE,l |-> 181,eObj |-> <<>>,nextE |-> 0]),
    ([res |-> "ok",cacheV |-> FALSE,nodes |-> {0},cacheR |-> FALSE,nextN |-> 1,edges |-> <<>>,acyclic |-> TRUE,l |-> 182,eObj |-> <<>>,nextE |-> 0]),
    ([res |-> "ok",cacheV |-> FALSE,nodes |-> {0, 1},cacheR |-> FALSE,nextN |-> 2,edges |-> <<>>,acyclic |-> TRUE,l |-> 183,eObj |-> <<>>,nextE |-> 0]),
    ([res |-> "ok",cacheV |-> FALSE,nodes |-> {0, 1, 2},cacheR |-> FALSE,nextN |-> 3,edges |-> <<>>,acyclic |-> TRUE,l |-> 184,eObj |-> <<>>,nextE |-> 0]),
    ([res |-> "ok",cacheV |-> FALSE,nodes |-> {0, 1, 2, 3},cacheR |-> FALSE,nextN |-> 4,edges |-> <<>>,acyclic |-> TRUE,l |-> 185,eObj |-> <<>>,nextE |-> 0]),
    ([res |-> "ok",cacheV |-> FALSE,nodes |-> {0, 1, 2, 3, 4},cacheR |-> FALSE,nextN |-> 5,edges |-> <<>>,acyclic |-> TRUE,l |-> 186,eObj |-> <<>>,nextE |-> 0]),
    ([res |-> "ok",cacheV |-> FALSE,nodes |-> {0, 1, 2, 3, 4, 5},cacheR |-> FALSE,nextN |-> 6,edges |-> <<>>,acyclic |-> TRUE,l |-> 187,eObj |-> <<>>,nextE |-> 0]),
    ([res |-> "ok",cacheV |-> FALSE,nodes |-> {0, 1, 2, 3, 4, 5},cacheR |-> FALSE,nextN |-> 6,edges |-> (0 :> <<0, 2>>),acyclic |-> TRUE,l |-> 188,eObj |-> <<>>,nextE |-> 1]),
    ([res |-> "ok",cacheV |-> FALSE,nodes |-> {0, 1, 2, 3, 4, 5},cacheR |-> FALSE,nextN |-> 6,edges |-> (0 :> <<0, 2>> @@ 1 :> <<5, 3>>),acyclic |-> TRUE,l |-> 189,eObj |-> <<1>>,nextE |-> 2]),
    ([res |-> "T",cacheV |-> TRUE,nodes |-> {0, 1, 2, 3, 4, 5},cacheR |-> FALSE,nextN |-> 6,edges |-> (0 :> <<0, 2>> @@ 1 :> <<5, 3>>),acyclic |-> TRUE,l |-> 190,eObj |-> <<1>>,nextE |-> 2]),
    ([res |-> "RF",cacheV |-> TRUE,nodes |-> {0, 1, 2, 3, 4, 5},cacheR |-> FALSE,nextN |-> 6,edges |-> (0 :> <<0, 2>> @@ 1 :> <<5, 3>>),acyclic |-> TRUE,l |-> 191,eObj |-> <<1>>,nextE |-> 2]),
    ([res |-> "ok",cacheV |-> FALSE,nodes |-> {0, 1, 2, 3, 4, 5},cacheR |-> FALSE,nextN |-> 6,edges |-> (0 :> <<0, 2>> @@ 1 :> <<5, 3>> @@ 2 :> <<0, 5>>),acyclic |-> TRUE,l |-> 192,eObj |-> <<1, 2>>,nextE |-> 3]),
    ([res |-> "T",cacheV |-> TRUE,nodes |-> {0, 1, 2, 3, 4, 5},cacheR |-> FALSE,nextN |-> 6,edges |-> (0 :> <<0, 2>> @@ 1 :> <<5, 3>> @@ 2 :> <<0, 5>>),acyclic |-> TRUE,l |-> 193,eObj |-> <<1, 2>>,nextE |-> 3]),
    ([res |-> "RF",cacheV |-> TRUE,nodes |-> {0, 1, 2, 3, 4, 5},cacheR |-> FALSE,nextN |-> 6,edges |-> (0 :> <<0, 2>> @@ 1 :> <<5, 3>> @@ 2 :> <<0, 5>>),acyclic |-> TRUE,l |-> 194,eObj |-> <<1, 2>>,nextE |-> 3]),
    ([res |-> "ok",cacheV |-> FALSE,nodes |-> {0, 1, 2, 3, 4, 5},cacheR |-> FALSE,nextN |-> 6,edges |-> (0 :> <<0, 2>> @@ 1 :> <<5, 3>> @@ 2 :> <<0, 5>> @@ 3 :> <<2, 5>>),acyclic |-> TRUE,l |-> 195,eObj |-> <<1, 2>>,nextE |-> 4]),
    ([res |-> "T",cacheV |-> TRUE,nodes |-> {0, 1, 2, 3, 4, 5},cacheR |-> FALSE,nextN |-> 6,edges |-> (0 :> <<0, 2>> @@ 1 :> <<5, 3>> @@ 2 :> <<0, 5>> @@ 3 :> <<2, 5>>),acyclic |-> TRUE,l |-> 196,eObj |-> <<1, 2>>,nextE |-> 4]),
    ([res |-> "ok",cacheV |-> FALSE,nodes |-> {0, 1, 2, 3, 4, 5},cacheR |-> FALSE,nextN |-> 6,edges |-> (0 :> <<0, 2>> @@ 1 :> <<5, 3>> @@ 2 :> <<0, 5>> @@ 3 :> <<2, 5>> @@ 4 :> <<1, 5>>),acyclic |-> TRUE,l |-> 197,eObj |-> <<1, 2>>,nextE |-> 5]),
    ([res |-> "ok",cacheV |-> FALSE,nodes |-> {0, 1, 2, 3, 4, 5},cacheR |-> FALSE,nextN |-> 6,edges |-> (0 :> <<0, 2>> @@ 1 :> <<5, 3>> @@ 2 :> <<0, 5>> @@ 3 :> <<2, 5>> @@ 4 :> <<1, 5>> @@ 5 :> <<4, 5>>),acyclic |-> TRUE,l |-> 198,eObj |-> <<1, 2>>,nextE |-> 6]),
    ([res |-> "ok",cacheV |-> FALSE,nodes |-> {0, 1, 2, 3, 4, 5},cacheR |-> FALSE,nextN |-> 6,edges |-> (0 :> <<0, 2>> @@ 1 :> <<5, 3>> @@ 2 :> <<0, 5>> @@ 3 :> <<2, 5>> @@ 4 :> <<1, 5>> @@ 5 :> <<4, 5>> @@ 6 :> <<4, 1>>),acyclic |-> TRUE,l |-> 199,eObj |-> (1 :> 1 @@ 2 :> 2 @@ 6 :> 3),nextE |-> 7]),
    ([res |-> "raise",cacheV |-> FALSE,nodes |-> {0, 1, 2, 3, 4, 5},cacheR |-> FALSE,nextN |-> 6,edges |-> (0 :> <<0, 2>> @@ 1 :> <<5, 3>> @@ 2 :> <<0, 5>> @@ 3 :> <<2, 5>> @@ 4 :> <<1, 5>> @@ 5 :> <<4, 5>> @@ 6 :> <<4, 1>>),acyclic |-> TRUE,l |-> 200,eObj |-> (1 :> 1 @@ 2 :> 2 @@ 6 :> 3),nextE |-> 7]),
    ([res |-> "ok",cacheV |-> FALSE,nodes |-> {0, 1, 2, 3, 4, 5},cacheR |-> FALSE,nextN |-> 6,edges |-> (0 :> <<0, 2>> @@ 1 :> <<5, 3>> @@ 2 :> <<0, 5>> @@ 3 :> <<2, 5>> @@ 4 :> <<1, 5>> @@ 5 :> <<4, 5>> @@ 6 :> <<4, 1>> @@ 7 :> <<3, 0>>),acyclic |-> FALSE,l |-> 201,eObj |-> (1 :> 1 @@ 2 :> 2 @@ 6 :> 3),nextE |-> 8]),
    ([res |-> "F",cacheV |-> FALSE,nodes |-> {0, 1, 2, 3, 4, 5},cacheR |-> FALSE,nextN |-> 6,edges |-> (0 :> <<0, 2>> @@ 1 :> <<5, 3>> @@ 2 :> <<0, 5>> @@ 3 :> <<2, 5>> @@ 4 :> <<1, 5>> @@ 5 :> <<4, 5>> @@ 6 :> <<4, 1>> @@ 7 :> <<3, 0>>),acyclic |-> FALSE,l |-> 202,eObj |-> (1 :> 1 @@ 2 :> 2 @@ 6 :> 3),nextE |-> 8]),
    ([res |-> "RT",cacheV |-> FALSE,nodes |-> {0, 1, 2, 3, 4, 5},cacheR |-> TRUE,nextN |-> 6,edges |-> (0 :> <<0, 2>> @@ 1 :> <<5, 3>> @@ 2 :> <<0, 5>> @@ 3 :> <<2, 5>> @@ 4 :> <<1, 5>> @@ 5 :> <<4, 5>> @@ 6 :> <<4, 1>> @@ 7 :> <<3, 0>>),acyclic |-> FALSE,l |-> 203,eObj |-> (1 :> 1 @@ 2 :> 2 @@ 6 :> 3),nextE |-> 8]),
    ([res |-> "ok",cacheV |-> FALSE,nodes |-> {0, 1, 2, 3, 4, 5},cacheR |-> TRUE,nextN |-> 6,edges |-> (0 :> <<0, 2>> @@ 1 :> <<5, 3>> @@ 2 :> <<0, 5>> @@ 3 :> <<2, 5>> @@ 4 :> <<1, 5>> @@ 5 :> <<4, 5>> @@ 6 :> <<4, 1>> @@ 7 :> <<3, 0>>),acyclic |-> FALSE,l |-> 204,eObj |-> (1 :> 1 @@ 2 :> 2 @@ 6 :> 3),nextE |-> 8]),
    ([res |-> "raise",cacheV |-> FALSE,nodes |-> {0, 1, 2, 3, 4, 5},cacheR |-> TRUE,nextN |-> 6,edges |-> (0 :> <<0, 2>> @@ 1 :> <<5, 3>> @@ 2 :> <<0, 5>> @@ 3 :> <<2, 5>> @@ 4 :> <<1, 5>> @@ 5 :> <<4, 5>> @@ 6 :> <<4, 1>> @@ 7 :> <<3, 0>>),acyclic |-> FALSE,l |-> 205,eObj |-> (1 :> 1 @@ 2 :> 2 @@ 6 :> 3),nextE |-> 8]),
    ([res |-> "ok",cacheV |-> FALSE,nodes |-> {},cacheR |-> FALSE,nextN |-> 0,edges |-> <<>>,acyclic |-> TRUE,l |-> 206,eObj |-> <<>>,nextE |-> 0]),
    ([res |-> "raise",cacheV |-> FALSE,nodes |-> {},cacheR |-> FALSE,nextN |-> 0,edges |-> <<>>,acyclic |-> TRUE,l |-> 207,eObj |-> <<>>,nextE |-> 0]),
    ([res |-> "raise",cacheV |-> FALSE,nodes |-> {},cacheR |-> FALSE,nextN |-> 0,edges |-> <<>>,acyclic |-> TRUE,l |-> 208,eObj |-> <<>>,nextE |-> 0]),
    ([res |-> "F",cacheV |-> TRUE,nodes |-> {},cacheR |-> FALSE,nextN |-> 0,edges |-> <<>>,acyclic |-> TRUE,l |-> 209,eObj |-> <<>>,nextE |-> 0]),
    ([res |-> "RT",cacheV |-> TRUE,nodes |-> {},cacheR |-> FALSE,nextN |-> 0,edges |-> <<>>,acyclic |-> TRUE,l |-> 210,eObj |-> <<>>,nextE |-> 0]),
    ([res |-> "RT",cacheV |-> TRUE,nodes |-> {},cacheR |-> FALSE,nextN |-> 0,edges |-> <<>>,acyclic |-> TRUE,l |-> 211,eObj |-> <<>>,nextE |-> 0]),
    ([res |-> "raise",cacheV |-> TRUE,nodes |-> {},cacheR |-> FALSE,nextN |-> 0,edges |-> <<>>,acyclic |-> TRUE,l |-> 212,eObj |-> <<>>,nextE |-> 0]),
    ([res |-> "ok",cacheV |-> TRUE,nodes |-> {},cacheR |-> FALSE,nextN |-> 0,edges |-> <<>>,acyclic |-> TRUE,l |-> 213,eObj |-> <<>>,nextE |-> 0]),
    ([res |-> "ok",cacheV |-> TRUE,nodes |-> {},cacheR |-> FALSE,nextN |-> 0,edges |-> <<>>,acyclic |-> TRUE,l |-> 214,eObj |-> <<>>,nextE |-> 0]),
    ([res |-> "raise",cacheV |-> TRUE,nodes |-> {},cacheR |-> FALSE,nextN |-> 0,edges |-> <<>>,acyclic |-> TRUE,l |-> 215,eObj |-> <<>>,nextE |-> 0]),
    ([res |-> "raise",cacheV |-> TRUE,nodes |-> {},cacheR |-> FALSE,nextN |-> 0,edges |-> <<>>,acyclic |-> TRUE,l |-> 216,eObj |-> <<>>,nextE |-> 0]),
    ([res |-> "ok",cacheV |-> FALSE,nodes |-> {0},cacheR |-> FALSE,nextN |-> 1,edges |-> <<>>,acyclic |-> TRUE,l |-> 217,eObj |-> <<>>,nextE |-> 0]),
    ([res |-> "ok",cacheV |-> FALSE,nodes |-> {0},cacheR |-> FALSE,nextN |-> 1,edges |-> <<>>,acyclic |-> TRUE,l |-> 218,eObj |-> <<>>,nextE |-> 0]),
    ([res |-> "ok",cacheV |-> FALSE,nodes |-> {0},cacheR |-> FALSE,nextN |-> 1,edges |-> <<>>,acyclic |-> TRUE,l |-> 219,eObj |-> <<>>,nextE |-> 0]),
    ([res |-> "ok",cacheV |-> TRUE,nodes |-> {0},cacheR |-> FALSE,nextN |-> 1,edges |-> <<>>,acyclic |-> TRUE,l |-> 220,eObj |-> <<>>,nextE |-> 0]),
    ([res |-> "ok",cacheV |-> FALSE,nodes |-> {0},cacheR |-> FALSE,nextN |-> 1,edges |-> (0 :> <<0, 0>>),acyclic |-> FALSE,l |-> 221,eObj |-> <<>>,nextE |-> 1]),
    ([res |-> "ok",cacheV |-> FALSE,nodes |-> {0},cacheR |-> FALSE,nextN |-> 1,edges |-> <<>>,acyclic |-> TRUE,l |-> 222,eObj |-> <<>>,nextE |-> 1]),
    ([res |-> "ok",cacheV |-> FALSE,nodes |-> {0},cacheR |-> FALSE,nextN |-> 1,edges |-> <<<<0, 0>>>>,acyclic |-> FALSE,l |-> 223,eObj |-> <<>>,nextE |-> 2]),
    ([res |-> "ok",cacheV |-> FALSE,nodes |-> {},cacheR |-> FALSE,nextN |-> 1,edges |-> <<>>,acyclic |-> TRUE,l |-> 224,eObj |-> <<>>,nextE |-> 2]),
    ([res |-> "ok",cacheV |-> FALSE,nodes |-> {},cacheR |-> FALSE,nextN |-> 1,edges |-> <<>>,acyclic |-> TRUE,l |-> 225,eObj |-> <<>>,nextE |-> 2]),
    ([res |-> "ok",cacheV |-> FALSE,nodes |-> {},cacheR |-> FALSE,nextN |-> 1,edges |-> <<>>,acyclic |-> TRUE,l |-> 226,eObj |-> <<>>,nextE |-> 2]),
    ([res |-> "raise",cacheV |-> FALSE,nodes |-> {},cacheR |-> FALSE,nextN |-> 1,edges |-> <<>>,acyclic |-> TRUE,l |-> 227,eObj |-> <<>>,nextE |-> 2]),
    ([res |-> "ok",cacheV |-> FALSE,nodes |-> {},cacheR |-> FALSE,nextN |-> 1,edges |-> <<>>,acyclic |-> TRUE,l |-> 228,eObj |-> <<>>,nextE |-> 2]),
    ([res |-> "ok",cacheV |-> FALSE,nodes |-> {},cacheR |-> FALSE,nextN |-> 1,edges |-> <<>>,acyclic |-> TRUE,l |-> 229,eObj |-> <<>>,nextE |-> 2]),
    ([res |-> "raise",cacheV |-> FALSE,nodes |-> {},cacheR |-> FALSE,nextN |-> 1,edges |-> <<>>,acyclic |-> TRUE,l |-> 230,eObj |-> <<>>,nextE |-> 2]),
    ([res |-> "raise",cacheV |-> FALSE,nodes |-> {},cacheR |-> FALSE,nextN |-> 1,edges |-> <<>>,acyclic |-> TRUE,l |-> 231,eObj |-> <<>>,nextE |-> 2]),
    ([res |-> "ok",cacheV |-> FALSE,nodes |-> {1},cacheR |-> FALSE,nextN |-> 2,edges |-> <<>>,acyclic |-> TRUE,l |-> 232,eObj |-> <<>>,nextE |-> 2]),
    ([res |-> "ok",cacheV |-> FALSE,nodes |-> {1},cacheR |-> FALSE,nextN |-> 2,edges |-> (2 :> <<1, 1>>),acyclic |-> FALSE,l |-> 233,eObj |-> <<>>,nextE |-> 3]),
    ([res |-> "F",cacheV |-> FALSE,nodes |-> {1},cacheR |-> FALSE,nextN |-> 2,edges |-> (2 :> <<1, 1>>),acyclic |-> FALSE,l |-> 234,eObj |-> <<>>,nextE |-> 3]),
    ([res |-> "F",cacheV |-> FALSE,nodes |-> {1},cacheR |-> FALSE,nextN |-> 2,edges |-> (2 :> <<1, 1>>),acyclic |-> FALSE,l |-> 235,eObj |-> <<>>,nextE |-> 3]),
    ([res |-> "ok",cacheV |-> FALSE,nodes |-> {1, 2},cacheR |-> FALSE,nextN |-> 3,edges |-> (2 :> <<1, 1>>),acyclic |-> FALSE,l |-> 236,eObj |-> <<>>,nextE |-> 3]),
    ([res |-> "ok",cacheV |-> FALSE,nodes |-> {1},cacheR |-> FALSE,nextN |-> 3,edges |-> (2 :> <<1, 1>>),acyclic |-> FALSE,l |-> 237,eObj |-> <<>>,nextE |-> 3]),
    ([res |-> "ok",cacheV |-> FALSE,nodes |-> {1},cacheR |-> FALSE,nextN |-> 3,edges |-> <<>>,acyclic |-> TRUE,l |-> 238,eObj |-> <<>>,nextE |-> 3]),
    ([res |-> "ok",cacheV |-> FALSE,nodes |-> {1, 3},cacheR |-> FALSE,nextN |-> 4,edges |-> <<>>,acyclic |-> TRUE,l |-> 239,eObj |-> <<>>,nextE |-> 3]),
    ([res |-> "T",cacheV |-> TRUE,nodes |-> {1, 3},cacheR |-> FALSE,nextN |-> 4,edges |-> <<>>,acyclic |-> TRUE,l |-> 240,eObj |-> <<>>,nextE |-> 3]),
    ([res |-> "ok",cacheV |-> FALSE,nodes |-> {1, 3},cacheR |-> FALSE,nextN |-> 4,edges |-> (3 :> <<1, 3>>),acyclic |-> TRUE,l |-> 241,eObj |-> <<>>,nextE |-> 4]),
    ([res |-> "ok",cacheV |-> FALSE,nodes |-> {1, 3},cacheR |-> FALSE,nextN |-> 4,edges |-> (3 :> <<1, 3>> @@ 4 :> <<3, 1>>),acyclic |-> FALSE,l |-> 242,eObj |-> (4 :> 4),nextE |-> 5]),
    ([res |-> "F",cacheV |-> FALSE,nodes |-> {1, 3},cacheR |-> FALSE,nextN |-> 4,edges |-> (3 :> <<1, 3>> @@ 4 :> <<3, 1>>),acyclic |-> FALSE,l |-> 243,eObj |-> (4 :> 4),nextE |-> 5]),
    ([res |-> "raise",cacheV |-> FALSE,nodes |-> {1, 3},cacheR |-> FALSE,nextN |-> 4,edges |-> (3 :> <<1, 3>> @@ 4 :> <<3, 1>>),acyclic |-> FALSE,l |-> 244,eObj |-> (4 :> 4),nextE |-> 5]),
    ([res |-> "ok",cacheV |-> FALSE,nodes |-> {1, 3, 4},cacheR |-> FALSE,nextN |-> 5,edges |-> (3 :> <<1, 3>> @@ 4 :> <<3, 1>>),acyclic |-> FALSE,l |-> 245,eObj |-> (4 :> 4),nextE |-> 5]),
    ([res |-> "ok",cacheV |-> FALSE,nodes |-> {1, 3, 4},cacheR |-> FALSE,nextN |-> 5,edges |-> (3 :> <<1, 3>> @@ 4 :> <<3, 1>> @@ 5 :> <<3, 3>>),acyclic |-> FALSE,l |-> 246,eObj |-> (4 :> 4),nextE |-> 6]),
    ([res |-> "raise",cacheV |-> FALSE,nodes |-> {1, 3, 4},cacheR |-> FALSE,nextN |-> 5,edges |-> (3 :> <<1, 3>> @@ 4 :> <<3, 1>> @@ 5 :> <<3, 3>>),acyclic |-> FALSE,l |-> 247,eObj |-> (4 :> 4),nextE |-> 6]),
    ([res |-> "ok",cacheV |-> FALSE,nodes |-> {1, 3, 4, 5},cacheR |-> FALSE,nextN |-> 6,edges |-> (3 :> <<1, 3>> @@ 4 :> <<3, 1>> @@ 5 :> <<3, 3>>),acyclic |-> FALSE,l |-> 248,eObj |-> (4 :> 4),nextE |-> 6]),
    ([res |-> "ok",cacheV |-> FALSE,nodes |-> {1, 3, 4, 5},cacheR |-> FALSE,nextN |-> 6,edges |-> (3 :> <<1, 3>> @@ 4 :> <<3, 1>> @@ 5 :> <<3, 3>> @@ 6 :> <<3, 4>>),acyclic |-> FALSE,l |-> 249,eObj |-> (4 :> 4),nextE |-> 7]),
    ([res |-> "F",cacheV |-> FALSE,nodes |-> {1, 3, 4, 5},cacheR |-> FALSE,nextN |-> 6,edges |-> (3 :> <<1, 3>> @@ 4 :> <<3, 1>> @@ 5 :> <<3, 3>> @@ 6 :> <<3, 4>>),acyclic |-> FALSE,l |-> 250,eObj |-> (4 :> 4),nextE |-> 7]),
    ([res |-> "RT",cacheV |-> FALSE,nodes |-> {1, 3, 4, 5},cacheR |-> TRUE,nextN |-> 6,edges |-> (3 :> <<1, 3>> @@ 4 :> <<3, 1>> @@ 5 :> <<3, 3>> @@ 6 :> <<3, 4>>),acyclic |-> FALSE,l |-> 251,eObj |-> (4 :> 4),nextE |-> 7]),
    ([res |-> "ok",cacheV |-> FALSE,nodes |-> {1, 3, 4, 5},cacheR |-> TRUE,nextN |-> 6,edges |-> (3 :> <<1, 3>> @@ 4 :> <<3, 1>> @@ 5 :> <<3, 3>> @@ 6 :> <<3, 4>>),acyclic |-> FALSE,l |-> 252,eObj |-> (4 :> 4),nextE |-> 7]),
    ([res |-> "raise",cacheV |-> FALSE,nodes |-> {1, 3, 4, 5},cacheR |-> TRUE,nextN |-> 6,edges |-> (3 :> <<1, 3>> @@ 4 :> <<3, 1>> @@ 5 :> <<3, 3>> @@ 6 :> <<3, 4>>),acyclic |-> FALSE,l |-> 253,eObj |-> (4 :> 4),nextE |-> 7]),
    ([res |-> "ok",cacheV |-> FALSE,nodes |-> {},cacheR |-> FALSE,nextN |-> 0,edges |-> <<>>,acyclic |-> TRUE,l |-> 254,eObj |-> <<>>,nextE |-> 0]),
    ([res |-> "ok",cacheV |-> FALSE,nodes |-> {0},cacheR |-> FALSE,nextN |-> 1,edges |-> <<>>,acyclic |-> TRUE,l |-> 255,eObj |-> <<>>,nextE |-> 0]),
    ([res |-> "ok",cacheV |-> FALSE,nodes |-> {0, 1},cacheR |-> FALSE,nextN |-> 2,edges |-> <<>>,acyclic |-> TRUE,l |-> 256,eObj |-> <<>>,nextE |-> 0]),
    ([res |-> "ok",cacheV |-> FALSE,nodes |-> {0, 1, 2},cacheR |-> FALSE,nextN |-> 3,edges |-> <<>>,acyclic |-> TRUE,l |-> 257,eObj |-> <<>>,nextE |-> 0]),
    ([res |-> "ok",cacheV |-> FALSE,nodes |-> {0, 1, 2, 3},cacheR |-> FALSE,nextN |-> 4,edges |-> <<>>,acyclic |-> TRUE,l |-> 258,eObj |-> <<>>,nextE |-> 0]),
    ([res |-> "ok",cacheV |-> FALSE,nodes |-> {0, 1, 2, 3, 4},cacheR |-> FALSE,nextN |-> 5,edges |-> <<>>,acyclic |-> TRUE,l |-> 259,eObj |-> <<>>,nextE |-> 0]),
    ([res |-> "ok",cacheV |-> FALSE,nodes |-> {0, 1, 2, 3, 4},cacheR |-> FALSE,nextN |-> 5,edges |-> (0 :> <<4, 0>>),acyclic |-> TRUE,l |-> 260,eObj |-> <<>>,nextE |-> 1]),
    ([res |-> "RF",cacheV |-> FALSE,nodes |-> {0, 1, 2, 3, 4},cacheR |-> FALSE,nextN |-> 5,edges |-> (0 :> <<4, 0>>),acyclic |-> TRUE,l |-> 261,eObj |-> <<>>,nextE |-> 1]),
    ([res |-> "ok",cacheV |-> FALSE,nodes |-> {0, 1, 2, 3, 4},cacheR |-> FALSE,nextN |-> 5,edges |-> (0 :> <<4, 0>> @@ 1 :> <<0, 1>>),acyclic |-> TRUE,l |-> 262,eObj |-> <<>>,nextE |-> 2]),
    ([res |-> "RF",cacheV |-> FALSE,nodes |-> {0, 1, 2, 3, 4},cacheR |-> FALSE,nextN |-> 5,edges |-> (0 :> <<4, 0>> @@ 1 :> <<0, 1>>),acyclic |-> TRUE,l |-> 263,eObj |-> <<>>,nextE |-> 2]),
    ([res |-> "ok",cacheV |-> FALSE,nodes |-> {0, 1, 2, 3, 4},cacheR |-> FALSE,nextN |-> 5,edges |-> (0 :> <<4, 0>> @@ 1 :> <<0, 1>> @@ 2 :> <<2, 0>>),acyclic |-> TRUE,l |-> 264,eObj |-> (2 :> 1),nextE |-> 3]),
    ([res |-> "T",cacheV |-> TRUE,nodes |-> {0, 1, 2, 3, 4},cacheR |-> FALSE,nextN |-> 5,edges |-> (0 :> <<4, 0>> @@ 1 :> <<0, 1>> @@ 2 :> <<2, 0>>),acyclic |-> TRUE,l |-> 265,eObj |-> (2 :> 1),nextE |-> 3]),
    ([res |-> "RF",cacheV |-> TRUE,nodes |-> {0, 1, 2, 3, 4},cacheR |-> FALSE,nextN |-> 5,edges |-> (0 :> <<4, 0>> @@ 1 :> <<0, 1>> @@ 2 :> <<2, 0>>),acyclic |-> TRUE,l |-> 266,eObj |-> (2 :> 1),nextE |-> 3]),
    ([res |-> "T",cacheV |-> TRUE,nodes |-> {0, 1, 2, 3, 4},cacheR |-> FALSE,nextN |-> 5,edges |-> (0 :> <<4, 0>> @@ 1 :> <<0, 1>> @@ 2 :> <<2, 0>>),acyclic |-> TRUE,l |-> 267,eObj |-> (2 :> 1),nextE |-> 3]),
    ([res |-> "RF",cacheV |-> TRUE,nodes |-> {0, 1, 2, 3, 4},cacheR |-> FALSE,nextN |-> 5,edges |-> (0 :> <<4, 0>> @@ 1 :> <<0, 1>> @@ 2 :> <<2, 0>>),acyclic |-> TRUE,l |-> 268,eObj |-> (2 :> 1),nextE |-> 3]),
    ([res |-> "ok",cacheV |-> TRUE,nodes |-> {0, 1, 2, 3, 4},cacheR |-> FALSE,nextN |-> 5,edges |-> (0 :> <<4, 0>> @@ 1 :> <<0, 1>> @@ 2 :> <<2, 0>>),acyclic |-> TRUE,l |-> 269,eObj |-> (2 :> 1),nextE |-> 3]),
    ([res |-> "ok",cacheV |-> TRUE,nodes |-> {0, 1, 2, 3, 4},cacheR |-> FALSE,nextN |-> 5,edges |-> (0 :> <<4, 0>> @@ 1 :> <<0, 1>> @@ 2 :> <<2, 0>>),acyclic |-> TRUE,l |-> 270,eObj |-> (2 :> 1),nextE |-> 3]),
    ([res |-> "ok",cacheV |-> TRUE,nodes |-> {0, 1, 2, 3, 4},cacheR |-> FALSE,nextN |-> 5,edges |-> (0 :> <<4, 0>> @@ 1 :> <<0, 1>> @@ 2 :> <<2, 0>>),acyclic |-> TRUE,l |-> 271,eObj |-> (2 :> 1),nextE |-> 3]),
    ([res |-> "ok",cacheV |-> TRUE,nodes |-> {0, 1, 2, 3, 4},cacheR |-> FALSE,nextN |-> 5,edges |-> (0 :> <<4, 0>> @@ 1 :> <<0, 1>> @@ 2 :> <<2, 0>>),acyclic |-> TRUE,l |-> 272,eObj |-> (2 :> 1),nextE |-> 3]),
    ([res |-> "ok",cacheV |-> TRUE,nodes |-> {0, 1, 2, 3, 4},cacheR |-> FALSE,nextN |-> 5,edges |-> (0 :> <<4, 0>> @@ 1 :> <<0, 1>> @@ 2 :> <<2, 0>>),acyclic |-> TRUE,l |-> 273,eObj |-> (2 :> 1),nextE |-> 3]),
    ([res |-> "ok",cacheV |-> TRUE,nodes |-> {0, 1, 2, 3, 4},cacheR |-> FALSE,nextN |-> 5,edges |-> (0 :> <<4, 0>> @@ 1 :> <<0, 1>> @@ 2 :> <<2, 0>>),acyclic |-> TRUE,l |-> 274,eObj |-> (2 :> 1),nextE |-> 3]),
    ([res |-> "ok",cacheV |-> TRUE,nodes |-> {0, 1, 2, 3, 4},cacheR |-> FALSE,nextN |-> 5,edges |-> (0 :> <<4, 0>> @@ 1 :> <<0, 1>> @@ 2 :> <<2, 0>>),acyclic |-> TRUE,l |-> 275,eObj |-> (2 :> 1),nextE |-> 3]),
    ([res |-> "ok",cacheV |-> FALSE,nodes |-> {},cacheR |-> FALSE,nextN |-> 0,edges |-> <<>>,acyclic |-> TRUE,l |-> 276,eObj |-> <<>>,nextE |-> 0]),
    ([res |-> "ok",cacheV |-> FALSE,nodes |-> {0},cacheR |-> FALSE,nextN |-> 1,edges |-> <<>>,acyclic |-> TRUE,l |-> 277,eObj |-> <<>>,nextE |-> 0]),
    ([res |-> "ok",cacheV |-> FALSE,nodes |-> {0},cacheR |-> FALSE,nextN |-> 1,edges |-> (0 :> <<0, 0>>),acyclic |-> FALSE,l |-> 278,eObj |-> <<>>,nextE |-> 1]),
    ([res |-> "F",cacheV |-> FALSE,nodes |-> {0},cacheR |-> FALSE,nextN |-> 1,edges |-> (0 :> <<0, 0>>),acyclic |-> FALSE,l |-> 279,eObj |-> <<>>,nextE |-> 1]),
    ([res |-> "raise",cacheV |-> FALSE,nodes |-> {0},cacheR |-> FALSE,nextN |-> 1,edges |-> (0 :> <<0, 0>>),acyclic |-> FALSE,l |-> 280,eObj |-> <<>>,nextE |-> 1]),
    ([res |-> "raise",cacheV |-> FALSE,nodes |-> {0},cacheR |-> FALSE,nextN |-> 1,edges |-> (0 :> <<0, 0>>),acyclic |-> FALSE,l |-> 281,eObj |-> <<>>,nextE |-> 1]),
    ([res |-> "ok",cacheV |-> FALSE,nodes |-> {0, 1},cacheR |-> FALSE,nextN |-> 2,edges |-> (0 :> <<0, 0>>),acyclic |-> FALSE,l |-> 282,eObj |-> <<>>,nextE |-> 1]),
    ([res |-> "ok",cacheV |-> FALSE,nodes |-> {0, 1, 2},cacheR |-> FALSE,nextN |-> 3,edges |-> (0 :> <<0, 0>>),acyclic |-> FALSE,l |-> 283,eObj |-> <<>>,nextE |-> 1]),
    ([res |-> "ok",cacheV |-> FALSE,nodes |-> {0, 1, 2, 3},cacheR |-> FALSE,nextN |-> 4,edges |-> (0 :> <<0, 0>>),acyclic |-> FALSE,l |-> 284,eObj |-> <<>>,nextE |-> 1]),
    ([res |-> "F",cacheV |-> FALSE,nodes |-> {0, 1, 2, 3},cacheR |-> FALSE,nextN |-> 4,edges |-> (0 :> <<0, 0>>),acyclic |-> FALSE,l |-> 285,eObj |-> <<>>,nextE |-> 1]),
    ([res |-> "ok",cacheV |-> FALSE,nodes |-> {0, 1, 2, 3},cacheR |-> FALSE,nextN |-> 4,edges |-> (0 :> <<0, 0>> @@ 1 :> <<3, 3>>),acyclic |-> FALSE,l |-> 286,eObj |-> <<>>,nextE |-> 2]),
    ([res |-> "RF",cacheV |-> FALSE,nodes |-> {0, 1, 2, 3},cacheR |-> FALSE,nextN |-> 4,edges |-> (0 :> <<0, 0>> @@ 1 :> <<3, 3>>),acyclic |-> FALSE,l |-> 287,eObj |-> <<>>,nextE |-> 2]),
    ([res |-> "RF",cacheV |-> FALSE,nodes |-> {0, 1, 2, 3},cacheR |-> FALSE,nextN |-> 4,edges |-> (0 :> <<0, 0>> @@ 1 :> <<3, 3>>),acyclic |-> FALSE,l |-> 288,eObj |-> <<>>,nextE |-> 2]),
    ([res |-> "ok",cacheV |-> FALSE,nodes |-> {0, 1, 2, 3},cacheR |-> FALSE,nextN |-> 4,edges |-> <<<<3, 3>>>>,acyclic |-> FALSE,l |-> 289,eObj |-> <<>>,nextE |-> 2]),
    ([res |-> "ok",cacheV |-> FALSE,nodes |-> {0, 1, 2, 3, 4},cacheR |-> FALSE,nextN |-> 5,edges |-> <<<<3, 3>>>>,acyclic |-> FALSE,l |-> 290,eObj |-> <<>>,nextE |-> 2]),
    ([res |-> "ok",cacheV |-> FALSE,nodes |-> {0, 1, 2, 3, 4},cacheR |-> FALSE,nextN |-> 5,edges |-> <<<<3, 3>>, <<1, 4>>>>,acyclic |-> FALSE,l |-> 291,eObj |-> <<>>,nextE |-> 3]),
    ([res |-> "ok",cacheV |-> FALSE,nodes |-> {0, 1, 2, 3, 4},cacheR |-> FALSE,nextN |-> 5,edges |-> <<<<3, 3>>, <<1, 4>>>>,acyclic |-> FALSE,l |-> 292,eObj |-> <<>>,nextE |-> 3]),
    ([res |-> "ok",cacheV |-> FALSE,nodes |-> {0, 1, 2, 3, 4},cacheR |-> FALSE,nextN |-> 5,edges |-> <<<<3, 3>>, <<1, 4>>, <<3, 1>>>>,acyclic |-> FALSE,l |-> 293,eObj |-> <<>>,nextE |-> 4]),
    ([res |-> "raise",cacheV |-> FALSE,nodes |-> {0, 1, 2, 3, 4},cacheR |-> FALSE,nextN |-> 5,edges |-> <<<<3, 3>>, <<1, 4>>, <<3, 1>>>>,acyclic |-> FALSE,l |-> 294,eObj |-> <<>>,nextE |-> 4]),
    ([res |-> "ok",cacheV |-> FALSE,nodes |-> {0, 1, 2, 3, 4},cacheR |-> FALSE,nextN |-> 5,edges |-> (2 :> <<1, 4>> @@ 3 :> <<3, 1>>),acyclic |-> TRUE,l |-> 295,eObj |-> <<>>,nextE |-> 4]),
    ([res |-> "ok",cacheV |-> FALSE,nodes |-> {0, 1, 2, 3, 4, 5},cacheR |-> FALSE,nextN |-> 6,edges |-> (2 :> <<1, 4>> @@ 3 :> <<3, 1>>),acyclic |-> TRUE,l |-> 296,eObj |-> <<>>,nextE |-> 4]),
    ([res |-> "ok",cacheV |-> FALSE,nodes |-> {0, 1, 2, 3, 4, 5},cacheR |-> FALSE,nextN |-> 6,edges |-> (2 :> <<1, 4>> @@ 3 :> <<3, 1>>),acyclic |-> TRUE,l |-> 297,eObj |-> <<>>,nextE |-> 4]),
    ([res |-> "ok",cacheV |-> FALSE,nodes |-> {0, 1, 2, 3, 4, 5},cacheR |-> FALSE,nextN |-> 6,edges |-> (2 :> <<1, 4>> @@ 3 :> <<3, 1>>),acyclic |-> TRUE,l |-> 298,eObj |-> <<>>,nextE |-> 4]),
    ([res |-> "raise",cacheV |-> FALSE,nodes |-> {0, 1, 2, 3, 4, 5},cacheR |-> FALSE,nextN |-> 6,edges |-> (2 :> <<1, 4>> @@ 3 :> <<3, 1>>),acyclic |-> TRUE,l |-> 299,eObj |-> <<>>,nextE |-> 4]),
    ([res |-> "ok",cacheV |-> FALSE,nodes |-> {0, 1, 2, 3, 4, 5},cacheR |-> FALSE,nextN |-> 6,edges |-> (2 :> <<1, 4>> @@ 3 :> <<3, 1>> @@ 4 :> <<5, 0>>),acyclic |-> TRUE,l |-> 300,eObj |-> <<>>,nextE |-> 5]),
    ([res |-> "T",cacheV |-> TRUE,nodes |-> {0, 1, 2, 3, 4, 5},cacheR |-> FALSE,nextN |-> 6,edges |-> (2 :> <<1, 4>> @@ 3 :> <<3, 1>> @@ 4 :> <<5, 0>>),acyclic |-> TRUE,l |-> 301,eObj |-> <<>>,nextE |-> 5]),
    ([res |-> "T",cacheV |-> TRUE,nodes |-> {0, 1, 2, 3, 4, 5},cacheR |-> FALSE,nextN |-> 6,edges |-> (2 :> <<1, 4>> @@ 3 :> <<3, 1>> @@ 4 :> <<5, 0>>),acyclic |-> TRUE,l |-> 302,eObj |-> <<>>,nextE |-> 5]),
    ([res |-> "raise",cacheV |-> TRUE,nodes |-> {0, 1, 2, 3, 4, 5},cacheR |-> FALSE,nextN |-> 6,edges |-> (2 :> <<1, 4>> @@ 3 :> <<3, 1>> @@ 4 :> <<5, 0>>),acyclic |-> TRUE,l |-> 303,eObj |-> <<>>,nextE |-> 5]),
    ([res |-> "ok",cacheV |-> FALSE,nodes |-> {0, 1, 2, 3, 4, 5},cacheR |-> FALSE,nextN |-> 6,edges |-> (2 :> <<1, 4>> @@ 3 :> <<3, 1>> @@ 4 :> <<5, 0>> @@ 5 :> <<4, 3>>),acyclic |-> FALSE,l |-> 304,eObj |-> <<>>,nextE |-> 6]),
    ([res |-> "F",cacheV |-> FALSE,nodes |-> {0, 1, 2, 3, 4, 5},cacheR |-> FALSE,nextN |-> 6,edges |-> (2 :> <<1, 4>> @@ 3 :> <<3, 1>> @@ 4 :> <<5, 0>> @@ 5 :> <<4, 3>>),acyclic |-> FALSE,l |-> 305,eObj |-> <<>>,nextE |-> 6]),
    ([res |-> "RF",cacheV |-> FALSE,nodes |-> {0, 1, 2, 3, 4, 5},cacheR |-> FALSE,nextN |-> 6,edges |-> (2 :> <<1, 4>> @@ 3 :> <<3, 1>> @@ 4 :> <<5, 0>> @@ 5 :> <<4, 3>>),acyclic |-> FALSE,l |-> 306,eObj |-> <<>>,nextE |-> 6]),
    ([res |-> "ok",cacheV |-> FALSE,nodes |-> {0, 1, 2, 3, 4, 5},cacheR |-> FALSE,nextN |-> 6,edges |-> (2 :> <<1, 4>> @@ 3 :> <<3, 1>> @@ 4 :> <<5, 0>> @@ 5 :> <<4, 3>> @@ 6 :> <<4, 5>>),acyclic |-> FALSE,l |-> 307,eObj |-> <<>>,nextE |-> 7]),
    ([res |-> "F",cacheV |-> FALSE,nodes |-> {0, 1, 2, 3, 4, 5},cacheR |-> FALSE,nextN |-> 6,edges |-> (2 :> <<1, 4>> @@ 3 :> <<3, 1>> @@ 4 :> <<5, 0>> @@ 5 :> <<4, 3>> @@ 6 :> <<4, 5>>),acyclic |-> FALSE,l |-> 308,eObj |-> <<>>,nextE |-> 7]),
    ([res |-> "ok",cacheV |-> FALSE,nodes |-> {0, 1, 2, 3, 4, 5},cacheR |-> FALSE,nextN |-> 6,edges |-> (2 :> <<1, 4>> @@ 3 :> <<3, 1>> @@ 4 :> <<5, 0>> @@ 5 :> <<4, 3>> @@ 6 :> <<4, 5>> @@ 7 :> <<4, 2>>),acyclic |-> FALSE,l |-> 309,eObj |-> <<>>,nextE |-> 8]),
    ([res |-> "RT",cacheV |-> FALSE,nodes |-> {0, 1, 2, 3, 4, 5},cacheR |-> FALSE,nextN |-> 6,edges |-> (2 :> <<1, 4>> @@ 3 :> <<3, 1>> @@ 4 :> <<5, 0>> @@ 5 :> <<4, 3>> @@ 6 :> <<4, 5>> @@ 7 :> <<4, 2>>),acyclic |-> FALSE,l |-> 310,eObj |-> <<>>,nextE |-> 8]),
    ([res |-> "raise",cacheV |-> FALSE,nodes |-> {0, 1, 2, 3, 4, 5},cacheR |-> FALSE,nextN |-> 6,edges |-> (2 :> <<1, 4>> @@ 3 :> <<3, 1>> @@ 4 :> <<5, 0>> @@ 5 :> <<4, 3>> @@ 6 :> <<4, 5>> @@ 7 :> <<4, 2>>),acyclic |-> FALSE,l |-> 311,eObj |-> <<>>,nextE |-> 8]),
    ([res |-> "raise",cacheV |-> FALSE,nodes |-> {0, 1, 2, 3, 4, 5},cacheR |-> FALSE,nextN |-> 6,edges |-> (2 :> <<1, 4>> @@ 3 :> <<3, 1>> @@ 4 :> <<5, 0>> @@ 5 :> <<4, 3>> @@ 6 :> <<4, 5>> @@ 7 :> <<4, 2>>),acyclic |-> FALSE,l |-> 312,eObj |-> <<>>,nextE |-> 8]),
    ([res |-> "ok",cacheV |-> FALSE,nodes |-> {0, 1, 2, 3, 4, 5},cacheR |-> FALSE,nextN |-> 6,edges |-> (2 :> <<1, 4>> @@ 3 :> <<3, 1>> @@ 4 :> <<5, 0>> @@ 5 :> <<4, 3>> @@ 6 :> <<4, 5>> @@ 7 :> <<4, 2>> @@ 8 :> <<3, 4>>),acyclic |-> FALSE,l |-> 313,eObj |-> (8 :> 1),nextE |-> 9]),
    ([res |-> "F",cacheV |-> FALSE,nodes |-> {0, 1, 2, 3, 4, 5},cacheR |-> FALSE,nextN |-> 6,edges |-> (2 :> <<1, 4>> @@ 3 :> <<3, 1>> @@ 4 :> <<5, 0>> @@ 5 :> <<4, 3>> @@ 6 :> <<4, 5>> @@ 7 :> <<4, 2>> @@ 8 :> <<3, 4>>),acyclic |-> FALSE,l |-> 314,eObj |-> (8 :> 1),nextE |-> 9]),
    ([res |-> "RT",cacheV |-> FALSE,nodes |-> {0, 1, 2, 3, 4, 5},cacheR |-> FALSE,nextN |-> 6,edges |-> (2 :> <<1, 4>> @@ 3 :> <<3, 1>> @@ 4 :> <<5, 0>> @@ 5 :> <<4, 3>> @@ 6 :> <<4, 5>> @@ 7 :> <<4, 2>> @@ 8 :> <<3, 4>>),acyclic |-> FALSE,l |-> 315,eObj |-> (8 :> 1),nextE |-> 9]),
    ([res |-> "ok",cacheV |-> FALSE,nodes |-> {0, 1, 2, 3, 4, 5},cacheR |-> FALSE,nextN |-> 6,edges |-> (2 :> <<1, 4>> @@ 3 :> <<3, 1>> @@ 4 :> <<5, 0>> @@ 5 :> <<4, 3>> @@ 6 :> <<4, 5>> @@ 7 :> <<4, 2>> @@ 8 :> <<3, 4>>),acyclic |-> FALSE,l |-> 316,eObj |-> (8 :> 1),nextE |-> 9]),
    ([res |-> "raise",cacheV |-> FALSE,nodes |-> {0, 1, 2, 3, 4, 5},cacheR |-> FALSE,nextN |-> 6,edges |-> (2 :> <<1, 4>> @@ 3 :> <<3, 1>> @@ 4 :> <<5, 0>> @@ 5 :> <<4, 3>> @@ 6 :> <<4, 5>> @@ 7 :> <<4, 2>> @@ 8 :> <<3, 4>>),acyclic |-> FALSE,l |-> 317,eObj |-> (8 :> 1),nextE |-> 9]),
    ([res |-> "ok",cacheV |-> FALSE,nodes |-> {},cacheR |-> FALSE,nextN |-> 0,edges |-> <<>>,acyclic |-> TRUE,l |-> 318,eObj |-> <<>>,nextE |-> 0]),
    ([res |-> "ok",cacheV |-> FALSE,nodes |-> {0},cacheR |-> FALSE,nextN |-> 1,edges |-> <<>>,acyclic |-> TRUE,l |-> 319,eObj |-> <<>>,nextE |-> 0]),
    ([res |-> "ok",cacheV |-> FALSE,nodes |-> {0, 1},cacheR |-> FALSE,nextN |-> 2,edges |-> <<>>,acyclic |-> TRUE,l |-> 320,eObj |-> <<>>,nextE |-> 0]),
    ([res |-> "ok",cacheV |-> FALSE,nodes |-> {0, 1, 2},cacheR |-> FALSE,nextN |-> 3,edges |-> <<>>,acyclic |-> TRUE,l |-> 321,eObj |-> <<>>,nextE |-> 0]),
    ([res |-> "ok",cacheV |-> FALSE,nodes |-> {0, 1, 2, 3},cacheR |-> FALSE,nextN |-> 4,edges |-> <<>>,acyclic |-> TRUE,l |-> 322,eObj |-> <<>>,nextE |-> 0]),
    ([res |-> "ok",cacheV |-> FALSE,nodes |-> {0, 1, 2, 3, 4},cacheR |-> FALSE,nextN |-> 5,edges |-> <<>>,acyclic |-> TRUE,l |-> 323,eObj |-> <<>>,nextE |-> 0]),
    ([res |-> "ok",cacheV |-> FALSE,nodes |-> {0, 1, 2, 3, 4},cacheR |-> FALSE,nextN |-> 5,edges |-> (0 :> <<1, 3>>),acyclic |-> TRUE,l |-> 324,eObj |-> <<>>,nextE |-> 1]),
    ([res |-> "ok",cacheV |-> FALSE,nodes |-> {0, 1, 2, 3, 4},cacheR |-> FALSE,nextN |-> 5,edges |-> (0 :> <<1, 3>> @@ 1 :> <<2, 3>>),acyclic |-> TRUE,l |-> 325,eObj |-> <<>>,nextE |-> 2]),
    ([res |-> "ok",cacheV |-> FALSE,nodes |-> {0, 1, 2, 3, 4},cacheR |-> FALSE,nextN |-> 5,edges |-> (0 :> <<1, 3>> @@ 1 :> <<2, 3>> @@ 2 :> <<2, 0>>),acyclic |-> TRUE,l |-> 326,eObj |-> <<>>,nextE |-> 3]),
    ([res |-> "ok",cacheV |-> FALSE,nodes |-> {0, 1, 2, 3, 4},cacheR |-> FALSE,nextN |-> 5,edges |-> (0 :> <<1, 3>> @@ 1 :> <<2, 3>> @@ 2 :> <<2, 0>> @@ 3 :> <<0, 2>>),acyclic |-> FALSE,l |-> 327,eObj |-> <<>>,nextE |-> 4]),
    ([res |-> "F",cacheV |-> FALSE,nodes |-> {0, 1, 2, 3, 4},cacheR |-> FALSE,nextN |-> 5,edges |-> (0 :> <<1, 3>> @@ 1 :> <<2, 3>> @@ 2 :> <<2, 0>> @@ 3 :> <<0, 2>>),acyclic |-> FALSE,l |-> 328,eObj |-> <<>>,nextE |-> 4]),
    ([res |-> "RF",cacheV |-> FALSE,nodes |-> {0, 1, 2, 3, 4},cacheR |-> FALSE,nextN |-> 5,edges |-> (0 :> <<1, 3>> @@ 1 :> <<2, 3>> @@ 2 :> <<2, 0>> @@ 3 :> <<0, 2>>),acyclic |-> FALSE,l |-> 329,eObj |-> <<>>,nextE |-> 4]),
    ([res |-> "ok",cacheV |-> FALSE,nodes |-> {0, 1, 2, 3, 4},cacheR |-> FALSE,nextN |-> 5,edges |-> (0 :> <<1, 3>> @@ 1 :> <<2, 3>> @@ 2 :> <<2, 0>> @@ 3 :> <<0, 2>>),acyclic |-> FALSE,l |-> 330,eObj |-> <<>>,nextE |-> 4]),
    ([res |-> "raise",cacheV |-> FALSE,nodes |-> {0, 1, 2, 3, 4},cacheR |-> FALSE,nextN |-> 5,edges |-> (0 :> <<1, 3>> @@ 1 :> <<2, 3>> @@ 2 :> <<2, 0>> @@ 3 :> <<0, 2>>),acyclic |-> FALSE,l |-> 331,eObj |-> <<>>,nextE |-> 4]),
    ([res |-> "ok",cacheV |-> FALSE,nodes |-> {},cacheR |-> FALSE,nextN |-> 0,edges |-> <<>>,acyclic |-> TRUE,l |-> 332,eObj |-> <<>>,nextE |-> 0]),
    ([res |-> "raise",cacheV |-> FALSE,nodes |-> {},cacheR |-> FALSE,nextN |-> 0,edges |-> <<>>,acyclic |-> TRUE,l |-> 333,eObj |-> <<>>,nextE |-> 0]),
    ([res |-> "ok",cacheV |-> FALSE,nodes |-> {},cacheR |-> FALSE,nextN |-> 0,edges |-> <<>>,acyclic |-> TRUE,l |-> 334,eObj |-> <<>>,nextE |-> 0]),
    ([res |-> "ok",cacheV |-> FALSE,nodes |-> {},cacheR |-> FALSE,nextN |-> 0,edges |-> <<>>,acyclic |-> TRUE,l |-> 335,eObj |-> <<>>,nextE |-> 0]),
    ([res |-> "raise",cacheV |-> FALSE,nodes |-> {},cacheR |-> FALSE,nextN |-> 0,edges |-> <<>>,acyclic |-> TRUE,l |-> 336,eObj |-> <<>>,nextE |-> 0]),
    ([res |-> "raise",cacheV |-> FALSE,nodes |-> {},cacheR |-> FALSE,nextN |-> 0,edges |-> <<>>,acyclic |-> TRUE,l |-> 337,eObj |-> <<>>,nextE |-> 0]),
    ([res |-> "raise",cacheV |-> FALSE,nodes |-> {},cacheR |-> FALSE,nextN |-> 0,edges |-> <<>>,acyclic |-> TRUE,l |-> 338,eObj |-> <<>>,nextE |-> 0]),
    ([res |-> "raise",cacheV |-> FALSE,nodes |-> {},cacheR |-> FALSE,nextN |-> 0,edges |-> <<>>,acyclic |-> TRUE,l |-> 339,eObj |-> <<>>,nextE |-> 0]),
    ([res |-> "ok",cacheV |-> FALSE,nodes |-> {},cacheR |-> FALSE,nextN |-> 0,edges |-> <<>>,acyclic |-> TRUE,l |-> 340,eObj |-> <<>>,nextE |-> 0]),
    ([res |-> "ok",cacheV |-> FALSE,nodes |-> {},cacheR |-> FALSE,nextN |-> 0,edges |-> <<>>,acyclic |-> TRUE,l |-> 341,eObj |-> <<>>,nextE |-> 0]),
    ([res |-> "ok",cacheV |-> FALSE,nodes |-> {},cacheR |-> FALSE,nextN |-> 0,edges |-> <<>>,acyclic |-> TRUE,l |-> 342,eObj |-> <<>>,nextE |-> 0]),
    ([res |-> "ok",cacheV |-> FALSE,nodes |-> {},cacheR |-> FALSE,nextN |-> 0,edges |-> <<>>,acyclic |-> TRUE,l |-> 343,eObj |-> <<>>,nextE |-> 0]),
    ([res |-> "raise",cacheV |-> FALSE,nodes |-> {},cacheR |-> FALSE,nextN |-> 0,edges |-> <<>>,acyclic |-> TRUE,l |-> 344,eObj |-> <<>>,nextE |-> 0]),
    ([res |-> "F",cacheV |-> TRUE,nodes |-> {},cacheR |-> FALSE,nextN |-> 0,edges |-> <<>>,acyclic |-> TRUE,l |-> 345,eObj |-> <<>>,nextE |-> 0]),
    ([res |-> "raise",cacheV |-> TRUE,nodes |-> {},cacheR |-> FALSE,nextN |-> 0,edges |-> <<>>,acyclic |-> TRUE,l |-> 346,eObj |-> <<>>,nextE |-> 0]),
    ([res |-> "raise",cacheV |-> TRUE,nodes |-> {},cacheR |-> FALSE,nextN |-> 0,edges |-> <<>>,acyclic |-> TRUE,l |-> 347,eObj |-> <<>>,nextE |-> 0]),
    ([res |-> "raise",cacheV |-> TRUE,nodes |-> {},cacheR |-> FALSE,nextN |-> 0,edges |-> <<>>,acyclic |-> TRUE,l |-> 348,eObj |-> <<>>,nextE |-> 0]),
    ([res |-> "raise",cacheV |-> TRUE,nodes |-> {},cacheR |-> FALSE,nextN |-> 0,edges |-> <<>>,acyclic |-> TRUE,l |-> 349,eObj |-> <<>>,nextE |-> 0]),
    ([res |-> "raise",cacheV |-> TRUE,nodes |-> {},cacheR |-> FALSE,nextN |-> 0,edges |-> <<>>,acyclic |-> TRUE,l |-> 350,eObj |-> <<>>,nextE |-> 0]),
    ([res |-> "raise",cacheV |-> TRUE,nodes |-> {},cacheR |-> FALSE,nextN |-> 0,edges |-> <<>>,acyclic |-> TRUE,l |-> 351,eObj |-> <<>>,nextE |-> 0]),
    ([res |-> "ok",cacheV |-> FALSE,nodes |-> {0},cacheR |-> FALSE,nextN |-> 1,edges |-> <<>>,acyclic |-> TRUE,l |-> 352,eObj |-> <<>>,nextE |-> 0]),
    ([res |-> "ok",cacheV |-> FALSE,nodes |-> {0},cacheR |-> FALSE,nextN |-> 1,edges |-> <<>>,acyclic |-> TRUE,l |-> 353,eObj |-> <<>>,nextE |-> 0]),
    ([res |-> "ok",cacheV |-> FALSE,nodes |-> {0},cacheR |-> FALSE,nextN |-> 1,edges |-> <<>>,acyclic |-> TRUE,l |-> 354,eObj |-> <<>>,nextE |-> 0]),
    ([res |-> "T",cacheV |-> TRUE,nodes |-> {0},cacheR |-> FALSE,nextN |-> 1,edges |-> <<>>,acyclic |-> TRUE,l |-> 355,eObj |-> <<>>,nextE |-> 0]),
    ([res |-> "ok",cacheV |-> FALSE,nodes |-> {0},cacheR |-> FALSE,nextN |-> 1,edges |-> (0 :> <<0, 0>>),acyclic |-> FALSE,l |-> 356,eObj |-> <<>>,nextE |-> 1]),
    ([res |-> "RT",cacheV |-> FALSE,nodes |-> {0},cacheR |-> FALSE,nextN |-> 1,edges |-> (0 :> <<0, 0>>),acyclic |-> FALSE,l |-> 357,eObj |-> <<>>,nextE |-> 1]),
    ([res |-> "ok",cacheV |-> FALSE,nodes |-> {0, 1},cacheR |-> FALSE,nextN |-> 2,edges |-> (0 :> <<0, 0>>),acyclic |-> FALSE,l |-> 358,eObj |-> <<>>,nextE |-> 1]),
    ([res |-> "raise",cacheV |-> FALSE,nodes |-> {0, 1},cacheR |-> FALSE,nextN |-> 2,edges |-> (0 :> <<0, 0>>),acyclic |-> FALSE,l |-> 359,eObj |-> <<>>,nextE |-> 1]),
    ([res |-> "raise",cacheV |-> FALSE,nodes |-> {0, 1},cacheR |-> FALSE,nextN |-> 2,edges |-> (0 :> <<0, 0>>),acyclic |-> FALSE,l |-> 360,eObj |-> <<>>,nextE |-> 1]),
    ([res |-> "F",cacheV |-> FALSE,nodes |-> {0, 1},cacheR |-> FALSE,nextN |-> 2,edges |-> (0 :> <<0, 0>>),acyclic |-> FALSE,l |-> 361,eObj |-> <<>>,nextE |-> 1]),
    ([res |-> "ok",cacheV |-> FALSE,nodes |-> {0, 1, 2},cacheR |-> FALSE,nextN |-> 3,edges |-> (0 :> <<0, 0>>),acyclic |-> FALSE,l |-> 362,eObj |-> <<>>,nextE |-> 1]),
    ([res |-> "RF",cacheV |-> FALSE,nodes |-> {0, 1, 2},cacheR |-> FALSE,nextN |-> 3,edges |-> (0 :> <<0, 0>>),acyclic |-> FALSE,l |-> 363,eObj |-> <<>>,nextE |-> 1]),
    ([res |-> "ok",cacheV |-> FALSE,nodes |-> {0, 1, 2},cacheR |-> FALSE,nextN |-> 3,edges |-> (0 :> <<0, 0>> @@ 1 :> <<2, 1>>),acyclic |-> FALSE,l |-> 364,eObj |-> <<>>,nextE |-> 2]),
    ([res |-> "raise",cacheV |-> FALSE,nodes |-> {0, 1, 2},cacheR |-> FALSE,nextN |-> 3,edges |-> (0 :> <<0, 0>> @@ 1 :> <<2, 1>>),acyclic |-> FALSE,l |-> 365,eObj |-> <<>>,nextE |-> 2]),
    ([res |-> "ok",cacheV |-> FALSE,nodes |-> {0, 1, 2, 3},cacheR |-> FALSE,nextN |-> 4,edges |-> (0 :> <<0, 0>> @@ 1 :> <<2, 1>>),acyclic |-> FALSE,l |-> 366,eObj |-> <<>>,nextE |-> 2]),
    ([res |-> "F",cacheV |-> FALSE,nodes |-> {0, 1, 2, 3},cacheR |-> FALSE,nextN |-> 4,edges |-> (0 :> <<0, 0>> @@ 1 :> <<2, 1>>),acyclic |-> FALSE,l |-> 367,eObj |-> <<>>,nextE |-> 2]),
    ([res |-> "raise",cacheV |-> FALSE,nodes |-> {0, 1, 2, 3},cacheR |-> FALSE,nextN |-> 4,edges |-> (0 :> <<0, 0>> @@ 1 :> <<2, 1>>),acyclic |-> FALSE,l |-> 368,eObj |-> <<>>,nextE |-> 2]),
    ([res |-> "raise",cacheV |-> FALSE,nodes |-> {0, 1, 2, 3},cacheR |-> FALSE,nextN |-> 4,edges |-> (0 :> <<0, 0>> @@ 1 :> <<2, 1>>),acyclic |-> FALSE,l |-> 369,eObj |-> <<>>,nextE |-> 2]),
    ([res |-> "ok",cacheV |-> FALSE,nodes |-> {1, 2, 3},cacheR |-> FALSE,nextN |-> 4,edges |-> <<<<2, 1>>>>,acyclic |-> TRUE,l |-> 370,eObj |-> <<>>,nextE |-> 2]),
    ([res |-> "ok",cacheV |-> FALSE,nodes |-> {1, 2, 3, 4},cacheR |-> FALSE,nextN |-> 5,edges |-> <<<<2, 1>>>>,acyclic |-> TRUE,l |-> 371,eObj |-> <<>>,nextE |-> 2]),
    ([res |-> "T",cacheV |-> TRUE,nodes |-> {1, 2, 3, 4},cacheR |-> FALSE,nextN |-> 5,edges |-> <<<<2, 1>>>>,acyclic |-> TRUE,l |-> 372,eObj |-> <<>>,nextE |-> 2]),
    ([res |-> "RF",cacheV |-> TRUE,nodes |-> {1, 2, 3, 4},cacheR |-> FALSE,nextN |-> 5,edges |-> <<<<2, 1>>>>,acyclic |-> TRUE,l |-> 373,eObj |-> <<>>,nextE |-> 2]),
    ([res |-> "raise",cacheV |-> TRUE,nodes |-> {1, 2, 3, 4},cacheR |-> FALSE,nextN |-> 5,edges |-> <<<<2, 1>>>>,acyclic |-> TRUE,l |-> 374,eObj |-> <<>>,nextE |-> 2]),
    ([res |-> "RF",cacheV |-> TRUE,nodes |-> {1, 2, 3, 4},cacheR |-> FALSE,nextN |-> 5,edges |-> <<<<2, 1>>>>,acyclic |-> TRUE,l |-> 375,eObj |-> <<>>,nextE |-> 2]),
    ([res |-> "T",cacheV |-> TRUE,nodes |-> {1, 2, 3, 4},cacheR |-> FALSE,nextN |-> 5,edges |-> <<<<2, 1>>>>,acyclic |-> TRUE,l |-> 376,eObj |-> <<>>,nextE |-> 2]),
    ([res |-> "RF",cacheV |-> TRUE,nodes |-> {1, 2, 3, 4},cacheR |-> FALSE,nextN |-> 5,edges |-> <<<<2, 1>>>>,acyclic |-> TRUE,l |-> 377,eObj |-> <<>>,nextE |-> 2]),
    ([res |-> "ok",cacheV |-> TRUE,nodes |-> {1, 2, 3, 4},cacheR |-> FALSE,nextN |-> 5,edges |-> <<<<2, 1>>>>,acyclic |-> TRUE,l |-> 378,eObj |-> <<>>,nextE |-> 2]),
    ([res |-> "ok",cacheV |-> TRUE,nodes |-> {1, 2, 3, 4},cacheR |-> FALSE,nextN |-> 5,edges |-> <<<<2, 1>>>>,acyclic |-> TRUE,l |-> 379,eObj |-> <<>>,nextE |-> 2]),
    ([res |-> "ok",cacheV |-> TRUE,nodes |-> {1, 2, 3, 4},cacheR |-> FALSE,nextN |-> 5,edges |-> <<<<2, 1>>>>,acyclic |-> TRUE,l |-> 380,eObj |-> <<>>,nextE |-> 2]),
    ([res |-> "ok",cacheV |-> TRUE,nodes |-> {1, 2, 3, 4},cacheR |-> FALSE,nextN |-> 5,edges |-> <<<<2, 1>>>>,acyclic |-> TRUE,l |-> 381,eObj |-> <<>>,nextE |-> 2]),
    ([res |-> "ok",cacheV |-> TRUE,nodes |-> {1, 2, 3, 4},cacheR |-> FALSE,nextN |-> 5,edges |-> <<<<2, 1>>>>,acyclic |-> TRUE,l |-> 382,eObj |-> <<>>,nextE |-> 2]),
    ([res |-> "ok",cacheV |-> TRUE,nodes |-> {1, 2, 3, 4},cacheR |-> FALSE,nextN |-> 5,edges |-> <<<<2, 1>>>>,acyclic |-> TRUE,l |-> 383,eObj |-> <<>>,nextE |-> 2]),
    ([res |-> "ok",cacheV |-> FALSE,nodes |-> {},cacheR |-> FALSE,nextN |-> 0,edges |-> <<>>,acyclic |-> TRUE,l |-> 384,eObj |-> <<>>,nextE |-> 0]),
    ([res |-> "ok",cacheV |-> FALSE,nodes |-> {0},cacheR |-> FALSE,nextN |-> 1,edges |-> <<>>,acyclic |-> TRUE,l |-> 385,eObj |-> <<>>,nextE |-> 0]),
    ([res |-> "ok",cacheV |-> FALSE,nodes |-> {0, 1},cacheR |-> FALSE,nextN |-> 2,edges |-> <<>>,acyclic |-> TRUE,l |-> 386,eObj |-> <<>>,nextE |-> 0]),
    ([res |-> "ok",cacheV |-> FALSE,nodes |-> {0, 1, 2},cacheR |-> FALSE,nextN |-> 3,edges |-> <<>>,acyclic |-> TRUE,l |-> 387,eObj |-> <<>>,nextE |-> 0]),
    ([res |-> "ok",cacheV |-> FALSE,nodes |-> {0, 1, 2, 3},cacheR |-> FALSE,nextN |-> 4,edges |-> <<>>,acyclic |-> TRUE,l |-> 388,eObj |-> <<>>,nextE |-> 0]),
    ([res |-> "ok",cacheV |-> FALSE,nodes |-> {0, 1, 2, 3, 4},cacheR |-> FALSE,nextN |-> 5,edges |-> <<>>,acyclic |-> TRUE,l |-> 389,eObj |-> <<>>,nextE |-> 0]),
    ([res |-> "ok",cacheV |-> FALSE,nodes |-> {0, 1, 2, 3, 4},cacheR |-> FALSE,nextN |-> 5,edges |-> (0 :> <<2, 3>>),acyclic |-> TRUE,l |-> 390,eObj |-> (0 :> 1),nextE |-> 1]),
    ([res |-> "ok",cacheV |-> FALSE,nodes |-> {0, 1, 2, 3, 4},cacheR |-> FALSE,nextN |-> 5,edges |-> (0 :> <<2, 3>> @@ 1 :> <<4, 3>>),acyclic |-> TRUE,l |-> 391,eObj |-> (0 :> 1 @@ 1 :> 2),nextE |-> 2]),
    ([res |-> "ok",cacheV |-> FALSE,nodes |-> {0, 1, 2, 3, 4},cacheR |-> FALSE,nextN |-> 5,edges |-> (0 :> <<2, 3>> @@ 1 :> <<4, 3>> @@ 2 :> <<3, 0>>),acyclic |-> TRUE,l |-> 392,eObj |-> (0 :> 1 @@ 1 :> 2),nextE |-> 3]),
    ([res |-> "raise",cacheV |-> FALSE,nodes |-> {0, 1, 2, 3, 4},cacheR |-> FALSE,nextN |-> 5,edges |-> (0 :> <<2, 3>> @@ 1 :> <<4, 3>> @@ 2 :> <<3, 0>>),acyclic |-> TRUE,l |-> 393,eObj |-> (0 :> 1 @@ 1 :> 2),nextE |-> 3]),
    ([res |-> "ok",cacheV |-> FALSE,nodes |-> {0, 1, 2, 3, 4},cacheR |-> FALSE,nextN |-> 5,edges |-> (0 :> <<2, 3>> @@ 1 :> <<4, 3>> @@ 2 :> <<3, 0>> @@ 3 :> <<1, 2>>),acyclic |-> TRUE,l |-> 394,eObj |-> (0 :> 1 @@ 1 :> 2 @@ 3 :> 3),nextE |-> 4]),
    ([res |-> "RF",cacheV |-> FALSE,nodes |-> {0, 1, 2, 3, 4},cacheR |-> FALSE,nextN |-> 5,edges |-> (0 :> <<2, 3>> @@ 1 :> <<4, 3>> @@ 2 :> <<3, 0>> @@ 3 :> <<1, 2>>),acyclic |-> TRUE,l |-> 395,eObj |-> (0 :> 1 @@ 1 :> 2 @@ 3 :> 3),nextE |-> 4]),
    ([res |-> "raise",cacheV |-> FALSE,nodes |-> {0, 1, 2, 3, 4},cacheR |-> FALSE,nextN |-> 5,edges |-> (0 :> <<2, 3>> @@ 1 :> <<4, 3>> @@ 2 :> <<3, 0>> @@ 3 :> <<1, 2>>),acyclic |-> TRUE,l |-> 396,eObj |-> (0 :> 1 @@ 1 :> 2 @@ 3 :> 3),nextE |-> 4]),
    ([res |-> "raise",cacheV |-> FALSE,nodes |-> {0, 1, 2, 3, 4},cacheR |-> FALSE,nextN |-> 5,edges |-> (0 :> <<2, 3>> @@ 1 :> <<4, 3>> @@ 2 :> <<3, 0>> @@ 3 :> <<1, 2>>),acyclic |-> TRUE,l |-> 397,eObj |-> (0 :> 1 @@ 1 :> 2 @@ 3 :> 3),nextE |-> 4]),
    ([res |-> "T",cacheV |-> TRUE,nodes |-> {0, 1, 2, 3, 4},cacheR |-> FALSE,nextN |-> 5,edges |-> (0 :> <<2, 3>> @@ 1 :> <<4, 3>> @@ 2 :> <<3, 0>> @@ 3 :> <<1, 2>>),acyclic |-> TRUE,l |-> 398,eObj |-> (0 :> 1 @@ 1 :> 2 @@ 3 :> 3),nextE |-> 4]),
    ([res |-> "RF",cacheV |-> TRUE,nodes |-> {0, 1, 2, 3, 4},cacheR |-> FALSE,nextN |-> 5,edges |-> (0 :> <<2, 3>> @@ 1 :> <<4, 3>> @@ 2 :> <<3, 0>> @@ 3 :> <<1, 2>>),acyclic |-> TRUE,l |-> 399,eObj |-> (0 :> 1 @@ 1 :> 2 @@ 3 :> 3),nextE |-> 4]),
    ([res |-> "ok",cacheV |-> TRUE,nodes |-> {0, 1, 2, 3, 4},cacheR |-> FALSE,nextN |-> 5,edges |-> (0 :> <<2, 3>> @@ 1 :> <<4, 3>> @@ 2 :> <<3, 0>> @@ 3 :> <<1, 2>>),acyclic |-> TRUE,l |-> 400,eObj |-> (0 :> 1 @@ 1 :> 2 @@ 3 :> 3),nextE |-> 4]),
    ([res |-> "ok",cacheV |-> TRUE,nodes |-> {0, 1, 2, 3, 4},cacheR |-> FALSE,nextN |-> 5,edges |-> (0 :> <<2, 3>> @@ 1 :> <<4, 3>> @@ 2 :> <<3, 0>> @@ 3 :> <<1, 2>>),acyclic |-> TRUE,l |-> 401,eObj |-> (0 :> 1 @@ 1 :> 2 @@ 3 :> 3),nextE |-> 4]),
    ([res |-> "ok",cacheV |-> TRUE,nodes |-> {0, 1, 2, 3, 4},cacheR |-> FALSE,nextN |-> 5,edges |-> (0 :> <<2, 3>> @@ 1 :> <<4, 3>> @@ 2 :> <<3, 0>> @@ 3 :> <<1, 2>>),acyclic |-> TRUE,l |-> 402,eObj |-> (0 :> 1 @@ 1 :> 2 @@ 3 :> 3),nextE |-> 4]),
    ([res |-> "ok",cacheV |-> TRUE,nodes |-> {0, 1, 2, 3, 4},cacheR |-> FALSE,nextN |-> 5,edges |-> (0 :> <<2, 3>> @@ 1 :> <<4, 3>> @@ 2 :> <<3, 0>> @@ 3 :> <<1, 2>>),acyclic |-> TRUE,l |-> 403,eObj |-> (0 :> 1 @@ 1 :> 2 @@ 3 :> 3),nextE |-> 4]),
    ([res |-> "ok",cacheV |-> TRUE,nodes |-> {0, 1, 2, 3, 4},cacheR |-> FALSE,nextN |-> 5,edges |-> (0 :> <<2, 3>> @@ 1 :> <<4, 3>> @@ 2 :> <<3, 0>> @@ 3 :> <<1, 2>>),acyclic |-> TRUE,l |-> 404,eObj |-> (0 :> 1 @@ 1 :> 2 @@ 3 :> 3),nextE |-> 4]),
    ([res |-> "ok",cacheV |-> TRUE,nodes |-> {0, 1, 2, 3, 4},cacheR |-> FALSE,nextN |-> 5,edges |-> (0 :> <<2, 3>> @@ 1 :> <<4, 3>> @@ 2 :> <<3, 0>> @@ 3 :> <<1, 2>>),acyclic |-> TRUE,l |-> 405,eObj |-> (0 :> 1 @@ 1 :> 2 @@ 3 :> 3),nextE |-> 4]),
    ([res |-> "ok",cacheV |-> TRUE,nodes |-> {0, 1, 2, 3, 4},cacheR |-> FALSE,nextN |-> 5,edges |-> (0 :> <<2, 3>> @@ 1 :> <<4, 3>> @@ 2 :> <<3, 0>> @@ 3 :> <<1, 2>>),acyclic |-> TRUE,l |-> 406,eObj |-> (0 :> 1 @@ 1 :> 2 @@ 3 :> 3),nextE |-> 4]),
    ([res |-> "ok",cacheV |-> FALSE,nodes |-> {},cacheR |-> FALSE,nextN |-> 0,edges |-> <<>>,acyclic |-> TRUE,l |-> 407,eObj |-> <<>>,nextE |-> 0]),
    ([res |-> "ok",cacheV |-> FALSE,nodes |-> {0},cacheR |-> FALSE,nextN |-> 1,edges |-> <<>>,acyclic |-> TRUE,l |-> 408,eObj |-> <<>>,nextE |-> 0]),
    ([res |-> "ok",cacheV |-> TRUE,nodes |-> {0},cacheR |-> FALSE,nextN |-> 1,edges |-> <<>>,acyclic |-> TRUE,l |-> 409,eObj |-> <<>>,nextE |-> 0]),
    ([res |-> "ok",cacheV |-> FALSE,nodes |-> {0, 1},cacheR |-> FALSE,nextN |-> 2,edges |-> <<>>,acyclic |-> TRUE,l |-> 410,eObj |-> <<>>,nextE |-> 0]),
    ([res |-> "ok",cacheV |-> FALSE,nodes |-> {0},cacheR |-> FALSE,nextN |-> 2,edges |-> <<>>,acyclic |-> TRUE,l |-> 411,eObj |-> <<>>,nextE |-> 0]),
    ([res |-> "ok",cacheV |-> FALSE,nodes |-> {0, 2},cacheR |-> FALSE,nextN |-> 3,edges |-> <<>>,acyclic |-> TRUE,l |-> 412,eObj |-> <<>>,nextE |-> 0]),
    ([res |-> "T",cacheV |-> TRUE,nodes |-> {0, 2},cacheR |-> FALSE,nextN |-> 3,edges |-> <<>>,acyclic |-> TRUE,l |-> 413,eObj |-> <<>>,nextE |-> 0]),
    ([res |-> "ok",cacheV |-> FALSE,nodes |-> {0, 2},cacheR |-> FALSE,nextN |-> 3,edges |-> (0 :> <<2, 2>>),acyclic |-> FALSE,l |-> 414,eObj |-> (0 :> 1),nextE |-> 1]),
    ([res |-> "F",cacheV |-> FALSE,nodes |-> {0, 2},cacheR |-> FALSE,nextN |-> 3,edges |-> (0 :> <<2, 2>>),acyclic |-> FALSE,l |-> 415,eObj |-> (0 :> 1),nextE |-> 1]),
    ([res |-> "ok",cacheV |-> FALSE,nodes |-> {0, 2, 3},cacheR |-> FALSE,nextN |-> 4,edges |-> (0 :> <<2, 2>>),acyclic |-> FALSE,l |-> 416,eObj |-> (0 :> 1),nextE |-> 1]),
    ([res |-> "ok",cacheV |-> FALSE,nodes |-> {0, 2, 3},cacheR |-> FALSE,nextN |-> 4,edges |-> (0 :> <<2, 2>> @@ 1 :> <<3, 3>>),acyclic |-> FALSE,l |-> 417,eObj |-> (0 :> 1 @@ 1 :> 2),nextE |-> 2]),
    ([res |-> "ok",cacheV |-> FALSE,nodes |-> {0, 2, 3},cacheR |-> FALSE,nextN |-> 4,edges |-> (0 :> <<2, 2>> @@ 1 :> <<3, 3>> @@ 2 :> <<0, 3>>),acyclic |-> FALSE,l |-> 418,eObj |-> (0 :> 1 @@ 1 :> 2),nextE |-> 3]),
    ([res |-> "ok",cacheV |-> FALSE,nodes |-> {0, 2, 3, 4},cacheR |-> FALSE,nextN |-> 5,edges |-> (0 :> <<2, 2>> @@ 1 :> <<3, 3>> @@ 2 :> <<0, 3>>),acyclic |-> FALSE,l |-> 419,eObj |-> (0 :> 1 @@ 1 :> 2),nextE |-> 3]),
    ([res |-> "ok",cacheV |-> FALSE,nodes |-> {0, 2, 3, 4},cacheR |-> FALSE,nextN |-> 5,edges |-> (0 :> <<2, 2>> @@ 1 :> <<3, 3>> @@ 2 :> <<0, 3>> @@ 3 :> <<4, 2>>),acyclic |-> FALSE,l |-> 420,eObj |-> (0 :> 1 @@ 1 :> 2),nextE |-> 4]),
    ([res |-> "RF",cacheV |-> FALSE,nodes |-> {0, 2, 3, 4},cacheR |-> FALSE,nextN |-> 5,edges |-> (0 :> <<2, 2>> @@ 1 :> <<3, 3>> @@ 2 :> <<0, 3>> @@ 3 :> <<4, 2>>),acyclic |-> FALSE,l |-> 421,eObj |-> (0 :> 1 @@ 1 :> 2),nextE |-> 4]),
    ([res |-> "raise",cacheV |-> FALSE,nodes |-> {0, 2, 3, 4},cacheR |-> FALSE,nextN |-> 5,edges |-> (0 :> <<2, 2>> @@ 1 :> <<3, 3>> @@ 2 :> <<0, 3>> @@ 3 :> <<4, 2>>),acyclic |-> FALSE,l |-> 422,eObj |-> (0 :> 1 @@ 1 :> 2),nextE |-> 4]),
    ([res |-> "raise",cacheV |-> FALSE,nodes |-> {0, 2, 3, 4},cacheR |-> FALSE,nextN |-> 5,edges |-> (0 :> <<2, 2>> @@ 1 :> <<3, 3>> @@ 2 :> <<0, 3>> @@ 3 :> <<4, 2>>),acyclic |-> FALSE,l |-> 423,eObj |-> (0 :> 1 @@ 1 :> 2),nextE |-> 4]),
    ([res |-> "raise",cacheV |-> FALSE,nodes |-> {0, 2, 3, 4},cacheR |-> FALSE,nextN |-> 5,edges |-> (0 :> <<2, 2>> @@ 1 :> <<3, 3>> @@ 2 :> <<0, 3>> @@ 3 :> <<4, 2>>),acyclic |-> FALSE,l |-> 424,eObj |-> (0 :> 1 @@ 1 :> 2),nextE |-> 4]),
    ([res |-> "F",cacheV |-> FALSE,nodes |-> {0, 2, 3, 4},cacheR |-> FALSE,nextN |-> 5,edges |-> (0 :> <<2, 2>> @@ 1 :> <<3, 3>> @@ 2 :> <<0, 3>> @@ 3 :> <<4, 2>>),acyclic |-> FALSE,l |-> 425,eObj |-> (0 :> 1 @@ 1 :> 2),nextE |-> 4]),
    ([res |-> "ok",cacheV |-> FALSE,nodes |-> {0, 2, 3, 4},cacheR |-> FALSE,nextN |-> 5,edges |-> (0 :> <<2, 2>> @@ 1 :> <<3, 3>> @@ 2 :> <<0, 3>> @@ 3 :> <<4, 2>>),acyclic |-> FALSE,l |-> 426,eObj |-> (0 :> 1 @@ 1 :> 2),nextE |-> 4]),
    ([res |-> "raise",cacheV |-> FALSE,nodes |-> {0, 2, 3, 4},cacheR |-> FALSE,nextN |-> 5,edges |-> (0 :> <<2, 2>> @@ 1 :> <<3, 3>> @@ 2 :> <<0, 3>> @@ 3 :> <<4, 2>>),acyclic |-> FALSE,l |-> 427,eObj |-> (0 :> 1 @@ 1 :> 2),nextE |-> 4]),
    ([res |-> "ok",cacheV |-> FALSE,nodes |-> {0, 2, 3, 4, 5},cacheR |-> FALSE,nextN |-> 6,edges |-> (0 :> <<2, 2>> @@ 1 :> <<3, 3>> @@ 2 :> <<0, 3>> @@ 3 :> <<4, 2>>),acyclic |-> FALSE,l |-> 428,eObj |-> (0 :> 1 @@ 1 :> 2),nextE |-> 4]),
    ([res |-> "ok",cacheV |-> FALSE,nodes |-> {0, 2, 3, 4, 5},cacheR |-> FALSE,nextN |-> 6,edges |-> (0 :> <<2, 2>> @@ 1 :> <<3, 3>> @@ 3 :> <<4, 2>>),acyclic |-> FALSE,l |-> 429,eObj |-> (0 :> 1 @@ 1 :> 2),nextE |-> 4]),
    ([res |-> "ok",cacheV |-> FALSE,nodes |-> {0, 2, 3, 4, 5},cacheR |-> FALSE,nextN |-> 6,edges |-> (0 :> <<2, 2>> @@ 1 :> <<3, 3>> @@ 3 :> <<4, 2>> @@ 4 :> <<3, 5>>),acyclic |-> FALSE,l |-> 430,eObj |-> (0 :> 1 @@ 1 :> 2),nextE |-> 5]),
    ([res |-> "raise",cacheV |-> FALSE,nodes |-> {0, 2, 3, 4, 5},cacheR |-> FALSE,nextN |-> 6,edges |-> (0 :> <<2, 2>> @@ 1 :> <<3, 3>> @@ 3 :> <<4, 2>> @@ 4 :> <<3, 5>>),acyclic |-> FALSE,l |-> 431,eObj |-> (0 :> 1 @@ 1 :> 2),nextE |-> 5]),
    ([res |-> "ok",cacheV |-> FALSE,nodes |-> {0, 2, 3, 4, 5},cacheR |-> FALSE,nextN |-> 6,edges |-> (0 :> <<2, 2>> @@ 1 :> <<3, 3>> @@ 3 :> <<4, 2>> @@ 4 :> <<3, 5>> @@ 5 :> <<3, 0>>),acyclic |-> FALSE,l |-> 432,eObj |-> (0 :> 1 @@ 1 :> 2 @@ 5 :> 3),nextE |-> 6]),
    ([res |-> "raise",cacheV |-> FALSE,nodes |-> {0, 2, 3, 4, 5},cacheR |-> FALSE,nextN |-> 6,edges |-> (0 :> <<2, 2>> @@ 1 :> <<3, 3>> @@ 3 :> <<4, 2>> @@ 4 :> <<3, 5>> @@ 5 :> <<3, 0>>),acyclic |-> FALSE,l |-> 433,eObj |-> (0 :> 1 @@ 1 :> 2 @@ 5 :> 3),nextE |-> 6]),
    ([res |-> "RT",cacheV |-> FALSE,nodes |-> {0, 2, 3, 4, 5},cacheR |-> TRUE,nextN |-> 6,edges |-> (0 :> <<2, 2>> @@ 1 :> <<3, 3>> @@ 3 :> <<4, 2>> @@ 4 :> <<3, 5>> @@ 5 :> <<3, 0>>),acyclic |-> FALSE,l |-> 434,eObj |-> (0 :> 1 @@ 1 :> 2 @@ 5 :> 3),nextE |-> 6]),
    ([res |-> "ok",cacheV |-> FALSE,nodes |-> {0, 2, 3, 4, 5},cacheR |-> FALSE,nextN |-> 6,edges |-> (0 :> <<2, 2>> @@ 1 :> <<3, 3>> @@ 3 :> <<4, 2>> @@ 4 :> <<3, 5>> @@ 5 :> <<3, 0>> @@ 6 :> <<5, 0>>),acyclic |-> FALSE,l |-> 435,eObj |-> (0 :> 1 @@ 1 :> 2 @@ 5 :> 3),nextE |-> 7]),
    ([res |-> "ok",cacheV |-> FALSE,nodes |-> {0, 2, 3, 4, 5},cacheR |-> FALSE,nextN |-> 6,edges |-> (0 :> <<2, 2>> @@ 1 :> <<3, 3>> @@ 3 :> <<4, 2>> @@ 4 :> <<3, 5>> @@ 5 :> <<3, 0>> @@ 6 :> <<5, 0>> @@ 7 :> <<4, 0>>),acyclic |-> FALSE,l |-> 436,eObj |-> (0 :> 1 @@ 1 :> 2 @@ 5 :> 3),nextE |-> 8]),
    ([res |-> "RT",cacheV |-> FALSE,nodes |-> {0, 2, 3, 4, 5},cacheR |-> TRUE,nextN |-> 6,edges |-> (0 :> <<2, 2>> @@ 1 :> <<3, 3>> @@ 3 :> <<4, 2>> @@ 4 :> <<3, 5>> @@ 5 :> <<3, 0>> @@ 6 :> <<5, 0>> @@ 7 :> <<4, 0>>),acyclic |-> FALSE,l |-> 437,eObj |-> (0 :> 1 @@ 1 :> 2 @@ 5 :> 3),nextE |-> 8]),
    ([res |-> "RT",cacheV |-> FALSE,nodes |-> {0, 2, 3, 4, 5},cacheR |-> TRUE,nextN |-> 6,edges |-> (0 :> <<2, 2>> @@ 1 :> <<3, 3>> @@ 3 :> <<4, 2>> @@ 4 :> <<3, 5>> @@ 5 :> <<3, 0>> @@ 6 :> <<5, 0>> @@ 7 :> <<4, 0>>),acyclic |-> FALSE,l |-> 438,eObj |-> (0 :> 1 @@ 1 :> 2 @@ 5 :> 3),nextE |-> 8]),
    ([res |-> "ok",cacheV |-> FALSE,nodes |-> {0, 2, 3, 4, 5},cacheR |-> FALSE,nextN |-> 6,edges |-> (0 :> <<2, 2>> @@ 1 :> <<3, 3>> @@ 3 :> <<4, 2>> @@ 4 :> <<3, 5>> @@ 5 :> <<3, 0>> @@ 6 :> <<5, 0>> @@ 7 :> <<4, 0>> @@ 8 :> <<2, 3>>),acyclic |-> FALSE,l |-> 439,eObj |-> (0 :> 1 @@ 1 :> 2 @@ 5 :> 3 @@ 8 :> 4),nextE |-> 9]),
    ([res |-> "ok",cacheV |-> FALSE,nodes |-> {0, 2, 4, 5},cacheR |-> FALSE,nextN |-> 6,edges |-> (0 :> <<2, 2>> @@ 3 :> <<4, 2>> @@ 6 :> <<5, 0>> @@ 7 :> <<4, 0>>),acyclic |-> FALSE,l |-> 440,eObj |-> (0 :> 1),nextE |-> 9]),
    ([res |-> "ok",cacheV |-> FALSE,nodes |-> {0, 2, 4, 5},cacheR |-> FALSE,nextN |-> 6,edges |-> (0 :> <<2, 2>> @@ 3 :> <<4, 2>> @@ 6 :> <<5, 0>> @@ 7 :> <<4, 0>> @@ 9 :> <<4, 5>>),acyclic |-> FALSE,l |-> 441,eObj |-> (0 :> 1),nextE |-> 10]),
    ([res |-> "F",cacheV |-> FALSE,nodes |-> {0, 2, 4, 5},cacheR |-> FALSE,nextN |-> 6,edges |-> (0 :> <<2, 2>> @@ 3 :> <<4, 2>> @@ 6 :> <<5, 0>> @@ 7 :> <<4, 0>> @@ 9 :> <<4, 5>>),acyclic |-> FALSE,l |-> 442,eObj |-> (0 :> 1),nextE |-> 10]),
    ([res |-> "F",cacheV |-> FALSE,nodes |-> {0, 2, 4, 5},cacheR |-> FALSE,nextN |-> 6,edges |-> (0 :> <<2, 2>> @@ 3 :> <<4, 2>> @@ 6 :> <<5, 0>> @@ 7 :> <<4, 0>> @@ 9 :> <<4, 5>>),acyclic |-> FALSE,l |-> 443,eObj |-> (0 :> 1),nextE |-> 10]),
    ([res |-> "ok",cacheV |-> FALSE,nodes |-> {0, 2, 4},cacheR |-> FALSE,nextN |-> 6,edges |-> (0 :> <<2, 2>> @@ 3 :> <<4, 2>> @@ 7 :> <<4, 0>>),acyclic |-> FALSE,l |-> 444,eObj |-> (0 :> 1),nextE |-> 10]),
    ([res |-> "F",cacheV |-> FALSE,nodes |-> {0, 2, 4},cacheR |-> FALSE,nextN |-> 6,edges |-> (0 :> <<2, 2>> @@ 3 :> <<4, 2>> @@ 7 :> <<4, 0>>),acyclic |-> FALSE,l |-> 445,eObj |-> (0 :> 1),nextE |-> 10]),
    ([res |-> "RT",cacheV |-> FALSE,nodes |-> {0, 2, 4},cacheR |-> TRUE,nextN |-> 6,edges |-> (0 :> <<2, 2>> @@ 3 :> <<4, 2>> @@ 7 :> <<4, 0>>),acyclic |-> FALSE,l |-> 446,eObj |-> (0 :> 1),nextE |-> 10]),
    ([res |-> "ok",cacheV |-> FALSE,nodes |-> {0, 2, 4},cacheR |-> TRUE,nextN |-> 6,edges |-> (0 :> <<2, 2>> @@ 3 :> <<4, 2>> @@ 7 :> <<4, 0>>),acyclic |-> FALSE,l |-> 447,eObj |-> (0 :> 1),nextE |-> 10]),
    ([res |-> "raise",cacheV |-> FALSE,nodes |-> {0, 2, 4},cacheR |-> TRUE,nextN |-> 6,edges |-> (0 :> <<2, 2>> @@ 3 :> <<4, 2>> @@ 7 :> <<4, 0>>),acyclic |-> FALSE,l |-> 448,eObj |-> (0 :> 1),nextE |-> 10]),
    ([res |-> "ok",cacheV |-> FALSE,nodes |-> {},cacheR |-> FALSE,nextN |-> 0,edges |-> <<>>,acyclic |-> TRUE,l |-> 449,eObj |-> <<>>,nextE |-> 0]),
    ([res |-> "ok",cacheV |-> FALSE,nodes |-> {0},cacheR |-> FALSE,nextN |-> 1,edges |-> <<>>,acyclic |-> TRUE,l |-> 450,eObj |-> <<>>,nextE |-> 0]),
    ([res |-> "ok",cacheV |-> FALSE,nodes |-> {0, 1},cacheR |-> FALSE,nextN |-> 2,edges |-> <<>>,acyclic |-> TRUE,l |-> 451,eObj |-> <<>>,nextE |-> 0]),
    ([res |-> "ok",cacheV |-> FALSE,nodes |-> {0, 1, 2},cacheR |-> FALSE,nextN |-> 3,edges |-> <<>>,acyclic |-> TRUE,l |-> 452,eObj |-> <<>>,nextE |-> 0]),
    ([res |-> "ok",cacheV |-> FALSE,nodes |-> {0, 1, 2, 3},cacheR |-> FALSE,nextN |-> 4,edges |-> <<>>,acyclic |-> TRUE,l |-> 453,eObj |-> <<>>,nextE |-> 0]),
    ([res |-> "ok",cacheV |-> FALSE,nodes |-> {0, 1, 2, 3, 4},cacheR |-> FALSE,nextN |-> 5,edges |-> <<>>,acyclic |-> TRUE,l |-> 454,eObj |-> <<>>,nextE |-> 0]),
    ([res |-> "ok",cacheV |-> FALSE,nodes |-> {0, 1, 2, 3, 4, 5},cacheR |-> FALSE,nextN |-> 6,edges |-> <<>>,acyclic |-> TRUE,l |-> 455,eObj |-> <<>>,nextE |-> 0]),
    ([res |-> "ok",cacheV |-> FALSE,nodes |-> {0, 1, 2, 3, 4, 5},cacheR |-> FALSE,nextN |-> 6,edges |-> (0 :> <<2, 4>>),acyclic |-> TRUE,l |-> 456,eObj |-> <<>>,nextE |-> 1]),
    ([res |-> "ok",cacheV |-> FALSE,nodes |-> {0, 1, 2, 3, 4, 5},cacheR |-> FALSE,nextN |-> 6,edges |-> (0 :> <<2, 4>> @@ 1 :> <<1, 4>>),acyclic |-> TRUE,l |-> 457,eObj |-> <<1>>,nextE |-> 2]),
    ([res |-> "RF",cacheV |-> FALSE,nodes |-> {0, 1, 2, 3, 4, 5},cacheR |-> FALSE,nextN |-> 6,edges |-> (0 :> <<2, 4>> @@ 1 :> <<1, 4>>),acyclic |-> TRUE,l |-> 458,eObj |-> <<1>>,nextE |-> 2]),
    ([res |-> "ok",cacheV |-> FALSE,nodes |-> {0, 1, 2, 3, 4, 5},cacheR |-> FALSE,nextN |-> 6,edges |-> (0 :> <<2, 4>> @@ 1 :> <<1, 4>> @@ 2 :> <<1, 2>>),acyclic |-> TRUE,l |-> 459,eObj |-> <<1>>,nextE |-> 3]),
    ([res |-> "RF",cacheV |-> FALSE,nodes |-> {0, 1, 2, 3, 4, 5},cacheR |-> FALSE,nextN |-> 6,edges |-> (0 :> <<2, 4>> @@ 1 :> <<1, 4>> @@ 2 :> <<1, 2>>),acyclic |-> TRUE,l |-> 460,eObj |-> <<1>>,nextE |-> 3]),
    ([res |-> "ok",cacheV |-> FALSE,nodes |-> {0, 1, 2, 3, 4, 5},cacheR |-> FALSE,nextN |-> 6,edges |-> (0 :> <<2, 4>> @@ 1 :> <<1, 4>> @@ 2 :> <<1, 2>> @@ 3 :> <<3, 5>>),acyclic |-> TRUE,l |-> 461,eObj |-> <<1>>,nextE |-> 4]),
    ([res |-> "raise",cacheV |-> FALSE,nodes |-> {0, 1, 2, 3, 4, 5},cacheR |-> FALSE,nextN |-> 6,edges |-> (0 :> <<2, 4>> @@ 1 :> <<1, 4>> @@ 2 :> <<1, 2>> @@ 3 :> <<3, 5>>),acyclic |-> TRUE,l |-> 462,eObj |-> <<1>>,nextE |-> 4]),
    ([res |-> "T",cacheV |-> TRUE,nodes |-> {0, 1, 2, 3, 4, 5},cacheR |-> FALSE,nextN |-> 6,edges |-> (0 :> <<2, 4>> @@ 1 :> <<1, 4>> @@ 2 :> <<1, 2>> @@ 3 :> <<3, 5>>),acyclic |-> TRUE,l |-> 463,eObj |-> <<1>>,nextE |-> 4]),
    ([res |-> "ok",cacheV |-> FALSE,nodes |-> {0, 1, 2, 3, 4, 5},cacheR |-> FALSE,nextN |-> 6,edges |-> (0 :> <<2, 4>> @@ 1 :> <<1, 4>> @@ 2 :> <<1, 2>> @@ 3 :> <<3, 5>> @@ 4 :> <<1, 3>>),acyclic |-> TRUE,l |-> 464,eObj |-> <<1>>,nextE |-> 5]),
    ([res |-> "ok",cacheV |-> FALSE,nodes |-> {0, 1, 2, 3, 4, 5},cacheR |-> FALSE,nextN |-> 6,edges |-> (0 :> <<2, 4>> @@ 1 :> <<1, 4>> @@ 2 :> <<1, 2>> @@ 3 :> <<3, 5>> @@ 4 :> <<1, 3>> @@ 5 :> <<4, 0>>),acyclic |-> TRUE,l |-> 465,eObj |-> (1 :> 1 @@ 5 :> 2),nextE |-> 6]),
    ([res |-> "T",cacheV |-> TRUE,nodes |-> {0, 1, 2, 3, 4, 5},cacheR |-> FALSE,nextN |-> 6,edges |-> (0 :> <<2, 4>> @@ 1 :> <<1, 4>> @@ 2 :> <<1, 2>> @@ 3 :> <<3, 5>> @@ 4 :> <<1, 3>> @@ 5 :> <<4, 0>>),acyclic |-> TRUE,l |-> 466,eObj |-> (1 :> 1 @@ 5 :> 2),nextE |-> 6]),
    ([res |-> "RT",cacheV |-> TRUE,nodes |-> {0, 1, 2, 3, 4, 5},cacheR |-> TRUE,nextN |-> 6,edges |-> (0 :> <<2, 4>> @@ 1 :> <<1, 4>> @@ 2 :> <<1, 2>> @@ 3 :> <<3, 5>> @@ 4 :> <<1, 3>> @@ 5 :> <<4, 0>>),acyclic |-> TRUE,l |-> 467,eObj |-> (1 :> 1 @@ 5 :> 2),nextE |-> 6]),
    ([res |-> "ok",cacheV |-> TRUE,nodes |-> {0, 1, 2, 3, 4, 5},cacheR |-> TRUE,nextN |-> 6,edges |-> (0 :> <<2, 4>> @@ 1 :> <<1, 4>> @@ 2 :> <<1, 2>> @@ 3 :> <<3, 5>> @@ 4 :> <<1, 3>> @@ 5 :> <<4, 0>>),acyclic |-> TRUE,l |-> 468,eObj |-> (1 :> 1 @@ 5 :> 2),nextE |-> 6]),
    ([res |-> "ok",cacheV |-> TRUE,nodes |-> {0, 1, 2, 3, 4, 5},cacheR |-> TRUE,nextN |-> 6,edges |-> (0 :> <<2, 4>> @@ 1 :> <<1, 4>> @@ 2 :> <<1, 2>> @@ 3 :> <<3, 5>> @@ 4 :> <<1, 3>> @@ 5 :> <<4, 0>>),acyclic |-> TRUE,l |-> 469,eObj |-> (1 :> 1 @@ 5 :> 2),nextE |-> 6]),
    ([res |-> "ok",cacheV |-> TRUE,nodes |-> {0, 1, 2, 3, 4, 5},cacheR |-> TRUE,nextN |-> 6,edges |-> (0 :> <<2, 4>> @@ 1 :> <<1, 4>> @@ 2 :> <<1, 2>> @@ 3 :> <<3, 5>> @@ 4 :> <<1, 3>> @@ 5 :> <<4, 0>>),acyclic |-> TRUE,l |-> 470,eObj |-> (1 :> 1 @@ 5 :> 2),nextE |-> 6]),
    ([res |-> "ok",cacheV |-> TRUE,nodes |-> {0, 1, 2, 3, 4, 5},cacheR |-> TRUE,nextN |-> 6,edges |-> (0 :> <<2, 4>> @@ 1 :> <<1, 4>> @@ 2 :> <<1, 2>> @@ 3 :> <<3, 5>> @@ 4 :> <<1, 3>> @@ 5 :> <<4, 0>>),acyclic |-> TRUE,l |-> 471,eObj |-> (1 :> 1 @@ 5 :> 2),nextE |-> 6]),
    ([res |-> "ok",cacheV |-> TRUE,nodes |-> {0, 1, 2, 3, 4, 5},cacheR |-> TRUE,nextN |-> 6,edges |-> (0 :> <<2, 4>> @@ 1 :> <<1, 4>> @@ 2 :> <<1, 2>> @@ 3 :> <<3, 5>> @@ 4 :> <<1, 3>> @@ 5 :> <<4, 0>>),acyclic |-> TRUE,l |-> 472,eObj |-> (1 :> 1 @@ 5 :> 2),nextE |-> 6]),
    ([res |-> "ok",cacheV |-> TRUE,nodes |-> {0, 1, 2, 3, 4, 5},cacheR |-> TRUE,nextN |-> 6,edges |-> (0 :> <<2, 4>> @@ 1 :> <<1, 4>> @@ 2 :> <<1, 2>> @@ 3 :> <<3, 5>> @@ 4 :> <<1, 3>> @@ 5 :> <<4, 0>>),acyclic |-> TRUE,l |-> 473,eObj |-> (1 :> 1 @@ 5 :> 2),nextE |-> 6]),
    ([res |-> "ok",cacheV |-> TRUE,nodes |-> {0, 1, 2, 3, 4, 5},cacheR |-> TRUE,nextN |-> 6,edges |-> (0 :> <<2, 4>> @@ 1 :> <<1, 4>> @@ 2 :> <<1, 2>> @@ 3 :> <<3, 5>> @@ 4 :> <<1, 3>> @@ 5 :> <<4, 0>>),acyclic |-> TRUE,l |-> 474,eObj |-> (1 :> 1 @@ 5 :> 2),nextE |-> 6]),
    ([res |-> "ok",cacheV |-> TRUE,nodes |-> {0, 1, 2, 3, 4, 5},cacheR |-> TRUE,nextN |-> 6,edges |-> (0 :> <<2, 4>> @@ 1 :> <<1, 4>> @@ 2 :> <<1, 2>> @@ 3 :> <<3, 5>> @@ 4 :> <<1, 3>> @@ 5 :> <<4, 0>>),acyclic |-> TRUE,l |-> 475,eObj |-> (1 :> 1 @@ 5 :> 2),nextE |-> 6]),
    ([res |-> "ok",cacheV |-> FALSE,nodes |-> {},cacheR |-> FALSE,nextN |-> 0,edges |-> <<>>,acyclic |-> TRUE,l |-> 476,eObj |-> <<>>,nextE |-> 0]),
    ([res |-> "F",cacheV |-> TRUE,nodes |-> {},cacheR |-> FALSE,nextN |-> 0,edges |-> <<>>,acyclic |-> TRUE,l |-> 477,eObj |-> <<>>,nextE |-> 0]),
    ([res |-> "F",cacheV |-> TRUE,nodes |-> {},cacheR |-> FALSE,nextN |-> 0,edges |-> <<>>,acyclic |-> TRUE,l |-> 478,eObj |-> <<>>,nextE |-> 0]),
    ([res |-> "RT",cacheV |-> TRUE,nodes |-> {},cacheR |-> FALSE,nextN |-> 0,edges |-> <<>>,acyclic |-> TRUE,l |-> 479,eObj |-> <<>>,nextE |-> 0]),
    ([res |-> "ok",cacheV |-> TRUE,nodes |-> {},cacheR |-> FALSE,nextN |-> 0,edges |-> <<>>,acyclic |-> TRUE,l |-> 480,eObj |-> <<>>,nextE |-> 0]),
    ([res |-> "ok",cacheV |-> TRUE,nodes |-> {},cacheR |-> FALSE,nextN |-> 0,edges |-> <<>>,acyclic |-> TRUE,l |-> 481,eObj |-> <<>>,nextE |-> 0]),
    ([res |-> "ok",cacheV |-> FALSE,nodes |-> {0},cacheR |-> FALSE,nextN |-> 1,edges |-> <<>>,acyclic |-> TRUE,l |-> 482,eObj |-> <<>>,nextE |-> 0]),
    ([res |-> "raise",cacheV |-> FALSE,nodes |-> {0},cacheR |-> FALSE,nextN |-> 1,edges |-> <<>>,acyclic |-> TRUE,l |-> 483,eObj |-> <<>>,nextE |-> 0]),
    ([res |-> "raise",cacheV |-> FALSE,nodes |-> {0},cacheR |-> FALSE,nextN |-> 1,edges |-> <<>>,acyclic |-> TRUE,l |-> 484,eObj |-> <<>>,nextE |-> 0]),
    ([res |-> "ok",cacheV |-> FALSE,nodes |-> {0},cacheR |-> FALSE,nextN |-> 1,edges |-> (0 :> <<0, 0>>),acyclic |-> FALSE,l |-> 485,eObj |-> <<>>,nextE |-> 1]),
    ([res |-> "ok",cacheV |-> FALSE,nodes |-> {0},cacheR |-> FALSE,nextN |-> 1,edges |-> (0 :> <<0, 0>>),acyclic |-> FALSE,l |-> 486,eObj |-> <<>>,nextE |-> 1]),
    ([res |-> "ok",cacheV |-> FALSE,nodes |-> {},cacheR |-> FALSE,nextN |-> 1,edges |-> <<>>,acyclic |-> TRUE,l |-> 487,eObj |-> <<>>,nextE |-> 1]),
    ([res |-> "F",cacheV |-> TRUE,nodes |-> {},cacheR |-> FALSE,nextN |-> 1,edges |-> <<>>,acyclic |-> TRUE,l |-> 488,eObj |-> <<>>,nextE |-> 1]),
    ([res |-> "raise",cacheV |-> TRUE,nodes |-> {},cacheR |-> FALSE,nextN |-> 1,edges |-> <<>>,acyclic |-> TRUE,l |-> 489,eObj |-> <<>>,nextE |-> 1]),
    ([res |-> "raise",cacheV |-> TRUE,nodes |-> {},cacheR |-> FALSE,nextN |-> 1,edges |-> <<>>,acyclic |-> TRUE,l |-> 490,eObj |-> <<>>,nextE |-> 1]),
    ([res |-> "ok",cacheV |-> FALSE,nodes |-> {1},cacheR |-> FALSE,nextN |-> 2,edges |-> <<>>,acyclic |-> TRUE,l |-> 491,eObj |-> <<>>,nextE |-> 1]),
    ([res |-> "raise",cacheV |-> FALSE,nodes |-> {1},cacheR |-> FALSE,nextN |-> 2,edges |-> <<>>,acyclic |-> TRUE,l |-> 492,eObj |-> <<>>,nextE |-> 1]),
    ([res |-> "ok",cacheV |-> FALSE,nodes |-> {1},cacheR |-> FALSE,nextN |-> 2,edges |-> <<<<1, 1>>>>,acyclic |-> FALSE,l |-> 493,eObj |-> <<1>>,nextE |-> 2]),
    ([res |-> "raise",cacheV |-> FALSE,nodes |-> {1},cacheR |-> FALSE,nextN |-> 2,edges |-> <<<<1, 1>>>>,acyclic |-> FALSE,l |-> 494,eObj |-> <<1>>,nextE |-> 2]),
    ([res |-> "ok",cacheV |-> FALSE,nodes |-> {1, 2},cacheR |-> FALSE,nextN |-> 3,edges |-> <<<<1, 1>>>>,acyclic |-> FALSE,l |-> 495,eObj |-> <<1>>,nextE |-> 2]),
    ([res |-> "raise",cacheV |-> FALSE,nodes |-> {1, 2},cacheR |-> FALSE,nextN |-> 3,edges |-> <<<<1, 1>>>>,acyclic |-> FALSE,l |-> 496,eObj |-> <<1>>,nextE |-> 2]),
    ([res |-> "F",cacheV |-> FALSE,nodes |-> {1, 2},cacheR |-> FALSE,nextN |-> 3,edges |-> <<<<1, 1>>>>,acyclic |-> FALSE,l |-> 497,eObj |-> <<1>>,nextE |-> 2]),
    ([res |-> "ok",cacheV |-> FALSE,nodes |-> {1, 2, 3},cacheR |-> FALSE,nextN |-> 4,edges |-> <<<<1, 1>>>>,acyclic |-> FALSE,l |-> 498,eObj |-> <<1>>,nextE |-> 2]),
    ([res |-> "ok",cacheV |-> FALSE,nodes |-> {1, 2, 3, 4},cacheR |-> FALSE,nextN |-> 5,edges |-> <<<<1, 1>>>>,acyclic |-> FALSE,l |-> 499,eObj |-> <<1>>,nextE |-> 2]),
    ([res |-> "ok",cacheV |-> FALSE,nodes |-> {1, 2, 3, 4, 5},cacheR |-> FALSE,nextN |-> 6,edges |-> <<<<1, 1>>>>,acyclic |-> FALSE,l |-> 500,eObj |-> <<1>>,nextE |-> 2]),
    ([res |-> "ok",cacheV |-> FALSE,nodes |-> {1, 2, 3, 4, 5},cacheR |-> FALSE,nextN |-> 6,edges |-> <<<<1, 1>>, <<1, 3>>>>,acyclic |-> FALSE,l |-> 501,eObj |-> <<1, 2>>,nextE |-> 3]),
    ([res |-> "ok",cacheV |-> FALSE,nodes |-> {1, 2, 3, 4, 5},cacheR |-> FALSE,nextN |-> 6,edges |-> <<<<1, 1>>, <<1, 3>>, <<2, 4>>>>,acyclic |-> FALSE,l |-> 502,eObj |-> <<1, 2>>,nextE |-> 4]),
    ([res |-> "raise",cacheV |-> FALSE,nodes |-> {1, 2, 3, 4, 5},cacheR |-> FALSE,nextN |-> 6,edges |-> <<<<1, 1>>, <<1, 3>>, <<2, 4>>>>,acyclic |-> FALSE,l |-> 503,eObj |-> <<1, 2>>,nextE |-> 4]),
    ([res |-> "F",cacheV |-> FALSE,nodes |-> {1, 2, 3, 4, 5},cacheR |-> FALSE,nextN |-> 6,edges |-> <<<<1, 1>>, <<1, 3>>, <<2, 4>>>>,acyclic |-> FALSE,l |-> 504,eObj |-> <<1, 2>>,nextE |-> 4]),
    ([res |-> "F",cacheV |-> FALSE,nodes |-> {1, 2, 3, 4, 5},cacheR |-> FALSE,nextN |-> 6,edges |-> <<<<1, 1>>, <<1, 3>>, <<2, 4>>>>,acyclic |-> FALSE,l |-> 505,eObj |-> <<1, 2>>,nextE |-> 4]),
    ([res |-> "RF",cacheV |-> FALSE,nodes |-> {1, 2, 3, 4, 5},cacheR |-> FALSE,nextN |-> 6,edges |-> <<<<1, 1>>, <<1, 3>>, <<2, 4>>>>,acyclic |-> FALSE,l |-> 506,eObj |-> <<1, 2>>,nextE |-> 4]),
    ([res |-> "RF",cacheV |-> FALSE,nodes |-> {1, 2, 3, 4, 5},cacheR |-> FALSE,nextN |-> 6,edges |-> <<<<1, 1>>, <<1, 3>>, <<2, 4>>>>,acyclic |-> FALSE,l |-> 507,eObj |-> <<1, 2>>,nextE |-> 4]),
    ([res |-> "ok",cacheV |-> FALSE,nodes |-> {1, 2, 3, 4, 5},cacheR |-> FALSE,nextN |-> 6,edges |-> <<<<1, 1>>, <<1, 3>>, <<2, 4>>, <<5, 3>>>>,acyclic |-> FALSE,l |-> 508,eObj |-> (1 :> 1 @@ 2 :> 2 @@ 4 :> 3),nextE |-> 5]),
    ([res |-> "F",cacheV |-> FALSE,nodes |-> {1, 2, 3, 4, 5},cacheR |-> FALSE,nextN |-> 6,edges |-> <<<<1, 1>>, <<1, 3>>, <<2, 4>>, <<5, 3>>>>,acyclic |-> FALSE,l |-> 509,eObj |-> (1 :> 1 @@ 2 :> 2 @@ 4 :> 3),nextE |-> 5]),
    ([res |-> "F",cacheV |-> FALSE,nodes |-> {1, 2, 3, 4, 5},cacheR |-> FALSE,nextN |-> 6,edges |-> <<<<1, 1>>, <<1, 3>>, <<2, 4>>, <<5, 3>>>>,acyclic |-> FALSE,l |-> 510,eObj |-> (1 :> 1 @@ 2 :> 2 @@ 4 :> 3),nextE |-> 5]),
    ([res |-> "raise",cacheV |-> FALSE,nodes |-> {1, 2, 3, 4, 5},cacheR |-> FALSE,nextN |-> 6,edges |-> <<<<1, 1>>, <<1, 3>>, <<2, 4>>, <<5, 3>>>>,acyclic |-> FALSE,l |-> 511,eObj |-> (1 :> 1 @@ 2 :> 2 @@ 4 :> 3),nextE |-> 5]),
    ([res |-> "raise",cacheV |-> FALSE,nodes |-> {1, 2, 3, 4, 5},cacheR |-> FALSE,nextN |-> 6,edges |-> <<<<1, 1>>, <<1, 3>>, <<2, 4>>, <<5, 3>>>>,acyclic |-> FALSE,l |-> 512,eObj |-> (1 :> 1 @@ 2 :> 2 @@ 4 :> 3),nextE |-> 5]),
    ([res |-> "RF",cacheV |-> FALSE,nodes |-> {1, 2, 3, 4, 5},cacheR |-> FALSE,nextN |-> 6,edges |-> <<<<1, 1>>, <<1, 3>>, <<2, 4>>, <<5, 3>>>>,acyclic |-> FALSE,l |-> 513,eObj |-> (1 :> 1 @@ 2 :> 2 @@ 4 :> 3),nextE |-> 5]),
    ([res |-> "ok",cacheV |-> FALSE,nodes |-> {1, 2, 3, 4, 5},cacheR |-> FALSE,nextN |-> 6,edges |-> <<<<1, 1>>, <<1, 3>>, <<2, 4>>, <<5, 3>>, <<4, 1>>>>,acyclic |-> FALSE,l |-> 514,eObj |-> (1 :> 1 @@ 2 :> 2 @@ 4 :> 3 @@ 5 :> 4),nextE |-> 6]),
    ([res |-> "RF",cacheV |-> FALSE,nodes |-> {1, 2, 3, 4, 5},cacheR |-> FALSE,nextN |-> 6,edges |-> <<<<1, 1>>, <<1, 3>>, <<2, 4>>, <<5, 3>>, <<4, 1>>>>,acyclic |-> FALSE,l |-> 515,eObj |-> (1 :> 1 @@ 2 :> 2 @@ 4 :> 3 @@ 5 :> 4),nextE |-> 6]),
    ([res |-> "ok",cacheV |-> FALSE,nodes |-> {1, 2, 3, 4, 5},cacheR |-> FALSE,nextN |-> 6,edges |-> <<<<1, 1>>, <<1, 3>>, <<2, 4>>, <<5, 3>>, <<4, 1>>>>,acyclic |-> FALSE,l |-> 516,eObj |-> (1 :> 1 @@ 2 :> 2 @@ 4 :> 3 @@ 5 :> 4),nextE |-> 6]),
    ([res |-> "F",cacheV |-> FALSE,nodes |-> {1, 2, 3, 4, 5},cacheR |-> FALSE,nextN |-> 6,edges |-> <<<<1, 1>>, <<1, 3>>, <<2, 4>>, <<5, 3>>, <<4, 1>>>>,acyclic |-> FALSE,l |-> 517,eObj |-> (1 :> 1 @@ 2 :> 2 @@ 4 :> 3 @@ 5 :> 4),nextE |-> 6]),
    ([res |-> "F",cacheV |-> FALSE,nodes |-> {1, 2, 3, 4, 5},cacheR |-> FALSE,nextN |-> 6,edges |-> <<<<1, 1>>, <<1, 3>>, <<2, 4>>, <<5, 3>>, <<4, 1>>>>,acyclic |-> FALSE,l |-> 518,eObj |-> (1 :> 1 @@ 2 :> 2 @@ 4 :> 3 @@ 5 :> 4),nextE |-> 6]),
    ([res |-> "RF",cacheV |-> FALSE,nodes |-> {1, 2, 3, 4, 5},cacheR |-> FALSE,nextN |-> 6,edges |-> <<<<1, 1>>, <<1, 3>>, <<2, 4>>, <<5, 3>>, <<4, 1>>>>,acyclic |-> FALSE,l |-> 519,eObj |-> (1 :> 1 @@ 2 :> 2 @@ 4 :> 3 @@ 5 :> 4),nextE |-> 6]),
    ([res |-> "ok",cacheV |-> FALSE,nodes |-> {1, 2, 3, 4, 5},cacheR |-> FALSE,nextN |-> 6,edges |-> <<<<1, 1>>, <<1, 3>>, <<2, 4>>, <<5, 3>>, <<4, 1>>>>,acyclic |-> FALSE,l |-> 520,eObj |-> (1 :> 1 @@ 2 :> 2 @@ 4 :> 3 @@ 5 :> 4),nextE |-> 6]),
    ([res |-> "raise",cacheV |-> FALSE,nodes |-> {1, 2, 3, 4, 5},cacheR |-> FALSE,nextN |-> 6,edges |-> <<<<1, 1>>, <<1, 3>>, <<2, 4>>, <<5, 3>>, <<4, 1>>>>,acyclic |-> FALSE,l |-> 521,eObj |-> (1 :> 1 @@ 2 :> 2 @@ 4 :> 3 @@ 5 :> 4),nextE |-> 6]),
    ([res |-> "ok",cacheV |-> FALSE,nodes |-> {},cacheR |-> FALSE,nextN |-> 0,edges |-> <<>>,acyclic |-> TRUE,l |-> 522,eObj |-> <<>>,nextE |-> 0]),
    ([res |-> "ok",cacheV |-> FALSE,nodes |-> {0},cacheR |-> FALSE,nextN |-> 1,edges |-> <<>>,acyclic |-> TRUE,l |-> 523,eObj |-> <<>>,nextE |-> 0]),
    ([res |-> "ok",cacheV |-> FALSE,nodes |-> {0, 1},cacheR |-> FALSE,nextN |-> 2,edges |-> <<>>,acyclic |-> TRUE,l |-> 524,eObj |-> <<>>,nextE |-> 0]),
    ([res |-> "ok",cacheV |-> FALSE,nodes |-> {0, 1, 2},cacheR |-> FALSE,nextN |-> 3,edges |-> <<>>,acyclic |-> TRUE,l |-> 525,eObj |-> <<>>,nextE |-> 0]),
    ([res |-> "ok",cacheV |-> FALSE,nodes |-> {0, 1, 2, 3},cacheR |-> FALSE,nextN |-> 4,edges |-> <<>>,acyclic |-> TRUE,l |-> 526,eObj |-> <<>>,nextE |-> 0]),
    ([res |-> "ok",cacheV |-> FALSE,nodes |-> {0, 1, 2, 3, 4},cacheR |-> FALSE,nextN |-> 5,edges |-> <<>>,acyclic |-> TRUE,l |-> 527,eObj |-> <<>>,nextE |-> 0]),
    ([res |-> "ok",cacheV |-> FALSE,nodes |-> {0, 1, 2, 3, 4, 5},cacheR |-> FALSE,nextN |-> 6,edges |-> <<>>,acyclic |-> TRUE,l |-> 528,eObj |-> <<>>,nextE |-> 0]),
    ([res |-> "ok",cacheV |-> FALSE,nodes |-> {0, 1, 2, 3, 4, 5},cacheR |-> FALSE,nextN |-> 6,edges |-> (0 :> <<5, 1>>),acyclic |-> TRUE,l |-> 529,eObj |-> <<>>,nextE |-> 1]),
    ([res |-> "ok",cacheV |-> FALSE,nodes |-> {0, 1, 2, 3, 4, 5},cacheR |-> FALSE,nextN |-> 6,edges |-> (0 :> <<5, 1>> @@ 1 :> <<4, 0>>),acyclic |-> TRUE,l |-> 530,eObj |-> <<1>>,nextE |-> 2]),
    ([res |-> "ok",cacheV |-> FALSE,nodes |-> {0, 1, 2, 3, 4, 5},cacheR |-> FALSE,nextN |-> 6,edges |-> (0 :> <<5, 1>> @@ 1 :> <<4, 0>> @@ 2 :> <<2, 1>>),acyclic |-> TRUE,l |-> 531,eObj |-> <<1, 2>>,nextE |-> 3]),
    ([res |-> "RF",cacheV |-> FALSE,nodes |-> {0, 1, 2, 3, 4, 5},cacheR |-> FALSE,nextN |-> 6,edges |-> (0 :> <<5, 1>> @@ 1 :> <<4, 0>> @@ 2 :> <<2, 1>>),acyclic |-> TRUE,l |-> 532,eObj |-> <<1, 2>>,nextE |-> 3]),
    ([res |-> "ok",cacheV |-> FALSE,nodes |-> {0, 1, 2, 3, 4, 5},cacheR |-> FALSE,nextN |-> 6,edges |-> (0 :> <<5, 1>> @@ 1 :> <<4, 0>> @@ 2 :> <<2, 1>> @@ 3 :> <<4, 5>>),acyclic |-> TRUE,l |-> 533,eObj |-> <<1, 2, 3>>,nextE |-> 4]),
    ([res |-> "raise",cacheV |-> FALSE,nodes |-> {0, 1, 2, 3, 4, 5},cacheR |-> FALSE,nextN |-> 6,edges |-> (0 :> <<5, 1>> @@ 1 :> <<4, 0>> @@ 2 :> <<2, 1>> @@ 3 :> <<4, 5>>),acyclic |-> TRUE,l |-> 534,eObj |-> <<1, 2, 3>>,nextE |-> 4]),
    ([res |-> "ok",cacheV |-> FALSE,nodes |-> {0, 1, 2, 3, 4, 5},cacheR |-> FALSE,nextN |-> 6,edges |-> (0 :> <<5, 1>> @@ 1 :> <<4, 0>> @@ 2 :> <<2, 1>> @@ 3 :> <<4, 5>> @@ 4 :> <<1, 3>>),acyclic |-> TRUE,l |-> 535,eObj |-> <<1, 2, 3>>,nextE |-> 5]),
    ([res |-> "T",cacheV |-> TRUE,nodes |-> {0, 1, 2, 3, 4, 5},cacheR |-> FALSE,nextN |-> 6,edges |-> (0 :> <<5, 1>> @@ 1 :> <<4, 0>> @@ 2 :> <<2, 1>> @@ 3 :> <<4, 5>> @@ 4 :> <<1, 3>>),acyclic |-> TRUE,l |-> 536,eObj |-> <<1, 2, 3>>,nextE |-> 5]),
    ([res |-> "ok",cacheV |-> FALSE,nodes |-> {0, 1, 2, 3, 4, 5},cacheR |-> FALSE,nextN |-> 6,edges |-> (0 :> <<5, 1>> @@ 1 :> <<4, 0>> @@ 2 :> <<2, 1>> @@ 3 :> <<4, 5>> @@ 4 :> <<1, 3>> @@ 5 :> <<0, 2>>),acyclic |-> TRUE,l |-> 537,eObj |-> <<1, 2, 3>>,nextE |-> 6]),
    ([res |-> "ok",cacheV |-> FALSE,nodes |-> {0, 1, 2, 3, 4, 5},cacheR |-> FALSE,nextN |-> 6,edges |-> (0 :> <<5, 1>> @@ 1 :> <<4, 0>> @@ 2 :> <<2, 1>> @@ 3 :> <<4, 5>> @@ 4 :> <<1, 3>> @@ 5 :> <<0, 2>> @@ 6 :> <<0, 3>>),acyclic |-> TRUE,l |-> 538,eObj |-> <<1, 2, 3>>,nextE |-> 7]),
    ([res |-> "T",cacheV |-> TRUE,nodes |-> {0, 1, 2, 3, 4, 5},cacheR |-> FALSE,nextN |-> 6,edges |-> (0 :> <<5, 1>> @@ 1 :> <<4, 0>> @@ 2 :> <<2, 1>> @@ 3 :> <<4, 5>> @@ 4 :> <<1, 3>> @@ 5 :> <<0, 2>> @@ 6 :> <<0, 3>>),acyclic |-> TRUE,l |-> 539,eObj |-> <<1, 2, 3>>,nextE |-> 7]),
    ([res |-> "RT",cacheV |-> TRUE,nodes |-> {0, 1, 2, 3, 4, 5},cacheR |-> TRUE,nextN |-> 6,edges |-> (0 :> <<5, 1>> @@ 1 :> <<4, 0>> @@ 2 :> <<2, 1>> @@ 3 :> <<4, 5>> @@ 4 :> <<1, 3>> @@ 5 :> <<0, 2>> @@ 6 :> <<0, 3>>),acyclic |-> TRUE,l |-> 540,eObj |-> <<1, 2, 3>>,nextE |-> 7]),
    ([res |-> "ok",cacheV |-> FALSE,nodes |-> {0, 1, 2, 3, 4, 5},cacheR |-> FALSE,nextN |-> 6,edges |-> (0 :> <<5, 1>> @@ 1 :> <<4, 0>> @@ 2 :> <<2, 1>> @@ 3 :> <<4, 5>> @@ 4 :> <<1, 3>> @@ 5 :> <<0, 2>> @@ 6 :> <<0, 3>> @@ 7 :> <<3, 1>>),acyclic |-> FALSE,l |-> 541,eObj |-> <<1, 2, 3>>,nextE |-> 8]),
    ([res |-> "F",cacheV |-> FALSE,nodes |-> {0, 1, 2, 3, 4, 5},cacheR |-> FALSE,nextN |-> 6,edges |-> (0 :> <<5, 1>> @@ 1 :> <<4, 0>> @@ 2 :> <<2, 1>> @@ 3 :> <<4, 5>> @@ 4 :> <<1, 3>> @@ 5 :> <<0, 2>> @@ 6 :> <<0, 3>> @@ 7 :> <<3, 1>>),acyclic |-> FALSE,l |-> 542,eObj |-> <<1, 2, 3>>,nextE |-> 8]),
    ([res |-> "ok",cacheV |-> FALSE,nodes |-> {0, 1, 2, 3, 4, 5},cacheR |-> FALSE,nextN |-> 6,edges |-> (0 :> <<5, 1>> @@ 1 :> <<4, 0>> @@ 2 :> <<2, 1>> @@ 3 :> <<4, 5>> @@ 4 :> <<1, 3>> @@ 5 :> <<0, 2>> @@ 6 :> <<0, 3>> @@ 7 :> <<3, 1>> @@ 8 :> <<2, 3>>),acyclic |-> FALSE,l |-> 543,eObj |-> <<1, 2, 3>>,nextE |-> 9]),
    ([res |-> "F",cacheV |-> FALSE,nodes |-> {0, 1, 2, 3, 4, 5},cacheR |-> FALSE,nextN |-> 6,edges |-> (0 :> <<5, 1>> @@ 1 :> <<4, 0>> @@ 2 :> <<2, 1>> @@ 3 :> <<4, 5>> @@ 4 :> <<1, 3>> @@ 5 :> <<0, 2>> @@ 6 :> <<0, 3>> @@ 7 :> <<3, 1>> @@ 8 :> <<2, 3>>),acyclic |-> FALSE,l |-> 544,eObj |-> <<1, 2, 3>>,nextE |-> 9]),
    ([res |-> "ok",cacheV |-> FALSE,nodes |-> {0, 1, 2, 3, 4, 5},cacheR |-> FALSE,nextN |-> 6,edges |-> (0 :> <<5, 1>> @@ 1 :> <<4, 0>> @@ 2 :> <<2, 1>> @@ 3 :> <<4, 5>> @@ 4 :> <<1, 3>> @@ 5 :> <<0, 2>> @@ 6 :> <<0, 3>> @@ 7 :> <<3, 1>> @@ 8 :> <<2, 3>> @@ 9 :> <<5, 0>>),acyclic |-> FALSE,l |-> 545,eObj |-> <<1, 2, 3>>,nextE |-> 10]),
    ([res |-> "F",cacheV |-> FALSE,nodes |-> {0, 1, 2, 3, 4, 5},cacheR |-> FALSE,nextN |-> 6,edges |-> (0 :> <<5, 1>> @@ 1 :> <<4, 0>> @@ 2 :> <<2, 1>> @@ 3 :> <<4, 5>> @@ 4 :> <<1, 3>> @@ 5 :> <<0, 2>> @@ 6 :> <<0, 3>> @@ 7 :> <<3, 1>> @@ 8 :> <<2, 3>> @@ 9 :> <<5, 0>>),acyclic |-> FALSE,l |-> 546,eObj |-> <<1, 2, 3>>,nextE |-> 10]),
    ([res |-> "F",cacheV |-> FALSE,nodes |-> {0, 1, 2, 3, 4, 5},cacheR |-> FALSE,nextN |-> 6,edges |-> (0 :> <<5, 1>> @@ 1 :> <<4, 0>> @@ 2 :> <<2, 1>> @@ 3 :> <<4, 5>> @@ 4 :> <<1, 3>> @@ 5 :> <<0, 2>> @@ 6 :> <<0, 3>> @@ 7 :> <<3, 1>> @@ 8 :> <<2, 3>> @@ 9 :> <<5, 0>>),acyclic |-> FALSE,l |-> 547,eObj |-> <<1, 2, 3>>,nextE |-> 10]),
    ([res |-> "RT",cacheV |-> FALSE,nodes |-> {0, 1, 2, 3, 4, 5},cacheR |-> TRUE,nextN |-> 6,edges |-> (0 :> <<5, 1>> @@ 1 :> <<4, 0>> @@ 2 :> <<2, 1>> @@ 3 :> <<4, 5>> @@ 4 :> <<1, 3>> @@ 5 :> <<0, 2>> @@ 6 :> <<0, 3>> @@ 7 :> <<3, 1>> @@ 8 :> <<2, 3>> @@ 9 :> <<5, 0>>),acyclic |-> FALSE,l |-> 548,eObj |-> <<1, 2, 3>>,nextE |-> 10]),
    ([res |-> "ok",cacheV |-> FALSE,nodes |-> {0, 1, 2, 3, 4, 5},cacheR |-> TRUE,nextN |-> 6,edges |-> (0 :> <<5, 1>> @@ 1 :> <<4, 0>> @@ 2 :> <<2, 1>> @@ 3 :> <<4, 5>> @@ 4 :> <<1, 3>> @@ 5 :> <<0, 2>> @@ 6 :> <<0, 3>> @@ 7 :> <<3, 1>> @@ 8 :> <<2, 3>> @@ 9 :> <<5, 0>>),acyclic |-> FALSE,l |-> 549,eObj |-> <<1, 2, 3>>,nextE |-> 10]),
    ([res |-> "raise",cacheV |-> FALSE,nodes |-> {0, 1, 2, 3, 4, 5},cacheR |-> TRUE,nextN |-> 6,edges |-> (0 :> <<5, 1>> @@ 1 :> <<4, 0>> @@ 2 :> <<2, 1>> @@ 3 :> <<4, 5>> @@ 4 :> <<1, 3>> @@ 5 :> <<0, 2>> @@ 6 :> <<0, 3>> @@ 7 :> <<3, 1>> @@ 8 :> <<2, 3>> @@ 9 :> <<5, 0>>),acyclic |-> FALSE,l |-> 550,eObj |-> <<1, 2, 3>>,nextE |-> 10]),
    ([res |-> "ok",cacheV |-> FALSE,nodes |-> {},cacheR |-> FALSE,nextN |-> 0,edges |-> <<>>,acyclic |-> TRUE,l |-> 551,eObj |-> <<>>,nextE |-> 0]),
    ([res |-> "F",cacheV |-> TRUE,nodes |-> {},cacheR |-> FALSE,nextN |-> 0,edges |-> <<>>,acyclic |-> TRUE,l |-> 552,eObj |-> <<>>,nextE |-> 0]),
    ([res |-> "raise",cacheV |-> TRUE,nodes |-> {},cacheR |-> FALSE,nextN |-> 0,edges |-> <<>>,acyclic |-> TRUE,l |-> 553,eObj |-> <<>>,nextE |-> 0]),
    ([res |-> "raise",cacheV |-> TRUE,nodes |-> {},cacheR |-> FALSE,nextN |-> 0,edges |-> <<>>,acyclic |-> TRUE,l |-> 554,eObj |-> <<>>,nextE |-> 0]),
    ([res |-> "raise",cacheV |-> TRUE,nodes |-> {},cacheR |-> FALSE,nextN |-> 0,edges |-> <<>>,acyclic |-> TRUE,l |-> 555,eObj |-> <<>>,nextE |-> 0]),
    ([res |-> "F",cacheV |-> TRUE,nodes |-> {},cacheR |-> FALSE,nextN |-> 0,edges |-> <<>>,acyclic |-> TRUE,l |-> 556,eObj |-> <<>>,nextE |-> 0]),
    ([res |-> "ok",cacheV |-> FALSE,nodes |-> {0},cacheR |-> FALSE,nextN |-> 1,edges |-> <<>>,acyclic |-> TRUE,l |-> 557,eObj |-> <<>>,nextE |-> 0]),
    ([res |-> "ok",cacheV |-> FALSE,nodes |-> {0},cacheR |-> FALSE,nextN |-> 1,edges |-> <<>>,acyclic |-> TRUE,l |-> 558,eObj |-> <<>>,nextE |-> 0]),
    ([res |-> "ok",cacheV |-> FALSE,nodes |-> {0},cacheR |-> FALSE,nextN |-> 1,edges |-> <<>>,acyclic |-> TRUE,l |-> 559,eObj |-> <<>>,nextE |-> 0]),
    ([res |-> "T",cacheV |-> TRUE,nodes |-> {0},cacheR |-> FALSE,nextN |-> 1,edges |-> <<>>,acyclic |-> TRUE,l |-> 560,eObj |-> <<>>,nextE |-> 0]),
    ([res |-> "ok",cacheV |-> TRUE,nodes |-> {0},cacheR |-> FALSE,nextN |-> 1,edges |-> <<>>,acyclic |-> TRUE,l |-> 561,eObj |-> <<>>,nextE |-> 0]),
    ([res |-> "ok",cacheV |-> TRUE,nodes |-> {0},cacheR |-> FALSE,nextN |-> 1,edges |-> <<>>,acyclic |-> TRUE,l |-> 562,eObj |-> <<>>,nextE |-> 0]),
    ([res |-> "ok",cacheV |-> FALSE,nodes |-> {0},cacheR |-> FALSE,nextN |-> 1,edges |-> (0 :> <<0, 0>>),acyclic |-> FALSE,l |-> 563,eObj |-> (0 :> 2),nextE |-> 1]),
    ([res |-> "ok",cacheV |-> FALSE,nodes |-> {0},cacheR |-> FALSE,nextN |-> 1,edges |-> <<>>,acyclic |-> TRUE,l |-> 564,eObj |-> <<>>,nextE |-> 1]),
    ([res |-> "RT",cacheV |-> FALSE,nodes |-> {0},cacheR |-> TRUE,nextN |-> 1,edges |-> <<>>,acyclic |-> TRUE,l |-> 565,eObj |-> <<>>,nextE |-> 1]),
    ([res |-> "T",cacheV |-> TRUE,nodes |-> {0},cacheR |-> TRUE,nextN |-> 1,edges |-> <<>>,acyclic |-> TRUE,l |-> 566,eObj |-> <<>>,nextE |-> 1]),
    ([res |-> "ok",cacheV |-> TRUE,nodes |-> {0},cacheR |-> TRUE,nextN |-> 1,edges |-> <<>>,acyclic |-> TRUE,l |-> 567,eObj |-> <<>>,nextE |-> 1]),
    ([res |-> "ok",cacheV |-> TRUE,nodes |-> {0},cacheR |-> TRUE,nextN |-> 1,edges |-> <<>>,acyclic |-> TRUE,l |-> 568,eObj |-> <<>>,nextE |-> 1]),
    ([res |-> "ok",cacheV |-> FALSE,nodes |-> {0, 1},cacheR |-> FALSE,nextN |-> 2,edges |-> <<>>,acyclic |-> TRUE,l |-> 569,eObj |-> <<>>,nextE |-> 1]),
    ([res |-> "ok",cacheV |-> FALSE,nodes |-> {0, 1},cacheR |-> FALSE,nextN |-> 2,edges |-> <<<<0, 0>>>>,acyclic |-> FALSE,l |-> 570,eObj |-> <<1>>,nextE |-> 2]),
    ([res |-> "raise",cacheV |-> FALSE,nodes |-> {0, 1},cacheR |-> FALSE,nextN |-> 2,edges |-> <<<<0, 0>>>>,acyclic |-> FALSE,l |-> 571,eObj |-> <<1>>,nextE |-> 2]),
    ([res |-> "raise",cacheV |-> FALSE,nodes |-> {0, 1},cacheR |-> FALSE,nextN |-> 2,edges |-> <<<<0, 0>>>>,acyclic |-> FALSE,l |-> 572,eObj |-> <<1>>,nextE |-> 2]),
    ([res |-> "raise",cacheV |-> FALSE,nodes |-> {0, 1},cacheR |-> FALSE,nextN |-> 2,edges |-> <<<<0, 0>>>>,acyclic |-> FALSE,l |-> 573,eObj |-> <<1>>,nextE |-> 2]),
    ([res |-> "ok",cacheV |-> FALSE,nodes |-> {0, 1, 2},cacheR |-> FALSE,nextN |-> 3,edges |-> <<<<0, 0>>>>,acyclic |-> FALSE,l |-> 574,eObj |-> <<1>>,nextE |-> 2]),
    ([res |-> "RF",cacheV |-> FALSE,nodes |-> {0, 1, 2},cacheR |-> FALSE,nextN |-> 3,edges |-> <<<<0, 0>>>>,acyclic |-> FALSE,l |-> 575,eObj |-> <<1>>,nextE |-> 2]),
    ([res |-> "ok",cacheV |-> FALSE,nodes |-> {0, 1, 2},cacheR |-> FALSE,nextN |-> 3,edges |-> <<<<0, 0>>>>,acyclic |-> FALSE,l |-> 576,eObj |-> <<1>>,nextE |-> 2]),
    ([res |-> "ok",cacheV |-> FALSE,nodes |-> {0, 1, 2, 3},cacheR |-> FALSE,nextN |-> 4,edges |-> <<<<0, 0>>>>,acyclic |-> FALSE,l |-> 577,eObj |-> <<1>>,nextE |-> 2]),
    ([res |-> "ok",cacheV |-> FALSE,nodes |-> {0, 1, 2, 3},cacheR |-> FALSE,nextN |-> 4,edges |-> <<<<0, 0>>>>,acyclic |-> FALSE,l |-> 578,eObj |-> <<1>>,nextE |-> 2]),
    ([res |-> "F",cacheV |-> FALSE,nodes |-> {0, 1, 2, 3},cacheR |-> FALSE,nextN |-> 4,edges |-> <<<<0, 0>>>>,acyclic |-> FALSE,l |-> 579,eObj |-> <<1>>,nextE |-> 2]),
    ([res |-> "ok",cacheV |-> FALSE,nodes |-> {0, 1, 2, 3},cacheR |-> FALSE,nextN |-> 4,edges |-> <<<<0, 0>>, <<1, 3>>>>,acyclic |-> FALSE,l |-> 580,eObj |-> <<1>>,nextE |-> 3]),
    ([res |-> "ok",cacheV |-> FALSE,nodes |-> {0, 1, 2, 3},cacheR |-> FALSE,nextN |-> 4,edges |-> <<<<0, 0>>, <<1, 3>>>>,acyclic |-> FALSE,l |-> 581,eObj |-> <<1>>,nextE |-> 3]),
    ([res |-> "ok",cacheV |-> FALSE,nodes |-> {0, 1, 2, 3},cacheR |-> FALSE,nextN |-> 4,edges |-> <<<<0, 0>>, <<1, 3>>, <<1, 0>>>>,acyclic |-> FALSE,l |-> 582,eObj |-> (1 :> 1 @@ 3 :> 2),nextE |-> 4]),
    ([res |-> "ok",cacheV |-> FALSE,nodes |-> {0, 1, 2, 3},cacheR |-> FALSE,nextN |-> 4,edges |-> <<<<0, 0>>, <<1, 3>>, <<1, 0>>>>,acyclic |-> FALSE,l |-> 583,eObj |-> (1 :> 1 @@ 3 :> 2),nextE |-> 4]),
    ([res |-> "ok",cacheV |-> FALSE,nodes |-> {0, 1, 2, 3, 4},cacheR |-> FALSE,nextN |-> 5,edges |-> <<<<0, 0>>, <<1, 3>>, <<1, 0>>>>,acyclic |-> FALSE,l |-> 584,eObj |-> (1 :> 1 @@ 3 :> 2),nextE |-> 4]),
    ([res |-> "ok",cacheV |-> FALSE,nodes |-> {0, 1, 2, 3, 4, 5},cacheR |-> FALSE,nextN |-> 6,edges |-> <<<<0, 0>>, <<1, 3>>, <<1, 0>>>>,acyclic |-> FALSE,l |-> 585,eObj |-> (1 :> 1 @@ 3 :> 2),nextE |-> 4]),
    ([res |-> "ok",cacheV |-> FALSE,nodes |-> {0, 1, 2, 3, 4, 5},cacheR |-> FALSE,nextN |-> 6,edges |-> <<<<0, 0>>, <<1, 3>>, <<1, 0>>, <<0, 4>>>>,acyclic |-> FALSE,l |-> 586,eObj |-> (1 :> 1 @@ 3 :> 2),nextE |-> 5]),
    ([res |-> "F",cacheV |-> FALSE,nodes |-> {0, 1, 2, 3, 4, 5},cacheR |-> FALSE,nextN |-> 6,edges |-> <<<<0, 0>>, <<1, 3>>, <<1, 0>>, <<0, 4>>>>,acyclic |-> FALSE,l |-> 587,eObj |-> (1 :> 1 @@ 3 :> 2),nextE |-> 5]),
    ([res |-> "ok",cacheV |-> FALSE,nodes |-> {0, 1, 2, 3, 4, 5},cacheR |-> FALSE,nextN |-> 6,edges |-> <<<<0, 0>>, <<1, 3>>, <<1, 0>>, <<0, 4>>, <<1, 4>>>>,acyclic |-> FALSE,l |-> 588,eObj |-> (1 :> 1 @@ 3 :> 2),nextE |-> 6]),
    ([res |-> "F",cacheV |-> FALSE,nodes |-> {0, 1, 2, 3, 4, 5},cacheR |-> FALSE,nextN |-> 6,edges |-> <<<<0, 0>>, <<1, 3>>, <<1, 0>>, <<0, 4>>, <<1, 4>>>>,acyclic |-> FALSE,l |-> 589,eObj |-> (1 :> 1 @@ 3 :> 2),nextE |-> 6]),
    ([res |-> "ok",cacheV |-> FALSE,nodes |-> {0, 1, 2, 3, 4, 5},cacheR |-> FALSE,nextN |-> 6,edges |-> <<<<0, 0>>, <<1, 3>>, <<1, 0>>, <<0, 4>>, <<1, 4>>, <<0, 5>>>>,acyclic |-> FALSE,l |-> 590,eObj |-> (1 :> 1 @@ 3 :> 2 @@ 6 :> 3),nextE |-> 7]),
    ([res |-> "F",cacheV |-> FALSE,nodes |-> {0, 1, 2, 3, 4, 5},cacheR |-> FALSE,nextN |-> 6,edges |-> <<<<0, 0>>, <<1, 3>>, <<1, 0>>, <<0, 4>>, <<1, 4>>, <<0, 5>>>>,acyclic |-> FALSE,l |-> 591,eObj |-> (1 :> 1 @@ 3 :> 2 @@ 6 :> 3),nextE |-> 7]),
    ([res |-> "ok",cacheV |-> FALSE,nodes |-> {0, 1, 2, 3, 4, 5},cacheR |-> FALSE,nextN |-> 6,edges |-> <<<<0, 0>>, <<1, 3>>, <<1, 0>>, <<0, 4>>, <<1, 4>>, <<0, 5>>, <<2, 1>>>>,acyclic |-> FALSE,l |-> 592,eObj |-> (1 :> 1 @@ 3 :> 2 @@ 6 :> 3),nextE |-> 8]),
    ([res |-> "F",cacheV |-> FALSE,nodes |-> {0, 1, 2, 3, 4, 5},cacheR |-> FALSE,nextN |-> 6,edges |-> <<<<0, 0>>, <<1, 3>>, <<1, 0>>, <<0, 4>>, <<1, 4>>, <<0, 5>>, <<2, 1>>>>,acyclic |-> FALSE,l |-> 593,eObj |-> (1 :> 1 @@ 3 :> 2 @@ 6 :> 3),nextE |-> 8]),
    ([res |-> "F",cacheV |-> FALSE,nodes |-> {0, 1, 2, 3, 4, 5},cacheR |-> FALSE,nextN |-> 6,edges |-> <<<<0, 0>>, <<1, 3>>, <<1, 0>>, <<0, 4>>, <<1, 4>>, <<0, 5>>, <<2, 1>>>>,acyclic |-> FALSE,l |-> 594,eObj |-> (1 :> 1 @@ 3 :> 2 @@ 6 :> 3),nextE |-> 8]),
    ([res |-> "RT",cacheV |-> FALSE,nodes |-> {0, 1, 2, 3, 4, 5},cacheR |-> TRUE,nextN |-> 6,edges |-> <<<<0, 0>>, <<1, 3>>, <<1, 0>>, <<0, 4>>, <<1, 4>>, <<0, 5>>, <<2, 1>>>>,acyclic |-> FALSE,l |-> 595,eObj |-> (1 :> 1 @@ 3 :> 2 @@ 6 :> 3),nextE |-> 8]),
    ([res |-> "ok",cacheV |-> FALSE,nodes |-> {0, 1, 2, 3, 4, 5},cacheR |-> TRUE,nextN |-> 6,edges |-> <<<<0, 0>>, <<1, 3>>, <<1, 0>>, <<0, 4>>, <<1, 4>>, <<0, 5>>, <<2, 1>>>>,acyclic |-> FALSE,l |-> 596,eObj |-> (1 :> 1 @@ 3 :> 2 @@ 6 :> 3),nextE |-> 8]),
    ([res |-> "raise",cacheV |-> FALSE,nodes |-> {0, 1, 2, 3, 4, 5},cacheR |-> TRUE,nextN |-> 6,edges |-> <<<<0, 0>>, <<1, 3>>, <<1, 0>>, <<0, 4>>, <<1, 4>>, <<0, 5>>, <<2, 1>>>>,acyclic |-> FALSE,l |-> 597,eObj |-> (1 :> 1 @@ 3 :> 2 @@ 6 :> 3),nextE |-> 8]),
    ([res |-> "ok",cacheV |-> FALSE,nodes |-> {},cacheR |-> FALSE,nextN |-> 0,edges |-> <<>>,acyclic |-> TRUE,l |-> 598,eObj |-> <<>>,nextE |-> 0]),
    ([res |-> "ok",cacheV |-> FALSE,nodes |-> {0},cacheR |-> FALSE,nextN |-> 1,edges |-> <<>>,acyclic |-> TRUE,l |-> 599,eObj |-> <<>>,nextE |-> 0]),
    ([res |-> "ok",cacheV |-> FALSE,nodes |-> {0, 1},cacheR |-> FALSE,nextN |-> 2,edges |-> <<>>,acyclic |-> TRUE,l |-> 600,eObj |-> <<>>,nextE |-> 0]),
    ([res |-> "ok",cacheV |-> FALSE,nodes |-> {0, 1, 2},cacheR |-> FALSE,nextN |-> 3,edges |-> <<>>,acyclic |-> TRUE,l |-> 601,eObj |-> <<>>,nextE |-> 0]),
    ([res |-> "ok",cacheV |-> FALSE,nodes |-> {0, 1, 2, 3},cacheR |-> FALSE,nextN |-> 4,edges |-> <<>>,acyclic |-> TRUE,l |-> 602,eObj |-> <<>>,nextE |-> 0]),
    ([res |-> "ok",cacheV |-> FALSE,nodes |-> {0, 1, 2, 3, 4},cacheR |-> FALSE,nextN |-> 5,edges |-> <<>>,acyclic |-> TRUE,l |-> 603,eObj |-> <<>>,nextE |-> 0]),
    ([res |-> "ok",cacheV |-> FALSE,nodes |-> {0, 1, 2, 3, 4},cacheR |-> FALSE,nextN |-> 5,edges |-> (0 :> <<1, 3>>),acyclic |-> TRUE,l |-> 604,eObj |-> <<>>,nextE |-> 1]),
    ([res |-> "ok",cacheV |-> FALSE,nodes |-> {0, 1, 2, 3, 4},cacheR |-> FALSE,nextN |-> 5,edges |-> (0 :> <<1, 3>> @@ 1 :> <<2, 0>>),acyclic |-> TRUE,l |-> 605,eObj |-> <<>>,nextE |-> 2]),
    ([res |-> "ok",cacheV |-> FALSE,nodes |-> {0, 1, 2, 3, 4},cacheR |-> FALSE,nextN |-> 5,edges |-> (0 :> <<1, 3>> @@ 1 :> <<2, 0>> @@ 2 :> <<4, 3>>),acyclic |-> TRUE,l |-> 606,eObj |-> <<>>,nextE |-> 3]),
    ([res |-> "T",cacheV |-> TRUE,nodes |-> {0, 1, 2, 3, 4},cacheR |-> FALSE,nextN |-> 5,edges |-> (0 :> <<1, 3>> @@ 1 :> <<2, 0>> @@ 2 :> <<4, 3>>),acyclic |-> TRUE,l |-> 607,eObj |-> <<>>,nextE |-> 3]),
    ([res |-> "ok",cacheV |-> FALSE,nodes |-> {0, 1, 2, 3, 4},cacheR |-> FALSE,nextN |-> 5,edges |-> (0 :> <<1, 3>> @@ 1 :> <<2, 0>> @@ 2 :> <<4, 3>> @@ 3 :> <<1, 0>>),acyclic |-> TRUE,l |-> 608,eObj |-> <<>>,nextE |-> 4]),
    ([res |-> "T",cacheV |-> TRUE,nodes |-> {0, 1, 2, 3, 4},cacheR |-> FALSE,nextN |-> 5,edges |-> (0 :> <<1, 3>> @@ 1 :> <<2, 0>> @@ 2 :> <<4, 3>> @@ 3 :> <<1, 0>>),acyclic |-> TRUE,l |-> 609,eObj |-> <<>>,nextE |-> 4]),
    ([res |-> "T",cacheV |-> TRUE,nodes |-> {0, 1, 2, 3, 4},cacheR |-> FALSE,nextN |-> 5,edges |-> (0 :> <<1, 3>> @@ 1 :> <<2, 0>> @@ 2 :> <<4, 3>> @@ 3 :> <<1, 0>>),acyclic |-> TRUE,l |-> 610,eObj |-> <<>>,nextE |-> 4]),
    ([res |-> "RF",cacheV |-> TRUE,nodes |-> {0, 1, 2, 3, 4},cacheR |-> FALSE,nextN |-> 5,edges |-> (0 :> <<1, 3>> @@ 1 :> <<2, 0>> @@ 2 :> <<4, 3>> @@ 3 :> <<1, 0>>),acyclic |-> TRUE,l |-> 611,eObj |-> <<>>,nextE |-> 4]),
    ([res |-> "ok",cacheV |-> TRUE,nodes |-> {0, 1, 2, 3, 4},cacheR |-> FALSE,nextN |-> 5,edges |-> (0 :> <<1, 3>> @@ 1 :> <<2, 0>> @@ 2 :> <<4, 3>> @@ 3 :> <<1, 0>>),acyclic |-> TRUE,l |-> 612,eObj |-> <<>>,nextE |-> 4]),
    ([res |-> "ok",cacheV |-> TRUE,nodes |-> {0, 1, 2, 3, 4},cacheR |-> FALSE,nextN |-> 5,edges |-> (0 :> <<1, 3>> @@ 1 :> <<2, 0>> @@ 2 :> <<4, 3>> @@ 3 :> <<1, 0>>),acyclic |-> TRUE,l |-> 613,eObj |-> <<>>,nextE |-> 4]),
    ([res |-> "ok",cacheV |-> TRUE,nodes |-> {0, 1, 2, 3, 4},cacheR |-> FALSE,nextN |-> 5,edges |-> (0 :> <<1, 3>> @@ 1 :> <<2, 0>> @@ 2 :> <<4, 3>> @@ 3 :> <<1, 0>>),acyclic |-> TRUE,l |-> 614,eObj |-> <<>>,nextE |-> 4]),
    ([res |-> "ok",cacheV |-> TRUE,nodes |-> {0, 1, 2, 3, 4},cacheR |-> FALSE,nextN |-> 5,edges |-> (0 :> <<1, 3>> @@ 1 :> <<2, 0>> @@ 2 :> <<4, 3>> @@ 3 :> <<1, 0>>),acyclic |-> TRUE,l |-> 615,eObj |-> <<>>,nextE |-> 4]),
    ([res |-> "ok",cacheV |-> TRUE,nodes |-> {0, 1, 2, 3, 4},cacheR |-> FALSE,nextN |-> 5,edges |-> (0 :> <<1, 3>> @@ 1 :> <<2, 0>> @@ 2 :> <<4, 3>> @@ 3 :> <<1, 0>>),acyclic |-> TRUE,l |-> 616,eObj |-> <<>>,nextE |-> 4]),
    ([res |-> "ok",cacheV |-> TRUE,nodes |-> {0, 1, 2, 3, 4},cacheR |-> FALSE,nextN |-> 5,edges |-> (0 :> <<1, 3>> @@ 1 :> <<2, 0>> @@ 2 :> <<4, 3>> @@ 3 :> <<1, 0>>),acyclic |-> TRUE,l |-> 617,eObj |-> <<>>,nextE |-> 4]),
    ([res |-> "ok",cacheV |-> TRUE,nodes |-> {0, 1, 2, 3, 4},cacheR |-> FALSE,nextN |-> 5,edges |-> (0 :> <<1, 3>> @@ 1 :> <<2, 0>> @@ 2 :> <<4, 3>> @@ 3 :> <<1, 0>>),acyclic |-> TRUE,l |-> 618,eObj |-> <<>>,nextE |-> 4]),
    ([res |-> "ok",cacheV |-> FALSE,nodes |-> {},cacheR |-> FALSE,nextN |-> 0,edges |-> <<>>,acyclic |-> TRUE,l |-> 619,eObj |-> <<>>,nextE |-> 0]),
    ([res |-> "ok",cacheV |-> FALSE,nodes |-> {0},cacheR |-> FALSE,nextN |-> 1,edges |-> <<>>,acyclic |-> TRUE,l |-> 620,eObj |-> <<>>,nextE |-> 0]),
    ([res |-> "raise",cacheV |-> FALSE,nodes |-> {0},cacheR |-> FALSE,nextN |-> 1,edges |-> <<>>,acyclic |-> TRUE,l |-> 621,eObj |-> <<>>,nextE |-> 0]),
    ([res |-> "raise",cacheV |-> FALSE,nodes |-> {0},cacheR |-> FALSE,nextN |-> 1,edges |-> <<>>,acyclic |-> TRUE,l |-> 622,eObj |-> <<>>,nextE |-> 0]),
    ([res |-> "RT",cacheV |-> FALSE,nodes |-> {0},cacheR |-> TRUE,nextN |-> 1,edges |-> <<>>,acyclic |-> TRUE,l |-> 623,eObj |-> <<>>,nextE |-> 0]),
    ([res |-> "RT",cacheV |-> FALSE,nodes |-> {0},cacheR |-> TRUE,nextN |-> 1,edges |-> <<>>,acyclic |-> TRUE,l |-> 624,eObj |-> <<>>,nextE |-> 0]),
    ([res |-> "T",cacheV |-> TRUE,nodes |-> {0},cacheR |-> TRUE,nextN |-> 1,edges |-> <<>>,acyclic |-> TRUE,l |-> 625,eObj |-> <<>>,nextE |-> 0]),
    ([res |-> "raise",cacheV |-> TRUE,nodes |-> {0},cacheR |-> TRUE,nextN |-> 1,edges |-> <<>>,acyclic |-> TRUE,l |-> 626,eObj |-> <<>>,nextE |-> 0]),
    ([res |-> "ok",cacheV |-> FALSE,nodes |-> {0},cacheR |-> FALSE,nextN |-> 1,edges |-> (0 :> <<0, 0>>),acyclic |-> FALSE,l |-> 627,eObj |-> <<>>,nextE |-> 1]),
    ([res |-> "raise",cacheV |-> FALSE,nodes |-> {0},cacheR |-> FALSE,nextN |-> 1,edges |-> (0 :> <<0, 0>>),acyclic |-> FALSE,l |-> 628,eObj |-> <<>>,nextE |-> 1]),
    ([res |-> "raise",cacheV |-> FALSE,nodes |-> {0},cacheR |-> FALSE,nextN |-> 1,edges |-> (0 :> <<0, 0>>),acyclic |-> FALSE,l |-> 629,eObj |-> <<>>,nextE |-> 1]),
    ([res |-> "raise",cacheV |-> FALSE,nodes |-> {0},cacheR |-> FALSE,nextN |-> 1,edges |-> (0 :> <<0, 0>>),acyclic |-> FALSE,l |-> 630,eObj |-> <<>>,nextE |-> 1]),
    ([res |-> "ok",cacheV |-> FALSE,nodes |-> {0, 1},cacheR |-> FALSE,nextN |-> 2,edges |-> (0 :> <<0, 0>>),acyclic |-> FALSE,l |-> 631,eObj |-> <<>>,nextE |-> 1]),
    ([res |-> "ok",cacheV |-> FALSE,nodes |-> {0, 1, 2},cacheR |-> FALSE,nextN |-> 3,edges |-> (0 :> <<0, 0>>),acyclic |-> FALSE,l |-> 632,eObj |-> <<>>,nextE |-> 1]),
    ([res |-> "ok",cacheV |-> FALSE,nodes |-> {0, 1, 2, 3},cacheR |-> FALSE,nextN |-> 4,edges |-> (0 :> <<0, 0>>),acyclic |-> FALSE,l |-> 633,eObj |-> <<>>,nextE |-> 1]),
    ([res |-> "ok",cacheV |-> FALSE,nodes |-> {0, 1, 2, 3, 4},cacheR |-> FALSE,nextN |-> 5,edges |-> (0 :> <<0, 0>>),acyclic |-> FALSE,l |-> 634,eObj |-> <<>>,nextE |-> 1]),
    ([res |-> "F",cacheV |-> FALSE,nodes |-> {0, 1, 2, 3, 4},cacheR |-> FALSE,nextN |-> 5,edges |-> (0 :> <<0, 0>>),acyclic |-> FALSE,l |-> 635,eObj |-> <<>>,nextE |-> 1]),
    ([res |-> "ok",cacheV |-> FALSE,nodes |-> {0, 1, 2, 3, 4},cacheR |-> FALSE,nextN |-> 5,edges |-> (0 :> <<0, 0>> @@ 1 :> <<4, 4>>),acyclic |-> FALSE,l |-> 636,eObj |-> <<>>,nextE |-> 2]),
    ([res |-> "ok",cacheV |-> FALSE,nodes |-> {0, 1, 2, 3, 4},cacheR |-> FALSE,nextN |-> 5,edges |-> (0 :> <<0, 0>> @@ 1 :> <<4, 4>> @@ 2 :> <<2, 4>>),acyclic |-> FALSE,l |-> 637,eObj |-> <<>>,nextE |-> 3]),
    ([res |-> "ok",cacheV |-> FALSE,nodes |-> {0, 1, 2, 3, 4},cacheR |-> FALSE,nextN |-> 5,edges |-> (0 :> <<0, 0>> @@ 1 :> <<4, 4>> @@ 2 :> <<2, 4>> @@ 3 :> <<0, 3>>),acyclic |-> FALSE,l |-> 638,eObj |-> (3 :> 1),nextE |-> 4]),
    ([res |-> "raise",cacheV |-> FALSE,nodes |-> {0, 1, 2, 3, 4},cacheR |-> FALSE,nextN |-> 5,edges |-> (0 :> <<0, 0>> @@ 1 :> <<4, 4>> @@ 2 :> <<2, 4>> @@ 3 :> <<0, 3>>),acyclic |-> FALSE,l |-> 639,eObj |-> (3 :> 1),nextE |-> 4]),
    ([res |-> "F",cacheV |-> FALSE,nodes |-> {0, 1, 2, 3, 4},cacheR |-> FALSE,nextN |-> 5,edges |-> (0 :> <<0, 0>> @@ 1 :> <<4, 4>> @@ 2 :> <<2, 4>> @@ 3 :> <<0, 3>>),acyclic |-> FALSE,l |-> 640,eObj |-> (3 :> 1),nextE |-> 4]),
    ([res |-> "F",cacheV |-> FALSE,nodes |-> {0, 1, 2, 3, 4},cacheR |-> FALSE,nextN |-> 5,edges |-> (0 :> <<0, 0>> @@ 1 :> <<4, 4>> @@ 2 :> <<2, 4>> @@ 3 :> <<0, 3>>),acyclic |-> FALSE,l |-> 641,eObj |-> (3 :> 1),nextE |-> 4]),
    ([res |-> "ok",cacheV |-> FALSE,nodes |-> {0, 1, 2, 3, 4, 5},cacheR |-> FALSE,nextN |-> 6,edges |-> (0 :> <<0, 0>> @@ 1 :> <<4, 4>> @@ 2 :> <<2, 4>> @@ 3 :> <<0, 3>>),acyclic |-> FALSE,l |-> 642,eObj |-> (3 :> 1),nextE |-> 4]),
    ([res |-> "F",cacheV |-> FALSE,nodes |-> {0, 1, 2, 3, 4, 5},cacheR |-> FALSE,nextN |-> 6,edges |-> (0 :> <<0, 0>> @@ 1 :> <<4, 4>> @@ 2 :> <<2, 4>> @@ 3 :> <<0, 3>>),acyclic |-> FALSE,l |-> 643,eObj |-> (3 :> 1),nextE |-> 4]),
    ([res |-> "F",cacheV |-> FALSE,nodes |-> {0, 1, 2, 3, 4, 5},cacheR |-> FALSE,nextN |-> 6,edges |-> (0 :> <<0, 0>> @@ 1 :> <<4, 4>> @@ 2 :> <<2, 4>> @@ 3 :> <<0, 3>>),acyclic |-> FALSE,l |-> 644,eObj |-> (3 :> 1),nextE |-> 4]),
    ([res |-> "ok",cacheV |-> FALSE,nodes |-> {0, 1, 2, 3, 4, 5},cacheR |-> FALSE,nextN |-> 6,edges |-> (0 :> <<0, 0>> @@ 1 :> <<4, 4>> @@ 2 :> <<2, 4>> @@ 3 :> <<0, 3>> @@ 4 :> <<2, 5>>),acyclic |-> FALSE,l |-> 645,eObj |-> (3 :> 1),nextE |-> 5]),
    ([res |-> "F",cacheV |-> FALSE,nodes |-> {0, 1, 2, 3, 4, 5},cacheR |-> FALSE,nextN |-> 6,edges |-> (0 :> <<0, 0>> @@ 1 :> <<4, 4>> @@ 2 :> <<2, 4>> @@ 3 :> <<0, 3>> @@ 4 :> <<2, 5>>),acyclic |-> FALSE,l |-> 646,eObj |-> (3 :> 1),nextE |-> 5]),
    ([res |-> "F",cacheV |-> FALSE,nodes |-> {0, 1, 2, 3, 4, 5},cacheR |-> FALSE,nextN |-> 6,edges |-> (0 :> <<0, 0>> @@ 1 :> <<4, 4>> @@ 2 :> <<2, 4>> @@ 3 :> <<0, 3>> @@ 4 :> <<2, 5>>),acyclic |-> FALSE,l |-> 647,eObj |-> (3 :> 1),nextE |-> 5]),
    ([res |-> "ok",cacheV |-> FALSE,nodes |-> {0, 1, 2, 3, 4, 5},cacheR |-> FALSE,nextN |-> 6,edges |-> (0 :> <<0, 0>> @@ 1 :> <<4, 4>> @@ 2 :> <<2, 4>> @@ 3 :> <<0, 3>> @@ 4 :> <<2, 5>> @@ 5 :> <<1, 2>>),acyclic |-> FALSE,l |-> 648,eObj |-> (3 :> 1),nextE |-> 6]),
    ([res |-> "ok",cacheV |-> FALSE,nodes |-> {0, 1, 2, 3, 4, 5},cacheR |-> FALSE,nextN |-> 6,edges |-> (0 :> <<0, 0>> @@ 1 :> <<4, 4>> @@ 2 :> <<2, 4>> @@ 3 :> <<0, 3>> @@ 4 :> <<2, 5>> @@ 5 :> <<1, 2>> @@ 6 :> <<3, 3>>),acyclic |-> FALSE,l |-> 649,eObj |-> (3 :> 1),nextE |-> 7]),
    ([res |-> "raise",cacheV |-> FALSE,nodes |-> {0, 1, 2, 3, 4, 5},cacheR |-> FALSE,nextN |-> 6,edges |-> (0 :> <<0, 0>> @@ 1 :> <<4, 4>> @@ 2 :> <<2, 4>> @@ 3 :> <<0, 3>> @@ 4 :> <<2, 5>> @@ 5 :> <<1, 2>> @@ 6 :> <<3, 3>>),acyclic |-> FALSE,l |-> 650,eObj |-> (3 :> 1),nextE |-> 7]),
    ([res |-> "ok",cacheV |-> FALSE,nodes |-> {0, 1, 2, 3, 4},cacheR |-> FALSE,nextN |-> 6,edges |-> (0 :> <<0, 0>> @@ 1 :> <<4, 4>> @@ 2 :> <<2, 4>> @@ 3 :> <<0, 3>> @@ 5 :> <<1, 2>> @@ 6 :> <<3, 3>>),acyclic |-> FALSE,l |-> 651,eObj |-> (3 :> 1),nextE |-> 7]),
    ([res |-> "ok",cacheV |-> FALSE,nodes |-> {0, 1, 2, 3, 4},cacheR |-> FALSE,nextN |-> 6,edges |-> (0 :> <<0, 0>> @@ 1 :> <<4, 4>> @@ 2 :> <<2, 4>> @@ 3 :> <<0, 3>> @@ 5 :> <<1, 2>> @@ 6 :> <<3, 3>> @@ 7 :> <<3, 4>>),acyclic |-> FALSE,l |-> 652,eObj |-> (3 :> 1 @@ 7 :> 3),nextE |-> 8]),
    ([res |-> "raise",cacheV |-> FALSE,nodes |-> {0, 1, 2, 3, 4},cacheR |-> FALSE,nextN |-> 6,edges |-> (0 :> <<0, 0>> @@ 1 :> <<4, 4>> @@ 2 :> <<2, 4>> @@ 3 :> <<0, 3>> @@ 5 :> <<1, 2>> @@ 6 :> <<3, 3>> @@ 7 :> <<3, 4>>),acyclic |-> FALSE,l |-> 653,eObj |-> (3 :> 1 @@ 7 :> 3),nextE |-> 8]),
    ([res |-> "ok",cacheV |-> FALSE,nodes |-> {0, 1, 2, 3, 4},cacheR |-> FALSE,nextN |-> 6,edges |-> (0 :> <<0, 0>> @@ 1 :> <<4, 4>> @@ 2 :> <<2, 4>> @@ 3 :> <<0, 3>> @@ 5 :> <<1, 2>> @@ 6 :> <<3, 3>> @@ 7 :> <<3, 4>> @@ 8 :> <<1, 0>>),acyclic |-> FALSE,l |-> 654,eObj |-> (3 :> 1 @@ 7 :> 3),nextE |-> 9]),
    ([res |-> "ok",cacheV |-> FALSE,nodes |-> {0, 1, 2, 3, 4},cacheR |-> FALSE,nextN |-> 6,edges |-> (0 :> <<0, 0>> @@ 1 :> <<4, 4>> @@ 2 :> <<2, 4>> @@ 3 :> <<0, 3>> @@ 5 :> <<1, 2>> @@ 6 :> <<3, 3>> @@ 7 :> <<3, 4>> @@ 8 :> <<1, 0>> @@ 9 :> <<1, 4>>),acyclic |-> FALSE,l |-> 655,eObj |-> (3 :> 1 @@ 7 :> 3),nextE |-> 10]),
    ([res |-> "F",cacheV |-> FALSE,nodes |-> {0, 1, 2, 3, 4},cacheR |-> FALSE,nextN |-> 6,edges |-> (0 :> <<0, 0>> @@ 1 :> <<4, 4>> @@ 2 :> <<2, 4>> @@ 3 :> <<0, 3>> @@ 5 :> <<1, 2>> @@ 6 :> <<3, 3>> @@ 7 :> <<3, 4>> @@ 8 :> <<1, 0>> @@ 9 :> <<1, 4>>),acyclic |-> FALSE,l |-> 656,eObj |-> (3 :> 1 @@ 7 :> 3),nextE |-> 10]),
    ([res |-> "F",cacheV |-> FALSE,nodes |-> {0, 1, 2, 3, 4},cacheR |-> FALSE,nextN |-> 6,edges |-> (0 :> <<0, 0>> @@ 1 :> <<4, 4>> @@ 2 :> <<2, 4>> @@ 3 :> <<0, 3>> @@ 5 :> <<1, 2>> @@ 6 :> <<3, 3>> @@ 7 :> <<3, 4>> @@ 8 :> <<1, 0>> @@ 9 :> <<1, 4>>),acyclic |-> FALSE,l |-> 657,eObj |-> (3 :> 1 @@ 7 :> 3),nextE |-> 10]),
    ([res |-> "F",cacheV |-> FALSE,nodes |-> {0, 1, 2, 3, 4},cacheR |-> FALSE,nextN |-> 6,edges |-> (0 :> <<0, 0>> @@ 1 :> <<4, 4>> @@ 2 :> <<2, 4>> @@ 3 :> <<0, 3>> @@ 5 :> <<1, 2>> @@ 6 :> <<3, 3>> @@ 7 :> <<3, 4>> @@ 8 :> <<1, 0>> @@ 9 :> <<1, 4>>),acyclic |-> FALSE,l |-> 658,eObj |-> (3 :> 1 @@ 7 :> 3),nextE |-> 10]),
    ([res |-> "RT",cacheV |-> FALSE,nodes |-> {0, 1, 2, 3, 4},cacheR |-> TRUE,nextN |-> 6,edges |-> (0 :> <<0, 0>> @@ 1 :> <<4, 4>> @@ 2 :> <<2, 4>> @@ 3 :> <<0, 3>> @@ 5 :> <<1, 2>> @@ 6 :> <<3, 3>> @@ 7 :> <<3, 4>> @@ 8 :> <<1, 0>> @@ 9 :> <<1, 4>>),acyclic |-> FALSE,l |-> 659,eObj |-> (3 :> 1 @@ 7 :> 3),nextE |-> 10]),
    ([res |-> "ok",cacheV |-> FALSE,nodes |-> {0, 1, 2, 3, 4},cacheR |-> TRUE,nextN |-> 6,edges |-> (0 :> <<0, 0>> @@ 1 :> <<4, 4>> @@ 2 :> <<2, 4>> @@ 3 :> <<0, 3>> @@ 5 :> <<1, 2>> @@ 6 :> <<3, 3>> @@ 7 :> <<3, 4>> @@ 8 :> <<1, 0>> @@ 9 :> <<1, 4>>),acyclic |-> FALSE,l |-> 660,eObj |-> (3 :> 1 @@ 7 :> 3),nextE |-> 10]),
    ([res |-> "raise",cacheV |-> FALSE,nodes |-> {0, 1, 2, 3, 4},cacheR |-> TRUE,nextN |-> 6,edges |-> (0 :> <<0, 0>> @@ 1 :> <<4, 4>> @@ 2 :> <<2, 4>> @@ 3 :> <<0, 3>> @@ 5 :> <<1, 2>> @@ 6 :> <<3, 3>> @@ 7 :> <<3, 4>> @@ 8 :> <<1, 0>> @@ 9 :> <<1, 4>>),acyclic |-> FALSE,l |-> 661,eObj |-> (3 :> 1 @@ 7 :> 3),nextE |-> 10]),
    ([res |-> "ok",cacheV |-> FALSE,nodes |-> {},cacheR |-> FALSE,nextN |-> 0,edges |-> <<>>,acyclic |-> TRUE,l |-> 662,eObj |-> <<>>,nextE |-> 0]),
    ([res |-> "ok",cacheV |-> FALSE,nodes |-> {0},cacheR |-> FALSE,nextN |-> 1,edges |-> <<>>,acyclic |-> TRUE,l |-> 663,eObj |-> <<>>,nextE |-> 0]),
    ([res |-> "ok",cacheV |-> FALSE,nodes |-> {0, 1},cacheR |-> FALSE,nextN |-> 2,edges |-> <<>>,acyclic |-> TRUE,l |-> 664,eObj |-> <<>>,nextE |-> 0]),
    ([res |-> "ok",cacheV |-> FALSE,nodes |-> {0, 1, 2},cacheR |-> FALSE,nextN |-> 3,edges |-> <<>>,acyclic |-> TRUE,l |-> 665,eObj |-> <<>>,nextE |-> 0]),
    ([res |-> "ok",cacheV |-> FALSE,nodes |-> {0, 1, 2, 3},cacheR |-> FALSE,nextN |-> 4,edges |-> <<>>,acyclic |-> TRUE,l |-> 666,eObj |-> <<>>,nextE |-> 0]),
    ([res |-> "ok",cacheV |-> FALSE,nodes |-> {0, 1, 2, 3, 4},cacheR |-> FALSE,nextN |-> 5,edges |-> <<>>,acyclic |-> TRUE,l |-> 667,eObj |-> <<>>,nextE |-> 0]),
    ([res |-> "ok",cacheV |-> FALSE,nodes |-> {0, 1, 2, 3, 4},cacheR |-> FALSE,nextN |-> 5,edges |-> (0 :> <<1, 3>>),acyclic |-> TRUE,l |-> 668,eObj |-> <<>>,nextE |-> 1]),
    ([res |-> "T",cacheV |-> TRUE,nodes |-> {0, 1, 2, 3, 4},cacheR |-> FALSE,nextN |-> 5,edges |-> (0 :> <<1, 3>>),acyclic |-> TRUE,l |-> 669,eObj |-> <<>>,nextE |-> 1]),
    ([res |-> "ok",cacheV |-> FALSE,nodes |-> {0, 1, 2, 3, 4},cacheR |-> FALSE,nextN |-> 5,edges |-> (0 :> <<1, 3>> @@ 1 :> <<1, 0>>),acyclic |-> TRUE,l |-> 670,eObj |-> <<1>>,nextE |-> 2]),
    ([res |-> "ok",cacheV |-> FALSE,nodes |-> {0, 1, 2, 3, 4},cacheR |-> FALSE,nextN |-> 5,edges |-> (0 :> <<1, 3>> @@ 1 :> <<1, 0>> @@ 2 :> <<4, 1>>),acyclic |-> TRUE,l |-> 671,eObj |-> <<1, 2>>,nextE |-> 3]),
    ([res |-> "raise",cacheV |-> FALSE,nodes |-> {0, 1, 2, 3, 4},cacheR |-> FALSE,nextN |-> 5,edges |-> (0 :> <<1, 3>> @@ 1 :> <<1, 0>> @@ 2 :> <<4, 1>>),acyclic |-> TRUE,l |-> 672,eObj |-> <<1, 2>>,nextE |-> 3]),
    ([res |-> "ok",cacheV |-> FALSE,nodes |-> {0, 1, 2, 3, 4},cacheR |-> FALSE,nextN |-> 5,edges |-> (0 :> <<1, 3>> @@ 1 :> <<1, 0>> @@ 2 :> <<4, 1>> @@ 3 :> <<4, 3>>),acyclic |-> TRUE,l |-> 673,eObj |-> <<1, 2>>,nextE |-> 4]),
    ([res |-> "raise",cacheV |-> FALSE,nodes |-> {0, 1, 2, 3, 4},cacheR |-> FALSE,nextN |-> 5,edges |-> (0 :> <<1, 3>> @@ 1 :> <<1, 0>> @@ 2 :> <<4, 1>> @@ 3 :> <<4, 3>>),acyclic |-> TRUE,l |-> 674,eObj |-> <<1, 2>>,nextE |-> 4]),
    ([res |-> "ok",cacheV |-> FALSE,nodes |-> {0, 1, 2, 3, 4},cacheR |-> FALSE,nextN |-> 5,edges |-> (0 :> <<1, 3>> @@ 1 :> <<1, 0>> @@ 2 :> <<4, 1>> @@ 3 :> <<4, 3>> @@ 4 :> <<4, 0>>),acyclic |-> TRUE,l |-> 675,eObj |-> <<1, 2>>,nextE |-> 5]),
    ([res |-> "T",cacheV |-> TRUE,nodes |-> {0, 1, 2, 3, 4},cacheR |-> FALSE,nextN |-> 5,edges |-> (0 :> <<1, 3>> @@ 1 :> <<1, 0>> @@ 2 :> <<4, 1>> @@ 3 :> <<4, 3>> @@ 4 :> <<4, 0>>),acyclic |-> TRUE,l |-> 676,eObj |-> <<1, 2>>,nextE |-> 5]),
    ([res |-> "T",cacheV |-> TRUE,nodes |-> {0, 1, 2, 3, 4},cacheR |-> FALSE,nextN |-> 5,edges |-> (0 :> <<1, 3>> @@ 1 :> <<1, 0>> @@ 2 :> <<4, 1>> @@ 3 :> <<4, 3>> @@ 4 :> <<4, 0>>),acyclic |-> TRUE,l |-> 677,eObj |-> <<1, 2>>,nextE |-> 5]),
    ([res |-> "RF",cacheV |-> TRUE,nodes |-> {0, 1, 2, 3, 4},cacheR |-> FALSE,nextN |-> 5,edges |-> (0 :> <<1, 3>> @@ 1 :> <<1, 0>> @@ 2 :> <<4, 1>> @@ 3 :> <<4, 3>> @@ 4 :> <<4, 0>>),acyclic |-> TRUE,l |-> 678,eObj |-> <<1, 2>>,nextE |-> 5]),
    ([res |-> "ok",cacheV |-> TRUE,nodes |-> {0, 1, 2, 3, 4},cacheR |-> FALSE,nextN |-> 5,edges |-> (0 :> <<1, 3>> @@ 1 :> <<1, 0>> @@ 2 :> <<4, 1>> @@ 3 :> <<4, 3>> @@ 4 :> <<4, 0>>),acyclic |-> TRUE,l |-> 679,eObj |-> <<1, 2>>,nextE |-> 5]),
    ([res |-> "ok",cacheV |-> TRUE,nodes |-> {0, 1, 2, 3, 4},cacheR |-> FALSE,nextN |-> 5,edges |-> (0 :> <<1, 3>> @@ 1 :> <<1, 0>> @@ 2 :> <<4, 1>> @@ 3 :> <<4, 3>> @@ 4 :> <<4, 0>>),acyclic |-> TRUE,l |-> 680,eObj |-> <<1, 2>>,nextE |-> 5]),
    ([res |-> "ok",cacheV |-> TRUE,nodes |-> {0, 1, 2, 3, 4},cacheR |-> FALSE,nextN |-> 5,edges |-> (0 :> <<1, 3>> @@ 1 :> <<1, 0>> @@ 2 :> <<4, 1>> @@ 3 :> <<4, 3>> @@ 4 :> <<4, 0>>),acyclic |-> TRUE,l |-> 681,eObj |-> <<1, 2>>,nextE |-> 5]),
    ([res |-> "ok",cacheV |-> TRUE,nodes |-> {0, 1, 2, 3, 4},cacheR |-> FALSE,nextN |-> 5,edges |-> (0 :> <<1, 3>> @@ 1 :> <<1, 0>> @@ 2 :> <<4, 1>> @@ 3 :> <<4, 3>> @@ 4 :> <<4, 0>>),acyclic |-> TRUE,l |-> 682,eObj |-> <<1, 2>>,nextE |-> 5]),
    ([res |-> "ok",cacheV |-> TRUE,nodes |-> {0, 1, 2, 3, 4},cacheR |-> FALSE,nextN |-> 5,edges |-> (0 :> <<1, 3>> @@ 1 :> <<1, 0>> @@ 2 :> <<4, 1>> @@ 3 :> <<4, 3>> @@ 4 :> <<4, 0>>),acyclic |-> TRUE,l |-> 683,eObj |-> <<1, 2>>,nextE |-> 5]),
    ([res |-> "ok",cacheV |-> TRUE,nodes |-> {0, 1, 2, 3, 4},cacheR |-> FALSE,nextN |-> 5,edges |-> (0 :> <<1, 3>> @@ 1 :> <<1, 0>> @@ 2 :> <<4, 1>> @@ 3 :> <<4, 3>> @@ 4 :> <<4, 0>>),acyclic |-> TRUE,l |-> 684,eObj |-> <<1, 2>>,nextE |-> 5]),
    ([res |-> "ok",cacheV |-> TRUE,nodes |-> {0, 1, 2, 3, 4},cacheR |-> FALSE,nextN |-> 5,edges |-> (0 :> <<1, 3>> @@ 1 :> <<1, 0>> @@ 2 :> <<4, 1>> @@ 3 :> <<4, 3>> @@ 4 :> <<4, 0>>),acyclic |-> TRUE,l |-> 685,eObj |-> <<1, 2>>,nextE |-> 5]),
    ([res |-> "ok",cacheV |-> FALSE,nodes |-> {},cacheR |-> FALSE,nextN |-> 0,edges |-> <<>>,acyclic |-> TRUE,l |-> 686,eObj |-> <<>>,nextE |-> 0]),
    ([res |-> "raise",cacheV |-> FALSE,nodes |-> {},cacheR |-> FALSE,nextN |-> 0,edges |-> <<>>,acyclic |-> TRUE,l |-> 687,eObj |-> <<>>,nextE |-> 0]),
    ([res |-> "ok",cacheV |-> FALSE,nodes |-> {},cacheR |-> FALSE,nextN |-> 0,edges |-> <<>>,acyclic |-> TRUE,l |-> 688,eObj |-> <<>>,nextE |-> 0]),
    ([res |-> "ok",cacheV |-> FALSE,nodes |-> {},cacheR |-> FALSE,nextN |-> 0,edges |-> <<>>,acyclic |-> TRUE,l |-> 689,eObj |-> <<>>,nextE |-> 0]),
    ([res |-> "raise",cacheV |-> FALSE,nodes |-> {},cacheR |-> FALSE,nextN |-> 0,edges |-> <<>>,acyclic |-> TRUE,l |-> 690,eObj |-> <<>>,nextE |-> 0]),
    ([res |-> "ok",cacheV |-> FALSE,nodes |-> {0},cacheR |-> FALSE,nextN |-> 1,edges |-> <<>>,acyclic |-> TRUE,l |-> 691,eObj |-> <<>>,nextE |-> 0]),
    ([res |-> "ok",cacheV |-> TRUE,nodes |-> {0},cacheR |-> FALSE,nextN |-> 1,edges |-> <<>>,acyclic |-> TRUE,l |-> 692,eObj |-> <<>>,nextE |-> 0]),
    ([res |-> "ok",cacheV |-> FALSE,nodes |-> {0, 1},cacheR |-> FALSE,nextN |-> 2,edges |-> <<>>,acyclic |-> TRUE,l |-> 693,eObj |-> <<>>,nextE |-> 0]),
    ([res |-> "raise",cacheV |-> FALSE,nodes |-> {0, 1},cacheR |-> FALSE,nextN |-> 2,edges |-> <<>>,acyclic |-> TRUE,l |-> 694,eObj |-> <<>>,nextE |-> 0]),
    ([res |-> "raise",cacheV |-> FALSE,nodes |-> {0, 1},cacheR |-> FALSE,nextN |-> 2,edges |-> <<>>,acyclic |-> TRUE,l |-> 695,eObj |-> <<>>,nextE |-> 0]),
    ([res |-> "ok",cacheV |-> FALSE,nodes |-> {0, 1},cacheR |-> FALSE,nextN |-> 2,edges |-> <<>>,acyclic |-> TRUE,l |-> 696,eObj |-> <<>>,nextE |-> 0]),
    ([res |-> "ok",cacheV |-> FALSE,nodes |-> {0, 1},cacheR |-> FALSE,nextN |-> 2,edges |-> <<>>,acyclic |-> TRUE,l |-> 697,eObj |-> <<>>,nextE |-> 0]),
    ([res |-> "ok",cacheV |-> FALSE,nodes |-> {0, 1},cacheR |-> FALSE,nextN |-> 2,edges |-> (0 :> <<0, 0>>),acyclic |-> FALSE,l |-> 698,eObj |-> <<>>,nextE |-> 1]),
    ([res |-> "RT",cacheV |-> FALSE,nodes |-> {0, 1},cacheR |-> TRUE,nextN |-> 2,edges |-> (0 :> <<0, 0>>),acyclic |-> FALSE,l |-> 699,eObj |-> <<>>,nextE |-> 1]),
    ([res |-> "raise",cacheV |-> FALSE,nodes |-> {0, 1},cacheR |-> TRUE,nextN |-> 2,edges |-> (0 :> <<0, 0>>),acyclic |-> FALSE,l |-> 700,eObj |-> <<>>,nextE |-> 1]),
    ([res |-> "ok",cacheV |-> FALSE,nodes |-> {0, 1, 2},cacheR |-> FALSE,nextN |-> 3,edges |-> (0 :> <<0, 0>>),acyclic |-> FALSE,l |-> 701,eObj |-> <<>>,nextE |-> 1]),
    ([res |-> "RT",cacheV |-> FALSE,nodes |-> {0, 1, 2},cacheR |-> FALSE,nextN |-> 3,edges |-> (0 :> <<0, 0>>),acyclic |-> FALSE,l |-> 702,eObj |-> <<>>,nextE |-> 1])
    >>
----


=============================================================================

---- CONFIG DagTrace_TTrace_1790491208 ----
CONSTANTS
    MaxN = 1000000
    MaxE = 1000000
    EObjs = { 1 , 2 , 3 , 4 , 5 , 6 , 7 , 8 , 9 , 10 , 11 , 12 , 13 , 14 , 15 , 16 }
    Forget = { }

INVARIANT
    _inv

CHECK_DEADLOCK
    \* CHECK_DEADLOCK off because of PROPERTY or INVARIANT above.
    FALSE

INIT
    _init

NEXT
    _next

CONSTANT
    _TETrace <- _trace

ALIAS
    _expression
=============================================================================
\* Generated on Sun Sep 27 06:40:11 UTC 2026