------------------------------ MODULE TreeCopy ------------------------------
\* Design model for COPIES of tree / DAG containers (property C15, extension):
\* copy construction, assignment and clone of TreeGraphImpl / DAGraphImpl.
\* Several containers, each = a small directed graph (edges as ordered pairs;
\* ids and objects play no role here, Tree.tla / Dag.tla cover them) with its
\* recorded root and its CACHED validity flags; a copy takes the structure AND
\* the flags of its source.  Explored: every interleaving of
\*     query (fills a cache) / copy / edit either side / query either side.
\* Property: every validity answer of every container equals the definition on
\* ITS current graph (ValidExact), a cached flag is never stale (CacheSound),
\* an edit or a query on one container leaves every other one as it was
\* (CopyIndependent), a copy equals its source at copy time (CopyEqual).
\* `Bug` injects one realistic mistake for the negative control:
\*   "keepflag"  assignment copies the graph but keeps the target's own flag
\*   "sharedflag" the flag is shared: a query on one container sets it for all
EXTENDS TreeDefs

CONSTANTS Objs,     \* container ids, e.g. {1, 2}
          NodesC,   \* node ids, e.g. {0, 1, 2}
          Bug       \* "none" | "keepflag" | "sharedflag"

VARIABLES live,     \* containers that exist
          g,        \* g[o] = [nodes, edges (set of <<a,b>>), root, cacheT (tree flag), cacheD (DAG flag)]
          last,     \* GHOST: <<kind, acting container, other container>> of the last step
          res       \* last validity answer <<container, "T"|"F">> or <<0, "-">>

vars == <<live, g, last, res>>

\* the definitions, on edge sets: turn the set into an id-indexed table
Tab(Es) == LET f == CHOOSE h \in [1..Cardinality(Es) -> Es] : \A i, j \in 1..Cardinality(Es) : i # j => h[i] # h[j]
           IN  [i \in 1..Cardinality(Es) |-> f[i]]
IsTreeC(x) == IsTreeDef(x.nodes, Tab(x.edges), TRUE, x.root)
IsDagC(x)  == IsDagDef(x.nodes, Tab(x.edges))

Empty == [nodes |-> {}, edges |-> {}, root |-> 0, cacheT |-> FALSE, cacheD |-> FALSE]
Init == live = {CHOOSE o \in Objs : TRUE} /\ g = [o \in Objs |-> Empty] /\ last = <<"init", 0, 0>> /\ res = <<0, "-">>

Upd(o, x) == g' = [g EXCEPT ![o] = x]
Edited(x) == [x EXCEPT !.cacheT = FALSE, !.cacheD = FALSE]       \* every edit drops both flags

AddNode(o, n) == /\ o \in live /\ n \notin g[o].nodes
                 /\ Upd(o, Edited([g[o] EXCEPT !.nodes = @ \cup {n}]))
                 /\ last' = <<"edit", o, 0>> /\ res' = <<0, "-">> /\ UNCHANGED live
DelNode(o, n) == /\ o \in live /\ n \in g[o].nodes
                 /\ Upd(o, Edited([g[o] EXCEPT !.nodes = @ \ {n}, !.edges = {e \in @ : e[1] # n /\ e[2] # n}]))
                 /\ last' = <<"edit", o, 0>> /\ res' = <<0, "-">> /\ UNCHANGED live
AddEdge(o, a, b) == /\ o \in live /\ a \in g[o].nodes /\ b \in g[o].nodes /\ <<a, b>> \notin g[o].edges
                    /\ Upd(o, Edited([g[o] EXCEPT !.edges = @ \cup {<<a, b>>}]))
                    /\ last' = <<"edit", o, 0>> /\ res' = <<0, "-">> /\ UNCHANGED live
DelEdge(o, a, b) == /\ o \in live /\ <<a, b>> \in g[o].edges
                    /\ Upd(o, Edited([g[o] EXCEPT !.edges = @ \ {<<a, b>>}]))
                    /\ last' = <<"edit", o, 0>> /\ res' = <<0, "-">> /\ UNCHANGED live
SetRoot(o, n) == /\ o \in live /\ n \in g[o].nodes /\ n # g[o].root
                 /\ Upd(o, Edited([g[o] EXCEPT !.root = n]))
                 /\ last' = <<"edit", o, 0>> /\ res' = <<0, "-">> /\ UNCHANGED live

\* isValid() of the tree container / of the DAG container on o
QTree(o) == /\ o \in live
            /\ LET v == g[o].cacheT \/ IsTreeC(g[o]) IN
                 /\ res' = <<o, IF v THEN "T" ELSE "F">>
                 /\ g' = [p \in Objs |->
                            IF p = o THEN [g[o] EXCEPT !.cacheT = v]
                            ELSE IF Bug = "sharedflag" /\ p \in live THEN [g[p] EXCEPT !.cacheT = v]
                            ELSE g[p]]
            /\ last' = <<"qtree", o, 0>> /\ UNCHANGED live
QDag(o) == /\ o \in live
           /\ LET v == g[o].cacheD \/ IsDagC(g[o]) IN
                /\ res' = <<o, IF v THEN "DT" ELSE "DF">> /\ Upd(o, [g[o] EXCEPT !.cacheD = v])
           /\ last' = <<"qdag", o, 0>> /\ UNCHANGED live

\* copy construction / clone (d is new) and assignment (d exists): structure and flags of s
Copy(s, d) == /\ s \in live /\ d \in Objs /\ d # s
              /\ live' = live \cup {d}
              /\ Upd(d, IF Bug = "keepflag" /\ d \in live THEN [g[s] EXCEPT !.cacheT = g[d].cacheT, !.cacheD = g[d].cacheD]
                        ELSE g[s])
              /\ last' = <<"copy", s, d>> /\ res' = <<0, "-">>

Next == \E o \in Objs :
          \/ \E n \in NodesC : AddNode(o, n) \/ DelNode(o, n) \/ SetRoot(o, n)
          \/ \E a, b \in NodesC : AddEdge(o, a, b) \/ DelEdge(o, a, b)
          \/ QTree(o) \/ QDag(o)
          \/ \E d \in Objs : Copy(o, d)
Spec == Init /\ [][Next]_vars

\* ------------------------------------------------------------------ the property
ValidExact == /\ res[2] \in {"T", "F"} => (res[2] = "T") = IsTreeC(g[res[1]])
              /\ res[2] \in {"DT", "DF"} => (g[res[1]].nodes # {} => (res[2] = "DT") = IsDagC(g[res[1]]))
CacheSound == \A o \in live : (g[o].cacheT => IsTreeC(g[o])) /\ (g[o].cacheD => (g[o].nodes # {} => IsDagC(g[o])))
Graph(x) == <<x.nodes, x.edges, x.root>>
\* a step of container o (edit or query) leaves every other container as it was
CopyIndependent == [][\A o \in Objs : last'[1] \in {"edit", "qtree", "qdag"} /\ last'[2] = o =>
                         \A p \in Objs \ {o} : Graph(g'[p]) = Graph(g[p])]_vars
\* right after the copy, source and copy are the same graph and the source did not change
CopyEqual == [][last'[1] = "copy" => /\ Graph(g'[last'[3]]) = Graph(g'[last'[2]])
                                      /\ Graph(g'[last'[2]]) = Graph(g[last'[2]])]_vars
=============================================================================
