---- MODULE TreeTrace_TTrace_1790491193 ----
EXTENDS Sequences, TLCExt, Toolbox, TreeTrace, Naturals, TLC

_expression ==
    LET TreeTrace_TEExpression == INSTANCE TreeTrace_TEExpression
    IN TreeTrace_TEExpression!expression
----

_trace ==
    LET TreeTrace_TETrace == INSTANCE TreeTrace_TETrace
    IN TreeTrace_TETrace!trace
----

_inv ==
    ~(
        TLCGet("level") = Len(_TETrace)
        /\
        valid = (FALSE)
        /\
        op = (<<"-", 0>>)
        /\
        res = ("T")
        /\
        directed = (FALSE)
        /\
        cache = (FALSE)
        /\
        nodes = ({0, 1, 2})
        /\
        nextN = (3)
        /\
        root = (0)
        /\
        edges = ((0 :> <<1, 0>>))
        /\
        l = (152)
        /\
        eObj = (<<>>)
        /\
        nextE = (1)
    )
----

_init ==
    /\ valid = _TETrace[1].valid
    /\ root = _TETrace[1].root
    /\ op = _TETrace[1].op
    /\ l = _TETrace[1].l
    /\ nodes = _TETrace[1].nodes
    /\ directed = _TETrace[1].directed
    /\ res = _TETrace[1].res
    /\ eObj = _TETrace[1].eObj
    /\ edges = _TETrace[1].edges
    /\ nextE = _TETrace[1].nextE
    /\ nextN = _TETrace[1].nextN
    /\ cache = _TETrace[1].cache
----

_next ==
    /\ \E i,j \in DOMAIN _TETrace:
        /\ \/ /\ j = i + 1
              /\ i = TLCGet("level")
        /\ valid  = _TETrace[i].valid
        /\ valid' = _TETrace[j].valid
        /\ root  = _TETrace[i].root
        /\ root' = _TETrace[j].root
        /\ op  = _TETrace[i].op
        /\ op' = _TETrace[j].op
        /\ l  = _TETrace[i].l
        /\ l' = _TETrace[j].l
        /\ nodes  = _TETrace[i].nodes
        /\ nodes' = _TETrace[j].nodes
        /\ directed  = _TETrace[i].directed
        /\ directed' = _TETrace[j].directed
        /\ res  = _TETrace[i].res
        /\ res' = _TETrace[j].res
        /\ eObj  = _TETrace[i].eObj
        /\ eObj' = _TETrace[j].eObj
        /\ edges  = _TETrace[i].edges
        /\ edges' = _TETrace[j].edges
        /\ nextE  = _TETrace[i].nextE
        /\ nextE' = _TETrace[j].nextE
        /\ nextN  = _TETrace[i].nextN
        /\ nextN' = _TETrace[j].nextN
        /\ cache  = _TETrace[i].cache
        /\ cache' = _TETrace[j].cache

\* Uncomment the ASSUME below to write the states of the error trace
\* to the given file in Json format. Note that you can pass any tuple
\* to `JsonSerialize`. For example, a sub-sequence of _TETrace.
    \* ASSUME
    \*     LET J == INSTANCE Json
    \*         IN J!JsonSerialize("TreeTrace_TTrace_1790491193.json", _TETrace)

=============================================================================

 Note that you can extract this module `TreeTrace_TEExpression`
  to a dedicated file to reuse `expression` (the module in the 
  dedicated `TreeTrace_TEExpression.tla` file takes precedence 
  over the module `TreeTrace_TEExpression` below).

---- MODULE TreeTrace_TEExpression ----
EXTENDS Sequences, TLCExt, Toolbox, TreeTrace, Naturals, TLC

expression == 
    [
        \* To hide variables of the `TreeTrace` spec from the error trace,
        \* remove the variables below.  The trace will be written in the order
        \* of the fields of this record.
        valid |-> valid
        ,root |-> root
        ,op |-> op
        ,l |-> l
        ,nodes |-> nodes
        ,directed |-> directed
        ,res |-> res
        ,eObj |-> eObj
        ,edges |-> edges
        ,nextE |-> nextE
        ,nextN |-> nextN
        ,cache |-> cache
        
        \* Put additional constant-, state-, and action-level expressions here:
        \* ,_stateNumber |-> _TEPosition
        \* ,_validUnchanged |-> valid = valid'
        
        \* Format the `valid` variable as Json value.
        \* ,_validJson |->
        \*     LET J == INSTANCE Json
        \*     IN J!ToJson(valid)
        
        \* Lastly, you may build expressions over arbitrary sets of states by
        \* leveraging the _TETrace operator.  For example, this is how to
        \* count the number of times a spec variable changed up to the current
        \* state in the trace.
        \* ,_validModCount |->
        \*     LET F[s \in DOMAIN _TETrace] ==
        \*         IF s = 1 THEN 0
        \*         ELSE IF _TETrace[s].valid # _TETrace[s-1].valid
        \*             THEN 1 + F[s-1] ELSE F[s-1]
        \*     IN F[_TEPosition - 1]
    ]

=============================================================================



Parsing and semantic processing can take forever if the trace below is long.
 In this case, it is advised to uncomment the module below to deserialize the
 trace from a generated binary file.

\*
\*---- MODULE TreeTrace_TETrace ----
\*EXTENDS IOUtils, TreeTrace, TLC
\*
\*trace == IODeserialize("TreeTrace_TTrace_1790491193.bin", TRUE)
\*
\*=============================================================================
\*

---- MODULE TreeTrace_TETrace ----
EXTENDS TreeTrace, TLC

trace == 
    <<
    ([valid |-> FALSE,op |-> <<"-", 0>>,res |-> "ok",directed |-> TRUE,cache |-> FALSE,nodes |-> {},nextN |-> 0,root |-> 0,edges |-> <<>>,l |-> 1,eObj |-> <<>>,nextE |-> 0]),
    ([valid |-> FALSE,op |-> <<"-", 0>>,res |-> "ok",directed |-> FALSE,cache |-> FALSE,nodes |-> {},nextN |-> 0,root |-> 0,edges |-> <<>>,l |-> 2,eObj |-> <<>>,nextE |-> 0]),
    ([valid |-> TRUE,op |-> <<"-", 0>>,res |-> "ok",directed |-> FALSE,cache |-> FALSE,nodes |-> {0},nextN |-> 1,root |-> 0,edges |-> <<>>,l |-> 3,eObj |-> <<>>,nextE |-> 0]),
    ([valid |-> FALSE,op |-> <<"-", 0>>,res |-> "ok",directed |-> FALSE,cache |-> FALSE,nodes |-> {0, 1},nextN |-> 2,root |-> 0,edges |-> <<>>,l |-> 4,eObj |-> <<>>,nextE |-> 0]),
    ([valid |-> TRUE,op |-> <<"AddSon", 0>>,res |-> "ok",directed |-> FALSE,cache |-> FALSE,nodes |-> {0, 1},nextN |-> 2,root |-> 0,edges |-> (0 :> <<1, 0>>),l |-> 5,eObj |-> <<>>,nextE |-> 1]),
    ([valid |-> TRUE,op |-> <<"-", 0>>,res |-> "ok",directed |-> FALSE,cache |-> FALSE,nodes |-> {0, 1},nextN |-> 2,root |-> 1,edges |-> (0 :> <<1, 0>>),l |-> 6,eObj |-> <<>>,nextE |-> 1]),
    ([valid |-> TRUE,op |-> <<"-", 0>>,res |-> "raise",directed |-> FALSE,cache |-> FALSE,nodes |-> {0, 1},nextN |-> 2,root |-> 1,edges |-> (0 :> <<1, 0>>),l |-> 7,eObj |-> <<>>,nextE |-> 1]),
    ([valid |-> TRUE,op |-> <<"-", 0>>,res |-> "raise",directed |-> FALSE,cache |-> FALSE,nodes |-> {0, 1},nextN |-> 2,root |-> 1,edges |-> (0 :> <<1, 0>>),l |-> 8,eObj |-> <<>>,nextE |-> 1]),
    ([valid |-> TRUE,op |-> <<"-", 0>>,res |-> "ok",directed |-> FALSE,cache |-> FALSE,nodes |-> {0, 1},nextN |-> 2,root |-> 1,edges |-> (0 :> <<1, 0>>),l |-> 9,eObj |-> <<>>,nextE |-> 1]),
    ([valid |-> TRUE,op |-> <<"-", 0>>,res |-> "T",directed |-> FALSE,cache |-> TRUE,nodes |-> {0, 1},nextN |-> 2,root |-> 1,edges |-> (0 :> <<1, 0>>),l |-> 10,eObj |-> <<>>,nextE |-> 1]),
    ([valid |-> TRUE,op |-> <<"-", 0>>,res |-> "ok",directed |-> FALSE,cache |-> FALSE,nodes |-> {0, 1},nextN |-> 2,root |-> 1,edges |-> (0 :> <<1, 0>>),l |-> 11,eObj |-> <<>>,nextE |-> 1]),
    ([valid |-> TRUE,op |-> <<"-", 0>>,res |-> "T",directed |-> FALSE,cache |-> TRUE,nodes |-> {0, 1},nextN |-> 2,root |-> 1,edges |-> (0 :> <<1, 0>>),l |-> 12,eObj |-> <<>>,nextE |-> 1]),
    ([valid |-> TRUE,op |-> <<"RootAt", 0>>,res |-> "ok",directed |-> TRUE,cache |-> FALSE,nodes |-> {0, 1},nextN |-> 2,root |-> 1,edges |-> (0 :> <<1, 0>>),l |-> 13,eObj |-> <<>>,nextE |-> 1]),
    ([valid |-> TRUE,op |-> <<"-", 0>>,res |-> "T",directed |-> TRUE,cache |-> TRUE,nodes |-> {0, 1},nextN |-> 2,root |-> 1,edges |-> (0 :> <<1, 0>>),l |-> 14,eObj |-> <<>>,nextE |-> 1]),
    ([valid |-> TRUE,op |-> <<"-", 0>>,res |-> "raise",directed |-> TRUE,cache |-> TRUE,nodes |-> {0, 1},nextN |-> 2,root |-> 1,edges |-> (0 :> <<1, 0>>),l |-> 15,eObj |-> <<>>,nextE |-> 1]),
    ([valid |-> TRUE,op |-> <<"-", 0>>,res |-> "ok",directed |-> TRUE,cache |-> TRUE,nodes |-> {0, 1},nextN |-> 2,root |-> 1,edges |-> (0 :> <<1, 0>>),l |-> 16,eObj |-> <<>>,nextE |-> 1]),
    ([valid |-> TRUE,op |-> <<"-", 0>>,res |-> "ok",directed |-> TRUE,cache |-> TRUE,nodes |-> {0, 1},nextN |-> 2,root |-> 1,edges |-> (0 :> <<1, 0>>),l |-> 17,eObj |-> <<>>,nextE |-> 1]),
    ([valid |-> TRUE,op |-> <<"-", 0>>,res |-> "ok",directed |-> TRUE,cache |-> TRUE,nodes |-> {0, 1},nextN |-> 2,root |-> 1,edges |-> (0 :> <<1, 0>>),l |-> 18,eObj |-> <<>>,nextE |-> 1]),
    ([valid |-> TRUE,op |-> <<"-", 0>>,res |-> "ok",directed |-> TRUE,cache |-> TRUE,nodes |-> {0, 1},nextN |-> 2,root |-> 1,edges |-> (0 :> <<1, 0>>),l |-> 19,eObj |-> <<>>,nextE |-> 1]),
    ([valid |-> TRUE,op |-> <<"-", 0>>,res |-> "ok",directed |-> TRUE,cache |-> TRUE,nodes |-> {0, 1},nextN |-> 2,root |-> 1,edges |-> (0 :> <<1, 0>>),l |-> 20,eObj |-> <<>>,nextE |-> 1]),
    ([valid |-> TRUE,op |-> <<"-", 0>>,res |-> "ok",directed |-> TRUE,cache |-> TRUE,nodes |-> {0, 1},nextN |-> 2,root |-> 1,edges |-> (0 :> <<1, 0>>),l |-> 21,eObj |-> <<>>,nextE |-> 1]),
    ([valid |-> TRUE,op |-> <<"-", 0>>,res |-> "ok",directed |-> TRUE,cache |-> TRUE,nodes |-> {0, 1},nextN |-> 2,root |-> 1,edges |-> (0 :> <<1, 0>>),l |-> 22,eObj |-> <<>>,nextE |-> 1]),
    ([valid |-> FALSE,op |-> <<"AddSon", 2>>,res |-> "ok",directed |-> TRUE,cache |-> FALSE,nodes |-> {0, 1},nextN |-> 2,root |-> 1,edges |-> (0 :> <<1, 0>> @@ 1 :> <<1, 1>>),l |-> 23,eObj |-> <<2>>,nextE |-> 2]),
    ([valid |-> FALSE,op |-> <<"-", 0>>,res |-> "ok",directed |-> TRUE,cache |-> FALSE,nodes |-> {0, 1, 2},nextN |-> 3,root |-> 1,edges |-> (0 :> <<1, 0>> @@ 1 :> <<1, 1>>),l |-> 24,eObj |-> <<2>>,nextE |-> 2]),
    ([valid |-> FALSE,op |-> <<"-", 0>>,res |-> "ok",directed |-> TRUE,cache |-> FALSE,nodes |-> {0, 2},nextN |-> 3,root |-> 1,edges |-> <<>>,l |-> 25,eObj |-> <<>>,nextE |-> 2]),
    ([valid |-> FALSE,op |-> <<"-", 0>>,res |-> "F",directed |-> TRUE,cache |-> FALSE,nodes |-> {0, 2},nextN |-> 3,root |-> 1,edges |-> <<>>,l |-> 26,eObj |-> <<>>,nextE |-> 2]),
    ([valid |-> FALSE,op |-> <<"-", 0>>,res |-> "ok",directed |-> FALSE,cache |-> FALSE,nodes |-> {0, 2},nextN |-> 3,root |-> 1,edges |-> <<>>,l |-> 27,eObj |-> <<>>,nextE |-> 2]),
    ([valid |-> FALSE,op |-> <<"-", 0>>,res |-> "F",directed |-> FALSE,cache |-> FALSE,nodes |-> {0, 2},nextN |-> 3,root |-> 1,edges |-> <<>>,l |-> 28,eObj |-> <<>>,nextE |-> 2]),
    ([valid |-> FALSE,op |-> <<"-", 0>>,res |-> "raise",directed |-> FALSE,cache |-> FALSE,nodes |-> {0, 2},nextN |-> 3,root |-> 1,edges |-> <<>>,l |-> 29,eObj |-> <<>>,nextE |-> 2]),
    ([valid |-> FALSE,op |-> <<"AddSon", 0>>,res |-> "ok",directed |-> FALSE,cache |-> FALSE,nodes |-> {0, 2},nextN |-> 3,root |-> 1,edges |-> (2 :> <<2, 0>>),l |-> 30,eObj |-> <<>>,nextE |-> 3]),
    ([valid |-> FALSE,op |-> <<"-", 0>>,res |-> "ok",directed |-> FALSE,cache |-> FALSE,nodes |-> {0, 2, 3},nextN |-> 4,root |-> 1,edges |-> (2 :> <<2, 0>>),l |-> 31,eObj |-> <<>>,nextE |-> 3]),
    ([valid |-> FALSE,op |-> <<"-", 0>>,res |-> "ok",directed |-> FALSE,cache |-> FALSE,nodes |-> {0, 2, 3},nextN |-> 4,root |-> 3,edges |-> (2 :> <<2, 0>>),l |-> 32,eObj |-> <<>>,nextE |-> 3]),
    ([valid |-> FALSE,op |-> <<"-", 0>>,res |-> "raise",directed |-> FALSE,cache |-> FALSE,nodes |-> {0, 2, 3},nextN |-> 4,root |-> 3,edges |-> (2 :> <<2, 0>>),l |-> 33,eObj |-> <<>>,nextE |-> 3]),
    ([valid |-> FALSE,op |-> <<"-", 0>>,res |-> "F",directed |-> FALSE,cache |-> FALSE,nodes |-> {0, 2, 3},nextN |-> 4,root |-> 3,edges |-> (2 :> <<2, 0>>),l |-> 34,eObj |-> <<>>,nextE |-> 3]),
    ([valid |-> FALSE,op |-> <<"-", 0>>,res |-> "raise",directed |-> FALSE,cache |-> FALSE,nodes |-> {0, 2, 3},nextN |-> 4,root |-> 3,edges |-> (2 :> <<2, 0>>),l |-> 35,eObj |-> <<>>,nextE |-> 3]),
    ([valid |-> FALSE,op |-> <<"-", 0>>,res |-> "F",directed |-> FALSE,cache |-> FALSE,nodes |-> {0, 2, 3},nextN |-> 4,root |-> 3,edges |-> (2 :> <<2, 0>>),l |-> 36,eObj |-> <<>>,nextE |-> 3]),
    ([valid |-> FALSE,op |-> <<"-", 0>>,res |-> "raise",directed |-> FALSE,cache |-> FALSE,nodes |-> {0, 2, 3},nextN |-> 4,root |-> 3,edges |-> (2 :> <<2, 0>>),l |-> 37,eObj |-> <<>>,nextE |-> 3]),
    ([valid |-> FALSE,op |-> <<"-", 0>>,res |-> "F",directed |-> FALSE,cache |-> FALSE,nodes |-> {0, 2, 3},nextN |-> 4,root |-> 3,edges |-> (2 :> <<2, 0>>),l |-> 38,eObj |-> <<>>,nextE |-> 3]),
    ([valid |-> FALSE,op |-> <<"-", 0>>,res |-> "raise",directed |-> FALSE,cache |-> FALSE,nodes |-> {0, 2, 3},nextN |-> 4,root |-> 3,edges |-> (2 :> <<2, 0>>),l |-> 39,eObj |-> <<>>,nextE |-> 3]),
    ([valid |-> FALSE,op |-> <<"-", 0>>,res |-> "F",directed |-> FALSE,cache |-> FALSE,nodes |-> {0, 2, 3},nextN |-> 4,root |-> 3,edges |-> (2 :> <<2, 0>>),l |-> 40,eObj |-> <<>>,nextE |-> 3]),
    ([valid |-> FALSE,op |-> <<"-", 0>>,res |-> "raise",directed |-> FALSE,cache |-> FALSE,nodes |-> {0, 2, 3},nextN |-> 4,root |-> 3,edges |-> (2 :> <<2, 0>>),l |-> 41,eObj |-> <<>>,nextE |-> 3]),
    ([valid |-> FALSE,op |-> <<"-", 0>>,res |-> "ok",directed |-> FALSE,cache |-> FALSE,nodes |-> {0, 2, 3, 4},nextN |-> 5,root |-> 3,edges |-> (2 :> <<2, 0>>),l |-> 42,eObj |-> <<>>,nextE |-> 3]),
    ([valid |-> FALSE,op |-> <<"-", 0>>,res |-> "raise",directed |-> FALSE,cache |-> FALSE,nodes |-> {0, 2, 3, 4},nextN |-> 5,root |-> 3,edges |-> (2 :> <<2, 0>>),l |-> 43,eObj |-> <<>>,nextE |-> 3]),
    ([valid |-> FALSE,op |-> <<"-", 0>>,res |-> "raise",directed |-> FALSE,cache |-> FALSE,nodes |-> {0, 2, 3, 4},nextN |-> 5,root |-> 3,edges |-> (2 :> <<2, 0>>),l |-> 44,eObj |-> <<>>,nextE |-> 3]),
    ([valid |-> FALSE,op |-> <<"-", 0>>,res |-> "raise",directed |-> FALSE,cache |-> FALSE,nodes |-> {0, 2, 3, 4},nextN |-> 5,root |-> 3,edges |-> (2 :> <<2, 0>>),l |-> 45,eObj |-> <<>>,nextE |-> 3]),
    ([valid |-> FALSE,op |-> <<"-", 0>>,res |-> "ok",directed |-> FALSE,cache |-> FALSE,nodes |-> {0, 2, 3, 4, 5},nextN |-> 6,root |-> 3,edges |-> (2 :> <<2, 0>>),l |-> 46,eObj |-> <<>>,nextE |-> 3]),
    ([valid |-> FALSE,op |-> <<"-", 0>>,res |-> "raise",directed |-> FALSE,cache |-> FALSE,nodes |-> {0, 2, 3, 4, 5},nextN |-> 6,root |-> 3,edges |-> (2 :> <<2, 0>>),l |-> 47,eObj |-> <<>>,nextE |-> 3]),
    ([valid |-> FALSE,op |-> <<"-", 0>>,res |-> "F",directed |-> FALSE,cache |-> FALSE,nodes |-> {0, 2, 3, 4, 5},nextN |-> 6,root |-> 3,edges |-> (2 :> <<2, 0>>),l |-> 48,eObj |-> <<>>,nextE |-> 3]),
    ([valid |-> FALSE,op |-> <<"-", 0>>,res |-> "ok",directed |-> TRUE,cache |-> FALSE,nodes |-> {},nextN |-> 0,root |-> 0,edges |-> <<>>,l |-> 49,eObj |-> <<>>,nextE |-> 0]),
    ([valid |-> TRUE,op |-> <<"-", 0>>,res |-> "ok",directed |-> TRUE,cache |-> FALSE,nodes |-> {0},nextN |-> 1,root |-> 0,edges |-> <<>>,l |-> 50,eObj |-> <<>>,nextE |-> 0]),
    ([valid |-> FALSE,op |-> <<"-", 0>>,res |-> "ok",directed |-> TRUE,cache |-> FALSE,nodes |-> {0, 1},nextN |-> 2,root |-> 0,edges |-> <<>>,l |-> 51,eObj |-> <<>>,nextE |-> 0]),
    ([valid |-> FALSE,op |-> <<"-", 0>>,res |-> "ok",directed |-> TRUE,cache |-> FALSE,nodes |-> {0, 1, 2},nextN |-> 3,root |-> 0,edges |-> <<>>,l |-> 52,eObj |-> <<>>,nextE |-> 0]),
    ([valid |-> FALSE,op |-> <<"-", 0>>,res |-> "ok",directed |-> TRUE,cache |-> FALSE,nodes |-> {0, 1, 2, 3},nextN |-> 4,root |-> 0,edges |-> <<>>,l |-> 53,eObj |-> <<>>,nextE |-> 0]),
    ([valid |-> FALSE,op |-> <<"AddSon", 0>>,res |-> "ok",directed |-> TRUE,cache |-> FALSE,nodes |-> {0, 1, 2, 3},nextN |-> 4,root |-> 0,edges |-> (0 :> <<1, 0>>),l |-> 54,eObj |-> <<>>,nextE |-> 1]),
    ([valid |-> FALSE,op |-> <<"SetFather", 1>>,res |-> "ok",directed |-> TRUE,cache |-> FALSE,nodes |-> {0, 1, 2, 3},nextN |-> 4,root |-> 0,edges |-> (0 :> <<1, 0>> @@ 1 :> <<1, 3>>),l |-> 55,eObj |-> <<1>>,nextE |-> 2]),
    ([valid |-> FALSE,op |-> <<"AddSon", 0>>,res |-> "ok",directed |-> TRUE,cache |-> FALSE,nodes |-> {0, 1, 2, 3},nextN |-> 4,root |-> 0,edges |-> (0 :> <<1, 0>> @@ 1 :> <<1, 3>> @@ 2 :> <<1, 2>>),l |-> 56,eObj |-> <<1>>,nextE |-> 3]),
    ([valid |-> TRUE,op |-> <<"-", 0>>,res |-> "ok",directed |-> TRUE,cache |-> FALSE,nodes |-> {0, 1, 2, 3},nextN |-> 4,root |-> 1,edges |-> (0 :> <<1, 0>> @@ 1 :> <<1, 3>> @@ 2 :> <<1, 2>>),l |-> 57,eObj |-> <<1>>,nextE |-> 3]),
    ([valid |-> TRUE,op |-> <<"SetFather", 2>>,res |-> "ok",directed |-> TRUE,cache |-> FALSE,nodes |-> {0, 1, 2, 3},nextN |-> 4,root |-> 1,edges |-> (0 :> <<1, 0>> @@ 1 :> <<1, 3>> @@ 3 :> <<1, 2>>),l |-> 58,eObj |-> (1 :> 1 @@ 3 :> 2),nextE |-> 4]),
    ([valid |-> TRUE,op |-> <<"RootAt", 0>>,res |-> "ok",directed |-> TRUE,cache |-> FALSE,nodes |-> {0, 1, 2, 3},nextN |-> 4,root |-> 3,edges |-> (0 :> <<1, 0>> @@ 1 :> <<3, 1>> @@ 3 :> <<1, 2>>),l |-> 59,eObj |-> (1 :> 1 @@ 3 :> 2),nextE |-> 4]),
    ([valid |-> FALSE,op |-> <<"AddSon", 0>>,res |-> "ok",directed |-> TRUE,cache |-> FALSE,nodes |-> {0, 1, 2, 3},nextN |-> 4,root |-> 3,edges |-> (0 :> <<1, 0>> @@ 1 :> <<3, 1>> @@ 3 :> <<1, 2>> @@ 4 :> <<0, 3>>),l |-> 60,eObj |-> (1 :> 1 @@ 3 :> 2),nextE |-> 5]),
    ([valid |-> FALSE,op |-> <<"-", 0>>,res |-> "ok",directed |-> TRUE,cache |-> FALSE,nodes |-> {0, 1, 2, 3},nextN |-> 4,root |-> 2,edges |-> (0 :> <<1, 0>> @@ 1 :> <<3, 1>> @@ 3 :> <<1, 2>> @@ 4 :> <<0, 3>>),l |-> 61,eObj |-> (1 :> 1 @@ 3 :> 2),nextE |-> 5]),
    ([valid |-> FALSE,op |-> <<"-", 0>>,res |-> "ok",directed |-> TRUE,cache |-> FALSE,nodes |-> {0, 1, 2, 3},nextN |-> 4,root |-> 2,edges |-> (0 :> <<1, 0>> @@ 1 :> <<3, 1>> @@ 3 :> <<1, 2>> @@ 4 :> <<0, 3>>),l |-> 62,eObj |-> (1 :> 1 @@ 3 :> 2),nextE |-> 5]),
    ([valid |-> FALSE,op |-> <<"-", 0>>,res |-> "F",directed |-> TRUE,cache |-> FALSE,nodes |-> {0, 1, 2, 3},nextN |-> 4,root |-> 2,edges |-> (0 :> <<1, 0>> @@ 1 :> <<3, 1>> @@ 3 :> <<1, 2>> @@ 4 :> <<0, 3>>),l |-> 63,eObj |-> (1 :> 1 @@ 3 :> 2),nextE |-> 5]),
    ([valid |-> FALSE,op |-> <<"-", 0>>,res |-> "F",directed |-> TRUE,cache |-> FALSE,nodes |-> {0, 1, 2, 3},nextN |-> 4,root |-> 2,edges |-> (0 :> <<1, 0>> @@ 1 :> <<3, 1>> @@ 3 :> <<1, 2>> @@ 4 :> <<0, 3>>),l |-> 64,eObj |-> (1 :> 1 @@ 3 :> 2),nextE |-> 5]),
    ([valid |-> FALSE,op |-> <<"-", 0>>,res |-> "F",directed |-> TRUE,cache |-> FALSE,nodes |-> {0, 1, 2, 3},nextN |-> 4,root |-> 2,edges |-> (0 :> <<1, 0>> @@ 1 :> <<3, 1>> @@ 3 :> <<1, 2>> @@ 4 :> <<0, 3>>),l |-> 65,eObj |-> (1 :> 1 @@ 3 :> 2),nextE |-> 5]),
    ([valid |-> FALSE,op |-> <<"-", 0>>,res |-> "F",directed |-> TRUE,cache |-> FALSE,nodes |-> {0, 1, 2, 3},nextN |-> 4,root |-> 2,edges |-> (0 :> <<1, 0>> @@ 1 :> <<3, 1>> @@ 3 :> <<1, 2>> @@ 4 :> <<0, 3>>),l |-> 66,eObj |-> (1 :> 1 @@ 3 :> 2),nextE |-> 5]),
    ([valid |-> FALSE,op |-> <<"-", 0>>,res |-> "ok",directed |-> TRUE,cache |-> FALSE,nodes |-> {0, 1, 2, 3, 4},nextN |-> 5,root |-> 2,edges |-> (0 :> <<1, 0>> @@ 1 :> <<3, 1>> @@ 3 :> <<1, 2>> @@ 4 :> <<0, 3>>),l |-> 67,eObj |-> (1 :> 1 @@ 3 :> 2),nextE |-> 5]),
    ([valid |-> FALSE,op |-> <<"SetFather", 0>>,res |-> "ok",directed |-> TRUE,cache |-> FALSE,nodes |-> {0, 1, 2, 3, 4},nextN |-> 5,root |-> 2,edges |-> (0 :> <<1, 0>> @@ 1 :> <<3, 1>> @@ 3 :> <<1, 2>> @@ 5 :> <<4, 3>>),l |-> 68,eObj |-> (1 :> 1 @@ 3 :> 2),nextE |-> 6]),
    ([valid |-> FALSE,op |-> <<"-", 0>>,res |-> "ok",directed |-> TRUE,cache |-> FALSE,nodes |-> {0, 1, 2, 3, 4},nextN |-> 5,root |-> 2,edges |-> (0 :> <<1, 0>> @@ 1 :> <<3, 1>> @@ 3 :> <<1, 2>> @@ 5 :> <<4, 3>>),l |-> 69,eObj |-> (1 :> 1 @@ 3 :> 2),nextE |-> 6]),
    ([valid |-> FALSE,op |-> <<"-", 0>>,res |-> "raise",directed |-> TRUE,cache |-> FALSE,nodes |-> {0, 1, 2, 3, 4},nextN |-> 5,root |-> 2,edges |-> (0 :> <<1, 0>> @@ 1 :> <<3, 1>> @@ 3 :> <<1, 2>> @@ 5 :> <<4, 3>>),l |-> 70,eObj |-> (1 :> 1 @@ 3 :> 2),nextE |-> 6]),
    ([valid |-> FALSE,op |-> <<"-", 0>>,res |-> "raise",directed |-> TRUE,cache |-> FALSE,nodes |-> {0, 1, 2, 3, 4},nextN |-> 5,root |-> 2,edges |-> (0 :> <<1, 0>> @@ 1 :> <<3, 1>> @@ 3 :> <<1, 2>> @@ 5 :> <<4, 3>>),l |-> 71,eObj |-> (1 :> 1 @@ 3 :> 2),nextE |-> 6]),
    ([valid |-> FALSE,op |-> <<"-", 0>>,res |-> "ok",directed |-> TRUE,cache |-> FALSE,nodes |-> {0, 1, 2, 4},nextN |-> 5,root |-> 2,edges |-> (0 :> <<1, 0>> @@ 3 :> <<1, 2>>),l |-> 72,eObj |-> (3 :> 2),nextE |-> 6]),
    ([valid |-> FALSE,op |-> <<"-", 0>>,res |-> "raise",directed |-> TRUE,cache |-> FALSE,nodes |-> {0, 1, 2, 4},nextN |-> 5,root |-> 2,edges |-> (0 :> <<1, 0>> @@ 3 :> <<1, 2>>),l |-> 73,eObj |-> (3 :> 2),nextE |-> 6]),
    ([valid |-> FALSE,op |-> <<"SetFather", 0>>,res |-> "ok",directed |-> TRUE,cache |-> FALSE,nodes |-> {0, 1, 2, 4},nextN |-> 5,root |-> 2,edges |-> (0 :> <<1, 0>> @@ 3 :> <<1, 2>> @@ 6 :> <<4, 4>>),l |-> 74,eObj |-> (3 :> 2),nextE |-> 7]),
    ([valid |-> FALSE,op |-> <<"-", 0>>,res |-> "ok",directed |-> FALSE,cache |-> FALSE,nodes |-> {0, 1, 2, 4},nextN |-> 5,root |-> 2,edges |-> (0 :> <<1, 0>> @@ 3 :> <<1, 2>> @@ 6 :> <<4, 4>>),l |-> 75,eObj |-> (3 :> 2),nextE |-> 7]),
    ([valid |-> FALSE,op |-> <<"-", 0>>,res |-> "ok",directed |-> FALSE,cache |-> FALSE,nodes |-> {0, 1, 2, 4},nextN |-> 5,root |-> 2,edges |-> (0 :> <<1, 0>> @@ 3 :> <<1, 2>> @@ 6 :> <<4, 4>>),l |-> 76,eObj |-> (3 :> 2),nextE |-> 7]),
    ([valid |-> FALSE,op |-> <<"-", 0>>,res |-> "ok",directed |-> FALSE,cache |-> FALSE,nodes |-> {0, 1, 2, 4},nextN |-> 5,root |-> 2,edges |-> (0 :> <<1, 0>> @@ 3 :> <<1, 2>> @@ 6 :> <<4, 4>>),l |-> 77,eObj |-> (3 :> 2),nextE |-> 7]),
    ([valid |-> FALSE,op |-> <<"-", 0>>,res |-> "ok",directed |-> FALSE,cache |-> FALSE,nodes |-> {0, 1, 2, 4},nextN |-> 5,root |-> 2,edges |-> (0 :> <<1, 0>> @@ 3 :> <<1, 2>>),l |-> 78,eObj |-> (3 :> 2),nextE |-> 7]),
    ([valid |-> FALSE,op |-> <<"-", 0>>,res |-> "ok",directed |-> FALSE,cache |-> FALSE,nodes |-> {0, 1, 2, 4, 5},nextN |-> 6,root |-> 2,edges |-> (0 :> <<1, 0>> @@ 3 :> <<1, 2>>),l |-> 79,eObj |-> (3 :> 2),nextE |-> 7]),
    ([valid |-> FALSE,op |-> <<"-", 0>>,res |-> "F",directed |-> FALSE,cache |-> FALSE,nodes |-> {0, 1, 2, 4, 5},nextN |-> 6,root |-> 2,edges |-> (0 :> <<1, 0>> @@ 3 :> <<1, 2>>),l |-> 80,eObj |-> (3 :> 2),nextE |-> 7]),
    ([valid |-> FALSE,op |-> <<"AddSon", 0>>,res |-> "ok",directed |-> FALSE,cache |-> FALSE,nodes |-> {0, 1, 2, 4, 5},nextN |-> 6,root |-> 2,edges |-> (0 :> <<1, 0>> @@ 3 :> <<1, 2>> @@ 7 :> <<2, 5>>),l |-> 81,eObj |-> (3 :> 2),nextE |-> 8]),
    ([valid |-> FALSE,op |-> <<"-", 0>>,res |-> "F",directed |-> FALSE,cache |-> FALSE,nodes |-> {0, 1, 2, 4, 5},nextN |-> 6,root |-> 2,edges |-> (0 :> <<1, 0>> @@ 3 :> <<1, 2>> @@ 7 :> <<2, 5>>),l |-> 82,eObj |-> (3 :> 2),nextE |-> 8]),
    ([valid |-> TRUE,op |-> <<"AddSon", 0>>,res |-> "ok",directed |-> FALSE,cache |-> FALSE,nodes |-> {0, 1, 2, 4, 5},nextN |-> 6,root |-> 2,edges |-> (0 :> <<1, 0>> @@ 3 :> <<1, 2>> @@ 7 :> <<2, 5>> @@ 8 :> <<5, 4>>),l |-> 83,eObj |-> (3 :> 2),nextE |-> 9]),
    ([valid |-> TRUE,op |-> <<"RootAt", 0>>,res |-> "ok",directed |-> TRUE,cache |-> FALSE,nodes |-> {0, 1, 2, 4, 5},nextN |-> 6,root |-> 1,edges |-> (0 :> <<1, 0>> @@ 3 :> <<1, 2>> @@ 7 :> <<2, 5>> @@ 8 :> <<5, 4>>),l |-> 84,eObj |-> (3 :> 2),nextE |-> 9]),
    ([valid |-> TRUE,op |-> <<"-", 0>>,res |-> "ok",directed |-> TRUE,cache |-> FALSE,nodes |-> {0, 1, 2, 4, 5},nextN |-> 6,root |-> 1,edges |-> (0 :> <<1, 0>> @@ 3 :> <<1, 2>> @@ 7 :> <<2, 5>> @@ 8 :> <<5, 4>>),l |-> 85,eObj |-> (3 :> 2),nextE |-> 9]),
    ([valid |-> TRUE,op |-> <<"-", 0>>,res |-> "ok",directed |-> TRUE,cache |-> FALSE,nodes |-> {0, 1, 2, 4, 5},nextN |-> 6,root |-> 1,edges |-> (0 :> <<1, 0>> @@ 3 :> <<1, 2>> @@ 7 :> <<2, 5>> @@ 8 :> <<5, 4>>),l |-> 86,eObj |-> (3 :> 2),nextE |-> 9]),
    ([valid |-> TRUE,op |-> <<"-", 0>>,res |-> "ok",directed |-> TRUE,cache |-> FALSE,nodes |-> {0, 1, 2, 4, 5},nextN |-> 6,root |-> 1,edges |-> (0 :> <<1, 0>> @@ 3 :> <<1, 2>> @@ 7 :> <<2, 5>> @@ 8 :> <<5, 4>>),l |-> 87,eObj |-> (3 :> 2),nextE |-> 9]),
    ([valid |-> TRUE,op |-> <<"-", 0>>,res |-> "ok",directed |-> TRUE,cache |-> FALSE,nodes |-> {0, 1, 2, 4, 5},nextN |-> 6,root |-> 1,edges |-> (0 :> <<1, 0>> @@ 3 :> <<1, 2>> @@ 7 :> <<2, 5>> @@ 8 :> <<5, 4>>),l |-> 88,eObj |-> (3 :> 2),nextE |-> 9]),
    ([valid |-> TRUE,op |-> <<"RootAt", 0>>,res |-> "ok",directed |-> TRUE,cache |-> FALSE,nodes |-> {0, 1, 2, 4, 5},nextN |-> 6,root |-> 5,edges |-> (0 :> <<1, 0>> @@ 3 :> <<2, 1>> @@ 7 :> <<5, 2>> @@ 8 :> <<5, 4>>),l |-> 89,eObj |-> (3 :> 2),nextE |-> 9]),
    ([valid |-> FALSE,op |-> <<"SetFather", 0>>,res |-> "ok",directed |-> TRUE,cache |-> FALSE,nodes |-> {0, 1, 2, 4, 5},nextN |-> 6,root |-> 5,edges |-> (0 :> <<1, 0>> @@ 7 :> <<5, 2>> @@ 8 :> <<5, 4>> @@ 9 :> <<1, 1>>),l |-> 90,eObj |-> <<>>,nextE |-> 10]),
    ([valid |-> FALSE,op |-> <<"-", 0>>,res |-> "ok",directed |-> FALSE,cache |-> FALSE,nodes |-> {0, 1, 2, 4, 5},nextN |-> 6,root |-> 5,edges |-> (0 :> <<1, 0>> @@ 7 :> <<5, 2>> @@ 8 :> <<5, 4>> @@ 9 :> <<1, 1>>),l |-> 91,eObj |-> <<>>,nextE |-> 10]),
    ([valid |-> FALSE,op |-> <<"-", 0>>,res |-> "raise",directed |-> FALSE,cache |-> FALSE,nodes |-> {0, 1, 2, 4, 5},nextN |-> 6,root |-> 5,edges |-> (0 :> <<1, 0>> @@ 7 :> <<5, 2>> @@ 8 :> <<5, 4>> @@ 9 :> <<1, 1>>),l |-> 92,eObj |-> <<>>,nextE |-> 10]),
    ([valid |-> FALSE,op |-> <<"-", 0>>,res |-> "ok",directed |-> FALSE,cache |-> FALSE,nodes |-> {0, 1, 2, 4, 5},nextN |-> 6,root |-> 5,edges |-> (0 :> <<1, 0>> @@ 7 :> <<5, 2>> @@ 8 :> <<5, 4>> @@ 9 :> <<1, 1>>),l |-> 93,eObj |-> <<>>,nextE |-> 10]),
    ([valid |-> FALSE,op |-> <<"-", 0>>,res |-> "raise",directed |-> FALSE,cache |-> FALSE,nodes |-> {0, 1, 2, 4, 5},nextN |-> 6,root |-> 5,edges |-> (0 :> <<1, 0>> @@ 7 :> <<5, 2>> @@ 8 :> <<5, 4>> @@ 9 :> <<1, 1>>),l |-> 94,eObj |-> <<>>,nextE |-> 10]),
    ([valid |-> FALSE,op |-> <<"AddSon", 0>>,res |-> "ok",directed |-> FALSE,cache |-> FALSE,nodes |-> {0, 1, 2, 4, 5},nextN |-> 6,root |-> 5,edges |-> (0 :> <<1, 0>> @@ 7 :> <<5, 2>> @@ 8 :> <<5, 4>> @@ 9 :> <<1, 1>> @@ 10 :> <<5, 0>>),l |-> 95,eObj |-> <<>>,nextE |-> 11]),
    ([valid |-> FALSE,op |-> <<"-", 0>>,res |-> "raise",directed |-> FALSE,cache |-> FALSE,nodes |-> {0, 1, 2, 4, 5},nextN |-> 6,root |-> 5,edges |-> (0 :> <<1, 0>> @@ 7 :> <<5, 2>> @@ 8 :> <<5, 4>> @@ 9 :> <<1, 1>> @@ 10 :> <<5, 0>>),l |-> 96,eObj |-> <<>>,nextE |-> 11]),
    ([valid |-> FALSE,op |-> <<"-", 0>>,res |-> "ok",directed |-> FALSE,cache |-> FALSE,nodes |-> {0, 1, 2, 4, 5},nextN |-> 6,root |-> 5,edges |-> (0 :> <<1, 0>> @@ 7 :> <<5, 2>> @@ 8 :> <<5, 4>> @@ 9 :> <<1, 1>> @@ 10 :> <<5, 0>>),l |-> 97,eObj |-> <<>>,nextE |-> 11]),
    ([valid |-> FALSE,op |-> <<"-", 0>>,res |-> "F",directed |-> FALSE,cache |-> FALSE,nodes |-> {0, 1, 2, 4, 5},nextN |-> 6,root |-> 5,edges |-> (0 :> <<1, 0>> @@ 7 :> <<5, 2>> @@ 8 :> <<5, 4>> @@ 9 :> <<1, 1>> @@ 10 :> <<5, 0>>),l |-> 98,eObj |-> <<>>,nextE |-> 11]),
    ([valid |-> FALSE,op |-> <<"-", 0>>,res |-> "ok",directed |-> TRUE,cache |-> FALSE,nodes |-> {},nextN |-> 0,root |-> 0,edges |-> <<>>,l |-> 99,eObj |-> <<>>,nextE |-> 0]),
    ([valid |-> TRUE,op |-> <<"-", 0>>,res |-> "ok",directed |-> TRUE,cache |-> FALSE,nodes |-> {0},nextN |-> 1,root |-> 0,edges |-> <<>>,l |-> 100,eObj |-> <<>>,nextE |-> 0]),
    ([valid |-> FALSE,op |-> <<"-", 0>>,res |-> "ok",directed |-> TRUE,cache |-> FALSE,nodes |-> {0, 1},nextN |-> 2,root |-> 0,edges |-> <<>>,l |-> 101,eObj |-> <<>>,nextE |-> 0]),
    ([valid |-> TRUE,op |-> <<"AddSon", 0>>,res |-> "ok",directed |-> TRUE,cache |-> FALSE,nodes |-> {0, 1},nextN |-> 2,root |-> 0,edges |-> (0 :> <<0, 1>>),l |-> 102,eObj |-> <<>>,nextE |-> 1]),
    ([valid |-> TRUE,op |-> <<"RootAt", 0>>,res |-> "ok",directed |-> TRUE,cache |-> FALSE,nodes |-> {0, 1},nextN |-> 2,root |-> 1,edges |-> (0 :> <<1, 0>>),l |-> 103,eObj |-> <<>>,nextE |-> 1]),
    ([valid |-> FALSE,op |-> <<"SetFather", 2>>,res |-> "ok",directed |-> TRUE,cache |-> FALSE,nodes |-> {0, 1},nextN |-> 2,root |-> 1,edges |-> <<<<0, 0>>>>,l |-> 104,eObj |-> <<2>>,nextE |-> 2]),
    ([valid |-> FALSE,op |-> <<"SetFather", 0>>,res |-> "ok",directed |-> TRUE,cache |-> FALSE,nodes |-> {0, 1},nextN |-> 2,root |-> 1,edges |-> <<<<0, 0>>, <<1, 1>>>>,l |-> 105,eObj |-> <<2>>,nextE |-> 3]),
    ([valid |-> FALSE,op |-> <<"-", 0>>,res |-> "ok",directed |-> TRUE,cache |-> FALSE,nodes |-> {0, 1},nextN |-> 2,root |-> 1,edges |-> <<<<0, 0>>, <<1, 1>>>>,l |-> 106,eObj |-> <<2>>,nextE |-> 3]),
    ([valid |-> FALSE,op |-> <<"AddSon", 1>>,res |-> "ok",directed |-> TRUE,cache |-> FALSE,nodes |-> {0, 1},nextN |-> 2,root |-> 1,edges |-> <<<<0, 0>>, <<1, 1>>, <<1, 0>>>>,l |-> 107,eObj |-> (1 :> 2 @@ 3 :> 1),nextE |-> 4]),
    ([valid |-> FALSE,op |-> <<"-", 0>>,res |-> "raise",directed |-> TRUE,cache |-> FALSE,nodes |-> {0, 1},nextN |-> 2,root |-> 1,edges |-> <<<<0, 0>>, <<1, 1>>, <<1, 0>>>>,l |-> 108,eObj |-> (1 :> 2 @@ 3 :> 1),nextE |-> 4]),
    ([valid |-> FALSE,op |-> <<"-", 0>>,res |-> "raise",directed |-> TRUE,cache |-> FALSE,nodes |-> {0, 1},nextN |-> 2,root |-> 1,edges |-> <<<<0, 0>>, <<1, 1>>, <<1, 0>>>>,l |-> 109,eObj |-> (1 :> 2 @@ 3 :> 1),nextE |-> 4]),
    ([valid |-> FALSE,op |-> <<"-", 0>>,res |-> "ok",directed |-> TRUE,cache |-> FALSE,nodes |-> {0, 1, 2},nextN |-> 3,root |-> 1,edges |-> <<<<0, 0>>, <<1, 1>>, <<1, 0>>>>,l |-> 110,eObj |-> (1 :> 2 @@ 3 :> 1),nextE |-> 4]),
    ([valid |-> FALSE,op |-> <<"-", 0>>,res |-> "raise",directed |-> TRUE,cache |-> FALSE,nodes |-> {0, 1, 2},nextN |-> 3,root |-> 1,edges |-> <<<<0, 0>>, <<1, 1>>, <<1, 0>>>>,l |-> 111,eObj |-> (1 :> 2 @@ 3 :> 1),nextE |-> 4]),
    ([valid |-> FALSE,op |-> <<"-", 0>>,res |-> "ok",directed |-> TRUE,cache |-> FALSE,nodes |-> {0, 1, 2, 3},nextN |-> 4,root |-> 1,edges |-> <<<<0, 0>>, <<1, 1>>, <<1, 0>>>>,l |-> 112,eObj |-> (1 :> 2 @@ 3 :> 1),nextE |-> 4]),
    ([valid |-> FALSE,op |-> <<"-", 0>>,res |-> "ok",directed |-> TRUE,cache |-> FALSE,nodes |-> {0, 1, 2, 3},nextN |-> 4,root |-> 3,edges |-> <<<<0, 0>>, <<1, 1>>, <<1, 0>>>>,l |-> 113,eObj |-> (1 :> 2 @@ 3 :> 1),nextE |-> 4]),
    ([valid |-> FALSE,op |-> <<"-", 0>>,res |-> "ok",directed |-> TRUE,cache |-> FALSE,nodes |-> {0, 1, 2, 3},nextN |-> 4,root |-> 0,edges |-> <<<<0, 0>>, <<1, 1>>, <<1, 0>>>>,l |-> 114,eObj |-> (1 :> 2 @@ 3 :> 1),nextE |-> 4]),
    ([valid |-> FALSE,op |-> <<"-", 0>>,res |-> "raise",directed |-> TRUE,cache |-> FALSE,nodes |-> {0, 1, 2, 3},nextN |-> 4,root |-> 0,edges |-> <<<<0, 0>>, <<1, 1>>, <<1, 0>>>>,l |-> 115,eObj |-> (1 :> 2 @@ 3 :> 1),nextE |-> 4]),
    ([valid |-> FALSE,op |-> <<"-", 0>>,res |-> "ok",directed |-> TRUE,cache |-> FALSE,nodes |-> {0, 1, 2, 3, 4},nextN |-> 5,root |-> 0,edges |-> <<<<0, 0>>, <<1, 1>>, <<1, 0>>>>,l |-> 116,eObj |-> (1 :> 2 @@ 3 :> 1),nextE |-> 4]),
    ([valid |-> FALSE,op |-> <<"-", 0>>,res |-> "raise",directed |-> TRUE,cache |-> FALSE,nodes |-> {0, 1, 2, 3, 4},nextN |-> 5,root |-> 0,edges |-> <<<<0, 0>>, <<1, 1>>, <<1, 0>>>>,l |-> 117,eObj |-> (1 :> 2 @@ 3 :> 1),nextE |-> 4]),
    ([valid |-> FALSE,op |-> <<"-", 0>>,res |-> "F",directed |-> TRUE,cache |-> FALSE,nodes |-> {0, 1, 2, 3, 4},nextN |-> 5,root |-> 0,edges |-> <<<<0, 0>>, <<1, 1>>, <<1, 0>>>>,l |-> 118,eObj |-> (1 :> 2 @@ 3 :> 1),nextE |-> 4]),
    ([valid |-> FALSE,op |-> <<"-", 0>>,res |-> "ok",directed |-> TRUE,cache |-> FALSE,nodes |-> {0, 1, 2, 3, 4, 5},nextN |-> 6,root |-> 0,edges |-> <<<<0, 0>>, <<1, 1>>, <<1, 0>>>>,l |-> 119,eObj |-> (1 :> 2 @@ 3 :> 1),nextE |-> 4]),
    ([valid |-> FALSE,op |-> <<"AddSon", 0>>,res |-> "ok",directed |-> TRUE,cache |-> FALSE,nodes |-> {0, 1, 2, 3, 4, 5},nextN |-> 6,root |-> 0,edges |-> <<<<0, 0>>, <<1, 1>>, <<1, 0>>, <<5, 1>>>>,l |-> 120,eObj |-> (1 :> 2 @@ 3 :> 1),nextE |-> 5]),
    ([valid |-> FALSE,op |-> <<"SetFather", 3>>,res |-> "ok",directed |-> TRUE,cache |-> FALSE,nodes |-> {0, 1, 2, 3, 4, 5},nextN |-> 6,root |-> 0,edges |-> <<<<0, 0>>, <<1, 1>>, <<1, 0>>, <<5, 1>>, <<1, 5>>>>,l |-> 121,eObj |-> (1 :> 2 @@ 3 :> 1 @@ 5 :> 3),nextE |-> 6]),
    ([valid |-> FALSE,op |-> <<"-", 0>>,res |-> "raise",directed |-> TRUE,cache |-> FALSE,nodes |-> {0, 1, 2, 3, 4, 5},nextN |-> 6,root |-> 0,edges |-> <<<<0, 0>>, <<1, 1>>, <<1, 0>>, <<5, 1>>, <<1, 5>>>>,l |-> 122,eObj |-> (1 :> 2 @@ 3 :> 1 @@ 5 :> 3),nextE |-> 6]),
    ([valid |-> FALSE,op |-> <<"-", 0>>,res |-> "raise",directed |-> TRUE,cache |-> FALSE,nodes |-> {0, 1, 2, 3, 4, 5},nextN |-> 6,root |-> 0,edges |-> <<<<0, 0>>, <<1, 1>>, <<1, 0>>, <<5, 1>>, <<1, 5>>>>,l |-> 123,eObj |-> (1 :> 2 @@ 3 :> 1 @@ 5 :> 3),nextE |-> 6]),
    ([valid |-> FALSE,op |-> <<"-", 0>>,res |-> "raise",directed |-> TRUE,cache |-> FALSE,nodes |-> {0, 1, 2, 3, 4, 5},nextN |-> 6,root |-> 0,edges |-> <<<<0, 0>>, <<1, 1>>, <<1, 0>>, <<5, 1>>, <<1, 5>>>>,l |-> 124,eObj |-> (1 :> 2 @@ 3 :> 1 @@ 5 :> 3),nextE |-> 6]),
    ([valid |-> FALSE,op |-> <<"AddSon", 4>>,res |-> "ok",directed |-> TRUE,cache |-> FALSE,nodes |-> {0, 1, 2, 3, 4, 5},nextN |-> 6,root |-> 0,edges |-> <<<<0, 0>>, <<1, 1>>, <<1, 0>>, <<5, 1>>, <<1, 5>>, <<5, 5>>>>,l |-> 125,eObj |-> (1 :> 2 @@ 3 :> 1 @@ 5 :> 3 @@ 6 :> 4),nextE |-> 7]),
    ([valid |-> FALSE,op |-> <<"-", 0>>,res |-> "raise",directed |-> TRUE,cache |-> FALSE,nodes |-> {0, 1, 2, 3, 4, 5},nextN |-> 6,root |-> 0,edges |-> <<<<0, 0>>, <<1, 1>>, <<1, 0>>, <<5, 1>>, <<1, 5>>, <<5, 5>>>>,l |-> 126,eObj |-> (1 :> 2 @@ 3 :> 1 @@ 5 :> 3 @@ 6 :> 4),nextE |-> 7]),
    ([valid |-> FALSE,op |-> <<"-", 0>>,res |-> "F",directed |-> TRUE,cache |-> FALSE,nodes |-> {0, 1, 2, 3, 4, 5},nextN |-> 6,root |-> 0,edges |-> <<<<0, 0>>, <<1, 1>>, <<1, 0>>, <<5, 1>>, <<1, 5>>, <<5, 5>>>>,l |-> 127,eObj |-> (1 :> 2 @@ 3 :> 1 @@ 5 :> 3 @@ 6 :> 4),nextE |-> 7]),
    ([valid |-> FALSE,op |-> <<"SetFather", 0>>,res |-> "ok",directed |-> TRUE,cache |-> FALSE,nodes |-> {0, 1, 2, 3, 4, 5},nextN |-> 6,root |-> 0,edges |-> <<<<0, 0>>, <<1, 1>>, <<1, 0>>, <<5, 1>>, <<1, 5>>, <<5, 5>>, <<0, 3>>>>,l |-> 128,eObj |-> (1 :> 2 @@ 3 :> 1 @@ 5 :> 3 @@ 6 :> 4),nextE |-> 8]),
    ([valid |-> FALSE,op |-> <<"AddSon", 0>>,res |-> "ok",directed |-> TRUE,cache |-> FALSE,nodes |-> {0, 1, 2, 3, 4, 5},nextN |-> 6,root |-> 0,edges |-> <<<<0, 0>>, <<1, 1>>, <<1, 0>>, <<5, 1>>, <<1, 5>>, <<5, 5>>, <<0, 3>>, <<4, 5>>>>,l |-> 129,eObj |-> (1 :> 2 @@ 3 :> 1 @@ 5 :> 3 @@ 6 :> 4),nextE |-> 9]),
    ([valid |-> FALSE,op |-> <<"-", 0>>,res |-> "F",directed |-> TRUE,cache |-> FALSE,nodes |-> {0, 1, 2, 3, 4, 5},nextN |-> 6,root |-> 0,edges |-> <<<<0, 0>>, <<1, 1>>, <<1, 0>>, <<5, 1>>, <<1, 5>>, <<5, 5>>, <<0, 3>>, <<4, 5>>>>,l |-> 130,eObj |-> (1 :> 2 @@ 3 :> 1 @@ 5 :> 3 @@ 6 :> 4),nextE |-> 9]),
    ([valid |-> FALSE,op |-> <<"-", 0>>,res |-> "raise",directed |-> TRUE,cache |-> FALSE,nodes |-> {0, 1, 2, 3, 4, 5},nextN |-> 6,root |-> 0,edges |-> <<<<0, 0>>, <<1, 1>>, <<1, 0>>, <<5, 1>>, <<1, 5>>, <<5, 5>>, <<0, 3>>, <<4, 5>>>>,l |-> 131,eObj |-> (1 :> 2 @@ 3 :> 1 @@ 5 :> 3 @@ 6 :> 4),nextE |-> 9]),
    ([valid |-> FALSE,op |-> <<"-", 0>>,res |-> "ok",directed |-> TRUE,cache |-> FALSE,nodes |-> {0, 1, 2, 3, 4, 5},nextN |-> 6,root |-> 0,edges |-> <<<<0, 0>>, <<1, 1>>, <<1, 0>>, <<5, 1>>, <<1, 5>>, <<5, 5>>, <<0, 3>>, <<4, 5>>>>,l |-> 132,eObj |-> (1 :> 2 @@ 3 :> 1 @@ 5 :> 3 @@ 6 :> 4),nextE |-> 9]),
    ([valid |-> FALSE,op |-> <<"-", 0>>,res |-> "raise",directed |-> TRUE,cache |-> FALSE,nodes |-> {0, 1, 2, 3, 4, 5},nextN |-> 6,root |-> 0,edges |-> <<<<0, 0>>, <<1, 1>>, <<1, 0>>, <<5, 1>>, <<1, 5>>, <<5, 5>>, <<0, 3>>, <<4, 5>>>>,l |-> 133,eObj |-> (1 :> 2 @@ 3 :> 1 @@ 5 :> 3 @@ 6 :> 4),nextE |-> 9]),
    ([valid |-> FALSE,op |-> <<"-", 0>>,res |-> "ok",directed |-> TRUE,cache |-> FALSE,nodes |-> {0, 1, 2, 4, 5},nextN |-> 6,root |-> 0,edges |-> (1 :> <<0, 0>> @@ 2 :> <<1, 1>> @@ 3 :> <<1, 0>> @@ 4 :> <<5, 1>> @@ 5 :> <<1, 5>> @@ 6 :> <<5, 5>> @@ 8 :> <<4, 5>>),l |-> 134,eObj |-> (1 :> 2 @@ 3 :> 1 @@ 5 :> 3 @@ 6 :> 4),nextE |-> 9]),
    ([valid |-> FALSE,op |-> <<"-", 0>>,res |-> "F",directed |-> TRUE,cache |-> FALSE,nodes |-> {0, 1, 2, 4, 5},nextN |-> 6,root |-> 0,edges |-> (1 :> <<0, 0>> @@ 2 :> <<1, 1>> @@ 3 :> <<1, 0>> @@ 4 :> <<5, 1>> @@ 5 :> <<1, 5>> @@ 6 :> <<5, 5>> @@ 8 :> <<4, 5>>),l |-> 135,eObj |-> (1 :> 2 @@ 3 :> 1 @@ 5 :> 3 @@ 6 :> 4),nextE |-> 9]),
    ([valid |-> FALSE,op |-> <<"SetFather", 0>>,res |-> "ok",directed |-> TRUE,cache |-> FALSE,nodes |-> {0, 1, 2, 4, 5},nextN |-> 6,root |-> 0,edges |-> (1 :> <<0, 0>> @@ 2 :> <<1, 1>> @@ 3 :> <<1, 0>> @@ 4 :> <<5, 1>> @@ 5 :> <<1, 5>> @@ 6 :> <<5, 5>> @@ 8 :> <<4, 5>> @@ 9 :> <<4, 2>>),l |-> 136,eObj |-> (1 :> 2 @@ 3 :> 1 @@ 5 :> 3 @@ 6 :> 4),nextE |-> 10]),
    ([valid |-> FALSE,op |-> <<"-", 0>>,res |-> "raise",directed |-> TRUE,cache |-> FALSE,nodes |-> {0, 1, 2, 4, 5},nextN |-> 6,root |-> 0,edges |-> (1 :> <<0, 0>> @@ 2 :> <<1, 1>> @@ 3 :> <<1, 0>> @@ 4 :> <<5, 1>> @@ 5 :> <<1, 5>> @@ 6 :> <<5, 5>> @@ 8 :> <<4, 5>> @@ 9 :> <<4, 2>>),l |-> 137,eObj |-> (1 :> 2 @@ 3 :> 1 @@ 5 :> 3 @@ 6 :> 4),nextE |-> 10]),
    ([valid |-> FALSE,op |-> <<"-", 0>>,res |-> "ok",directed |-> TRUE,cache |-> FALSE,nodes |-> {0, 1, 2, 4, 5},nextN |-> 6,root |-> 0,edges |-> (1 :> <<0, 0>> @@ 2 :> <<1, 1>> @@ 3 :> <<1, 0>> @@ 4 :> <<5, 1>> @@ 5 :> <<1, 5>> @@ 6 :> <<5, 5>> @@ 8 :> <<4, 5>> @@ 9 :> <<4, 2>>),l |-> 138,eObj |-> (1 :> 2 @@ 3 :> 1 @@ 5 :> 3 @@ 6 :> 4),nextE |-> 10]),
    ([valid |-> FALSE,op |-> <<"SetFather", 0>>,res |-> "ok",directed |-> TRUE,cache |-> FALSE,nodes |-> {0, 1, 2, 4, 5},nextN |-> 6,root |-> 0,edges |-> (1 :> <<0, 0>> @@ 2 :> <<1, 1>> @@ 3 :> <<1, 0>> @@ 4 :> <<5, 1>> @@ 5 :> <<1, 5>> @@ 6 :> <<5, 5>> @@ 8 :> <<4, 5>> @@ 10 :> <<1, 2>>),l |-> 139,eObj |-> (1 :> 2 @@ 3 :> 1 @@ 5 :> 3 @@ 6 :> 4),nextE |-> 11]),
    ([valid |-> FALSE,op |-> <<"-", 0>>,res |-> "raise",directed |-> TRUE,cache |-> FALSE,nodes |-> {0, 1, 2, 4, 5},nextN |-> 6,root |-> 0,edges |-> (1 :> <<0, 0>> @@ 2 :> <<1, 1>> @@ 3 :> <<1, 0>> @@ 4 :> <<5, 1>> @@ 5 :> <<1, 5>> @@ 6 :> <<5, 5>> @@ 8 :> <<4, 5>> @@ 10 :> <<1, 2>>),l |-> 140,eObj |-> (1 :> 2 @@ 3 :> 1 @@ 5 :> 3 @@ 6 :> 4),nextE |-> 11]),
    ([valid |-> FALSE,op |-> <<"-", 0>>,res |-> "ok",directed |-> TRUE,cache |-> FALSE,nodes |-> {0, 1, 2, 4, 5},nextN |-> 6,root |-> 0,edges |-> (1 :> <<0, 0>> @@ 2 :> <<1, 1>> @@ 3 :> <<1, 0>> @@ 4 :> <<5, 1>> @@ 5 :> <<1, 5>> @@ 6 :> <<5, 5>> @@ 8 :> <<4, 5>> @@ 10 :> <<1, 2>>),l |-> 141,eObj |-> (1 :> 2 @@ 3 :> 1 @@ 5 :> 3 @@ 6 :> 4),nextE |-> 11]),
    ([valid |-> FALSE,op |-> <<"-", 0>>,res |-> "F",directed |-> TRUE,cache |-> FALSE,nodes |-> {0, 1, 2, 4, 5},nextN |-> 6,root |-> 0,edges |-> (1 :> <<0, 0>> @@ 2 :> <<1, 1>> @@ 3 :> <<1, 0>> @@ 4 :> <<5, 1>> @@ 5 :> <<1, 5>> @@ 6 :> <<5, 5>> @@ 8 :> <<4, 5>> @@ 10 :> <<1, 2>>),l |-> 142,eObj |-> (1 :> 2 @@ 3 :> 1 @@ 5 :> 3 @@ 6 :> 4),nextE |-> 11]),
    ([valid |-> FALSE,op |-> <<"-", 0>>,res |-> "ok",directed |-> FALSE,cache |-> FALSE,nodes |-> {},nextN |-> 0,root |-> 0,edges |-> <<>>,l |-> 143,eObj |-> <<>>,nextE |-> 0]),
    ([valid |-> TRUE,op |-> <<"-", 0>>,res |-> "ok",directed |-> FALSE,cache |-> FALSE,nodes |-> {0},nextN |-> 1,root |-> 0,edges |-> <<>>,l |-> 144,eObj |-> <<>>,nextE |-> 0]),
    ([valid |-> FALSE,op |-> <<"-", 0>>,res |-> "ok",directed |-> FALSE,cache |-> FALSE,nodes |-> {0, 1},nextN |-> 2,root |-> 0,edges |-> <<>>,l |-> 145,eObj |-> <<>>,nextE |-> 0]),
    ([valid |-> TRUE,op |-> <<"AddSon", 0>>,res |-> "ok",directed |-> FALSE,cache |-> FALSE,nodes |-> {0, 1},nextN |-> 2,root |-> 0,edges |-> (0 :> <<1, 0>>),l |-> 146,eObj |-> <<>>,nextE |-> 1]),
    ([valid |-> TRUE,op |-> <<"-", 0>>,res |-> "T",directed |-> FALSE,cache |-> TRUE,nodes |-> {0, 1},nextN |-> 2,root |-> 0,edges |-> (0 :> <<1, 0>>),l |-> 147,eObj |-> <<>>,nextE |-> 1]),
    ([valid |-> TRUE,op |-> <<"-", 0>>,res |-> "ok",directed |-> FALSE,cache |-> TRUE,nodes |-> {0, 1},nextN |-> 2,root |-> 0,edges |-> (0 :> <<1, 0>>),l |-> 148,eObj |-> <<>>,nextE |-> 1]),
    ([valid |-> TRUE,op |-> <<"-", 0>>,res |-> "ok",directed |-> FALSE,cache |-> FALSE,nodes |-> {0, 1},nextN |-> 2,root |-> 0,edges |-> (0 :> <<1, 0>>),l |-> 149,eObj |-> <<>>,nextE |-> 1]),
    ([valid |-> FALSE,op |-> <<"-", 0>>,res |-> "ok",directed |-> FALSE,cache |-> FALSE,nodes |-> {0, 1, 2},nextN |-> 3,root |-> 0,edges |-> (0 :> <<1, 0>>),l |-> 150,eObj |-> <<>>,nextE |-> 1]),
    ([valid |-> FALSE,op |-> <<"-", 0>>,res |-> "ok",directed |-> FALSE,cache |-> FALSE,nodes |-> {0, 1, 2},nextN |-> 3,root |-> 0,edges |-> (0 :> <<1, 0>>),l |-> 151,eObj |-> <<>>,nextE |-> 1]),
    ([valid |-> FALSE,op |-> <<"-", 0>>,res |-> "T",directed |-> FALSE,cache |-> FALSE,nodes |-> {0, 1, 2},nextN |-> 3,root |-> 0,edges |-> (0 :> <<1, 0>>),l |-> 152,eObj |-> <<>>,nextE |-> 1])
    >>
----


=============================================================================

---- CONFIG TreeTrace_TTrace_1790491193 ----
CONSTANTS
    MaxN = 1000000
    MaxE = 1000000
    EObjs = { 1 , 2 , 3 , 4 , 5 , 6 , 7 , 8 , 9 , 10 , 11 , 12 , 13 , 14 , 15 , 16 }
    Forget = { }

INVARIANT
    _inv

CHECK_DEADLOCK
    \* CHECK_DEADLOCK off because of PROPERTY or INVARIANT above.
    FALSE

INIT
    _init

NEXT
    _next

CONSTANT
    _TETrace <- _trace

ALIAS
    _expression
=============================================================================
\* Generated on Sun Sep 27 06:39:55 UTC 2026