---- MODULE TreeTrace_TTrace_1790491197 ----
EXTENDS Sequences, TLCExt, Toolbox, TreeTrace, Naturals, TLC

_expression ==
    LET TreeTrace_TEExpression == INSTANCE TreeTrace_TEExpression
    IN TreeTrace_TEExpression!expression
----

_trace ==
    LET TreeTrace_TETrace == INSTANCE TreeTrace_TETrace
    IN TreeTrace_TETrace!trace
----

_inv ==
    ~(
        TLCGet("level") = Len(_TETrace)
        /\
        valid = (FALSE)
        /\
        op = (<<"-", 0>>)
        /\
        res = ("T")
        /\
        directed = (TRUE)
        /\
        cache = (FALSE)
        /\
        nodes = ({0, 1})
        /\
        nextN = (2)
        /\
        root = (0)
        /\
        edges = (<<>>)
        /\
        l = (143)
        /\
        eObj = (<<>>)
        /\
        nextE = (0)
    )
----

_init ==
    /\ valid = _TETrace[1].valid
    /\ root = _TETrace[1].root
    /\ op = _TETrace[1].op
    /\ l = _TETrace[1].l
    /\ nodes = _TETrace[1].nodes
    /\ directed = _TETrace[1].directed
    /\ res = _TETrace[1].res
    /\ eObj = _TETrace[1].eObj
    /\ edges = _TETrace[1].edges
    /\ nextE = _TETrace[1].nextE
    /\ nextN = _TETrace[1].nextN
    /\ cache = _TETrace[1].cache
----

_next ==
    /\ \E i,j \in DOMAIN _TETrace:
        /\ \/ /\ j = i + 1
              /\ i = TLCGet("level")
        /\ valid  = _TETrace[i].valid
        /\ valid' = _TETrace[j].valid
        /\ root  = _TETrace[i].root
        /\ root' = _TETrace[j].root
        /\ op  = _TETrace[i].op
        /\ op' = _TETrace[j].op
        /\ l  = _TETrace[i].l
        /\ l' = _TETrace[j].l
        /\ nodes  = _TETrace[i].nodes
        /\ nodes' = _TETrace[j].nodes
        /\ directed  = _TETrace[i].directed
        /\ directed' = _TETrace[j].directed
        /\ res  = _TETrace[i].res
        /\ res' = _TETrace[j].res
        /\ eObj  = _TETrace[i].eObj
        /\ eObj' = _TETrace[j].eObj
        /\ edges  = _TETrace[i].edges
        /\ edges' = _TETrace[j].edges
        /\ nextE  = _TETrace[i].nextE
        /\ nextE' = _TETrace[j].nextE
        /\ nextN  = _TETrace[i].nextN
        /\ nextN' = _TETrace[j].nextN
        /\ cache  = _TETrace[i].cache
        /\ cache' = _TETrace[j].cache

\* Uncomment the ASSUME below to write the states of the error trace
\* to the given file in Json format. Note that you can pass any tuple
\* to `JsonSerialize`. For example, a sub-sequence of _TETrace.
    \* ASSUME
    \*     LET J == INSTANCE Json
    \*         IN J!JsonSerialize("TreeTrace_TTrace_1790491197.json", _TETrace)

=============================================================================

 Note that you can extract this module `TreeTrace_TEExpression`
  to a dedicated file to reuse `expression` (the module in the 
  dedicated `TreeTrace_TEExpression.tla` file takes precedence 
  over the module `TreeTrace_TEExpression` below).

---- MODULE TreeTrace_TEExpression ----
EXTENDS Sequences, TLCExt, Toolbox, TreeTrace, Naturals, TLC

expression == 
    [
        \* To hide variables of the `TreeTrace` spec from the error trace,
        \* remove the variables below.  The trace will be written in the order
        \* of the fields of this record.
        valid |-> valid
        ,root |-> root
        ,op |-> op
        ,l |-> l
        ,nodes |-> nodes
        ,directed |-> directed
        ,res |-> res
        ,eObj |-> eObj
        ,edges |-> edges
        ,nextE |-> nextE
        ,nextN |-> nextN
        ,cache |-> cache
        
        \* Put additional constant-, state-, and action-level expressions here:
        \* ,_stateNumber |-> _TEPosition
        \* ,_validUnchanged |-> valid = valid'
        
        \* Format the `valid` variable as Json value.
        \* ,_validJson |->
        \*     LET J == INSTANCE Json
        \*     IN J!ToJson(valid)
        
        \* Lastly, you may build expressions over arbitrary sets of states by
        \* leveraging the _TETrace operator.  For example, this is how to
        \* count the number of times a spec variable changed up to the current
        \* state in the trace.
        \* ,_validModCount |->
        \*     LET F[s \in DOMAIN _TETrace] ==
        \*         IF s = 1 THEN 0
        \*         ELSE IF _TETrace[s].valid # _TETrace[s-1].valid
        \*             THEN 1 + F[s-1] ELSE F[s-1]
        \*     IN F[_TEPosition - 1]
    ]

=============================================================================



Parsing and semantic processing can take forever if the trace below is long.
 In this case, it is advised to uncomment the module below to deserialize the
 trace from a generated binary file.

\*
\*---- MODULE TreeTrace_TETrace ----
\*EXTENDS IOUtils, TreeTrace, TLC
\*
\*trace == IODeserialize("TreeTrace_TTrace_1790491197.bin", TRUE)
\*
\*=============================================================================
\*

---- MODULE TreeTrace_TETrace ----
EXTENDS TreeTrace, TLC

trace == 
    <<
    ([valid |-> FALSE,op |-> <<"-", 0>>,res |-> "ok",directed |-> TRUE,cache |-> FALSE,nodes |-> {},nextN |-> 0,root |-> 0,edges |-> <<>>,l |-> 1,eObj |-> <<>>,nextE |-> 0]),
    ([valid |-> FALSE,op |-> <<"-", 0>>,res |-> "ok",directed |-> FALSE,cache |-> FALSE,nodes |-> {},nextN |-> 0,root |-> 0,edges |-> <<>>,l |-> 2,eObj |-> <<>>,nextE |-> 0]),
    ([valid |-> TRUE,op |-> <<"-", 0>>,res |-> "ok",directed |-> FALSE,cache |-> FALSE,nodes |-> {0},nextN |-> 1,root |-> 0,edges |-> <<>>,l |-> 3,eObj |-> <<>>,nextE |-> 0]),
    ([valid |-> TRUE,op |-> <<"-", 0>>,res |-> "T",directed |-> FALSE,cache |-> TRUE,nodes |-> {0},nextN |-> 1,root |-> 0,edges |-> <<>>,l |-> 4,eObj |-> <<>>,nextE |-> 0]),
    ([valid |-> FALSE,op |-> <<"-", 0>>,res |-> "ok",directed |-> FALSE,cache |-> FALSE,nodes |-> {0, 1},nextN |-> 2,root |-> 0,edges |-> <<>>,l |-> 5,eObj |-> <<>>,nextE |-> 0]),
    ([valid |-> TRUE,op |-> <<"AddSon", 0>>,res |-> "ok",directed |-> FALSE,cache |-> FALSE,nodes |-> {0, 1},nextN |-> 2,root |-> 0,edges |-> (0 :> <<0, 1>>),l |-> 6,eObj |-> <<>>,nextE |-> 1]),
    ([valid |-> FALSE,op |-> <<"-", 0>>,res |-> "ok",directed |-> FALSE,cache |-> FALSE,nodes |-> {0, 1, 2},nextN |-> 3,root |-> 0,edges |-> (0 :> <<0, 1>>),l |-> 7,eObj |-> <<>>,nextE |-> 1]),
    ([valid |-> FALSE,op |-> <<"-", 0>>,res |-> "ok",directed |-> FALSE,cache |-> FALSE,nodes |-> {0, 2},nextN |-> 3,root |-> 0,edges |-> <<>>,l |-> 8,eObj |-> <<>>,nextE |-> 1]),
    ([valid |-> TRUE,op |-> <<"AddSon", 0>>,res |-> "ok",directed |-> FALSE,cache |-> FALSE,nodes |-> {0, 2},nextN |-> 3,root |-> 0,edges |-> <<<<0, 2>>>>,l |-> 9,eObj |-> <<>>,nextE |-> 2]),
    ([valid |-> TRUE,op |-> <<"-", 0>>,res |-> "raise",directed |-> FALSE,cache |-> FALSE,nodes |-> {0, 2},nextN |-> 3,root |-> 0,edges |-> <<<<0, 2>>>>,l |-> 10,eObj |-> <<>>,nextE |-> 2]),
    ([valid |-> TRUE,op |-> <<"RootAt", 0>>,res |-> "ok",directed |-> TRUE,cache |-> FALSE,nodes |-> {0, 2},nextN |-> 3,root |-> 0,edges |-> <<<<0, 2>>>>,l |-> 11,eObj |-> <<>>,nextE |-> 2]),
    ([valid |-> TRUE,op |-> <<"-", 0>>,res |-> "ok",directed |-> TRUE,cache |-> FALSE,nodes |-> {0},nextN |-> 3,root |-> 0,edges |-> <<>>,l |-> 12,eObj |-> <<>>,nextE |-> 2]),
    ([valid |-> TRUE,op |-> <<"-", 0>>,res |-> "ok",directed |-> FALSE,cache |-> FALSE,nodes |-> {0},nextN |-> 3,root |-> 0,edges |-> <<>>,l |-> 13,eObj |-> <<>>,nextE |-> 2]),
    ([valid |-> TRUE,op |-> <<"-", 0>>,res |-> "raise",directed |-> FALSE,cache |-> FALSE,nodes |-> {0},nextN |-> 3,root |-> 0,edges |-> <<>>,l |-> 14,eObj |-> <<>>,nextE |-> 2]),
    ([valid |-> TRUE,op |-> <<"RootAt", 0>>,res |-> "ok",directed |-> TRUE,cache |-> FALSE,nodes |-> {0},nextN |-> 3,root |-> 0,edges |-> <<>>,l |-> 15,eObj |-> <<>>,nextE |-> 2]),
    ([valid |-> FALSE,op |-> <<"-", 0>>,res |-> "ok",directed |-> TRUE,cache |-> FALSE,nodes |-> {},nextN |-> 3,root |-> 0,edges |-> <<>>,l |-> 16,eObj |-> <<>>,nextE |-> 2]),
    ([valid |-> FALSE,op |-> <<"-", 0>>,res |-> "ok",directed |-> TRUE,cache |-> FALSE,nodes |-> {},nextN |-> 3,root |-> 0,edges |-> <<>>,l |-> 17,eObj |-> <<>>,nextE |-> 2]),
    ([valid |-> FALSE,op |-> <<"-", 0>>,res |-> "raise",directed |-> TRUE,cache |-> FALSE,nodes |-> {},nextN |-> 3,root |-> 0,edges |-> <<>>,l |-> 18,eObj |-> <<>>,nextE |-> 2]),
    ([valid |-> FALSE,op |-> <<"-", 0>>,res |-> "ok",directed |-> FALSE,cache |-> FALSE,nodes |-> {},nextN |-> 3,root |-> 0,edges |-> <<>>,l |-> 19,eObj |-> <<>>,nextE |-> 2]),
    ([valid |-> FALSE,op |-> <<"-", 0>>,res |-> "raise",directed |-> FALSE,cache |-> FALSE,nodes |-> {},nextN |-> 3,root |-> 0,edges |-> <<>>,l |-> 20,eObj |-> <<>>,nextE |-> 2]),
    ([valid |-> FALSE,op |-> <<"-", 0>>,res |-> "raise",directed |-> FALSE,cache |-> FALSE,nodes |-> {},nextN |-> 3,root |-> 0,edges |-> <<>>,l |-> 21,eObj |-> <<>>,nextE |-> 2]),
    ([valid |-> FALSE,op |-> <<"-", 0>>,res |-> "ok",directed |-> FALSE,cache |-> FALSE,nodes |-> {},nextN |-> 3,root |-> 0,edges |-> <<>>,l |-> 22,eObj |-> <<>>,nextE |-> 2]),
    ([valid |-> FALSE,op |-> <<"-", 0>>,res |-> "F",directed |-> FALSE,cache |-> FALSE,nodes |-> {},nextN |-> 3,root |-> 0,edges |-> <<>>,l |-> 23,eObj |-> <<>>,nextE |-> 2]),
    ([valid |-> FALSE,op |-> <<"-", 0>>,res |-> "ok",directed |-> FALSE,cache |-> FALSE,nodes |-> {},nextN |-> 0,root |-> 0,edges |-> <<>>,l |-> 24,eObj |-> <<>>,nextE |-> 0]),
    ([valid |-> FALSE,op |-> <<"-", 0>>,res |-> "F",directed |-> FALSE,cache |-> FALSE,nodes |-> {},nextN |-> 0,root |-> 0,edges |-> <<>>,l |-> 25,eObj |-> <<>>,nextE |-> 0]),
    ([valid |-> FALSE,op |-> <<"-", 0>>,res |-> "ok",directed |-> FALSE,cache |-> FALSE,nodes |-> {},nextN |-> 0,root |-> 0,edges |-> <<>>,l |-> 26,eObj |-> <<>>,nextE |-> 0]),
    ([valid |-> FALSE,op |-> <<"-", 0>>,res |-> "ok",directed |-> FALSE,cache |-> FALSE,nodes |-> {},nextN |-> 0,root |-> 0,edges |-> <<>>,l |-> 27,eObj |-> <<>>,nextE |-> 0]),
    ([valid |-> TRUE,op |-> <<"-", 0>>,res |-> "ok",directed |-> FALSE,cache |-> FALSE,nodes |-> {0},nextN |-> 1,root |-> 0,edges |-> <<>>,l |-> 28,eObj |-> <<>>,nextE |-> 0]),
    ([valid |-> FALSE,op |-> <<"-", 0>>,res |-> "ok",directed |-> FALSE,cache |-> FALSE,nodes |-> {0, 1},nextN |-> 2,root |-> 0,edges |-> <<>>,l |-> 29,eObj |-> <<>>,nextE |-> 0]),
    ([valid |-> FALSE,op |-> <<"-", 0>>,res |-> "raise",directed |-> FALSE,cache |-> FALSE,nodes |-> {0, 1},nextN |-> 2,root |-> 0,edges |-> <<>>,l |-> 30,eObj |-> <<>>,nextE |-> 0]),
    ([valid |-> FALSE,op |-> <<"-", 0>>,res |-> "raise",directed |-> FALSE,cache |-> FALSE,nodes |-> {0, 1},nextN |-> 2,root |-> 0,edges |-> <<>>,l |-> 31,eObj |-> <<>>,nextE |-> 0]),
    ([valid |-> FALSE,op |-> <<"AddSon", 0>>,res |-> "ok",directed |-> FALSE,cache |-> FALSE,nodes |-> {0, 1},nextN |-> 2,root |-> 0,edges |-> (0 :> <<0, 0>>),l |-> 32,eObj |-> <<>>,nextE |-> 1]),
    ([valid |-> FALSE,op |-> <<"-", 0>>,res |-> "ok",directed |-> FALSE,cache |-> FALSE,nodes |-> {0, 1},nextN |-> 2,root |-> 0,edges |-> <<>>,l |-> 33,eObj |-> <<>>,nextE |-> 1]),
    ([valid |-> FALSE,op |-> <<"-", 0>>,res |-> "ok",directed |-> FALSE,cache |-> FALSE,nodes |-> {0, 1},nextN |-> 2,root |-> 0,edges |-> <<>>,l |-> 34,eObj |-> <<>>,nextE |-> 1]),
    ([valid |-> TRUE,op |-> <<"AddSon", 0>>,res |-> "ok",directed |-> FALSE,cache |-> FALSE,nodes |-> {0, 1},nextN |-> 2,root |-> 0,edges |-> <<<<1, 0>>>>,l |-> 35,eObj |-> <<>>,nextE |-> 2]),
    ([valid |-> FALSE,op |-> <<"-", 0>>,res |-> "ok",directed |-> FALSE,cache |-> FALSE,nodes |-> {0, 1, 2},nextN |-> 3,root |-> 0,edges |-> <<<<1, 0>>>>,l |-> 36,eObj |-> <<>>,nextE |-> 2]),
    ([valid |-> FALSE,op |-> <<"-", 0>>,res |-> "raise",directed |-> FALSE,cache |-> FALSE,nodes |-> {0, 1, 2},nextN |-> 3,root |-> 0,edges |-> <<<<1, 0>>>>,l |-> 37,eObj |-> <<>>,nextE |-> 2]),
    ([valid |-> FALSE,op |-> <<"-", 0>>,res |-> "raise",directed |-> FALSE,cache |-> FALSE,nodes |-> {0, 1, 2},nextN |-> 3,root |-> 0,edges |-> <<<<1, 0>>>>,l |-> 38,eObj |-> <<>>,nextE |-> 2]),
    ([valid |-> FALSE,op |-> <<"-", 0>>,res |-> "raise",directed |-> FALSE,cache |-> FALSE,nodes |-> {0, 1, 2},nextN |-> 3,root |-> 0,edges |-> <<<<1, 0>>>>,l |-> 39,eObj |-> <<>>,nextE |-> 2]),
    ([valid |-> FALSE,op |-> <<"-", 0>>,res |-> "raise",directed |-> FALSE,cache |-> FALSE,nodes |-> {0, 1, 2},nextN |-> 3,root |-> 0,edges |-> <<<<1, 0>>>>,l |-> 40,eObj |-> <<>>,nextE |-> 2]),
    ([valid |-> FALSE,op |-> <<"AddSon", 0>>,res |-> "ok",directed |-> FALSE,cache |-> FALSE,nodes |-> {0, 1, 2},nextN |-> 3,root |-> 0,edges |-> <<<<1, 0>>, <<1, 1>>>>,l |-> 41,eObj |-> <<>>,nextE |-> 3]),
    ([valid |-> FALSE,op |-> <<"-", 0>>,res |-> "raise",directed |-> FALSE,cache |-> FALSE,nodes |-> {0, 1, 2},nextN |-> 3,root |-> 0,edges |-> <<<<1, 0>>, <<1, 1>>>>,l |-> 42,eObj |-> <<>>,nextE |-> 3]),
    ([valid |-> FALSE,op |-> <<"-", 0>>,res |-> "F",directed |-> FALSE,cache |-> FALSE,nodes |-> {0, 1, 2},nextN |-> 3,root |-> 0,edges |-> <<<<1, 0>>, <<1, 1>>>>,l |-> 43,eObj |-> <<>>,nextE |-> 3]),
    ([valid |-> FALSE,op |-> <<"-", 0>>,res |-> "F",directed |-> FALSE,cache |-> FALSE,nodes |-> {0, 1, 2},nextN |-> 3,root |-> 0,edges |-> <<<<1, 0>>, <<1, 1>>>>,l |-> 44,eObj |-> <<>>,nextE |-> 3]),
    ([valid |-> FALSE,op |-> <<"-", 0>>,res |-> "raise",directed |-> FALSE,cache |-> FALSE,nodes |-> {0, 1, 2},nextN |-> 3,root |-> 0,edges |-> <<<<1, 0>>, <<1, 1>>>>,l |-> 45,eObj |-> <<>>,nextE |-> 3]),
    ([valid |-> FALSE,op |-> <<"-", 0>>,res |-> "raise",directed |-> FALSE,cache |-> FALSE,nodes |-> {0, 1, 2},nextN |-> 3,root |-> 0,edges |-> <<<<1, 0>>, <<1, 1>>>>,l |-> 46,eObj |-> <<>>,nextE |-> 3]),
    ([valid |-> FALSE,op |-> <<"-", 0>>,res |-> "ok",directed |-> FALSE,cache |-> FALSE,nodes |-> {0, 1, 2},nextN |-> 3,root |-> 0,edges |-> <<<<1, 0>>, <<1, 1>>>>,l |-> 47,eObj |-> <<>>,nextE |-> 3]),
    ([valid |-> FALSE,op |-> <<"-", 0>>,res |-> "F",directed |-> FALSE,cache |-> FALSE,nodes |-> {0, 1, 2},nextN |-> 3,root |-> 0,edges |-> <<<<1, 0>>, <<1, 1>>>>,l |-> 48,eObj |-> <<>>,nextE |-> 3]),
    ([valid |-> FALSE,op |-> <<"-", 0>>,res |-> "ok",directed |-> TRUE,cache |-> FALSE,nodes |-> {},nextN |-> 0,root |-> 0,edges |-> <<>>,l |-> 49,eObj |-> <<>>,nextE |-> 0]),
    ([valid |-> FALSE,op |-> <<"-", 0>>,res |-> "raise",directed |-> TRUE,cache |-> FALSE,nodes |-> {},nextN |-> 0,root |-> 0,edges |-> <<>>,l |-> 50,eObj |-> <<>>,nextE |-> 0]),
    ([valid |-> FALSE,op |-> <<"-", 0>>,res |-> "raise",directed |-> TRUE,cache |-> FALSE,nodes |-> {},nextN |-> 0,root |-> 0,edges |-> <<>>,l |-> 51,eObj |-> <<>>,nextE |-> 0]),
    ([valid |-> TRUE,op |-> <<"-", 0>>,res |-> "ok",directed |-> TRUE,cache |-> FALSE,nodes |-> {0},nextN |-> 1,root |-> 0,edges |-> <<>>,l |-> 52,eObj |-> <<>>,nextE |-> 0]),
    ([valid |-> FALSE,op |-> <<"-", 0>>,res |-> "ok",directed |-> TRUE,cache |-> FALSE,nodes |-> {0, 1},nextN |-> 2,root |-> 0,edges |-> <<>>,l |-> 53,eObj |-> <<>>,nextE |-> 0]),
    ([valid |-> FALSE,op |-> <<"SetFather", 0>>,res |-> "ok",directed |-> TRUE,cache |-> FALSE,nodes |-> {0, 1},nextN |-> 2,root |-> 0,edges |-> (0 :> <<0, 0>>),l |-> 54,eObj |-> <<>>,nextE |-> 1]),
    ([valid |-> FALSE,op |-> <<"-", 0>>,res |-> "ok",directed |-> TRUE,cache |-> FALSE,nodes |-> {0, 1},nextN |-> 2,root |-> 0,edges |-> (0 :> <<0, 0>>),l |-> 55,eObj |-> <<>>,nextE |-> 1]),
    ([valid |-> FALSE,op |-> <<"-", 0>>,res |-> "raise",directed |-> TRUE,cache |-> FALSE,nodes |-> {0, 1},nextN |-> 2,root |-> 0,edges |-> (0 :> <<0, 0>>),l |-> 56,eObj |-> <<>>,nextE |-> 1]),
    ([valid |-> FALSE,op |-> <<"-", 0>>,res |-> "ok",directed |-> TRUE,cache |-> FALSE,nodes |-> {0, 1},nextN |-> 2,root |-> 0,edges |-> (0 :> <<0, 0>>),l |-> 57,eObj |-> <<>>,nextE |-> 1]),
    ([valid |-> FALSE,op |-> <<"-", 0>>,res |-> "ok",directed |-> TRUE,cache |-> FALSE,nodes |-> {0, 1},nextN |-> 2,root |-> 0,edges |-> (0 :> <<0, 0>>),l |-> 58,eObj |-> <<>>,nextE |-> 1]),
    ([valid |-> FALSE,op |-> <<"-", 0>>,res |-> "ok",directed |-> TRUE,cache |-> FALSE,nodes |-> {0, 1},nextN |-> 2,root |-> 0,edges |-> (0 :> <<0, 0>>),l |-> 59,eObj |-> <<>>,nextE |-> 1]),
    ([valid |-> FALSE,op |-> <<"-", 0>>,res |-> "ok",directed |-> TRUE,cache |-> FALSE,nodes |-> {0, 1},nextN |-> 2,root |-> 0,edges |-> (0 :> <<0, 0>>),l |-> 60,eObj |-> <<>>,nextE |-> 1]),
    ([valid |-> FALSE,op |-> <<"-", 0>>,res |-> "F",directed |-> TRUE,cache |-> FALSE,nodes |-> {0, 1},nextN |-> 2,root |-> 0,edges |-> (0 :> <<0, 0>>),l |-> 61,eObj |-> <<>>,nextE |-> 1]),
    ([valid |-> FALSE,op |-> <<"-", 0>>,res |-> "ok",directed |-> TRUE,cache |-> FALSE,nodes |-> {0, 1, 2},nextN |-> 3,root |-> 0,edges |-> (0 :> <<0, 0>>),l |-> 62,eObj |-> <<>>,nextE |-> 1]),
    ([valid |-> FALSE,op |-> <<"-", 0>>,res |-> "ok",directed |-> FALSE,cache |-> FALSE,nodes |-> {0, 1, 2},nextN |-> 3,root |-> 0,edges |-> (0 :> <<0, 0>>),l |-> 63,eObj |-> <<>>,nextE |-> 1]),
    ([valid |-> FALSE,op |-> <<"-", 0>>,res |-> "raise",directed |-> FALSE,cache |-> FALSE,nodes |-> {0, 1, 2},nextN |-> 3,root |-> 0,edges |-> (0 :> <<0, 0>>),l |-> 64,eObj |-> <<>>,nextE |-> 1]),
    ([valid |-> FALSE,op |-> <<"-", 0>>,res |-> "raise",directed |-> FALSE,cache |-> FALSE,nodes |-> {0, 1, 2},nextN |-> 3,root |-> 0,edges |-> (0 :> <<0, 0>>),l |-> 65,eObj |-> <<>>,nextE |-> 1]),
    ([valid |-> FALSE,op |-> <<"AddSon", 0>>,res |-> "ok",directed |-> FALSE,cache |-> FALSE,nodes |-> {0, 1, 2},nextN |-> 3,root |-> 0,edges |-> (0 :> <<0, 0>> @@ 1 :> <<2, 0>>),l |-> 66,eObj |-> <<>>,nextE |-> 2]),
    ([valid |-> FALSE,op |-> <<"-", 0>>,res |-> "raise",directed |-> FALSE,cache |-> FALSE,nodes |-> {0, 1, 2},nextN |-> 3,root |-> 0,edges |-> (0 :> <<0, 0>> @@ 1 :> <<2, 0>>),l |-> 67,eObj |-> <<>>,nextE |-> 2]),
    ([valid |-> FALSE,op |-> <<"-", 0>>,res |-> "F",directed |-> FALSE,cache |-> FALSE,nodes |-> {0, 1, 2},nextN |-> 3,root |-> 0,edges |-> (0 :> <<0, 0>> @@ 1 :> <<2, 0>>),l |-> 68,eObj |-> <<>>,nextE |-> 2]),
    ([valid |-> FALSE,op |-> <<"-", 0>>,res |-> "raise",directed |-> FALSE,cache |-> FALSE,nodes |-> {0, 1, 2},nextN |-> 3,root |-> 0,edges |-> (0 :> <<0, 0>> @@ 1 :> <<2, 0>>),l |-> 69,eObj |-> <<>>,nextE |-> 2]),
    ([valid |-> FALSE,op |-> <<"-", 0>>,res |-> "F",directed |-> FALSE,cache |-> FALSE,nodes |-> {0, 1, 2},nextN |-> 3,root |-> 0,edges |-> (0 :> <<0, 0>> @@ 1 :> <<2, 0>>),l |-> 70,eObj |-> <<>>,nextE |-> 2]),
    ([valid |-> FALSE,op |-> <<"-", 0>>,res |-> "ok",directed |-> FALSE,cache |-> FALSE,nodes |-> {0, 1, 2},nextN |-> 3,root |-> 1,edges |-> (0 :> <<0, 0>> @@ 1 :> <<2, 0>>),l |-> 71,eObj |-> <<>>,nextE |-> 2]),
    ([valid |-> FALSE,op |-> <<"-", 0>>,res |-> "raise",directed |-> FALSE,cache |-> FALSE,nodes |-> {0, 1, 2},nextN |-> 3,root |-> 1,edges |-> (0 :> <<0, 0>> @@ 1 :> <<2, 0>>),l |-> 72,eObj |-> <<>>,nextE |-> 2]),
    ([valid |-> FALSE,op |-> <<"-", 0>>,res |-> "ok",directed |-> FALSE,cache |-> FALSE,nodes |-> {0, 1, 2},nextN |-> 3,root |-> 1,edges |-> (0 :> <<0, 0>> @@ 1 :> <<2, 0>>),l |-> 73,eObj |-> <<>>,nextE |-> 2]),
    ([valid |-> FALSE,op |-> <<"AddSon", 1>>,res |-> "ok",directed |-> FALSE,cache |-> FALSE,nodes |-> {0, 1, 2},nextN |-> 3,root |-> 1,edges |-> (0 :> <<0, 0>> @@ 1 :> <<2, 0>> @@ 2 :> <<2, 2>>),l |-> 74,eObj |-> (2 :> 1),nextE |-> 3]),
    ([valid |-> FALSE,op |-> <<"-", 0>>,res |-> "F",directed |-> FALSE,cache |-> FALSE,nodes |-> {0, 1, 2},nextN |-> 3,root |-> 1,edges |-> (0 :> <<0, 0>> @@ 1 :> <<2, 0>> @@ 2 :> <<2, 2>>),l |-> 75,eObj |-> (2 :> 1),nextE |-> 3]),
    ([valid |-> FALSE,op |-> <<"-", 0>>,res |-> "ok",directed |-> FALSE,cache |-> FALSE,nodes |-> {},nextN |-> 0,root |-> 0,edges |-> <<>>,l |-> 76,eObj |-> <<>>,nextE |-> 0]),
    ([valid |-> TRUE,op |-> <<"-", 0>>,res |-> "ok",directed |-> FALSE,cache |-> FALSE,nodes |-> {0},nextN |-> 1,root |-> 0,edges |-> <<>>,l |-> 77,eObj |-> <<>>,nextE |-> 0]),
    ([valid |-> TRUE,op |-> <<"-", 0>>,res |-> "ok",directed |-> FALSE,cache |-> FALSE,nodes |-> {0},nextN |-> 1,root |-> 0,edges |-> <<>>,l |-> 78,eObj |-> <<>>,nextE |-> 0]),
    ([valid |-> TRUE,op |-> <<"-", 0>>,res |-> "raise",directed |-> FALSE,cache |-> FALSE,nodes |-> {0},nextN |-> 1,root |-> 0,edges |-> <<>>,l |-> 79,eObj |-> <<>>,nextE |-> 0]),
    ([valid |-> TRUE,op |-> <<"-", 0>>,res |-> "ok",directed |-> FALSE,cache |-> FALSE,nodes |-> {0},nextN |-> 1,root |-> 0,edges |-> <<>>,l |-> 80,eObj |-> <<>>,nextE |-> 0]),
    ([valid |-> TRUE,op |-> <<"-", 0>>,res |-> "T",directed |-> FALSE,cache |-> TRUE,nodes |-> {0},nextN |-> 1,root |-> 0,edges |-> <<>>,l |-> 81,eObj |-> <<>>,nextE |-> 0]),
    ([valid |-> TRUE,op |-> <<"RootAt", 0>>,res |-> "ok",directed |-> TRUE,cache |-> FALSE,nodes |-> {0},nextN |-> 1,root |-> 0,edges |-> <<>>,l |-> 82,eObj |-> <<>>,nextE |-> 0]),
    ([valid |-> FALSE,op |-> <<"SetFather", 0>>,res |-> "ok",directed |-> TRUE,cache |-> FALSE,nodes |-> {0},nextN |-> 1,root |-> 0,edges |-> (0 :> <<0, 0>>),l |-> 83,eObj |-> <<>>,nextE |-> 1]),
    ([valid |-> FALSE,op |-> <<"-", 0>>,res |-> "ok",directed |-> TRUE,cache |-> FALSE,nodes |-> {0, 1},nextN |-> 2,root |-> 0,edges |-> (0 :> <<0, 0>>),l |-> 84,eObj |-> <<>>,nextE |-> 1]),
    ([valid |-> FALSE,op |-> <<"SetFather", 1>>,res |-> "ok",directed |-> TRUE,cache |-> FALSE,nodes |-> {0, 1},nextN |-> 2,root |-> 0,edges |-> <<<<1, 0>>>>,l |-> 85,eObj |-> <<1>>,nextE |-> 2]),
    ([valid |-> FALSE,op |-> <<"-", 0>>,res |-> "ok",directed |-> TRUE,cache |-> FALSE,nodes |-> {0, 1},nextN |-> 2,root |-> 0,edges |-> <<<<1, 0>>>>,l |-> 86,eObj |-> <<1>>,nextE |-> 2]),
    ([valid |-> FALSE,op |-> <<"-", 0>>,res |-> "ok",directed |-> TRUE,cache |-> FALSE,nodes |-> {0, 1},nextN |-> 2,root |-> 0,edges |-> <<<<1, 0>>>>,l |-> 87,eObj |-> <<1>>,nextE |-> 2]),
    ([valid |-> FALSE,op |-> <<"-", 0>>,res |-> "ok",directed |-> TRUE,cache |-> FALSE,nodes |-> {0, 1, 2},nextN |-> 3,root |-> 0,edges |-> <<<<1, 0>>>>,l |-> 88,eObj |-> <<1>>,nextE |-> 2]),
    ([valid |-> FALSE,op |-> <<"-", 0>>,res |-> "F",directed |-> TRUE,cache |-> FALSE,nodes |-> {0, 1, 2},nextN |-> 3,root |-> 0,edges |-> <<<<1, 0>>>>,l |-> 89,eObj |-> <<1>>,nextE |-> 2]),
    ([valid |-> FALSE,op |-> <<"-", 0>>,res |-> "raise",directed |-> TRUE,cache |-> FALSE,nodes |-> {0, 1, 2},nextN |-> 3,root |-> 0,edges |-> <<<<1, 0>>>>,l |-> 90,eObj |-> <<1>>,nextE |-> 2]),
    ([valid |-> FALSE,op |-> <<"-", 0>>,res |-> "ok",directed |-> FALSE,cache |-> FALSE,nodes |-> {0, 1, 2},nextN |-> 3,root |-> 0,edges |-> <<<<1, 0>>>>,l |-> 91,eObj |-> <<1>>,nextE |-> 2]),
    ([valid |-> FALSE,op |-> <<"-", 0>>,res |-> "raise",directed |-> FALSE,cache |-> FALSE,nodes |-> {0, 1, 2},nextN |-> 3,root |-> 0,edges |-> <<<<1, 0>>>>,l |-> 92,eObj |-> <<1>>,nextE |-> 2]),
    ([valid |-> FALSE,op |-> <<"-", 0>>,res |-> "ok",directed |-> FALSE,cache |-> FALSE,nodes |-> {0, 1, 2},nextN |-> 3,root |-> 0,edges |-> <<<<1, 0>>>>,l |-> 93,eObj |-> <<1>>,nextE |-> 2]),
    ([valid |-> FALSE,op |-> <<"-", 0>>,res |-> "ok",directed |-> FALSE,cache |-> FALSE,nodes |-> {0, 1, 2},nextN |-> 3,root |-> 0,edges |-> <<<<1, 0>>>>,l |-> 94,eObj |-> <<1>>,nextE |-> 2]),
    ([valid |-> FALSE,op |-> <<"-", 0>>,res |-> "F",directed |-> FALSE,cache |-> FALSE,nodes |-> {0, 1, 2},nextN |-> 3,root |-> 0,edges |-> <<<<1, 0>>>>,l |-> 95,eObj |-> <<1>>,nextE |-> 2]),
    ([valid |-> FALSE,op |-> <<"-", 0>>,res |-> "F",directed |-> FALSE,cache |-> FALSE,nodes |-> {0, 1, 2},nextN |-> 3,root |-> 0,edges |-> <<<<1, 0>>>>,l |-> 96,eObj |-> <<1>>,nextE |-> 2]),
    ([valid |-> FALSE,op |-> <<"-", 0>>,res |-> "ok",directed |-> FALSE,cache |-> FALSE,nodes |-> {0, 1, 2},nextN |-> 3,root |-> 0,edges |-> <<<<1, 0>>>>,l |-> 97,eObj |-> <<1>>,nextE |-> 2]),
    ([valid |-> FALSE,op |-> <<"-", 0>>,res |-> "ok",directed |-> FALSE,cache |-> FALSE,nodes |-> {0, 2},nextN |-> 3,root |-> 0,edges |-> <<>>,l |-> 98,eObj |-> <<>>,nextE |-> 2]),
    ([valid |-> FALSE,op |-> <<"-", 0>>,res |-> "ok",directed |-> FALSE,cache |-> FALSE,nodes |-> {0, 2},nextN |-> 3,root |-> 0,edges |-> <<>>,l |-> 99,eObj |-> <<>>,nextE |-> 2]),
    ([valid |-> FALSE,op |-> <<"-", 0>>,res |-> "raise",directed |-> FALSE,cache |-> FALSE,nodes |-> {0, 2},nextN |-> 3,root |-> 0,edges |-> <<>>,l |-> 100,eObj |-> <<>>,nextE |-> 2]),
    ([valid |-> FALSE,op |-> <<"AddSon", 1>>,res |-> "ok",directed |-> FALSE,cache |-> FALSE,nodes |-> {0, 2},nextN |-> 3,root |-> 0,edges |-> (2 :> <<0, 0>>),l |-> 101,eObj |-> (2 :> 1),nextE |-> 3]),
    ([valid |-> FALSE,op |-> <<"-", 0>>,res |-> "F",directed |-> FALSE,cache |-> FALSE,nodes |-> {0, 2},nextN |-> 3,root |-> 0,edges |-> (2 :> <<0, 0>>),l |-> 102,eObj |-> (2 :> 1),nextE |-> 3]),
    ([valid |-> FALSE,op |-> <<"-", 0>>,res |-> "ok",directed |-> FALSE,cache |-> FALSE,nodes |-> {},nextN |-> 0,root |-> 0,edges |-> <<>>,l |-> 103,eObj |-> <<>>,nextE |-> 0]),
    ([valid |-> FALSE,op |-> <<"-", 0>>,res |-> "raise",directed |-> FALSE,cache |-> FALSE,nodes |-> {},nextN |-> 0,root |-> 0,edges |-> <<>>,l |-> 104,eObj |-> <<>>,nextE |-> 0]),
    ([valid |-> TRUE,op |-> <<"-", 0>>,res |-> "ok",directed |-> FALSE,cache |-> FALSE,nodes |-> {0},nextN |-> 1,root |-> 0,edges |-> <<>>,l |-> 105,eObj |-> <<>>,nextE |-> 0]),
    ([valid |-> TRUE,op |-> <<"-", 0>>,res |-> "ok",directed |-> FALSE,cache |-> FALSE,nodes |-> {0},nextN |-> 1,root |-> 0,edges |-> <<>>,l |-> 106,eObj |-> <<>>,nextE |-> 0]),
    ([valid |-> FALSE,op |-> <<"-", 0>>,res |-> "ok",directed |-> FALSE,cache |-> FALSE,nodes |-> {0, 1},nextN |-> 2,root |-> 0,edges |-> <<>>,l |-> 107,eObj |-> <<>>,nextE |-> 0]),
    ([valid |-> FALSE,op |-> <<"-", 0>>,res |-> "raise",directed |-> FALSE,cache |-> FALSE,nodes |-> {0, 1},nextN |-> 2,root |-> 0,edges |-> <<>>,l |-> 108,eObj |-> <<>>,nextE |-> 0]),
    ([valid |-> FALSE,op |-> <<"-", 0>>,res |-> "ok",directed |-> FALSE,cache |-> FALSE,nodes |-> {0, 1, 2},nextN |-> 3,root |-> 0,edges |-> <<>>,l |-> 109,eObj |-> <<>>,nextE |-> 0]),
    ([valid |-> FALSE,op |-> <<"-", 0>>,res |-> "raise",directed |-> FALSE,cache |-> FALSE,nodes |-> {0, 1, 2},nextN |-> 3,root |-> 0,edges |-> <<>>,l |-> 110,eObj |-> <<>>,nextE |-> 0]),
    ([valid |-> FALSE,op |-> <<"-", 0>>,res |-> "raise",directed |-> FALSE,cache |-> FALSE,nodes |-> {0, 1, 2},nextN |-> 3,root |-> 0,edges |-> <<>>,l |-> 111,eObj |-> <<>>,nextE |-> 0]),
    ([valid |-> FALSE,op |-> <<"-", 0>>,res |-> "ok",directed |-> FALSE,cache |-> FALSE,nodes |-> {0, 1, 2},nextN |-> 3,root |-> 0,edges |-> <<>>,l |-> 112,eObj |-> <<>>,nextE |-> 0]),
    ([valid |-> FALSE,op |-> <<"AddSon", 1>>,res |-> "ok",directed |-> FALSE,cache |-> FALSE,nodes |-> {0, 1, 2},nextN |-> 3,root |-> 0,edges |-> (0 :> <<1, 0>>),l |-> 113,eObj |-> (0 :> 1),nextE |-> 1]),
    ([valid |-> FALSE,op |-> <<"AddSon", 0>>,res |-> "ok",directed |-> FALSE,cache |-> FALSE,nodes |-> {0, 1, 2},nextN |-> 3,root |-> 0,edges |-> (0 :> <<1, 0>> @@ 1 :> <<2, 2>>),l |-> 114,eObj |-> (0 :> 1),nextE |-> 2]),
    ([valid |-> FALSE,op |-> <<"-", 0>>,res |-> "raise",directed |-> FALSE,cache |-> FALSE,nodes |-> {0, 1, 2},nextN |-> 3,root |-> 0,edges |-> (0 :> <<1, 0>> @@ 1 :> <<2, 2>>),l |-> 115,eObj |-> (0 :> 1),nextE |-> 2]),
    ([valid |-> FALSE,op |-> <<"-", 0>>,res |-> "raise",directed |-> FALSE,cache |-> FALSE,nodes |-> {0, 1, 2},nextN |-> 3,root |-> 0,edges |-> (0 :> <<1, 0>> @@ 1 :> <<2, 2>>),l |-> 116,eObj |-> (0 :> 1),nextE |-> 2]),
    ([valid |-> FALSE,op |-> <<"-", 0>>,res |-> "ok",directed |-> FALSE,cache |-> FALSE,nodes |-> {0, 1, 2},nextN |-> 3,root |-> 0,edges |-> (0 :> <<1, 0>>),l |-> 117,eObj |-> (0 :> 1),nextE |-> 2]),
    ([valid |-> FALSE,op |-> <<"-", 0>>,res |-> "ok",directed |-> FALSE,cache |-> FALSE,nodes |-> {0, 1, 2},nextN |-> 3,root |-> 0,edges |-> (0 :> <<1, 0>>),l |-> 118,eObj |-> (0 :> 1),nextE |-> 2]),
    ([valid |-> FALSE,op |-> <<"-", 0>>,res |-> "raise",directed |-> FALSE,cache |-> FALSE,nodes |-> {0, 1, 2},nextN |-> 3,root |-> 0,edges |-> (0 :> <<1, 0>>),l |-> 119,eObj |-> (0 :> 1),nextE |-> 2]),
    ([valid |-> TRUE,op |-> <<"AddSon", 0>>,res |-> "ok",directed |-> FALSE,cache |-> FALSE,nodes |-> {0, 1, 2},nextN |-> 3,root |-> 0,edges |-> (0 :> <<1, 0>> @@ 2 :> <<1, 2>>),l |-> 120,eObj |-> (0 :> 1),nextE |-> 3]),
    ([valid |-> TRUE,op |-> <<"-", 0>>,res |-> "raise",directed |-> FALSE,cache |-> FALSE,nodes |-> {0, 1, 2},nextN |-> 3,root |-> 0,edges |-> (0 :> <<1, 0>> @@ 2 :> <<1, 2>>),l |-> 121,eObj |-> (0 :> 1),nextE |-> 3]),
    ([valid |-> TRUE,op |-> <<"-", 0>>,res |-> "ok",directed |-> FALSE,cache |-> FALSE,nodes |-> {0, 1},nextN |-> 3,root |-> 0,edges |-> (0 :> <<1, 0>>),l |-> 122,eObj |-> (0 :> 1),nextE |-> 3]),
    ([valid |-> TRUE,op |-> <<"RootAt", 0>>,res |-> "ok",directed |-> TRUE,cache |-> FALSE,nodes |-> {0, 1},nextN |-> 3,root |-> 1,edges |-> (0 :> <<1, 0>>),l |-> 123,eObj |-> (0 :> 1),nextE |-> 3]),
    ([valid |-> FALSE,op |-> <<"-", 0>>,res |-> "ok",directed |-> TRUE,cache |-> FALSE,nodes |-> {0, 1},nextN |-> 3,root |-> 0,edges |-> (0 :> <<1, 0>>),l |-> 124,eObj |-> (0 :> 1),nextE |-> 3]),
    ([valid |-> FALSE,op |-> <<"-", 0>>,res |-> "F",directed |-> TRUE,cache |-> FALSE,nodes |-> {0, 1},nextN |-> 3,root |-> 0,edges |-> (0 :> <<1, 0>>),l |-> 125,eObj |-> (0 :> 1),nextE |-> 3]),
    ([valid |-> FALSE,op |-> <<"-", 0>>,res |-> "raise",directed |-> TRUE,cache |-> FALSE,nodes |-> {0, 1},nextN |-> 3,root |-> 0,edges |-> (0 :> <<1, 0>>),l |-> 126,eObj |-> (0 :> 1),nextE |-> 3]),
    ([valid |-> FALSE,op |-> <<"-", 0>>,res |-> "F",directed |-> TRUE,cache |-> FALSE,nodes |-> {0, 1},nextN |-> 3,root |-> 0,edges |-> (0 :> <<1, 0>>),l |-> 127,eObj |-> (0 :> 1),nextE |-> 3]),
    ([valid |-> FALSE,op |-> <<"-", 0>>,res |-> "ok",directed |-> TRUE,cache |-> FALSE,nodes |-> {0, 1},nextN |-> 3,root |-> 0,edges |-> (0 :> <<1, 0>>),l |-> 128,eObj |-> (0 :> 1),nextE |-> 3]),
    ([valid |-> FALSE,op |-> <<"-", 0>>,res |-> "raise",directed |-> TRUE,cache |-> FALSE,nodes |-> {0, 1},nextN |-> 3,root |-> 0,edges |-> (0 :> <<1, 0>>),l |-> 129,eObj |-> (0 :> 1),nextE |-> 3]),
    ([valid |-> FALSE,op |-> <<"AddSon", 0>>,res |-> "ok",directed |-> TRUE,cache |-> FALSE,nodes |-> {0, 1},nextN |-> 3,root |-> 0,edges |-> (0 :> <<1, 0>> @@ 3 :> <<0, 1>>),l |-> 130,eObj |-> (0 :> 1),nextE |-> 4]),
    ([valid |-> FALSE,op |-> <<"-", 0>>,res |-> "F",directed |-> TRUE,cache |-> FALSE,nodes |-> {0, 1},nextN |-> 3,root |-> 0,edges |-> (0 :> <<1, 0>> @@ 3 :> <<0, 1>>),l |-> 131,eObj |-> (0 :> 1),nextE |-> 4]),
    ([valid |-> FALSE,op |-> <<"-", 0>>,res |-> "ok",directed |-> TRUE,cache |-> FALSE,nodes |-> {},nextN |-> 0,root |-> 0,edges |-> <<>>,l |-> 132,eObj |-> <<>>,nextE |-> 0]),
    ([valid |-> FALSE,op |-> <<"-", 0>>,res |-> "F",directed |-> TRUE,cache |-> FALSE,nodes |-> {},nextN |-> 0,root |-> 0,edges |-> <<>>,l |-> 133,eObj |-> <<>>,nextE |-> 0]),
    ([valid |-> TRUE,op |-> <<"-", 0>>,res |-> "ok",directed |-> TRUE,cache |-> FALSE,nodes |-> {0},nextN |-> 1,root |-> 0,edges |-> <<>>,l |-> 134,eObj |-> <<>>,nextE |-> 0]),
    ([valid |-> TRUE,op |-> <<"-", 0>>,res |-> "ok",directed |-> TRUE,cache |-> FALSE,nodes |-> {0},nextN |-> 1,root |-> 0,edges |-> <<>>,l |-> 135,eObj |-> <<>>,nextE |-> 0]),
    ([valid |-> TRUE,op |-> <<"-", 0>>,res |-> "ok",directed |-> TRUE,cache |-> FALSE,nodes |-> {0},nextN |-> 1,root |-> 0,edges |-> <<>>,l |-> 136,eObj |-> <<>>,nextE |-> 0]),
    ([valid |-> TRUE,op |-> <<"-", 0>>,res |-> "ok",directed |-> TRUE,cache |-> FALSE,nodes |-> {0},nextN |-> 1,root |-> 0,edges |-> <<>>,l |-> 137,eObj |-> <<>>,nextE |-> 0]),
    ([valid |-> TRUE,op |-> <<"-", 0>>,res |-> "ok",directed |-> TRUE,cache |-> TRUE,nodes |-> {0},nextN |-> 1,root |-> 0,edges |-> <<>>,l |-> 138,eObj |-> <<>>,nextE |-> 0]),
    ([valid |-> TRUE,op |-> <<"-", 0>>,res |-> "ok",directed |-> TRUE,cache |-> TRUE,nodes |-> {0},nextN |-> 1,root |-> 0,edges |-> <<>>,l |-> 139,eObj |-> <<>>,nextE |-> 0]),
    ([valid |-> TRUE,op |-> <<"-", 0>>,res |-> "ok",directed |-> TRUE,cache |-> TRUE,nodes |-> {0},nextN |-> 1,root |-> 0,edges |-> <<>>,l |-> 140,eObj |-> <<>>,nextE |-> 0]),
    ([valid |-> FALSE,op |-> <<"-", 0>>,res |-> "ok",directed |-> TRUE,cache |-> FALSE,nodes |-> {0, 1},nextN |-> 2,root |-> 0,edges |-> <<>>,l |-> 141,eObj |-> <<>>,nextE |-> 0]),
    ([valid |-> FALSE,op |-> <<"-", 0>>,res |-> "raise",directed |-> TRUE,cache |-> FALSE,nodes |-> {0, 1},nextN |-> 2,root |-> 0,edges |-> <<>>,l |-> 142,eObj |-> <<>>,nextE |-> 0]),
    ([valid |-> FALSE,op |-> <<"-", 0>>,res |-> "T",directed |-> TRUE,cache |-> FALSE,nodes |-> {0, 1},nextN |-> 2,root |-> 0,edges |-> <<>>,l |-> 143,eObj |-> <<>>,nextE |-> 0])
    >>
----


=============================================================================

---- CONFIG TreeTrace_TTrace_1790491197 ----
CONSTANTS
    MaxN = 1000000
    MaxE = 1000000
    EObjs = { 1 , 2 , 3 , 4 , 5 , 6 , 7 , 8 , 9 , 10 , 11 , 12 , 13 , 14 , 15 , 16 }
    Forget = { }

INVARIANT
    _inv

CHECK_DEADLOCK
    \* CHECK_DEADLOCK off because of PROPERTY or INVARIANT above.
    FALSE

INIT
    _init

NEXT
    _next

CONSTANT
    _TETrace <- _trace

ALIAS
    _expression
=============================================================================
\* Generated on Sun Sep 27 06:40:00 UTC 2026