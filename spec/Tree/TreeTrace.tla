----------------------------- MODULE TreeTrace -----------------------------
\* Trace validation for the tree container: every event recorded by
\* harness/drv_tree.cpp from the real AssociationTreeGlobalGraphObserver /
\* TreeGlobalGraph must be a step of Tree.tla, the state read back from the
\* object after the call must be the model's state, and every answer of a
\* query must be what the definitions of TreeDefs give on the model's state.
\* Event: {"e":name, "a":[args], "r":"ok"|"raise"|"T"|"F"|..., "s":{state}, "rows":[...]}
\* State: d directed, root, n node ids, e <<id,top,bottom>>, o / i per-node
\*        outgoing / incoming neighbour lists (node table), eo <<edge,obj>>
\*        (observer id->object), oe <<obj,edge>> (observer object->id).
EXTENDS Tree, TraceLib, Integers

S == Ev.s

NoDup(s) == Cardinality(SeqToSet(s)) = Len(s)
Keys(ps) == {ps[i][1] : i \in DOMAIN ps}
Val(ps, k) == ps[CHOOSE i \in DOMAIN ps : ps[i][1] = k][2]

\* the state read back through public const queries = the model's next state
ProjOK ==
  /\ directed' = S.d /\ root' = S.root
  /\ NoDup(S.n) /\ nodes' = SeqToSet(S.n)
  /\ Keys(S.e) = DOMAIN edges' /\ Len(S.e) = Cardinality(DOMAIN edges')
  /\ \A i \in DOMAIN S.e :
       LET x == S.e[i] IN
         IF directed' THEN edges'[x[1]] = <<x[2], x[3]>>
                      ELSE Unordered(edges'[x[1]]) = {x[2], x[3]}          \* orientation is meaningless when unrooted
  \* node table and edge table tell the same story
  /\ Keys(S.o) = nodes' /\ Len(S.o) = Cardinality(nodes')
  /\ Keys(S.i) = nodes' /\ Len(S.i) = Cardinality(nodes')
  /\ \A n \in nodes' : /\ SeqToSet(Val(S.o, n)) = OutN(edges', directed', n)
                       /\ SeqToSet(Val(S.i, n)) = InN(edges', directed', n)
  \* attached edge objects, both maps of the observer
  /\ Keys(S.eo) = DOMAIN eObj' /\ Len(S.eo) = Cardinality(DOMAIN eObj')
  /\ \A e \in DOMAIN eObj' : Val(S.eo, e) = eObj'[e]
  /\ Keys(S.oe) = {eObj'[e] : e \in DOMAIN eObj'} /\ Len(S.oe) = Len(S.eo)
  /\ \A e \in DOMAIN eObj' : Val(S.oe, eObj'[e]) = e

Out == res' = Ev.r
Same == UNCHANGED vars

TReset == /\ IsEvent("Reset")
          /\ directed' = Ev.d /\ nodes' = {} /\ edges' = <<>> /\ nextN' = 0 /\ nextE' = 0 /\ root' = 0
          /\ eObj' = <<>> /\ valid' = FALSE /\ cache' = FALSE /\ res' = "ok" /\ op' = <<"-", None>>

TCreateNode == IsEvent("CreateNode") /\ CreateNode /\ Out /\ Ev.id = nextN /\ ProjOK
TAddSon     == IsEvent("AddSon") /\ AddSon(Ev.a[1], Ev.a[2], Ev.a[3]) /\ Out /\ ProjOK
TLink       == IsEvent("Link") /\ Link(Ev.a[1], Ev.a[2], Ev.a[3]) /\ Out /\ ProjOK
TSetFather  == IsEvent("SetFather") /\ SetFather(Ev.a[1], Ev.a[2], Ev.a[3]) /\ Out /\ ProjOK
TRemoveSon  == IsEvent("RemoveSon") /\ RemoveSon(Ev.a[1], Ev.a[2]) /\ Out /\ ProjOK
TUnlink     == IsEvent("Unlink") /\ RemoveSon(Ev.a[1], Ev.a[2]) /\ Out /\ ProjOK
TDeleteNode == IsEvent("DeleteNode") /\ DeleteNode(Ev.a[1]) /\ Out /\ ProjOK
TSetRoot    == IsEvent("SetRoot") /\ SetRoot(Ev.a[1]) /\ Out /\ ProjOK
TRootAt     == IsEvent("RootAt") /\ RootAt(Ev.a[1]) /\ Out /\ ProjOK
TUnRoot     == /\ IsEvent("UnRoot")
               /\ IF Ev.a[1] THEN (IF JoinPre THEN UnRootJoinOk(S.root) ELSE Raise) ELSE UnRootPlain
               /\ Out /\ ProjOK

TSetOutGroup == IsEvent("SetOutGroup") /\ SetOutGroup(Ev.a[1]) /\ Out /\ ProjOK
TRemoveSons  == /\ IsEvent("RemoveSons") /\ RemoveSons(Ev.a[1]) /\ Out /\ ProjOK
                /\ Ev.r = "ok" => SeqToSet(Ev.sons) = OutN(edges, directed, Ev.a[1])   \* the removed sons are returned

\* isValid(): the answer must be the definition; with a dangling root the call
\* may raise instead (DESIGN 2h)
TQValid == /\ IsEvent("QValid")
           /\ \/ /\ Ev.r \in {"T", "F"} /\ res' = Ev.r                  \* the answer is adopted; ValidExact judges it
                 /\ cache' = Valid /\ NoOp /\ UNCHANGED <<gvars, valid>>
              \/ root \notin nodes /\ Ev.r = "raise" /\ res' = "raise" /\ NoOp /\ UNCHANGED <<gvars, valid, cache>>
           /\ ProjOK
TQRooted == IsEvent("QRooted") /\ QStruct /\ Ev.r = B(directed) /\ ProjOK

\* ---- structural queries: asserted on valid rooted trees; rows are checked one by one
Rooted == directed /\ valid
TQFather ==
  /\ IsEvent("QFather") /\ Rooted /\ QStruct /\ ProjOK
  /\ \A i \in DOMAIN Ev.rows :
       LET x == Ev.rows[i]  n == x[1] IN
         /\ n \in nodes /\ x[2] = HasFather(edges, n)
         /\ IF HasFather(edges, n)
            THEN /\ x[3] = Father(edges, n) /\ x[4] = EdgeToFather(edges, n)
                 /\ x[5] = (IF x[4] \in DOMAIN eObj THEN eObj[x[4]] ELSE None)       \* observer.getEdgeToFather
                 /\ x[6] = x[5]                                                     \* observer.getEdgeLinking(father, n)
            ELSE x[3] = -1 /\ x[4] = -1                                             \* the root: both calls raise
TQSons ==
  /\ IsEvent("QSons") /\ Rooted /\ QStruct /\ ProjOK
  /\ \A i \in DOMAIN Ev.rows :
       LET x == Ev.rows[i]  n == x[1] IN
         /\ n \in nodes
         /\ SeqToSet(x[2]) = Sons(edges, n) /\ NoDup(x[2])
         /\ SeqToSet(x[3]) = Branches(edges, n) /\ NoDup(x[3])
         /\ x[4] = Cardinality(Sons(edges, n))
         /\ x[5] = (Sons(edges, n) = {})                                            \* isLeaf in a rooted tree
         /\ SeqToSet(x[6]) = Sons(edges, n) /\ NoDup(x[6])                          \* sonsIterator
         /\ SeqToSet(x[7]) = Branches(edges, n) /\ NoDup(x[7])                      \* branchesIterator
TQLeaves ==
  /\ IsEvent("QLeaves") /\ Rooted /\ QStruct /\ ProjOK
  /\ \A i \in DOMAIN Ev.rows :
       LET x == Ev.rows[i] IN x[1] \in nodes /\ SeqToSet(x[2]) = LeavesUnder(edges, x[1]) /\ NoDup(x[2])
\* getSubtreeNodes / getSubtreeEdges: refused on an invalid tree
TQSub ==
  /\ IsEvent("QSub") /\ (valid => directed) /\ Len(Ev.rows) = 1
  /\ LET x == Ev.rows[1] IN
       /\ QSub(x[1]) /\ res' = x[2] /\ res' = x[5]
       /\ valid => /\ SeqToSet(x[3]) = Desc(edges, x[1]) /\ NoDup(x[3])
                   /\ SeqToSet(x[4]) = SubEdges(edges, x[1]) /\ NoDup(x[4])
  /\ ProjOK
TQPath ==
  /\ IsEvent("QPath") /\ Rooted /\ QStruct /\ ProjOK
  /\ LET D == DescTable(nodes, edges) IN
     \A i \in DOMAIN Ev.rows :
       LET x == Ev.rows[i]  a == x[1]  b == x[2]
           m == MrcaT(D, {a, b})
           p == NodePathVia(edges, a, b, m) IN
         /\ a \in nodes /\ b \in nodes
         /\ IsNodePath(edges, x[3], a, b)                                           \* the definition
         /\ x[3] = p                                                                \* (unique in a tree)
         /\ x[4] = Without(p, m)                                                    \* includeAncestor = false
         /\ IsEdgePath(edges, x[5], p) /\ x[5] = EdgesAlong(edges, p)
TQMrca ==
  /\ IsEvent("QMrca") /\ Rooted /\ QStruct /\ ProjOK
  /\ LET D == DescTable(nodes, edges) IN
     \A i \in DOMAIN Ev.rows :
       LET x == Ev.rows[i]  Q == SeqToSet(x[1]) IN
         /\ Q # {} /\ Q \subseteq nodes
         /\ x[2] = MrcaT(D, Q)                                                      \* graph level
         /\ x[3] = x[2]                                                             \* observer level

\* ---- the same questions asked through the observer, with node / edge OBJECTS
\* (edge-object answers list the objects of the edges that carry one)
ObjsOf(Es) == {eObj[e] : e \in Es \cap DOMAIN eObj}
TQObj ==
  /\ IsEvent("QObj") /\ Rooted /\ QStruct /\ ProjOK
  /\ \A i \in DOMAIN Ev.rows :
       LET x == Ev.rows[i]  n == x[1] IN
         /\ n \in nodes
         /\ SeqToSet(x[2]) = Sons(edges, n) /\ NoDup(x[2])                         \* getSons(object)
         /\ SeqToSet(x[3]) = ObjsOf(Branches(edges, n)) /\ NoDup(x[3])             \* getBranches(object)
         /\ SeqToSet(x[4]) = LeavesUnder(edges, n) /\ NoDup(x[4])                  \* getLeavesUnderNode(object)
         /\ x[5] = Cardinality(Sons(edges, n)) /\ x[6] = HasFather(edges, n)
         /\ SeqToSet(x[7]) = Desc(edges, n) /\ NoDup(x[7])                         \* getSubtreeNodes(object)
         /\ SeqToSet(x[8]) = ObjsOf(SubEdges(edges, n)) /\ NoDup(x[8])             \* getSubtreeEdges(object)
         /\ SeqToSet(x[9]) = Sons(edges, n)                                        \* sonsIterator(object)
         /\ SeqToSet(x[10]) = ObjsOf(Branches(edges, n))                           \* branchesIterator(object)
TQEdgeObj ==
  /\ IsEvent("QEdgeObj") /\ directed /\ QStruct /\ ProjOK
  /\ {Ev.rows[i][1] : i \in DOMAIN Ev.rows} = {eObj[e] : e \in DOMAIN eObj}        \* one row per attached object
  /\ \A i \in DOMAIN Ev.rows :
       LET x == Ev.rows[i]  e == CHOOSE f \in DOMAIN eObj : eObj[f] = x[1] IN
         /\ x[2] = edges[e][2] /\ x[3] = edges[e][1]                               \* getSon / getFatherOfEdge
         /\ <<x[4], x[5]>> = edges[e]                                              \* getNodes(object)
TQPathObj ==
  /\ IsEvent("QPathObj") /\ Rooted /\ QStruct /\ ProjOK
  /\ LET D == DescTable(nodes, edges) IN
     \A i \in DOMAIN Ev.rows :
       LET x == Ev.rows[i]  a == x[1]  b == x[2]
           m == MrcaT(D, {a, b})
           p == NodePathVia(edges, a, b, m)
           q == EdgesAlong(edges, p) IN
         /\ x[3] = p /\ x[4] = Without(p, m)
         /\ x[5] = [j \in 1..Len(SelectSeq(q, LAMBDA e : e \in DOMAIN eObj)) |->
                      eObj[SelectSeq(q, LAMBDA e : e \in DOMAIN eObj)[j]]]

TraceNext == TSetOutGroup \/ TRemoveSons \/ TQObj \/ TQEdgeObj \/ TQPathObj \/ TReset \/ TCreateNode \/ TAddSon \/ TLink \/ TSetFather \/ TRemoveSon \/ TUnlink \/ TDeleteNode
             \/ TSetRoot \/ TRootAt \/ TUnRoot \/ TQValid \/ TQRooted
             \/ TQFather \/ TQSons \/ TQLeaves \/ TQSub \/ TQPath \/ TQMrca
TraceInit == Init /\ directed = TRUE /\ l = 1
TraceSpec == TraceInit /\ [][TraceNext]_<<vars, l>>
=============================================================================
