----------------------------- MODULE TreeTrace -----------------------------
\* Trace validation for the tree container: every event recorded by
\* harness/drv_tree.cpp from the real AssociationTreeGlobalGraphObserver /
\* TreeGlobalGraph must be a step of Tree.tla, the state read back from the
\* object after the call must be the model's state, and every answer of a
\* query must be what the definitions of TreeDefs give on the model's state.
\* Event: {"e":name, "a":[args], "r":"ok"|"raise"|"T"|"F"|..., "s":{state}, "rows":[...]}
\* State: d directed, root, n node ids, e <<id,top,bottom>>, o / i per-node
\*        outgoing / incoming neighbour lists (node table), eo <<edge,obj>>
\*        (observer id->object), oe <<obj,edge>> (observer object->id).
EXTENDS Tree, TraceLib, Integers

S == Ev.s

\* Several containers in one scenario (copies): the Tree variables describe the CURRENT
\* container `cur`, the others are parked in `saved` (id -> record of their variables).
\* "Switch" parks the current one and loads another; "Copy" parks a copy of the current
\* one under a new (copy construction) or existing (assignment) id; "Watch" compares the
\* state read back from a parked container with its record (CopyIndependent: it is
\* logged after every edit of another container).
VARIABLES saved, cur
Rec == [directed |-> directed, nodes |-> nodes, edges |-> edges, nextN |-> nextN, nextE |-> nextE,
        root |-> root, eObj |-> eObj, valid |-> valid, cache |-> cache]

NoDup(s) == Cardinality(SeqToSet(s)) = Len(s)
Keys(ps) == {ps[i][1] : i \in DOMAIN ps}
Val(ps, k) == ps[CHOOSE i \in DOMAIN ps : ps[i][1] = k][2]

\* the state read back through public const queries = the state st of the model
ProjRec(st, P) ==
  /\ st.directed = P.d /\ st.root = P.root
  /\ NoDup(P.n) /\ st.nodes = SeqToSet(P.n)
  /\ Keys(P.e) = DOMAIN st.edges /\ Len(P.e) = Cardinality(DOMAIN st.edges)
  /\ \A i \in DOMAIN P.e :
       LET x == P.e[i] IN
         IF st.directed THEN st.edges[x[1]] = <<x[2], x[3]>>
                        ELSE Unordered(st.edges[x[1]]) = {x[2], x[3]}          \* orientation is meaningless when unrooted
  \* node table and edge table tell the same story
  /\ Keys(P.o) = st.nodes /\ Len(P.o) = Cardinality(st.nodes)
  /\ Keys(P.i) = st.nodes /\ Len(P.i) = Cardinality(st.nodes)
  /\ \A n \in st.nodes : /\ SeqToSet(Val(P.o, n)) = OutN(st.edges, st.directed, n)
                          /\ SeqToSet(Val(P.i, n)) = InN(st.edges, st.directed, n)
  \* attached edge objects, both maps of the observer
  /\ Keys(P.eo) = DOMAIN st.eObj /\ Len(P.eo) = Cardinality(DOMAIN st.eObj)
  /\ \A e \in DOMAIN st.eObj : Val(P.eo, e) = st.eObj[e]
  /\ Keys(P.oe) = {st.eObj[e] : e \in DOMAIN st.eObj} /\ Len(P.oe) = Len(P.eo)
  /\ \A e \in DOMAIN st.eObj : Val(P.oe, st.eObj[e]) = e
ProjOK == ProjRec([directed |-> directed', nodes |-> nodes', edges |-> edges', root |-> root', eObj |-> eObj'], S)

Out == res' = Ev.r
Same == UNCHANGED vars

TReset == /\ IsEvent("Reset")
          /\ directed' = Ev.d /\ nodes' = {} /\ edges' = <<>> /\ nextN' = 0 /\ nextE' = 0 /\ root' = 0
          /\ eObj' = <<>> /\ valid' = FALSE /\ cache' = FALSE /\ res' = "ok" /\ op' = <<"-", None>>
          /\ saved' = <<>> /\ cur' = 0

Load(st) == /\ directed' = st.directed /\ nodes' = st.nodes /\ edges' = st.edges /\ nextN' = st.nextN
            /\ nextE' = st.nextE /\ root' = st.root /\ eObj' = st.eObj /\ valid' = st.valid /\ cache' = st.cache
            /\ res' = "ok" /\ op' = <<"-", None>>
TSwitch == /\ IsEvent("Switch") /\ Ev.to \in DOMAIN saved /\ Ev.to # cur
           /\ saved' = [o \in (DOMAIN saved \cup {cur}) \ {Ev.to} |-> IF o = cur THEN Rec ELSE saved[o]]
           /\ cur' = Ev.to /\ Load(saved[Ev.to])
\* copy construction / clone / assignment of the graph container: structure, id counters
\* and cached flag of the source; edge objects live in observers, a fresh copy has none.
\* The copy read back right away must be the source's graph (CopyEqual).
TCopy == /\ IsEvent("Copy") /\ Ev.src = cur /\ Ev.dst # cur
         /\ (Ev.how = "assign") = (Ev.dst \in DOMAIN saved)
         /\ saved' = [o \in DOMAIN saved \cup {Ev.dst} |-> IF o = Ev.dst THEN [Rec EXCEPT !.eObj = <<>>] ELSE saved[o]]
         /\ ProjRec(saved'[Ev.dst], S)
         /\ UNCHANGED <<vars, cur>>
TWatch == /\ IsEvent("Watch") /\ Ev.obj \in DOMAIN saved
          /\ ProjRec(saved[Ev.obj], S)
          /\ UNCHANGED <<vars, saved, cur>>
\* a copy of the OBSERVER is a second view on the same graph with copies of the objects:
\* asked about the current container it answers like the model; its edge objects are
\* those attached when it was made (Ev.fresh) minus what was deleted since
TQView ==
  /\ IsEvent("QView") /\ QStruct /\ ProjOK
  /\ Ev.d = B(directed)
  /\ Ev.v \in {"T", "F"} => (Ev.v = "T") = valid
  /\ \A i \in DOMAIN Ev.eo : Ev.eo[i][1] \in DOMAIN eObj /\ eObj[Ev.eo[i][1]] = Ev.eo[i][2]
  /\ Ev.fresh => Keys(Ev.eo) = DOMAIN eObj
  \* the view knows the nodes it was made with (not those created since), forgets deleted ones,
  \* and lists the objects it knows
  /\ LET K == SeqToSet(Ev.known) IN
       /\ K \subseteq nodes /\ (Ev.fresh => K = nodes)
       /\ {Ev.rows[i][1] : i \in DOMAIN Ev.rows} = K
       /\ (directed /\ valid) => \A i \in DOMAIN Ev.rows :
            LET x == Ev.rows[i]  n == x[1] IN
              /\ SeqToSet(x[2]) = Sons(edges, n) \cap K
              /\ x[3] = (IF HasFather(edges, n) /\ Father(edges, n) \in K THEN Father(edges, n) ELSE -1)
              /\ SeqToSet(x[4]) = LeavesUnder(edges, n) \cap K

TCreateNode == IsEvent("CreateNode") /\ CreateNode /\ Out /\ Ev.id = nextN /\ ProjOK
TAddSon     == IsEvent("AddSon") /\ AddSon(Ev.a[1], Ev.a[2], Ev.a[3]) /\ Out /\ ProjOK
TLink       == IsEvent("Link") /\ Link(Ev.a[1], Ev.a[2], Ev.a[3]) /\ Out /\ ProjOK
TSetFather  == IsEvent("SetFather") /\ SetFather(Ev.a[1], Ev.a[2], Ev.a[3]) /\ Out /\ ProjOK
TRemoveSon  == IsEvent("RemoveSon") /\ RemoveSon(Ev.a[1], Ev.a[2]) /\ Out /\ ProjOK
TUnlink     == IsEvent("Unlink") /\ RemoveSon(Ev.a[1], Ev.a[2]) /\ Out /\ ProjOK
TDeleteNode == IsEvent("DeleteNode") /\ DeleteNode(Ev.a[1]) /\ Out /\ ProjOK
TSetRoot    == IsEvent("SetRoot") /\ SetRoot(Ev.a[1]) /\ Out /\ ProjOK
TRootAt     == IsEvent("RootAt") /\ RootAt(Ev.a[1]) /\ Out /\ ProjOK
TUnRoot     == /\ IsEvent("UnRoot")
               /\ IF Ev.a[1] THEN (IF JoinPre THEN UnRootJoinOk(S.root) ELSE Raise) ELSE UnRootPlain
               /\ Out /\ ProjOK

TSetOutGroup == IsEvent("SetOutGroup") /\ SetOutGroup(Ev.a[1]) /\ Out /\ ProjOK
TRemoveSons  == /\ IsEvent("RemoveSons") /\ RemoveSons(Ev.a[1]) /\ Out /\ ProjOK
                /\ Ev.r = "ok" => SeqToSet(Ev.sons) = OutN(edges, directed, Ev.a[1])   \* the removed sons are returned

\* isValid(): the answer must be the definition; with a dangling root the call
\* may raise instead (DESIGN 2h)
TQValid == /\ IsEvent("QValid")
           /\ \/ /\ Ev.r \in {"T", "F"} /\ res' = Ev.r                  \* the answer is adopted; ValidExact judges it
                 /\ cache' = Valid /\ NoOp /\ UNCHANGED <<gvars, valid>>
              \/ root \notin nodes /\ Ev.r = "raise" /\ res' = "raise" /\ NoOp /\ UNCHANGED <<gvars, valid, cache>>
           /\ ProjOK
TQRooted == IsEvent("QRooted") /\ QStruct /\ Ev.r = B(directed) /\ ProjOK

\* ---- structural queries: asserted on valid rooted trees; rows are checked one by one
Rooted == directed /\ valid
TQFather ==
  /\ IsEvent("QFather") /\ Rooted /\ QStruct /\ ProjOK
  /\ \A i \in DOMAIN Ev.rows :
       LET x == Ev.rows[i]  n == x[1] IN
         /\ n \in nodes /\ x[2] = HasFather(edges, n)
         /\ IF HasFather(edges, n)
            THEN /\ x[3] = Father(edges, n) /\ x[4] = EdgeToFather(edges, n)
                 /\ x[5] = (IF x[4] \in DOMAIN eObj THEN eObj[x[4]] ELSE None)       \* observer.getEdgeToFather
                 /\ x[6] = x[5]                                                     \* observer.getEdgeLinking(father, n)
            ELSE x[3] = -1 /\ x[4] = -1                                             \* the root: both calls raise
TQSons ==
  /\ IsEvent("QSons") /\ Rooted /\ QStruct /\ ProjOK
  /\ \A i \in DOMAIN Ev.rows :
       LET x == Ev.rows[i]  n == x[1] IN
         /\ n \in nodes
         /\ SeqToSet(x[2]) = Sons(edges, n) /\ NoDup(x[2])
         /\ SeqToSet(x[3]) = Branches(edges, n) /\ NoDup(x[3])
         /\ x[4] = Cardinality(Sons(edges, n))
         /\ x[5] = (Sons(edges, n) = {})                                            \* isLeaf in a rooted tree
         /\ SeqToSet(x[6]) = Sons(edges, n) /\ NoDup(x[6])                          \* sonsIterator
         /\ SeqToSet(x[7]) = Branches(edges, n) /\ NoDup(x[7])                      \* branchesIterator
TQLeaves ==
  /\ IsEvent("QLeaves") /\ Rooted /\ QStruct /\ ProjOK
  /\ \A i \in DOMAIN Ev.rows :
       LET x == Ev.rows[i] IN x[1] \in nodes /\ SeqToSet(x[2]) = LeavesUnder(edges, x[1]) /\ NoDup(x[2])
\* getSubtreeNodes / getSubtreeEdges: refused on an invalid tree
TQSub ==
  /\ IsEvent("QSub") /\ (valid => directed) /\ Len(Ev.rows) = 1
  /\ LET x == Ev.rows[1] IN
       /\ QSub(x[1]) /\ res' = x[2] /\ res' = x[5]
       /\ valid => /\ SeqToSet(x[3]) = Desc(edges, x[1]) /\ NoDup(x[3])
                   /\ SeqToSet(x[4]) = SubEdges(edges, x[1]) /\ NoDup(x[4])
  /\ ProjOK
TQPath ==
  /\ IsEvent("QPath") /\ Rooted /\ QStruct /\ ProjOK
  /\ LET D == DescTable(nodes, edges) IN
     \A i \in DOMAIN Ev.rows :
       LET x == Ev.rows[i]  a == x[1]  b == x[2]
           m == MrcaT(D, {a, b})
           p == NodePathVia(edges, a, b, m) IN
         /\ a \in nodes /\ b \in nodes
         /\ IsNodePath(edges, x[3], a, b)                                           \* the definition
         /\ x[3] = p                                                                \* (unique in a tree)
         /\ x[4] = Without(p, m)                                                    \* includeAncestor = false
         /\ IsEdgePath(edges, x[5], p) /\ x[5] = EdgesAlong(edges, p)
TQMrca ==
  /\ IsEvent("QMrca") /\ Rooted /\ QStruct /\ ProjOK
  /\ LET D == DescTable(nodes, edges) IN
     \A i \in DOMAIN Ev.rows :
       LET x == Ev.rows[i]  Q == SeqToSet(x[1]) IN
         /\ Q # {} /\ Q \subseteq nodes
         /\ x[2] = MrcaT(D, Q)                                                      \* graph level
         /\ x[3] = x[2]                                                             \* observer level

\* ---- the same questions asked through the observer, with node / edge OBJECTS
\* (edge-object answers list the objects of the edges that carry one)
ObjsOf(Es) == {eObj[e] : e \in Es \cap DOMAIN eObj}
TQObj ==
  /\ IsEvent("QObj") /\ Rooted /\ QStruct /\ ProjOK
  /\ \A i \in DOMAIN Ev.rows :
       LET x == Ev.rows[i]  n == x[1] IN
         /\ n \in nodes
         /\ SeqToSet(x[2]) = Sons(edges, n) /\ NoDup(x[2])                         \* getSons(object)
         /\ SeqToSet(x[3]) = ObjsOf(Branches(edges, n)) /\ NoDup(x[3])             \* getBranches(object)
         /\ SeqToSet(x[4]) = LeavesUnder(edges, n) /\ NoDup(x[4])                  \* getLeavesUnderNode(object)
         /\ x[5] = Cardinality(Sons(edges, n)) /\ x[6] = HasFather(edges, n)
         /\ SeqToSet(x[7]) = Desc(edges, n) /\ NoDup(x[7])                         \* getSubtreeNodes(object)
         /\ SeqToSet(x[8]) = ObjsOf(SubEdges(edges, n)) /\ NoDup(x[8])             \* getSubtreeEdges(object)
         /\ SeqToSet(x[9]) = Sons(edges, n)                                        \* sonsIterator(object)
         /\ SeqToSet(x[10]) = ObjsOf(Branches(edges, n))                           \* branchesIterator(object)
TQEdgeObj ==
  /\ IsEvent("QEdgeObj") /\ directed /\ QStruct /\ ProjOK
  /\ {Ev.rows[i][1] : i \in DOMAIN Ev.rows} = {eObj[e] : e \in DOMAIN eObj}        \* one row per attached object
  /\ \A i \in DOMAIN Ev.rows :
       LET x == Ev.rows[i]  e == CHOOSE f \in DOMAIN eObj : eObj[f] = x[1] IN
         /\ x[2] = edges[e][2] /\ x[3] = edges[e][1]                               \* getSon / getFatherOfEdge
         /\ <<x[4], x[5]>> = edges[e]                                              \* getNodes(object)
TQPathObj ==
  /\ IsEvent("QPathObj") /\ Rooted /\ QStruct /\ ProjOK
  /\ LET D == DescTable(nodes, edges) IN
     \A i \in DOMAIN Ev.rows :
       LET x == Ev.rows[i]  a == x[1]  b == x[2]
           m == MrcaT(D, {a, b})
           p == NodePathVia(edges, a, b, m)
           q == EdgesAlong(edges, p) IN
         /\ x[3] = p /\ x[4] = Without(p, m)
         /\ x[5] = [j \in 1..Len(SelectSeq(q, LAMBDA e : e \in DOMAIN eObj)) |->
                      eObj[SelectSeq(q, LAMBDA e : e \in DOMAIN eObj)[j]]]

Single == TSetOutGroup \/ TRemoveSons \/ TQObj \/ TQEdgeObj \/ TQPathObj \/ TQView
          \/ TCreateNode \/ TAddSon \/ TLink \/ TSetFather \/ TRemoveSon \/ TUnlink \/ TDeleteNode
          \/ TSetRoot \/ TRootAt \/ TUnRoot \/ TQValid \/ TQRooted
          \/ TQFather \/ TQSons \/ TQLeaves \/ TQSub \/ TQPath \/ TQMrca
TraceNext == (Single /\ UNCHANGED <<saved, cur>>) \/ TReset \/ TSwitch \/ TCopy \/ TWatch
TraceInit == Init /\ directed = TRUE /\ l = 1 /\ saved = <<>> /\ cur = 0
TraceSpec == TraceInit /\ [][TraceNext]_<<vars, l, saved, cur>>
=============================================================================
