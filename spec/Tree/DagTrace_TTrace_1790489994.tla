---- MODULE DagTrace_TTrace_1790489994 ----
EXTENDS Sequences, TLCExt, Toolbox, Naturals, TLC, DagTrace

_expression ==
    LET DagTrace_TEExpression == INSTANCE DagTrace_TEExpression
    IN DagTrace_TEExpression!expression
----

_trace ==
    LET DagTrace_TETrace == INSTANCE DagTrace_TETrace
    IN DagTrace_TETrace!trace
----

_inv ==
    ~(
        TLCGet("level") = Len(_TETrace)
        /\
        res = ("RT")
        /\
        cacheV = (FALSE)
        /\
        nodes = ({0, 1})
        /\
        cacheR = (FALSE)
        /\
        nextN = (2)
        /\
        edges = (<<>>)
        /\
        acyclic = (TRUE)
        /\
        l = (496)
        /\
        eObj = (<<>>)
        /\
        nextE = (0)
    )
----

_init ==
    /\ acyclic = _TETrace[1].acyclic
    /\ l = _TETrace[1].l
    /\ nodes = _TETrace[1].nodes
    /\ res = _TETrace[1].res
    /\ eObj = _TETrace[1].eObj
    /\ edges = _TETrace[1].edges
    /\ cacheR = _TETrace[1].cacheR
    /\ cacheV = _TETrace[1].cacheV
    /\ nextE = _TETrace[1].nextE
    /\ nextN = _TETrace[1].nextN
----

_next ==
    /\ \E i,j \in DOMAIN _TETrace:
        /\ \/ /\ j = i + 1
              /\ i = TLCGet("level")
        /\ acyclic  = _TETrace[i].acyclic
        /\ acyclic' = _TETrace[j].acyclic
        /\ l  = _TETrace[i].l
        /\ l' = _TETrace[j].l
        /\ nodes  = _TETrace[i].nodes
        /\ nodes' = _TETrace[j].nodes
        /\ res  = _TETrace[i].res
        /\ res' = _TETrace[j].res
        /\ eObj  = _TETrace[i].eObj
        /\ eObj' = _TETrace[j].eObj
        /\ edges  = _TETrace[i].edges
        /\ edges' = _TETrace[j].edges
        /\ cacheR  = _TETrace[i].cacheR
        /\ cacheR' = _TETrace[j].cacheR
        /\ cacheV  = _TETrace[i].cacheV
        /\ cacheV' = _TETrace[j].cacheV
        /\ nextE  = _TETrace[i].nextE
        /\ nextE' = _TETrace[j].nextE
        /\ nextN  = _TETrace[i].nextN
        /\ nextN' = _TETrace[j].nextN

\* Uncomment the ASSUME below to write the states of the error trace
\* to the given file in Json format. Note that you can pass any tuple
\* to `JsonSerialize`. For example, a sub-sequence of _TETrace.
    \* ASSUME
    \*     LET J == INSTANCE Json
    \*         IN J!JsonSerialize("DagTrace_TTrace_1790489994.json", _TETrace)

=============================================================================

 Note that you can extract this module `DagTrace_TEExpression`
  to a dedicated file to reuse `expression` (the module in the 
  dedicated `DagTrace_TEExpression.tla` file takes precedence 
  over the module `DagTrace_TEExpression` below).

---- MODULE DagTrace_TEExpression ----
EXTENDS Sequences, TLCExt, Toolbox, Naturals, TLC, DagTrace

expression == 
    [
        \* To hide variables of the `DagTrace` spec from the error trace,
        \* remove the variables below.  The trace will be written in the order
        \* of the fields of this record.
        acyclic |-> acyclic
        ,l |-> l
        ,nodes |-> nodes
        ,res |-> res
        ,eObj |-> eObj
        ,edges |-> edges
        ,cacheR |-> cacheR
        ,cacheV |-> cacheV
        ,nextE |-> nextE
        ,nextN |-> nextN
        
        \* Put additional constant-, state-, and action-level expressions here:
        \* ,_stateNumber |-> _TEPosition
        \* ,_acyclicUnchanged |-> acyclic = acyclic'
        
        \* Format the `acyclic` variable as Json value.
        \* ,_acyclicJson |->
        \*     LET J == INSTANCE Json
        \*     IN J!ToJson(acyclic)
        
        \* Lastly, you may build expressions over arbitrary sets of states by
        \* leveraging the _TETrace operator.  For example, this is how to
        \* count the number of times a spec variable changed up to the current
        \* state in the trace.
        \* ,_acyclicModCount |->
        \*     LET F[s \in DOMAIN _TETrace] ==
        \*         IF s = 1 THEN 0
        \*         ELSE IF _TETrace[s].acyclic # _TETrace[s-1].acyclic
        \*             THEN 1 + F[s-1] ELSE F[s-1]
        \*     IN F[_TEPosition - 1]
    ]

=============================================================================



Parsing and semantic processing can take forever if the trace below is long.
 In this case, it is advised to uncomment the module below to deserialize the
 trace from a generated binary file.

\*
\*---- MODULE DagTrace_TETrace ----
\*EXTENDS IOUtils, TLC, DagTrace
\*
\*trace == IODeserialize("DagTrace_TTrace_1790489994.bin", TRUE)
\*
\*=============================================================================
\*

---- MODULE DagTrace_TETrace ----
EXTENDS TLC, DagTrace

trace == 
    <<
    ([res |-> "ok",cacheV |-> FALSE,nodes |-> {},cacheR |-> FALSE,nextN |-> 0,edges |-> <<>>,acyclic |-> TRUE,l |-> 1,eObj |-> <<>>,nextE |-> 0]),
    ([res |-> "ok",cacheV |-> FALSE,nodes |-> {},cacheR |-> FALSE,nextN |-> 0,edges |-> <<>>,acyclic |-> TRUE,l |-> 2,eObj |-> <<>>,nextE |-> 0]),
    ([res |-> "ok",cacheV |-> FALSE,nodes |-> {0},cacheR |-> FALSE,nextN |-> 1,edges |-> <<>>,acyclic |-> TRUE,l |-> 3,eObj |-> <<>>,nextE |-> 0]),
    ([res |-> "ok",cacheV |-> FALSE,nodes |-> {0, 1},cacheR |-> FALSE,nextN |-> 2,edges |-> <<>>,acyclic |-> TRUE,l |-> 4,eObj |-> <<>>,nextE |-> 0]),
    ([res |-> "ok",cacheV |-> FALSE,nodes |-> {0, 1, 2},cacheR |-> FALSE,nextN |-> 3,edges |-> <<>>,acyclic |-> TRUE,l |-> 5,eObj |-> <<>>,nextE |-> 0]),
    ([res |-> "ok",cacheV |-> FALSE,nodes |-> {0, 1, 2, 3},cacheR |-> FALSE,nextN |-> 4,edges |-> <<>>,acyclic |-> TRUE,l |-> 6,eObj |-> <<>>,nextE |-> 0]),
    ([res |-> "ok",cacheV |-> FALSE,nodes |-> {0, 1, 2, 3, 4},cacheR |-> FALSE,nextN |-> 5,edges |-> <<>>,acyclic |-> TRUE,l |-> 7,eObj |-> <<>>,nextE |-> 0]),
    ([res |-> "ok",cacheV |-> FALSE,nodes |-> {0, 1, 2, 3, 4, 5},cacheR |-> FALSE,nextN |-> 6,edges |-> <<>>,acyclic |-> TRUE,l |-> 8,eObj |-> <<>>,nextE |-> 0]),
    ([res |-> "ok",cacheV |-> FALSE,nodes |-> {0, 1, 2, 3, 4, 5},cacheR |-> FALSE,nextN |-> 6,edges |-> (0 :> <<1, 3>>),acyclic |-> TRUE,l |-> 9,eObj |-> <<>>,nextE |-> 1]),
    ([res |-> "ok",cacheV |-> FALSE,nodes |-> {0, 1, 2, 3, 4, 5},cacheR |-> FALSE,nextN |-> 6,edges |-> (0 :> <<1, 3>> @@ 1 :> <<5, 3>>),acyclic |-> TRUE,l |-> 10,eObj |-> <<>>,nextE |-> 2]),
    ([res |-> "ok",cacheV |-> FALSE,nodes |-> {0, 1, 2, 3, 4, 5},cacheR |-> FALSE,nextN |-> 6,edges |-> (0 :> <<1, 3>> @@ 1 :> <<5, 3>> @@ 2 :> <<3, 2>>),acyclic |-> TRUE,l |-> 11,eObj |-> (2 :> 1),nextE |-> 3]),
    ([res |-> "ok",cacheV |-> FALSE,nodes |-> {0, 1, 2, 3, 4, 5},cacheR |-> FALSE,nextN |-> 6,edges |-> (0 :> <<1, 3>> @@ 1 :> <<5, 3>> @@ 2 :> <<3, 2>> @@ 3 :> <<0, 1>>),acyclic |-> TRUE,l |-> 12,eObj |-> (2 :> 1),nextE |-> 4]),
    ([res |-> "ok",cacheV |-> FALSE,nodes |-> {0, 1, 2, 3, 4, 5},cacheR |-> FALSE,nextN |-> 6,edges |-> (0 :> <<1, 3>> @@ 1 :> <<5, 3>> @@ 2 :> <<3, 2>> @@ 3 :> <<0, 1>> @@ 4 :> <<2, 1>>),acyclic |-> FALSE,l |-> 13,eObj |-> (2 :> 1),nextE |-> 5]),
    ([res |-> "ok",cacheV |-> FALSE,nodes |-> {0, 1, 2, 3, 4, 5},cacheR |-> FALSE,nextN |-> 6,edges |-> (0 :> <<1, 3>> @@ 1 :> <<5, 3>> @@ 2 :> <<3, 2>> @@ 3 :> <<0, 1>> @@ 4 :> <<2, 1>> @@ 5 :> <<4, 1>>),acyclic |-> FALSE,l |-> 14,eObj |-> (2 :> 1),nextE |-> 6]),
    ([res |-> "ok",cacheV |-> FALSE,nodes |-> {0, 1, 2, 3, 4, 5},cacheR |-> FALSE,nextN |-> 6,edges |-> (0 :> <<1, 3>> @@ 1 :> <<5, 3>> @@ 2 :> <<3, 2>> @@ 3 :> <<0, 1>> @@ 4 :> <<2, 1>> @@ 5 :> <<4, 1>> @@ 6 :> <<5, 4>>),acyclic |-> FALSE,l |-> 15,eObj |-> (2 :> 1),nextE |-> 7]),
    ([res |-> "F",cacheV |-> FALSE,nodes |-> {0, 1, 2, 3, 4, 5},cacheR |-> FALSE,nextN |-> 6,edges |-> (0 :> <<1, 3>> @@ 1 :> <<5, 3>> @@ 2 :> <<3, 2>> @@ 3 :> <<0, 1>> @@ 4 :> <<2, 1>> @@ 5 :> <<4, 1>> @@ 6 :> <<5, 4>>),acyclic |-> FALSE,l |-> 16,eObj |-> (2 :> 1),nextE |-> 7]),
    ([res |-> "RF",cacheV |-> FALSE,nodes |-> {0, 1, 2, 3, 4, 5},cacheR |-> FALSE,nextN |-> 6,edges |-> (0 :> <<1, 3>> @@ 1 :> <<5, 3>> @@ 2 :> <<3, 2>> @@ 3 :> <<0, 1>> @@ 4 :> <<2, 1>> @@ 5 :> <<4, 1>> @@ 6 :> <<5, 4>>),acyclic |-> FALSE,l |-> 17,eObj |-> (2 :> 1),nextE |-> 7]),
    ([res |-> "ok",cacheV |-> FALSE,nodes |-> {0, 1, 2, 3, 4, 5},cacheR |-> FALSE,nextN |-> 6,edges |-> (0 :> <<1, 3>> @@ 1 :> <<5, 3>> @@ 2 :> <<3, 2>> @@ 3 :> <<0, 1>> @@ 4 :> <<2, 1>> @@ 5 :> <<4, 1>> @@ 6 :> <<5, 4>>),acyclic |-> FALSE,l |-> 18,eObj |-> (2 :> 1),nextE |-> 7]),
    ([res |-> "raise",cacheV |-> FALSE,nodes |-> {0, 1, 2, 3, 4, 5},cacheR |-> FALSE,nextN |-> 6,edges |-> (0 :> <<1, 3>> @@ 1 :> <<5, 3>> @@ 2 :> <<3, 2>> @@ 3 :> <<0, 1>> @@ 4 :> <<2, 1>> @@ 5 :> <<4, 1>> @@ 6 :> <<5, 4>>),acyclic |-> FALSE,l |-> 19,eObj |-> (2 :> 1),nextE |-> 7]),
    ([res |-> "ok",cacheV |-> FALSE,nodes |-> {},cacheR |-> FALSE,nextN |-> 0,edges |-> <<>>,acyclic |-> TRUE,l |-> 20,eObj |-> <<>>,nextE |-> 0]),
    ([res |-> "raise",cacheV |-> FALSE,nodes |-> {},cacheR |-> FALSE,nextN |-> 0,edges |-> <<>>,acyclic |-> TRUE,l |-> 21,eObj |-> <<>>,nextE |-> 0]),
    ([res |-> "raise",cacheV |-> FALSE,nodes |-> {},cacheR |-> FALSE,nextN |-> 0,edges |-> <<>>,acyclic |-> TRUE,l |-> 22,eObj |-> <<>>,nextE |-> 0]),
    ([res |-> "ok",cacheV |-> FALSE,nodes |-> {0},cacheR |-> FALSE,nextN |-> 1,edges |-> <<>>,acyclic |-> TRUE,l |-> 23,eObj |-> <<>>,nextE |-> 0]),
    ([res |-> "ok",cacheV |-> FALSE,nodes |-> {0},cacheR |-> FALSE,nextN |-> 1,edges |-> <<>>,acyclic |-> TRUE,l |-> 24,eObj |-> <<>>,nextE |-> 0]),
    ([res |-> "ok",cacheV |-> FALSE,nodes |-> {0},cacheR |-> FALSE,nextN |-> 1,edges |-> <<>>,acyclic |-> TRUE,l |-> 25,eObj |-> <<>>,nextE |-> 0]),
    ([res |-> "T",cacheV |-> TRUE,nodes |-> {0},cacheR |-> FALSE,nextN |-> 1,edges |-> <<>>,acyclic |-> TRUE,l |-> 26,eObj |-> <<>>,nextE |-> 0]),
    ([res |-> "ok",cacheV |-> FALSE,nodes |-> {0},cacheR |-> FALSE,nextN |-> 1,edges |-> (0 :> <<0, 0>>),acyclic |-> FALSE,l |-> 27,eObj |-> <<>>,nextE |-> 1]),
    ([res |-> "ok",cacheV |-> FALSE,nodes |-> {0, 1},cacheR |-> FALSE,nextN |-> 2,edges |-> (0 :> <<0, 0>>),acyclic |-> FALSE,l |-> 28,eObj |-> <<>>,nextE |-> 1]),
    ([res |-> "ok",cacheV |-> FALSE,nodes |-> {0, 1},cacheR |-> FALSE,nextN |-> 2,edges |-> (0 :> <<0, 0>> @@ 1 :> <<1, 0>>),acyclic |-> FALSE,l |-> 29,eObj |-> <<1>>,nextE |-> 2]),
    ([res |-> "ok",cacheV |-> FALSE,nodes |-> {0, 1, 2},cacheR |-> FALSE,nextN |-> 3,edges |-> (0 :> <<0, 0>> @@ 1 :> <<1, 0>>),acyclic |-> FALSE,l |-> 30,eObj |-> <<1>>,nextE |-> 2]),
    ([res |-> "raise",cacheV |-> FALSE,nodes |-> {0, 1, 2},cacheR |-> FALSE,nextN |-> 3,edges |-> (0 :> <<0, 0>> @@ 1 :> <<1, 0>>),acyclic |-> FALSE,l |-> 31,eObj |-> <<1>>,nextE |-> 2]),
    ([res |-> "raise",cacheV |-> FALSE,nodes |-> {0, 1, 2},cacheR |-> FALSE,nextN |-> 3,edges |-> (0 :> <<0, 0>> @@ 1 :> <<1, 0>>),acyclic |-> FALSE,l |-> 32,eObj |-> <<1>>,nextE |-> 2]),
    ([res |-> "raise",cacheV |-> FALSE,nodes |-> {0, 1, 2},cacheR |-> FALSE,nextN |-> 3,edges |-> (0 :> <<0, 0>> @@ 1 :> <<1, 0>>),acyclic |-> FALSE,l |-> 33,eObj |-> <<1>>,nextE |-> 2]),
    ([res |-> "ok",cacheV |-> FALSE,nodes |-> {0, 1, 2},cacheR |-> FALSE,nextN |-> 3,edges |-> (0 :> <<0, 0>> @@ 1 :> <<1, 0>> @@ 2 :> <<0, 2>>),acyclic |-> FALSE,l |-> 34,eObj |-> <<1>>,nextE |-> 3]),
    ([res |-> "raise",cacheV |-> FALSE,nodes |-> {0, 1, 2},cacheR |-> FALSE,nextN |-> 3,edges |-> (0 :> <<0, 0>> @@ 1 :> <<1, 0>> @@ 2 :> <<0, 2>>),acyclic |-> FALSE,l |-> 35,eObj |-> <<1>>,nextE |-> 3]),
    ([res |-> "ok",cacheV |-> FALSE,nodes |-> {0, 1, 2, 3},cacheR |-> FALSE,nextN |-> 4,edges |-> (0 :> <<0, 0>> @@ 1 :> <<1, 0>> @@ 2 :> <<0, 2>>),acyclic |-> FALSE,l |-> 36,eObj |-> <<1>>,nextE |-> 3]),
    ([res |-> "ok",cacheV |-> FALSE,nodes |-> {0, 1, 2, 3, 4},cacheR |-> FALSE,nextN |-> 5,edges |-> (0 :> <<0, 0>> @@ 1 :> <<1, 0>> @@ 2 :> <<0, 2>>),acyclic |-> FALSE,l |-> 37,eObj |-> <<1>>,nextE |-> 3]),
    ([res |-> "ok",cacheV |-> FALSE,nodes |-> {0, 1, 2, 3, 4},cacheR |-> FALSE,nextN |-> 5,edges |-> (0 :> <<0, 0>> @@ 1 :> <<1, 0>> @@ 2 :> <<0, 2>> @@ 3 :> <<1, 1>>),acyclic |-> FALSE,l |-> 38,eObj |-> <<1>>,nextE |-> 4]),
    ([res |-> "ok",cacheV |-> FALSE,nodes |-> {0, 1, 2, 3, 4, 5},cacheR |-> FALSE,nextN |-> 6,edges |-> (0 :> <<0, 0>> @@ 1 :> <<1, 0>> @@ 2 :> <<0, 2>> @@ 3 :> <<1, 1>>),acyclic |-> FALSE,l |-> 39,eObj |-> <<1>>,nextE |-> 4]),
    ([res |-> "F",cacheV |-> FALSE,nodes |-> {0, 1, 2, 3, 4, 5},cacheR |-> FALSE,nextN |-> 6,edges |-> (0 :> <<0, 0>> @@ 1 :> <<1, 0>> @@ 2 :> <<0, 2>> @@ 3 :> <<1, 1>>),acyclic |-> FALSE,l |-> 40,eObj |-> <<1>>,nextE |-> 4]),
    ([res |-> "ok",cacheV |-> FALSE,nodes |-> {0, 1, 2, 3, 4, 5},cacheR |-> FALSE,nextN |-> 6,edges |-> (0 :> <<0, 0>> @@ 1 :> <<1, 0>> @@ 2 :> <<0, 2>> @@ 3 :> <<1, 1>> @@ 4 :> <<5, 2>>),acyclic |-> FALSE,l |-> 41,eObj |-> (1 :> 1 @@ 4 :> 2),nextE |-> 5]),
    ([res |-> "ok",cacheV |-> FALSE,nodes |-> {0, 1, 2, 3, 4, 5},cacheR |-> FALSE,nextN |-> 6,edges |-> (0 :> <<0, 0>> @@ 1 :> <<1, 0>> @@ 2 :> <<0, 2>> @@ 3 :> <<1, 1>> @@ 4 :> <<5, 2>> @@ 5 :> <<1, 3>>),acyclic |-> FALSE,l |-> 42,eObj |-> (1 :> 1 @@ 4 :> 2 @@ 5 :> 3),nextE |-> 6]),
    ([res |-> "ok",cacheV |-> FALSE,nodes |-> {0, 1, 2, 3, 4, 5},cacheR |-> FALSE,nextN |-> 6,edges |-> (0 :> <<0, 0>> @@ 2 :> <<0, 2>> @@ 3 :> <<1, 1>> @@ 4 :> <<5, 2>> @@ 5 :> <<1, 3>>),acyclic |-> FALSE,l |-> 43,eObj |-> (4 :> 2 @@ 5 :> 3),nextE |-> 6]),
    ([res |-> "F",cacheV |-> FALSE,nodes |-> {0, 1, 2, 3, 4, 5},cacheR |-> FALSE,nextN |-> 6,edges |-> (0 :> <<0, 0>> @@ 2 :> <<0, 2>> @@ 3 :> <<1, 1>> @@ 4 :> <<5, 2>> @@ 5 :> <<1, 3>>),acyclic |-> FALSE,l |-> 44,eObj |-> (4 :> 2 @@ 5 :> 3),nextE |-> 6]),
    ([res |-> "F",cacheV |-> FALSE,nodes |-> {0, 1, 2, 3, 4, 5},cacheR |-> FALSE,nextN |-> 6,edges |-> (0 :> <<0, 0>> @@ 2 :> <<0, 2>> @@ 3 :> <<1, 1>> @@ 4 :> <<5, 2>> @@ 5 :> <<1, 3>>),acyclic |-> FALSE,l |-> 45,eObj |-> (4 :> 2 @@ 5 :> 3),nextE |-> 6]),
    ([res |-> "ok",cacheV |-> FALSE,nodes |-> {0, 1, 2, 3, 4, 5},cacheR |-> FALSE,nextN |-> 6,edges |-> (0 :> <<0, 0>> @@ 2 :> <<0, 2>> @@ 3 :> <<1, 1>> @@ 4 :> <<5, 2>> @@ 5 :> <<1, 3>> @@ 6 :> <<2, 3>>),acyclic |-> FALSE,l |-> 46,eObj |-> (4 :> 2 @@ 5 :> 3),nextE |-> 7]),
    ([res |-> "ok",cacheV |-> FALSE,nodes |-> {0, 1, 2, 3, 4, 5},cacheR |-> FALSE,nextN |-> 6,edges |-> (0 :> <<0, 0>> @@ 2 :> <<0, 2>> @@ 3 :> <<1, 1>> @@ 4 :> <<5, 2>> @@ 5 :> <<1, 3>> @@ 6 :> <<2, 3>>),acyclic |-> FALSE,l |-> 47,eObj |-> (4 :> 2 @@ 5 :> 3),nextE |-> 7]),
    ([res |-> "raise",cacheV |-> FALSE,nodes |-> {0, 1, 2, 3, 4, 5},cacheR |-> FALSE,nextN |-> 6,edges |-> (0 :> <<0, 0>> @@ 2 :> <<0, 2>> @@ 3 :> <<1, 1>> @@ 4 :> <<5, 2>> @@ 5 :> <<1, 3>> @@ 6 :> <<2, 3>>),acyclic |-> FALSE,l |-> 48,eObj |-> (4 :> 2 @@ 5 :> 3),nextE |-> 7]),
    ([res |-> "raise",cacheV |-> FALSE,nodes |-> {0, 1, 2, 3, 4, 5},cacheR |-> FALSE,nextN |-> 6,edges |-> (0 :> <<0, 0>> @@ 2 :> <<0, 2>> @@ 3 :> <<1, 1>> @@ 4 :> <<5, 2>> @@ 5 :> <<1, 3>> @@ 6 :> <<2, 3>>),acyclic |-> FALSE,l |-> 49,eObj |-> (4 :> 2 @@ 5 :> 3),nextE |-> 7]),
    ([res |-> "raise",cacheV |-> FALSE,nodes |-> {0, 1, 2, 3, 4, 5},cacheR |-> FALSE,nextN |-> 6,edges |-> (0 :> <<0, 0>> @@ 2 :> <<0, 2>> @@ 3 :> <<1, 1>> @@ 4 :> <<5, 2>> @@ 5 :> <<1, 3>> @@ 6 :> <<2, 3>>),acyclic |-> FALSE,l |-> 50,eObj |-> (4 :> 2 @@ 5 :> 3),nextE |-> 7]),
    ([res |-> "ok",cacheV |-> FALSE,nodes |-> {0, 1, 2, 3, 4, 5},cacheR |-> FALSE,nextN |-> 6,edges |-> (0 :> <<0, 0>> @@ 2 :> <<0, 2>> @@ 3 :> <<1, 1>> @@ 4 :> <<5, 2>> @@ 5 :> <<1, 3>> @@ 6 :> <<2, 3>> @@ 7 :> <<2, 5>>),acyclic |-> FALSE,l |-> 51,eObj |-> (4 :> 2 @@ 5 :> 3),nextE |-> 8]),
    ([res |-> "ok",cacheV |-> FALSE,nodes |-> {0, 1, 2, 3, 4, 5},cacheR |-> FALSE,nextN |-> 6,edges |-> (0 :> <<0, 0>> @@ 2 :> <<0, 2>> @@ 3 :> <<1, 1>> @@ 4 :> <<5, 2>> @@ 5 :> <<1, 3>> @@ 6 :> <<2, 3>> @@ 7 :> <<2, 5>>),acyclic |-> FALSE,l |-> 52,eObj |-> (4 :> 2 @@ 5 :> 3),nextE |-> 8]),
    ([res |-> "F",cacheV |-> FALSE,nodes |-> {0, 1, 2, 3, 4, 5},cacheR |-> FALSE,nextN |-> 6,edges |-> (0 :> <<0, 0>> @@ 2 :> <<0, 2>> @@ 3 :> <<1, 1>> @@ 4 :> <<5, 2>> @@ 5 :> <<1, 3>> @@ 6 :> <<2, 3>> @@ 7 :> <<2, 5>>),acyclic |-> FALSE,l |-> 53,eObj |-> (4 :> 2 @@ 5 :> 3),nextE |-> 8]),
    ([res |-> "raise",cacheV |-> FALSE,nodes |-> {0, 1, 2, 3, 4, 5},cacheR |-> FALSE,nextN |-> 6,edges |-> (0 :> <<0, 0>> @@ 2 :> <<0, 2>> @@ 3 :> <<1, 1>> @@ 4 :> <<5, 2>> @@ 5 :> <<1, 3>> @@ 6 :> <<2, 3>> @@ 7 :> <<2, 5>>),acyclic |-> FALSE,l |-> 54,eObj |-> (4 :> 2 @@ 5 :> 3),nextE |-> 8]),
    ([res |-> "ok",cacheV |-> FALSE,nodes |-> {0, 1, 2, 3, 4, 5},cacheR |-> FALSE,nextN |-> 6,edges |-> (0 :> <<0, 0>> @@ 2 :> <<0, 2>> @@ 3 :> <<1, 1>> @@ 4 :> <<5, 2>> @@ 5 :> <<1, 3>> @@ 6 :> <<2, 3>> @@ 7 :> <<2, 5>> @@ 8 :> <<2, 2>>),acyclic |-> FALSE,l |-> 55,eObj |-> (4 :> 2 @@ 5 :> 3),nextE |-> 9]),
    ([res |-> "raise",cacheV |-> FALSE,nodes |-> {0, 1, 2, 3, 4, 5},cacheR |-> FALSE,nextN |-> 6,edges |-> (0 :> <<0, 0>> @@ 2 :> <<0, 2>> @@ 3 :> <<1, 1>> @@ 4 :> <<5, 2>> @@ 5 :> <<1, 3>> @@ 6 :> <<2, 3>> @@ 7 :> <<2, 5>> @@ 8 :> <<2, 2>>),acyclic |-> FALSE,l |-> 56,eObj |-> (4 :> 2 @@ 5 :> 3),nextE |-> 9]),
    ([res |-> "F",cacheV |-> FALSE,nodes |-> {0, 1, 2, 3, 4, 5},cacheR |-> FALSE,nextN |-> 6,edges |-> (0 :> <<0, 0>> @@ 2 :> <<0, 2>> @@ 3 :> <<1, 1>> @@ 4 :> <<5, 2>> @@ 5 :> <<1, 3>> @@ 6 :> <<2, 3>> @@ 7 :> <<2, 5>> @@ 8 :> <<2, 2>>),acyclic |-> FALSE,l |-> 57,eObj |-> (4 :> 2 @@ 5 :> 3),nextE |-> 9]),
    ([res |-> "F",cacheV |-> FALSE,nodes |-> {0, 1, 2, 3, 4, 5},cacheR |-> FALSE,nextN |-> 6,edges |-> (0 :> <<0, 0>> @@ 2 :> <<0, 2>> @@ 3 :> <<1, 1>> @@ 4 :> <<5, 2>> @@ 5 :> <<1, 3>> @@ 6 :> <<2, 3>> @@ 7 :> <<2, 5>> @@ 8 :> <<2, 2>>),acyclic |-> FALSE,l |-> 58,eObj |-> (4 :> 2 @@ 5 :> 3),nextE |-> 9]),
    ([res |-> "RT",cacheV |-> FALSE,nodes |-> {0, 1, 2, 3, 4, 5},cacheR |-> TRUE,nextN |-> 6,edges |-> (0 :> <<0, 0>> @@ 2 :> <<0, 2>> @@ 3 :> <<1, 1>> @@ 4 :> <<5, 2>> @@ 5 :> <<1, 3>> @@ 6 :> <<2, 3>> @@ 7 :> <<2, 5>> @@ 8 :> <<2, 2>>),acyclic |-> FALSE,l |-> 59,eObj |-> (4 :> 2 @@ 5 :> 3),nextE |-> 9]),
    ([res |-> "ok",cacheV |-> FALSE,nodes |-> {0, 1, 2, 3, 4, 5},cacheR |-> TRUE,nextN |-> 6,edges |-> (0 :> <<0, 0>> @@ 2 :> <<0, 2>> @@ 3 :> <<1, 1>> @@ 4 :> <<5, 2>> @@ 5 :> <<1, 3>> @@ 6 :> <<2, 3>> @@ 7 :> <<2, 5>> @@ 8 :> <<2, 2>>),acyclic |-> FALSE,l |-> 60,eObj |-> (4 :> 2 @@ 5 :> 3),nextE |-> 9]),
    ([res |-> "raise",cacheV |-> FALSE,nodes |-> {0, 1, 2, 3, 4, 5},cacheR |-> TRUE,nextN |-> 6,edges |-> (0 :> <<0, 0>> @@ 2 :> <<0, 2>> @@ 3 :> <<1, 1>> @@ 4 :> <<5, 2>> @@ 5 :> <<1, 3>> @@ 6 :> <<2, 3>> @@ 7 :> <<2, 5>> @@ 8 :> <<2, 2>>),acyclic |-> FALSE,l |-> 61,eObj |-> (4 :> 2 @@ 5 :> 3),nextE |-> 9]),
    ([res |-> "ok",cacheV |-> FALSE,nodes |-> {},cacheR |-> FALSE,nextN |-> 0,edges |-> <<>>,acyclic |-> TRUE,l |-> 62,eObj |-> <<>>,nextE |-> 0]),
    ([res |-> "ok",cacheV |-> FALSE,nodes |-> {0},cacheR |-> FALSE,nextN |-> 1,edges |-> <<>>,acyclic |-> TRUE,l |-> 63,eObj |-> <<>>,nextE |-> 0]),
    ([res |-> "ok",cacheV |-> FALSE,nodes |-> {0, 1},cacheR |-> FALSE,nextN |-> 2,edges |-> <<>>,acyclic |-> TRUE,l |-> 64,eObj |-> <<>>,nextE |-> 0]),
    ([res |-> "ok",cacheV |-> FALSE,nodes |-> {0, 1, 2},cacheR |-> FALSE,nextN |-> 3,edges |-> <<>>,acyclic |-> TRUE,l |-> 65,eObj |-> <<>>,nextE |-> 0]),
    ([res |-> "ok",cacheV |-> FALSE,nodes |-> {0, 1, 2, 3},cacheR |-> FALSE,nextN |-> 4,edges |-> <<>>,acyclic |-> TRUE,l |-> 66,eObj |-> <<>>,nextE |-> 0]),
    ([res |-> "ok",cacheV |-> FALSE,nodes |-> {0, 1, 2, 3, 4},cacheR |-> FALSE,nextN |-> 5,edges |-> <<>>,acyclic |-> TRUE,l |-> 67,eObj |-> <<>>,nextE |-> 0]),
    ([res |-> "ok",cacheV |-> FALSE,nodes |-> {0, 1, 2, 3, 4},cacheR |-> FALSE,nextN |-> 5,edges |-> (0 :> <<1, 3>>),acyclic |-> TRUE,l |-> 68,eObj |-> <<>>,nextE |-> 1]),
    ([res |-> "ok",cacheV |-> FALSE,nodes |-> {0, 1, 2, 3, 4},cacheR |-> FALSE,nextN |-> 5,edges |-> (0 :> <<1, 3>> @@ 1 :> <<1, 2>>),acyclic |-> TRUE,l |-> 69,eObj |-> <<>>,nextE |-> 2]),
    ([res |-> "ok",cacheV |-> FALSE,nodes |-> {0, 1, 2, 3, 4},cacheR |-> FALSE,nextN |-> 5,edges |-> (0 :> <<1, 3>> @@ 1 :> <<1, 2>> @@ 2 :> <<4, 0>>),acyclic |-> TRUE,l |-> 70,eObj |-> <<>>,nextE |-> 3]),
    ([res |-> "T",cacheV |-> TRUE,nodes |-> {0, 1, 2, 3, 4},cacheR |-> FALSE,nextN |-> 5,edges |-> (0 :> <<1, 3>> @@ 1 :> <<1, 2>> @@ 2 :> <<4, 0>>),acyclic |-> TRUE,l |-> 71,eObj |-> <<>>,nextE |-> 3]),
    ([res |-> "ok",cacheV |-> FALSE,nodes |-> {0, 1, 2, 3, 4},cacheR |-> FALSE,nextN |-> 5,edges |-> (0 :> <<1, 3>> @@ 1 :> <<1, 2>> @@ 2 :> <<4, 0>> @@ 3 :> <<1, 4>>),acyclic |-> TRUE,l |-> 72,eObj |-> <<>>,nextE |-> 4]),
    ([res |-> "ok",cacheV |-> FALSE,nodes |-> {0, 1, 2, 3, 4},cacheR |-> FALSE,nextN |-> 5,edges |-> (0 :> <<1, 3>> @@ 1 :> <<1, 2>> @@ 2 :> <<4, 0>> @@ 3 :> <<1, 4>> @@ 4 :> <<1, 0>>),acyclic |-> TRUE,l |-> 73,eObj |-> <<>>,nextE |-> 5]),
    ([res |-> "ok",cacheV |-> FALSE,nodes |-> {0, 1, 2, 3, 4},cacheR |-> FALSE,nextN |-> 5,edges |-> (0 :> <<1, 3>> @@ 1 :> <<1, 2>> @@ 2 :> <<4, 0>> @@ 3 :> <<1, 4>> @@ 4 :> <<1, 0>> @@ 5 :> <<4, 3>>),acyclic |-> TRUE,l |-> 74,eObj |-> (5 :> 1),nextE |-> 6]),
    ([res |-> "T",cacheV |-> TRUE,nodes |-> {0, 1, 2, 3, 4},cacheR |-> FALSE,nextN |-> 5,edges |-> (0 :> <<1, 3>> @@ 1 :> <<1, 2>> @@ 2 :> <<4, 0>> @@ 3 :> <<1, 4>> @@ 4 :> <<1, 0>> @@ 5 :> <<4, 3>>),acyclic |-> TRUE,l |-> 75,eObj |-> (5 :> 1),nextE |-> 6]),
    ([res |-> "RT",cacheV |-> TRUE,nodes |-> {0, 1, 2, 3, 4},cacheR |-> TRUE,nextN |-> 5,edges |-> (0 :> <<1, 3>> @@ 1 :> <<1, 2>> @@ 2 :> <<4, 0>> @@ 3 :> <<1, 4>> @@ 4 :> <<1, 0>> @@ 5 :> <<4, 3>>),acyclic |-> TRUE,l |-> 76,eObj |-> (5 :> 1),nextE |-> 6]),
    ([res |-> "ok",cacheV |-> TRUE,nodes |-> {0, 1, 2, 3, 4},cacheR |-> TRUE,nextN |-> 5,edges |-> (0 :> <<1, 3>> @@ 1 :> <<1, 2>> @@ 2 :> <<4, 0>> @@ 3 :> <<1, 4>> @@ 4 :> <<1, 0>> @@ 5 :> <<4, 3>>),acyclic |-> TRUE,l |-> 77,eObj |-> (5 :> 1),nextE |-> 6]),
    ([res |-> "ok",cacheV |-> TRUE,nodes |-> {0, 1, 2, 3, 4},cacheR |-> TRUE,nextN |-> 5,edges |-> (0 :> <<1, 3>> @@ 1 :> <<1, 2>> @@ 2 :> <<4, 0>> @@ 3 :> <<1, 4>> @@ 4 :> <<1, 0>> @@ 5 :> <<4, 3>>),acyclic |-> TRUE,l |-> 78,eObj |-> (5 :> 1),nextE |-> 6]),
    ([res |-> "ok",cacheV |-> TRUE,nodes |-> {0, 1, 2, 3, 4},cacheR |-> TRUE,nextN |-> 5,edges |-> (0 :> <<1, 3>> @@ 1 :> <<1, 2>> @@ 2 :> <<4, 0>> @@ 3 :> <<1, 4>> @@ 4 :> <<1, 0>> @@ 5 :> <<4, 3>>),acyclic |-> TRUE,l |-> 79,eObj |-> (5 :> 1),nextE |-> 6]),
    ([res |-> "ok",cacheV |-> TRUE,nodes |-> {0, 1, 2, 3, 4},cacheR |-> TRUE,nextN |-> 5,edges |-> (0 :> <<1, 3>> @@ 1 :> <<1, 2>> @@ 2 :> <<4, 0>> @@ 3 :> <<1, 4>> @@ 4 :> <<1, 0>> @@ 5 :> <<4, 3>>),acyclic |-> TRUE,l |-> 80,eObj |-> (5 :> 1),nextE |-> 6]),
    ([res |-> "ok",cacheV |-> TRUE,nodes |-> {0, 1, 2, 3, 4},cacheR |-> TRUE,nextN |-> 5,edges |-> (0 :> <<1, 3>> @@ 1 :> <<1, 2>> @@ 2 :> <<4, 0>> @@ 3 :> <<1, 4>> @@ 4 :> <<1, 0>> @@ 5 :> <<4, 3>>),acyclic |-> TRUE,l |-> 81,eObj |-> (5 :> 1),nextE |-> 6]),
    ([res |-> "ok",cacheV |-> TRUE,nodes |-> {0, 1, 2, 3, 4},cacheR |-> TRUE,nextN |-> 5,edges |-> (0 :> <<1, 3>> @@ 1 :> <<1, 2>> @@ 2 :> <<4, 0>> @@ 3 :> <<1, 4>> @@ 4 :> <<1, 0>> @@ 5 :> <<4, 3>>),acyclic |-> TRUE,l |-> 82,eObj |-> (5 :> 1),nextE |-> 6]),
    ([res |-> "ok",cacheV |-> TRUE,nodes |-> {0, 1, 2, 3, 4},cacheR |-> TRUE,nextN |-> 5,edges |-> (0 :> <<1, 3>> @@ 1 :> <<1, 2>> @@ 2 :> <<4, 0>> @@ 3 :> <<1, 4>> @@ 4 :> <<1, 0>> @@ 5 :> <<4, 3>>),acyclic |-> TRUE,l |-> 83,eObj |-> (5 :> 1),nextE |-> 6]),
    ([res |-> "ok",cacheV |-> FALSE,nodes |-> {},cacheR |-> FALSE,nextN |-> 0,edges |-> <<>>,acyclic |-> TRUE,l |-> 84,eObj |-> <<>>,nextE |-> 0]),
    ([res |-> "raise",cacheV |-> FALSE,nodes |-> {},cacheR |-> FALSE,nextN |-> 0,edges |-> <<>>,acyclic |-> TRUE,l |-> 85,eObj |-> <<>>,nextE |-> 0]),
    ([res |-> "raise",cacheV |-> FALSE,nodes |-> {},cacheR |-> FALSE,nextN |-> 0,edges |-> <<>>,acyclic |-> TRUE,l |-> 86,eObj |-> <<>>,nextE |-> 0]),
    ([res |-> "raise",cacheV |-> FALSE,nodes |-> {},cacheR |-> FALSE,nextN |-> 0,edges |-> <<>>,acyclic |-> TRUE,l |-> 87,eObj |-> <<>>,nextE |-> 0]),
    ([res |-> "raise",cacheV |-> FALSE,nodes |-> {},cacheR |-> FALSE,nextN |-> 0,edges |-> <<>>,acyclic |-> TRUE,l |-> 88,eObj |-> <<>>,nextE |-> 0]),
    ([res |-> "raise",cacheV |-> FALSE,nodes |-> {},cacheR |-> FALSE,nextN |-> 0,edges |-> <<>>,acyclic |-> TRUE,l |-> 89,eObj |-> <<>>,nextE |-> 0]),
    ([res |-> "raise",cacheV |-> FALSE,nodes |-> {},cacheR |-> FALSE,nextN |-> 0,edges |-> <<>>,acyclic |-> TRUE,l |-> 90,eObj |-> <<>>,nextE |-> 0]),
    ([res |-> "F",cacheV |-> TRUE,nodes |-> {},cacheR |-> FALSE,nextN |-> 0,edges |-> <<>>,acyclic |-> TRUE,l |-> 91,eObj |-> <<>>,nextE |-> 0]),
    ([res |-> "raise",cacheV |-> TRUE,nodes |-> {},cacheR |-> FALSE,nextN |-> 0,edges |-> <<>>,acyclic |-> TRUE,l |-> 92,eObj |-> <<>>,nextE |-> 0]),
    ([res |-> "raise",cacheV |-> TRUE,nodes |-> {},cacheR |-> FALSE,nextN |-> 0,edges |-> <<>>,acyclic |-> TRUE,l |-> 93,eObj |-> <<>>,nextE |-> 0]),
    ([res |-> "RT",cacheV |-> TRUE,nodes |-> {},cacheR |-> FALSE,nextN |-> 0,edges |-> <<>>,acyclic |-> TRUE,l |-> 94,eObj |-> <<>>,nextE |-> 0]),
    ([res |-> "raise",cacheV |-> TRUE,nodes |-> {},cacheR |-> FALSE,nextN |-> 0,edges |-> <<>>,acyclic |-> TRUE,l |-> 95,eObj |-> <<>>,nextE |-> 0]),
    ([res |-> "raise",cacheV |-> TRUE,nodes |-> {},cacheR |-> FALSE,nextN |-> 0,edges |-> <<>>,acyclic |-> TRUE,l |-> 96,eObj |-> <<>>,nextE |-> 0]),
    ([res |-> "ok",cacheV |-> FALSE,nodes |-> {0},cacheR |-> FALSE,nextN |-> 1,edges |-> <<>>,acyclic |-> TRUE,l |-> 97,eObj |-> <<>>,nextE |-> 0]),
    ([res |-> "T",cacheV |-> TRUE,nodes |-> {0},cacheR |-> FALSE,nextN |-> 1,edges |-> <<>>,acyclic |-> TRUE,l |-> 98,eObj |-> <<>>,nextE |-> 0]),
    ([res |-> "ok",cacheV |-> TRUE,nodes |-> {0},cacheR |-> FALSE,nextN |-> 1,edges |-> <<>>,acyclic |-> TRUE,l |-> 99,eObj |-> <<>>,nextE |-> 0]),
    ([res |-> "ok",cacheV |-> TRUE,nodes |-> {0},cacheR |-> FALSE,nextN |-> 1,edges |-> <<>>,acyclic |-> TRUE,l |-> 100,eObj |-> <<>>,nextE |-> 0]),
    ([res |-> "ok",cacheV |-> FALSE,nodes |-> {0},cacheR |-> FALSE,nextN |-> 1,edges |-> (0 :> <<0, 0>>),acyclic |-> FALSE,l |-> 101,eObj |-> <<>>,nextE |-> 1]),
    ([res |-> "ok",cacheV |-> FALSE,nodes |-> {0},cacheR |-> FALSE,nextN |-> 1,edges |-> (0 :> <<0, 0>>),acyclic |-> FALSE,l |-> 102,eObj |-> <<>>,nextE |-> 1]),
    ([res |-> "ok",cacheV |-> FALSE,nodes |-> {0},cacheR |-> FALSE,nextN |-> 1,edges |-> <<>>,acyclic |-> TRUE,l |-> 103,eObj |-> <<>>,nextE |-> 1]),
    ([res |-> "ok",cacheV |-> FALSE,nodes |-> {0, 1},cacheR |-> FALSE,nextN |-> 2,edges |-> <<>>,acyclic |-> TRUE,l |-> 104,eObj |-> <<>>,nextE |-> 1]),
    ([res |-> "ok",cacheV |-> FALSE,nodes |-> {0, 1},cacheR |-> FALSE,nextN |-> 2,edges |-> <<<<0, 1>>>>,acyclic |-> TRUE,l |-> 105,eObj |-> <<>>,nextE |-> 2]),
    ([res |-> "ok",cacheV |-> FALSE,nodes |-> {1},cacheR |-> FALSE,nextN |-> 2,edges |-> <<>>,acyclic |-> TRUE,l |-> 106,eObj |-> <<>>,nextE |-> 2]),
    ([res |-> "raise",cacheV |-> FALSE,nodes |-> {1},cacheR |-> FALSE,nextN |-> 2,edges |-> <<>>,acyclic |-> TRUE,l |-> 107,eObj |-> <<>>,nextE |-> 2]),
    ([res |-> "ok",cacheV |-> FALSE,nodes |-> {1},cacheR |-> FALSE,nextN |-> 2,edges |-> <<>>,acyclic |-> TRUE,l |-> 108,eObj |-> <<>>,nextE |-> 2]),
    ([res |-> "ok",cacheV |-> FALSE,nodes |-> {1},cacheR |-> FALSE,nextN |-> 2,edges |-> <<>>,acyclic |-> TRUE,l |-> 109,eObj |-> <<>>,nextE |-> 2]),
    ([res |-> "ok",cacheV |-> FALSE,nodes |-> {1, 2},cacheR |-> FALSE,nextN |-> 3,edges |-> <<>>,acyclic |-> TRUE,l |-> 110,eObj |-> <<>>,nextE |-> 2]),
    ([res |-> "raise",cacheV |-> FALSE,nodes |-> {1, 2},cacheR |-> FALSE,nextN |-> 3,edges |-> <<>>,acyclic |-> TRUE,l |-> 111,eObj |-> <<>>,nextE |-> 2]),
    ([res |-> "ok",cacheV |-> TRUE,nodes |-> {1, 2},cacheR |-> FALSE,nextN |-> 3,edges |-> <<>>,acyclic |-> TRUE,l |-> 112,eObj |-> <<>>,nextE |-> 2]),
    ([res |-> "RF",cacheV |-> TRUE,nodes |-> {1, 2},cacheR |-> FALSE,nextN |-> 3,edges |-> <<>>,acyclic |-> TRUE,l |-> 113,eObj |-> <<>>,nextE |-> 2]),
    ([res |-> "ok",cacheV |-> FALSE,nodes |-> {1, 2, 3},cacheR |-> FALSE,nextN |-> 4,edges |-> <<>>,acyclic |-> TRUE,l |-> 114,eObj |-> <<>>,nextE |-> 2]),
    ([res |-> "T",cacheV |-> TRUE,nodes |-> {1, 2, 3},cacheR |-> FALSE,nextN |-> 4,edges |-> <<>>,acyclic |-> TRUE,l |-> 115,eObj |-> <<>>,nextE |-> 2]),
    ([res |-> "raise",cacheV |-> TRUE,nodes |-> {1, 2, 3},cacheR |-> FALSE,nextN |-> 4,edges |-> <<>>,acyclic |-> TRUE,l |-> 116,eObj |-> <<>>,nextE |-> 2]),
    ([res |-> "ok",cacheV |-> FALSE,nodes |-> {1, 2, 3},cacheR |-> FALSE,nextN |-> 4,edges |-> (2 :> <<1, 1>>),acyclic |-> FALSE,l |-> 117,eObj |-> <<>>,nextE |-> 3]),
    ([res |-> "ok",cacheV |-> FALSE,nodes |-> {1, 3},cacheR |-> FALSE,nextN |-> 4,edges |-> (2 :> <<1, 1>>),acyclic |-> FALSE,l |-> 118,eObj |-> <<>>,nextE |-> 3]),
    ([res |-> "raise",cacheV |-> FALSE,nodes |-> {1, 3},cacheR |-> FALSE,nextN |-> 4,edges |-> (2 :> <<1, 1>>),acyclic |-> FALSE,l |-> 119,eObj |-> <<>>,nextE |-> 3]),
    ([res |-> "F",cacheV |-> FALSE,nodes |-> {1, 3},cacheR |-> FALSE,nextN |-> 4,edges |-> (2 :> <<1, 1>>),acyclic |-> FALSE,l |-> 120,eObj |-> <<>>,nextE |-> 3]),
    ([res |-> "raise",cacheV |-> FALSE,nodes |-> {1, 3},cacheR |-> FALSE,nextN |-> 4,edges |-> (2 :> <<1, 1>>),acyclic |-> FALSE,l |-> 121,eObj |-> <<>>,nextE |-> 3]),
    ([res |-> "F",cacheV |-> FALSE,nodes |-> {1, 3},cacheR |-> FALSE,nextN |-> 4,edges |-> (2 :> <<1, 1>>),acyclic |-> FALSE,l |-> 122,eObj |-> <<>>,nextE |-> 3]),
    ([res |-> "ok",cacheV |-> FALSE,nodes |-> {1, 3, 4},cacheR |-> FALSE,nextN |-> 5,edges |-> (2 :> <<1, 1>>),acyclic |-> FALSE,l |-> 123,eObj |-> <<>>,nextE |-> 3]),
    ([res |-> "F",cacheV |-> FALSE,nodes |-> {1, 3, 4},cacheR |-> FALSE,nextN |-> 5,edges |-> (2 :> <<1, 1>>),acyclic |-> FALSE,l |-> 124,eObj |-> <<>>,nextE |-> 3]),
    ([res |-> "RF",cacheV |-> FALSE,nodes |-> {1, 3, 4},cacheR |-> FALSE,nextN |-> 5,edges |-> (2 :> <<1, 1>>),acyclic |-> FALSE,l |-> 125,eObj |-> <<>>,nextE |-> 3]),
    ([res |-> "ok",cacheV |-> FALSE,nodes |-> {1, 3, 4},cacheR |-> FALSE,nextN |-> 5,edges |-> (2 :> <<1, 1>>),acyclic |-> FALSE,l |-> 126,eObj |-> <<>>,nextE |-> 3]),
    ([res |-> "raise",cacheV |-> FALSE,nodes |-> {1, 3, 4},cacheR |-> FALSE,nextN |-> 5,edges |-> (2 :> <<1, 1>>),acyclic |-> FALSE,l |-> 127,eObj |-> <<>>,nextE |-> 3]),
    ([res |-> "ok",cacheV |-> FALSE,nodes |-> {},cacheR |-> FALSE,nextN |-> 0,edges |-> <<>>,acyclic |-> TRUE,l |-> 128,eObj |-> <<>>,nextE |-> 0]),
    ([res |-> "ok",cacheV |-> FALSE,nodes |-> {0},cacheR |-> FALSE,nextN |-> 1,edges |-> <<>>,acyclic |-> TRUE,l |-> 129,eObj |-> <<>>,nextE |-> 0]),
    ([res |-> "ok",cacheV |-> FALSE,nodes |-> {0, 1},cacheR |-> FALSE,nextN |-> 2,edges |-> <<>>,acyclic |-> TRUE,l |-> 130,eObj |-> <<>>,nextE |-> 0]),
    ([res |-> "ok",cacheV |-> FALSE,nodes |-> {0, 1, 2},cacheR |-> FALSE,nextN |-> 3,edges |-> <<>>,acyclic |-> TRUE,l |-> 131,eObj |-> <<>>,nextE |-> 0]),
    ([res |-> "ok",cacheV |-> FALSE,nodes |-> {0, 1, 2, 3},cacheR |-> FALSE,nextN |-> 4,edges |-> <<>>,acyclic |-> TRUE,l |-> 132,eObj |-> <<>>,nextE |-> 0]),
    ([res |-> "ok",cacheV |-> FALSE,nodes |-> {0, 1, 2, 3, 4},cacheR |-> FALSE,nextN |-> 5,edges |-> <<>>,acyclic |-> TRUE,l |-> 133,eObj |-> <<>>,nextE |-> 0]),
    ([res |-> "ok",cacheV |-> FALSE,nodes |-> {0, 1, 2, 3, 4, 5},cacheR |-> FALSE,nextN |-> 6,edges |-> <<>>,acyclic |-> TRUE,l |-> 134,eObj |-> <<>>,nextE |-> 0]),
    ([res |-> "ok",cacheV |-> FALSE,nodes |-> {0, 1, 2, 3, 4, 5},cacheR |-> FALSE,nextN |-> 6,edges |-> (0 :> <<2, 0>>),acyclic |-> TRUE,l |-> 135,eObj |-> <<>>,nextE |-> 1]),
    ([res |-> "ok",cacheV |-> FALSE,nodes |-> {0, 1, 2, 3, 4, 5},cacheR |-> FALSE,nextN |-> 6,edges |-> (0 :> <<2, 0>> @@ 1 :> <<1, 3>>),acyclic |-> TRUE,l |-> 136,eObj |-> <<>>,nextE |-> 2]),
    ([res |-> "T",cacheV |-> TRUE,nodes |-> {0, 1, 2, 3, 4, 5},cacheR |-> FALSE,nextN |-> 6,edges |-> (0 :> <<2, 0>> @@ 1 :> <<1, 3>>),acyclic |-> TRUE,l |-> 137,eObj |-> <<>>,nextE |-> 2]),
    ([res |-> "ok",cacheV |-> FALSE,nodes |-> {0, 1, 2, 3, 4, 5},cacheR |-> FALSE,nextN |-> 6,edges |-> (0 :> <<2, 0>> @@ 1 :> <<1, 3>> @@ 2 :> <<5, 1>>),acyclic |-> TRUE,l |-> 138,eObj |-> (2 :> 1),nextE |-> 3]),
    ([res |-> "ok",cacheV |-> FALSE,nodes |-> {0, 1, 2, 3, 4, 5},cacheR |-> FALSE,nextN |-> 6,edges |-> (0 :> <<2, 0>> @@ 1 :> <<1, 3>> @@ 2 :> <<5, 1>> @@ 3 :> <<2, 1>>),acyclic |-> TRUE,l |-> 139,eObj |-> (2 :> 1),nextE |-> 4]),
    ([res |-> "ok",cacheV |-> FALSE,nodes |-> {0, 1, 2, 3, 4, 5},cacheR |-> FALSE,nextN |-> 6,edges |-> (0 :> <<2, 0>> @@ 1 :> <<1, 3>> @@ 2 :> <<5, 1>> @@ 3 :> <<2, 1>> @@ 4 :> <<1, 4>>),acyclic |-> TRUE,l |-> 140,eObj |-> (2 :> 1 @@ 4 :> 2),nextE |-> 5]),
    ([res |-> "T",cacheV |-> TRUE,nodes |-> {0, 1, 2, 3, 4, 5},cacheR |-> FALSE,nextN |-> 6,edges |-> (0 :> <<2, 0>> @@ 1 :> <<1, 3>> @@ 2 :> <<5, 1>> @@ 3 :> <<2, 1>> @@ 4 :> <<1, 4>>),acyclic |-> TRUE,l |-> 141,eObj |-> (2 :> 1 @@ 4 :> 2),nextE |-> 5]),
    ([res |-> "RF",cacheV |-> TRUE,nodes |-> {0, 1, 2, 3, 4, 5},cacheR |-> FALSE,nextN |-> 6,edges |-> (0 :> <<2, 0>> @@ 1 :> <<1, 3>> @@ 2 :> <<5, 1>> @@ 3 :> <<2, 1>> @@ 4 :> <<1, 4>>),acyclic |-> TRUE,l |-> 142,eObj |-> (2 :> 1 @@ 4 :> 2),nextE |-> 5]),
    ([res |-> "ok",cacheV |-> TRUE,nodes |-> {0, 1, 2, 3, 4, 5},cacheR |-> FALSE,nextN |-> 6,edges |-> (0 :> <<2, 0>> @@ 1 :> <<1, 3>> @@ 2 :> <<5, 1>> @@ 3 :> <<2, 1>> @@ 4 :> <<1, 4>>),acyclic |-> TRUE,l |-> 143,eObj |-> (2 :> 1 @@ 4 :> 2),nextE |-> 5]),
    ([res |-> "ok",cacheV |-> TRUE,nodes |-> {0, 1, 2, 3, 4, 5},cacheR |-> FALSE,nextN |-> 6,edges |-> (0 :> <<2, 0>> @@ 1 :> <<1, 3>> @@ 2 :> <<5, 1>> @@ 3 :> <<2, 1>> @@ 4 :> <<1, 4>>),acyclic |-> TRUE,l |-> 144,eObj |-> (2 :> 1 @@ 4 :> 2),nextE |-> 5]),
    ([res |-> "ok",cacheV |-> TRUE,nodes |-> {0, 1, 2, 3, 4, 5},cacheR |-> FALSE,nextN |-> 6,edges |-> (0 :> <<2, 0>> @@ 1 :> <<1, 3>> @@ 2 :> <<5, 1>> @@ 3 :> <<2, 1>> @@ 4 :> <<1, 4>>),acyclic |-> TRUE,l |-> 145,eObj |-> (2 :> 1 @@ 4 :> 2),nextE |-> 5]),
    ([res |-> "ok",cacheV |-> TRUE,nodes |-> {0, 1, 2, 3, 4, 5},cacheR |-> FALSE,nextN |-> 6,edges |-> (0 :> <<2, 0>> @@ 1 :> <<1, 3>> @@ 2 :> <<5, 1>> @@ 3 :> <<2, 1>> @@ 4 :> <<1, 4>>),acyclic |-> TRUE,l |-> 146,eObj |-> (2 :> 1 @@ 4 :> 2),nextE |-> 5]),
    ([res |-> "ok",cacheV |-> TRUE,nodes |-> {0, 1, 2, 3, 4, 5},cacheR |-> FALSE,nextN |-> 6,edges |-> (0 :> <<2, 0>> @@ 1 :> <<1, 3>> @@ 2 :> <<5, 1>> @@ 3 :> <<2, 1>> @@ 4 :> <<1, 4>>),acyclic |-> TRUE,l |-> 147,eObj |-> (2 :> 1 @@ 4 :> 2),nextE |-> 5]),
    ([res |-> "ok",cacheV |-> TRUE,nodes |-> {0, 1, 2, 3, 4, 5},cacheR |-> FALSE,nextN |-> 6,edges |-> (0 :> <<2, 0>> @@ 1 :> <<1, 3>> @@ 2 :> <<5, 1>> @@ 3 :> <<2, 1>> @@ 4 :> <<1, 4>>),acyclic |-> TRUE,l |-> 148,eObj |-> (2 :> 1 @@ 4 :> 2),nextE |-> 5]),
    ([res |-> "ok",cacheV |-> TRUE,nodes |-> {0, 1, 2, 3, 4, 5},cacheR |-> FALSE,nextN |-> 6,edges |-> (0 :> <<2, 0>> @@ 1 :> <<1, 3>> @@ 2 :> <<5, 1>> @@ 3 :> <<2, 1>> @@ 4 :> <<1, 4>>),acyclic |-> TRUE,l |-> 149,eObj |-> (2 :> 1 @@ 4 :> 2),nextE |-> 5]),
    ([res |-> "ok",cacheV |-> TRUE,nodes |-> {0, 1, 2, 3, 4, 5},cacheR |-> FALSE,nextN |-> 6,edges |-> (0 :> <<2, 0>> @@ 1 :> <<1, 3>> @@ 2 :> <<5, 1>> @@ 3 :> <<2, 1>> @@ 4 :> <<1, 4>>),acyclic |-> TRUE,l |-> 150,eObj |-> (2 :> 1 @@ 4 :> 2),nextE |-> 5]),
    ([res |-> "ok",cacheV |-> FALSE,nodes |-> {},cacheR |-> FALSE,nextN |-> 0,edges |-> <<>>,acyclic |-> TRUE,l |-> 151,eObj |-> <<>>,nextE |-> 0]),
    ([res |-> "F",cacheV |-> TRUE,nodes |-> {},cacheR |-> FALSE,nextN |-> 0,edges |-> <<>>,acyclic |-> TRUE,l |-> 152,eObj |-> <<>>,nextE |-> 0]),
    ([res |-> "raise",cacheV |-> TRUE,nodes |-> {},cacheR |-> FALSE,nextN |-> 0,edges |-> <<>>,acyclic |-> TRUE,l |-> 153,eObj |-> <<>>,nextE |-> 0]),
    ([res |-> "raise",cacheV |-> TRUE,nodes |-> {},cacheR |-> FALSE,nextN |-> 0,edges |-> <<>>,acyclic |-> TRUE,l |-> 154,eObj |-> <<>>,nextE |-> 0]),
    ([res |-> "raise",cacheV |-> TRUE,nodes |-> {},cacheR |-> FALSE,nextN |-> 0,edges |-> <<>>,acyclic |-> TRUE,l |-> 155,eObj |-> <<>>,nextE |-> 0]),
    ([res |-> "RT",cacheV |-> TRUE,nodes |-> {},cacheR |-> FALSE,nextN |-> 0,edges |-> <<>>,acyclic |-> TRUE,l |-> 156,eObj |-> <<>>,nextE |-> 0]),
    ([res |-> "raise",cacheV |-> TRUE,nodes |-> {},cacheR |-> FALSE,nextN |-> 0,edges |-> <<>>,acyclic |-> TRUE,l |-> 157,eObj |-> <<>>,nextE |-> 0]),
    ([res |-> "raise",cacheV |-> TRUE,nodes |-> {},cacheR |-> FALSE,nextN |-> 0,edges |-> <<>>,acyclic |-> TRUE,l |-> 158,eObj |-> <<>>,nextE |-> 0]),
    ([res |-> "raise",cacheV |-> TRUE,nodes |-> {},cacheR |-> FALSE,nextN |-> 0,edges |-> <<>>,acyclic |-> TRUE,l |-> 159,eObj |-> <<>>,nextE |-> 0]),
    ([res |-> "F",cacheV |-> TRUE,nodes |-> {},cacheR |-> FALSE,nextN |-> 0,edges |-> <<>>,acyclic |-> TRUE,l |-> 160,eObj |-> <<>>,nextE |-> 0]),
    ([res |-> "F",cacheV |-> TRUE,nodes |-> {},cacheR |-> FALSE,nextN |-> 0,edges |-> <<>>,acyclic |-> TRUE,l |-> 161,eObj |-> <<>>,nextE |-> 0]),
    ([res |-> "raise",cacheV |-> TRUE,nodes |-> {},cacheR |-> FALSE,nextN |-> 0,edges |-> <<>>,acyclic |-> TRUE,l |-> 162,eObj |-> <<>>,nextE |-> 0]),
    ([res |-> "F",cacheV |-> TRUE,nodes |-> {},cacheR |-> FALSE,nextN |-> 0,edges |-> <<>>,acyclic |-> TRUE,l |-> 163,eObj |-> <<>>,nextE |-> 0]),
    ([res |-> "ok",cacheV |-> TRUE,nodes |-> {},cacheR |-> FALSE,nextN |-> 0,edges |-> <<>>,acyclic |-> TRUE,l |-> 164,eObj |-> <<>>,nextE |-> 0]),
    ([res |-> "ok",cacheV |-> TRUE,nodes |-> {},cacheR |-> FALSE,nextN |-> 0,edges |-> <<>>,acyclic |-> TRUE,l |-> 165,eObj |-> <<>>,nextE |-> 0]),
    ([res |-> "F",cacheV |-> TRUE,nodes |-> {},cacheR |-> FALSE,nextN |-> 0,edges |-> <<>>,acyclic |-> TRUE,l |-> 166,eObj |-> <<>>,nextE |-> 0]),
    ([res |-> "raise",cacheV |-> TRUE,nodes |-> {},cacheR |-> FALSE,nextN |-> 0,edges |-> <<>>,acyclic |-> TRUE,l |-> 167,eObj |-> <<>>,nextE |-> 0]),
    ([res |-> "ok",cacheV |-> FALSE,nodes |-> {0},cacheR |-> FALSE,nextN |-> 1,edges |-> <<>>,acyclic |-> TRUE,l |-> 168,eObj |-> <<>>,nextE |-> 0]),
    ([res |-> "ok",cacheV |-> FALSE,nodes |-> {0},cacheR |-> FALSE,nextN |-> 1,edges |-> <<>>,acyclic |-> TRUE,l |-> 169,eObj |-> <<>>,nextE |-> 0]),
    ([res |-> "ok",cacheV |-> FALSE,nodes |-> {0},cacheR |-> FALSE,nextN |-> 1,edges |-> <<>>,acyclic |-> TRUE,l |-> 170,eObj |-> <<>>,nextE |-> 0]),
    ([res |-> "ok",cacheV |-> FALSE,nodes |-> {0},cacheR |-> FALSE,nextN |-> 1,edges |-> (0 :> <<0, 0>>),acyclic |-> FALSE,l |-> 171,eObj |-> <<>>,nextE |-> 1]),
    ([res |-> "F",cacheV |-> FALSE,nodes |-> {0},cacheR |-> FALSE,nextN |-> 1,edges |-> (0 :> <<0, 0>>),acyclic |-> FALSE,l |-> 172,eObj |-> <<>>,nextE |-> 1]),
    ([res |-> "F",cacheV |-> FALSE,nodes |-> {0},cacheR |-> FALSE,nextN |-> 1,edges |-> (0 :> <<0, 0>>),acyclic |-> FALSE,l |-> 173,eObj |-> <<>>,nextE |-> 1]),
    ([res |-> "RT",cacheV |-> FALSE,nodes |-> {0},cacheR |-> FALSE,nextN |-> 1,edges |-> (0 :> <<0, 0>>),acyclic |-> FALSE,l |-> 174,eObj |-> <<>>,nextE |-> 1]),
    ([res |-> "ok",cacheV |-> FALSE,nodes |-> {0},cacheR |-> FALSE,nextN |-> 1,edges |-> <<>>,acyclic |-> TRUE,l |-> 175,eObj |-> <<>>,nextE |-> 1]),
    ([res |-> "T",cacheV |-> TRUE,nodes |-> {0},cacheR |-> FALSE,nextN |-> 1,edges |-> <<>>,acyclic |-> TRUE,l |-> 176,eObj |-> <<>>,nextE |-> 1]),
    ([res |-> "ok",cacheV |-> FALSE,nodes |-> {0},cacheR |-> FALSE,nextN |-> 1,edges |-> <<<<0, 0>>>>,acyclic |-> FALSE,l |-> 177,eObj |-> <<>>,nextE |-> 2]),
    ([res |-> "ok",cacheV |-> FALSE,nodes |-> {0},cacheR |-> FALSE,nextN |-> 1,edges |-> <<>>,acyclic |-> TRUE,l |-> 178,eObj |-> <<>>,nextE |-> 2]),
    ([res |-> "T",cacheV |-> TRUE,nodes |-> {0},cacheR |-> FALSE,nextN |-> 1,edges |-> <<>>,acyclic |-> TRUE,l |-> 179,eObj |-> <<>>,nextE |-> 2]),
    ([res |-> "ok",cacheV |-> FALSE,nodes |-> {0, 1},cacheR |-> FALSE,nextN |-> 2,edges |-> <<>>,acyclic |-> TRUE,l |-> 180,eObj |-> <<>>,nextE |-> 2]),
    ([res |-> "ok",cacheV |-> FALSE,nodes |-> {1},cacheR |-> FALSE,nextN |-> 2,edges |-> <<>>,acyclic |-> TRUE,l |-> 181,eObj |-> <<>>,nextE |-> 2]),
    ([res |-> "ok",cacheV |-> FALSE,nodes |-> {1},cacheR |-> FALSE,nextN |-> 2,edges |-> <<>>,acyclic |-> TRUE,l |-> 182,eObj |-> <<>>,nextE |-> 2]),
    ([res |-> "ok",cacheV |-> FALSE,nodes |-> {1},cacheR |-> FALSE,nextN |-> 2,edges |-> <<>>,acyclic |-> TRUE,l |-> 183,eObj |-> <<>>,nextE |-> 2]),
    ([res |-> "ok",cacheV |-> TRUE,nodes |-> {1},cacheR |-> FALSE,nextN |-> 2,edges |-> <<>>,acyclic |-> TRUE,l |-> 184,eObj |-> <<>>,nextE |-> 2]),
    ([res |-> "T",cacheV |-> TRUE,nodes |-> {1},cacheR |-> FALSE,nextN |-> 2,edges |-> <<>>,acyclic |-> TRUE,l |-> 185,eObj |-> <<>>,nextE |-> 2]),
    ([res |-> "ok",cacheV |-> FALSE,nodes |-> {1, 2},cacheR |-> FALSE,nextN |-> 3,edges |-> <<>>,acyclic |-> TRUE,l |-> 186,eObj |-> <<>>,nextE |-> 2]),
    ([res |-> "ok",cacheV |-> FALSE,nodes |-> {1, 2},cacheR |-> FALSE,nextN |-> 3,edges |-> (2 :> <<2, 2>>),acyclic |-> FALSE,l |-> 187,eObj |-> <<>>,nextE |-> 3]),
    ([res |-> "raise",cacheV |-> FALSE,nodes |-> {1, 2},cacheR |-> FALSE,nextN |-> 3,edges |-> (2 :> <<2, 2>>),acyclic |-> FALSE,l |-> 188,eObj |-> <<>>,nextE |-> 3]),
    ([res |-> "raise",cacheV |-> FALSE,nodes |-> {1, 2},cacheR |-> FALSE,nextN |-> 3,edges |-> (2 :> <<2, 2>>),acyclic |-> FALSE,l |-> 189,eObj |-> <<>>,nextE |-> 3]),
    ([res |-> "F",cacheV |-> FALSE,nodes |-> {1, 2},cacheR |-> FALSE,nextN |-> 3,edges |-> (2 :> <<2, 2>>),acyclic |-> FALSE,l |-> 190,eObj |-> <<>>,nextE |-> 3]),
    ([res |-> "F",cacheV |-> FALSE,nodes |-> {1, 2},cacheR |-> FALSE,nextN |-> 3,edges |-> (2 :> <<2, 2>>),acyclic |-> FALSE,l |-> 191,eObj |-> <<>>,nextE |-> 3]),
    ([res |-> "ok",cacheV |-> FALSE,nodes |-> {1, 2},cacheR |-> FALSE,nextN |-> 3,edges |-> (2 :> <<2, 2>>),acyclic |-> FALSE,l |-> 192,eObj |-> <<>>,nextE |-> 3]),
    ([res |-> "raise",cacheV |-> FALSE,nodes |-> {1, 2},cacheR |-> FALSE,nextN |-> 3,edges |-> (2 :> <<2, 2>>),acyclic |-> FALSE,l |-> 193,eObj |-> <<>>,nextE |-> 3]),
    ([res |-> "F",cacheV |-> FALSE,nodes |-> {1, 2},cacheR |-> FALSE,nextN |-> 3,edges |-> (2 :> <<2, 2>>),acyclic |-> FALSE,l |-> 194,eObj |-> <<>>,nextE |-> 3]),
    ([res |-> "RT",cacheV |-> FALSE,nodes |-> {1, 2},cacheR |-> TRUE,nextN |-> 3,edges |-> (2 :> <<2, 2>>),acyclic |-> FALSE,l |-> 195,eObj |-> <<>>,nextE |-> 3]),
    ([res |-> "ok",cacheV |-> FALSE,nodes |-> {1, 2},cacheR |-> TRUE,nextN |-> 3,edges |-> (2 :> <<2, 2>>),acyclic |-> FALSE,l |-> 196,eObj |-> <<>>,nextE |-> 3]),
    ([res |-> "raise",cacheV |-> FALSE,nodes |-> {1, 2},cacheR |-> TRUE,nextN |-> 3,edges |-> (2 :> <<2, 2>>),acyclic |-> FALSE,l |-> 197,eObj |-> <<>>,nextE |-> 3]),
    ([res |-> "ok",cacheV |-> FALSE,nodes |-> {},cacheR |-> FALSE,nextN |-> 0,edges |-> <<>>,acyclic |-> TRUE,l |-> 198,eObj |-> <<>>,nextE |-> 0]),
    ([res |-> "ok",cacheV |-> FALSE,nodes |-> {0},cacheR |-> FALSE,nextN |-> 1,edges |-> <<>>,acyclic |-> TRUE,l |-> 199,eObj |-> <<>>,nextE |-> 0]),
    ([res |-> "ok",cacheV |-> FALSE,nodes |-> {0, 1},cacheR |-> FALSE,nextN |-> 2,edges |-> <<>>,acyclic |-> TRUE,l |-> 200,eObj |-> <<>>,nextE |-> 0]),
    ([res |-> "ok",cacheV |-> FALSE,nodes |-> {0, 1, 2},cacheR |-> FALSE,nextN |-> 3,edges |-> <<>>,acyclic |-> TRUE,l |-> 201,eObj |-> <<>>,nextE |-> 0]),
    ([res |-> "ok",cacheV |-> FALSE,nodes |-> {0, 1, 2, 3},cacheR |-> FALSE,nextN |-> 4,edges |-> <<>>,acyclic |-> TRUE,l |-> 202,eObj |-> <<>>,nextE |-> 0]),
    ([res |-> "ok",cacheV |-> FALSE,nodes |-> {0, 1, 2, 3, 4},cacheR |-> FALSE,nextN |-> 5,edges |-> <<>>,acyclic |-> TRUE,l |-> 203,eObj |-> <<>>,nextE |-> 0]),
    ([res |-> "ok",cacheV |-> FALSE,nodes |-> {0, 1, 2, 3, 4, 5},cacheR |-> FALSE,nextN |-> 6,edges |-> <<>>,acyclic |-> TRUE,l |-> 204,eObj |-> <<>>,nextE |-> 0]),
    ([res |-> "ok",cacheV |-> FALSE,nodes |-> {0, 1, 2, 3, 4, 5},cacheR |-> FALSE,nextN |-> 6,edges |-> (0 :> <<3, 0>>),acyclic |-> TRUE,l |-> 205,eObj |-> (0 :> 1),nextE |-> 1]),
    ([res |-> "ok",cacheV |-> FALSE,nodes |-> {0, 1, 2, 3, 4, 5},cacheR |-> FALSE,nextN |-> 6,edges |-> (0 :> <<3, 0>> @@ 1 :> <<2, 1>>),acyclic |-> TRUE,l |-> 206,eObj |-> (0 :> 1),nextE |-> 2]),
    ([res |-> "T",cacheV |-> TRUE,nodes |-> {0, 1, 2, 3, 4, 5},cacheR |-> FALSE,nextN |-> 6,edges |-> (0 :> <<3, 0>> @@ 1 :> <<2, 1>>),acyclic |-> TRUE,l |-> 207,eObj |-> (0 :> 1),nextE |-> 2]),
    ([res |-> "ok",cacheV |-> FALSE,nodes |-> {0, 1, 2, 3, 4, 5},cacheR |-> FALSE,nextN |-> 6,edges |-> (0 :> <<3, 0>> @@ 1 :> <<2, 1>> @@ 2 :> <<0, 5>>),acyclic |-> TRUE,l |-> 208,eObj |-> (0 :> 1 @@ 2 :> 2),nextE |-> 3]),
    ([res |-> "T",cacheV |-> TRUE,nodes |-> {0, 1, 2, 3, 4, 5},cacheR |-> FALSE,nextN |-> 6,edges |-> (0 :> <<3, 0>> @@ 1 :> <<2, 1>> @@ 2 :> <<0, 5>>),acyclic |-> TRUE,l |-> 209,eObj |-> (0 :> 1 @@ 2 :> 2),nextE |-> 3]),
    ([res |-> "ok",cacheV |-> FALSE,nodes |-> {0, 1, 2, 3, 4, 5},cacheR |-> FALSE,nextN |-> 6,edges |-> (0 :> <<3, 0>> @@ 1 :> <<2, 1>> @@ 2 :> <<0, 5>> @@ 3 :> <<4, 2>>),acyclic |-> TRUE,l |-> 210,eObj |-> (0 :> 1 @@ 2 :> 2 @@ 3 :> 3),nextE |-> 4]),
    ([res |-> "ok",cacheV |-> FALSE,nodes |-> {0, 1, 2, 3, 4, 5},cacheR |-> FALSE,nextN |-> 6,edges |-> (0 :> <<3, 0>> @@ 1 :> <<2, 1>> @@ 2 :> <<0, 5>> @@ 3 :> <<4, 2>> @@ 4 :> <<1, 3>>),acyclic |-> TRUE,l |-> 211,eObj |-> (0 :> 1 @@ 2 :> 2 @@ 3 :> 3 @@ 4 :> 4),nextE |-> 5]),
    ([res |-> "ok",cacheV |-> FALSE,nodes |-> {0, 1, 2, 3, 4, 5},cacheR |-> FALSE,nextN |-> 6,edges |-> (0 :> <<3, 0>> @@ 1 :> <<2, 1>> @@ 2 :> <<0, 5>> @@ 3 :> <<4, 2>> @@ 4 :> <<1, 3>> @@ 5 :> <<5, 4>>),acyclic |-> FALSE,l |-> 212,eObj |-> (0 :> 1 @@ 2 :> 2 @@ 3 :> 3 @@ 4 :> 4),nextE |-> 6]),
    ([res |-> "ok",cacheV |-> FALSE,nodes |-> {0, 1, 2, 3, 4, 5},cacheR |-> FALSE,nextN |-> 6,edges |-> (0 :> <<3, 0>> @@ 1 :> <<2, 1>> @@ 2 :> <<0, 5>> @@ 3 :> <<4, 2>> @@ 4 :> <<1, 3>> @@ 5 :> <<5, 4>> @@ 6 :> <<0, 3>>),acyclic |-> FALSE,l |-> 213,eObj |-> (0 :> 1 @@ 2 :> 2 @@ 3 :> 3 @@ 4 :> 4),nextE |-> 7]),
    ([res |-> "F",cacheV |-> FALSE,nodes |-> {0, 1, 2, 3, 4, 5},cacheR |-> FALSE,nextN |-> 6,edges |-> (0 :> <<3, 0>> @@ 1 :> <<2, 1>> @@ 2 :> <<0, 5>> @@ 3 :> <<4, 2>> @@ 4 :> <<1, 3>> @@ 5 :> <<5, 4>> @@ 6 :> <<0, 3>>),acyclic |-> FALSE,l |-> 214,eObj |-> (0 :> 1 @@ 2 :> 2 @@ 3 :> 3 @@ 4 :> 4),nextE |-> 7]),
    ([res |-> "ok",cacheV |-> FALSE,nodes |-> {0, 1, 2, 3, 4, 5},cacheR |-> FALSE,nextN |-> 6,edges |-> (0 :> <<3, 0>> @@ 1 :> <<2, 1>> @@ 2 :> <<0, 5>> @@ 3 :> <<4, 2>> @@ 4 :> <<1, 3>> @@ 5 :> <<5, 4>> @@ 6 :> <<0, 3>> @@ 7 :> <<2, 3>>),acyclic |-> FALSE,l |-> 215,eObj |-> (0 :> 1 @@ 2 :> 2 @@ 3 :> 3 @@ 4 :> 4),nextE |-> 8]),
    ([res |-> "F",cacheV |-> FALSE,nodes |-> {0, 1, 2, 3, 4, 5},cacheR |-> FALSE,nextN |-> 6,edges |-> (0 :> <<3, 0>> @@ 1 :> <<2, 1>> @@ 2 :> <<0, 5>> @@ 3 :> <<4, 2>> @@ 4 :> <<1, 3>> @@ 5 :> <<5, 4>> @@ 6 :> <<0, 3>> @@ 7 :> <<2, 3>>),acyclic |-> FALSE,l |-> 216,eObj |-> (0 :> 1 @@ 2 :> 2 @@ 3 :> 3 @@ 4 :> 4),nextE |-> 8]),
    ([res |-> "F",cacheV |-> FALSE,nodes |-> {0, 1, 2, 3, 4, 5},cacheR |-> FALSE,nextN |-> 6,edges |-> (0 :> <<3, 0>> @@ 1 :> <<2, 1>> @@ 2 :> <<0, 5>> @@ 3 :> <<4, 2>> @@ 4 :> <<1, 3>> @@ 5 :> <<5, 4>> @@ 6 :> <<0, 3>> @@ 7 :> <<2, 3>>),acyclic |-> FALSE,l |-> 217,eObj |-> (0 :> 1 @@ 2 :> 2 @@ 3 :> 3 @@ 4 :> 4),nextE |-> 8]),
    ([res |-> "RT",cacheV |-> FALSE,nodes |-> {0, 1, 2, 3, 4, 5},cacheR |-> FALSE,nextN |-> 6,edges |-> (0 :> <<3, 0>> @@ 1 :> <<2, 1>> @@ 2 :> <<0, 5>> @@ 3 :> <<4, 2>> @@ 4 :> <<1, 3>> @@ 5 :> <<5, 4>> @@ 6 :> <<0, 3>> @@ 7 :> <<2, 3>>),acyclic |-> FALSE,l |-> 218,eObj |-> (0 :> 1 @@ 2 :> 2 @@ 3 :> 3 @@ 4 :> 4),nextE |-> 8]),
    ([res |-> "ok",cacheV |-> FALSE,nodes |-> {0, 1, 2, 3, 4, 5},cacheR |-> FALSE,nextN |-> 6,edges |-> (0 :> <<3, 0>> @@ 1 :> <<2, 1>> @@ 2 :> <<0, 5>> @@ 3 :> <<4, 2>> @@ 4 :> <<1, 3>> @@ 5 :> <<5, 4>> @@ 6 :> <<0, 3>> @@ 7 :> <<2, 3>>),acyclic |-> FALSE,l |-> 219,eObj |-> (0 :> 1 @@ 2 :> 2 @@ 3 :> 3 @@ 4 :> 4),nextE |-> 8]),
    ([res |-> "raise",cacheV |-> FALSE,nodes |-> {0, 1, 2, 3, 4, 5},cacheR |-> FALSE,nextN |-> 6,edges |-> (0 :> <<3, 0>> @@ 1 :> <<2, 1>> @@ 2 :> <<0, 5>> @@ 3 :> <<4, 2>> @@ 4 :> <<1, 3>> @@ 5 :> <<5, 4>> @@ 6 :> <<0, 3>> @@ 7 :> <<2, 3>>),acyclic |-> FALSE,l |-> 220,eObj |-> (0 :> 1 @@ 2 :> 2 @@ 3 :> 3 @@ 4 :> 4),nextE |-> 8]),
    ([res |-> "ok",cacheV |-> FALSE,nodes |-> {},cacheR |-> FALSE,nextN |-> 0,edges |-> <<>>,acyclic |-> TRUE,l |-> 221,eObj |-> <<>>,nextE |-> 0]),
    ([res |-> "raise",cacheV |-> FALSE,nodes |-> {},cacheR |-> FALSE,nextN |-> 0,edges |-> <<>>,acyclic |-> TRUE,l |-> 222,eObj |-> <<>>,nextE |-> 0]),
    ([res |-> "ok",cacheV |-> FALSE,nodes |-> {},cacheR |-> FALSE,nextN |-> 0,edges |-> <<>>,acyclic |-> TRUE,l |-> 223,eObj |-> <<>>,nextE |-> 0]),
    ([res |-> "ok",cacheV |-> FALSE,nodes |-> {},cacheR |-> FALSE,nextN |-> 0,edges |-> <<>>,acyclic |-> TRUE,l |-> 224,eObj |-> <<>>,nextE |-> 0]),
    ([res |-> "ok",cacheV |-> FALSE,nodes |-> {0},cacheR |-> FALSE,nextN |-> 1,edges |-> <<>>,acyclic |-> TRUE,l |-> 225,eObj |-> <<>>,nextE |-> 0]),
    ([res |-> "ok",cacheV |-> FALSE,nodes |-> {0},cacheR |-> FALSE,nextN |-> 1,edges |-> (0 :> <<0, 0>>),acyclic |-> FALSE,l |-> 226,eObj |-> (0 :> 2),nextE |-> 1]),
    ([res |-> "ok",cacheV |-> FALSE,nodes |-> {0, 1},cacheR |-> FALSE,nextN |-> 2,edges |-> (0 :> <<0, 0>>),acyclic |-> FALSE,l |-> 227,eObj |-> (0 :> 2),nextE |-> 1]),
    ([res |-> "ok",cacheV |-> FALSE,nodes |-> {0, 1},cacheR |-> FALSE,nextN |-> 2,edges |-> (0 :> <<0, 0>> @@ 1 :> <<1, 1>>),acyclic |-> FALSE,l |-> 228,eObj |-> (0 :> 2 @@ 1 :> 1),nextE |-> 2]),
    ([res |-> "ok",cacheV |-> FALSE,nodes |-> {0, 1, 2},cacheR |-> FALSE,nextN |-> 3,edges |-> (0 :> <<0, 0>> @@ 1 :> <<1, 1>>),acyclic |-> FALSE,l |-> 229,eObj |-> (0 :> 2 @@ 1 :> 1),nextE |-> 2]),
    ([res |-> "F",cacheV |-> FALSE,nodes |-> {0, 1, 2},cacheR |-> FALSE,nextN |-> 3,edges |-> (0 :> <<0, 0>> @@ 1 :> <<1, 1>>),acyclic |-> FALSE,l |-> 230,eObj |-> (0 :> 2 @@ 1 :> 1),nextE |-> 2]),
    ([res |-> "F",cacheV |-> FALSE,nodes |-> {0, 1, 2},cacheR |-> FALSE,nextN |-> 3,edges |-> (0 :> <<0, 0>> @@ 1 :> <<1, 1>>),acyclic |-> FALSE,l |-> 231,eObj |-> (0 :> 2 @@ 1 :> 1),nextE |-> 2]),
    ([res |-> "raise",cacheV |-> FALSE,nodes |-> {0, 1, 2},cacheR |-> FALSE,nextN |-> 3,edges |-> (0 :> <<0, 0>> @@ 1 :> <<1, 1>>),acyclic |-> FALSE,l |-> 232,eObj |-> (0 :> 2 @@ 1 :> 1),nextE |-> 2]),
    ([res |-> "ok",cacheV |-> FALSE,nodes |-> {0, 1, 2, 3},cacheR |-> FALSE,nextN |-> 4,edges |-> (0 :> <<0, 0>> @@ 1 :> <<1, 1>>),acyclic |-> FALSE,l |-> 233,eObj |-> (0 :> 2 @@ 1 :> 1),nextE |-> 2]),
    ([res |-> "ok",cacheV |-> FALSE,nodes |-> {0, 1, 2},cacheR |-> FALSE,nextN |-> 4,edges |-> (0 :> <<0, 0>> @@ 1 :> <<1, 1>>),acyclic |-> FALSE,l |-> 234,eObj |-> (0 :> 2 @@ 1 :> 1),nextE |-> 2]),
    ([res |-> "ok",cacheV |-> FALSE,nodes |-> {0, 1, 2},cacheR |-> FALSE,nextN |-> 4,edges |-> (0 :> <<0, 0>> @@ 1 :> <<1, 1>>),acyclic |-> FALSE,l |-> 235,eObj |-> (0 :> 2 @@ 1 :> 1),nextE |-> 2]),
    ([res |-> "F",cacheV |-> FALSE,nodes |-> {0, 1, 2},cacheR |-> FALSE,nextN |-> 4,edges |-> (0 :> <<0, 0>> @@ 1 :> <<1, 1>>),acyclic |-> FALSE,l |-> 236,eObj |-> (0 :> 2 @@ 1 :> 1),nextE |-> 2]),
    ([res |-> "F",cacheV |-> FALSE,nodes |-> {0, 1, 2},cacheR |-> FALSE,nextN |-> 4,edges |-> (0 :> <<0, 0>> @@ 1 :> <<1, 1>>),acyclic |-> FALSE,l |-> 237,eObj |-> (0 :> 2 @@ 1 :> 1),nextE |-> 2]),
    ([res |-> "ok",cacheV |-> FALSE,nodes |-> {0, 1},cacheR |-> FALSE,nextN |-> 4,edges |-> (0 :> <<0, 0>> @@ 1 :> <<1, 1>>),acyclic |-> FALSE,l |-> 238,eObj |-> (0 :> 2 @@ 1 :> 1),nextE |-> 2]),
    ([res |-> "ok",cacheV |-> FALSE,nodes |-> {0, 1, 4},cacheR |-> FALSE,nextN |-> 5,edges |-> (0 :> <<0, 0>> @@ 1 :> <<1, 1>>),acyclic |-> FALSE,l |-> 239,eObj |-> (0 :> 2 @@ 1 :> 1),nextE |-> 2]),
    ([res |-> "RT",cacheV |-> FALSE,nodes |-> {0, 1, 4},cacheR |-> TRUE,nextN |-> 5,edges |-> (0 :> <<0, 0>> @@ 1 :> <<1, 1>>),acyclic |-> FALSE,l |-> 240,eObj |-> (0 :> 2 @@ 1 :> 1),nextE |-> 2]),
    ([res |-> "raise",cacheV |-> FALSE,nodes |-> {0, 1, 4},cacheR |-> TRUE,nextN |-> 5,edges |-> (0 :> <<0, 0>> @@ 1 :> <<1, 1>>),acyclic |-> FALSE,l |-> 241,eObj |-> (0 :> 2 @@ 1 :> 1),nextE |-> 2]),
    ([res |-> "raise",cacheV |-> FALSE,nodes |-> {0, 1, 4},cacheR |-> TRUE,nextN |-> 5,edges |-> (0 :> <<0, 0>> @@ 1 :> <<1, 1>>),acyclic |-> FALSE,l |-> 242,eObj |-> (0 :> 2 @@ 1 :> 1),nextE |-> 2]),
    ([res |-> "ok",cacheV |-> FALSE,nodes |-> {0, 1, 4, 5},cacheR |-> FALSE,nextN |-> 6,edges |-> (0 :> <<0, 0>> @@ 1 :> <<1, 1>>),acyclic |-> FALSE,l |-> 243,eObj |-> (0 :> 2 @@ 1 :> 1),nextE |-> 2]),
    ([res |-> "ok",cacheV |-> FALSE,nodes |-> {0, 1, 4, 5},cacheR |-> FALSE,nextN |-> 6,edges |-> (0 :> <<0, 0>> @@ 1 :> <<1, 1>>),acyclic |-> FALSE,l |-> 244,eObj |-> (0 :> 2 @@ 1 :> 1),nextE |-> 2]),
    ([res |-> "raise",cacheV |-> FALSE,nodes |-> {0, 1, 4, 5},cacheR |-> FALSE,nextN |-> 6,edges |-> (0 :> <<0, 0>> @@ 1 :> <<1, 1>>),acyclic |-> FALSE,l |-> 245,eObj |-> (0 :> 2 @@ 1 :> 1),nextE |-> 2]),
    ([res |-> "ok",cacheV |-> FALSE,nodes |-> {0, 1, 4, 5},cacheR |-> FALSE,nextN |-> 6,edges |-> (0 :> <<0, 0>> @@ 1 :> <<1, 1>> @@ 2 :> <<0, 5>>),acyclic |-> FALSE,l |-> 246,eObj |-> (0 :> 2 @@ 1 :> 1),nextE |-> 3]),
    ([res |-> "ok",cacheV |-> FALSE,nodes |-> {0, 1, 4, 5},cacheR |-> FALSE,nextN |-> 6,edges |-> (0 :> <<0, 0>> @@ 1 :> <<1, 1>>),acyclic |-> FALSE,l |-> 247,eObj |-> (0 :> 2 @@ 1 :> 1),nextE |-> 3]),
    ([res |-> "ok",cacheV |-> FALSE,nodes |-> {0, 1, 4, 5},cacheR |-> FALSE,nextN |-> 6,edges |-> (0 :> <<0, 0>> @@ 1 :> <<1, 1>> @@ 3 :> <<1, 0>>),acyclic |-> FALSE,l |-> 248,eObj |-> (0 :> 2 @@ 1 :> 1),nextE |-> 4]),
    ([res |-> "ok",cacheV |-> FALSE,nodes |-> {0, 1, 5},cacheR |-> FALSE,nextN |-> 6,edges |-> (0 :> <<0, 0>> @@ 1 :> <<1, 1>> @@ 3 :> <<1, 0>>),acyclic |-> FALSE,l |-> 249,eObj |-> (0 :> 2 @@ 1 :> 1),nextE |-> 4]),
    ([res |-> "ok",cacheV |-> FALSE,nodes |-> {0, 1, 5},cacheR |-> FALSE,nextN |-> 6,edges |-> (0 :> <<0, 0>> @@ 1 :> <<1, 1>> @@ 3 :> <<1, 0>>),acyclic |-> FALSE,l |-> 250,eObj |-> (0 :> 2 @@ 1 :> 1),nextE |-> 4]),
    ([res |-> "ok",cacheV |-> FALSE,nodes |-> {0, 1, 5},cacheR |-> FALSE,nextN |-> 6,edges |-> (0 :> <<0, 0>> @@ 1 :> <<1, 1>> @@ 3 :> <<1, 0>>),acyclic |-> FALSE,l |-> 251,eObj |-> (0 :> 2 @@ 1 :> 1),nextE |-> 4]),
    ([res |-> "ok",cacheV |-> FALSE,nodes |-> {0, 1, 5},cacheR |-> FALSE,nextN |-> 6,edges |-> (0 :> <<0, 0>> @@ 1 :> <<1, 1>> @@ 3 :> <<1, 0>> @@ 4 :> <<0, 1>>),acyclic |-> FALSE,l |-> 252,eObj |-> (0 :> 2 @@ 1 :> 1),nextE |-> 5]),
    ([res |-> "ok",cacheV |-> FALSE,nodes |-> {0, 1, 5},cacheR |-> FALSE,nextN |-> 6,edges |-> (0 :> <<0, 0>> @@ 1 :> <<1, 1>> @@ 3 :> <<1, 0>> @@ 4 :> <<0, 1>> @@ 5 :> <<5, 0>>),acyclic |-> FALSE,l |-> 253,eObj |-> (0 :> 2 @@ 1 :> 1),nextE |-> 6]),
    ([res |-> "F",cacheV |-> FALSE,nodes |-> {0, 1, 5},cacheR |-> FALSE,nextN |-> 6,edges |-> (0 :> <<0, 0>> @@ 1 :> <<1, 1>> @@ 3 :> <<1, 0>> @@ 4 :> <<0, 1>> @@ 5 :> <<5, 0>>),acyclic |-> FALSE,l |-> 254,eObj |-> (0 :> 2 @@ 1 :> 1),nextE |-> 6]),
    ([res |-> "F",cacheV |-> FALSE,nodes |-> {0, 1, 5},cacheR |-> FALSE,nextN |-> 6,edges |-> (0 :> <<0, 0>> @@ 1 :> <<1, 1>> @@ 3 :> <<1, 0>> @@ 4 :> <<0, 1>> @@ 5 :> <<5, 0>>),acyclic |-> FALSE,l |-> 255,eObj |-> (0 :> 2 @@ 1 :> 1),nextE |-> 6]),
    ([res |-> "F",cacheV |-> FALSE,nodes |-> {0, 1, 5},cacheR |-> FALSE,nextN |-> 6,edges |-> (0 :> <<0, 0>> @@ 1 :> <<1, 1>> @@ 3 :> <<1, 0>> @@ 4 :> <<0, 1>> @@ 5 :> <<5, 0>>),acyclic |-> FALSE,l |-> 256,eObj |-> (0 :> 2 @@ 1 :> 1),nextE |-> 6]),
    ([res |-> "RT",cacheV |-> FALSE,nodes |-> {0, 1, 5},cacheR |-> TRUE,nextN |-> 6,edges |-> (0 :> <<0, 0>> @@ 1 :> <<1, 1>> @@ 3 :> <<1, 0>> @@ 4 :> <<0, 1>> @@ 5 :> <<5, 0>>),acyclic |-> FALSE,l |-> 257,eObj |-> (0 :> 2 @@ 1 :> 1),nextE |-> 6]),
    ([res |-> "ok",cacheV |-> FALSE,nodes |-> {0, 1, 5},cacheR |-> TRUE,nextN |-> 6,edges |-> (0 :> <<0, 0>> @@ 1 :> <<1, 1>> @@ 3 :> <<1, 0>> @@ 4 :> <<0, 1>> @@ 5 :> <<5, 0>>),acyclic |-> FALSE,l |-> 258,eObj |-> (0 :> 2 @@ 1 :> 1),nextE |-> 6]),
    ([res |-> "raise",cacheV |-> FALSE,nodes |-> {0, 1, 5},cacheR |-> TRUE,nextN |-> 6,edges |-> (0 :> <<0, 0>> @@ 1 :> <<1, 1>> @@ 3 :> <<1, 0>> @@ 4 :> <<0, 1>> @@ 5 :> <<5, 0>>),acyclic |-> FALSE,l |-> 259,eObj |-> (0 :> 2 @@ 1 :> 1),nextE |-> 6]),
    ([res |-> "ok",cacheV |-> FALSE,nodes |-> {},cacheR |-> FALSE,nextN |-> 0,edges |-> <<>>,acyclic |-> TRUE,l |-> 260,eObj |-> <<>>,nextE |-> 0]),
    ([res |-> "ok",cacheV |-> FALSE,nodes |-> {0},cacheR |-> FALSE,nextN |-> 1,edges |-> <<>>,acyclic |-> TRUE,l |-> 261,eObj |-> <<>>,nextE |-> 0]),
    ([res |-> "ok",cacheV |-> FALSE,nodes |-> {0, 1},cacheR |-> FALSE,nextN |-> 2,edges |-> <<>>,acyclic |-> TRUE,l |-> 262,eObj |-> <<>>,nextE |-> 0]),
    ([res |-> "ok",cacheV |-> FALSE,nodes |-> {0, 1, 2},cacheR |-> FALSE,nextN |-> 3,edges |-> <<>>,acyclic |-> TRUE,l |-> 263,eObj |-> <<>>,nextE |-> 0]),
    ([res |-> "ok",cacheV |-> FALSE,nodes |-> {0, 1, 2, 3},cacheR |-> FALSE,nextN |-> 4,edges |-> <<>>,acyclic |-> TRUE,l |-> 264,eObj |-> <<>>,nextE |-> 0]),
    ([res |-> "ok",cacheV |-> FALSE,nodes |-> {0, 1, 2, 3, 4},cacheR |-> FALSE,nextN |-> 5,edges |-> <<>>,acyclic |-> TRUE,l |-> 265,eObj |-> <<>>,nextE |-> 0]),
    ([res |-> "ok",cacheV |-> FALSE,nodes |-> {0, 1, 2, 3, 4, 5},cacheR |-> FALSE,nextN |-> 6,edges |-> <<>>,acyclic |-> TRUE,l |-> 266,eObj |-> <<>>,nextE |-> 0]),
    ([res |-> "ok",cacheV |-> FALSE,nodes |-> {0, 1, 2, 3, 4, 5},cacheR |-> FALSE,nextN |-> 6,edges |-> (0 :> <<4, 1>>),acyclic |-> TRUE,l |-> 267,eObj |-> <<>>,nextE |-> 1]),
    ([res |-> "ok",cacheV |-> FALSE,nodes |-> {0, 1, 2, 3, 4, 5},cacheR |-> FALSE,nextN |-> 6,edges |-> (0 :> <<4, 1>> @@ 1 :> <<2, 3>>),acyclic |-> TRUE,l |-> 268,eObj |-> <<1>>,nextE |-> 2]),
    ([res |-> "ok",cacheV |-> FALSE,nodes |-> {0, 1, 2, 3, 4, 5},cacheR |-> FALSE,nextN |-> 6,edges |-> (0 :> <<4, 1>> @@ 1 :> <<2, 3>> @@ 2 :> <<5, 1>>),acyclic |-> TRUE,l |-> 269,eObj |-> <<1, 2>>,nextE |-> 3]),
    ([res |-> "T",cacheV |-> TRUE,nodes |-> {0, 1, 2, 3, 4, 5},cacheR |-> FALSE,nextN |-> 6,edges |-> (0 :> <<4, 1>> @@ 1 :> <<2, 3>> @@ 2 :> <<5, 1>>),acyclic |-> TRUE,l |-> 270,eObj |-> <<1, 2>>,nextE |-> 3]),
    ([res |-> "ok",cacheV |-> FALSE,nodes |-> {0, 1, 2, 3, 4, 5},cacheR |-> FALSE,nextN |-> 6,edges |-> (0 :> <<4, 1>> @@ 1 :> <<2, 3>> @@ 2 :> <<5, 1>> @@ 3 :> <<2, 4>>),acyclic |-> TRUE,l |-> 271,eObj |-> <<1, 2>>,nextE |-> 4]),
    ([res |-> "ok",cacheV |-> FALSE,nodes |-> {0, 1, 2, 3, 4, 5},cacheR |-> FALSE,nextN |-> 6,edges |-> (0 :> <<4, 1>> @@ 1 :> <<2, 3>> @@ 2 :> <<5, 1>> @@ 3 :> <<2, 4>> @@ 4 :> <<4, 3>>),acyclic |-> TRUE,l |-> 272,eObj |-> <<1, 2>>,nextE |-> 5]),
    ([res |-> "T",cacheV |-> TRUE,nodes |-> {0, 1, 2, 3, 4, 5},cacheR |-> FALSE,nextN |-> 6,edges |-> (0 :> <<4, 1>> @@ 1 :> <<2, 3>> @@ 2 :> <<5, 1>> @@ 3 :> <<2, 4>> @@ 4 :> <<4, 3>>),acyclic |-> TRUE,l |-> 273,eObj |-> <<1, 2>>,nextE |-> 5]),
    ([res |-> "T",cacheV |-> TRUE,nodes |-> {0, 1, 2, 3, 4, 5},cacheR |-> FALSE,nextN |-> 6,edges |-> (0 :> <<4, 1>> @@ 1 :> <<2, 3>> @@ 2 :> <<5, 1>> @@ 3 :> <<2, 4>> @@ 4 :> <<4, 3>>),acyclic |-> TRUE,l |-> 274,eObj |-> <<1, 2>>,nextE |-> 5]),
    ([res |-> "RF",cacheV |-> TRUE,nodes |-> {0, 1, 2, 3, 4, 5},cacheR |-> FALSE,nextN |-> 6,edges |-> (0 :> <<4, 1>> @@ 1 :> <<2, 3>> @@ 2 :> <<5, 1>> @@ 3 :> <<2, 4>> @@ 4 :> <<4, 3>>),acyclic |-> TRUE,l |-> 275,eObj |-> <<1, 2>>,nextE |-> 5]),
    ([res |-> "ok",cacheV |-> TRUE,nodes |-> {0, 1, 2, 3, 4, 5},cacheR |-> FALSE,nextN |-> 6,edges |-> (0 :> <<4, 1>> @@ 1 :> <<2, 3>> @@ 2 :> <<5, 1>> @@ 3 :> <<2, 4>> @@ 4 :> <<4, 3>>),acyclic |-> TRUE,l |-> 276,eObj |-> <<1, 2>>,nextE |-> 5]),
    ([res |-> "ok",cacheV |-> TRUE,nodes |-> {0, 1, 2, 3, 4, 5},cacheR |-> FALSE,nextN |-> 6,edges |-> (0 :> <<4, 1>> @@ 1 :> <<2, 3>> @@ 2 :> <<5, 1>> @@ 3 :> <<2, 4>> @@ 4 :> <<4, 3>>),acyclic |-> TRUE,l |-> 277,eObj |-> <<1, 2>>,nextE |-> 5]),
    ([res |-> "ok",cacheV |-> TRUE,nodes |-> {0, 1, 2, 3, 4, 5},cacheR |-> FALSE,nextN |-> 6,edges |-> (0 :> <<4, 1>> @@ 1 :> <<2, 3>> @@ 2 :> <<5, 1>> @@ 3 :> <<2, 4>> @@ 4 :> <<4, 3>>),acyclic |-> TRUE,l |-> 278,eObj |-> <<1, 2>>,nextE |-> 5]),
    ([res |-> "ok",cacheV |-> TRUE,nodes |-> {0, 1, 2, 3, 4, 5},cacheR |-> FALSE,nextN |-> 6,edges |-> (0 :> <<4, 1>> @@ 1 :> <<2, 3>> @@ 2 :> <<5, 1>> @@ 3 :> <<2, 4>> @@ 4 :> <<4, 3>>),acyclic |-> TRUE,l |-> 279,eObj |-> <<1, 2>>,nextE |-> 5]),
    ([res |-> "ok",cacheV |-> TRUE,nodes |-> {0, 1, 2, 3, 4, 5},cacheR |-> FALSE,nextN |-> 6,edges |-> (0 :> <<4, 1>> @@ 1 :> <<2, 3>> @@ 2 :> <<5, 1>> @@ 3 :> <<2, 4>> @@ 4 :> <<4, 3>>),acyclic |-> TRUE,l |-> 280,eObj |-> <<1, 2>>,nextE |-> 5]),
    ([res |-> "ok",cacheV |-> TRUE,nodes |-> {0, 1, 2, 3, 4, 5},cacheR |-> FALSE,nextN |-> 6,edges |-> (0 :> <<4, 1>> @@ 1 :> <<2, 3>> @@ 2 :> <<5, 1>> @@ 3 :> <<2, 4>> @@ 4 :> <<4, 3>>),acyclic |-> TRUE,l |-> 281,eObj |-> <<1, 2>>,nextE |-> 5]),
    ([res |-> "ok",cacheV |-> TRUE,nodes |-> {0, 1, 2, 3, 4, 5},cacheR |-> FALSE,nextN |-> 6,edges |-> (0 :> <<4, 1>> @@ 1 :> <<2, 3>> @@ 2 :> <<5, 1>> @@ 3 :> <<2, 4>> @@ 4 :> <<4, 3>>),acyclic |-> TRUE,l |-> 282,eObj |-> <<1, 2>>,nextE |-> 5]),
    ([res |-> "ok",cacheV |-> TRUE,nodes |-> {0, 1, 2, 3, 4, 5},cacheR |-> FALSE,nextN |-> 6,edges |-> (0 :> <<4, 1>> @@ 1 :> <<2, 3>> @@ 2 :> <<5, 1>> @@ 3 :> <<2, 4>> @@ 4 :> <<4, 3>>),acyclic |-> TRUE,l |-> 283,eObj |-> <<1, 2>>,nextE |-> 5]),
    ([res |-> "ok",cacheV |-> FALSE,nodes |-> {},cacheR |-> FALSE,nextN |-> 0,edges |-> <<>>,acyclic |-> TRUE,l |-> 284,eObj |-> <<>>,nextE |-> 0]),
    ([res |-> "raise",cacheV |-> FALSE,nodes |-> {},cacheR |-> FALSE,nextN |-> 0,edges |-> <<>>,acyclic |-> TRUE,l |-> 285,eObj |-> <<>>,nextE |-> 0]),
    ([res |-> "ok",cacheV |-> FALSE,nodes |-> {},cacheR |-> FALSE,nextN |-> 0,edges |-> <<>>,acyclic |-> TRUE,l |-> 286,eObj |-> <<>>,nextE |-> 0]),
    ([res |-> "ok",cacheV |-> FALSE,nodes |-> {},cacheR |-> FALSE,nextN |-> 0,edges |-> <<>>,acyclic |-> TRUE,l |-> 287,eObj |-> <<>>,nextE |-> 0]),
    ([res |-> "ok",cacheV |-> FALSE,nodes |-> {0},cacheR |-> FALSE,nextN |-> 1,edges |-> <<>>,acyclic |-> TRUE,l |-> 288,eObj |-> <<>>,nextE |-> 0]),
    ([res |-> "ok",cacheV |-> FALSE,nodes |-> {0},cacheR |-> FALSE,nextN |-> 1,edges |-> (0 :> <<0, 0>>),acyclic |-> FALSE,l |-> 289,eObj |-> <<>>,nextE |-> 1]),
    ([res |-> "ok",cacheV |-> FALSE,nodes |-> {0},cacheR |-> FALSE,nextN |-> 1,edges |-> <<>>,acyclic |-> TRUE,l |-> 290,eObj |-> <<>>,nextE |-> 1]),
    ([res |-> "T",cacheV |-> TRUE,nodes |-> {0},cacheR |-> FALSE,nextN |-> 1,edges |-> <<>>,acyclic |-> TRUE,l |-> 291,eObj |-> <<>>,nextE |-> 1]),
    ([res |-> "ok",cacheV |-> FALSE,nodes |-> {0},cacheR |-> FALSE,nextN |-> 1,edges |-> <<<<0, 0>>>>,acyclic |-> FALSE,l |-> 292,eObj |-> <<1>>,nextE |-> 2]),
    ([res |-> "ok",cacheV |-> FALSE,nodes |-> {0},cacheR |-> FALSE,nextN |-> 1,edges |-> <<>>,acyclic |-> TRUE,l |-> 293,eObj |-> <<>>,nextE |-> 2]),
    ([res |-> "ok",cacheV |-> FALSE,nodes |-> {0, 1},cacheR |-> FALSE,nextN |-> 2,edges |-> <<>>,acyclic |-> TRUE,l |-> 294,eObj |-> <<>>,nextE |-> 2]),
    ([res |-> "ok",cacheV |-> FALSE,nodes |-> {1},cacheR |-> FALSE,nextN |-> 2,edges |-> <<>>,acyclic |-> TRUE,l |-> 295,eObj |-> <<>>,nextE |-> 2]),
    ([res |-> "ok",cacheV |-> TRUE,nodes |-> {1},cacheR |-> FALSE,nextN |-> 2,edges |-> <<>>,acyclic |-> TRUE,l |-> 296,eObj |-> <<>>,nextE |-> 2]),
    ([res |-> "ok",cacheV |-> FALSE,nodes |-> {1},cacheR |-> FALSE,nextN |-> 2,edges |-> (2 :> <<1, 1>>),acyclic |-> FALSE,l |-> 297,eObj |-> <<>>,nextE |-> 3]),
    ([res |-> "ok",cacheV |-> FALSE,nodes |-> {},cacheR |-> FALSE,nextN |-> 2,edges |-> <<>>,acyclic |-> TRUE,l |-> 298,eObj |-> <<>>,nextE |-> 3]),
    ([res |-> "F",cacheV |-> TRUE,nodes |-> {},cacheR |-> FALSE,nextN |-> 2,edges |-> <<>>,acyclic |-> TRUE,l |-> 299,eObj |-> <<>>,nextE |-> 3]),
    ([res |-> "raise",cacheV |-> TRUE,nodes |-> {},cacheR |-> FALSE,nextN |-> 2,edges |-> <<>>,acyclic |-> TRUE,l |-> 300,eObj |-> <<>>,nextE |-> 3]),
    ([res |-> "raise",cacheV |-> TRUE,nodes |-> {},cacheR |-> FALSE,nextN |-> 2,edges |-> <<>>,acyclic |-> TRUE,l |-> 301,eObj |-> <<>>,nextE |-> 3]),
    ([res |-> "ok",cacheV |-> FALSE,nodes |-> {2},cacheR |-> FALSE,nextN |-> 3,edges |-> <<>>,acyclic |-> TRUE,l |-> 302,eObj |-> <<>>,nextE |-> 3]),
    ([res |-> "ok",cacheV |-> FALSE,nodes |-> {2},cacheR |-> FALSE,nextN |-> 3,edges |-> (3 :> <<2, 2>>),acyclic |-> FALSE,l |-> 303,eObj |-> <<>>,nextE |-> 4]),
    ([res |-> "raise",cacheV |-> FALSE,nodes |-> {2},cacheR |-> FALSE,nextN |-> 3,edges |-> (3 :> <<2, 2>>),acyclic |-> FALSE,l |-> 304,eObj |-> <<>>,nextE |-> 4]),
    ([res |-> "raise",cacheV |-> FALSE,nodes |-> {2},cacheR |-> FALSE,nextN |-> 3,edges |-> (3 :> <<2, 2>>),acyclic |-> FALSE,l |-> 305,eObj |-> <<>>,nextE |-> 4]),
    ([res |-> "ok",cacheV |-> FALSE,nodes |-> {2},cacheR |-> FALSE,nextN |-> 3,edges |-> (3 :> <<2, 2>>),acyclic |-> FALSE,l |-> 306,eObj |-> <<>>,nextE |-> 4]),
    ([res |-> "raise",cacheV |-> FALSE,nodes |-> {2},cacheR |-> FALSE,nextN |-> 3,edges |-> (3 :> <<2, 2>>),acyclic |-> FALSE,l |-> 307,eObj |-> <<>>,nextE |-> 4]),
    ([res |-> "RT",cacheV |-> FALSE,nodes |-> {2},cacheR |-> FALSE,nextN |-> 3,edges |-> (3 :> <<2, 2>>),acyclic |-> FALSE,l |-> 308,eObj |-> <<>>,nextE |-> 4]),
    ([res |-> "raise",cacheV |-> FALSE,nodes |-> {2},cacheR |-> FALSE,nextN |-> 3,edges |-> (3 :> <<2, 2>>),acyclic |-> FALSE,l |-> 309,eObj |-> <<>>,nextE |-> 4]),
    ([res |-> "F",cacheV |-> FALSE,nodes |-> {2},cacheR |-> FALSE,nextN |-> 3,edges |-> (3 :> <<2, 2>>),acyclic |-> FALSE,l |-> 310,eObj |-> <<>>,nextE |-> 4]),
    ([res |-> "ok",cacheV |-> FALSE,nodes |-> {2, 3},cacheR |-> FALSE,nextN |-> 4,edges |-> (3 :> <<2, 2>>),acyclic |-> FALSE,l |-> 311,eObj |-> <<>>,nextE |-> 4]),
    ([res |-> "raise",cacheV |-> FALSE,nodes |-> {2, 3},cacheR |-> FALSE,nextN |-> 4,edges |-> (3 :> <<2, 2>>),acyclic |-> FALSE,l |-> 312,eObj |-> <<>>,nextE |-> 4]),
    ([res |-> "ok",cacheV |-> FALSE,nodes |-> {2, 3, 4},cacheR |-> FALSE,nextN |-> 5,edges |-> (3 :> <<2, 2>>),acyclic |-> FALSE,l |-> 313,eObj |-> <<>>,nextE |-> 4]),
    ([res |-> "ok",cacheV |-> FALSE,nodes |-> {2, 3, 4},cacheR |-> FALSE,nextN |-> 5,edges |-> (3 :> <<2, 2>> @@ 4 :> <<4, 2>>),acyclic |-> FALSE,l |-> 314,eObj |-> <<>>,nextE |-> 5]),
    ([res |-> "ok",cacheV |-> FALSE,nodes |-> {2, 3, 4, 5},cacheR |-> FALSE,nextN |-> 6,edges |-> (3 :> <<2, 2>> @@ 4 :> <<4, 2>>),acyclic |-> FALSE,l |-> 315,eObj |-> <<>>,nextE |-> 5]),
    ([res |-> "F",cacheV |-> FALSE,nodes |-> {2, 3, 4, 5},cacheR |-> FALSE,nextN |-> 6,edges |-> (3 :> <<2, 2>> @@ 4 :> <<4, 2>>),acyclic |-> FALSE,l |-> 316,eObj |-> <<>>,nextE |-> 5]),
    ([res |-> "RF",cacheV |-> FALSE,nodes |-> {2, 3, 4, 5},cacheR |-> FALSE,nextN |-> 6,edges |-> (3 :> <<2, 2>> @@ 4 :> <<4, 2>>),acyclic |-> FALSE,l |-> 317,eObj |-> <<>>,nextE |-> 5]),
    ([res |-> "ok",cacheV |-> FALSE,nodes |-> {2, 3, 4, 5},cacheR |-> FALSE,nextN |-> 6,edges |-> (3 :> <<2, 2>> @@ 4 :> <<4, 2>>),acyclic |-> FALSE,l |-> 318,eObj |-> <<>>,nextE |-> 5]),
    ([res |-> "raise",cacheV |-> FALSE,nodes |-> {2, 3, 4, 5},cacheR |-> FALSE,nextN |-> 6,edges |-> (3 :> <<2, 2>> @@ 4 :> <<4, 2>>),acyclic |-> FALSE,l |-> 319,eObj |-> <<>>,nextE |-> 5]),
    ([res |-> "ok",cacheV |-> FALSE,nodes |-> {},cacheR |-> FALSE,nextN |-> 0,edges |-> <<>>,acyclic |-> TRUE,l |-> 320,eObj |-> <<>>,nextE |-> 0]),
    ([res |-> "ok",cacheV |-> FALSE,nodes |-> {0},cacheR |-> FALSE,nextN |-> 1,edges |-> <<>>,acyclic |-> TRUE,l |-> 321,eObj |-> <<>>,nextE |-> 0]),
    ([res |-> "ok",cacheV |-> FALSE,nodes |-> {0, 1},cacheR |-> FALSE,nextN |-> 2,edges |-> <<>>,acyclic |-> TRUE,l |-> 322,eObj |-> <<>>,nextE |-> 0]),
    ([res |-> "ok",cacheV |-> FALSE,nodes |-> {0, 1, 2},cacheR |-> FALSE,nextN |-> 3,edges |-> <<>>,acyclic |-> TRUE,l |-> 323,eObj |-> <<>>,nextE |-> 0]),
    ([res |-> "ok",cacheV |-> FALSE,nodes |-> {0, 1, 2, 3},cacheR |-> FALSE,nextN |-> 4,edges |-> <<>>,acyclic |-> TRUE,l |-> 324,eObj |-> <<>>,nextE |-> 0]),
    ([res |-> "ok",cacheV |-> FALSE,nodes |-> {0, 1, 2, 3, 4},cacheR |-> FALSE,nextN |-> 5,edges |-> <<>>,acyclic |-> TRUE,l |-> 325,eObj |-> <<>>,nextE |-> 0]),
    ([res |-> "ok",cacheV |-> FALSE,nodes |-> {0, 1, 2, 3, 4, 5},cacheR |-> FALSE,nextN |-> 6,edges |-> <<>>,acyclic |-> TRUE,l |-> 326,eObj |-> <<>>,nextE |-> 0]),
    ([res |-> "ok",cacheV |-> FALSE,nodes |-> {0, 1, 2, 3, 4, 5},cacheR |-> FALSE,nextN |-> 6,edges |-> (0 :> <<5, 0>>),acyclic |-> TRUE,l |-> 327,eObj |-> (0 :> 1),nextE |-> 1]),
    ([res |-> "ok",cacheV |-> FALSE,nodes |-> {0, 1, 2, 3, 4, 5},cacheR |-> FALSE,nextN |-> 6,edges |-> (0 :> <<5, 0>> @@ 1 :> <<0, 3>>),acyclic |-> TRUE,l |-> 328,eObj |-> (0 :> 1 @@ 1 :> 2),nextE |-> 2]),
    ([res |-> "T",cacheV |-> TRUE,nodes |-> {0, 1, 2, 3, 4, 5},cacheR |-> FALSE,nextN |-> 6,edges |-> (0 :> <<5, 0>> @@ 1 :> <<0, 3>>),acyclic |-> TRUE,l |-> 329,eObj |-> (0 :> 1 @@ 1 :> 2),nextE |-> 2]),
    ([res |-> "ok",cacheV |-> FALSE,nodes |-> {0, 1, 2, 3, 4, 5},cacheR |-> FALSE,nextN |-> 6,edges |-> (0 :> <<5, 0>> @@ 1 :> <<0, 3>> @@ 2 :> <<2, 4>>),acyclic |-> TRUE,l |-> 330,eObj |-> (0 :> 1 @@ 1 :> 2),nextE |-> 3]),
    ([res |-> "ok",cacheV |-> FALSE,nodes |-> {0, 1, 2, 3, 4, 5},cacheR |-> FALSE,nextN |-> 6,edges |-> (0 :> <<5, 0>> @@ 1 :> <<0, 3>> @@ 2 :> <<2, 4>> @@ 3 :> <<1, 2>>),acyclic |-> TRUE,l |-> 331,eObj |-> (0 :> 1 @@ 1 :> 2),nextE |-> 4]),
    ([res |-> "T",cacheV |-> TRUE,nodes |-> {0, 1, 2, 3, 4, 5},cacheR |-> FALSE,nextN |-> 6,edges |-> (0 :> <<5, 0>> @@ 1 :> <<0, 3>> @@ 2 :> <<2, 4>> @@ 3 :> <<1, 2>>),acyclic |-> TRUE,l |-> 332,eObj |-> (0 :> 1 @@ 1 :> 2),nextE |-> 4]),
    ([res |-> "T",cacheV |-> TRUE,nodes |-> {0, 1, 2, 3, 4, 5},cacheR |-> FALSE,nextN |-> 6,edges |-> (0 :> <<5, 0>> @@ 1 :> <<0, 3>> @@ 2 :> <<2, 4>> @@ 3 :> <<1, 2>>),acyclic |-> TRUE,l |-> 333,eObj |-> (0 :> 1 @@ 1 :> 2),nextE |-> 4]),
    ([res |-> "RF",cacheV |-> TRUE,nodes |-> {0, 1, 2, 3, 4, 5},cacheR |-> FALSE,nextN |-> 6,edges |-> (0 :> <<5, 0>> @@ 1 :> <<0, 3>> @@ 2 :> <<2, 4>> @@ 3 :> <<1, 2>>),acyclic |-> TRUE,l |-> 334,eObj |-> (0 :> 1 @@ 1 :> 2),nextE |-> 4]),
    ([res |-> "ok",cacheV |-> TRUE,nodes |-> {0, 1, 2, 3, 4, 5},cacheR |-> FALSE,nextN |-> 6,edges |-> (0 :> <<5, 0>> @@ 1 :> <<0, 3>> @@ 2 :> <<2, 4>> @@ 3 :> <<1, 2>>),acyclic |-> TRUE,l |-> 335,eObj |-> (0 :> 1 @@ 1 :> 2),nextE |-> 4]),
    ([res |-> "ok",cacheV |-> TRUE,nodes |-> {0, 1, 2, 3, 4, 5},cacheR |-> FALSE,nextN |-> 6,edges |-> (0 :> <<5, 0>> @@ 1 :> <<0, 3>> @@ 2 :> <<2, 4>> @@ 3 :> <<1, 2>>),acyclic |-> TRUE,l |-> 336,eObj |-> (0 :> 1 @@ 1 :> 2),nextE |-> 4]),
    ([res |-> "ok",cacheV |-> TRUE,nodes |-> {0, 1, 2, 3, 4, 5},cacheR |-> FALSE,nextN |-> 6,edges |-> (0 :> <<5, 0>> @@ 1 :> <<0, 3>> @@ 2 :> <<2, 4>> @@ 3 :> <<1, 2>>),acyclic |-> TRUE,l |-> 337,eObj |-> (0 :> 1 @@ 1 :> 2),nextE |-> 4]),
    ([res |-> "ok",cacheV |-> TRUE,nodes |-> {0, 1, 2, 3, 4, 5},cacheR |-> FALSE,nextN |-> 6,edges |-> (0 :> <<5, 0>> @@ 1 :> <<0, 3>> @@ 2 :> <<2, 4>> @@ 3 :> <<1, 2>>),acyclic |-> TRUE,l |-> 338,eObj |-> (0 :> 1 @@ 1 :> 2),nextE |-> 4]),
    ([res |-> "ok",cacheV |-> TRUE,nodes |-> {0, 1, 2, 3, 4, 5},cacheR |-> FALSE,nextN |-> 6,edges |-> (0 :> <<5, 0>> @@ 1 :> <<0, 3>> @@ 2 :> <<2, 4>> @@ 3 :> <<1, 2>>),acyclic |-> TRUE,l |-> 339,eObj |-> (0 :> 1 @@ 1 :> 2),nextE |-> 4]),
    ([res |-> "ok",cacheV |-> TRUE,nodes |-> {0, 1, 2, 3, 4, 5},cacheR |-> FALSE,nextN |-> 6,edges |-> (0 :> <<5, 0>> @@ 1 :> <<0, 3>> @@ 2 :> <<2, 4>> @@ 3 :> <<1, 2>>),acyclic |-> TRUE,l |-> 340,eObj |-> (0 :> 1 @@ 1 :> 2),nextE |-> 4]),
    ([res |-> "ok",cacheV |-> TRUE,nodes |-> {0, 1, 2, 3, 4, 5},cacheR |-> FALSE,nextN |-> 6,edges |-> (0 :> <<5, 0>> @@ 1 :> <<0, 3>> @@ 2 :> <<2, 4>> @@ 3 :> <<1, 2>>),acyclic |-> TRUE,l |-> 341,eObj |-> (0 :> 1 @@ 1 :> 2),nextE |-> 4]),
    ([res |-> "ok",cacheV |-> TRUE,nodes |-> {0, 1, 2, 3, 4, 5},cacheR |-> FALSE,nextN |-> 6,edges |-> (0 :> <<5, 0>> @@ 1 :> <<0, 3>> @@ 2 :> <<2, 4>> @@ 3 :> <<1, 2>>),acyclic |-> TRUE,l |-> 342,eObj |-> (0 :> 1 @@ 1 :> 2),nextE |-> 4]),
    ([res |-> "ok",cacheV |-> FALSE,nodes |-> {},cacheR |-> FALSE,nextN |-> 0,edges |-> <<>>,acyclic |-> TRUE,l |-> 343,eObj |-> <<>>,nextE |-> 0]),
    ([res |-> "RT",cacheV |-> FALSE,nodes |-> {},cacheR |-> FALSE,nextN |-> 0,edges |-> <<>>,acyclic |-> TRUE,l |-> 344,eObj |-> <<>>,nextE |-> 0]),
    ([res |-> "raise",cacheV |-> FALSE,nodes |-> {},cacheR |-> FALSE,nextN |-> 0,edges |-> <<>>,acyclic |-> TRUE,l |-> 345,eObj |-> <<>>,nextE |-> 0]),
    ([res |-> "F",cacheV |-> TRUE,nodes |-> {},cacheR |-> FALSE,nextN |-> 0,edges |-> <<>>,acyclic |-> TRUE,l |-> 346,eObj |-> <<>>,nextE |-> 0]),
    ([res |-> "raise",cacheV |-> TRUE,nodes |-> {},cacheR |-> FALSE,nextN |-> 0,edges |-> <<>>,acyclic |-> TRUE,l |-> 347,eObj |-> <<>>,nextE |-> 0]),
    ([res |-> "raise",cacheV |-> TRUE,nodes |-> {},cacheR |-> FALSE,nextN |-> 0,edges |-> <<>>,acyclic |-> TRUE,l |-> 348,eObj |-> <<>>,nextE |-> 0]),
    ([res |-> "raise",cacheV |-> TRUE,nodes |-> {},cacheR |-> FALSE,nextN |-> 0,edges |-> <<>>,acyclic |-> TRUE,l |-> 349,eObj |-> <<>>,nextE |-> 0]),
    ([res |-> "raise",cacheV |-> TRUE,nodes |-> {},cacheR |-> FALSE,nextN |-> 0,edges |-> <<>>,acyclic |-> TRUE,l |-> 350,eObj |-> <<>>,nextE |-> 0]),
    ([res |-> "raise",cacheV |-> TRUE,nodes |-> {},cacheR |-> FALSE,nextN |-> 0,edges |-> <<>>,acyclic |-> TRUE,l |-> 351,eObj |-> <<>>,nextE |-> 0]),
    ([res |-> "ok",cacheV |-> TRUE,nodes |-> {},cacheR |-> FALSE,nextN |-> 0,edges |-> <<>>,acyclic |-> TRUE,l |-> 352,eObj |-> <<>>,nextE |-> 0]),
    ([res |-> "ok",cacheV |-> TRUE,nodes |-> {},cacheR |-> FALSE,nextN |-> 0,edges |-> <<>>,acyclic |-> TRUE,l |-> 353,eObj |-> <<>>,nextE |-> 0]),
    ([res |-> "raise",cacheV |-> TRUE,nodes |-> {},cacheR |-> FALSE,nextN |-> 0,edges |-> <<>>,acyclic |-> TRUE,l |-> 354,eObj |-> <<>>,nextE |-> 0]),
    ([res |-> "F",cacheV |-> TRUE,nodes |-> {},cacheR |-> FALSE,nextN |-> 0,edges |-> <<>>,acyclic |-> TRUE,l |-> 355,eObj |-> <<>>,nextE |-> 0]),
    ([res |-> "raise",cacheV |-> TRUE,nodes |-> {},cacheR |-> FALSE,nextN |-> 0,edges |-> <<>>,acyclic |-> TRUE,l |-> 356,eObj |-> <<>>,nextE |-> 0]),
    ([res |-> "F",cacheV |-> TRUE,nodes |-> {},cacheR |-> FALSE,nextN |-> 0,edges |-> <<>>,acyclic |-> TRUE,l |-> 357,eObj |-> <<>>,nextE |-> 0]),
    ([res |-> "ok",cacheV |-> FALSE,nodes |-> {0},cacheR |-> FALSE,nextN |-> 1,edges |-> <<>>,acyclic |-> TRUE,l |-> 358,eObj |-> <<>>,nextE |-> 0]),
    ([res |-> "ok",cacheV |-> FALSE,nodes |-> {0},cacheR |-> FALSE,nextN |-> 1,edges |-> (0 :> <<0, 0>>),acyclic |-> FALSE,l |-> 359,eObj |-> <<>>,nextE |-> 1]),
    ([res |-> "ok",cacheV |-> FALSE,nodes |-> {0},cacheR |-> FALSE,nextN |-> 1,edges |-> <<>>,acyclic |-> TRUE,l |-> 360,eObj |-> <<>>,nextE |-> 1]),
    ([res |-> "ok",cacheV |-> FALSE,nodes |-> {0},cacheR |-> FALSE,nextN |-> 1,edges |-> <<>>,acyclic |-> TRUE,l |-> 361,eObj |-> <<>>,nextE |-> 1]),
    ([res |-> "ok",cacheV |-> FALSE,nodes |-> {0},cacheR |-> FALSE,nextN |-> 1,edges |-> <<>>,acyclic |-> TRUE,l |-> 362,eObj |-> <<>>,nextE |-> 1]),
    ([res |-> "raise",cacheV |-> FALSE,nodes |-> {0},cacheR |-> FALSE,nextN |-> 1,edges |-> <<>>,acyclic |-> TRUE,l |-> 363,eObj |-> <<>>,nextE |-> 1]),
    ([res |-> "ok",cacheV |-> FALSE,nodes |-> {},cacheR |-> FALSE,nextN |-> 1,edges |-> <<>>,acyclic |-> TRUE,l |-> 364,eObj |-> <<>>,nextE |-> 1]),
    ([res |-> "ok",cacheV |-> FALSE,nodes |-> {1},cacheR |-> FALSE,nextN |-> 2,edges |-> <<>>,acyclic |-> TRUE,l |-> 365,eObj |-> <<>>,nextE |-> 1]),
    ([res |-> "ok",cacheV |-> TRUE,nodes |-> {1},cacheR |-> FALSE,nextN |-> 2,edges |-> <<>>,acyclic |-> TRUE,l |-> 366,eObj |-> <<>>,nextE |-> 1]),
    ([res |-> "ok",cacheV |-> TRUE,nodes |-> {1},cacheR |-> FALSE,nextN |-> 2,edges |-> <<>>,acyclic |-> TRUE,l |-> 367,eObj |-> <<>>,nextE |-> 1]),
    ([res |-> "ok",cacheV |-> FALSE,nodes |-> {1, 2},cacheR |-> FALSE,nextN |-> 3,edges |-> <<>>,acyclic |-> TRUE,l |-> 368,eObj |-> <<>>,nextE |-> 1]),
    ([res |-> "ok",cacheV |-> FALSE,nodes |-> {1},cacheR |-> FALSE,nextN |-> 3,edges |-> <<>>,acyclic |-> TRUE,l |-> 369,eObj |-> <<>>,nextE |-> 1]),
    ([res |-> "ok",cacheV |-> FALSE,nodes |-> {1},cacheR |-> FALSE,nextN |-> 3,edges |-> <<>>,acyclic |-> TRUE,l |-> 370,eObj |-> <<>>,nextE |-> 1]),
    ([res |-> "ok",cacheV |-> FALSE,nodes |-> {1},cacheR |-> FALSE,nextN |-> 3,edges |-> <<>>,acyclic |-> TRUE,l |-> 371,eObj |-> <<>>,nextE |-> 1]),
    ([res |-> "T",cacheV |-> TRUE,nodes |-> {1},cacheR |-> FALSE,nextN |-> 3,edges |-> <<>>,acyclic |-> TRUE,l |-> 372,eObj |-> <<>>,nextE |-> 1]),
    ([res |-> "ok",cacheV |-> FALSE,nodes |-> {1},cacheR |-> FALSE,nextN |-> 3,edges |-> <<<<1, 1>>>>,acyclic |-> FALSE,l |-> 373,eObj |-> <<>>,nextE |-> 2]),
    ([res |-> "ok",cacheV |-> FALSE,nodes |-> {1},cacheR |-> FALSE,nextN |-> 3,edges |-> <<>>,acyclic |-> TRUE,l |-> 374,eObj |-> <<>>,nextE |-> 2]),
    ([res |-> "ok",cacheV |-> FALSE,nodes |-> {1},cacheR |-> FALSE,nextN |-> 3,edges |-> (2 :> <<1, 1>>),acyclic |-> FALSE,l |-> 375,eObj |-> (2 :> 3),nextE |-> 3]),
    ([res |-> "ok",cacheV |-> FALSE,nodes |-> {1, 3},cacheR |-> FALSE,nextN |-> 4,edges |-> (2 :> <<1, 1>>),acyclic |-> FALSE,l |-> 376,eObj |-> (2 :> 3),nextE |-> 3]),
    ([res |-> "raise",cacheV |-> FALSE,nodes |-> {1, 3},cacheR |-> FALSE,nextN |-> 4,edges |-> (2 :> <<1, 1>>),acyclic |-> FALSE,l |-> 377,eObj |-> (2 :> 3),nextE |-> 3]),
    ([res |-> "ok",cacheV |-> FALSE,nodes |-> {1, 3},cacheR |-> FALSE,nextN |-> 4,edges |-> (2 :> <<1, 1>> @@ 3 :> <<1, 3>>),acyclic |-> FALSE,l |-> 378,eObj |-> (2 :> 3),nextE |-> 4]),
    ([res |-> "ok",cacheV |-> FALSE,nodes |-> {1, 3, 4},cacheR |-> FALSE,nextN |-> 5,edges |-> (2 :> <<1, 1>> @@ 3 :> <<1, 3>>),acyclic |-> FALSE,l |-> 379,eObj |-> (2 :> 3),nextE |-> 4]),
    ([res |-> "ok",cacheV |-> FALSE,nodes |-> {1, 4},cacheR |-> FALSE,nextN |-> 5,edges |-> (2 :> <<1, 1>>),acyclic |-> FALSE,l |-> 380,eObj |-> (2 :> 3),nextE |-> 4]),
    ([res |-> "raise",cacheV |-> FALSE,nodes |-> {1, 4},cacheR |-> FALSE,nextN |-> 5,edges |-> (2 :> <<1, 1>>),acyclic |-> FALSE,l |-> 381,eObj |-> (2 :> 3),nextE |-> 4]),
    ([res |-> "ok",cacheV |-> FALSE,nodes |-> {1, 4},cacheR |-> FALSE,nextN |-> 5,edges |-> (2 :> <<1, 1>> @@ 4 :> <<4, 4>>),acyclic |-> FALSE,l |-> 382,eObj |-> (2 :> 3 @@ 4 :> 1),nextE |-> 5]),
    ([res |-> "raise",cacheV |-> FALSE,nodes |-> {1, 4},cacheR |-> FALSE,nextN |-> 5,edges |-> (2 :> <<1, 1>> @@ 4 :> <<4, 4>>),acyclic |-> FALSE,l |-> 383,eObj |-> (2 :> 3 @@ 4 :> 1),nextE |-> 5]),
    ([res |-> "ok",cacheV |-> FALSE,nodes |-> {1, 4, 5},cacheR |-> FALSE,nextN |-> 6,edges |-> (2 :> <<1, 1>> @@ 4 :> <<4, 4>>),acyclic |-> FALSE,l |-> 384,eObj |-> (2 :> 3 @@ 4 :> 1),nextE |-> 5]),
    ([res |-> "F",cacheV |-> FALSE,nodes |-> {1, 4, 5},cacheR |-> FALSE,nextN |-> 6,edges |-> (2 :> <<1, 1>> @@ 4 :> <<4, 4>>),acyclic |-> FALSE,l |-> 385,eObj |-> (2 :> 3 @@ 4 :> 1),nextE |-> 5]),
    ([res |-> "RT",cacheV |-> FALSE,nodes |-> {1, 4, 5},cacheR |-> TRUE,nextN |-> 6,edges |-> (2 :> <<1, 1>> @@ 4 :> <<4, 4>>),acyclic |-> FALSE,l |-> 386,eObj |-> (2 :> 3 @@ 4 :> 1),nextE |-> 5]),
    ([res |-> "ok",cacheV |-> FALSE,nodes |-> {1, 4, 5},cacheR |-> TRUE,nextN |-> 6,edges |-> (2 :> <<1, 1>> @@ 4 :> <<4, 4>>),acyclic |-> FALSE,l |-> 387,eObj |-> (2 :> 3 @@ 4 :> 1),nextE |-> 5]),
    ([res |-> "raise",cacheV |-> FALSE,nodes |-> {1, 4, 5},cacheR |-> TRUE,nextN |-> 6,edges |-> (2 :> <<1, 1>> @@ 4 :> <<4, 4>>),acyclic |-> FALSE,l |-> 388,eObj |-> (2 :> 3 @@ 4 :> 1),nextE |-> 5]),
    ([res |-> "ok",cacheV |-> FALSE,nodes |-> {},cacheR |-> FALSE,nextN |-> 0,edges |-> <<>>,acyclic |-> TRUE,l |-> 389,eObj |-> <<>>,nextE |-> 0]),
    ([res |-> "ok",cacheV |-> FALSE,nodes |-> {0},cacheR |-> FALSE,nextN |-> 1,edges |-> <<>>,acyclic |-> TRUE,l |-> 390,eObj |-> <<>>,nextE |-> 0]),
    ([res |-> "ok",cacheV |-> FALSE,nodes |-> {0, 1},cacheR |-> FALSE,nextN |-> 2,edges |-> <<>>,acyclic |-> TRUE,l |-> 391,eObj |-> <<>>,nextE |-> 0]),
    ([res |-> "ok",cacheV |-> FALSE,nodes |-> {0, 1, 2},cacheR |-> FALSE,nextN |-> 3,edges |-> <<>>,acyclic |-> TRUE,l |-> 392,eObj |-> <<>>,nextE |-> 0]),
    ([res |-> "ok",cacheV |-> FALSE,nodes |-> {0, 1, 2, 3},cacheR |-> FALSE,nextN |-> 4,edges |-> <<>>,acyclic |-> TRUE,l |-> 393,eObj |-> <<>>,nextE |-> 0]),
    ([res |-> "ok",cacheV |-> FALSE,nodes |-> {0, 1, 2, 3, 4},cacheR |-> FALSE,nextN |-> 5,edges |-> <<>>,acyclic |-> TRUE,l |-> 394,eObj |-> <<>>,nextE |-> 0]),
    ([res |-> "ok",cacheV |-> FALSE,nodes |-> {0, 1, 2, 3, 4, 5},cacheR |-> FALSE,nextN |-> 6,edges |-> <<>>,acyclic |-> TRUE,l |-> 395,eObj |-> <<>>,nextE |-> 0]),
    ([res |-> "ok",cacheV |-> FALSE,nodes |-> {0, 1, 2, 3, 4, 5},cacheR |-> FALSE,nextN |-> 6,edges |-> (0 :> <<5, 3>>),acyclic |-> TRUE,l |-> 396,eObj |-> <<>>,nextE |-> 1]),
    ([res |-> "ok",cacheV |-> FALSE,nodes |-> {0, 1, 2, 3, 4, 5},cacheR |-> FALSE,nextN |-> 6,edges |-> (0 :> <<5, 3>> @@ 1 :> <<0, 3>>),acyclic |-> TRUE,l |-> 397,eObj |-> <<1>>,nextE |-> 2]),
    ([res |-> "T",cacheV |-> TRUE,nodes |-> {0, 1, 2, 3, 4, 5},cacheR |-> FALSE,nextN |-> 6,edges |-> (0 :> <<5, 3>> @@ 1 :> <<0, 3>>),acyclic |-> TRUE,l |-> 398,eObj |-> <<1>>,nextE |-> 2]),
    ([res |-> "ok",cacheV |-> FALSE,nodes |-> {0, 1, 2, 3, 4, 5},cacheR |-> FALSE,nextN |-> 6,edges |-> (0 :> <<5, 3>> @@ 1 :> <<0, 3>> @@ 2 :> <<2, 3>>),acyclic |-> TRUE,l |-> 399,eObj |-> <<1>>,nextE |-> 3]),
    ([res |-> "T",cacheV |-> TRUE,nodes |-> {0, 1, 2, 3, 4, 5},cacheR |-> FALSE,nextN |-> 6,edges |-> (0 :> <<5, 3>> @@ 1 :> <<0, 3>> @@ 2 :> <<2, 3>>),acyclic |-> TRUE,l |-> 400,eObj |-> <<1>>,nextE |-> 3]),
    ([res |-> "ok",cacheV |-> FALSE,nodes |-> {0, 1, 2, 3, 4, 5},cacheR |-> FALSE,nextN |-> 6,edges |-> (0 :> <<5, 3>> @@ 1 :> <<0, 3>> @@ 2 :> <<2, 3>> @@ 3 :> <<0, 5>>),acyclic |-> TRUE,l |-> 401,eObj |-> <<1>>,nextE |-> 4]),
    ([res |-> "T",cacheV |-> TRUE,nodes |-> {0, 1, 2, 3, 4, 5},cacheR |-> FALSE,nextN |-> 6,edges |-> (0 :> <<5, 3>> @@ 1 :> <<0, 3>> @@ 2 :> <<2, 3>> @@ 3 :> <<0, 5>>),acyclic |-> TRUE,l |-> 402,eObj |-> <<1>>,nextE |-> 4]),
    ([res |-> "ok",cacheV |-> FALSE,nodes |-> {0, 1, 2, 3, 4, 5},cacheR |-> FALSE,nextN |-> 6,edges |-> (0 :> <<5, 3>> @@ 1 :> <<0, 3>> @@ 2 :> <<2, 3>> @@ 3 :> <<0, 5>> @@ 4 :> <<5, 4>>),acyclic |-> TRUE,l |-> 403,eObj |-> (1 :> 1 @@ 4 :> 2),nextE |-> 5]),
    ([res |-> "T",cacheV |-> TRUE,nodes |-> {0, 1, 2, 3, 4, 5},cacheR |-> FALSE,nextN |-> 6,edges |-> (0 :> <<5, 3>> @@ 1 :> <<0, 3>> @@ 2 :> <<2, 3>> @@ 3 :> <<0, 5>> @@ 4 :> <<5, 4>>),acyclic |-> TRUE,l |-> 404,eObj |-> (1 :> 1 @@ 4 :> 2),nextE |-> 5]),
    ([res |-> "ok",cacheV |-> FALSE,nodes |-> {0, 1, 2, 3, 4, 5},cacheR |-> FALSE,nextN |-> 6,edges |-> (0 :> <<5, 3>> @@ 1 :> <<0, 3>> @@ 2 :> <<2, 3>> @@ 3 :> <<0, 5>> @@ 4 :> <<5, 4>> @@ 5 :> <<4, 1>>),acyclic |-> TRUE,l |-> 405,eObj |-> (1 :> 1 @@ 4 :> 2),nextE |-> 6]),
    ([res |-> "RF",cacheV |-> FALSE,nodes |-> {0, 1, 2, 3, 4, 5},cacheR |-> FALSE,nextN |-> 6,edges |-> (0 :> <<5, 3>> @@ 1 :> <<0, 3>> @@ 2 :> <<2, 3>> @@ 3 :> <<0, 5>> @@ 4 :> <<5, 4>> @@ 5 :> <<4, 1>>),acyclic |-> TRUE,l |-> 406,eObj |-> (1 :> 1 @@ 4 :> 2),nextE |-> 6]),
    ([res |-> "ok",cacheV |-> FALSE,nodes |-> {0, 1, 2, 3, 4, 5},cacheR |-> FALSE,nextN |-> 6,edges |-> (0 :> <<5, 3>> @@ 1 :> <<0, 3>> @@ 2 :> <<2, 3>> @@ 3 :> <<0, 5>> @@ 4 :> <<5, 4>> @@ 5 :> <<4, 1>> @@ 6 :> <<2, 1>>),acyclic |-> TRUE,l |-> 407,eObj |-> (1 :> 1 @@ 4 :> 2),nextE |-> 7]),
    ([res |-> "ok",cacheV |-> FALSE,nodes |-> {0, 1, 2, 3, 4, 5},cacheR |-> FALSE,nextN |-> 6,edges |-> (0 :> <<5, 3>> @@ 1 :> <<0, 3>> @@ 2 :> <<2, 3>> @@ 3 :> <<0, 5>> @@ 4 :> <<5, 4>> @@ 5 :> <<4, 1>> @@ 6 :> <<2, 1>> @@ 7 :> <<0, 4>>),acyclic |-> TRUE,l |-> 408,eObj |-> (1 :> 1 @@ 4 :> 2),nextE |-> 8]),
    ([res |-> "T",cacheV |-> TRUE,nodes |-> {0, 1, 2, 3, 4, 5},cacheR |-> FALSE,nextN |-> 6,edges |-> (0 :> <<5, 3>> @@ 1 :> <<0, 3>> @@ 2 :> <<2, 3>> @@ 3 :> <<0, 5>> @@ 4 :> <<5, 4>> @@ 5 :> <<4, 1>> @@ 6 :> <<2, 1>> @@ 7 :> <<0, 4>>),acyclic |-> TRUE,l |-> 409,eObj |-> (1 :> 1 @@ 4 :> 2),nextE |-> 8]),
    ([res |-> "RF",cacheV |-> TRUE,nodes |-> {0, 1, 2, 3, 4, 5},cacheR |-> FALSE,nextN |-> 6,edges |-> (0 :> <<5, 3>> @@ 1 :> <<0, 3>> @@ 2 :> <<2, 3>> @@ 3 :> <<0, 5>> @@ 4 :> <<5, 4>> @@ 5 :> <<4, 1>> @@ 6 :> <<2, 1>> @@ 7 :> <<0, 4>>),acyclic |-> TRUE,l |-> 410,eObj |-> (1 :> 1 @@ 4 :> 2),nextE |-> 8]),
    ([res |-> "ok",cacheV |-> TRUE,nodes |-> {0, 1, 2, 3, 4, 5},cacheR |-> FALSE,nextN |-> 6,edges |-> (0 :> <<5, 3>> @@ 1 :> <<0, 3>> @@ 2 :> <<2, 3>> @@ 3 :> <<0, 5>> @@ 4 :> <<5, 4>> @@ 5 :> <<4, 1>> @@ 6 :> <<2, 1>> @@ 7 :> <<0, 4>>),acyclic |-> TRUE,l |-> 411,eObj |-> (1 :> 1 @@ 4 :> 2),nextE |-> 8]),
    ([res |-> "ok",cacheV |-> TRUE,nodes |-> {0, 1, 2, 3, 4, 5},cacheR |-> FALSE,nextN |-> 6,edges |-> (0 :> <<5, 3>> @@ 1 :> <<0, 3>> @@ 2 :> <<2, 3>> @@ 3 :> <<0, 5>> @@ 4 :> <<5, 4>> @@ 5 :> <<4, 1>> @@ 6 :> <<2, 1>> @@ 7 :> <<0, 4>>),acyclic |-> TRUE,l |-> 412,eObj |-> (1 :> 1 @@ 4 :> 2),nextE |-> 8]),
    ([res |-> "ok",cacheV |-> TRUE,nodes |-> {0, 1, 2, 3, 4, 5},cacheR |-> FALSE,nextN |-> 6,edges |-> (0 :> <<5, 3>> @@ 1 :> <<0, 3>> @@ 2 :> <<2, 3>> @@ 3 :> <<0, 5>> @@ 4 :> <<5, 4>> @@ 5 :> <<4, 1>> @@ 6 :> <<2, 1>> @@ 7 :> <<0, 4>>),acyclic |-> TRUE,l |-> 413,eObj |-> (1 :> 1 @@ 4 :> 2),nextE |-> 8]),
    ([res |-> "ok",cacheV |-> TRUE,nodes |-> {0, 1, 2, 3, 4, 5},cacheR |-> FALSE,nextN |-> 6,edges |-> (0 :> <<5, 3>> @@ 1 :> <<0, 3>> @@ 2 :> <<2, 3>> @@ 3 :> <<0, 5>> @@ 4 :> <<5, 4>> @@ 5 :> <<4, 1>> @@ 6 :> <<2, 1>> @@ 7 :> <<0, 4>>),acyclic |-> TRUE,l |-> 414,eObj |-> (1 :> 1 @@ 4 :> 2),nextE |-> 8]),
    ([res |-> "ok",cacheV |-> TRUE,nodes |-> {0, 1, 2, 3, 4, 5},cacheR |-> FALSE,nextN |-> 6,edges |-> (0 :> <<5, 3>> @@ 1 :> <<0, 3>> @@ 2 :> <<2, 3>> @@ 3 :> <<0, 5>> @@ 4 :> <<5, 4>> @@ 5 :> <<4, 1>> @@ 6 :> <<2, 1>> @@ 7 :> <<0, 4>>),acyclic |-> TRUE,l |-> 415,eObj |-> (1 :> 1 @@ 4 :> 2),nextE |-> 8]),
    ([res |-> "ok",cacheV |-> TRUE,nodes |-> {0, 1, 2, 3, 4, 5},cacheR |-> FALSE,nextN |-> 6,edges |-> (0 :> <<5, 3>> @@ 1 :> <<0, 3>> @@ 2 :> <<2, 3>> @@ 3 :> <<0, 5>> @@ 4 :> <<5, 4>> @@ 5 :> <<4, 1>> @@ 6 :> <<2, 1>> @@ 7 :> <<0, 4>>),acyclic |-> TRUE,l |-> 416,eObj |-> (1 :> 1 @@ 4 :> 2),nextE |-> 8]),
    ([res |-> "ok",cacheV |-> TRUE,nodes |-> {0, 1, 2, 3, 4, 5},cacheR |-> FALSE,nextN |-> 6,edges |-> (0 :> <<5, 3>> @@ 1 :> <<0, 3>> @@ 2 :> <<2, 3>> @@ 3 :> <<0, 5>> @@ 4 :> <<5, 4>> @@ 5 :> <<4, 1>> @@ 6 :> <<2, 1>> @@ 7 :> <<0, 4>>),acyclic |-> TRUE,l |-> 417,eObj |-> (1 :> 1 @@ 4 :> 2),nextE |-> 8]),
    ([res |-> "ok",cacheV |-> TRUE,nodes |-> {0, 1, 2, 3, 4, 5},cacheR |-> FALSE,nextN |-> 6,edges |-> (0 :> <<5, 3>> @@ 1 :> <<0, 3>> @@ 2 :> <<2, 3>> @@ 3 :> <<0, 5>> @@ 4 :> <<5, 4>> @@ 5 :> <<4, 1>> @@ 6 :> <<2, 1>> @@ 7 :> <<0, 4>>),acyclic |-> TRUE,l |-> 418,eObj |-> (1 :> 1 @@ 4 :> 2),nextE |-> 8]),
    ([res |-> "ok",cacheV |-> FALSE,nodes |-> {},cacheR |-> FALSE,nextN |-> 0,edges |-> <<>>,acyclic |-> TRUE,l |-> 419,eObj |-> <<>>,nextE |-> 0]),
    ([res |-> "ok",cacheV |-> FALSE,nodes |-> {0},cacheR |-> FALSE,nextN |-> 1,edges |-> <<>>,acyclic |-> TRUE,l |-> 420,eObj |-> <<>>,nextE |-> 0]),
    ([res |-> "ok",cacheV |-> FALSE,nodes |-> {0, 1},cacheR |-> FALSE,nextN |-> 2,edges |-> <<>>,acyclic |-> TRUE,l |-> 421,eObj |-> <<>>,nextE |-> 0]),
    ([res |-> "RF",cacheV |-> FALSE,nodes |-> {0, 1},cacheR |-> FALSE,nextN |-> 2,edges |-> <<>>,acyclic |-> TRUE,l |-> 422,eObj |-> <<>>,nextE |-> 0]),
    ([res |-> "RF",cacheV |-> FALSE,nodes |-> {0, 1},cacheR |-> FALSE,nextN |-> 2,edges |-> <<>>,acyclic |-> TRUE,l |-> 423,eObj |-> <<>>,nextE |-> 0]),
    ([res |-> "ok",cacheV |-> TRUE,nodes |-> {0, 1},cacheR |-> FALSE,nextN |-> 2,edges |-> <<>>,acyclic |-> TRUE,l |-> 424,eObj |-> <<>>,nextE |-> 0]),
    ([res |-> "ok",cacheV |-> FALSE,nodes |-> {0, 1},cacheR |-> FALSE,nextN |-> 2,edges |-> (0 :> <<0, 0>>),acyclic |-> FALSE,l |-> 425,eObj |-> <<>>,nextE |-> 1]),
    ([res |-> "raise",cacheV |-> FALSE,nodes |-> {0, 1},cacheR |-> FALSE,nextN |-> 2,edges |-> (0 :> <<0, 0>>),acyclic |-> FALSE,l |-> 426,eObj |-> <<>>,nextE |-> 1]),
    ([res |-> "raise",cacheV |-> FALSE,nodes |-> {0, 1},cacheR |-> FALSE,nextN |-> 2,edges |-> (0 :> <<0, 0>>),acyclic |-> FALSE,l |-> 427,eObj |-> <<>>,nextE |-> 1]),
    ([res |-> "ok",cacheV |-> FALSE,nodes |-> {0, 1},cacheR |-> FALSE,nextN |-> 2,edges |-> (0 :> <<0, 0>>),acyclic |-> FALSE,l |-> 428,eObj |-> <<>>,nextE |-> 1]),
    ([res |-> "ok",cacheV |-> FALSE,nodes |-> {0, 1, 2},cacheR |-> FALSE,nextN |-> 3,edges |-> (0 :> <<0, 0>>),acyclic |-> FALSE,l |-> 429,eObj |-> <<>>,nextE |-> 1]),
    ([res |-> "ok",cacheV |-> FALSE,nodes |-> {0, 1, 2, 3},cacheR |-> FALSE,nextN |-> 4,edges |-> (0 :> <<0, 0>>),acyclic |-> FALSE,l |-> 430,eObj |-> <<>>,nextE |-> 1]),
    ([res |-> "ok",cacheV |-> FALSE,nodes |-> {0, 1, 2, 3, 4},cacheR |-> FALSE,nextN |-> 5,edges |-> (0 :> <<0, 0>>),acyclic |-> FALSE,l |-> 431,eObj |-> <<>>,nextE |-> 1]),
    ([res |-> "raise",cacheV |-> FALSE,nodes |-> {0, 1, 2, 3, 4},cacheR |-> FALSE,nextN |-> 5,edges |-> (0 :> <<0, 0>>),acyclic |-> FALSE,l |-> 432,eObj |-> <<>>,nextE |-> 1]),
    ([res |-> "ok",cacheV |-> FALSE,nodes |-> {0, 1, 2, 3, 4},cacheR |-> FALSE,nextN |-> 5,edges |-> <<>>,acyclic |-> TRUE,l |-> 433,eObj |-> <<>>,nextE |-> 1]),
    ([res |-> "ok",cacheV |-> FALSE,nodes |-> {1, 2, 3, 4},cacheR |-> FALSE,nextN |-> 5,edges |-> <<>>,acyclic |-> TRUE,l |-> 434,eObj |-> <<>>,nextE |-> 1]),
    ([res |-> "ok",cacheV |-> FALSE,nodes |-> {1, 2, 3, 4, 5},cacheR |-> FALSE,nextN |-> 6,edges |-> <<>>,acyclic |-> TRUE,l |-> 435,eObj |-> <<>>,nextE |-> 1]),
    ([res |-> "T",cacheV |-> TRUE,nodes |-> {1, 2, 3, 4, 5},cacheR |-> FALSE,nextN |-> 6,edges |-> <<>>,acyclic |-> TRUE,l |-> 436,eObj |-> <<>>,nextE |-> 1]),
    ([res |-> "ok",cacheV |-> FALSE,nodes |-> {1, 2, 3, 4, 5},cacheR |-> FALSE,nextN |-> 6,edges |-> <<<<1, 5>>>>,acyclic |-> TRUE,l |-> 437,eObj |-> <<1>>,nextE |-> 2]),
    ([res |-> "T",cacheV |-> TRUE,nodes |-> {1, 2, 3, 4, 5},cacheR |-> FALSE,nextN |-> 6,edges |-> <<<<1, 5>>>>,acyclic |-> TRUE,l |-> 438,eObj |-> <<1>>,nextE |-> 2]),
    ([res |-> "ok",cacheV |-> FALSE,nodes |-> {1, 2, 3, 4, 5},cacheR |-> FALSE,nextN |-> 6,edges |-> <<<<1, 5>>, <<5, 1>>>>,acyclic |-> FALSE,l |-> 439,eObj |-> <<1, 2>>,nextE |-> 3]),
    ([res |-> "ok",cacheV |-> FALSE,nodes |-> {1, 2, 3, 4, 5},cacheR |-> FALSE,nextN |-> 6,edges |-> <<<<1, 5>>, <<5, 1>>, <<3, 5>>>>,acyclic |-> FALSE,l |-> 440,eObj |-> <<1, 2>>,nextE |-> 4]),
    ([res |-> "ok",cacheV |-> FALSE,nodes |-> {1, 2, 3, 4, 5},cacheR |-> FALSE,nextN |-> 6,edges |-> <<<<1, 5>>, <<5, 1>>, <<3, 5>>, <<3, 2>>>>,acyclic |-> FALSE,l |-> 441,eObj |-> <<1, 2>>,nextE |-> 5]),
    ([res |-> "RF",cacheV |-> FALSE,nodes |-> {1, 2, 3, 4, 5},cacheR |-> FALSE,nextN |-> 6,edges |-> <<<<1, 5>>, <<5, 1>>, <<3, 5>>, <<3, 2>>>>,acyclic |-> FALSE,l |-> 442,eObj |-> <<1, 2>>,nextE |-> 5]),
    ([res |-> "raise",cacheV |-> FALSE,nodes |-> {1, 2, 3, 4, 5},cacheR |-> FALSE,nextN |-> 6,edges |-> <<<<1, 5>>, <<5, 1>>, <<3, 5>>, <<3, 2>>>>,acyclic |-> FALSE,l |-> 443,eObj |-> <<1, 2>>,nextE |-> 5]),
    ([res |-> "RF",cacheV |-> FALSE,nodes |-> {1, 2, 3, 4, 5},cacheR |-> FALSE,nextN |-> 6,edges |-> <<<<1, 5>>, <<5, 1>>, <<3, 5>>, <<3, 2>>>>,acyclic |-> FALSE,l |-> 444,eObj |-> <<1, 2>>,nextE |-> 5]),
    ([res |-> "ok",cacheV |-> FALSE,nodes |-> {1, 2, 3, 4, 5},cacheR |-> FALSE,nextN |-> 6,edges |-> <<<<1, 5>>, <<5, 1>>, <<3, 5>>, <<3, 2>>, <<4, 3>>>>,acyclic |-> FALSE,l |-> 445,eObj |-> <<1, 2>>,nextE |-> 6]),
    ([res |-> "F",cacheV |-> FALSE,nodes |-> {1, 2, 3, 4, 5},cacheR |-> FALSE,nextN |-> 6,edges |-> <<<<1, 5>>, <<5, 1>>, <<3, 5>>, <<3, 2>>, <<4, 3>>>>,acyclic |-> FALSE,l |-> 446,eObj |-> <<1, 2>>,nextE |-> 6]),
    ([res |-> "RT",cacheV |-> FALSE,nodes |-> {1, 2, 3, 4, 5},cacheR |-> TRUE,nextN |-> 6,edges |-> <<<<1, 5>>, <<5, 1>>, <<3, 5>>, <<3, 2>>, <<4, 3>>>>,acyclic |-> FALSE,l |-> 447,eObj |-> <<1, 2>>,nextE |-> 6]),
    ([res |-> "ok",cacheV |-> FALSE,nodes |-> {1, 2, 3, 4, 5},cacheR |-> TRUE,nextN |-> 6,edges |-> <<<<1, 5>>, <<5, 1>>, <<3, 5>>, <<3, 2>>, <<4, 3>>>>,acyclic |-> FALSE,l |-> 448,eObj |-> <<1, 2>>,nextE |-> 6]),
    ([res |-> "ok",cacheV |-> FALSE,nodes |-> {1, 2, 3, 4, 5},cacheR |-> TRUE,nextN |-> 6,edges |-> <<<<1, 5>>, <<5, 1>>, <<3, 5>>, <<3, 2>>, <<4, 3>>>>,acyclic |-> FALSE,l |-> 449,eObj |-> <<1, 2>>,nextE |-> 6]),
    ([res |-> "raise",cacheV |-> FALSE,nodes |-> {1, 2, 3, 4, 5},cacheR |-> TRUE,nextN |-> 6,edges |-> <<<<1, 5>>, <<5, 1>>, <<3, 5>>, <<3, 2>>, <<4, 3>>>>,acyclic |-> FALSE,l |-> 450,eObj |-> <<1, 2>>,nextE |-> 6]),
    ([res |-> "ok",cacheV |-> FALSE,nodes |-> {1, 2, 3, 4, 5},cacheR |-> FALSE,nextN |-> 6,edges |-> <<<<1, 5>>, <<5, 1>>, <<3, 5>>, <<3, 2>>, <<4, 3>>, <<2, 4>>>>,acyclic |-> FALSE,l |-> 451,eObj |-> <<1, 2>>,nextE |-> 7]),
    ([res |-> "F",cacheV |-> FALSE,nodes |-> {1, 2, 3, 4, 5},cacheR |-> FALSE,nextN |-> 6,edges |-> <<<<1, 5>>, <<5, 1>>, <<3, 5>>, <<3, 2>>, <<4, 3>>, <<2, 4>>>>,acyclic |-> FALSE,l |-> 452,eObj |-> <<1, 2>>,nextE |-> 7]),
    ([res |-> "ok",cacheV |-> FALSE,nodes |-> {1, 2, 3, 4, 5},cacheR |-> FALSE,nextN |-> 6,edges |-> <<<<1, 5>>, <<5, 1>>, <<3, 5>>, <<3, 2>>, <<4, 3>>, <<2, 4>>>>,acyclic |-> FALSE,l |-> 453,eObj |-> <<1, 2>>,nextE |-> 7]),
    ([res |-> "F",cacheV |-> FALSE,nodes |-> {1, 2, 3, 4, 5},cacheR |-> FALSE,nextN |-> 6,edges |-> <<<<1, 5>>, <<5, 1>>, <<3, 5>>, <<3, 2>>, <<4, 3>>, <<2, 4>>>>,acyclic |-> FALSE,l |-> 454,eObj |-> <<1, 2>>,nextE |-> 7]),
    ([res |-> "RT",cacheV |-> FALSE,nodes |-> {1, 2, 3, 4, 5},cacheR |-> FALSE,nextN |-> 6,edges |-> <<<<1, 5>>, <<5, 1>>, <<3, 5>>, <<3, 2>>, <<4, 3>>, <<2, 4>>>>,acyclic |-> FALSE,l |-> 455,eObj |-> <<1, 2>>,nextE |-> 7]),
    ([res |-> "ok",cacheV |-> FALSE,nodes |-> {1, 2, 3, 4, 5},cacheR |-> FALSE,nextN |-> 6,edges |-> <<<<1, 5>>, <<5, 1>>, <<3, 5>>, <<3, 2>>, <<4, 3>>, <<2, 4>>>>,acyclic |-> FALSE,l |-> 456,eObj |-> <<1, 2>>,nextE |-> 7]),
    ([res |-> "raise",cacheV |-> FALSE,nodes |-> {1, 2, 3, 4, 5},cacheR |-> FALSE,nextN |-> 6,edges |-> <<<<1, 5>>, <<5, 1>>, <<3, 5>>, <<3, 2>>, <<4, 3>>, <<2, 4>>>>,acyclic |-> FALSE,l |-> 457,eObj |-> <<1, 2>>,nextE |-> 7]),
    ([res |-> "ok",cacheV |-> FALSE,nodes |-> {},cacheR |-> FALSE,nextN |-> 0,edges |-> <<>>,acyclic |-> TRUE,l |-> 458,eObj |-> <<>>,nextE |-> 0]),
    ([res |-> "ok",cacheV |-> FALSE,nodes |-> {0},cacheR |-> FALSE,nextN |-> 1,edges |-> <<>>,acyclic |-> TRUE,l |-> 459,eObj |-> <<>>,nextE |-> 0]),
    ([res |-> "ok",cacheV |-> FALSE,nodes |-> {0, 1},cacheR |-> FALSE,nextN |-> 2,edges |-> <<>>,acyclic |-> TRUE,l |-> 460,eObj |-> <<>>,nextE |-> 0]),
    ([res |-> "ok",cacheV |-> FALSE,nodes |-> {0, 1, 2},cacheR |-> FALSE,nextN |-> 3,edges |-> <<>>,acyclic |-> TRUE,l |-> 461,eObj |-> <<>>,nextE |-> 0]),
    ([res |-> "ok",cacheV |-> FALSE,nodes |-> {0, 1, 2, 3},cacheR |-> FALSE,nextN |-> 4,edges |-> <<>>,acyclic |-> TRUE,l |-> 462,eObj |-> <<>>,nextE |-> 0]),
    ([res |-> "ok",cacheV |-> FALSE,nodes |-> {0, 1, 2, 3, 4},cacheR |-> FALSE,nextN |-> 5,edges |-> <<>>,acyclic |-> TRUE,l |-> 463,eObj |-> <<>>,nextE |-> 0]),
    ([res |-> "ok",cacheV |-> FALSE,nodes |-> {0, 1, 2, 3, 4},cacheR |-> FALSE,nextN |-> 5,edges |-> (0 :> <<4, 2>>),acyclic |-> TRUE,l |-> 464,eObj |-> (0 :> 1),nextE |-> 1]),
    ([res |-> "ok",cacheV |-> FALSE,nodes |-> {0, 1, 2, 3, 4},cacheR |-> FALSE,nextN |-> 5,edges |-> (0 :> <<4, 2>> @@ 1 :> <<0, 2>>),acyclic |-> TRUE,l |-> 465,eObj |-> (0 :> 1),nextE |-> 2]),
    ([res |-> "ok",cacheV |-> FALSE,nodes |-> {0, 1, 2, 3, 4},cacheR |-> FALSE,nextN |-> 5,edges |-> (0 :> <<4, 2>> @@ 1 :> <<0, 2>> @@ 2 :> <<1, 3>>),acyclic |-> TRUE,l |-> 466,eObj |-> (0 :> 1),nextE |-> 3]),
    ([res |-> "ok",cacheV |-> FALSE,nodes |-> {0, 1, 2, 3, 4},cacheR |-> FALSE,nextN |-> 5,edges |-> (0 :> <<4, 2>> @@ 1 :> <<0, 2>> @@ 2 :> <<1, 3>> @@ 3 :> <<1, 0>>),acyclic |-> TRUE,l |-> 467,eObj |-> (0 :> 1),nextE |-> 4]),
    ([res |-> "RF",cacheV |-> FALSE,nodes |-> {0, 1, 2, 3, 4},cacheR |-> FALSE,nextN |-> 5,edges |-> (0 :> <<4, 2>> @@ 1 :> <<0, 2>> @@ 2 :> <<1, 3>> @@ 3 :> <<1, 0>>),acyclic |-> TRUE,l |-> 468,eObj |-> (0 :> 1),nextE |-> 4]),
    ([res |-> "ok",cacheV |-> FALSE,nodes |-> {0, 1, 2, 3, 4},cacheR |-> FALSE,nextN |-> 5,edges |-> (0 :> <<4, 2>> @@ 1 :> <<0, 2>> @@ 2 :> <<1, 3>> @@ 3 :> <<1, 0>> @@ 4 :> <<0, 3>>),acyclic |-> TRUE,l |-> 469,eObj |-> (0 :> 1),nextE |-> 5]),
    ([res |-> "T",cacheV |-> TRUE,nodes |-> {0, 1, 2, 3, 4},cacheR |-> FALSE,nextN |-> 5,edges |-> (0 :> <<4, 2>> @@ 1 :> <<0, 2>> @@ 2 :> <<1, 3>> @@ 3 :> <<1, 0>> @@ 4 :> <<0, 3>>),acyclic |-> TRUE,l |-> 470,eObj |-> (0 :> 1),nextE |-> 5]),
    ([res |-> "RF",cacheV |-> TRUE,nodes |-> {0, 1, 2, 3, 4},cacheR |-> FALSE,nextN |-> 5,edges |-> (0 :> <<4, 2>> @@ 1 :> <<0, 2>> @@ 2 :> <<1, 3>> @@ 3 :> <<1, 0>> @@ 4 :> <<0, 3>>),acyclic |-> TRUE,l |-> 471,eObj |-> (0 :> 1),nextE |-> 5]),
    ([res |-> "ok",cacheV |-> TRUE,nodes |-> {0, 1, 2, 3, 4},cacheR |-> FALSE,nextN |-> 5,edges |-> (0 :> <<4, 2>> @@ 1 :> <<0, 2>> @@ 2 :> <<1, 3>> @@ 3 :> <<1, 0>> @@ 4 :> <<0, 3>>),acyclic |-> TRUE,l |-> 472,eObj |-> (0 :> 1),nextE |-> 5]),
    ([res |-> "ok",cacheV |-> TRUE,nodes |-> {0, 1, 2, 3, 4},cacheR |-> FALSE,nextN |-> 5,edges |-> (0 :> <<4, 2>> @@ 1 :> <<0, 2>> @@ 2 :> <<1, 3>> @@ 3 :> <<1, 0>> @@ 4 :> <<0, 3>>),acyclic |-> TRUE,l |-> 473,eObj |-> (0 :> 1),nextE |-> 5]),
    ([res |-> "ok",cacheV |-> TRUE,nodes |-> {0, 1, 2, 3, 4},cacheR |-> FALSE,nextN |-> 5,edges |-> (0 :> <<4, 2>> @@ 1 :> <<0, 2>> @@ 2 :> <<1, 3>> @@ 3 :> <<1, 0>> @@ 4 :> <<0, 3>>),acyclic |-> TRUE,l |-> 474,eObj |-> (0 :> 1),nextE |-> 5]),
    ([res |-> "ok",cacheV |-> TRUE,nodes |-> {0, 1, 2, 3, 4},cacheR |-> FALSE,nextN |-> 5,edges |-> (0 :> <<4, 2>> @@ 1 :> <<0, 2>> @@ 2 :> <<1, 3>> @@ 3 :> <<1, 0>> @@ 4 :> <<0, 3>>),acyclic |-> TRUE,l |-> 475,eObj |-> (0 :> 1),nextE |-> 5]),
    ([res |-> "ok",cacheV |-> TRUE,nodes |-> {0, 1, 2, 3, 4},cacheR |-> FALSE,nextN |-> 5,edges |-> (0 :> <<4, 2>> @@ 1 :> <<0, 2>> @@ 2 :> <<1, 3>> @@ 3 :> <<1, 0>> @@ 4 :> <<0, 3>>),acyclic |-> TRUE,l |-> 476,eObj |-> (0 :> 1),nextE |-> 5]),
    ([res |-> "ok",cacheV |-> TRUE,nodes |-> {0, 1, 2, 3, 4},cacheR |-> FALSE,nextN |-> 5,edges |-> (0 :> <<4, 2>> @@ 1 :> <<0, 2>> @@ 2 :> <<1, 3>> @@ 3 :> <<1, 0>> @@ 4 :> <<0, 3>>),acyclic |-> TRUE,l |-> 477,eObj |-> (0 :> 1),nextE |-> 5]),
    ([res |-> "ok",cacheV |-> TRUE,nodes |-> {0, 1, 2, 3, 4},cacheR |-> FALSE,nextN |-> 5,edges |-> (0 :> <<4, 2>> @@ 1 :> <<0, 2>> @@ 2 :> <<1, 3>> @@ 3 :> <<1, 0>> @@ 4 :> <<0, 3>>),acyclic |-> TRUE,l |-> 478,eObj |-> (0 :> 1),nextE |-> 5]),
    ([res |-> "ok",cacheV |-> FALSE,nodes |-> {},cacheR |-> FALSE,nextN |-> 0,edges |-> <<>>,acyclic |-> TRUE,l |-> 479,eObj |-> <<>>,nextE |-> 0]),
    ([res |-> "F",cacheV |-> TRUE,nodes |-> {},cacheR |-> FALSE,nextN |-> 0,edges |-> <<>>,acyclic |-> TRUE,l |-> 480,eObj |-> <<>>,nextE |-> 0]),
    ([res |-> "ok",cacheV |-> TRUE,nodes |-> {},cacheR |-> FALSE,nextN |-> 0,edges |-> <<>>,acyclic |-> TRUE,l |-> 481,eObj |-> <<>>,nextE |-> 0]),
    ([res |-> "ok",cacheV |-> TRUE,nodes |-> {},cacheR |-> FALSE,nextN |-> 0,edges |-> <<>>,acyclic |-> TRUE,l |-> 482,eObj |-> <<>>,nextE |-> 0]),
    ([res |-> "raise",cacheV |-> TRUE,nodes |-> {},cacheR |-> FALSE,nextN |-> 0,edges |-> <<>>,acyclic |-> TRUE,l |-> 483,eObj |-> <<>>,nextE |-> 0]),
    ([res |-> "raise",cacheV |-> TRUE,nodes |-> {},cacheR |-> FALSE,nextN |-> 0,edges |-> <<>>,acyclic |-> TRUE,l |-> 484,eObj |-> <<>>,nextE |-> 0]),
    ([res |-> "ok",cacheV |-> TRUE,nodes |-> {},cacheR |-> FALSE,nextN |-> 0,edges |-> <<>>,acyclic |-> TRUE,l |-> 485,eObj |-> <<>>,nextE |-> 0]),
    ([res |-> "ok",cacheV |-> TRUE,nodes |-> {},cacheR |-> FALSE,nextN |-> 0,edges |-> <<>>,acyclic |-> TRUE,l |-> 486,eObj |-> <<>>,nextE |-> 0]),
    ([res |-> "raise",cacheV |-> TRUE,nodes |-> {},cacheR |-> FALSE,nextN |-> 0,edges |-> <<>>,acyclic |-> TRUE,l |-> 487,eObj |-> <<>>,nextE |-> 0]),
    ([res |-> "F",cacheV |-> TRUE,nodes |-> {},cacheR |-> FALSE,nextN |-> 0,edges |-> <<>>,acyclic |-> TRUE,l |-> 488,eObj |-> <<>>,nextE |-> 0]),
    ([res |-> "raise",cacheV |-> TRUE,nodes |-> {},cacheR |-> FALSE,nextN |-> 0,edges |-> <<>>,acyclic |-> TRUE,l |-> 489,eObj |-> <<>>,nextE |-> 0]),
    ([res |-> "F",cacheV |-> TRUE,nodes |-> {},cacheR |-> FALSE,nextN |-> 0,edges |-> <<>>,acyclic |-> TRUE,l |-> 490,eObj |-> <<>>,nextE |-> 0]),
    ([res |-> "ok",cacheV |-> FALSE,nodes |-> {0},cacheR |-> FALSE,nextN |-> 1,edges |-> <<>>,acyclic |-> TRUE,l |-> 491,eObj |-> <<>>,nextE |-> 0]),
    ([res |-> "RT",cacheV |-> FALSE,nodes |-> {0},cacheR |-> TRUE,nextN |-> 1,edges |-> <<>>,acyclic |-> TRUE,l |-> 492,eObj |-> <<>>,nextE |-> 0]),
    ([res |-> "RT",cacheV |-> FALSE,nodes |-> {0},cacheR |-> TRUE,nextN |-> 1,edges |-> <<>>,acyclic |-> TRUE,l |-> 493,eObj |-> <<>>,nextE |-> 0]),
    ([res |-> "RT",cacheV |-> FALSE,nodes |-> {0},cacheR |-> TRUE,nextN |-> 1,edges |-> <<>>,acyclic |-> TRUE,l |-> 494,eObj |-> <<>>,nextE |-> 0]),
    ([res |-> "ok",cacheV |-> FALSE,nodes |-> {0, 1},cacheR |-> FALSE,nextN |-> 2,edges |-> <<>>,acyclic |-> TRUE,l |-> 495,eObj |-> <<>>,nextE |-> 0]),
    ([res |-> "RT",cacheV |-> FALSE,nodes |-> {0, 1},cacheR |-> FALSE,nextN |-> 2,edges |-> <<>>,acyclic |-> TRUE,l |-> 496,eObj |-> <<>>,nextE |-> 0])
    >>
----


=============================================================================

---- CONFIG DagTrace_TTrace_1790489994 ----
CONSTANTS
    MaxN = 1000000
    MaxE = 1000000
    EObjs = { 1 , 2 , 3 , 4 , 5 , 6 , 7 , 8 , 9 , 10 , 11 , 12 , 13 , 14 , 15 , 16 }
    Forget = { }

INVARIANT
    _inv

CHECK_DEADLOCK
    \* CHECK_DEADLOCK off because of PROPERTY or INVARIANT above.
    FALSE

INIT
    _init

NEXT
    _next

CONSTANT
    _TETrace <- _trace

ALIAS
    _expression
=============================================================================
\* Generated on Sun Sep 27 06:19:57 UTC 2026