-------------------------------- MODULE Tree --------------------------------
\* Design model of the tree container of bpp-core (TreeGraphImpl<GlobalGraph>
\* behind AssociationTreeGraphImplObserver) for property C15.
\*
\* Abstract state   : the graph core (directed flag, node set, edge table with
\*                    never re-used ids), the recorded root, the partial
\*                    injection edge id -> attached edge object.
\* Ghost state      : `valid` = the DEFINITION of "is a tree spanning all nodes
\*                    from the root" evaluated on the current graph.
\* Implementation state the property is about: the VALIDITY CACHE
\*                    (TreeGraphImpl::isValid_) = `cache`.
\* One action per public call, each with an explicit ok / raise outcome; the
\* queries are actions too (they fill the cache), so TLC explores every
\* interleaving  query / mutate / query.
\* The property   : ValidExact (every validity answer = the definition on the
\*                    current graph), CacheSound, RerootKeeps, EdgeObjectStays,
\*                    RaiseKeeps, and the reference queries of TreeDefs.
\* `Forget` names actions whose cache invalidation is (wrongly) left out; it is
\* {} in every real configuration and e.g. {"SetRoot"} in the demonstration that
\* TLC catches a forgotten invalidation (see notes/C15.md).
EXTENDS TreeDefs

CONSTANTS MaxN,        \* node ids are 0..MaxN-1 (allocated in order, never re-used)
          MaxE,        \* edge ids are 0..MaxE-1 (idem)
          EObjs,       \* pool of edge objects (positive integers)
          Forget       \* set of action names that forget to invalidate the cache

VARIABLES directed, nodes, edges, nextN, nextE, root, eObj,   \* the abstract graph
          valid,    \* GHOST: IsTreeDef evaluated on the current graph
          cache,    \* the implementation's cached validity flag
          res,      \* outcome of the last call: "ok" | "raise" | "T" | "F"
          op        \* GHOST: <<name, edge object>> of the last call when the action
                    \* properties talk about it, <<"-", None>> otherwise

gvars == <<directed, nodes, edges, nextN, nextE, root, eObj>>
vars  == <<directed, nodes, edges, nextN, nextE, root, eObj, valid, cache, res, op>>

NodeIds == 0..(MaxN - 1)
EdgeIds == 0..(MaxE - 1)
Objs    == EObjs \cup {None}

IsTree == IsTreeDef(nodes, edges, directed, root)

TypeOK ==
  /\ directed \in BOOLEAN /\ nodes \subseteq NodeIds /\ nextN \in 0..MaxN /\ nextE \in 0..MaxE
  /\ DOMAIN edges \subseteq 0..(nextE - 1) /\ \A n \in nodes : n < nextN
  /\ \A e \in DOMAIN edges : edges[e][1] \in nodes /\ edges[e][2] \in nodes     \* end points exist
  /\ DOMAIN eObj \subseteq DOMAIN edges                                          \* forgotten with the edge
  /\ \A e \in DOMAIN eObj : eObj[e] \in EObjs
  /\ \A e, f \in DOMAIN eObj : e # f => eObj[e] # eObj[f]                        \* an object sits on one edge
  /\ cache \in BOOLEAN /\ valid \in BOOLEAN

Init == /\ directed \in BOOLEAN /\ nodes = {} /\ edges = <<>> /\ nextN = 0 /\ nextE = 0
        /\ root = 0 /\ eObj = <<>> /\ valid = FALSE /\ cache = FALSE /\ res = "ok" /\ op = <<"-", None>>

\* ------------------------------------------------------------------ helpers
B(x)     == IF x THEN "T" ELSE "F"
Ghost    == valid' = IsTreeDef(nodes', edges', directed', root')     \* re-evaluated after every edit
NoOp     == op' = <<"-", None>>
Inval(a) == cache' = (IF a \in Forget THEN cache ELSE FALSE)
Raise    == res' = "raise" /\ NoOp /\ UNCHANGED <<gvars, valid, cache>>
Valid    == cache \/ valid                                           \* what isValid() answers
Attached(o) == o # None /\ \E e \in DOMAIN eObj : eObj[e] = o
WithEdge(E, id, a, b) == [e \in DOMAIN E \cup {id} |-> IF e = id THEN <<a, b>> ELSE E[e]]
WithObj(O, id, o) == IF o = None THEN O ELSE [e \in DOMAIN O \cup {id} |-> IF e = id THEN o ELSE O[e]]
DropEdges(S) == /\ edges' = Restrict(edges, DOMAIN edges \ S)
                /\ eObj'  = Restrict(eObj, DOMAIN eObj \ S)

\* ------------------------------------------------------------------ edits
CreateNode ==
  /\ nextN < MaxN
  /\ nodes' = nodes \cup {nextN} /\ nextN' = nextN + 1
  /\ Inval("CreateNode") /\ res' = "ok" /\ NoOp
  /\ UNCHANGED <<directed, edges, nextE, root, eObj>> /\ Ghost

\* addSon(a, b [, o]) = link a -> b.  A second link on an existing relation may
\* raise or create a parallel edge (DESIGN 2a); an object already attached
\* elsewhere, or an absent node, must raise.
LinkPre(a, b, o) == a \in nodes /\ b \in nodes /\ ~Attached(o)
LinkOk(a, b, o) ==
  /\ LinkPre(a, b, o) /\ nextE < MaxE
  /\ edges' = WithEdge(edges, nextE, a, b) /\ eObj' = WithObj(eObj, nextE, o) /\ nextE' = nextE + 1
  /\ Inval("AddSon") /\ res' = "ok" /\ op' = <<"AddSon", o>>
  /\ UNCHANGED <<directed, nodes, nextN, root>> /\ Ghost
\* observer.link(a, b [, o]): must succeed on a fresh relation.  (Its behaviours
\* are a subset of AddSon's, so Next does not list it; TreeTrace.tla uses it.)
Link(a, b, o) ==
  IF LinkPre(a, b, o)
  THEN \/ LinkOk(a, b, o)
       \/ Rel(edges, directed, a, b) # {} /\ Raise
  ELSE Raise
\* tree.addSon(a, b [, o]): with an edge object the call may also be refused,
\* leaving everything as it was (DESIGN 2l) - but never succeed without it
AddSon(a, b, o) ==
  IF LinkPre(a, b, o)
  THEN \/ LinkOk(a, b, o)
       \/ (Rel(edges, directed, a, b) # {} \/ o # None) /\ Raise
  ELSE Raise

\* setFather(n, f [, o]): the link from the former father (if any) is replaced
\* by f -> n carrying o.  Rooted mode only.  Refusals leave everything as it was
\* (DESIGN 2l): absent node, several fathers, o attached to ANOTHER edge.
FatherEdges(n) == InE(edges, TRUE, n)
SetFatherPre(n, f, o) ==
  /\ n \in nodes /\ f \in nodes /\ Cardinality(FatherEdges(n)) <= 1
  /\ \A e \in DOMAIN eObj : (o # None /\ eObj[e] = o) => e \in FatherEdges(n)
SetFatherOk(n, f, o) ==
  /\ directed /\ SetFatherPre(n, f, o) /\ nextE < MaxE
  /\ LET keep == DOMAIN edges \ FatherEdges(n) IN
       /\ edges' = WithEdge(Restrict(edges, keep), nextE, f, n)
       /\ eObj'  = WithObj(Restrict(eObj, DOMAIN eObj \cap keep), nextE, o)
  /\ nextE' = nextE + 1 /\ Inval("SetFather") /\ res' = "ok" /\ op' = <<"SetFather", o>>
  /\ UNCHANGED <<directed, nodes, nextN, root>> /\ Ghost
SetFather(n, f, o) ==
  /\ directed
  /\ IF SetFatherPre(n, f, o) THEN (SetFatherOk(n, f, o) \/ (o # None /\ Raise)) ELSE Raise

RemoveSon(a, b) ==
  IF a \in nodes /\ b \in nodes /\ Rel(edges, directed, a, b) # {}
  THEN /\ DropEdges(Rel(edges, directed, a, b)) /\ Inval("RemoveSon") /\ res' = "ok" /\ NoOp
       /\ UNCHANGED <<directed, nodes, nextN, nextE, root>> /\ Ghost
  ELSE Raise

DeleteNode(n) ==
  IF n \in nodes
  THEN /\ nodes' = nodes \ {n}
       /\ DropEdges({e \in DOMAIN edges : n \in Unordered(edges[e])})
       /\ Inval("DeleteNode") /\ res' = "ok" /\ NoOp
       /\ UNCHANGED <<directed, nextN, nextE, root>> /\ Ghost   \* the root id may now dangle
  ELSE Raise

\* observer.setRoot: "no checking, to be used at first construction"
SetRoot(r) ==
  IF r \in nodes
  THEN /\ root' = r /\ Inval("SetRoot") /\ res' = "ok" /\ NoOp
       /\ UNCHANGED <<directed, nodes, edges, nextN, nextE, eObj>> /\ Ghost
  ELSE Raise

\* rootAt(r): refused unless the tree is valid (the test fills the cache);
\* otherwise the graph becomes directed, rooted at r, every edge keeps its id
\* and object and points away from r.
RootAtOk(r) ==
  /\ r \in nodes /\ Valid
  /\ directed' = TRUE /\ root' = r /\ edges' = Reroot(edges, r)
  /\ Inval("RootAt") /\ res' = "ok" /\ op' = <<"RootAt", None>>
  /\ UNCHANGED <<nodes, nextN, nextE, eObj>> /\ Ghost
RootAt(r) == IF r \in nodes /\ Valid THEN RootAtOk(r) ELSE Raise    \* (the cache stays false when refused)

\* setOutGroup(g): "set a node as a new outgroup in a rooted tree, will make a root between
\* the given node and its father": a fresh node R is put on the link father(g) - g (two fresh
\* edges replace it; its object goes with it) and the tree is re-rooted at R.  Nothing else
\* is promised, so nothing else changes (the former root stays as an ordinary node).
\* Refused, unchanged: un-rooted or invalid tree, absent node, g is the root.
OutGroupPre(g) == directed /\ Valid /\ g \in nodes /\ HasFather(edges, g)
SetOutGroupOk(g) ==
  /\ OutGroupPre(g) /\ nextN < MaxN /\ nextE + 1 < MaxE
  /\ LET f == Father(edges, g)
         e == EdgeToFather(edges, g)
         E1 == WithEdge(WithEdge(Restrict(edges, DOMAIN edges \ {e}), nextE, f, nextN), nextE + 1, nextN, g)
     IN /\ edges' = Reroot(E1, nextN)
        /\ eObj' = Restrict(eObj, DOMAIN eObj \ {e})
  /\ nodes' = nodes \cup {nextN} /\ root' = nextN /\ nextN' = nextN + 1 /\ nextE' = nextE + 2
  /\ Inval("SetOutGroup") /\ res' = "ok" /\ op' = <<"SetOutGroup", None>>
  /\ UNCHANGED directed /\ Ghost
SetOutGroup(g) == IF OutGroupPre(g) THEN SetOutGroupOk(g) ELSE Raise

\* removeSons(n): all the links n -> son go (with their objects)
RemoveSons(n) ==
  IF n \in nodes
  THEN /\ DropEdges(OutE(edges, directed, n)) /\ Inval("RemoveSons") /\ res' = "ok" /\ NoOp
       /\ UNCHANGED <<directed, nodes, nextN, nextE, root>> /\ Ghost
  ELSE Raise

\* unRoot(FALSE): forget the orientation (refused when a reciprocal pair exists)
\* unRoot(TRUE) : the root must have exactly two sons; they get linked to each
\*                other, the root is detached (it stays as a node), one of the
\*                two becomes the recorded root.
UnRootPlain ==
  IF directed /\ Reciprocal(edges) THEN Raise
  ELSE /\ directed' = FALSE /\ Inval("UnRoot") /\ res' = "ok" /\ NoOp
       /\ UNCHANGED <<nodes, edges, nextN, nextE, root, eObj>> /\ Ghost
JoinPre == /\ root \in nodes /\ Cardinality(OutE(edges, directed, root)) = 2
           /\ Cardinality(OutN(edges, directed, root)) = 2
           /\ \A e \in OutE(edges, directed, root) : edges[e][1] # edges[e][2]
JoinSafe == LET S == OutN(edges, directed, root) IN            \* outside: cases the statement does not cover
              /\ ~(directed /\ Reciprocal(edges))
              /\ \A a, b \in S : a # b => ~Adjacent(edges, a, b)
UnRootJoinOk(a) ==
  /\ JoinPre /\ JoinSafe /\ nextE < MaxE /\ a \in OutN(edges, directed, root)
  /\ LET b == CHOOSE x \in OutN(edges, directed, root) : x # a
         gone == OutE(edges, directed, root)
     IN /\ edges' = WithEdge(Restrict(edges, DOMAIN edges \ gone), nextE, a, b)
        /\ eObj' = Restrict(eObj, DOMAIN eObj \ gone)
        /\ root' = a
  /\ nextE' = nextE + 1 /\ directed' = FALSE /\ Inval("UnRoot") /\ res' = "ok" /\ NoOp
  /\ UNCHANGED <<nodes, nextN>> /\ Ghost
UnRootJoin == IF JoinPre THEN \E a \in NodeIds : UnRootJoinOk(a) ELSE Raise
UnRoot(join) == IF join THEN UnRootJoin ELSE UnRootPlain

\* ------------------------------------------------------------------ queries
\* isValid(): the cached flag or a fresh evaluation; the answer is cached.
\* (With a dangling root the call may also raise, DESIGN 2h; the design answers FALSE.)
QValid == res' = B(Valid) /\ cache' = Valid /\ NoOp /\ UNCHANGED <<gvars, valid>>
\* getSubtreeNodes / getSubtreeEdges: guarded by the validity test (fills the cache)
QSub(n) ==
  /\ n \in nodes
  /\ cache' = Valid /\ res' = (IF Valid THEN "ok" ELSE "raise") /\ NoOp /\ UNCHANGED <<gvars, valid>>
\* father / sons / leaves / path / MRCA queries read the graph only
QStruct == res' = "ok" /\ NoOp /\ UNCHANGED <<gvars, valid, cache>>

Next ==
  \/ CreateNode
  \/ \E a, b \in NodeIds, o \in Objs : AddSon(a, b, o)
  \/ \E n, f \in NodeIds, o \in Objs : SetFather(n, f, o)
  \/ \E a, b \in NodeIds : RemoveSon(a, b)
  \/ \E n \in NodeIds : DeleteNode(n)
  \/ \E n \in NodeIds : SetRoot(n)
  \/ \E n \in NodeIds : RootAt(n)
  \/ \E n \in NodeIds : QSub(n)
  \/ \E n \in NodeIds : SetOutGroup(n)
  \/ \E n \in NodeIds : RemoveSons(n)
  \/ \E j \in BOOLEAN : UnRoot(j)
  \/ QValid
  \/ QStruct

Spec == Init /\ [][Next]_vars

\* ------------------------------------------------------------------ the property
GhostIsDef == valid = IsTree
\* (1) every validity answer equals the definition on the current graph,
\*     whatever was asked before
ValidExact == res \in {"T", "F"} => (res = "T") = valid
\*     the mechanism behind it: a set cache flag is never stale
CacheSound == cache => valid

\* For the large configurations: `res` and `op` only record the last call, so states that
\* differ in them alone have the same futures; VIEW StateView merges them.  TLC evaluates
\* invariants on new (merged) states only, therefore the answer is then judged on the
\* transition instead (action properties are evaluated on every generated transition).
StateView == <<directed, nodes, edges, nextN, nextE, root, eObj, valid, cache>>
ValidExactA == [][res' \in {"T", "F"} => (res' = "T") = valid']_vars

\* (2) re-rooting a valid tree at r
Pairs(E) == {Unordered(E[e]) : e \in DOMAIN E}
RerootKeeps ==
  [][(op'[1] = "RootAt" /\ res' = "ok") =>
        /\ valid                                                                \* it was a valid tree
        /\ Pairs(edges') = Pairs(edges)                                         \* same undirected edge set
        /\ DOMAIN edges' = DOMAIN edges                                         \* same edge identities
        /\ \A e \in DOMAIN edges : Unordered(edges'[e]) = Unordered(edges[e])   \* ... on the same links
        /\ eObj' = eObj                                                         \* same attached objects
        /\ Fatherless(nodes', edges') = {root'}                                 \* unique father-less node
        /\ directed' /\ valid']_vars                                            \* rooted and still valid

\* (2b) setOutGroup(g): the new root sits between g and its former father, the tree is
\*      valid and rooted there, every other link keeps its id and its object
OutGroupKeeps ==
  [][(op'[1] = "SetOutGroup" /\ res' = "ok") =>
        LET R == root'
            g == CHOOSE x \in nodes : (\E e \in DOMAIN edges' : edges'[e] = <<R, x>>) /\ HasFather(edges, x)
                                        /\ (\E e \in DOMAIN edges' : edges'[e] = <<R, Father(edges, x)>>)
            f == Father(edges, g)
            cut == EdgeToFather(edges, g)
        IN /\ valid /\ directed /\ R \notin nodes /\ nodes' = nodes \cup {R}
           /\ valid' /\ directed' /\ Fatherless(nodes', edges') = {R}
           /\ Sons(edges', R) = {g, f}
           /\ \A e \in DOMAIN edges \ {cut} : e \in DOMAIN edges' /\ Unordered(edges'[e]) = Unordered(edges[e])
           /\ DOMAIN edges' \ DOMAIN edges = {nextE, nextE + 1} /\ cut \notin DOMAIN edges'
           /\ eObj' = Restrict(eObj, DOMAIN eObj \ {cut})]_vars

\* (3) an edge object given to addSon / setFather sits on the new link
\*     (the new link has the fresh id nextE)
EdgeObjectStays ==
  [][(op'[1] \in {"AddSon", "SetFather"} /\ res' = "ok") =>
        /\ nextE \in DOMAIN edges' /\ nextE \notin DOMAIN edges
        /\ op'[2] # None => (nextE \in DOMAIN eObj' /\ eObj'[nextE] = op'[2])
        /\ \A e \in DOMAIN eObj' \ {nextE} : e \in DOMAIN eObj /\ eObj'[e] = eObj[e]    \* nothing else moves
        /\ op'[1] = "SetFather" =>
             LET n == edges'[nextE][2] IN InE(edges', TRUE, n) = {nextE}]_vars          \* exactly one father now

\* (4) a refused call changes nothing
RaiseKeeps == [][res' = "raise" => UNCHANGED gvars]_vars

\* (5) on every valid rooted tree of the model the constructive reference
\* queries agree with their definitions (sanity of the oracle itself)
RefCoherent ==
  (directed /\ valid) =>
    /\ Fatherless(nodes, edges) = {root}
    /\ \A n \in nodes \ {root} : Cardinality(InE(edges, TRUE, n)) = 1
    /\ Desc(edges, root) = nodes /\ SubEdges(edges, root) = DOMAIN edges
    /\ \A a, b \in nodes :
         LET p == NodePath(nodes, edges, a, b) IN
           /\ IsNodePath(edges, p, a, b)
           /\ IsEdgePath(edges, EdgePath(nodes, edges, a, b), p)
           /\ p = Rev(NodePath(nodes, edges, b, a))
           /\ (a \in Anc(nodes, edges, b)) => Mrca(nodes, edges, {a, b}) = a     \* ancestor argument
           /\ Mrca(nodes, edges, {a, b}) \in SeqToSet(p)
    /\ \A n \in nodes : /\ LeavesUnder(edges, n) # {}
                        /\ (Sons(edges, n) = {}) = (LeavesUnder(edges, n) = {n})
                        /\ Cardinality(SubEdges(edges, n)) = Cardinality(Desc(edges, n)) - 1
                        /\ Mrca(nodes, edges, Desc(edges, n)) = n
    /\ LET D == DescTable(nodes, edges) IN                                      \* the memoised form agrees
          \A Q \in SUBSET nodes \ {{}} : MrcaT(D, Q) = Mrca(nodes, edges, Q)
=============================================================================
