---- MODULE DagTrace_TTrace_1790491202 ----
EXTENDS Sequences, TLCExt, Toolbox, Naturals, TLC, DagTrace

_expression ==
    LET DagTrace_TEExpression == INSTANCE DagTrace_TEExpression
    IN DagTrace_TEExpression!expression
----

_trace ==
    LET DagTrace_TETrace == INSTANCE DagTrace_TETrace
    IN DagTrace_TETrace!trace
----

_inv ==
    ~(
        TLCGet("level") = Len(_TETrace)
        /\
        res = ("RT")
        /\
        cacheV = (FALSE)
        /\
        nodes = ({0, 1, 2, 3, 4})
        /\
        cacheR = (FALSE)
        /\
        nextN = (5)
        /\
        edges = ((0 :> <<0, 2>> @@ 1 :> <<2, 3>> @@ 2 :> <<1, 2>> @@ 3 :> <<3, 1>>))
        /\
        acyclic = (FALSE)
        /\
        l = (36)
        /\
        eObj = ((2 :> 1))
        /\
        nextE = (4)
    )
----

_init ==
    /\ acyclic = _TETrace[1].acyclic
    /\ l = _TETrace[1].l
    /\ nodes = _TETrace[1].nodes
    /\ res = _TETrace[1].res
    /\ eObj = _TETrace[1].eObj
    /\ edges = _TETrace[1].edges
    /\ cacheR = _TETrace[1].cacheR
    /\ cacheV = _TETrace[1].cacheV
    /\ nextE = _TETrace[1].nextE
    /\ nextN = _TETrace[1].nextN
----

_next ==
    /\ \E i,j \in DOMAIN _TETrace:
        /\ \/ /\ j = i + 1
              /\ i = TLCGet("level")
        /\ acyclic  = _TETrace[i].acyclic
        /\ acyclic' = _TETrace[j].acyclic
        /\ l  = _TETrace[i].l
        /\ l' = _TETrace[j].l
        /\ nodes  = _TETrace[i].nodes
        /\ nodes' = _TETrace[j].nodes
        /\ res  = _TETrace[i].res
        /\ res' = _TETrace[j].res
        /\ eObj  = _TETrace[i].eObj
        /\ eObj' = _TETrace[j].eObj
        /\ edges  = _TETrace[i].edges
        /\ edges' = _TETrace[j].edges
        /\ cacheR  = _TETrace[i].cacheR
        /\ cacheR' = _TETrace[j].cacheR
        /\ cacheV  = _TETrace[i].cacheV
        /\ cacheV' = _TETrace[j].cacheV
        /\ nextE  = _TETrace[i].nextE
        /\ nextE' = _TETrace[j].nextE
        /\ nextN  = _TETrace[i].nextN
        /\ nextN' = _TETrace[j].nextN

\* Uncomment the ASSUME below to write the states of the error trace
\* to the given file in Json format. Note that you can pass any tuple
\* to `JsonSerialize`. For example, a sub-sequence of _TETrace.
    \* ASSUME
    \*     LET J == INSTANCE Json
    \*         IN J!JsonSerialize("DagTrace_TTrace_1790491202.json", _TETrace)

=============================================================================

 Note that you can extract this module `DagTrace_TEExpression`
  to a dedicated file to reuse `expression` (the module in the 
  dedicated `DagTrace_TEExpression.tla` file takes precedence 
  over the module `DagTrace_TEExpression` below).

---- MODULE DagTrace_TEExpression ----
EXTENDS Sequences, TLCExt, Toolbox, Naturals, TLC, DagTrace

expression == 
    [
        \* To hide variables of the `DagTrace` spec from the error trace,
        \* remove the variables below.  The trace will be written in the order
        \* of the fields of this record.
        acyclic |-> acyclic
        ,l |-> l
        ,nodes |-> nodes
        ,res |-> res
        ,eObj |-> eObj
        ,edges |-> edges
        ,cacheR |-> cacheR
        ,cacheV |-> cacheV
        ,nextE |-> nextE
        ,nextN |-> nextN
        
        \* Put additional constant-, state-, and action-level expressions here:
        \* ,_stateNumber |-> _TEPosition
        \* ,_acyclicUnchanged |-> acyclic = acyclic'
        
        \* Format the `acyclic` variable as Json value.
        \* ,_acyclicJson |->
        \*     LET J == INSTANCE Json
        \*     IN J!ToJson(acyclic)
        
        \* Lastly, you may build expressions over arbitrary sets of states by
        \* leveraging the _TETrace operator.  For example, this is how to
        \* count the number of times a spec variable changed up to the current
        \* state in the trace.
        \* ,_acyclicModCount |->
        \*     LET F[s \in DOMAIN _TETrace] ==
        \*         IF s = 1 THEN 0
        \*         ELSE IF _TETrace[s].acyclic # _TETrace[s-1].acyclic
        \*             THEN 1 + F[s-1] ELSE F[s-1]
        \*     IN F[_TEPosition - 1]
    ]

=============================================================================



Parsing and semantic processing can take forever if the trace below is long.
 In this case, it is advised to uncomment the module below to deserialize the
 trace from a generated binary file.

\*
\*---- MODULE DagTrace_TETrace ----
\*EXTENDS IOUtils, TLC, DagTrace
\*
\*trace == IODeserialize("DagTrace_TTrace_1790491202.bin", TRUE)
\*
\*=============================================================================
\*

---- MODULE DagTrace_TETrace ----
EXTENDS TLC, DagTrace

trace == 
    <<
    ([res |-> "ok",cacheV |-> FALSE,nodes |-> {},cacheR |-> FALSE,nextN |-> 0,edges |-> <<>>,acyclic |-> TRUE,l |-> 1,eObj |-> <<>>,nextE |-> 0]),
    ([res |-> "ok",cacheV |-> FALSE,nodes |-> {},cacheR |-> FALSE,nextN |-> 0,edges |-> <<>>,acyclic |-> TRUE,l |-> 2,eObj |-> <<>>,nextE |-> 0]),
    ([res |-> "ok",cacheV |-> FALSE,nodes |-> {0},cacheR |-> FALSE,nextN |-> 1,edges |-> <<>>,acyclic |-> TRUE,l |-> 3,eObj |-> <<>>,nextE |-> 0]),
    ([res |-> "ok",cacheV |-> FALSE,nodes |-> {0, 1},cacheR |-> FALSE,nextN |-> 2,edges |-> <<>>,acyclic |-> TRUE,l |-> 4,eObj |-> <<>>,nextE |-> 0]),
    ([res |-> "ok",cacheV |-> FALSE,nodes |-> {0, 1, 2},cacheR |-> FALSE,nextN |-> 3,edges |-> <<>>,acyclic |-> TRUE,l |-> 5,eObj |-> <<>>,nextE |-> 0]),
    ([res |-> "ok",cacheV |-> FALSE,nodes |-> {0, 1, 2, 3},cacheR |-> FALSE,nextN |-> 4,edges |-> <<>>,acyclic |-> TRUE,l |-> 6,eObj |-> <<>>,nextE |-> 0]),
    ([res |-> "T",cacheV |-> TRUE,nodes |-> {0, 1, 2, 3},cacheR |-> FALSE,nextN |-> 4,edges |-> <<>>,acyclic |-> TRUE,l |-> 7,eObj |-> <<>>,nextE |-> 0]),
    ([res |-> "ok",cacheV |-> FALSE,nodes |-> {0, 1, 2, 3},cacheR |-> FALSE,nextN |-> 4,edges |-> (0 :> <<0, 1>>),acyclic |-> TRUE,l |-> 8,eObj |-> <<>>,nextE |-> 1]),
    ([res |-> "ok",cacheV |-> FALSE,nodes |-> {0, 1, 2, 3},cacheR |-> FALSE,nextN |-> 4,edges |-> (0 :> <<0, 1>> @@ 1 :> <<3, 1>>),acyclic |-> TRUE,l |-> 9,eObj |-> <<1>>,nextE |-> 2]),
    ([res |-> "ok",cacheV |-> FALSE,nodes |-> {0, 1, 2, 3},cacheR |-> FALSE,nextN |-> 4,edges |-> (0 :> <<0, 1>> @@ 1 :> <<3, 1>> @@ 2 :> <<1, 2>>),acyclic |-> TRUE,l |-> 10,eObj |-> <<1>>,nextE |-> 3]),
    ([res |-> "ok",cacheV |-> FALSE,nodes |-> {0, 1, 2, 3},cacheR |-> FALSE,nextN |-> 4,edges |-> (0 :> <<0, 1>> @@ 1 :> <<3, 1>> @@ 2 :> <<1, 2>> @@ 3 :> <<2, 3>>),acyclic |-> FALSE,l |-> 11,eObj |-> <<1>>,nextE |-> 4]),
    ([res |-> "F",cacheV |-> FALSE,nodes |-> {0, 1, 2, 3},cacheR |-> FALSE,nextN |-> 4,edges |-> (0 :> <<0, 1>> @@ 1 :> <<3, 1>> @@ 2 :> <<1, 2>> @@ 3 :> <<2, 3>>),acyclic |-> FALSE,l |-> 12,eObj |-> <<1>>,nextE |-> 4]),
    ([res |-> "RT",cacheV |-> FALSE,nodes |-> {0, 1, 2, 3},cacheR |-> TRUE,nextN |-> 4,edges |-> (0 :> <<0, 1>> @@ 1 :> <<3, 1>> @@ 2 :> <<1, 2>> @@ 3 :> <<2, 3>>),acyclic |-> FALSE,l |-> 13,eObj |-> <<1>>,nextE |-> 4]),
    ([res |-> "ok",cacheV |-> FALSE,nodes |-> {0, 1, 2, 3},cacheR |-> TRUE,nextN |-> 4,edges |-> (0 :> <<0, 1>> @@ 1 :> <<3, 1>> @@ 2 :> <<1, 2>> @@ 3 :> <<2, 3>>),acyclic |-> FALSE,l |-> 14,eObj |-> <<1>>,nextE |-> 4]),
    ([res |-> "raise",cacheV |-> FALSE,nodes |-> {0, 1, 2, 3},cacheR |-> TRUE,nextN |-> 4,edges |-> (0 :> <<0, 1>> @@ 1 :> <<3, 1>> @@ 2 :> <<1, 2>> @@ 3 :> <<2, 3>>),acyclic |-> FALSE,l |-> 15,eObj |-> <<1>>,nextE |-> 4]),
    ([res |-> "ok",cacheV |-> FALSE,nodes |-> {0, 1, 2, 3},cacheR |-> FALSE,nextN |-> 4,edges |-> (0 :> <<0, 1>> @@ 1 :> <<3, 1>> @@ 3 :> <<2, 3>>),acyclic |-> TRUE,l |-> 16,eObj |-> <<1>>,nextE |-> 4]),
    ([res |-> "T",cacheV |-> TRUE,nodes |-> {0, 1, 2, 3},cacheR |-> FALSE,nextN |-> 4,edges |-> (0 :> <<0, 1>> @@ 1 :> <<3, 1>> @@ 3 :> <<2, 3>>),acyclic |-> TRUE,l |-> 17,eObj |-> <<1>>,nextE |-> 4]),
    ([res |-> "RF",cacheV |-> TRUE,nodes |-> {0, 1, 2, 3},cacheR |-> FALSE,nextN |-> 4,edges |-> (0 :> <<0, 1>> @@ 1 :> <<3, 1>> @@ 3 :> <<2, 3>>),acyclic |-> TRUE,l |-> 18,eObj |-> <<1>>,nextE |-> 4]),
    ([res |-> "ok",cacheV |-> FALSE,nodes |-> {},cacheR |-> FALSE,nextN |-> 0,edges |-> <<>>,acyclic |-> TRUE,l |-> 19,eObj |-> <<>>,nextE |-> 0]),
    ([res |-> "ok",cacheV |-> FALSE,nodes |-> {0},cacheR |-> FALSE,nextN |-> 1,edges |-> <<>>,acyclic |-> TRUE,l |-> 20,eObj |-> <<>>,nextE |-> 0]),
    ([res |-> "ok",cacheV |-> FALSE,nodes |-> {0, 1},cacheR |-> FALSE,nextN |-> 2,edges |-> <<>>,acyclic |-> TRUE,l |-> 21,eObj |-> <<>>,nextE |-> 0]),
    ([res |-> "ok",cacheV |-> FALSE,nodes |-> {0, 1, 2},cacheR |-> FALSE,nextN |-> 3,edges |-> <<>>,acyclic |-> TRUE,l |-> 22,eObj |-> <<>>,nextE |-> 0]),
    ([res |-> "ok",cacheV |-> FALSE,nodes |-> {0, 1, 2, 3},cacheR |-> FALSE,nextN |-> 4,edges |-> <<>>,acyclic |-> TRUE,l |-> 23,eObj |-> <<>>,nextE |-> 0]),
    ([res |-> "ok",cacheV |-> FALSE,nodes |-> {0, 1, 2, 3},cacheR |-> FALSE,nextN |-> 4,edges |-> (0 :> <<0, 2>>),acyclic |-> TRUE,l |-> 24,eObj |-> <<>>,nextE |-> 1]),
    ([res |-> "ok",cacheV |-> FALSE,nodes |-> {0, 1, 2, 3},cacheR |-> FALSE,nextN |-> 4,edges |-> (0 :> <<0, 2>> @@ 1 :> <<2, 3>>),acyclic |-> TRUE,l |-> 25,eObj |-> <<>>,nextE |-> 2]),
    ([res |-> "ok",cacheV |-> FALSE,nodes |-> {0, 1, 2, 3},cacheR |-> FALSE,nextN |-> 4,edges |-> (0 :> <<0, 2>> @@ 1 :> <<2, 3>> @@ 2 :> <<1, 2>>),acyclic |-> TRUE,l |-> 26,eObj |-> (2 :> 1),nextE |-> 3]),
    ([res |-> "T",cacheV |-> TRUE,nodes |-> {0, 1, 2, 3},cacheR |-> FALSE,nextN |-> 4,edges |-> (0 :> <<0, 2>> @@ 1 :> <<2, 3>> @@ 2 :> <<1, 2>>),acyclic |-> TRUE,l |-> 27,eObj |-> (2 :> 1),nextE |-> 3]),
    ([res |-> "RF",cacheV |-> TRUE,nodes |-> {0, 1, 2, 3},cacheR |-> FALSE,nextN |-> 4,edges |-> (0 :> <<0, 2>> @@ 1 :> <<2, 3>> @@ 2 :> <<1, 2>>),acyclic |-> TRUE,l |-> 28,eObj |-> (2 :> 1),nextE |-> 3]),
    ([res |-> "ok",cacheV |-> FALSE,nodes |-> {0, 1, 2, 3},cacheR |-> FALSE,nextN |-> 4,edges |-> (0 :> <<0, 2>> @@ 1 :> <<2, 3>> @@ 2 :> <<1, 2>> @@ 3 :> <<3, 1>>),acyclic |-> FALSE,l |-> 29,eObj |-> (2 :> 1),nextE |-> 4]),
    ([res |-> "F",cacheV |-> FALSE,nodes |-> {0, 1, 2, 3},cacheR |-> FALSE,nextN |-> 4,edges |-> (0 :> <<0, 2>> @@ 1 :> <<2, 3>> @@ 2 :> <<1, 2>> @@ 3 :> <<3, 1>>),acyclic |-> FALSE,l |-> 30,eObj |-> (2 :> 1),nextE |-> 4]),
    ([res |-> "RT",cacheV |-> FALSE,nodes |-> {0, 1, 2, 3},cacheR |-> TRUE,nextN |-> 4,edges |-> (0 :> <<0, 2>> @@ 1 :> <<2, 3>> @@ 2 :> <<1, 2>> @@ 3 :> <<3, 1>>),acyclic |-> FALSE,l |-> 31,eObj |-> (2 :> 1),nextE |-> 4]),
    ([res |-> "ok",cacheV |-> FALSE,nodes |-> {0, 1, 2, 3},cacheR |-> TRUE,nextN |-> 4,edges |-> (0 :> <<0, 2>> @@ 1 :> <<2, 3>> @@ 2 :> <<1, 2>> @@ 3 :> <<3, 1>>),acyclic |-> FALSE,l |-> 32,eObj |-> (2 :> 1),nextE |-> 4]),
    ([res |-> "raise",cacheV |-> FALSE,nodes |-> {0, 1, 2, 3},cacheR |-> TRUE,nextN |-> 4,edges |-> (0 :> <<0, 2>> @@ 1 :> <<2, 3>> @@ 2 :> <<1, 2>> @@ 3 :> <<3, 1>>),acyclic |-> FALSE,l |-> 33,eObj |-> (2 :> 1),nextE |-> 4]),
    ([res |-> "ok",cacheV |-> FALSE,nodes |-> {0, 1, 2, 3, 4},cacheR |-> FALSE,nextN |-> 5,edges |-> (0 :> <<0, 2>> @@ 1 :> <<2, 3>> @@ 2 :> <<1, 2>> @@ 3 :> <<3, 1>>),acyclic |-> FALSE,l |-> 34,eObj |-> (2 :> 1),nextE |-> 4]),
    ([res |-> "F",cacheV |-> FALSE,nodes |-> {0, 1, 2, 3, 4},cacheR |-> FALSE,nextN |-> 5,edges |-> (0 :> <<0, 2>> @@ 1 :> <<2, 3>> @@ 2 :> <<1, 2>> @@ 3 :> <<3, 1>>),acyclic |-> FALSE,l |-> 35,eObj |-> (2 :> 1),nextE |-> 4]),
    ([res |-> "RT",cacheV |-> FALSE,nodes |-> {0, 1, 2, 3, 4},cacheR |-> FALSE,nextN |-> 5,edges |-> (0 :> <<0, 2>> @@ 1 :> <<2, 3>> @@ 2 :> <<1, 2>> @@ 3 :> <<3, 1>>),acyclic |-> FALSE,l |-> 36,eObj |-> (2 :> 1),nextE |-> 4])
    >>
----


=============================================================================

---- CONFIG DagTrace_TTrace_1790491202 ----
CONSTANTS
    MaxN = 1000000
    MaxE = 1000000
    EObjs = { 1 , 2 , 3 , 4 , 5 , 6 , 7 , 8 , 9 , 10 , 11 , 12 , 13 , 14 , 15 , 16 }
    Forget = { }

INVARIANT
    _inv

CHECK_DEADLOCK
    \* CHECK_DEADLOCK off because of PROPERTY or INVARIANT above.
    FALSE

INIT
    _init

NEXT
    _next

CONSTANT
    _TETrace <- _trace

ALIAS
    _expression
=============================================================================
\* Generated on Sun Sep 27 06:40:06 UTC 2026