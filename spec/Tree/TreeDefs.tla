------------------------------ MODULE TreeDefs ------------------------------
\* Graph core and the graph-theoretic DEFINITIONS used by the tree / DAG
\* containers (property C15).  Pure operators over explicit arguments:
\*   N  set of node ids            E  function  edge id -> <<top, bottom>>
\*   d  TRUE = directed (rooted)   r  the recorded root id (may be dangling)
\* Nothing here is an algorithm of the implementation: reachability is a least
\* fixed point, validity is "spanning from the root with |E| = |V|-1", the
\* re-rooted orientation is "the end point on the root's side comes first".
EXTENDS Naturals, FiniteSets, Sequences, TLC

None == 0                                   \* "no object" / "no node"

Restrict(f, S) == [x \in S |-> f[x]]
Unordered(p)   == {p[1], p[2]}
SeqToSet(s)    == {s[i] : i \in DOMAIN s}
Distinct(s)    == \A i, j \in DOMAIN s : i # j => s[i] # s[j]

\* ---- incidence (undirected mode: every edge is listed from both ends)
OutE(E, d, n) == {e \in DOMAIN E : E[e][1] = n \/ (~d /\ E[e][2] = n)}
InE(E, d, n)  == {e \in DOMAIN E : E[e][2] = n \/ (~d /\ E[e][1] = n)}
Other(E, e, n) == IF E[e][1] = n THEN E[e][2] ELSE E[e][1]
OutN(E, d, n) == {Other(E, e, n) : e \in OutE(E, d, n)}
InN(E, d, n)  == {Other(E, e, n) : e \in InE(E, d, n)}
\* edges realising the relation a -> b (a - b when undirected)
Rel(E, d, a, b) == {e \in DOMAIN E : E[e] = <<a, b>> \/ (~d /\ E[e] = <<b, a>>)}
Adjacent(E, a, b) == \E e \in DOMAIN E : Unordered(E[e]) = {a, b}
Reciprocal(E) == \E e, f \in DOMAIN E : e # f /\ Unordered(E[e]) = Unordered(E[f])

\* ---- reachability: least fixed point of S = S0 \cup successors(S)
RECURSIVE ReachFrom(_, _, _)
ReachFrom(E, d, S) ==
  LET T == S \cup UNION {OutN(E, d, n) : n \in S}
  IN  IF T = S THEN S ELSE ReachFrom(E, d, T)
ReachPlus(E, n) == ReachFrom(E, TRUE, OutN(E, TRUE, n))       \* by >= 1 directed edge

\* ---- the two validity predicates (the property's definitions)
IsTreeDef(N, E, d, r) ==
  /\ r \in N
  /\ ReachFrom(E, d, {r}) = N
  /\ Cardinality(DOMAIN E) = Cardinality(N) - 1
IsDagDef(N, E) == \A n \in N : n \notin ReachPlus(E, n)
Fatherless(N, E) == {n \in N : InE(E, TRUE, n) = {}}

\* ---- reference queries on a rooted (directed) graph
Sons(E, n)      == OutN(E, TRUE, n)
Branches(E, n)  == OutE(E, TRUE, n)
Fathers(E, n)   == InN(E, TRUE, n)
HasFather(E, n) == InE(E, TRUE, n) # {}
Father(E, n)    == CHOOSE f \in Fathers(E, n) : TRUE
EdgeToFather(E, n) == CHOOSE e \in InE(E, TRUE, n) : TRUE
Desc(E, n)      == ReachFrom(E, TRUE, {n})                     \* sub-tree nodes, n included
SubEdges(E, n)  == {e \in DOMAIN E : E[e][1] \in Desc(E, n)}
LeavesUnder(E, n) == {m \in Desc(E, n) : OutE(E, TRUE, m) = {}}
Anc(N, E, n)    == {m \in N : n \in Desc(E, m)}                \* n included
CommonAnc(N, E, S) == {m \in N : \A s \in S : s \in Desc(E, m)}
\* deepest common ancestor: the common ancestor lying below every other one
Mrca(N, E, S)   == CHOOSE m \in CommonAnc(N, E, S) : \A k \in CommonAnc(N, E, S) : m \in Desc(E, k)

\* a path is DEFINED as a repetition-free walk from a to b
IsNodePath(E, p, a, b) ==
  /\ Len(p) >= 1 /\ p[1] = a /\ p[Len(p)] = b /\ Distinct(p)
  /\ \A i \in 1..(Len(p) - 1) : Adjacent(E, p[i], p[i + 1])
IsEdgePath(E, q, p) ==
  /\ Len(q) = Len(p) - 1
  /\ \A i \in DOMAIN q : q[i] \in DOMAIN E /\ Unordered(E[q[i]]) = {p[i], p[i + 1]}

\* constructive form (used to compare sequences; NodePathIsPath in Tree.tla
\* checks that it meets the definition on every valid tree of the model)
RECURSIVE PathUp(_, _)
PathUp(E, n) == IF HasFather(E, n) THEN <<n>> \o PathUp(E, Father(E, n)) ELSE <<n>>
UpTo(s, m)   == LET k == CHOOSE i \in DOMAIN s : s[i] = m IN SubSeq(s, 1, k)
Rev(s)       == [i \in DOMAIN s |-> s[Len(s) + 1 - i]]
NodePathVia(E, a, b, m) ==                    \* m = the deepest common ancestor of a and b
  LET ua == UpTo(PathUp(E, a), m)
      ub == UpTo(PathUp(E, b), m)
  IN  ua \o Rev(SubSeq(ub, 1, Len(ub) - 1))
NodePath(N, E, a, b) == NodePathVia(E, a, b, Mrca(N, E, {a, b}))
Without(s, m) == SelectSeq(s, LAMBDA x : x # m)
EdgeBetween(E, a, b) == CHOOSE e \in DOMAIN E : Unordered(E[e]) = {a, b}
EdgesAlong(E, p) == [i \in 1..(Len(p) - 1) |-> EdgeBetween(E, p[i], p[i + 1])]
EdgePath(N, E, a, b) == EdgesAlong(E, NodePath(N, E, a, b))

\* the same definitions over a table D = [n |-> Desc(E, n)] computed once (trace
\* validation asks hundreds of queries about one state); MrcaTableOk in Tree.tla
\* checks that both forms agree on every valid tree of the model
DescTable(N, E) == [n \in N |-> Desc(E, n)]
MrcaT(D, S) == CHOOSE m \in DOMAIN D : S \subseteq D[m] /\ \A k \in DOMAIN D : S \subseteq D[k] => m \in D[k]

\* ---- orienting an arbitrary graph from a root (DAG::rootAt, GlobalGraph::orientate)
\* possible exactly when the graph, read without directions, is connected and simple
Simple(E) == /\ \A e \in DOMAIN E : E[e][1] # E[e][2]
             /\ ~Reciprocal(E)
Orientable(N, E, r) == r \in N /\ Simple(E) /\ ReachFrom(E, FALSE, {r}) = N
\* E2 is E with some edges turned round: same ids on the same links
SameLinks(E, E2) == DOMAIN E2 = DOMAIN E /\ \A e \in DOMAIN E : Unordered(E2[e]) = Unordered(E[e])
Flip(E, F) == [e \in DOMAIN E |-> IF e \in F THEN <<E[e][2], E[e][1]>> ELSE E[e]]
\* what "the DAG hangs from r" means: acyclic and r is the one node without father
HangsFrom(N, E, r) == IsDagDef(N, E) /\ Fatherless(N, E) = {r}

\* ---- re-rooting: same edges, each one oriented away from the new root
\* (the end point that stays connected to r when the edge is cut comes first)
Reroot(E, r) ==
  [e \in DOMAIN E |->
     LET cut == Restrict(E, DOMAIN E \ {e})
         side == ReachFrom(cut, FALSE, {r})
     IN  IF E[e][1] \in side THEN E[e] ELSE <<E[e][2], E[e][1]>>]
=============================================================================
