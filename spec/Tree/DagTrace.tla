------------------------------ MODULE DagTrace ------------------------------
\* Trace validation for the DAG container (AssociationDAGlobalGraphObserver /
\* DAGlobalGraph): every recorded event is a step of Dag.tla, the state read
\* back equals the model's, every answer equals the definition.
\* State: n node ids, e <<id,top,bottom>>, o / i node table, eo / oe observer maps.
EXTENDS Dag, TraceLib, Integers

S == Ev.s
NoDup(s) == Cardinality(SeqToSet(s)) = Len(s)
Keys(ps) == {ps[i][1] : i \in DOMAIN ps}
Val(ps, k) == ps[CHOOSE i \in DOMAIN ps : ps[i][1] = k][2]

ProjOK ==
  /\ NoDup(S.n) /\ nodes' = SeqToSet(S.n)
  /\ Keys(S.e) = DOMAIN edges' /\ Len(S.e) = Cardinality(DOMAIN edges')
  /\ \A i \in DOMAIN S.e : LET x == S.e[i] IN edges'[x[1]] = <<x[2], x[3]>>
  /\ Keys(S.o) = nodes' /\ Len(S.o) = Cardinality(nodes')
  /\ Keys(S.i) = nodes' /\ Len(S.i) = Cardinality(nodes')
  /\ \A n \in nodes' : /\ SeqToSet(Val(S.o, n)) = OutN(edges', TRUE, n)
                       /\ SeqToSet(Val(S.i, n)) = InN(edges', TRUE, n)
  /\ Keys(S.eo) = DOMAIN eObj' /\ Len(S.eo) = Cardinality(DOMAIN eObj')
  /\ \A e \in DOMAIN eObj' : Val(S.eo, e) = eObj'[e]
  /\ Keys(S.oe) = {eObj'[e] : e \in DOMAIN eObj'} /\ Len(S.oe) = Len(S.eo)
  /\ \A e \in DOMAIN eObj' : Val(S.oe, eObj'[e]) = e

Out == res' = Ev.r

TReset == /\ IsEvent("Reset")
          /\ nodes' = {} /\ edges' = <<>> /\ nextN' = 0 /\ nextE' = 0 /\ eObj' = <<>>
          /\ acyclic' = TRUE /\ cacheV' = FALSE /\ cacheR' = FALSE /\ res' = "ok"

TCreateNode   == IsEvent("CreateNode") /\ CreateNode /\ Out /\ Ev.id = nextN /\ ProjOK
TAddSon       == IsEvent("AddSon") /\ AddSon(Ev.a[1], Ev.a[2], Ev.a[3]) /\ Out /\ ProjOK
TAddFather    == IsEvent("AddFather") /\ AddFather(Ev.a[1], Ev.a[2], Ev.a[3]) /\ Out /\ ProjOK
TLink         == IsEvent("Link") /\ Link(Ev.a[1], Ev.a[2], Ev.a[3], "Link") /\ Out /\ ProjOK
TRemoveSon    == IsEvent("RemoveSon") /\ RemoveSon(Ev.a[1], Ev.a[2]) /\ Out /\ ProjOK
TRemoveFather == IsEvent("RemoveFather") /\ RemoveFather(Ev.a[1], Ev.a[2]) /\ Out /\ ProjOK
TUnlink       == IsEvent("Unlink") /\ Unlink(Ev.a[1], Ev.a[2], "Unlink") /\ Out /\ ProjOK
TDeleteNode   == IsEvent("DeleteNode") /\ DeleteNode(Ev.a[1]) /\ Out /\ ProjOK

\* rootAt: the orientation read back is adopted and must meet the definition
LoggedEdges == [id \in Keys(S.e) |-> LET x == S.e[CHOOSE i \in DOMAIN S.e : S.e[i][1] = id] IN <<x[2], x[3]>>]
TRootAt == /\ IsEvent("RootAt")
           /\ IF Ev.r = "ok" THEN RootAtTo(Ev.a[1], LoggedEdges) ELSE (Ev.a[1] \notin nodes /\ Raise /\ Out)
           /\ ProjOK

\* the answers are adopted; ValidExact / RootedExact judge them
TQValid  == /\ IsEvent("QValid") /\ Ev.r \in {"T", "F"} /\ res' = Ev.r
            /\ cacheV' = Valid /\ UNCHANGED <<gvars, acyclic, cacheR>> /\ ProjOK
TQRooted == /\ IsEvent("QRooted") /\ Ev.r \in {"RT", "RF"} /\ res' = Ev.r
            /\ cacheR' = (cacheR \/ Cardinality(NoFather) = 1) /\ UNCHANGED <<gvars, acyclic, cacheV>> /\ ProjOK

TQFathers ==
  /\ IsEvent("QFathers") /\ QStruct /\ ProjOK
  /\ \A i \in DOMAIN Ev.rows :
       LET x == Ev.rows[i]  n == x[1] IN
         /\ n \in nodes
         /\ SeqToSet(x[2]) = Fathers(edges, n) /\ x[3] = Cardinality(Fathers(edges, n))
         /\ x[4] = HasFather(edges, n)
         /\ SeqToSet(x[5]) = Sons(edges, n) /\ x[6] = Cardinality(Sons(edges, n))
\* leaves under a node: asserted on acyclic graphs (the walk need not end otherwise)
TQLeaves ==
  /\ IsEvent("QLeaves") /\ acyclic /\ QStruct /\ ProjOK
  /\ \A i \in DOMAIN Ev.rows :
       LET x == Ev.rows[i] IN x[1] \in nodes /\ SeqToSet(x[2]) = LeavesUnder(edges, x[1])
\* getBelowNodes / getBelowEdges: refused when the graph is not a DAG
TQBelow ==
  /\ IsEvent("QBelow") /\ Len(Ev.rows) = 1
  /\ LET x == Ev.rows[1] IN
       /\ QBelow(x[1]) /\ res' = x[2] /\ res' = x[5]
       /\ acyclic => /\ SeqToSet(x[3]) = Desc(edges, x[1])
                     /\ SeqToSet(x[4]) = SubEdges(edges, x[1])
  /\ ProjOK

TraceNext == TRootAt \/ TReset \/ TCreateNode \/ TAddSon \/ TAddFather \/ TLink \/ TRemoveSon \/ TRemoveFather \/ TUnlink
             \/ TDeleteNode \/ TQValid \/ TQRooted \/ TQFathers \/ TQLeaves \/ TQBelow
TraceInit == Init /\ l = 1
TraceSpec == TraceInit /\ [][TraceNext]_<<vars, l>>
=============================================================================
